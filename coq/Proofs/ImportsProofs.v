(* Proofs about Model/Imports.v *)
From TxV Require Import Core.Base Model.Imports.

(* ------------------------------------------------------------------ dotted names *)
Lemma rsplit1_nodot n : has_dot n = false -> rsplit1 n = None.
Proof.
  induction n as [|c n IH]; cbn [has_dot existsb rsplit1]; [reflexivity|].
  intro H. apply orb_false_iff in H as [Hc Hn]. fold (has_dot n) in Hn. rewrite (IH Hn).
  rewrite N.eqb_sym in Hc. rewrite Hc. reflexivity.
Qed.

Lemma rsplit1_some_dot s p l : rsplit1 s = Some (p, l) -> has_dot s = true.
Proof.
  revert p l; induction s as [|c s IH]; cbn [has_dot existsb rsplit1]; intros p l H; [discriminate|].
  destruct (rsplit1 s) as [[p' l']|] eqn:E.
  - fold (has_dot s). rewrite (IH _ _ eq_refl). apply orb_true_r.
  - destruct (N.eqb c DOT) eqn:Ec; [|discriminate]. rewrite N.eqb_sym, Ec. reflexivity.
Qed.

Lemma rsplit1_qualified q n : has_dot n = false -> rsplit1 (q ++ DOT :: n) = Some (q, n).
Proof.
  intro Hn. induction q as [|c q IH]; cbn [app rsplit1].
  - rewrite (rsplit1_nodot _ Hn). rewrite N.eqb_refl. reflexivity.
  - rewrite IH. reflexivity.
Qed.

(* ------------------------------------------------------------------ association lists *)
Section AssocLemmas.
  Context {A : Type}.
  Implicit Types l : list (list N * A).

  Lemma aget_aset_same k v l : aget k (aset k v l) = Some v.
  Proof.
    induction l as [|[k' v'] l IH]; cbn [aset aget].
    - rewrite str_eqb_refl. reflexivity.
    - destruct (str_eqb k k') eqn:E; cbn [aget]; [rewrite str_eqb_refl; reflexivity|].
      rewrite E. exact IH.
  Qed.

  Lemma aget_aset_other k k' v l : k' <> k -> aget k' (aset k v l) = aget k' l.
  Proof.
    intro Hne. induction l as [|[k2 v2] l IH]; cbn [aset aget].
    - apply str_eqb_neq in Hne. rewrite Hne. reflexivity.
    - destruct (str_eqb k k2) eqn:E; cbn [aget].
      + apply str_eqb_eq in E. subst k2. apply str_eqb_neq in Hne. rewrite Hne. reflexivity.
      + rewrite IH. reflexivity.
  Qed.

  Lemma aget_aset_some k k' v l : aget k' l <> None -> aget k' (aset k v l) <> None.
  Proof.
    intro H. destruct (str_eqb k' k) eqn:E.
    - apply str_eqb_eq in E. subst. rewrite aget_aset_same. discriminate.
    - apply str_eqb_neq in E. rewrite aget_aset_other by exact E. exact H.
  Qed.

  Lemma aget_aupd_same k f l : aget k (aupd k f l) = option_map f (aget k l).
  Proof.
    induction l as [|[k' v'] l IH]; cbn [aupd aget]; [reflexivity|].
    destruct (str_eqb k k') eqn:E; cbn [aget]; rewrite E; [reflexivity | exact IH].
  Qed.

  Lemma aget_aupd_other k k' f l : k' <> k -> aget k' (aupd k f l) = aget k' l.
  Proof.
    intro Hne. induction l as [|[k2 v2] l IH]; cbn [aupd aget]; [reflexivity|].
    destruct (str_eqb k k2) eqn:E; cbn [aget]; [| rewrite IH; reflexivity].
    apply str_eqb_eq in E. subst k2. apply str_eqb_neq in Hne. rewrite Hne. reflexivity.
  Qed.

  Lemma akeys_aupd k f l : akeys (aupd k f l) = akeys l.
  Proof.
    induction l as [|[k' v'] l IH]; cbn [aupd akeys map]; [reflexivity|].
    destruct (str_eqb k k'); cbn [map fst]; [reflexivity|]. f_equal. exact IH.
  Qed.

  Lemma aget_app k l l' : aget k (l ++ l') = match aget k l with Some v => Some v | None => aget k l' end.
  Proof.
    induction l as [|[k' v'] l IH]; cbn [app aget]; [reflexivity|].
    destruct (str_eqb k k'); [reflexivity | exact IH].
  Qed.

  Lemma aget_none_keys k l : aget k l = None <-> ~ In k (akeys l).
  Proof.
    induction l as [|[k' v'] l IH]; cbn [aget akeys map In fst].
    - split; [intros _ H; exact H | reflexivity].
    - destruct (str_eqb k k') eqn:E.
      + apply str_eqb_eq in E. subst. split; [discriminate | intro H; exfalso; apply H; left; reflexivity].
      + apply str_eqb_neq in E. rewrite IH. unfold akeys. split.
        * intros H [H1|H1]; [apply E; symmetry; exact H1 | exact (H H1)].
        * intros H H1. apply H. right. exact H1.
  Qed.
End AssocLemmas.

(* ------------------------------------------------------------------ __getitem__ *)
Lemma first_def_some s nss name c :
  first_def s nss name = Some c <->
  exists pre i post, nss = pre ++ i :: post /\ (forall j, In j pre -> lookup_in s j name = None)
                     /\ lookup_in s i name = Some c.
Proof.
  induction nss as [|n r IH]; cbn [first_def].
  - split; [discriminate|]. intros (pre & i & post & H & _). destruct pre; discriminate.
  - destruct (lookup_in s n name) as [c'|] eqn:E.
    + split.
      * intro H. exists [], n, r. split; [reflexivity|]. split; [intros j []|]. congruence.
      * intros (pre & i & post & H & Hpre & Hi). destruct pre as [|p pre]; cbn [app] in H; inversion H; subst.
        -- congruence.
        -- rewrite (Hpre p (or_introl eq_refl)) in E. discriminate.
    + rewrite IH. split.
      * intros (pre & i & post & H & Hpre & Hi). exists (n :: pre), i, post. subst r.
        split; [reflexivity|]. split; [|exact Hi]. intros j [Hj|Hj]; [subst; exact E | apply Hpre; exact Hj].
      * intros (pre & i & post & H & Hpre & Hi). destruct pre as [|p pre]; cbn [app] in H; inversion H; subst.
        -- congruence.
        -- exists pre, i, post. split; [reflexivity|]. split; [|exact Hi]. intros j Hj. apply Hpre. right. exact Hj.
Qed.

Lemma first_def_none s nss name :
  first_def s nss name = None <-> forall j, In j nss -> lookup_in s j name = None.
Proof.
  induction nss as [|n r IH]; cbn [first_def].
  - split; [intros _ j [] | reflexivity].
  - destruct (lookup_in s n name) eqn:E.
    + split; [discriminate|]. intro H. rewrite (H n (or_introl eq_refl)) in E. discriminate.
    + rewrite IH. split.
      * intros H j [Hj|Hj]; [subst; exact E | apply H; exact Hj].
      * intros H j Hj. apply H. right. exact Hj.
Qed.

(* An unqualified name: the rule of the current namespace if it has one, otherwise the first
   namespace of the current namespace's import list (in order) that has it. *)
Lemma lookup_unqualified s cur name c : has_dot name = false ->
  (lookup s cur name = Some c <->
   lookup_in s cur name = Some c \/
   (lookup_in s cur name = None /\
    exists pre i post, imports_of s cur = pre ++ i :: post
                       /\ (forall j, In j pre -> lookup_in s j name = None)
                       /\ lookup_in s i name = Some c)).
Proof.
  intro Hd. unfold lookup. rewrite (rsplit1_nodot _ Hd).
  destruct (lookup_in s cur name) as [c'|] eqn:E.
  - split; [intro H; left; exact H | intros [H|[H _]]; [exact H | discriminate]].
  - rewrite first_def_some. split; [intro H; right; split; [reflexivity | exact H] | intros [H|[_ H]]; [discriminate | exact H]].
Qed.

Lemma lookup_unqualified_none s cur name : has_dot name = false ->
  (lookup s cur name = None <->
   lookup_in s cur name = None /\ forall j, In j (imports_of s cur) -> lookup_in s j name = None).
Proof.
  intro Hd. unfold lookup. rewrite (rsplit1_nodot _ Hd).
  destruct (lookup_in s cur name) as [c'|] eqn:E.
  - split; [discriminate | intros [H _]; discriminate].
  - rewrite first_def_none. split; [intro H; split; [reflexivity | exact H] | intros [_ H]; exact H].
Qed.

(* A qualified name selects the named namespace's rule, whatever the current namespace and
   its imports are. *)
Lemma lookup_qualified s cur q n : has_dot n = false -> lookup s cur (q ++ DOT :: n) = lookup_in s q n.
Proof. intro Hd. unfold lookup. rewrite (rsplit1_qualified _ _ Hd). reflexivity. Qed.

(* ------------------------------------------------------------------ the cyclic-import defect *)
Lemma cycle_silent_wrong :
  serr (load_main ex_silent [97]%N) = None /\
  exists l, In l (links (load_main ex_silent [97]%N)) /\ l_ns l = [98]%N /\ l_name l = [88]%N /\
            option_map cls_key (l_target l) = Some ([99], [88])%N /\
            spec_resolve ex_silent (l_ns l) (l_name l) = Some ([97], [88])%N.
Proof.
  split; [vm_compute; reflexivity|].
  eexists. split; [vm_compute; left; reflexivity|]. vm_compute. repeat split; reflexivity.
Qed.

Lemma cycle_unexisting_fails :
  serr (load_main ex_unexisting [97]%N) = Some (EUnexisting [98] [[88]])%N /\
  spec_resolve ex_unexisting [98]%N [88]%N = Some ([97], [88])%N.
Proof. split; vm_compute; reflexivity. Qed.

(* ------------------------------------------------------------------ generic induction over load *)
Lemma has_err_false s : has_err s = false <-> serr s = None.
Proof. unfold has_err. destruct (serr s); split; intro H; try reflexivity; discriminate. Qed.

Section LoadRel.
  Variable fs : list (list N * gfile).
  Variable R : st -> st -> Prop.
  Hypothesis R_refl : forall s, R s s.
  Hypothesis R_trans : forall a b c, R a b -> R b c -> R a c.
  Hypothesis R_set_err : forall e s, serr s = None -> R s (set_err e s).
  Hypothesis R_enter : forall a s, serr s = None -> has_ns s a = false -> R s (enter a s).
  Hypothesis R_add_imported : forall cur a s, serr s = None -> R s (add_imported cur a s).
  Hypothesis R_note_back : forall cur a s, serr s = None -> R s (note_back cur a s).
  Hypothesis R_log_load : forall ns s, serr s = None -> R s (log_load ns s).
  Hypothesis R_new_class : forall ns f r s, serr s = None -> aget ns fs = Some f -> In r (grules f) ->
                                            R s (new_class ns r s).
  Hypothesis R_second : forall ns f s, serr s = None -> aget ns fs = Some f -> R s (second_pass ns f s).

  Lemma new_import_rel rec stk cur imp s :
    (forall a t, R t (rec a t)) -> R s (new_import rec stk cur imp s).
  Proof.
    intro Hrec. unfold new_import. destruct (has_err s) eqn:He; [apply R_refl|].
    apply has_err_false in He.
    set (a := abs_import cur imp).
    set (s1 := if has_ns s a then if mem_str a stk then note_back cur a s else s else rec a (enter a s)).
    assert (H1 : R s s1).
    { unfold s1. destruct (has_ns s a) eqn:Hn.
      - destruct (mem_str a stk); [apply R_note_back; exact He | apply R_refl].
      - apply (R_trans _ (enter a s)); [apply R_enter; assumption | apply Hrec]. }
    destruct (has_err s1) eqn:He1; [exact H1|].
    apply has_err_false in He1. eapply R_trans; [exact H1 | apply R_add_imported; exact He1].
  Qed.

  Lemma fold_imports_rel rec stk cur imps s :
    (forall a t, R t (rec a t)) ->
    R s (fold_left (fun s imp => new_import rec stk cur imp s) imps s).
  Proof.
    intro Hrec. revert s. induction imps as [|i imps IH]; intro s; cbn [fold_left]; [apply R_refl|].
    apply (R_trans _ (new_import rec stk cur i s)); [apply new_import_rel; exact Hrec | apply IH].
  Qed.

  Lemma new_class_err ns r s : serr s <> None -> new_class ns r s = s.
  Proof. intro H. unfold new_class, has_err. destruct (serr s); [reflexivity | contradiction]. Qed.

  Lemma fold_classes_rel ns f rs s :
    aget ns fs = Some f -> incl rs (grules f) ->
    R s (fold_left (fun s r => new_class ns r s) rs s).
  Proof.
    intros Hf. revert s. induction rs as [|r rs IH]; intros s Hin; cbn [fold_left]; [apply R_refl|].
    apply (R_trans _ (new_class ns r s)).
    - destruct (serr s) eqn:He.
      + rewrite new_class_err by (rewrite He; discriminate). apply R_refl.
      + apply (R_new_class ns f r s He Hf). apply Hin. left. reflexivity.
    - apply IH. intros x Hx. apply Hin. right. exact Hx.
  Qed.

  Lemma second_pass_err ns f s : serr s <> None -> second_pass ns f s = s.
  Proof. intro H. unfold second_pass, has_err. destruct (serr s); [reflexivity | contradiction]. Qed.

  Lemma load_rel : forall fuel stk ns s, R s (load fuel fs stk ns s).
  Proof.
    induction fuel as [|fuel IH]; intros stk ns s; cbn [load];
      (destruct (has_err s) eqn:He; [apply R_refl|]); apply has_err_false in He;
      (destruct (aget ns fs) as [f|] eqn:Hf; [|apply R_set_err; exact He]).
    - apply R_set_err; exact He.
    - cbv zeta.
      set (s0 := log_load ns s).
      set (s1 := fold_left _ (gimports f) s0).
      set (s2 := fold_left _ (grules f) s1).
      apply (R_trans _ s0); [apply R_log_load; exact He|].
      apply (R_trans _ s1); [apply fold_imports_rel; intros a t; apply IH|].
      apply (R_trans _ s2); [apply (fold_classes_rel ns f); [exact Hf | apply incl_refl]|].
      destruct (serr s2) eqn:He2.
      + rewrite second_pass_err by (rewrite He2; discriminate). apply R_refl.
      + apply R_second; assumption.
  Qed.
End LoadRel.

(* ------------------------------------------------------------------ effect of the primitive steps *)
Lemma lookup_in_enter a s b n : has_ns s a = false -> lookup_in (enter a s) b n = lookup_in s b n.
Proof.
  unfold has_ns, lookup_in, enter; cbn [spaces]. intro H. rewrite aget_app.
  destruct (aget b (spaces s)) as [d|] eqn:E; [reflexivity|].
  cbn [aget]. destruct (str_eqb b a); reflexivity.
Qed.

Lemma has_ns_enter a s k : has_ns (enter a s) k = has_ns s k || str_eqb k a.
Proof.
  unfold has_ns, enter; cbn [spaces]. rewrite aget_app.
  destruct (aget k (spaces s)); [reflexivity|]. cbn [aget]. destruct (str_eqb k a); reflexivity.
Qed.

Definition mk_cls (s : st) (ns : list N) (r : rule) : cls := {| c_id := created s; c_ns := ns; c_name := rname r |}.

Lemma lookup_in_new_class ns r s a n : serr s = None ->
  lookup_in (new_class ns r s) a n =
  if str_eqb a ns && has_ns s ns && str_eqb n (rname r) then Some (mk_cls s ns r) else lookup_in s a n.
Proof.
  intro He. unfold new_class. apply has_err_false in He. rewrite He.
  unfold lookup_in, has_ns; cbn [spaces]. destruct (str_eqb a ns) eqn:E.
  - apply str_eqb_eq in E; subst a. rewrite aget_aupd_same.
    destruct (aget ns (spaces s)) as [d|]; cbn [option_map andb]; [|reflexivity].
    destruct (str_eqb n (rname r)) eqn:En.
    + apply str_eqb_eq in En; subst n. rewrite aget_aset_same. reflexivity.
    + apply str_eqb_neq in En. rewrite aget_aset_other by exact En. reflexivity.
  - apply str_eqb_neq in E. rewrite aget_aupd_other by exact E. reflexivity.
Qed.

Lemma has_ns_new_class ns r s k : has_ns (new_class ns r s) k = has_ns s k.
Proof.
  unfold new_class. destruct (has_err s); [reflexivity|]. unfold has_ns; cbn [spaces].
  destruct (str_eqb k ns) eqn:E.
  - apply str_eqb_eq in E; subst. rewrite aget_aupd_same. destruct (aget ns (spaces s)); reflexivity.
  - apply str_eqb_neq in E. rewrite aget_aupd_other by exact E. reflexivity.
Qed.

Lemma second_pass_cases ns f s : serr s = None ->
  (exists e, second_pass ns f s = set_err e s) \/
  (second_pass ns f s = log_done ns (add_links (flat_map (links_of_rule s ns) (grules f)) s)
   /\ unresolved false (flat_map (links_of_rule s ns) (grules f)) = []
   /\ unresolved true (flat_map (links_of_rule s ns) (grules f)) = []).
Proof.
  intro He. unfold second_pass. apply has_err_false in He. rewrite He.
  destruct (unresolved false _) eqn:E1; [|left; eexists; reflexivity].
  destruct (unresolved true _) eqn:E2; [|left; eexists; reflexivity].
  right. repeat split; reflexivity.
Qed.

(* ------------------------------------------------------------------ what only grows *)
Record grow (s s' : st) : Prop := {
  g_ns : forall k, has_ns s k = true -> has_ns s' k = true;
  g_lk : forall a n, lookup_in s a n <> None -> lookup_in s' a n <> None;
  g_done : incl (done s) (done s');
  g_backs : backs s' = [] -> backs s = [];
  g_err : serr s' = None -> serr s = None;
  g_links : incl (links s) (links s');
  g_loads : incl (loads s) (loads s') }.

Lemma grow_refl s : grow s s.
Proof. constructor; auto using incl_refl. Qed.

Lemma grow_trans a b c : grow a b -> grow b c -> grow a c.
Proof.
  intros [A1 A2 A3 A4 A5 A6 A7] [B1 B2 B3 B4 B5 B6 B7]. constructor; eauto using incl_tran.
Qed.

Lemma app_nil_inv {A} (l l' : list A) : l ++ l' = [] -> l = [].
Proof. destruct l; [reflexivity | discriminate]. Qed.

Lemma grow_load fs fuel stk ns s : grow s (load fuel fs stk ns s).
Proof.
  apply load_rel.
  - apply grow_refl.
  - apply grow_trans.
  - intros e t He. constructor; cbn; auto using incl_refl.
  - intros a t He Hn. constructor; cbn [done backs serr links loads enter]; auto using incl_refl.
    + intros k Hk. rewrite has_ns_enter, Hk. reflexivity.
    + intros b n H. rewrite lookup_in_enter by exact Hn. exact H.
  - intros cur a t He. constructor; cbn; auto using incl_refl.
  - intros cur a t He. constructor; cbn; auto using incl_refl. apply app_nil_inv.
  - intros n t He. constructor; cbn; auto using incl_refl. apply incl_appl, incl_refl.
  - intros n f r t He Hf Hr. constructor.
    + intros k Hk. rewrite has_ns_new_class. exact Hk.
    + intros a m H. rewrite lookup_in_new_class by exact He.
      destruct (str_eqb a n && has_ns t n && str_eqb m (rname r)); [discriminate | exact H].
    + unfold new_class. destruct (has_err t); cbn; apply incl_refl.
    + unfold new_class. destruct (has_err t); cbn; auto.
    + unfold new_class. destruct (has_err t); cbn; auto.
    + unfold new_class. destruct (has_err t); cbn; apply incl_refl.
    + unfold new_class. destruct (has_err t); cbn; apply incl_refl.
  - intros n f t He Hf. destruct (second_pass_cases n f t He) as [[e ->]|[-> _]].
    + constructor; cbn; auto using incl_refl.
    + constructor; cbn; auto using incl_refl; try (apply incl_appl, incl_refl).
Qed.

(* ------------------------------------------------------------------ the class tables *)
Lemma number_from_In {A} (l : list A) : forall k i x,
  In (i, x) (number_from k l) -> k <= i /\ nth_error l (i - k) = Some x.
Proof.
  induction l as [|a l IH]; intros k i x H; cbn [number_from In] in H; [contradiction|].
  destruct H as [H|H].
  - inversion H; subst. split; [lia|]. replace (i - i) with 0 by lia. reflexivity.
  - apply IH in H as [H1 H2]. split; [lia|]. replace (i - k) with (S (i - S k)) by lia. exact H2.
Qed.

Lemma aget_map_In {A B} (g : A -> list N) (h : A -> B) (l : list A) n v :
  aget n (map (fun p => (g p, h p)) l) = Some v -> exists p, In p l /\ g p = n /\ v = h p.
Proof.
  induction l as [|p l IH]; cbn [map aget]; [discriminate|].
  destruct (str_eqb n (g p)) eqn:E.
  - intro H. inversion H; subst. apply str_eqb_eq in E. exists p. split; [left; reflexivity | split; [symmetry; exact E | reflexivity]].
  - intro H. destruct (IH H) as (q & Hq & Hg & Hv). exists q. split; [right; exact Hq | split; assumption].
Qed.

Lemma base_lookup n c : aget n base_dict = Some c ->
  c_ns c = BASE /\ c_name c = n /\ c_id c < length base_names /\ is_base n = true /\
  nth_error base_names (c_id c) = Some n.
Proof.
  unfold base_dict. intro H. apply aget_map_In in H as ([i x] & Hin & Hg & Hv). cbn [fst snd] in *. subst.
  apply number_from_In in Hin as [_ Hn]. replace (i - 0) with i in Hn by lia. cbn [c_ns c_name c_id].
  repeat split; try reflexivity.
  - apply nth_error_Some. rewrite Hn. discriminate.
  - apply mem_str_In. eapply nth_error_In. exact Hn.
  - exact Hn.
Qed.

Lemma base_complete n : is_base n = true -> aget n base_dict <> None.
Proof. unfold is_base. intro H. revert H. vm_compute. repeat (destruct (str_eqb n _); [discriminate|]). Abort.

Section Inv.
  Variable fs : list (list N * gfile).

  Definition cls_inv (s : st) : Prop := forall a n c, lookup_in s a n = Some c ->
    c_ns c = a /\ c_name c = n /\ c_id c < created s /\
    ((a = BASE /\ is_base n = true) \/ defines fs a n = true).
  Definition id_inj (s : st) : Prop := forall a n c a' n' c',
    lookup_in s a n = Some c -> lookup_in s a' n' = Some c' -> c_id c = c_id c' -> a = a' /\ n = n'.
  Definition sync (s : st) : Prop := akeys (spaces s) = akeys (imported s).
  Definition CF (s : st) : Prop := sync s /\ cls_inv s /\ id_inj s.

  Lemma CF_same s s' : spaces s' = spaces s -> akeys (imported s') = akeys (imported s) -> created s' = created s ->
    CF s -> CF s'.
  Proof.
    intros Hs Hi Hc (A & B & C). unfold CF, sync, cls_inv, id_inj, lookup_in in *. rewrite Hs, Hi, Hc.
    split; [|split]; assumption.
  Qed.

  Lemma CF_init : CF init.
  Proof.
    assert (L : forall a n c, lookup_in init a n = Some c -> a = BASE /\ aget n base_dict = Some c).
    { intros a n c. unfold lookup_in, init; cbn [spaces aget]. destruct (str_eqb a BASE) eqn:E; [|discriminate].
      apply str_eqb_eq in E. intro H. split; assumption. }
    split; [reflexivity|]. split.
    - intros a n c H. apply L in H as [-> H]. apply base_lookup in H as (H1 & H2 & H3 & H4 & _).
      repeat split; try assumption. left. split; [reflexivity | assumption].
    - intros a n c a' n' c' H H' Hid. apply L in H as [-> H]. apply L in H' as [-> H'].
      apply base_lookup in H as (_ & _ & _ & _ & H). apply base_lookup in H' as (_ & _ & _ & _ & H').
      rewrite Hid in H. rewrite H in H'. inversion H'. split; reflexivity.
  Qed.

  Lemma CF_enter a s : has_ns s a = false -> CF s -> CF (enter a s).
  Proof.
    intros Hn (A & B & C). split; [|split].
    - unfold sync, enter, akeys in *; cbn [spaces imported]. rewrite !map_app, A. reflexivity.
    - intros b n c H. rewrite lookup_in_enter in H by exact Hn. apply B in H. exact H.
    - intros b n c b' n' c' H H'. rewrite lookup_in_enter in H, H' by exact Hn. apply C; assumption.
  Qed.

  Lemma defines_rule ns f r : aget ns fs = Some f -> In r (grules f) -> defines fs ns (rname r) = true.
  Proof.
    intros Hf Hr. unfold defines. rewrite Hf. apply mem_str_In. apply in_map. exact Hr.
  Qed.

  Lemma CF_new_class ns f r s : serr s = None -> aget ns fs = Some f -> In r (grules f) ->
    CF s -> CF (new_class ns r s).
  Proof.
    intros He Hf Hr (A & B & C).
    assert (Hcr : created (new_class ns r s) = S (created s)).
    { unfold new_class. apply has_err_false in He. rewrite He. reflexivity. }
    split; [|split].
    - unfold sync, new_class. destruct (has_err s); [exact A|]. cbn [spaces imported]. rewrite akeys_aupd. exact A.
    - intros a n c H. rewrite lookup_in_new_class in H by exact He. rewrite Hcr.
      destruct (str_eqb a ns && has_ns s ns && str_eqb n (rname r)) eqn:E.
      + apply andb_true_iff in E as [E E3]. apply andb_true_iff in E as [E1 _].
        apply str_eqb_eq in E1, E3. subst a n. inversion H; subst c. cbn [mk_cls c_ns c_name c_id].
        repeat split; try reflexivity; [lia|]. right. eapply defines_rule; eassumption.
      + apply B in H as (H1 & H2 & H3 & H4). repeat split; try assumption. lia.
    - intros a n c a' n' c' H H' Hid. rewrite lookup_in_new_class in H, H' by exact He.
      destruct (str_eqb a ns && has_ns s ns && str_eqb n (rname r)) eqn:E;
      destruct (str_eqb a' ns && has_ns s ns && str_eqb n' (rname r)) eqn:E'.
      + apply andb_true_iff in E as [E E3]. apply andb_true_iff in E as [E1 _].
        apply andb_true_iff in E' as [E' E3']. apply andb_true_iff in E' as [E1' _].
        apply str_eqb_eq in E1, E3, E1', E3'. subst. split; reflexivity.
      + inversion H; subst c. apply B in H' as (_ & _ & H' & _). cbn [mk_cls c_id] in Hid. lia.
      + inversion H'; subst c'. apply B in H as (_ & _ & H & _). cbn [mk_cls c_id] in Hid. lia.
      + eapply C; eassumption.
  Qed.

  Lemma CF_load fuel stk ns s : CF s -> CF (load fuel fs stk ns s).
  Proof.
    apply (load_rel fs (fun s s' => CF s -> CF s')).
    - auto.
    - auto.
    - intros e t _. apply CF_same; reflexivity.
    - intros a t _. apply CF_enter.
    - intros cur a t _. apply CF_same; [reflexivity | cbn [imported add_imported]; apply akeys_aupd | reflexivity].
    - intros cur a t _. apply CF_same; reflexivity.
    - intros n t _. apply CF_same; reflexivity.
    - intros n f r t. apply CF_new_class.
    - intros n f t He _. destruct (second_pass_cases n f t He) as [[e ->]|[-> _]]; apply CF_same; reflexivity.
  Qed.
End Inv.

(* ------------------------------------------------------------------ resolution = documented order *)
Lemma BC_init n : is_base n = true -> lookup_in init BASE n <> None.
Proof.
  unfold lookup_in, init; cbn [spaces aget]. replace (str_eqb BASE BASE) with true by (vm_compute; reflexivity).
  unfold is_base, mem_str, base_dict, base_names.
  cbn [existsb number_from map aget fst snd].
  repeat (destruct (str_eqb n _); [intros _ H; discriminate H|]). cbn [orb]. discriminate.
Qed.

Lemma unresolved_nil b ls : unresolved b ls = [] -> forall l, In l ls -> l_cref l = b -> l_target l <> None.
Proof.
  unfold unresolved. intros H l Hl Hb Ht.
  assert (Hin : In l (filter (fun l => Bool.eqb (l_cref l) b && match l_target l with None => true | Some _ => false end) ls)).
  { apply filter_In. split; [exact Hl|]. rewrite Hb, Ht, Bool.eqb_reflx. reflexivity. }
  destruct (filter _ ls); [contradiction | discriminate].
Qed.

Section Main.
  Variable fs : list (list N * gfile).
  Hypothesis Hbase : aget BASE fs = None.

  Definition DI (s : st) : Prop :=
    forall a, In a (done s) -> forall n, defines fs a n = true -> lookup_in s a n <> None.
  Definition OS (stk : list (list N)) (s : st) : Prop :=
    forall a, has_ns s a = true -> a = BASE \/ In a (done s) \/ In a stk.
  Definition LK (s : st) : Prop := backs s = [] -> forall l, In l (links s) -> link_ok fs l.
  Definition BC (s : st) : Prop := forall n, is_base n = true -> lookup_in s BASE n <> None.

  Definition Ready (ns : list N) (f : gfile) (s : st) : Prop :=
    aget ns fs = Some f /\
    (forall r, In r (grules f) -> lookup_in s ns (rname r) <> None) /\
    imports_of s ns = BASE :: map (abs_import ns) (gimports f) /\
    (forall a, In a (map (abs_import ns) (gimports f)) -> In a (done s) \/ a = BASE).

  Lemma defines_base n : defines fs BASE n = false.
  Proof. unfold defines. rewrite Hbase. reflexivity. Qed.

  Lemma not_base_lookup s n : cls_inv fs s -> is_base n = false -> lookup_in s BASE n = None.
  Proof.
    intros B Hn. destruct (lookup_in s BASE n) as [c|] eqn:E; [|reflexivity].
    apply B in E as (_ & _ & _ & [[_ H]|H]); [congruence | rewrite defines_base in H; discriminate].
  Qed.

  Lemma first_def_spec s imps name : cls_inv fs s -> DI s -> is_base name = false ->
    (forall a, In a imps -> In a (done s) \/ a = BASE) ->
    option_map cls_key (first_def s imps name) = option_map (fun i => (i, name)) (first_defining fs imps name).
  Proof.
    intros B D Hn. induction imps as [|a imps IH]; intro Himps; cbn [first_def first_defining]; [reflexivity|].
    assert (IH' := IH (fun x Hx => Himps x (or_intror Hx))). clear IH.
    destruct (Himps a (or_introl eq_refl)) as [Hd| ->].
    - destruct (defines fs a name) eqn:Df.
      + destruct (lookup_in s a name) as [c|] eqn:E; [|exfalso; exact (D a Hd name Df E)].
        apply B in E as (H1 & H2 & _). unfold cls_key. cbn [option_map]. rewrite H1, H2. reflexivity.
      + destruct (lookup_in s a name) as [c|] eqn:E; [|exact IH'].
        apply B in E as (_ & _ & _ & [[_ H]|H]); congruence.
    - rewrite defines_base, (not_base_lookup s name B Hn). exact IH'.
  Qed.

  Lemma ready_lookup ns f s name c : Ready ns f s -> cls_inv fs s -> DI s -> BC s ->
    lookup s ns name = Some c -> Some (cls_key c) = spec_resolve fs ns name.
  Proof.
    intros (Hf & Hown & Himp & Hdone) B D Hbc. unfold lookup, spec_resolve.
    destruct (rsplit1 name) as [[q n]|].
    - intro E. apply B in E as (H1 & H2 & _ & Hd). unfold cls_key. rewrite H1, H2.
      destruct (defines fs q n); [reflexivity|]. destruct Hd as [[-> Hb]|Hd]; [|discriminate].
      rewrite Hb. replace (str_eqb BASE BASE) with true by (vm_compute; reflexivity). reflexivity.
    - assert (Hns : ns <> BASE) by (intro; subst; congruence).
      destruct (defines fs ns name) eqn:Df.
      + assert (Hl : lookup_in s ns name <> None).
        { unfold defines in Df. rewrite Hf in Df. apply mem_str_In in Df. apply in_map_iff in Df as (r & Hr & Hin).
          subst name. apply Hown. exact Hin. }
        destruct (lookup_in s ns name) as [c'|] eqn:E; [|contradiction]. intro H. inversion H; subst c'.
        apply B in E as (H1 & H2 & _). unfold cls_key. rewrite H1, H2. reflexivity.
      + destruct (lookup_in s ns name) as [c'|] eqn:E.
        { apply B in E as (_ & _ & _ & [[H _]|H]); congruence. }
        rewrite Himp. cbn [first_def]. destruct (is_base name) eqn:Ib.
        * destruct (lookup_in s BASE name) as [c'|] eqn:E'; [|exfalso; exact (Hbc name Ib E')].
          intro H. inversion H; subst c'. apply B in E' as (H1 & H2 & _). unfold cls_key. rewrite H1, H2. reflexivity.
        * rewrite (not_base_lookup s name B Ib). intro H.
          pose proof (first_def_spec s _ name B D Ib Hdone) as Hs. rewrite H in Hs. cbn [option_map] in Hs.
          unfold abs_imports. rewrite Hf. destruct (first_defining fs _ name); cbn [option_map] in Hs; [|discriminate].
          inversion Hs. reflexivity.
  Qed.

  (* when the look-up fails, the documented resolution has no rule either (unqualified names) *)
  Lemma ready_lookup_none ns f s name : Ready ns f s -> cls_inv fs s -> DI s -> BC s ->
    has_dot name = false -> lookup s ns name = None -> spec_resolve fs ns name = None.
  Proof.
    intros (Hf & Hown & Himp & Hdone) B D Hbc Hd. unfold lookup, spec_resolve. rewrite (rsplit1_nodot _ Hd).
    destruct (lookup_in s ns name) as [c'|] eqn:E; [discriminate|].
    destruct (defines fs ns name) eqn:Df.
    { exfalso. unfold defines in Df. rewrite Hf in Df. apply mem_str_In in Df. apply in_map_iff in Df as (r & Hr & Hin).
      subst name. exact (Hown r Hin E). }
    rewrite Himp. cbn [first_def]. destruct (is_base name) eqn:Ib.
    - destruct (lookup_in s BASE name) eqn:E'; [discriminate | exfalso; exact (Hbc name Ib E')].
    - rewrite (not_base_lookup s name B Ib). intro H.
      pose proof (first_def_spec s _ name B D Ib Hdone) as Hs. rewrite H in Hs. cbn [option_map] in Hs.
      unfold abs_imports. rewrite Hf. destruct (first_defining fs _ name); [discriminate | reflexivity].
  Qed.
End Main.

(* ------------------------------------------------------------------ import lists under the steps *)
Lemma aget_some_keys {A} k (l : list (list N * A)) : aget k l <> None <-> In k (akeys l).
Proof.
  split.
  - intro H. destruct (in_dec (list_eq_dec N.eq_dec) k (akeys l)) as [Hi|Hi]; [exact Hi|].
    apply aget_none_keys in Hi. contradiction.
  - intros Hi H. apply aget_none_keys in H. contradiction.
Qed.

Lemma sync_has_ns s k : sync s -> (has_ns s k = true <-> aget k (imported s) <> None).
Proof.
  unfold sync, has_ns. intro H. rewrite aget_some_keys, <- H, <- aget_some_keys.
  destruct (aget k (spaces s)); split; intro X; try reflexivity; try discriminate. contradiction.
Qed.

Lemma imports_of_enter_old a s k : aget k (imported s) <> None -> imports_of (enter a s) k = imports_of s k.
Proof.
  unfold imports_of, enter; cbn [imported]. intro H. rewrite aget_app.
  destruct (aget k (imported s)); [reflexivity | contradiction].
Qed.

Lemma imports_of_enter_new a s : aget a (imported s) = None -> imports_of (enter a s) a = [BASE].
Proof.
  unfold imports_of, enter; cbn [imported]. intro H. rewrite aget_app, H. cbn [aget]. rewrite str_eqb_refl. reflexivity.
Qed.

Lemma imports_of_add_same cur a s : aget cur (imported s) <> None ->
  imports_of (add_imported cur a s) cur = imports_of s cur ++ [a].
Proof.
  unfold imports_of, add_imported; cbn [imported]. intro H. rewrite aget_aupd_same.
  destruct (aget cur (imported s)); [reflexivity | contradiction].
Qed.

Lemma imports_of_add_other cur a s k : k <> cur -> imports_of (add_imported cur a s) k = imports_of s k.
Proof.
  unfold imports_of, add_imported; cbn [imported]. intro H. rewrite aget_aupd_other by exact H. reflexivity.
Qed.

Lemma has_ns_neq s a k : has_ns s a = false -> has_ns s k = true -> k <> a.
Proof. intros Ha Hk E. subst. congruence. Qed.

(* the rule names of one file *)
Lemma fold_classes_props ns rs : forall s, serr s = None -> has_ns s ns = true ->
  let s' := fold_left (fun s r => new_class ns r s) rs s in
  serr s' = None /\ done s' = done s /\ links s' = links s /\ backs s' = backs s /\ imported s' = imported s /\
  (forall k, has_ns s' k = has_ns s k) /\
  (forall a n, lookup_in s a n <> None -> lookup_in s' a n <> None) /\
  (forall r, In r rs -> lookup_in s' ns (rname r) <> None).
Proof.
  induction rs as [|r rs IH]; intros s He Hn; cbn [fold_left].
  - repeat split; auto.
  - assert (He' : serr (new_class ns r s) = None).
    { unfold new_class. destruct (has_err s); [exact He | exact He]. }
    assert (Hn' : has_ns (new_class ns r s) ns = true) by (rewrite has_ns_new_class; exact Hn).
    destruct (IH _ He' Hn') as (A1 & A2 & A3 & A4 & A5 & A6 & A7 & A8). cbv zeta in *.
    assert (Hf : has_err s = false) by (apply has_err_false; exact He).
    repeat split.
    + exact A1.
    + rewrite A2. unfold new_class. rewrite Hf. reflexivity.
    + rewrite A3. unfold new_class. rewrite Hf. reflexivity.
    + rewrite A4. unfold new_class. rewrite Hf. reflexivity.
    + rewrite A5. unfold new_class. rewrite Hf. reflexivity.
    + intro k. rewrite A6. apply has_ns_new_class.
    + intros a n H. apply A7. rewrite lookup_in_new_class by exact He.
      destruct (str_eqb a ns && has_ns s ns && str_eqb n (rname r)); [discriminate | exact H].
    + intros r' [<-|Hr]; [|apply A8; exact Hr]. apply A7. rewrite lookup_in_new_class by exact He.
      rewrite !str_eqb_refl, Hn. discriminate.
Qed.
