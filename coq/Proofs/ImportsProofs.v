(* Proofs about Model/Imports.v *)
From TxV Require Import Core.Base Model.Imports.

(* ------------------------------------------------------------------ dotted names *)
Lemma rsplit1_nodot n : has_dot n = false -> rsplit1 n = None.
Proof.
  induction n as [|c n IH]; cbn [has_dot existsb rsplit1]; [reflexivity|].
  intro H. apply orb_false_iff in H as [Hc Hn]. fold (has_dot n) in Hn. rewrite (IH Hn).
  rewrite N.eqb_sym in Hc. rewrite Hc. reflexivity.
Qed.

Lemma rsplit1_some_dot s p l : rsplit1 s = Some (p, l) -> has_dot s = true.
Proof.
  revert p l; induction s as [|c s IH]; cbn [has_dot existsb rsplit1]; intros p l H; [discriminate|].
  destruct (rsplit1 s) as [[p' l']|] eqn:E.
  - fold (has_dot s). rewrite (IH _ _ eq_refl). apply orb_true_r.
  - destruct (N.eqb c DOT) eqn:Ec; [|discriminate]. rewrite N.eqb_sym, Ec. reflexivity.
Qed.

Lemma rsplit1_qualified q n : has_dot n = false -> rsplit1 (q ++ DOT :: n) = Some (q, n).
Proof.
  intro Hn. induction q as [|c q IH]; cbn [app rsplit1].
  - rewrite (rsplit1_nodot _ Hn). rewrite N.eqb_refl. reflexivity.
  - rewrite IH. reflexivity.
Qed.

(* ------------------------------------------------------------------ association lists *)
Section AssocLemmas.
  Context {A : Type}.
  Implicit Types l : list (list N * A).

  Lemma aget_aset_same k v l : aget k (aset k v l) = Some v.
  Proof.
    induction l as [|[k' v'] l IH]; cbn [aset aget].
    - rewrite str_eqb_refl. reflexivity.
    - destruct (str_eqb k k') eqn:E; cbn [aget]; [rewrite str_eqb_refl; reflexivity|].
      rewrite E. exact IH.
  Qed.

  Lemma aget_aset_other k k' v l : k' <> k -> aget k' (aset k v l) = aget k' l.
  Proof.
    intro Hne. induction l as [|[k2 v2] l IH]; cbn [aset aget].
    - apply str_eqb_neq in Hne. rewrite Hne. reflexivity.
    - destruct (str_eqb k k2) eqn:E; cbn [aget].
      + apply str_eqb_eq in E. subst k2. apply str_eqb_neq in Hne. rewrite Hne. reflexivity.
      + rewrite IH. reflexivity.
  Qed.

  Lemma aget_aset_some k k' v l : aget k' l <> None -> aget k' (aset k v l) <> None.
  Proof.
    intro H. destruct (str_eqb k' k) eqn:E.
    - apply str_eqb_eq in E. subst. rewrite aget_aset_same. discriminate.
    - apply str_eqb_neq in E. rewrite aget_aset_other by exact E. exact H.
  Qed.

  Lemma aget_aupd_same k f l : aget k (aupd k f l) = option_map f (aget k l).
  Proof.
    induction l as [|[k' v'] l IH]; cbn [aupd aget]; [reflexivity|].
    destruct (str_eqb k k') eqn:E; cbn [aget]; rewrite E; [reflexivity | exact IH].
  Qed.

  Lemma aget_aupd_other k k' f l : k' <> k -> aget k' (aupd k f l) = aget k' l.
  Proof.
    intro Hne. induction l as [|[k2 v2] l IH]; cbn [aupd aget]; [reflexivity|].
    destruct (str_eqb k k2) eqn:E; cbn [aget]; [| rewrite IH; reflexivity].
    apply str_eqb_eq in E. subst k2. apply str_eqb_neq in Hne. rewrite Hne. reflexivity.
  Qed.

  Lemma akeys_aupd k f l : akeys (aupd k f l) = akeys l.
  Proof.
    induction l as [|[k' v'] l IH]; cbn [aupd akeys map]; [reflexivity|].
    destruct (str_eqb k k'); cbn [map fst]; [reflexivity|]. f_equal. exact IH.
  Qed.

  Lemma aget_app k l l' : aget k (l ++ l') = match aget k l with Some v => Some v | None => aget k l' end.
  Proof.
    induction l as [|[k' v'] l IH]; cbn [app aget]; [reflexivity|].
    destruct (str_eqb k k'); [reflexivity | exact IH].
  Qed.

  Lemma aget_none_keys k l : aget k l = None <-> ~ In k (akeys l).
  Proof.
    induction l as [|[k' v'] l IH]; cbn [aget akeys map In fst].
    - split; [intros _ H; exact H | reflexivity].
    - destruct (str_eqb k k') eqn:E.
      + apply str_eqb_eq in E. subst. split; [discriminate | intro H; exfalso; apply H; left; reflexivity].
      + apply str_eqb_neq in E. rewrite IH. unfold akeys. split.
        * intros H [H1|H1]; [apply E; symmetry; exact H1 | exact (H H1)].
        * intros H H1. apply H. right. exact H1.
  Qed.
End AssocLemmas.

(* ------------------------------------------------------------------ __getitem__ *)
Lemma first_def_some s nss name c :
  first_def s nss name = Some c <->
  exists pre i post, nss = pre ++ i :: post /\ (forall j, In j pre -> lookup_in s j name = None)
                     /\ lookup_in s i name = Some c.
Proof.
  induction nss as [|n r IH]; cbn [first_def].
  - split; [discriminate|]. intros (pre & i & post & H & _). destruct pre; discriminate.
  - destruct (lookup_in s n name) as [c'|] eqn:E.
    + split.
      * intro H. exists [], n, r. split; [reflexivity|]. split; [intros j []|]. congruence.
      * intros (pre & i & post & H & Hpre & Hi). destruct pre as [|p pre]; cbn [app] in H; inversion H; subst.
        -- congruence.
        -- rewrite (Hpre p (or_introl eq_refl)) in E. discriminate.
    + rewrite IH. split.
      * intros (pre & i & post & H & Hpre & Hi). exists (n :: pre), i, post. subst r.
        split; [reflexivity|]. split; [|exact Hi]. intros j [Hj|Hj]; [subst; exact E | apply Hpre; exact Hj].
      * intros (pre & i & post & H & Hpre & Hi). destruct pre as [|p pre]; cbn [app] in H; inversion H; subst.
        -- congruence.
        -- exists pre, i, post. split; [reflexivity|]. split; [|exact Hi]. intros j Hj. apply Hpre. right. exact Hj.
Qed.

Lemma first_def_none s nss name :
  first_def s nss name = None <-> forall j, In j nss -> lookup_in s j name = None.
Proof.
  induction nss as [|n r IH]; cbn [first_def].
  - split; [intros _ j [] | reflexivity].
  - destruct (lookup_in s n name) eqn:E.
    + split; [discriminate|]. intro H. rewrite (H n (or_introl eq_refl)) in E. discriminate.
    + rewrite IH. split.
      * intros H j [Hj|Hj]; [subst; exact E | apply H; exact Hj].
      * intros H j Hj. apply H. right. exact Hj.
Qed.

(* An unqualified name: the rule of the current namespace if it has one, otherwise the first
   namespace of the current namespace's import list (in order) that has it. *)
Lemma lookup_unqualified s cur name c : has_dot name = false ->
  (lookup s cur name = Some c <->
   lookup_in s cur name = Some c \/
   (lookup_in s cur name = None /\
    exists pre i post, imports_of s cur = pre ++ i :: post
                       /\ (forall j, In j pre -> lookup_in s j name = None)
                       /\ lookup_in s i name = Some c)).
Proof.
  intro Hd. unfold lookup. rewrite (rsplit1_nodot _ Hd).
  destruct (lookup_in s cur name) as [c'|] eqn:E.
  - split; [intro H; left; exact H | intros [H|[H _]]; [exact H | discriminate]].
  - rewrite first_def_some. split; [intro H; right; split; [reflexivity | exact H] | intros [H|[_ H]]; [discriminate | exact H]].
Qed.

Lemma lookup_unqualified_none s cur name : has_dot name = false ->
  (lookup s cur name = None <->
   lookup_in s cur name = None /\ forall j, In j (imports_of s cur) -> lookup_in s j name = None).
Proof.
  intro Hd. unfold lookup. rewrite (rsplit1_nodot _ Hd).
  destruct (lookup_in s cur name) as [c'|] eqn:E.
  - split; [discriminate | intros [H _]; discriminate].
  - rewrite first_def_none. split; [intro H; split; [reflexivity | exact H] | intros [_ H]; exact H].
Qed.

(* A qualified name selects the named namespace's rule, whatever the current namespace and
   its imports are. *)
Lemma lookup_qualified s cur q n : has_dot n = false -> lookup s cur (q ++ DOT :: n) = lookup_in s q n.
Proof. intro Hd. unfold lookup. rewrite (rsplit1_qualified _ _ Hd). reflexivity. Qed.

(* ------------------------------------------------------------------ the cyclic-import defect *)
Lemma cycle_silent_wrong :
  serr (load_main ex_silent [97]%N) = None /\
  exists l, In l (links (load_main ex_silent [97]%N)) /\ l_ns l = [98]%N /\ l_name l = [88]%N /\
            option_map cls_key (l_target l) = Some ([99], [88])%N /\
            spec_resolve ex_silent (l_ns l) (l_name l) = Some ([97], [88])%N.
Proof.
  split; [vm_compute; reflexivity|].
  eexists. split; [vm_compute; left; reflexivity|]. vm_compute. repeat split; reflexivity.
Qed.

Lemma cycle_unexisting_fails :
  serr (load_main ex_unexisting [97]%N) = Some (EUnexisting [98] [[88]])%N /\
  spec_resolve ex_unexisting [98]%N [88]%N = Some ([97], [88])%N.
Proof. split; vm_compute; reflexivity. Qed.
