(* Proofs about Model/Imports.v *)
From TxV Require Import Core.Base Model.Imports.

Lemma rsplit1_nodot n : has_dot n = false -> rsplit1 n = None.
Proof.
  induction n as [|c n IH]; simpl; [reflexivity|].
  intro H. apply orb_false_iff in H as [Hc Hn]. rewrite (IH Hn).
  unfold DOT in *. rewrite N.eqb_sym. rewrite Hc. reflexivity.
Qed.
