(* Proofs about Model/Imports.v *)
From TxV Require Import Core.Base Gen.SrcImports Model.Imports.

(* ------------------------------------------------------------------ dotted names *)
Lemma rsplit1_nodot n : has_dot n = false -> rsplit1 n = None.
Proof.
  induction n as [|c n IH]; cbn [has_dot existsb rsplit1]; [reflexivity|].
  intro H. apply orb_false_iff in H as [Hc Hn]. fold (has_dot n) in Hn. rewrite (IH Hn).
  rewrite N.eqb_sym in Hc. rewrite Hc. reflexivity.
Qed.

Lemma rsplit1_some_dot s p l : rsplit1 s = Some (p, l) -> has_dot s = true.
Proof.
  revert p l; induction s as [|c s IH]; cbn [has_dot existsb rsplit1]; intros p l H; [discriminate|].
  destruct (rsplit1 s) as [[p' l']|] eqn:E.
  - fold (has_dot s). rewrite (IH _ _ eq_refl). apply orb_true_r.
  - destruct (N.eqb c DOT) eqn:Ec; [|discriminate]. rewrite N.eqb_sym, Ec. reflexivity.
Qed.

Lemma rsplit1_none_nodot n : rsplit1 n = None -> has_dot n = false.
Proof.
  induction n as [|c n IH]; cbn [has_dot existsb rsplit1]; [reflexivity|].
  destruct (rsplit1 n) as [[p l]|]; [discriminate|].
  destruct (N.eqb c DOT) eqn:E; [discriminate|]. intros _.
  rewrite N.eqb_sym, E. cbn [orb]. apply IH. reflexivity.
Qed.

Lemma rsplit1_qualified q n : has_dot n = false -> rsplit1 (q ++ DOT :: n) = Some (q, n).
Proof.
  intro Hn. induction q as [|c q IH]; cbn [app rsplit1].
  - rewrite (rsplit1_nodot _ Hn). rewrite N.eqb_refl. reflexivity.
  - rewrite IH. reflexivity.
Qed.

(* ------------------------------------------------------------------ association lists *)
Section AssocLemmas.
  Context {A : Type}.
  Implicit Types l : list (list N * A).

  Lemma aget_aset_same k v l : aget k (aset k v l) = Some v.
  Proof.
    induction l as [|[k' v'] l IH]; cbn [aset aget].
    - rewrite str_eqb_refl. reflexivity.
    - destruct (str_eqb k k') eqn:E; cbn [aget]; [rewrite str_eqb_refl; reflexivity|].
      rewrite E. exact IH.
  Qed.

  Lemma aget_aset_other k k' v l : k' <> k -> aget k' (aset k v l) = aget k' l.
  Proof.
    intro Hne. induction l as [|[k2 v2] l IH]; cbn [aset aget].
    - apply str_eqb_neq in Hne. rewrite Hne. reflexivity.
    - destruct (str_eqb k k2) eqn:E; cbn [aget].
      + apply str_eqb_eq in E. subst k2. apply str_eqb_neq in Hne. rewrite Hne. reflexivity.
      + rewrite IH. reflexivity.
  Qed.

  Lemma aget_aset_some k k' v l : aget k' l <> None -> aget k' (aset k v l) <> None.
  Proof.
    intro H. destruct (str_eqb k' k) eqn:E.
    - apply str_eqb_eq in E. subst. rewrite aget_aset_same. discriminate.
    - apply str_eqb_neq in E. rewrite aget_aset_other by exact E. exact H.
  Qed.

  Lemma aget_aupd_same k f l : aget k (aupd k f l) = option_map f (aget k l).
  Proof.
    induction l as [|[k' v'] l IH]; cbn [aupd aget]; [reflexivity|].
    destruct (str_eqb k k') eqn:E; cbn [aget]; rewrite E; [reflexivity | exact IH].
  Qed.

  Lemma aget_aupd_other k k' f l : k' <> k -> aget k' (aupd k f l) = aget k' l.
  Proof.
    intro Hne. induction l as [|[k2 v2] l IH]; cbn [aupd aget]; [reflexivity|].
    destruct (str_eqb k k2) eqn:E; cbn [aget]; [| rewrite IH; reflexivity].
    apply str_eqb_eq in E. subst k2. apply str_eqb_neq in Hne. rewrite Hne. reflexivity.
  Qed.

  Lemma akeys_aupd k f l : akeys (aupd k f l) = akeys l.
  Proof.
    induction l as [|[k' v'] l IH]; cbn [aupd akeys map]; [reflexivity|].
    destruct (str_eqb k k'); cbn [map fst]; [reflexivity|]. f_equal. exact IH.
  Qed.

  Lemma aget_app k l l' : aget k (l ++ l') = match aget k l with Some v => Some v | None => aget k l' end.
  Proof.
    induction l as [|[k' v'] l IH]; cbn [app aget]; [reflexivity|].
    destruct (str_eqb k k'); [reflexivity | exact IH].
  Qed.

  Lemma aget_none_keys k l : aget k l = None <-> ~ In k (akeys l).
  Proof.
    induction l as [|[k' v'] l IH]; cbn [aget akeys map In fst].
    - split; [intros _ H; exact H | reflexivity].
    - destruct (str_eqb k k') eqn:E.
      + apply str_eqb_eq in E. subst. split; [discriminate | intro H; exfalso; apply H; left; reflexivity].
      + apply str_eqb_neq in E. rewrite IH. unfold akeys. split.
        * intros H [H1|H1]; [apply E; symmetry; exact H1 | exact (H H1)].
        * intros H H1. apply H. right. exact H1.
  Qed.
End AssocLemmas.

(* ------------------------------------------------------------------ the source facts *)
(* Obligations re-proved on every run against Gen/SrcImports.v (translated from the current
   textx/metamodel.py): the functions driven by the generated facts ARE the documented ones.
   Each proof computes with the generated definitions, so it fails when the source searches in
   another order, splits qualified names elsewhere, stops normalising import names, registers
   imports only on first load_doc, or builds _tx_fqn differently. *)
Lemma lookup_src_doc s cur name : lookup s cur name = lookup_doc s cur name.
Proof.
  unfold lookup, lookup_doc, qualified_split_last, lookup_steps.
  destruct (rsplit1 name) as [[q n]|]; [reflexivity|].
  cbn [run_steps skipn]. destruct (lookup_in s cur name); [reflexivity|].
  destruct (first_def s (imports_of s cur) name); reflexivity.
Qed.

Lemma abs_import_src_doc main cur imp : has_dot main = false -> abs_import_src main cur imp = abs_import cur imp.
Proof.
  intro Hm. unfold abs_import_src. destruct (main_in_root && str_eqb cur main) eqn:E; [|reflexivity].
  apply andb_true_iff in E as [_ E]. apply str_eqb_eq in E. subst cur.
  unfold abs_import, rel_import. rewrite (rsplit1_nodot _ Hm). reflexivity.
Qed.

Lemma abs_import_main main imp : abs_import_src main main imp = norm_dots imp.
Proof. unfold abs_import_src, main_in_root, normalise_import. rewrite str_eqb_refl. reflexivity. Qed.

Lemma new_import_src_doc main rec stk cur imp s : has_dot main = false ->
  new_import main rec stk cur imp s = new_import_doc rec stk cur imp s.
Proof.
  intro Hm. unfold new_import, new_import_doc, stack_balanced, nested_ops, register_import_always.
  cbn [nops_eqb nop_eqb andb negb]. rewrite (abs_import_src_doc _ _ _ Hm).
  destruct (has_err s) eqn:E; [reflexivity|]. destruct (has_ns s (abs_import cur imp)); [|reflexivity].
  destruct (mem_str (abs_import cur imp) stk); unfold has_err in *; cbn [serr note_back]; rewrite E; reflexivity.
Qed.

Lemma abs_import_normalised cur imp : abs_import cur imp = norm_dots (rel_import cur imp).
Proof. unfold abs_import, normalise_import. reflexivity. Qed.

Lemma main_in_root_doc : main_in_root = true.
Proof. reflexivity. Qed.

Lemma initial_imports_base : initial_imports = [BASE].
Proof. reflexivity. Qed.

Lemma fqn_src_doc c : fqn c = fqn_doc c.
Proof.
  unfold fqn, fqn_doc, fqn_bare, fqn_ns_whole, fqn_sep, mem_str. cbn [existsb]. rewrite orb_false_r.
  change [95; 95; 98; 97; 115; 101; 95; 95]%N with BASE.
  destruct (str_eqb (c_ns c) BASE); reflexivity.
Qed.

(* ------------------------------------------------------------------ __getitem__ *)
Lemma first_def_some s nss name c :
  first_def s nss name = Some c <->
  exists pre i post, nss = pre ++ i :: post /\ (forall j, In j pre -> lookup_in s j name = None)
                     /\ lookup_in s i name = Some c.
Proof.
  induction nss as [|n r IH]; cbn [first_def].
  - split; [discriminate|]. intros (pre & i & post & H & _). destruct pre; discriminate.
  - destruct (lookup_in s n name) as [c'|] eqn:E.
    + split.
      * intro H. exists [], n, r. split; [reflexivity|]. split; [intros j []|]. congruence.
      * intros (pre & i & post & H & Hpre & Hi). destruct pre as [|p pre]; cbn [app] in H; inversion H; subst.
        -- congruence.
        -- rewrite (Hpre p (or_introl eq_refl)) in E. discriminate.
    + rewrite IH. split.
      * intros (pre & i & post & H & Hpre & Hi). exists (n :: pre), i, post. subst r.
        split; [reflexivity|]. split; [|exact Hi]. intros j [Hj|Hj]; [subst; exact E | apply Hpre; exact Hj].
      * intros (pre & i & post & H & Hpre & Hi). destruct pre as [|p pre]; cbn [app] in H; inversion H; subst.
        -- congruence.
        -- exists pre, i, post. split; [reflexivity|]. split; [|exact Hi]. intros j Hj. apply Hpre. right. exact Hj.
Qed.

Lemma first_def_none s nss name :
  first_def s nss name = None <-> forall j, In j nss -> lookup_in s j name = None.
Proof.
  induction nss as [|n r IH]; cbn [first_def].
  - split; [intros _ j [] | reflexivity].
  - destruct (lookup_in s n name) eqn:E.
    + split; [discriminate|]. intro H. rewrite (H n (or_introl eq_refl)) in E. discriminate.
    + rewrite IH. split.
      * intros H j [Hj|Hj]; [subst; exact E | apply H; exact Hj].
      * intros H j Hj. apply H. right. exact Hj.
Qed.

(* An unqualified name: the rule of the current namespace if it has one, otherwise the first
   namespace of the current namespace's import list (in order) that has it. *)
Lemma lookup_unqualified s cur name c : has_dot name = false ->
  (lookup s cur name = Some c <->
   lookup_in s cur name = Some c \/
   (lookup_in s cur name = None /\
    exists pre i post, imports_of s cur = pre ++ i :: post
                       /\ (forall j, In j pre -> lookup_in s j name = None)
                       /\ lookup_in s i name = Some c)).
Proof.
  intro Hd. rewrite lookup_src_doc. unfold lookup_doc. rewrite (rsplit1_nodot _ Hd).
  destruct (lookup_in s cur name) as [c'|] eqn:E.
  - split; [intro H; left; exact H | intros [H|[H _]]; [exact H | discriminate]].
  - rewrite first_def_some. split; [intro H; right; split; [reflexivity | exact H] | intros [H|[_ H]]; [discriminate | exact H]].
Qed.

Lemma lookup_unqualified_none s cur name : has_dot name = false ->
  (lookup s cur name = None <->
   lookup_in s cur name = None /\ forall j, In j (imports_of s cur) -> lookup_in s j name = None).
Proof.
  intro Hd. rewrite lookup_src_doc. unfold lookup_doc. rewrite (rsplit1_nodot _ Hd).
  destruct (lookup_in s cur name) as [c'|] eqn:E.
  - split; [discriminate | intros [H _]; discriminate].
  - rewrite first_def_none. split; [intro H; split; [reflexivity | exact H] | intros [_ H]; exact H].
Qed.

(* A qualified name selects the named namespace's rule, whatever the current namespace and
   its imports are. *)
Lemma lookup_qualified s cur q n : has_dot n = false -> lookup s cur (q ++ DOT :: n) = lookup_qual s q n.
Proof. intro Hd. rewrite lookup_src_doc. unfold lookup_doc. rewrite (rsplit1_qualified _ _ Hd). reflexivity. Qed.

(* ------------------------------------------------------------------ the cyclic-import defect *)
Lemma cycle_silent_wrong :
  serr (load_main ex_silent [97]%N) = None /\
  exists l, In l (links (load_main ex_silent [97]%N)) /\ l_ns l = [98]%N /\ l_name l = [88]%N /\
            option_map cls_key (l_target l) = Some ([99], [88])%N /\
            spec_resolve ex_silent (l_ns l) (l_name l) = Some ([97], [88])%N.
Proof.
  split; [vm_compute; reflexivity|].
  eexists. split; [vm_compute; left; reflexivity|]. vm_compute. repeat split; reflexivity.
Qed.

Lemma cycle_unexisting_fails :
  serr (load_main ex_unexisting [97]%N) = Some (EUnexisting [98] [[88]])%N /\
  spec_resolve ex_unexisting [98]%N [88]%N = Some ([97], [88])%N.
Proof. split; vm_compute; reflexivity. Qed.

(* ------------------------------------------------------------------ generic induction over load_doc *)
Lemma has_err_false s : has_err s = false <-> serr s = None.
Proof. unfold has_err. destruct (serr s); split; intro H; try reflexivity; discriminate. Qed.

Section LoadRel.
  Variable fs : list (list N * gfile).
  Variable R : st -> st -> Prop.
  Hypothesis R_refl : forall s, R s s.
  Hypothesis R_trans : forall a b c, R a b -> R b c -> R a c.
  Hypothesis R_set_err : forall e s, serr s = None -> R s (set_err e s).
  Hypothesis R_enter : forall a s, serr s = None -> has_ns s a = false -> R s (enter a s).
  Hypothesis R_add_imported : forall cur a s, serr s = None -> R s (add_imported cur a s).
  Hypothesis R_note_back : forall cur a s, serr s = None -> R s (note_back cur a s).
  Hypothesis R_log_load : forall ns s, serr s = None -> R s (log_load ns s).
  Hypothesis R_new_class : forall ns f r s, serr s = None -> aget ns fs = Some f -> In r (grules f) ->
                                            R s (new_class ns r s).
  Hypothesis R_second : forall ns f s, serr s = None -> aget ns fs = Some f -> R s (second_pass ns f s).

  Lemma new_import_rel rec stk cur imp s :
    (forall a t, R t (rec a t)) -> R s (new_import_doc rec stk cur imp s).
  Proof.
    intro Hrec. unfold new_import_doc. destruct (has_err s) eqn:He; [apply R_refl|].
    apply has_err_false in He.
    set (a := abs_import cur imp).
    set (s1 := if has_ns s a then if mem_str a stk then note_back cur a s else s else rec a (enter a s)).
    assert (H1 : R s s1).
    { unfold s1. destruct (has_ns s a) eqn:Hn.
      - destruct (mem_str a stk); [apply R_note_back; exact He | apply R_refl].
      - apply (R_trans _ (enter a s)); [apply R_enter; assumption | apply Hrec]. }
    destruct (has_err s1) eqn:He1; [exact H1|].
    apply has_err_false in He1. eapply R_trans; [exact H1 | apply R_add_imported; exact He1].
  Qed.

  Lemma fold_imports_rel rec stk cur imps s :
    (forall a t, R t (rec a t)) ->
    R s (fold_left (fun s imp => new_import_doc rec stk cur imp s) imps s).
  Proof.
    intro Hrec. revert s. induction imps as [|i imps IH]; intro s; cbn [fold_left]; [apply R_refl|].
    apply (R_trans _ (new_import_doc rec stk cur i s)); [apply new_import_rel; exact Hrec | apply IH].
  Qed.

  Lemma new_class_err ns r s : serr s <> None -> new_class ns r s = s.
  Proof. intro H. unfold new_class, has_err. destruct (serr s); [reflexivity | contradiction]. Qed.

  Lemma fold_classes_rel ns f rs s :
    aget ns fs = Some f -> incl rs (grules f) ->
    R s (fold_left (fun s r => new_class ns r s) rs s).
  Proof.
    intros Hf. revert s. induction rs as [|r rs IH]; intros s Hin; cbn [fold_left]; [apply R_refl|].
    apply (R_trans _ (new_class ns r s)).
    - destruct (serr s) eqn:He.
      + rewrite new_class_err by (rewrite He; discriminate). apply R_refl.
      + apply (R_new_class ns f r s He Hf). apply Hin. left. reflexivity.
    - apply IH. intros x Hx. apply Hin. right. exact Hx.
  Qed.

  Lemma second_pass_err ns f s : serr s <> None -> second_pass ns f s = s.
  Proof. intro H. unfold second_pass, has_err. destruct (serr s); [reflexivity | contradiction]. Qed.

  Lemma load_rel : forall fuel stk ns s, R s (load_doc fuel fs stk ns s).
  Proof.
    induction fuel as [|fuel IH]; intros stk ns s; cbn [load_doc];
      (destruct (has_err s) eqn:He; [apply R_refl|]); apply has_err_false in He;
      (destruct (aget ns fs) as [f|] eqn:Hf; [|apply R_set_err; exact He]).
    - apply R_set_err; exact He.
    - cbv zeta.
      set (s0 := log_load ns s).
      set (s1 := fold_left _ (gimports f) s0).
      set (s2 := fold_left _ (grules f) s1).
      apply (R_trans _ s0); [apply R_log_load; exact He|].
      apply (R_trans _ s1); [apply fold_imports_rel; intros a t; apply IH|].
      apply (R_trans _ s2); [apply (fold_classes_rel ns f); [exact Hf | apply incl_refl]|].
      destruct (serr s2) eqn:He2.
      + rewrite second_pass_err by (rewrite He2; discriminate). apply R_refl.
      + apply R_second; assumption.
  Qed.
End LoadRel.

(* ------------------------------------------------------------------ effect of the primitive steps *)
Lemma lookup_in_enter a s b n : has_ns s a = false -> lookup_in (enter a s) b n = lookup_in s b n.
Proof.
  unfold has_ns, lookup_in, enter; cbn [spaces]. intro H. rewrite aget_app.
  destruct (aget b (spaces s)) as [d|] eqn:E; [reflexivity|].
  cbn [aget]. destruct (str_eqb b a); reflexivity.
Qed.

Lemma has_ns_enter a s k : has_ns (enter a s) k = has_ns s k || str_eqb k a.
Proof.
  unfold has_ns, enter; cbn [spaces]. rewrite aget_app.
  destruct (aget k (spaces s)); [reflexivity|]. cbn [aget]. destruct (str_eqb k a); reflexivity.
Qed.

Definition mk_cls (s : st) (ns : list N) (r : rule) : cls := {| c_id := created s; c_ns := ns; c_name := rname r |}.

Lemma lookup_in_new_class ns r s a n : serr s = None ->
  lookup_in (new_class ns r s) a n =
  if str_eqb a ns && has_ns s ns && str_eqb n (rname r) then Some (mk_cls s ns r) else lookup_in s a n.
Proof.
  intro He. unfold new_class. apply has_err_false in He. rewrite He.
  unfold lookup_in, has_ns; cbn [spaces]. destruct (str_eqb a ns) eqn:E.
  - apply str_eqb_eq in E; subst a. rewrite aget_aupd_same.
    destruct (aget ns (spaces s)) as [d|]; cbn [option_map andb]; [|reflexivity].
    destruct (str_eqb n (rname r)) eqn:En.
    + apply str_eqb_eq in En; subst n. rewrite aget_aset_same. reflexivity.
    + apply str_eqb_neq in En. rewrite aget_aset_other by exact En. reflexivity.
  - apply str_eqb_neq in E. rewrite aget_aupd_other by exact E. reflexivity.
Qed.

Lemma has_ns_new_class ns r s k : has_ns (new_class ns r s) k = has_ns s k.
Proof.
  unfold new_class. destruct (has_err s); [reflexivity|]. unfold has_ns; cbn [spaces].
  destruct (str_eqb k ns) eqn:E.
  - apply str_eqb_eq in E; subst. rewrite aget_aupd_same. destruct (aget ns (spaces s)); reflexivity.
  - apply str_eqb_neq in E. rewrite aget_aupd_other by exact E. reflexivity.
Qed.

Lemma second_pass_cases ns f s : serr s = None ->
  (exists e, second_pass ns f s = set_err e s) \/
  (second_pass ns f s = log_done ns (add_links (flat_map (links_of_rule s ns) (grules f)) s)
   /\ unresolved false (flat_map (links_of_rule s ns) (grules f)) = []
   /\ unresolved true (flat_map (links_of_rule s ns) (grules f)) = []).
Proof.
  intro He. unfold second_pass. apply has_err_false in He. rewrite He.
  destruct (unresolved false _) eqn:E1; [|left; eexists; reflexivity].
  destruct (unresolved true _) eqn:E2; [|left; eexists; reflexivity].
  right. repeat split; reflexivity.
Qed.

(* ------------------------------------------------------------------ what only grows *)
Record grow (s s' : st) : Prop := {
  g_ns : forall k, has_ns s k = true -> has_ns s' k = true;
  g_lk : forall a n, lookup_in s a n <> None -> lookup_in s' a n <> None;
  g_done : incl (done s) (done s');
  g_backs : backs s' = [] -> backs s = [];
  g_backs_incl : incl (backs s) (backs s');
  g_err : serr s' = None -> serr s = None;
  g_links : incl (links s) (links s');
  g_loads : incl (loads s) (loads s') }.

Lemma grow_refl s : grow s s.
Proof. constructor; auto using incl_refl. Qed.

Lemma grow_trans a b c : grow a b -> grow b c -> grow a c.
Proof.
  intros [A1 A2 A3 A4 A4' A5 A6 A7] [B1 B2 B3 B4 B4' B5 B6 B7]. constructor; eauto using incl_tran.
Qed.

Lemma app_nil_inv {A} (l l' : list A) : l ++ l' = [] -> l = [].
Proof. destruct l; [reflexivity | discriminate]. Qed.

Lemma grow_load fs fuel stk ns s : grow s (load_doc fuel fs stk ns s).
Proof.
  apply load_rel.
  - apply grow_refl.
  - apply grow_trans.
  - intros e t He. constructor; cbn; auto using incl_refl.
  - intros a t He Hn. constructor; cbn [done backs serr links loads enter]; auto using incl_refl.
    + intros k Hk. rewrite has_ns_enter, Hk. reflexivity.
    + intros b n H. rewrite lookup_in_enter by exact Hn. exact H.
  - intros cur a t He. constructor; cbn; auto using incl_refl.
  - intros cur a t He. constructor; cbn; auto using incl_refl; [apply app_nil_inv | apply incl_appl, incl_refl].
  - intros n t He. constructor; cbn; auto using incl_refl. apply incl_appl, incl_refl.
  - intros n f r t He Hf Hr. constructor.
    + intros k Hk. rewrite has_ns_new_class. exact Hk.
    + intros a m H. rewrite lookup_in_new_class by exact He.
      destruct (str_eqb a n && has_ns t n && str_eqb m (rname r)); [discriminate | exact H].
    + unfold new_class. destruct (has_err t); cbn; apply incl_refl.
    + unfold new_class. destruct (has_err t); cbn; auto.
    + unfold new_class. destruct (has_err t); cbn; apply incl_refl.
    + unfold new_class. destruct (has_err t); cbn; auto.
    + unfold new_class. destruct (has_err t); cbn; apply incl_refl.
    + unfold new_class. destruct (has_err t); cbn; apply incl_refl.
  - intros n f t He Hf. destruct (second_pass_cases n f t He) as [[e ->]|[-> _]].
    + constructor; cbn; auto using incl_refl.
    + constructor; cbn; auto using incl_refl; try (apply incl_appl, incl_refl).
Qed.

(* ------------------------------------------------------------------ the class tables *)
Lemma number_from_In {A} (l : list A) : forall k i x,
  In (i, x) (number_from k l) -> k <= i /\ nth_error l (i - k) = Some x.
Proof.
  induction l as [|a l IH]; intros k i x H; cbn [number_from In] in H; [contradiction|].
  destruct H as [H|H].
  - inversion H; subst. split; [lia|]. replace (i - i) with 0 by lia. reflexivity.
  - apply IH in H as [H1 H2]. split; [lia|]. replace (i - k) with (S (i - S k)) by lia. exact H2.
Qed.

Lemma aget_map_In {A B} (g : A -> list N) (h : A -> B) (l : list A) n v :
  aget n (map (fun p => (g p, h p)) l) = Some v -> exists p, In p l /\ g p = n /\ v = h p.
Proof.
  induction l as [|p l IH]; cbn [map aget]; [discriminate|].
  destruct (str_eqb n (g p)) eqn:E.
  - intro H. inversion H; subst. apply str_eqb_eq in E. exists p. split; [left; reflexivity | split; [symmetry; exact E | reflexivity]].
  - intro H. destruct (IH H) as (q & Hq & Hg & Hv). exists q. split; [right; exact Hq | split; assumption].
Qed.

Lemma base_lookup n c : aget n base_dict = Some c ->
  c_ns c = BASE /\ c_name c = n /\ c_id c < length base_names /\ is_base n = true /\
  nth_error base_names (c_id c) = Some n.
Proof.
  unfold base_dict. intro H. apply aget_map_In in H as ([i x] & Hin & Hg & Hv). cbn [fst snd] in *. subst.
  apply number_from_In in Hin as [_ Hn]. replace (i - 0) with i in Hn by lia. cbn [c_ns c_name c_id].
  repeat split; try reflexivity.
  - apply nth_error_Some. rewrite Hn. discriminate.
  - apply mem_str_In. eapply nth_error_In. exact Hn.
  - exact Hn.
Qed.

Lemma base_complete n : is_base n = true -> aget n base_dict <> None.
Proof. unfold is_base. intro H. revert H. vm_compute. repeat (destruct (str_eqb n _); [discriminate|]). Abort.

Section Inv.
  Variable fs : list (list N * gfile).

  Definition cls_inv (s : st) : Prop := forall a n c, lookup_in s a n = Some c ->
    c_ns c = a /\ c_name c = n /\ c_id c < created s /\
    ((a = BASE /\ is_base n = true) \/ defines fs a n = true).
  Definition id_inj (s : st) : Prop := forall a n c a' n' c',
    lookup_in s a n = Some c -> lookup_in s a' n' = Some c' -> c_id c = c_id c' -> a = a' /\ n = n'.
  Definition sync (s : st) : Prop := akeys (spaces s) = akeys (imported s).
  Definition CF (s : st) : Prop := sync s /\ cls_inv s /\ id_inj s /\ reflangs s = [].

  Lemma CF_same s s' : spaces s' = spaces s -> akeys (imported s') = akeys (imported s) -> created s' = created s ->
    reflangs s' = reflangs s -> CF s -> CF s'.
  Proof.
    intros Hs Hi Hc Hr (A & B & C & D). unfold CF, sync, cls_inv, id_inj, lookup_in in *. rewrite Hs, Hi, Hc, Hr.
    split; [|split; [|split]]; assumption.
  Qed.

  Lemma CF_init : CF init.
  Proof.
    assert (L : forall a n c, lookup_in init a n = Some c -> a = BASE /\ aget n base_dict = Some c).
    { intros a n c. unfold lookup_in, init, init_with; cbn [spaces aget]. destruct (str_eqb a BASE) eqn:E; [|discriminate].
      apply str_eqb_eq in E. intro H. split; assumption. }
    split; [reflexivity|]. split; [|split; [|reflexivity]].
    - intros a n c H. apply L in H as [-> H]. apply base_lookup in H as (H1 & H2 & H3 & H4 & _).
      repeat split; try assumption. left. split; [reflexivity | assumption].
    - intros a n c a' n' c' H H' Hid. apply L in H as [-> H]. apply L in H' as [-> H'].
      apply base_lookup in H as (_ & _ & _ & _ & H). apply base_lookup in H' as (_ & _ & _ & _ & H').
      rewrite Hid in H. rewrite H in H'. inversion H'. split; reflexivity.
  Qed.

  Lemma CF_enter a s : has_ns s a = false -> CF s -> CF (enter a s).
  Proof.
    intros Hn (A & B & C & D). split; [|split; [|split; [|exact D]]].
    - unfold sync, enter, akeys in *; cbn [spaces imported]. rewrite !map_app, A. reflexivity.
    - intros b n c H. rewrite lookup_in_enter in H by exact Hn. apply B in H. exact H.
    - intros b n c b' n' c' H H'. rewrite lookup_in_enter in H, H' by exact Hn. apply C; assumption.
  Qed.

  Lemma defines_rule ns f r : aget ns fs = Some f -> In r (grules f) -> defines fs ns (rname r) = true.
  Proof.
    intros Hf Hr. unfold defines. rewrite Hf. apply mem_str_In. apply in_map. exact Hr.
  Qed.

  Lemma CF_new_class ns f r s : serr s = None -> aget ns fs = Some f -> In r (grules f) ->
    CF s -> CF (new_class ns r s).
  Proof.
    intros He Hf Hr (A & B & C & D).
    assert (Hcr : created (new_class ns r s) = S (created s)).
    { unfold new_class. apply has_err_false in He. rewrite He. reflexivity. }
    split; [|split; [|split; [|unfold new_class; destruct (has_err s); exact D]]].
    - unfold sync, new_class. destruct (has_err s); [exact A|]. cbn [spaces imported]. rewrite akeys_aupd. exact A.
    - intros a n c H. rewrite lookup_in_new_class in H by exact He. rewrite Hcr.
      destruct (str_eqb a ns && has_ns s ns && str_eqb n (rname r)) eqn:E.
      + apply andb_true_iff in E as [E E3]. apply andb_true_iff in E as [E1 _].
        apply str_eqb_eq in E1, E3. subst a n. inversion H; subst c. cbn [mk_cls c_ns c_name c_id].
        repeat split; try reflexivity; [lia|]. right. eapply defines_rule; eassumption.
      + apply B in H as (H1 & H2 & H3 & H4). repeat split; try assumption. lia.
    - intros a n c a' n' c' H H' Hid. rewrite lookup_in_new_class in H, H' by exact He.
      destruct (str_eqb a ns && has_ns s ns && str_eqb n (rname r)) eqn:E;
      destruct (str_eqb a' ns && has_ns s ns && str_eqb n' (rname r)) eqn:E'.
      + apply andb_true_iff in E as [E E3]. apply andb_true_iff in E as [E1 _].
        apply andb_true_iff in E' as [E' E3']. apply andb_true_iff in E' as [E1' _].
        apply str_eqb_eq in E1, E3, E1', E3'. subst. split; reflexivity.
      + inversion H; subst c. apply B in H' as (_ & _ & H' & _). cbn [mk_cls c_id] in Hid. lia.
      + inversion H'; subst c'. apply B in H as (_ & _ & H & _). cbn [mk_cls c_id] in Hid. lia.
      + eapply C; eassumption.
  Qed.

  Lemma CF_load fuel stk ns s : CF s -> CF (load_doc fuel fs stk ns s).
  Proof.
    apply (load_rel fs (fun s s' => CF s -> CF s')).
    - auto.
    - auto.
    - intros e t _. apply CF_same; reflexivity.
    - intros a t _. apply CF_enter.
    - intros cur a t _. apply CF_same; [reflexivity | cbn [imported add_imported]; apply akeys_aupd | reflexivity | reflexivity].
    - intros cur a t _. apply CF_same; reflexivity.
    - intros n t _. apply CF_same; reflexivity.
    - intros n f r t. apply CF_new_class.
    - intros n f t He _. destruct (second_pass_cases n f t He) as [[e ->]|[-> _]]; apply CF_same; reflexivity.
  Qed.
End Inv.

(* ------------------------------------------------------------------ resolution = documented order *)
Lemma BC_init n : is_base n = true -> lookup_in init BASE n <> None.
Proof.
  unfold lookup_in, init, init_with; cbn [spaces aget]. replace (str_eqb BASE BASE) with true by (vm_compute; reflexivity).
  unfold is_base, mem_str, base_dict, base_names.
  cbn [existsb number_from map aget fst snd].
  repeat (destruct (str_eqb n _); [intros _ H; discriminate H|]). cbn [orb]. discriminate.
Qed.

Lemma unresolved_nil b ls : unresolved b ls = [] -> forall l, In l ls -> l_cref l = b -> l_target l <> None.
Proof.
  unfold unresolved. intros H l Hl Hb Ht.
  assert (Hin : In l (filter (fun l => Bool.eqb (l_cref l) b && match l_target l with None => true | Some _ => false end) ls)).
  { apply filter_In. split; [exact Hl|]. rewrite Hb, Ht, Bool.eqb_reflx. reflexivity. }
  destruct (filter _ ls); [contradiction | discriminate].
Qed.

Section Main.
  Variable fs : list (list N * gfile).
  Hypothesis Hbase : aget BASE fs = None.

  Definition DI (s : st) : Prop :=
    forall a, In a (done s) -> forall n, defines fs a n = true -> lookup_in s a n <> None.
  Definition OS (stk : list (list N)) (s : st) : Prop :=
    forall a, has_ns s a = true -> a = BASE \/ In a (done s) \/ In a stk.
  Definition LK (s : st) : Prop := safe fs s = true -> forall l, In l (links s) -> link_ok fs l.
  Definition BC (s : st) : Prop := forall n, is_base n = true -> lookup_in s BASE n <> None.

  Definition Ready (ns : list N) (f : gfile) (s : st) : Prop :=
    aget ns fs = Some f /\
    (forall r, In r (grules f) -> lookup_in s ns (rname r) <> None) /\
    imports_of s ns = BASE :: map (abs_import ns) (gimports f).
  (* every import is complete, or cannot be meant by this name *)
  Definition OkImps (ns : list N) (f : gfile) (s : st) (name : list N) : Prop :=
    forall a, In a (map (abs_import ns) (gimports f)) ->
      In a (done s) \/ a = BASE \/ defines fs ns name = true \/ is_base name = true \/ defines fs a name = false.

  Lemma defines_base n : defines fs BASE n = false.
  Proof. unfold defines. rewrite Hbase. reflexivity. Qed.

  Lemma not_base_lookup s n : cls_inv fs s -> is_base n = false -> lookup_in s BASE n = None.
  Proof.
    intros B Hn. destruct (lookup_in s BASE n) as [c|] eqn:E; [|reflexivity].
    apply B in E as (_ & _ & _ & [[_ H]|H]); [congruence | rewrite defines_base in H; discriminate].
  Qed.

  Lemma first_def_spec s imps name : cls_inv fs s -> DI s -> is_base name = false ->
    (forall a, In a imps -> In a (done s) \/ a = BASE \/ defines fs a name = false) ->
    option_map cls_key (first_def s imps name) = option_map (fun i => (i, name)) (first_defining fs imps name).
  Proof.
    intros B D Hn. induction imps as [|a imps IH]; intro Himps; cbn [first_def first_defining]; [reflexivity|].
    assert (IH' := IH (fun x Hx => Himps x (or_intror Hx))). clear IH.
    destruct (Himps a (or_introl eq_refl)) as [Hd|[->|Hnd]].
    - destruct (defines fs a name) eqn:Df.
      + destruct (lookup_in s a name) as [c|] eqn:E; [|exfalso; exact (D a Hd name Df E)].
        apply B in E as (H1 & H2 & _). unfold cls_key. cbn [option_map]. rewrite H1, H2. reflexivity.
      + destruct (lookup_in s a name) as [c|] eqn:E; [|exact IH'].
        apply B in E as (_ & _ & _ & [[_ H]|H]); congruence.
    - rewrite defines_base, (not_base_lookup s name B Hn). exact IH'.
    - rewrite Hnd. destruct (lookup_in s a name) as [c|] eqn:E; [|exact IH'].
      apply B in E as (_ & _ & _ & [[_ H]|H]); congruence.
  Qed.

  Lemma ready_lookup ns f s name c : Ready ns f s -> (rsplit1 name = None -> OkImps ns f s name) ->
    reflangs s = [] -> cls_inv fs s -> DI s -> BC s ->
    lookup s ns name = Some c -> Some (cls_key c) = spec_resolve fs ns name.
  Proof.
    intros (Hf & Hown & Himp) Hdone Hnr B D Hbc. rewrite lookup_src_doc. unfold lookup_doc, spec_resolve, lookup_qual.
    rewrite Hnr. cbn [aget].
    destruct (rsplit1 name) as [[q n]|] eqn:Er; [|specialize (Hdone eq_refl)].
    - intro E. apply B in E as (H1 & H2 & _ & Hd). unfold cls_key. rewrite H1, H2.
      destruct (defines fs q n); [reflexivity|]. destruct Hd as [[-> Hb]|Hd]; [|discriminate].
      rewrite Hb. replace (str_eqb BASE BASE) with true by (vm_compute; reflexivity). reflexivity.
    - assert (Hns : ns <> BASE) by (intro; subst; congruence).
      destruct (defines fs ns name) eqn:Df.
      + assert (Hl : lookup_in s ns name <> None).
        { unfold defines in Df. rewrite Hf in Df. apply mem_str_In in Df. apply in_map_iff in Df as (r & Hr & Hin).
          subst name. apply Hown. exact Hin. }
        destruct (lookup_in s ns name) as [c'|] eqn:E; [|contradiction]. intro H. inversion H; subst c'.
        apply B in E as (H1 & H2 & _). unfold cls_key. rewrite H1, H2. reflexivity.
      + destruct (lookup_in s ns name) as [c'|] eqn:E.
        { apply B in E as (_ & _ & _ & [[H _]|H]); congruence. }
        rewrite Himp. cbn [first_def]. destruct (is_base name) eqn:Ib.
        * destruct (lookup_in s BASE name) as [c'|] eqn:E'; [|exfalso; exact (Hbc name Ib E')].
          intro H. inversion H; subst c'. apply B in E' as (H1 & H2 & _). unfold cls_key. rewrite H1, H2. reflexivity.
        * rewrite (not_base_lookup s name B Ib). intro H.
          assert (Hd' : forall a, In a (map (abs_import ns) (gimports f)) -> In a (done s) \/ a = BASE \/ defines fs a name = false).
          { intros a Ha. destruct (Hdone a Ha) as [X|[X|[X|[X|X]]]]; auto; congruence. }
          pose proof (first_def_spec s _ name B D Ib Hd') as Hs. rewrite H in Hs. cbn [option_map] in Hs.
          unfold abs_imports. rewrite Hf. destruct (first_defining fs _ name); cbn [option_map] in Hs; [|discriminate].
          inversion Hs. reflexivity.
  Qed.

  (* when the look-up fails, the documented resolution has no rule either (unqualified names) *)
  Lemma ready_lookup_none ns f s name : Ready ns f s -> OkImps ns f s name -> cls_inv fs s -> DI s -> BC s ->
    has_dot name = false -> lookup s ns name = None -> spec_resolve fs ns name = None.
  Proof.
    intros (Hf & Hown & Himp) Hdone B D Hbc Hd. rewrite lookup_src_doc. unfold lookup_doc, spec_resolve. rewrite (rsplit1_nodot _ Hd).
    destruct (lookup_in s ns name) as [c'|] eqn:E; [discriminate|].
    destruct (defines fs ns name) eqn:Df.
    { exfalso. unfold defines in Df. rewrite Hf in Df. apply mem_str_In in Df. apply in_map_iff in Df as (r & Hr & Hin).
      subst name. exact (Hown r Hin E). }
    rewrite Himp. cbn [first_def]. destruct (is_base name) eqn:Ib.
    - destruct (lookup_in s BASE name) eqn:E'; [discriminate | exfalso; exact (Hbc name Ib E')].
    - rewrite (not_base_lookup s name B Ib). intro H.
      assert (Hd' : forall a, In a (map (abs_import ns) (gimports f)) -> In a (done s) \/ a = BASE \/ defines fs a name = false).
      { intros a Ha. destruct (Hdone a Ha) as [X|[X|[X|[X|X]]]]; auto; congruence. }
      pose proof (first_def_spec s _ name B D Ib Hd') as Hs. rewrite H in Hs. cbn [option_map] in Hs.
      unfold abs_imports. rewrite Hf. destruct (first_defining fs _ name); [discriminate | reflexivity].
  Qed.
End Main.

(* ------------------------------------------------------------------ import lists under the steps *)
Lemma aget_some_keys {A} k (l : list (list N * A)) : aget k l <> None <-> In k (akeys l).
Proof.
  split.
  - intro H. destruct (in_dec (list_eq_dec N.eq_dec) k (akeys l)) as [Hi|Hi]; [exact Hi|].
    apply aget_none_keys in Hi. contradiction.
  - intros Hi H. apply aget_none_keys in H. contradiction.
Qed.

Lemma sync_has_ns s k : sync s -> (has_ns s k = true <-> aget k (imported s) <> None).
Proof.
  unfold sync, has_ns. intro H. rewrite aget_some_keys, <- H, <- aget_some_keys.
  destruct (aget k (spaces s)); split; intro X; try reflexivity; try discriminate. contradiction.
Qed.

Lemma imports_of_enter_old a s k : aget k (imported s) <> None -> imports_of (enter a s) k = imports_of s k.
Proof.
  unfold imports_of, enter; cbn [imported]. intro H. rewrite aget_app.
  destruct (aget k (imported s)); [reflexivity | contradiction].
Qed.

Lemma imports_of_enter_new a s : aget a (imported s) = None -> imports_of (enter a s) a = [BASE].
Proof.
  unfold imports_of, enter; cbn [imported]. intro H. rewrite aget_app, H. cbn [aget]. rewrite str_eqb_refl. reflexivity.
Qed.

Lemma imports_of_add_same cur a s : aget cur (imported s) <> None ->
  imports_of (add_imported cur a s) cur = imports_of s cur ++ [a].
Proof.
  unfold imports_of, add_imported; cbn [imported]. intro H. rewrite aget_aupd_same.
  destruct (aget cur (imported s)); [reflexivity | contradiction].
Qed.

Lemma imports_of_add_other cur a s k : k <> cur -> imports_of (add_imported cur a s) k = imports_of s k.
Proof.
  unfold imports_of, add_imported; cbn [imported]. intro H. rewrite aget_aupd_other by exact H. reflexivity.
Qed.

Lemma has_ns_neq s a k : has_ns s a = false -> has_ns s k = true -> k <> a.
Proof. intros Ha Hk E. subst. congruence. Qed.

(* the rule names of one file *)
Lemma fold_classes_props ns rs : forall s, serr s = None -> has_ns s ns = true ->
  let s' := fold_left (fun s r => new_class ns r s) rs s in
  serr s' = None /\ done s' = done s /\ links s' = links s /\ backs s' = backs s /\ imported s' = imported s /\
  (forall k, has_ns s' k = has_ns s k) /\
  (forall a n, lookup_in s a n <> None -> lookup_in s' a n <> None) /\
  (forall r, In r rs -> lookup_in s' ns (rname r) <> None).
Proof.
  induction rs as [|r rs IH]; intros s He Hn; cbn [fold_left].
  - repeat split; auto.
  - assert (He' : serr (new_class ns r s) = None).
    { unfold new_class. destruct (has_err s); [exact He | exact He]. }
    assert (Hn' : has_ns (new_class ns r s) ns = true) by (rewrite has_ns_new_class; exact Hn).
    destruct (IH _ He' Hn') as (A1 & A2 & A3 & A4 & A5 & A6 & A7 & A8). cbv zeta in *.
    assert (Hf : has_err s = false) by (apply has_err_false; exact He).
    repeat split.
    + exact A1.
    + rewrite A2. unfold new_class. rewrite Hf. reflexivity.
    + rewrite A3. unfold new_class. rewrite Hf. reflexivity.
    + rewrite A4. unfold new_class. rewrite Hf. reflexivity.
    + rewrite A5. unfold new_class. rewrite Hf. reflexivity.
    + intro k. rewrite A6. apply has_ns_new_class.
    + intros a n H. apply A7. rewrite lookup_in_new_class by exact He.
      destruct (str_eqb a ns && has_ns s ns && str_eqb n (rname r)); [discriminate | exact H].
    + intros r' [<-|Hr]; [|apply A8; exact Hr]. apply A7. rewrite lookup_in_new_class by exact He.
      rewrite !str_eqb_refl, Hn. discriminate.
Qed.

(* ------------------------------------------------------------------ the main induction *)
Lemma new_import_err rec stk cur imp s : serr s <> None -> new_import_doc rec stk cur imp s = s.
Proof. intro H. unfold new_import_doc, has_err. destruct (serr s); [reflexivity | contradiction]. Qed.

Lemma fold_imports_err rec stk cur imps : forall s, serr s <> None ->
  fold_left (fun s imp => new_import_doc rec stk cur imp s) imps s = s.
Proof.
  induction imps as [|i imps IH]; intros s H; cbn [fold_left]; [reflexivity|].
  rewrite new_import_err by exact H. apply IH. exact H.
Qed.

Section Main2.
  Variable fs : list (list N * gfile).
  Hypothesis Hbase : aget BASE fs = None.

  Definition Good (stk : list (list N)) (s : st) : Prop :=
    serr s = None /\ CF fs s /\ BC s /\ DI fs s /\ LK fs s /\ OS stk s.

  Lemma safe_incl s s' : incl (backs s) (backs s') -> safe fs s' = true -> safe fs s = true.
  Proof.
    unfold safe. intros Hi H. apply forallb_forall. intros x Hx.
    rewrite forallb_forall in H. apply H. apply Hi. exact Hx.
  Qed.

  Lemma Good_same stk s s' :
    spaces s' = spaces s -> akeys (imported s') = akeys (imported s) -> created s' = created s ->
    reflangs s' = reflangs s ->
    done s' = done s -> links s' = links s -> serr s' = serr s -> incl (backs s) (backs s') ->
    Good stk s -> Good stk s'.
  Proof.
    intros Hs Hi Hc Hr Hd Hl He Hb (G1 & G2 & G3 & G4 & G5 & G6).
    split; [congruence|]. split; [eapply CF_same; eassumption|].
    unfold BC, DI, LK, OS, lookup_in, has_ns in *. rewrite Hs, Hd, Hl.
    split; [exact G3|]. split; [exact G4|]. split; [|exact G6].
    intros Hb'. apply G5. exact (safe_incl _ _ Hb Hb').
  Qed.

  Definition Mid (stk : list (list N)) (ns : list N) (s0 : st) (pre : list (list N)) (t : st) : Prop :=
    Good (ns :: stk) t /\ has_ns t ns = true /\
    imports_of t ns = BASE :: map (abs_import ns) pre /\
    (forall a, In a (map (abs_import ns) pre) -> In a (done t) \/ a = BASE \/ In (ns, a) (backs t)) /\
    (forall k, has_ns s0 k = true -> k <> ns -> has_ns t k = true /\ imports_of t k = imports_of s0 k) /\
    (forall a, In a (map (abs_import ns) pre) -> has_ns t a = true).

  Definition LoadSpec (fuel : nat) : Prop :=
    forall stk ns s, Good (ns :: stk) s -> has_ns s ns = true -> imports_of s ns = [BASE] ->
      serr (load_doc fuel fs stk ns s) = None ->
      Good stk (load_doc fuel fs stk ns s) /\ In ns (done (load_doc fuel fs stk ns s)) /\
      (forall k, has_ns s k = true -> k <> ns -> imports_of (load_doc fuel fs stk ns s) k = imports_of s k) /\
      (forall f, aget ns fs = Some f ->
         imports_of (load_doc fuel fs stk ns s) ns = BASE :: map (abs_import ns) (gimports f) /\
         forall a, In a (map (abs_import ns) (gimports f)) -> has_ns (load_doc fuel fs stk ns s) a = true).

  Lemma imports_some t ns l : imports_of t ns = BASE :: l -> aget ns (imported t) <> None.
  Proof. unfold imports_of. destruct (aget ns (imported t)); [discriminate | intro H; discriminate H]. Qed.

  Lemma import_step fuel stk ns s0 pre imp t : LoadSpec fuel ->
    Mid stk ns s0 pre t ->
    serr (new_import_doc (load_doc fuel fs (ns :: stk)) (ns :: stk) ns imp t) = None ->
    Mid stk ns s0 (pre ++ [imp]) (new_import_doc (load_doc fuel fs (ns :: stk)) (ns :: stk) ns imp t).
  Proof.
    intros IH (HG & Hns & Himp & Hdone & Hframe & Hhas).
    pose proof HG as (He & Hcf & Hbc & Hdi & Hlk & Hos).
    unfold new_import_doc. rewrite (proj2 (has_err_false t) He).
    set (a := abs_import ns imp).
    assert (Hpre : map (abs_import ns) (pre ++ [imp]) = map (abs_import ns) pre ++ [a]) by (rewrite map_app; reflexivity).
    destruct (has_ns t a) eqn:Ha.
    - (* the namespace exists already: only the import list grows *)
      set (s1 := if mem_str a (ns :: stk) then note_back ns a t else t).
      assert (E1 : spaces s1 = spaces t /\ imported s1 = imported t /\ created s1 = created t /\ done s1 = done t
                    /\ links s1 = links t /\ serr s1 = serr t) by (unfold s1; destruct (mem_str a (ns :: stk)); repeat split; reflexivity).
      destruct E1 as (E1 & E2 & E3 & E4 & E5 & E6).
      assert (Eb : incl (backs t) (backs s1) /\ (mem_str a (ns :: stk) = true -> In (ns, a) (backs s1))).
      { unfold s1. destruct (mem_str a (ns :: stk)); cbn [backs note_back]; split.
        - apply incl_appl, incl_refl.
        - intros _. apply in_or_app. right. left. reflexivity.
        - apply incl_refl.
        - discriminate. }
      rewrite (proj2 (has_err_false s1)) by congruence. intros _.
      assert (HG1 : Good (ns :: stk) s1).
      { apply (Good_same _ t); try congruence; [unfold s1; destruct (mem_str a (ns :: stk)); reflexivity | apply Eb]. }
      split; [|split; [|split; [|split; [|split]]]].
      + apply (Good_same _ s1); try reflexivity; [|apply incl_refl|exact HG1]. cbn [imported add_imported]. apply akeys_aupd.
      + unfold has_ns in *. cbn [spaces add_imported]. rewrite E1. exact Hns.
      + rewrite imports_of_add_same by (rewrite E2; eapply imports_some; exact Himp).
        unfold imports_of in *. rewrite E2, Himp, Hpre. reflexivity.
      + cbn [backs done add_imported]. intros x Hx. destruct Eb as [Eb1 Eb2]. rewrite E4.
        rewrite Hpre in Hx. apply in_app_or in Hx as [Hx|[<-|[]]].
        * destruct (Hdone x Hx) as [H|[H|H]]; [left; exact H | right; left; exact H | right; right; apply Eb1; exact H].
        * destruct (Hos a Ha) as [H|[H|H]]; [right; left; exact H | left; exact H|].
          right; right. apply Eb2. apply mem_str_In. exact H.
      + intros k Hk Hne. destruct (Hframe k Hk Hne) as [F1 F2]. split.
        * unfold has_ns in *. cbn [spaces add_imported]. rewrite E1. exact F1.
        * rewrite imports_of_add_other by exact Hne. unfold imports_of in *. rewrite E2. exact F2.
      + intros x Hx. rewrite Hpre in Hx. apply in_app_or in Hx as [Hx|[<-|[]]];
          unfold has_ns in *; cbn [spaces add_imported]; rewrite E1; [apply Hhas; exact Hx | exact Ha].
    - (* a new namespace: load_doc its file completely, then record the import *)
      set (t1 := enter a t).
      set (s1 := load_doc fuel fs (ns :: stk) a t1).
      destruct (has_err s1) eqn:He1; [intro H; apply has_err_false in H; congruence|].
      apply has_err_false in He1. intros _.
      assert (Hsync : sync t) by apply Hcf.
      assert (Ha' : aget a (imported t) = None).
      { destruct (aget a (imported t)) eqn:E; [|reflexivity].
        assert (X : has_ns t a = true) by (apply sync_has_ns; [exact Hsync | rewrite E; discriminate]). congruence. }
      assert (HG1 : Good (a :: ns :: stk) t1).
      { split; [exact He|]. split; [apply CF_enter; assumption|].
        split; [intros n Hn; unfold t1; rewrite lookup_in_enter by exact Ha; apply Hbc; exact Hn|].
        split; [intros x Hx n Hn; unfold t1; rewrite lookup_in_enter by exact Ha; exact (Hdi x Hx n Hn)|].
        split; [exact Hlk|].
        intros x Hx. unfold t1 in Hx. rewrite has_ns_enter in Hx. apply orb_true_iff in Hx as [Hx|Hx].
        - destruct (Hos x Hx) as [H|[H|H]]; [left; exact H | right; left; exact H | right; right; right; exact H].
        - apply str_eqb_eq in Hx. subst x. right; right; left; reflexivity. }
      assert (Hn1 : has_ns t1 a = true) by (unfold t1; rewrite has_ns_enter, str_eqb_refl; apply orb_true_r).
      assert (Hi1 : imports_of t1 a = [BASE]) by (apply imports_of_enter_new; exact Ha').
      destruct (IH (ns :: stk) a t1 HG1 Hn1 Hi1 He1) as (HG2 & Hd2 & Hf2 & _). fold s1 in HG2, Hd2, Hf2.
      pose proof (grow_load fs fuel (ns :: stk) a t1) as Hgr. fold s1 in Hgr.
      assert (Hne : ns <> a) by (eapply has_ns_neq; eassumption).
      assert (Hns1 : has_ns t1 ns = true) by (unfold t1; rewrite has_ns_enter, Hns; reflexivity).
      assert (Hi_ns : imports_of s1 ns = imports_of t ns).
      { rewrite (Hf2 ns Hns1 Hne). apply imports_of_enter_old. eapply imports_some; exact Himp. }
      split; [|split; [|split; [|split; [|split]]]].
      + apply (Good_same _ s1); try reflexivity; [|apply incl_refl|exact HG2]. cbn [imported add_imported]. apply akeys_aupd.
      + unfold has_ns. cbn [spaces add_imported]. apply (g_ns _ _ Hgr). exact Hns1.
      + rewrite imports_of_add_same.
        * rewrite Hi_ns, Himp, Hpre. reflexivity.
        * apply (sync_has_ns s1 ns); [apply HG2 | apply (g_ns _ _ Hgr); exact Hns1].
      + cbn [backs done add_imported]. intros x Hx. rewrite Hpre in Hx.
        apply in_app_or in Hx as [Hx|[<-|[]]]; [|left; exact Hd2].
        destruct (Hdone x Hx) as [H|[H|H]]; [left; apply (g_done _ _ Hgr); exact H | right; left; exact H|].
        right; right. apply (g_backs_incl _ _ Hgr). exact H.
      + intros k Hk Hnk. destruct (Hframe k Hk Hnk) as [F1 F2].
        assert (Hk1 : has_ns t1 k = true) by (unfold t1; rewrite has_ns_enter, F1; reflexivity).
        split.
        * unfold has_ns. cbn [spaces add_imported]. apply (g_ns _ _ Hgr). exact Hk1.
        * rewrite imports_of_add_other by exact Hnk. rewrite (Hf2 k Hk1 (has_ns_neq _ _ _ Ha F1)).
          unfold t1. rewrite imports_of_enter_old; [exact F2|]. apply sync_has_ns; assumption.
      + intros x Hx. rewrite Hpre in Hx. unfold has_ns. cbn [spaces add_imported]. apply (g_ns _ _ Hgr).
        unfold t1. rewrite has_ns_enter.
        apply in_app_or in Hx as [Hx|[<-|[]]]; [rewrite (Hhas x Hx); reflexivity | rewrite str_eqb_refl; apply orb_true_r].
  Qed.

  Lemma import_fold fuel stk ns s0 : LoadSpec fuel -> forall rest pre t,
    Mid stk ns s0 pre t ->
    serr (fold_left (fun s imp => new_import_doc (load_doc fuel fs (ns :: stk)) (ns :: stk) ns imp s) rest t) = None ->
    Mid stk ns s0 (pre ++ rest)
        (fold_left (fun s imp => new_import_doc (load_doc fuel fs (ns :: stk)) (ns :: stk) ns imp s) rest t).
  Proof.
    intros IH. induction rest as [|i rest IHr]; intros pre t HM He; cbn [fold_left] in *.
    - rewrite app_nil_r. exact HM.
    - set (t1 := new_import_doc (load_doc fuel fs (ns :: stk)) (ns :: stk) ns i t) in *.
      assert (He1 : serr t1 = None).
      { destruct (serr t1) eqn:E; [|reflexivity]. rewrite fold_imports_err in He by (rewrite E; discriminate). congruence. }
      replace (pre ++ i :: rest) with ((pre ++ [i]) ++ rest) by (rewrite <- app_assoc; reflexivity).
      apply IHr; [|exact He]. apply import_step; assumption.
  Qed.

  Lemma load_good : forall fuel, LoadSpec fuel.
  Proof.
    induction fuel as [|fuel IH]; intros stk ns s HG Hns Himp; cbn [load_doc];
      pose proof HG as (He & Hcf & Hbc & Hdi & Hlk & Hos);
      rewrite (proj2 (has_err_false s) He);
      (destruct (aget ns fs) as [f|] eqn:Hf; [|cbn [serr set_err]; discriminate]).
    - cbn [serr set_err]; discriminate.
    - cbv zeta.
      set (s0 := log_load ns s).
      set (s1 := fold_left _ (gimports f) s0).
      set (s2 := fold_left _ (grules f) s1).
      intro Hfin.
      (* no error anywhere on the way *)
      assert (He2 : serr s2 = None).
      { destruct (serr s2) eqn:E; [|reflexivity]. rewrite second_pass_err in Hfin by (rewrite E; discriminate). congruence. }
      assert (He1 : serr s1 = None).
      { destruct (serr s1) eqn:E; [|reflexivity]. exfalso.
        assert (X : s2 = s1).
        { unfold s2. generalize (grules f). intro rs. induction rs as [|r rs IHrs]; cbn [fold_left]; [reflexivity|].
          rewrite new_class_err by (rewrite E; discriminate). exact IHrs. }
        rewrite X in He2. congruence. }
      (* imports *)
      assert (HM0 : Mid stk ns s [] s0).
      { split; [apply (Good_same _ s); try reflexivity; [apply incl_refl | exact HG]|].
        split; [exact Hns|]. split; [exact Himp|]. split; [intros a []|].
        split; [|intros a []]. intros k Hk _. split; [exact Hk | reflexivity]. }
      pose proof (import_fold fuel stk ns s IH (gimports f) [] s0 HM0 He1) as HM1. fold s1 in HM1. cbn [app] in HM1.
      destruct HM1 as (HG1 & Hns1 & Himp1 & Hdone1 & Hframe1 & Hhas1).
      pose proof HG1 as (_ & Hcf1 & Hbc1 & Hdi1 & Hlk1 & Hos1).
      (* rule names *)
      destruct (fold_classes_props ns (grules f) s1 He1 Hns1) as (_ & C2 & C3 & C4 & C5 & C6 & C7 & C8).
      fold s2 in C2, C3, C4, C5, C6, C7, C8.
      assert (Hcf2 : CF fs s2).
      { unfold s2. apply (fold_classes_rel fs (fun a b => CF fs a -> CF fs b)) with (f := f); auto using incl_refl.
        intros n g r t. apply CF_new_class. }
      assert (Hbc2 : BC s2) by (intros n Hn; apply C7, Hbc1; exact Hn).
      assert (Hdi2 : DI fs s2) by (intros a Ha n Hn; apply C7; rewrite C2 in Ha; exact (Hdi1 a Ha n Hn)).
      assert (Hready : Ready fs ns f s2).
      { split; [exact Hf|]. split; [exact C8|]. unfold imports_of in *. rewrite C5. exact Himp1. }
      assert (Hok : safe fs s2 = true -> forall n, In n (file_names f) -> rsplit1 n = None -> OkImps fs ns f s2 n).
      { intros Hb n Hn Hr a Ha. rewrite C2. destruct (Hdone1 a Ha) as [H|[H|H]]; [left; exact H | right; left; exact H|].
        right; right. unfold safe in Hb. rewrite forallb_forall in Hb. rewrite <- C4 in H. specialize (Hb _ H).
        unfold safe_back in Hb. cbn [fst snd] in Hb. rewrite Hf in Hb. rewrite forallb_forall in Hb. specialize (Hb n Hn).
        rewrite (rsplit1_none_nodot n Hr) in Hb. cbn [orb] in Hb.
        destruct (defines fs ns n); [left; reflexivity|]. destruct (is_base n); [right; left; reflexivity|].
        cbn [orb] in Hb. right; right. destruct (defines fs a n); [discriminate | reflexivity]. }
      (* second pass *)
      destruct (second_pass_cases ns f s2 He2) as [[e Hsp]|(Hsp & U1 & U2)];
        [rewrite Hsp in Hfin; cbn [serr set_err] in Hfin; discriminate|].
      rewrite Hsp. clear Hfin.
      set (ls := flat_map (links_of_rule s2 ns) (grules f)) in *.
      split; [|split; [|split]].
      + split; [exact He2|]. split; [apply (CF_same fs s2); try reflexivity; exact Hcf2|].
        split; [exact Hbc2|]. split; [|split].
        * intros a Ha n Hn. cbn [done log_done add_links] in Ha. apply in_app_or in Ha as [Ha|[<-|[]]].
          -- exact (Hdi2 a Ha n Hn).
          -- change (lookup_in s2 ns n <> None). unfold defines in Hn. rewrite Hf in Hn. apply mem_str_In in Hn.
             apply in_map_iff in Hn as (r & <- & Hr). apply C8. exact Hr.
        * intros Hb l Hl. assert (Hb2 : safe fs s2 = true) by exact Hb.
          cbn [links log_done add_links] in Hl. apply in_app_or in Hl as [Hl|Hl].
          -- apply Hlk1; [unfold safe in *; rewrite <- C4; exact Hb2 | rewrite <- C3; exact Hl].
          -- assert (Ht : l_target l <> None).
             { destruct (l_cref l) eqn:Ec; [exact (unresolved_nil _ _ U2 l Hl Ec) | exact (unresolved_nil _ _ U1 l Hl Ec)]. }
             assert (Hshape : l_ns l = ns /\ l_target l = lookup s2 ns (l_name l) /\ In (l_name l) (file_names f)).
             { unfold ls in Hl. apply in_flat_map in Hl as (r & Hr & Hl). unfold links_of_rule in Hl.
               apply in_app_or in Hl as [Hl|Hl]; apply in_map_iff in Hl as (n & <- & Hn); cbn [l_ns l_target l_name];
                 (split; [reflexivity|]; split; [reflexivity|]); unfold file_names; apply in_flat_map; exists r;
                 (split; [exact Hr|]); apply in_or_app; [left | right]; exact Hn. }
             destruct Hshape as (Hn & Htg & Hfn). unfold link_ok. rewrite Hn.
             destruct (l_target l) as [c|] eqn:Et; [|contradiction]. cbn [option_map].
             eapply (ready_lookup fs Hbase); [exact Hready | apply Hok; assumption | apply Hcf2 | apply Hcf2 | exact Hdi2 | exact Hbc2 | symmetry; exact Htg].
        * intros a Ha. change (has_ns s2 a = true) in Ha. rewrite C6 in Ha.
          cbn [done log_done add_links]. destruct (Hos1 a Ha) as [H|[H|[H|H]]].
          -- left; exact H.
          -- right; left. apply in_or_app. left. rewrite C2. exact H.
          -- right; left. apply in_or_app. right. left. exact H.
          -- right; right. exact H.
      + cbn [done log_done add_links]. apply in_or_app. right. left. reflexivity.
      + intros k Hk Hne. destruct (Hframe1 k Hk Hne) as [_ F]. unfold imports_of in *.
        cbn [imported log_done add_links]. rewrite C5. exact F.
      + intros f' Hf'. inversion Hf'; subst f'. split.
        * unfold imports_of in *. cbn [imported log_done add_links]. rewrite C5. exact Himp1.
        * intros a Ha. change (has_ns s2 a = true). rewrite C6. apply Hhas1. exact Ha.
  Qed.
End Main2.

(* ------------------------------------------------------------------ metamodel_from_file(main) *)
Section Top.
  Variable fs : list (list N * gfile).
  Variable main : list N.
  Hypothesis Hbase : aget BASE fs = None.
  Hypothesis Hmain : main <> BASE.

  Lemma has_ns_init k : has_ns init k = true -> k = BASE.
  Proof.
    unfold has_ns, init, init_with; cbn [spaces aget]. destruct (str_eqb k BASE) eqn:E; [|discriminate].
    intros _. apply str_eqb_eq. exact E.
  Qed.

  Lemma has_ns_init_main : has_ns init main = false.
  Proof. destruct (has_ns init main) eqn:E; [|reflexivity]. apply has_ns_init in E. contradiction. Qed.

  Lemma CF_main : CF fs (load_main_doc fs main).
  Proof. unfold load_main_doc. apply CF_load. apply CF_enter; [exact has_ns_init_main | apply CF_init]. Qed.

  Lemma start_good : Good fs [main] (enter main init) /\ has_ns (enter main init) main = true /\
                     imports_of (enter main init) main = [BASE].
  Proof.
    pose proof has_ns_init_main as Hn. split; [|split].
    - split; [reflexivity|]. split; [apply CF_enter; [exact Hn | apply CF_init]|].
      split; [intros n H; rewrite lookup_in_enter by exact Hn; apply BC_init; exact H|].
      split; [intros a []|]. split; [intros _ l []|].
      intros a Ha. rewrite has_ns_enter in Ha. apply orb_true_iff in Ha as [Ha|Ha].
      + left. apply has_ns_init. exact Ha.
      + apply str_eqb_eq in Ha. subst. right; right; left; reflexivity.
    - rewrite has_ns_enter, str_eqb_refl. apply orb_true_r.
    - apply imports_of_enter_new. unfold init, init_with; cbn [imported aget].
      destruct (str_eqb main BASE) eqn:E; [apply str_eqb_eq in E; contradiction | reflexivity].
  Qed.

  Lemma main_result : serr (load_main_doc fs main) = None ->
    Good fs [] (load_main_doc fs main) /\ In main (done (load_main_doc fs main)) /\
    (forall f, aget main fs = Some f ->
       imports_of (load_main_doc fs main) main = BASE :: map (abs_import main) (gimports f) /\
       forall a, In a (map (abs_import main) (gimports f)) -> has_ns (load_main_doc fs main) a = true).
  Proof.
    intro He. destruct start_good as (G & Hn & Hi).
    destruct (load_good fs Hbase (S (length fs)) [] main (enter main init) G Hn Hi He) as (A & B & _ & D).
    split; [exact A|]. split; [exact B | exact D].
  Qed.

  (* every reference recorded by a second pass is the documented one, when every followed
     import of a grammar still being loaded is harmless ([safe]); in particular when there is none *)
  Lemma links_spec_safe : serr (load_main_doc fs main) = None -> safe fs (load_main_doc fs main) = true ->
    forall l, In l (links (load_main_doc fs main)) -> link_ok fs l.
  Proof. intros He Hb. destruct (main_result He) as ((_ & _ & _ & _ & Hlk & _) & _). apply Hlk. exact Hb. Qed.

  Lemma links_spec : serr (load_main_doc fs main) = None -> backs (load_main_doc fs main) = [] ->
    forall l, In l (links (load_main_doc fs main)) -> link_ok fs l.
  Proof. intros He Hb. apply links_spec_safe; [exact He|]. unfold safe. rewrite Hb. reflexivity. Qed.

  Lemma main_file : serr (load_main_doc fs main) = None -> exists f, aget main fs = Some f.
  Proof.
    unfold load_main_doc. cbn [load_doc]. destruct (has_err (enter main init)) eqn:E; [discriminate E|].
    destruct (aget main fs) as [f|]; [intros _; exists f; reflexivity | cbn [serr set_err]; discriminate].
  Qed.

  Lemma main_ready : serr (load_main_doc fs main) = None ->
    exists f, Ready fs main f (load_main_doc fs main) /\ forall name, OkImps fs main f (load_main_doc fs main) name.
  Proof.
    intro He. destruct (main_file He) as [f Hf]. exists f.
    destruct (main_result He) as ((_ & _ & _ & Hdi & _ & Hos) & Hd & Himp).
    destruct (Himp f Hf) as [Hi Hh].
    split; [split; [exact Hf|]; split; [|exact Hi]|].
    - intros r Hr. apply (Hdi main Hd). eapply defines_rule; eassumption.
    - intros name a Ha. destruct (Hos a (Hh a Ha)) as [H|[H|[]]]; [right; left; exact H | left; exact H].
  Qed.

  (* metamodel[name] after a successful load_doc, cycles or not *)
  Lemma final_lookup : serr (load_main_doc fs main) = None -> forall name c,
    lookup (load_main_doc fs main) main name = Some c -> Some (cls_key c) = spec_resolve fs main name.
  Proof.
    intros He name c H. destruct (main_ready He) as (f & Hr & Hok).
    destruct (main_result He) as ((_ & Hcf & Hbc & Hdi & _) & _).
    eapply (ready_lookup fs Hbase); [exact Hr | intros _; apply Hok | apply Hcf | apply Hcf | exact Hdi | exact Hbc | exact H].
  Qed.

  Lemma final_lookup_none : serr (load_main_doc fs main) = None -> forall name, has_dot name = false ->
    lookup (load_main_doc fs main) main name = None -> spec_resolve fs main name = None.
  Proof.
    intros He name Hd H. destruct (main_ready He) as (f & Hr & Hok).
    destruct (main_result He) as ((_ & Hcf & Hbc & Hdi & _) & _).
    eapply (ready_lookup_none fs Hbase); [exact Hr | apply Hok | apply Hcf | exact Hdi | exact Hbc | exact Hd | exact H].
  Qed.

  (* the class tables: a class sits under its own name in the namespace of its file and
     reports that file-based name; two entries never share a class *)
  Lemma classes_fqn : forall a n c, lookup_in (load_main_doc fs main) a n = Some c ->
    c_ns c = a /\ c_name c = n /\ fqn c = (if str_eqb a BASE then n else a ++ DOT :: n).
  Proof.
    intros a n c H. destruct CF_main as (_ & B & _ & _). apply B in H as (H1 & H2 & _).
    split; [exact H1|]. split; [exact H2|]. rewrite fqn_src_doc. unfold fqn_doc. rewrite H1, H2. reflexivity.
  Qed.

  Lemma classes_distinct : forall a n c a' n' c',
    lookup_in (load_main_doc fs main) a n = Some c -> lookup_in (load_main_doc fs main) a' n' = Some c' ->
    c_id c = c_id c' -> a = a' /\ n = n'.
  Proof. destruct CF_main as (_ & _ & C & _). exact C. Qed.
End Top.

(* ------------------------------------------------------------------ every file is read once *)
Lemma NoDup_snoc {A} (l : list A) x : NoDup l -> ~ In x l -> NoDup (l ++ [x]).
Proof.
  induction l as [|a l IH]; intros Hnd Hx; cbn [app].
  - constructor; [intros [] | constructor].
  - inversion Hnd; subst. constructor.
    + intro Hin. apply in_app_or in Hin as [Hin|[Hin|[]]]; [contradiction | subst; apply Hx; left; reflexivity].
    + apply IH; [assumption | intro; apply Hx; right; assumption].
Qed.

Section Once.
  Variable fs : list (list N * gfile).

  Definition NL (s : st) : Prop := NoDup (loads s) /\ forall a, In a (loads s) -> has_ns s a = true.

  Lemma NL_same s s' : loads s' = loads s -> (forall k, has_ns s' k = has_ns s k) -> NL s -> NL s'.
  Proof. intros Hl Hn [A B]. split; [rewrite Hl; exact A|]. intros a Ha. rewrite Hn. apply B. rewrite <- Hl. exact Ha. Qed.

  Lemma has_ns_spaces s s' : spaces s' = spaces s -> forall k, has_ns s' k = has_ns s k.
  Proof. intros H k. unfold has_ns. rewrite H. reflexivity. Qed.

  Lemma NL_second ns f s : NL s -> NL (second_pass ns f s).
  Proof.
    intro H. destruct (serr s) eqn:He.
    - rewrite second_pass_err by (rewrite He; discriminate). exact H.
    - destruct (second_pass_cases ns f s He) as [[e ->]|[-> _]];
        (apply (NL_same s); [reflexivity | apply has_ns_spaces; reflexivity | exact H]).
  Qed.

  Lemma NL_classes ns rs : forall s, NL s -> NL (fold_left (fun s r => new_class ns r s) rs s).
  Proof.
    induction rs as [|r rs IH]; intros s H; cbn [fold_left]; [exact H|]. apply IH.
    apply (NL_same s); [|intro k; apply has_ns_new_class | exact H].
    unfold new_class. destruct (has_err s); reflexivity.
  Qed.

  Definition OnceSpec (fuel : nat) : Prop := forall stk ns s,
    NL s -> ~ In ns (loads s) -> has_ns s ns = true -> NL (load_doc fuel fs stk ns s).

  Lemma NL_import fuel stk cur imp t : OnceSpec fuel -> NL t ->
    NL (new_import_doc (load_doc fuel fs stk) stk cur imp t).
  Proof.
    intros IH H. unfold new_import_doc. destruct (has_err t); [exact H|].
    set (a := abs_import cur imp).
    destruct (has_ns t a) eqn:Ha.
    - set (s1 := if mem_str a stk then note_back cur a t else t).
      assert (H1 : NL s1) by (unfold s1; destruct (mem_str a stk); [apply (NL_same t); [reflexivity | apply has_ns_spaces; reflexivity | exact H] | exact H]).
      destruct (has_err s1); [exact H1|]. apply (NL_same s1); [reflexivity | apply has_ns_spaces; reflexivity | exact H1].
    - assert (H1 : NL (load_doc fuel fs stk a (enter a t))).
      { apply IH.
        - destruct H as [A B]. split; [exact A|]. intros x Hx. rewrite has_ns_enter, (B x Hx). reflexivity.
        - intro Hin. destruct H as [_ B]. cbn [loads enter] in Hin. rewrite (B a Hin) in Ha. discriminate.
        - rewrite has_ns_enter, str_eqb_refl. apply orb_true_r. }
      destruct (has_err _); [exact H1|]. apply (NL_same (load_doc fuel fs stk a (enter a t))); [reflexivity | apply has_ns_spaces; reflexivity | exact H1].
  Qed.

  Lemma NL_imports fuel stk cur imps : OnceSpec fuel -> forall t, NL t ->
    NL (fold_left (fun s imp => new_import_doc (load_doc fuel fs stk) stk cur imp s) imps t).
  Proof.
    intro IH. induction imps as [|i imps IHi]; intros t H; cbn [fold_left]; [exact H|].
    apply IHi. apply NL_import; assumption.
  Qed.

  Lemma load_once : forall fuel, OnceSpec fuel.
  Proof.
    induction fuel as [|fuel IH]; intros stk ns s H Hfresh Hns; cbn [load_doc];
      (destruct (has_err s); [exact H|]);
      (destruct (aget ns fs) as [f|]; [|apply (NL_same s); [reflexivity | apply has_ns_spaces; reflexivity | exact H]]).
    - apply (NL_same s); [reflexivity | apply has_ns_spaces; reflexivity | exact H].
    - cbv zeta. apply NL_second. apply NL_classes. apply NL_imports; [exact IH|].
      destruct H as [A B]. split.
      + cbn [loads log_load]. apply NoDup_snoc; assumption.
      + intros a Ha. cbn [loads log_load] in Ha. change (has_ns s a = true).
        apply in_app_or in Ha as [Ha|[<-|[]]]; [apply B; exact Ha | exact Hns].
  Qed.

  Lemma loads_once main : main <> BASE -> NoDup (loads (load_main_doc fs main)).
  Proof.
    intro Hm. unfold load_main_doc. apply load_once.
    - split; [constructor | intros a []].
    - intros [].
    - rewrite has_ns_enter, str_eqb_refl. apply orb_true_r.
  Qed.
End Once.

(* ------------------------------------------------------------------ loading terminates *)
Section Term.
  Variable fs : list (list N * gfile).

  Definition unl_in (l : list (list N * gfile)) (s : st) : nat :=
    length (filter (fun p => negb (has_ns s (fst p))) l).
  Definition unl (s : st) : nat := unl_in fs s.

  Lemma unl_mono l s t : (forall k, has_ns s k = true -> has_ns t k = true) -> unl_in l t <= unl_in l s.
  Proof.
    intro H. unfold unl_in. induction l as [|[k v] l IH]; cbn [filter fst]; [lia|].
    destruct (has_ns s k) eqn:E.
    - rewrite (H k E). cbn [negb]. exact IH.
    - cbn [negb]. destruct (has_ns t k); cbn [negb length]; lia.
  Qed.

  Lemma unl_strict l s t a f : (forall k, has_ns s k = true -> has_ns t k = true) ->
    aget a l = Some f -> has_ns s a = false -> has_ns t a = true -> unl_in l t < unl_in l s.
  Proof.
    intros H Hf Hs Ht. unfold unl_in. induction l as [|[k v] l IH]; cbn [aget] in Hf; [discriminate|].
    cbn [filter fst]. destruct (str_eqb a k) eqn:E.
    - apply str_eqb_eq in E. subst k. rewrite Hs, Ht. cbn [negb length].
      pose proof (unl_mono l s t H) as M. unfold unl_in in M. lia.
    - specialize (IH Hf). destruct (has_ns s k) eqn:Ek.
      + rewrite (H k Ek). cbn [negb]. exact IH.
      + cbn [negb]. destruct (has_ns t k); cbn [negb length]; lia.
  Qed.

  Definition NF (s : st) : Prop := serr s <> Some EFuel.
  Definition TermSpec (fuel : nat) : Prop := forall stk ns s, NF s -> unl s < fuel -> NF (load_doc fuel fs stk ns s).

  Lemma NF_same s s' : serr s' = serr s -> NF s -> NF s'.
  Proof. unfold NF. intros -> H. exact H. Qed.

  Lemma NF_second ns f s : NF s -> NF (second_pass ns f s).
  Proof.
    intro H. unfold second_pass. destruct (has_err s); [exact H|].
    destruct (unresolved false _); [destruct (unresolved true _)|];
      unfold NF in *; cbn [serr set_err log_done add_links]; try discriminate. exact H.
  Qed.

  Lemma NF_classes ns rs : forall s, NF s -> NF (fold_left (fun s r => new_class ns r s) rs s).
  Proof.
    induction rs as [|r rs IH]; intros s H; cbn [fold_left]; [exact H|]. apply IH.
    apply (NF_same s); [|exact H]. unfold new_class. destruct (has_err s); reflexivity.
  Qed.

  Lemma unl_spaces s s' : spaces s' = spaces s -> unl s' = unl s.
  Proof. intro H. unfold unl, unl_in, has_ns. rewrite H. reflexivity. Qed.

  Lemma term_import fuel stk cur imp t : TermSpec fuel -> NF t -> unl t <= fuel ->
    NF (new_import_doc (load_doc fuel fs stk) stk cur imp t) /\ unl (new_import_doc (load_doc fuel fs stk) stk cur imp t) <= fuel.
  Proof.
    intros IH Hn Hu. unfold new_import_doc. destruct (has_err t); [split; assumption|].
    set (a := abs_import cur imp).
    destruct (has_ns t a) eqn:Ha.
    - set (s1 := if mem_str a stk then note_back cur a t else t).
      assert (E : serr s1 = serr t /\ spaces s1 = spaces t) by (unfold s1; destruct (mem_str a stk); split; reflexivity).
      destruct E as [E1 E2].
      destruct (has_err s1); (split; [apply (NF_same t); [exact E1 | exact Hn] |]).
      + pose proof (unl_spaces _ _ E2). lia.
      + pose proof (unl_spaces (add_imported cur a s1) s1 eq_refl). pose proof (unl_spaces _ _ E2). lia.
    - set (t1 := enter a t). set (s1 := load_doc fuel fs stk a t1).
      assert (Hmono : forall k, has_ns t k = true -> has_ns t1 k = true) by (intros k Hk; unfold t1; rewrite has_ns_enter, Hk; reflexivity).
      pose proof (grow_load fs fuel stk a t1) as Hg. fold s1 in Hg.
      assert (Hu1 : unl s1 <= fuel).
      { pose proof (unl_mono fs t1 s1 (g_ns _ _ Hg)). pose proof (unl_mono fs t t1 Hmono). unfold unl in *. lia. }
      assert (Hn1 : NF s1).
      { unfold s1. destruct (aget a fs) as [f|] eqn:Hf.
        - apply IH; [exact Hn|].
          assert (Hlt : unl_in fs t1 < unl_in fs t).
          { apply (unl_strict fs t t1 a f Hmono Hf Ha). unfold t1. rewrite has_ns_enter, str_eqb_refl. apply orb_true_r. }
          unfold unl in *. lia.
        - destruct fuel; cbn [load_doc]; (destruct (has_err t1); [exact Hn|]); rewrite Hf; unfold NF; cbn [serr set_err]; discriminate. }
      destruct (has_err s1); (split; [exact Hn1 | exact Hu1]).
  Qed.

  Lemma term_imports fuel stk cur imps : TermSpec fuel -> forall t, NF t -> unl t <= fuel ->
    NF (fold_left (fun s imp => new_import_doc (load_doc fuel fs stk) stk cur imp s) imps t).
  Proof.
    intro IH. induction imps as [|i imps IHi]; intros t Hn Hu; cbn [fold_left]; [exact Hn|].
    destruct (term_import fuel stk cur i t IH Hn Hu) as [A B]. apply IHi; assumption.
  Qed.

  Lemma load_terminates : forall fuel, TermSpec fuel.
  Proof.
    induction fuel as [|fuel IH]; intros stk ns s Hn Hu; [lia|]. cbn [load_doc].
    destruct (has_err s); [exact Hn|].
    destruct (aget ns fs) as [f|]; [|unfold NF; cbn [serr set_err]; discriminate].
    cbv zeta. apply NF_second. apply NF_classes. apply term_imports.
    - intros stk' ns' s' Hn' Hu'. apply IH; assumption.
    - apply (NF_same s); [reflexivity | exact Hn].
    - pose proof (unl_spaces (log_load ns s) s eq_refl). lia.
  Qed.

  Lemma unl_le s : unl s <= length fs.
  Proof.
    unfold unl, unl_in. induction fs as [|p l IH]; cbn [filter length]; [lia|].
    destruct (negb (has_ns s (fst p))); cbn [length]; lia.
  Qed.

  (* any import graph, cycles included: the load_doc never runs out of fuel |fs|+1 *)
  Lemma load_main_terminates main : serr (load_main_doc fs main) <> Some EFuel.
  Proof.
    unfold load_main_doc. apply load_terminates; [unfold NF; cbn; discriminate|].
    pose proof (unl_le (enter main init)). lia.
  Qed.
End Term.

(* ------------------------------------------------------------------ classes are created by reading files only *)
Section Count.
  Variable fs : list (list N * gfile).

  Notation nrules := (nrules fs).
  Notation nrules_of := (nrules_of fs).

  Definition Delta (s s' : st) : Prop :=
    exists new, loads s' = loads s ++ new /\ created s' = created s + nrules_of new.

  Lemma Delta_refl s : Delta s s.
  Proof. exists []. split; [rewrite app_nil_r; reflexivity | unfold Imports.nrules_of; cbn; lia]. Qed.

  Lemma Delta_trans a b c : Delta a b -> Delta b c -> Delta a c.
  Proof.
    intros (n1 & L1 & C1) (n2 & L2 & C2). exists (n1 ++ n2). split.
    - rewrite L2, L1, app_assoc. reflexivity.
    - rewrite C2, C1. unfold Imports.nrules_of. rewrite map_app, list_sum_app. lia.
  Qed.

  Lemma Delta_same s s' : loads s' = loads s -> created s' = created s -> Delta s s'.
  Proof. intros L C. exists []. split; [rewrite app_nil_r; exact L | unfold Imports.nrules_of; cbn; lia]. Qed.

  Definition CountSpec (fuel : nat) : Prop := forall stk ns s,
    serr (load_doc fuel fs stk ns s) = None -> Delta s (load_doc fuel fs stk ns s).

  Lemma count_import fuel stk cur imp t : CountSpec fuel ->
    serr (new_import_doc (load_doc fuel fs stk) stk cur imp t) = None ->
    Delta t (new_import_doc (load_doc fuel fs stk) stk cur imp t).
  Proof.
    intros IH. unfold new_import_doc. destruct (has_err t); [intros _; apply Delta_refl|].
    set (a := abs_import cur imp).
    destruct (has_ns t a) eqn:Ha.
    - set (s1 := if mem_str a stk then note_back cur a t else t).
      assert (E : loads s1 = loads t /\ created s1 = created t) by (unfold s1; destruct (mem_str a stk); split; reflexivity).
      destruct E as [E1 E2]. destruct (has_err s1); intros _; apply Delta_same; cbn [loads created add_imported]; assumption.
    - set (s1 := load_doc fuel fs stk a (enter a t)).
      destruct (has_err s1) eqn:He1; [intro H; apply has_err_false in H; congruence|].
      apply has_err_false in He1. intros _.
      apply (Delta_trans _ (enter a t)); [apply Delta_same; reflexivity|].
      apply (Delta_trans _ s1); [apply IH; exact He1 | apply Delta_same; reflexivity].
  Qed.

  Lemma count_imports fuel stk cur imps : CountSpec fuel -> forall t,
    serr (fold_left (fun s imp => new_import_doc (load_doc fuel fs stk) stk cur imp s) imps t) = None ->
    Delta t (fold_left (fun s imp => new_import_doc (load_doc fuel fs stk) stk cur imp s) imps t).
  Proof.
    intro IH. induction imps as [|i imps IHi]; intros t He; cbn [fold_left] in *; [apply Delta_refl|].
    set (t1 := new_import_doc (load_doc fuel fs stk) stk cur i t) in *.
    assert (He1 : serr t1 = None).
    { destruct (serr t1) eqn:E; [|reflexivity]. rewrite fold_imports_err in He by (rewrite E; discriminate). congruence. }
    apply (Delta_trans _ t1); [apply count_import; assumption | apply IHi; exact He].
  Qed.

  Lemma count_classes ns rs : forall s, serr s = None ->
    loads (fold_left (fun s r => new_class ns r s) rs s) = loads s /\
    created (fold_left (fun s r => new_class ns r s) rs s) = created s + length rs.
  Proof.
    induction rs as [|r rs IH]; intros s He; cbn [fold_left length]; [split; [reflexivity | lia]|].
    assert (Hf : has_err s = false) by (apply has_err_false; exact He).
    assert (He' : serr (new_class ns r s) = None) by (unfold new_class; rewrite Hf; exact He).
    destruct (IH _ He') as [A B]. rewrite A, B. unfold new_class. rewrite Hf. cbn [loads created]. split; [reflexivity | lia].
  Qed.

  Lemma load_count : forall fuel, CountSpec fuel.
  Proof.
    induction fuel as [|fuel IH]; intros stk ns s; cbn [load_doc];
      (destruct (has_err s); [intros _; apply Delta_refl|]);
      (destruct (aget ns fs) as [f|] eqn:Hf; [|cbn [serr set_err]; discriminate]).
    - cbn [serr set_err]; discriminate.
    - cbv zeta.
      set (s0 := log_load ns s).
      set (s1 := fold_left _ (gimports f) s0).
      set (s2 := fold_left _ (grules f) s1).
      intro Hfin.
      assert (He2 : serr s2 = None).
      { destruct (serr s2) eqn:E; [|reflexivity]. rewrite second_pass_err in Hfin by (rewrite E; discriminate). congruence. }
      assert (He1 : serr s1 = None).
      { destruct (serr s1) eqn:E; [|reflexivity]. exfalso.
        assert (X : s2 = s1).
        { unfold s2. generalize (grules f). intro rs. induction rs as [|r rs IHrs]; cbn [fold_left]; [reflexivity|].
          rewrite new_class_err by (rewrite E; discriminate). exact IHrs. }
        rewrite X in He2. congruence. }
      destruct (count_imports fuel (ns :: stk) ns (gimports f) IH s0 He1) as (new & L1 & C1). fold s1 in L1, C1.
      destruct (count_classes ns (grules f) s1 He1) as [L2 C2]. fold s2 in L2, C2.
      assert (E : loads (second_pass ns f s2) = loads s2 /\ created (second_pass ns f s2) = created s2).
      { destruct (second_pass_cases ns f s2 He2) as [[e ->]|[-> _]]; split; reflexivity. }
      destruct E as [L3 C3].
      exists (ns :: new). split.
      + rewrite L3, L2, L1. unfold s0. cbn [loads log_load]. rewrite <- app_assoc. reflexivity.
      + assert (Hn : nrules ns = length (grules f)) by (unfold Imports.nrules; rewrite Hf; reflexivity).
        rewrite C3, C2, C1. unfold s0. cbn [created log_load].
        change (nrules_of (ns :: new)) with (nrules ns + nrules_of new). rewrite Hn. lia.
  Qed.

  (* a successful load_doc creates, besides the 9 built-in classes, exactly one class per rule of
     every file read *)
  Lemma created_count main : serr (load_main_doc fs main) = None ->
    created (load_main_doc fs main) = length base_names + nrules_of (loads (load_main_doc fs main)).
  Proof.
    intro He. unfold load_main_doc in *. destruct (load_count _ _ _ _ He) as (new & L & C).
    rewrite C, L. reflexivity.
  Qed.
End Count.

Lemma one_class_set fs main : main <> BASE ->
  (forall a n c a' n' c',
     lookup_in (load_main_doc fs main) a n = Some c -> lookup_in (load_main_doc fs main) a' n' = Some c' ->
     c_id c = c_id c' -> a = a' /\ n = n') /\
  (serr (load_main_doc fs main) = None ->
   created (load_main_doc fs main) = length base_names + nrules_of fs (loads (load_main_doc fs main))).
Proof. intro H. split; [apply classes_distinct; exact H | apply created_count]. Qed.

(* ------------------------------------------------------------------ the load algorithm of the source *)
(* Obligation re-proved against Gen/SrcImports.v: with the facts found in the source (imports
   visited in textual order; both passes of an imported grammar run inside _new_import; the
   namespace stack is entered before and left after the nested load) the source-driven load is
   the documented one, about which everything above is proved. *)
Lemma fold_left_ext {A B} (f g : A -> B -> A) l : forall a, (forall a b, f a b = g a b) -> fold_left f l a = fold_left g l a.
Proof. induction l as [|x l IH]; intros a H; cbn [fold_left]; [reflexivity|]. rewrite H. apply IH. exact H. Qed.

Lemma new_import_doc_ext rec rec' stk cur imp s : (forall a t, rec a t = rec' a t) ->
  new_import_doc rec stk cur imp s = new_import_doc rec' stk cur imp s.
Proof. intro H. unfold new_import_doc. rewrite H. reflexivity. Qed.

Lemma load_src_doc fs main : has_dot main = false -> no_refs fs ->
  forall fuel stk ns s, load main fuel fs stk ns s = load_doc fuel fs stk ns s.
Proof.
  intros Hm Hnr. induction fuel as [|fuel IH]; intros stk ns s; cbn [load load_doc]; [reflexivity|].
  destruct (has_err s); [reflexivity|]. destruct (aget ns fs) as [f|] eqn:Hf; [|reflexivity].
  rewrite (Hnr ns f Hf). change (add_refs [] (log_load ns s)) with (log_load ns s).
  unfold imports_in_text_order, second_pass_inside_import. cbv zeta.
  rewrite (fold_left_ext _ (fun s imp => new_import_doc (load_doc fuel fs (ns :: stk)) (ns :: stk) ns imp s)); [reflexivity|].
  intros a b. rewrite (new_import_src_doc _ _ _ _ _ _ Hm). apply new_import_doc_ext. intros x t. apply IH.
Qed.

Lemma load_main_src_doc fs main : has_dot main = false -> no_refs fs -> load_main fs main = load_main_doc fs main.
Proof.
  intros Hm Hnr. unfold load_main, load_main_with, load_main_doc, second_pass_inside_import. cbv zeta.
  apply load_src_doc; assumption.
Qed.

(* the statements about metamodel_from_file as the source performs it *)
Lemma links_spec_src fs main : has_dot main = false -> no_refs fs -> aget BASE fs = None -> main <> BASE ->
  serr (load_main fs main) = None -> backs (load_main fs main) = [] ->
  forall l, In l (links (load_main fs main)) -> link_ok fs l.
Proof. intros Hm Hnr. rewrite (load_main_src_doc _ _ Hm Hnr). apply links_spec. Qed.

Lemma links_spec_safe_src fs main : has_dot main = false -> no_refs fs -> aget BASE fs = None -> main <> BASE ->
  serr (load_main fs main) = None -> safe fs (load_main fs main) = true ->
  forall l, In l (links (load_main fs main)) -> link_ok fs l.
Proof. intros Hm Hnr. rewrite (load_main_src_doc _ _ Hm Hnr). apply links_spec_safe. Qed.

Lemma final_lookup_src fs main : has_dot main = false -> no_refs fs -> aget BASE fs = None -> main <> BASE -> serr (load_main fs main) = None ->
  forall name c, lookup (load_main fs main) main name = Some c -> Some (cls_key c) = spec_resolve fs main name.
Proof. intros Hm Hnr. rewrite (load_main_src_doc _ _ Hm Hnr). apply final_lookup. Qed.

Lemma final_lookup_none_src fs main : has_dot main = false -> no_refs fs -> aget BASE fs = None -> main <> BASE -> serr (load_main fs main) = None ->
  forall name, has_dot name = false -> lookup (load_main fs main) main name = None -> spec_resolve fs main name = None.
Proof. intros Hm Hnr. rewrite (load_main_src_doc _ _ Hm Hnr). apply final_lookup_none. Qed.

Lemma classes_fqn_src fs main : has_dot main = false -> no_refs fs -> main <> BASE ->
  forall a n c, lookup_in (load_main fs main) a n = Some c ->
    c_ns c = a /\ c_name c = n /\ fqn c = (if str_eqb a BASE then n else a ++ DOT :: n).
Proof. intros Hm Hnr. rewrite (load_main_src_doc _ _ Hm Hnr). apply classes_fqn. Qed.

Lemma one_class_set_src fs main : has_dot main = false -> no_refs fs -> main <> BASE ->
  (forall a n c a' n' c',
     lookup_in (load_main fs main) a n = Some c -> lookup_in (load_main fs main) a' n' = Some c' ->
     c_id c = c_id c' -> a = a' /\ n = n') /\
  (serr (load_main fs main) = None ->
   created (load_main fs main) = length base_names + nrules_of fs (loads (load_main fs main))).
Proof. intros Hm Hnr. rewrite (load_main_src_doc _ _ Hm Hnr). apply one_class_set. Qed.

Lemma loads_once_src fs main : has_dot main = false -> no_refs fs -> main <> BASE -> NoDup (loads (load_main fs main)).
Proof. intros Hm Hnr. rewrite (load_main_src_doc _ _ Hm Hnr). apply loads_once. Qed.

Lemma load_main_terminates_src fs main : has_dot main = false -> no_refs fs -> serr (load_main fs main) <> Some EFuel.
Proof. intros Hm Hnr. rewrite (load_main_src_doc _ _ Hm Hnr). apply load_main_terminates. Qed.
