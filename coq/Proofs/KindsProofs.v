(* Proofs about Model/Kinds.v (C03). *)
From TxV Require Import Core.Base Model.Kinds.
Require Import Lia.

(* ------------------------------------------------------------------ basics *)
Lemma kind_eqb_eq a b : kind_eqb a b = true <-> a = b.
Proof. destruct a, b; simpl; split; intro H; try reflexivity; try discriminate. Qed.

Lemma kind_eqb_neq a b : kind_eqb a b = false <-> a <> b.
Proof.
  split; intro H.
  - intro E. apply kind_eqb_eq in E. congruence.
  - destruct (kind_eqb a b) eqn:E; [apply kind_eqb_eq in E; contradiction | reflexivity].
Qed.

Lemma is_match_true k : is_match k = true <-> k = KMatch.
Proof. apply kind_eqb_eq. Qed.

Lemma is_match_false k : is_match k = false <-> k <> KMatch.
Proof. apply kind_eqb_neq. Qed.

Lemma upd_same {A} (f : nat -> A) k v : upd f k v k = v.
Proof. unfold upd. rewrite Nat.eqb_refl. reflexivity. Qed.

Lemma upd_other {A} (f : nat -> A) k v x : x <> k -> upd f k v x = f x.
Proof. intro H. unfold upd. destruct (Nat.eqb x k) eqn:E; [apply Nat.eqb_eq in E; contradiction | reflexivity]. Qed.

Lemma mem_In x l : mem x l = true <-> In x l.
Proof.
  unfold mem. rewrite existsb_exists. split.
  - intros [y [Hy E]]. apply Nat.eqb_eq in E. subst. exact Hy.
  - intro H. exists x. split; [exact H | apply Nat.eqb_refl].
Qed.

Lemma rule_of_overflow g x : length g <= x -> rule_of g x = default_rule.
Proof. intro H. unfold rule_of. apply nth_overflow. exact H. Qed.

(* induction principle for the nested type *)
Section ExprInd.
Variable P : expr -> Prop.
Hypothesis HTerm : P Term.
Hypothesis HRef : forall r, P (Ref r).
Hypothesis HSeq : forall es, Forall P es -> P (Seq es).
Hypothesis HChoice : forall es, Forall P es -> P (Choice es).
Hypothesis HOpt : forall e, P e -> P (Opt e).
Hypothesis HPlus : forall e, P e -> P (Plus e).
Fixpoint expr_ind' (e : expr) : P e :=
  match e with
  | Term => HTerm
  | Ref r => HRef r
  | Seq es => HSeq es ((fix go (l : list expr) : Forall P l :=
                          match l with [] => Forall_nil P | x :: l' => Forall_cons x (expr_ind' x) (go l') end) es)
  | Choice es => HChoice es ((fix go (l : list expr) : Forall P l :=
                          match l with [] => Forall_nil P | x :: l' => Forall_cons x (expr_ind' x) (go l') end) es)
  | Opt e' => HOpt e' (expr_ind' e')
  | Plus e' => HPlus e' (expr_ind' e')
  end.
End ExprInd.

(* list forms of the local fixpoints *)
Fixpoint hnm_list (det : nat -> st -> st) (l : list expr) (s : st) : bool * st :=
  match l with
  | [] => (false, s)
  | x :: l' => let (b, s') := hnm det x s in if b then (true, s') else hnm_list det l' s'
  end.

Lemma hnm_Seq det es s : hnm det (Seq es) s = hnm_list det es s.
Proof.
  simpl. revert s. induction es as [|a es IH]; intro s; simpl; [reflexivity|].
  destruct (hnm det a s) as [b s']. destruct b; [reflexivity | apply IH].
Qed.

Lemma hnm_Choice det es s : hnm det (Choice es) s = hnm_list det es s.
Proof.
  simpl. revert s. induction es as [|a es IH]; intro s; simpl; [reflexivity|].
  destruct (hnm det a s) as [b s']. destruct b; [reflexivity | apply IH].
Qed.

Fixpoint addr_seq (det : nat -> st -> st) (x : nat) (l : list expr) (s : st) : bool * st :=
  match l with
  | [] => (false, s)
  | y :: l' => let (b, s') := addr det x y s in if b then (true, s') else addr_seq det x l' s'
  end.

Fixpoint addr_choice (det : nat -> st -> st) (x : nat) (l : list expr) (s : st) : bool * st :=
  match l with
  | [] => (false, s)
  | y :: l' => let (b, s') := addr det x y s in let (b', s'') := addr_choice det x l' s' in (b || b', s'')
  end.

Lemma addr_Seq det x es s : addr det x (Seq es) s = addr_seq det x es s.
Proof.
  simpl. revert s. induction es as [|a es IH]; intro s; simpl; [reflexivity|].
  destruct (addr det x a s) as [b s']. destruct b; [reflexivity | apply IH].
Qed.

Lemma addr_Choice det x es s : addr det x (Choice es) s = addr_choice det x es s.
Proof.
  simpl. revert s. induction es as [|a es IH]; intro s; simpl; [reflexivity|].
  destruct (addr det x a s) as [b s']. rewrite IH. reflexivity.
Qed.

Fixpoint refs_list (l : list expr) : list nat :=
  match l with [] => [] | x :: l' => refs x ++ refs_list l' end.

Lemma refs_Seq es : refs (Seq es) = refs_list es.
Proof. simpl. induction es as [|a es IH]; simpl; [reflexivity | rewrite IH; reflexivity]. Qed.

Lemma refs_Choice es : refs (Choice es) = refs_list es.
Proof. simpl. induction es as [|a es IH]; simpl; [reflexivity | rewrite IH; reflexivity]. Qed.

(* ------------------------------------------------------------------ generic: a preorder kept by det is kept by the walks *)
Section Rel.
Variable R : st -> st -> Prop.
Hypothesis Rrefl : forall s, R s s.
Hypothesis Rtrans : forall a b c, R a b -> R b c -> R a c.
Variable det : nat -> st -> st.
Hypothesis Hdet : forall y s, R s (det y s).

Lemma hnm_R : forall e s, R s (snd (hnm det e s)).
Proof.
  induction e as [|r|es IH|es IH|e IH|e IH] using expr_ind'; intro s.
  - apply Rrefl.
  - simpl. apply Hdet.
  - rewrite hnm_Seq. revert s. induction IH as [|a es Ha _ IHl]; intro s; simpl; [apply Rrefl|].
    specialize (Ha s). destruct (hnm det a s) as [b s']. simpl in Ha.
    destruct b; [exact Ha | eapply Rtrans; [exact Ha | apply IHl]].
  - rewrite hnm_Choice. revert s. induction IH as [|a es Ha _ IHl]; intro s; simpl; [apply Rrefl|].
    specialize (Ha s). destruct (hnm det a s) as [b s']. simpl in Ha.
    destruct b; [exact Ha | eapply Rtrans; [exact Ha | apply IHl]].
  - simpl. apply IH.
  - simpl. apply IH.
Qed.

(* the walk adds classes to x's list: the step must be allowed for the references of the walked
   expression *)
Variable x : nat.
Variable ok : nat -> Prop.
Hypothesis Hadd : forall r s, ok r -> is_match (types s r) = false -> mem r (inh s x) = false ->
                              R s (set_inh x (inh s x ++ [r]) s).

Lemma addr_R : forall e s, (forall r, In r (refs e) -> ok r) -> R s (snd (addr det x e s)).
Proof.
  induction e as [|r|es IH|es IH|e IH|e IH] using expr_ind'; intros s Hok.
  - apply Rrefl.
  - simpl. destruct (negb (is_match (types (det r s) r)) && negb (mem r (inh (det r s) x))) eqn:E.
    + simpl. apply andb_true_iff in E as [E1 E2]. apply negb_true_iff in E1, E2.
      eapply Rtrans; [apply Hdet | apply Hadd; [apply Hok; simpl; auto | exact E1 | exact E2]].
    + simpl. apply Hdet.
  - rewrite addr_Seq. rewrite refs_Seq in Hok. revert s Hok.
    induction IH as [|a es Ha _ IHl]; intros s Hok; simpl; [apply Rrefl|].
    assert (Ha' := Ha s (fun r Hr => Hok r (in_or_app _ _ _ (or_introl Hr)))).
    destruct (addr det x a s) as [b s']. simpl in Ha'.
    destruct b; [exact Ha' | eapply Rtrans; [exact Ha' | apply IHl; intros r Hr; apply Hok; simpl; apply in_or_app; auto]].
  - rewrite addr_Choice. rewrite refs_Choice in Hok. revert s Hok.
    induction IH as [|a es Ha _ IHl]; intros s Hok; simpl; [apply Rrefl|].
    assert (Ha' := Ha s (fun r Hr => Hok r (in_or_app _ _ _ (or_introl Hr)))).
    destruct (addr det x a s) as [b s']. simpl in Ha'.
    assert (Hl := IHl s' (fun r Hr => Hok r (in_or_app _ _ _ (or_intror Hr)))).
    destruct (addr_choice det x es s') as [b' s'']. simpl in Hl. simpl.
    eapply Rtrans; [exact Ha' | exact Hl].
  - simpl. apply IH. exact Hok.
  - simpl. apply IH. exact Hok.
Qed.
End Rel.

(* ------------------------------------------------------------------ what the boolean of _has_nonmatch_ref means *)
Lemma hnm_true det : forall e s, fst (hnm det e s) = true ->
  exists y, In y (refs e) /\ is_match (types (snd (hnm det e s)) y) = false.
Proof.
  induction e as [|r|es IH|es IH|e IH|e IH] using expr_ind'; intros s H.
  - simpl in H. discriminate.
  - simpl in *. exists r. split; [auto | apply negb_true_iff; exact H].
  - rewrite hnm_Seq in *. rewrite refs_Seq. revert s H.
    induction IH as [|a es Ha _ IHl]; intros s H; simpl in *; [discriminate|].
    specialize (Ha s). destruct (hnm det a s) as [b s'] eqn:E. destruct b; simpl in *.
    + destruct (Ha eq_refl) as [y [Hy Hm]]. exists y. split; [apply in_or_app; auto | exact Hm].
    + destruct (IHl s' H) as [y [Hy Hm]]. exists y. split; [apply in_or_app; auto | exact Hm].
  - rewrite hnm_Choice in *. rewrite refs_Choice. revert s H.
    induction IH as [|a es Ha _ IHl]; intros s H; simpl in *; [discriminate|].
    specialize (Ha s). destruct (hnm det a s) as [b s'] eqn:E. destruct b; simpl in *.
    + destruct (Ha eq_refl) as [y [Hy Hm]]. exists y. split; [apply in_or_app; auto | exact Hm].
    + destruct (IHl s' H) as [y [Hy Hm]]. exists y. split; [apply in_or_app; auto | exact Hm].
  - simpl in *. apply IH. exact H.
  - simpl in *. apply IH. exact H.
Qed.

Lemma filter_len_le {A} (p q : A -> bool) l :
  (forall x, q x = true -> p x = true) -> length (filter q l) <= length (filter p l).
Proof.
  intro H. induction l as [|a l IH]; simpl; [lia|].
  destruct (q a) eqn:Q; [rewrite (H a Q); simpl; lia | destruct (p a); simpl; lia].
Qed.

Lemma filter_len_lt {A} (p q : A -> bool) l x :
  (forall y, q y = true -> p y = true) -> In x l -> p x = true -> q x = false ->
  length (filter q l) < length (filter p l).
Proof.
  intros H Hin Hp Hq. induction l as [|a l IH]; simpl; [destruct Hin|].
  destruct Hin as [->|Hin].
  - rewrite Hp, Hq. simpl. assert (L := filter_len_le p q l H). lia.
  - specialize (IH Hin). destruct (q a) eqn:Q; [rewrite (H a Q); simpl; lia | destruct (p a); simpl; lia].
Qed.

Section G.
Variable g : list rule.
Let n := length g.

(* the part of _determine_rule_type after `resolved_classes.add(cls)` *)
Definition det_body (f : nat) (x : nat) (s0 : st) : st :=
  if r_attrs (rule_of g x) then
    (if kind_eqb (types s0 x) KCommon then s0 else set_type x KCommon s0)
  else
    match r_body (rule_of g x) with
    | Alias t =>
        let s1 := determine g f t s0 in
        if negb (is_match (types s1 t)) && negb (kind_eqb (types s1 x) KAbstract)
        then let s2 := set_type x KAbstract s1 in
             if mem t (inh s2 x) then s2 else set_inh x (inh s2 x ++ [t]) s2
        else s1
    | Body e =>
        let (abstract, s1) := hnm (determine g f) e s0 in
        if abstract && negb (kind_eqb (types s1 x) KAbstract)
        then snd (addr (determine g f) x e (set_type x KAbstract s1))
        else s1
    end.

Lemma determine_S f x s : determine g (S f) x s =
  if resolved s x then s else det_body f x (mark x s).
Proof. reflexivity. Qed.

Lemma det_body_overflow f x s0 : n <= x -> det_body f x s0 = s0.
Proof. intro H. unfold det_body. rewrite (rule_of_overflow g x H). reflexivity. Qed.

(* ---------------------------------------------------------------- invariants *)
Definition Inv (s : st) : Prop := forall x,
  (types s x = KCommon -> r_attrs (rule_of g x) = true) /\
  (types s x = KAbstract -> r_attrs (rule_of g x) = false) /\
  (is_match (types s x) = false -> nonmatch g x).

Definition Inv2 (s : st) : Prop := forall z y, In y (inh s z) ->
  types s z = KAbstract /\ In y (rule_refs g z) /\ is_match (types s y) = false.

Definition Mono (s s' : st) : Prop :=
  (forall x, resolved s x = true -> resolved s' x = true) /\
  (changed s = true -> changed s' = true) /\
  (forall x, is_match (types s x) = false -> is_match (types s' x) = false).

Definition Big (s s' : st) : Prop :=
  Mono s s' /\
  (Inv s -> Inv s' /\
     (forall x, types s x = KAbstract -> types s' x = KAbstract) /\
     (changed s' = true -> changed s = true \/
        exists x, x < n /\ is_match (types s x) = true /\ is_match (types s' x) = false) /\
     (Inv2 s -> Inv2 s')).

Lemma Big_refl s : Big s s.
Proof.
  split; [split; [auto | split; auto]|].
  intro H. split; [exact H|]. split; [auto|]. split; [intro C; left; exact C | auto].
Qed.

Lemma Big_trans a b c : Big a b -> Big b c -> Big a c.
Proof.
  intros [[M1 [M2 M3]] B1] [[N1 [N2 N3]] B2]. split; [repeat split; auto|].
  intro Ha. destruct (B1 Ha) as [Hb [A1 [S1 I1]]]. destruct (B2 Hb) as [Hc [A2 [S2 I2]]].
  split; [exact Hc|]. split; [auto|]. split; [|auto].
  intro Hch. destruct (S2 Hch) as [Hb'|[x [Hx [Hm Hn]]]].
  - destruct (S1 Hb') as [Ha'|[x [Hx [Hm Hn]]]]; [left; exact Ha'|].
    right. exists x. repeat split; auto.
  - right. exists x. repeat split; auto.
    destruct (is_match (types a x)) eqn:E; [reflexivity|]. rewrite (M3 x E) in Hm. discriminate.
Qed.

Lemma Big_mark x s : Big s (mark x s).
Proof.
  split.
  - split; [|split; auto]. intros y H. simpl. unfold upd. destruct (Nat.eqb y x); auto.
  - intro H. split; [exact H|]. split; [auto|]. split; [intro C; left; exact C | auto].
Qed.

Lemma Big_oof s : Big s (set_oof s).
Proof.
  split; [split; [auto | split; auto]|].
  intro H. split; [exact H|]. split; [auto|]. split; [intro C; left; exact C | auto].
Qed.

Lemma lt_of_attrs x : r_attrs (rule_of g x) = true -> x < n.
Proof.
  intro H. destruct (Nat.lt_ge_cases x n) as [L|G]; [exact L|].
  rewrite (rule_of_overflow g x G) in H. discriminate.
Qed.

Lemma Big_set_common x s : r_attrs (rule_of g x) = true -> types s x <> KCommon -> Big s (set_type x KCommon s).
Proof.
  intros Hat Hne. split.
  - repeat split; auto. intros y H. simpl. unfold upd. destruct (Nat.eqb y x); [reflexivity | exact H].
  - intro HI. assert (Hm : is_match (types s x) = true).
    { destruct (types s x) eqn:E; [reflexivity | | congruence].
      destruct (HI x) as [_ [H2 _]]. rewrite (H2 E) in Hat. discriminate. }
    split; [|split; [|split]].
    + intro y. simpl. unfold upd. destruct (Nat.eqb y x) eqn:E.
      * apply Nat.eqb_eq in E. subst y. repeat split; intros; try discriminate; auto. apply nm_attrs; exact Hat.
      * apply HI.
    + intros y Hy. simpl. unfold upd. destruct (Nat.eqb y x) eqn:E; [|exact Hy].
      apply Nat.eqb_eq in E. subst y. rewrite Hy in Hm. discriminate.
    + intros _. right. exists x. split; [apply lt_of_attrs; exact Hat|]. split; [exact Hm|].
      simpl. rewrite upd_same. reflexivity.
    + intros H2 z y Hy. simpl in Hy. destruct (H2 z y Hy) as [Hz [Hr Hn]]. split; [|split; [exact Hr|]].
      * simpl. unfold upd. destruct (Nat.eqb z x) eqn:E; [|exact Hz].
        apply Nat.eqb_eq in E. subst z. rewrite Hz in Hm. discriminate.
      * simpl. unfold upd. destruct (Nat.eqb y x); [reflexivity | exact Hn].
Qed.

Lemma Big_set_abstract x s :
  r_attrs (rule_of g x) = false -> x < n -> types s x <> KAbstract ->
  (exists y, In y (rule_refs g x) /\ is_match (types s y) = false) ->
  Big s (set_type x KAbstract s).
Proof.
  intros Hat Hlt Hne [w [Hw Hwm]]. split.
  - repeat split; auto. intros y H. simpl. unfold upd. destruct (Nat.eqb y x); [reflexivity | exact H].
  - intro HI. assert (Hm : is_match (types s x) = true).
    { destruct (types s x) eqn:E; [reflexivity | congruence |].
      destruct (HI x) as [H1 _]. rewrite (H1 E) in Hat. discriminate. }
    split; [|split; [|split]].
    + intro y. simpl. unfold upd. destruct (Nat.eqb y x) eqn:E.
      * apply Nat.eqb_eq in E. subst y. repeat split; intros; try discriminate; auto.
        apply (nm_ref g x w Hw). apply HI. exact Hwm.
      * apply HI.
    + intros y Hy. simpl. unfold upd. destruct (Nat.eqb y x); [reflexivity | exact Hy].
    + intros _. right. exists x. split; [exact Hlt|]. split; [exact Hm|]. simpl. rewrite upd_same. reflexivity.
    + intros H2 z y Hy. simpl in Hy. destruct (H2 z y Hy) as [Hz [Hr Hn]]. split; [|split; [exact Hr|]].
      * simpl. unfold upd. destruct (Nat.eqb z x); [reflexivity | exact Hz].
      * simpl. unfold upd. destruct (Nat.eqb y x); [reflexivity | exact Hn].
Qed.

Lemma Big_set_inh x r s :
  types s x = KAbstract -> In r (rule_refs g x) -> is_match (types s r) = false ->
  Big s (set_inh x (inh s x ++ [r]) s).
Proof.
  intros Hx Hr Hm. split; [split; [auto | split; auto]|].
  intro HI. split; [exact HI|]. split; [auto|]. split; [intro C; left; exact C|].
  intros H2 z y Hy. simpl in Hy. unfold upd in Hy. destruct (Nat.eqb z x) eqn:E.
  - apply Nat.eqb_eq in E. subst z. apply in_app_or in Hy as [Hy|[Hy|[]]].
    + apply (H2 x y Hy).
    + subst y. simpl. auto.
  - apply (H2 z y Hy).
Qed.

(* the relation used for the inheritance walk of rule x *)
Definition BigX (x : nat) (s s' : st) : Prop := types s x = KAbstract -> Inv s -> Big s s'.

Lemma BigX_trans x a b c : BigX x a b -> BigX x b c -> BigX x a c.
Proof.
  intros H1 H2 Hx HI. specialize (H1 Hx HI). destruct H1 as [M1 B1]. destruct (B1 HI) as [Hb [A1 _]].
  eapply Big_trans; [split; [exact M1 | exact B1] | apply H2; auto].
Qed.

Lemma addr_Mono det (Hd : forall y a, Mono a (det y a)) x e s : Mono s (snd (addr det x e s)).
Proof.
  apply (addr_R Mono) with (ok := fun _ => True).
  - intro a. apply (proj1 (Big_refl a)).
  - intros a b c [A1 [A2 A3]] [B1 [B2 B3]]. split; [auto | split; auto].
  - exact Hd.
  - intros r a _ _ _. split; [auto | split; auto].
  - intros; exact I.
Qed.

Lemma det_body_Big f (IH : forall x s, Big s (determine g f x s)) x s0 : Big s0 (det_body f x s0).
Proof.
  destruct (Nat.lt_ge_cases x n) as [Hlt|Hge].
  2:{ rewrite (det_body_overflow f x s0 Hge). apply Big_refl. }
  unfold det_body.
  destruct (r_attrs (rule_of g x)) eqn:Hat.
  - destruct (kind_eqb (types s0 x) KCommon) eqn:E; [apply Big_refl|].
    apply Big_set_common; [exact Hat | apply kind_eqb_neq; exact E].
  - destruct (r_body (rule_of g x)) as [t|e] eqn:Hb.
    + eapply Big_trans; [apply (IH t s0)|]. generalize (determine g f t s0) as s1. intro s1.
      destruct (negb (is_match (types s1 t)) && negb (kind_eqb (types s1 x) KAbstract)) eqn:C; [|apply Big_refl].
      apply andb_true_iff in C as [C1 C2]. apply negb_true_iff in C1, C2. apply kind_eqb_neq in C2.
      assert (Hr : In t (rule_refs g x)) by (unfold rule_refs; rewrite Hb; simpl; auto).
      eapply Big_trans; [apply Big_set_abstract; [exact Hat | exact Hlt | exact C2 | exists t; auto]|].
      destruct (mem t (inh (set_type x KAbstract s1) x)); [apply Big_refl|].
      apply Big_set_inh; [simpl; apply upd_same | exact Hr|].
      simpl. unfold upd. destruct (Nat.eqb t x); [reflexivity | exact C1].
    + assert (H1 := hnm_R Big Big_refl Big_trans (determine g f) IH e s0).
      assert (H2 := hnm_true (determine g f) e s0).
      destruct (hnm (determine g f) e s0) as [b s1]. simpl in H1, H2.
      eapply Big_trans; [exact H1|].
      destruct (b && negb (kind_eqb (types s1 x) KAbstract)) eqn:C; [|apply Big_refl].
      apply andb_true_iff in C as [C1 C2]. subst b. apply negb_true_iff in C2. apply kind_eqb_neq in C2.
      assert (Hrr : forall r, In r (refs e) -> In r (rule_refs g x)) by (unfold rule_refs; rewrite Hb; simpl; auto).
      destruct (H2 eq_refl) as [w [Hw Hwm]].
      assert (HB : Big s1 (set_type x KAbstract s1)).
      { apply Big_set_abstract; [exact Hat | exact Hlt | exact C2 | exists w; auto]. }
      eapply Big_trans; [exact HB|].
      split.
      * (* the Mono part does not need the invariant *)
        apply addr_Mono. intros y a. apply (proj1 (IH y a)).
      * intro HI.
        assert (HX := addr_R (BigX x) (fun a _ _ => Big_refl a) (BigX_trans x) (determine g f)
                        (fun y a _ _ => IH y a) x (fun r => In r (rule_refs g x))
                        (fun r a Hok Hm _ Hx _ => Big_set_inh x r a Hx Hok Hm) e (set_type x KAbstract s1) Hrr).
        assert (Hx : types (set_type x KAbstract s1) x = KAbstract) by (simpl; apply upd_same).
        exact (proj2 (HX Hx HI) HI).
Qed.

Lemma determine_Big : forall f x s, Big s (determine g f x s).
Proof.
  induction f as [|f IH]; intros x s; [apply Big_oof|].
  rewrite determine_S. destruct (resolved s x); [apply Big_refl|].
  eapply Big_trans; [apply (Big_mark x s) | apply det_body_Big; exact IH].
Qed.

Lemma determine_marks f x s : resolved (determine g (S f) x s) x = true.
Proof.
  rewrite determine_S. destruct (resolved s x) eqn:E; [exact E|].
  apply (proj1 (proj1 (det_body_Big f (determine_Big f) x (mark x s)))). simpl. apply upd_same.
Qed.

(* ---------------------------------------------------------------- counting *)
Definition cnt (p : nat -> bool) : nat := length (filter p (seq 0 n)).

Lemma cnt_bound p : cnt p <= n.
Proof.
  unfold cnt. assert (H : forall l : list nat, length (filter p l) <= length l).
  { induction l as [|a l IH]; simpl; [lia | destruct (p a); simpl; lia]. }
  etransitivity; [apply H | rewrite seq_length; lia].
Qed.

Definition unres (s : st) : nat := cnt (fun x => negb (resolved s x)).

Lemma unres_mono a b : Mono a b -> unres b <= unres a.
Proof.
  intros [M _]. apply filter_len_le. intros x H. apply negb_true_iff in H. apply negb_true_iff.
  destruct (resolved a x) eqn:E; [rewrite (M x E) in H; discriminate | reflexivity].
Qed.

Lemma unres_mark x s : x < n -> resolved s x = false -> unres (mark x s) < unres s.
Proof.
  intros Hx Hr. apply filter_len_lt with (x := x).
  - intros y H. simpl in H. unfold upd in H. destruct (Nat.eqb y x); [discriminate | exact H].
  - apply in_seq. lia.
  - rewrite Hr. reflexivity.
  - simpl. rewrite upd_same. reflexivity.
Qed.

(* ---------------------------------------------------------------- the fuel suffices *)
Definition NoOof (c : nat) (a b : st) : Prop := Mono a b /\ (unres a <= c -> oof b = oof a).

Lemma NoOof_refl c a : NoOof c a a.
Proof. split; [apply (proj1 (Big_refl a)) | auto]. Qed.

Lemma NoOof_trans c x y z : NoOof c x y -> NoOof c y z -> NoOof c x z.
Proof.
  intros [M1 O1] [M2 O2]. split.
  - destruct M1 as [A1 [A2 A3]], M2 as [B1 [B2 B3]]. split; [auto | split; auto].
  - intro H. rewrite O2; [apply O1; exact H|]. assert (L := unres_mono x y M1). lia.
Qed.

Lemma determine_nooof : forall f x s, unres s < f -> oof (determine g f x s) = oof s.
Proof.
  induction f as [|f IH]; intros x s Hu; [lia|].
  rewrite determine_S. destruct (resolved s x) eqn:Hres; [reflexivity|].
  destruct (Nat.lt_ge_cases x n) as [Hlt|Hge].
  2:{ rewrite (det_body_overflow f x _ Hge). reflexivity. }
  assert (Hm := unres_mark x s Hlt Hres).
  change (oof s) with (oof (mark x s)).
  generalize dependent (mark x s). intros s0 Hs0.
  assert (Hc : unres s0 < f) by lia.
  assert (Hdet : forall y a, NoOof (unres s0) a (determine g f y a)).
  { intros y a. split; [apply (proj1 (determine_Big f y a)) | intro H; apply IH; lia]. }
  unfold det_body. destruct (r_attrs (rule_of g x)).
  - destruct (kind_eqb (types s0 x) KCommon); reflexivity.
  - destruct (r_body (rule_of g x)) as [t|e].
    + cbv zeta. assert (H1 := IH t s0 Hc).
      destruct (negb (is_match (types (determine g f t s0) t)) && negb (kind_eqb (types (determine g f t s0) x) KAbstract));
        [|exact H1].
      destruct (mem t (inh (set_type x KAbstract (determine g f t s0)) x)); simpl; exact H1.
    + assert (H1 := hnm_R (NoOof (unres s0)) (NoOof_refl _) (NoOof_trans _) (determine g f) Hdet e s0).
      destruct (hnm (determine g f) e s0) as [b s1]. simpl in H1. destruct H1 as [M1 O1].
      destruct (b && negb (kind_eqb (types s1 x) KAbstract)); [|apply O1; lia].
      assert (H2 := addr_R (NoOof (unres s0)) (NoOof_refl _) (NoOof_trans _) (determine g f) Hdet x (fun _ => True)
                      (fun r a _ _ _ => conj (conj (fun _ H => H) (conj (fun H => H) (fun _ H => H))) (fun _ => eq_refl))
                      e (set_type x KAbstract s1) (fun _ _ => I)).
      destruct H2 as [M2 O2]. rewrite O2.
      * simpl. apply O1. lia.
      * assert (L := unres_mono s0 s1 M1). unfold unres in *. simpl. exact L.
Qed.

(* ---------------------------------------------------------------- a pass without change *)
Definition closed (T : nat -> kind) (x : nat) : Prop :=
  (r_attrs (rule_of g x) = true -> T x = KCommon) /\
  (r_attrs (rule_of g x) = false -> (exists y, In y (rule_refs g x) /\ is_match (T y) = false) -> T x = KAbstract).

Lemma closed_ext T T' x : (forall y, T y = T' y) -> closed T x -> closed T' x.
Proof.
  intros E [C1 C2]. split.
  - intro H. rewrite <- E. auto.
  - intros H [y [Hy Hm]]. rewrite <- E. apply C2; [exact H|]. exists y. rewrite E. auto.
Qed.

Definition Q (s s' : st) : Prop :=
  changed s' = false ->
  changed s = false /\ (forall x, types s' x = types s x) /\
  (forall x, resolved s' x = true -> resolved s x = true \/ closed (types s') x).

Lemma Q_refl s : Q s s.
Proof. intro H. repeat split; auto. Qed.

Lemma Q_trans a b c : Q a b -> Q b c -> Q a c.
Proof.
  intros H1 H2 Hc. destruct (H2 Hc) as [Hb [T2 R2]]. destruct (H1 Hb) as [Ha [T1 R1]].
  split; [exact Ha|]. split; [intro x; rewrite T2; apply T1|].
  intros x Hx. destruct (R2 x Hx) as [Hr|Hcl]; [|right; exact Hcl].
  destruct (R1 x Hr) as [Hr'|Hcl]; [left; exact Hr'|]. right.
  apply (closed_ext (types b)); [intro y; symmetry; apply T2 | exact Hcl].
Qed.

Lemma Q_of_changed s s' : changed s' = true -> Q s s'.
Proof. intros H H'. congruence. Qed.

Lemma hnm_false det (Hd : forall y s, Q s (det y s)) : forall e s,
  changed (snd (hnm det e s)) = false -> fst (hnm det e s) = false ->
  forall y, In y (refs e) -> is_match (types (snd (hnm det e s)) y) = true.
Proof.
  induction e as [|r|es IH|es IH|e IH|e IH] using expr_ind'; intros s Hc Hb y Hy.
  - destruct Hy.
  - simpl in *. destruct Hy as [<-|[]]. apply negb_false_iff. exact Hb.
  - rewrite hnm_Seq in *. rewrite refs_Seq in Hy. revert s Hc Hb Hy.
    induction IH as [|a es Ha _ IHl]; intros s Hc Hb Hy; simpl in *; [destruct Hy|].
    assert (HQ : forall s0, Q s0 (snd (hnm_list det es s0))).
    { intro s0. rewrite <- hnm_Seq. apply (hnm_R Q Q_refl Q_trans det Hd). }
    specialize (Ha s). destruct (hnm det a s) as [b s'] eqn:E. destruct b; simpl in *; [discriminate|].
    destruct (HQ s' Hc) as [Hc' [HT _]].
    apply in_app_or in Hy as [Hy|Hy].
    + rewrite HT. apply Ha; auto.
    + apply IHl; auto.
  - rewrite hnm_Choice in *. rewrite refs_Choice in Hy. revert s Hc Hb Hy.
    induction IH as [|a es Ha _ IHl]; intros s Hc Hb Hy; simpl in *; [destruct Hy|].
    assert (HQ : forall s0, Q s0 (snd (hnm_list det es s0))).
    { intro s0. rewrite <- hnm_Choice. apply (hnm_R Q Q_refl Q_trans det Hd). }
    specialize (Ha s). destruct (hnm det a s) as [b s'] eqn:E. destruct b; simpl in *; [discriminate|].
    destruct (HQ s' Hc) as [Hc' [HT _]].
    apply in_app_or in Hy as [Hy|Hy].
    + rewrite HT. apply Ha; auto.
    + apply IHl; auto.
  - simpl in *. apply IH; auto.
  - simpl in *. apply IH; auto.
Qed.

Lemma Q_mark_then x s s' :
  Q (mark x s) s' -> (changed s' = false -> closed (types s') x) -> Q s s'.
Proof.
  intros H Hcl Hc. destruct (H Hc) as [H0 [HT HR]]. split; [exact H0|]. split; [exact HT|].
  intros y Hy. destruct (HR y Hy) as [Hr|Hr]; [|right; exact Hr].
  simpl in Hr. unfold upd in Hr. destruct (Nat.eqb y x) eqn:E; [|left; exact Hr].
  apply Nat.eqb_eq in E. subst y. right. apply Hcl. exact Hc.
Qed.

Lemma determine_Q : forall f x s, Q s (determine g f x s).
Proof.
  induction f as [|f IH]; intros x s; [intro H; repeat split; auto|].
  rewrite determine_S. destruct (resolved s x) eqn:Hres; [apply Q_refl|].
  apply (Q_mark_then x).
  - (* Q from the marked state *)
    generalize (mark x s) as s0. intro s0. unfold det_body.
    destruct (r_attrs (rule_of g x)).
    + destruct (kind_eqb (types s0 x) KCommon); [apply Q_refl | apply Q_of_changed; reflexivity].
    + destruct (r_body (rule_of g x)) as [t|e].
      * cbv zeta. destruct (negb (is_match (types (determine g f t s0) t)) && negb (kind_eqb (types (determine g f t s0) x) KAbstract));
          [|apply IH].
        apply Q_of_changed. destruct (mem t (inh (set_type x KAbstract (determine g f t s0)) x)); reflexivity.
      * assert (H1 := hnm_R Q Q_refl Q_trans (determine g f) IH e s0).
        destruct (hnm (determine g f) e s0) as [b s1]. simpl in H1.
        destruct (b && negb (kind_eqb (types s1 x) KAbstract)); [|exact H1].
        apply Q_of_changed.
        apply (proj1 (proj2 (addr_Mono (determine g f) (fun y a => proj1 (determine_Big f y a)) x e (set_type x KAbstract s1)))).
        reflexivity.
  - (* x itself is closed when nothing changed *)
    generalize (mark x s) as s0. intro s0. unfold det_body.
    destruct (r_attrs (rule_of g x)) eqn:Hat.
    + destruct (kind_eqb (types s0 x) KCommon) eqn:E.
      * intros _. split; [intros _; apply kind_eqb_eq; exact E | intro C; rewrite Hat in C; discriminate].
      * simpl. discriminate.
    + destruct (r_body (rule_of g x)) as [t|e] eqn:Hb.
      * cbv zeta. destruct (negb (is_match (types (determine g f t s0) t)) && negb (kind_eqb (types (determine g f t s0) x) KAbstract)) eqn:C.
        -- destruct (mem t (inh (set_type x KAbstract (determine g f t s0)) x)); simpl; discriminate.
        -- intros _. split; [intro C'; rewrite Hat in C'; discriminate|]. intros _ [y [Hy Hm]].
           unfold rule_refs in Hy. rewrite Hb in Hy. destruct Hy as [<-|[]].
           rewrite Hm in C. simpl in C. apply negb_false_iff in C. apply kind_eqb_eq. exact C.
      * assert (H1 := hnm_false (determine g f) IH e s0).
        destruct (hnm (determine g f) e s0) as [b s1]. simpl in H1.
        destruct (b && negb (kind_eqb (types s1 x) KAbstract)) eqn:C.
        -- intro Hc. exfalso.
           assert (HM := proj1 (proj2 (addr_Mono (determine g f) (fun y a => proj1 (determine_Big f y a)) x e (set_type x KAbstract s1))) eq_refl).
           congruence.
        -- intro Hc. split; [intro C'; rewrite Hat in C'; discriminate|]. intros _ [y [Hy Hm]].
           unfold rule_refs in Hy. rewrite Hb in Hy. simpl in Hy.
           destruct b.
           ++ simpl in C. apply negb_false_iff in C. apply kind_eqb_eq. exact C.
           ++ rewrite (H1 Hc eq_refl y Hy) in Hm. discriminate.
Qed.

(* ---------------------------------------------------------------- one pass, the loop *)
Definition step (s : st) (x : nat) : st := determine g (S n) x s.

Lemma run_pass_eq s : run_pass g s = fold_left step (seq 0 n) (reset s).
Proof. reflexivity. Qed.

Lemma fold_rel (R : st -> st -> Prop) (Rrefl : forall s, R s s) (Rtrans : forall a b c, R a b -> R b c -> R a c)
      (H : forall s x, R s (step s x)) : forall l s, R s (fold_left step l s).
Proof.
  induction l as [|a l IH]; intro s; simpl; [apply Rrefl | eapply Rtrans; [apply H | apply IH]].
Qed.

Lemma fold_Big l s : Big s (fold_left step l s).
Proof. apply (fold_rel Big Big_refl Big_trans). intros a x. apply determine_Big. Qed.

Lemma fold_Q l s : Q s (fold_left step l s).
Proof. apply (fold_rel Q Q_refl Q_trans). intros a x. apply determine_Q. Qed.

Lemma fold_nooof l s : oof (fold_left step l s) = oof s.
Proof.
  revert s. induction l as [|a l IH]; intro s; simpl; [reflexivity|].
  rewrite IH. apply determine_nooof. assert (B := cnt_bound (fun x => negb (resolved s x))). unfold unres. lia.
Qed.

Lemma fold_resolved l s x : In x l -> resolved (fold_left step l s) x = true.
Proof.
  revert s. induction l as [|a l IH]; intros s H; simpl; [destruct H|].
  destruct H as [->|H]; [|apply IH; exact H].
  apply (proj1 (proj1 (fold_Big l (step s x)))). apply determine_marks.
Qed.

Definition mcount (s : st) : nat := cnt (fun x => is_match (types s x)).

Lemma Inv_reset s : Inv s -> Inv (reset s).
Proof. intros H x. apply (H x). Qed.

Lemma Inv2_reset s : Inv2 s -> Inv2 (reset s).
Proof. intros H z y. apply (H z y). Qed.

Lemma pass_decreases s : Inv s -> changed (run_pass g s) = true -> mcount (run_pass g s) < mcount s.
Proof.
  intros HI Hc. rewrite run_pass_eq in *.
  destruct (fold_Big (seq 0 n) (reset s)) as [[_ [_ M3]] B]. destruct (B (Inv_reset s HI)) as [_ [_ [S1 _]]].
  destruct (S1 Hc) as [C|[x [Hx [Hm Hn]]]]; [simpl in C; discriminate|].
  apply filter_len_lt with (x := x).
  - intros y Hy. destruct (is_match (types s y)) eqn:E; [reflexivity|]. simpl in M3. rewrite (M3 y E) in Hy. discriminate.
  - apply in_seq. lia.
  - exact Hm.
  - exact Hn.
Qed.

Lemma loop_terminates : forall k s, Inv s -> Inv2 s -> oof s = false -> mcount s < k ->
  exists s0, Inv s0 /\ Inv2 s0 /\ oof s0 = false /\
             loop g k s = Some (run_pass g s0) /\ changed (run_pass g s0) = false.
Proof.
  induction k as [|k IH]; intros s HI H2 Ho Hm; [lia|].
  simpl. assert (Ho' : oof (run_pass g s) = false) by (rewrite run_pass_eq, fold_nooof; exact Ho).
  rewrite Ho'. destruct (changed (run_pass g s)) eqn:Hc.
  - assert (D := pass_decreases s HI Hc).
    destruct (fold_Big (seq 0 n) (reset s)) as [_ B]. destruct (B (Inv_reset s HI)) as [HI' [_ [_ H2']]].
    apply IH; [exact HI' | apply H2'; apply Inv2_reset; exact H2 | exact Ho' | lia].
  - exists s. auto.
Qed.

Lemma Inv_init : Inv (init).
Proof. intro x. simpl. repeat split; intro H; discriminate. Qed.

Lemma Inv2_init : Inv2 (init).
Proof. intros z y H. destruct H. Qed.

Lemma closed_all s0 : Inv s0 -> oof s0 = false -> changed (run_pass g s0) = false ->
  forall x, closed (types (run_pass g s0)) x.
Proof.
  intros HI Ho Hc x. destruct (Nat.lt_ge_cases x n) as [Hlt|Hge].
  - rewrite run_pass_eq in *. destruct (fold_Q (seq 0 n) (reset s0) Hc) as [_ [_ HR]].
    destruct (HR x (fold_resolved (seq 0 n) (reset s0) x (proj2 (in_seq n 0 x) (conj (Nat.le_0_l x) Hlt)))) as [C|C];
      [simpl in C; discriminate | exact C].
  - split; unfold rule_refs; rewrite (rule_of_overflow g x Hge); simpl; [discriminate|].
    intros _ [y [[] _]].
Qed.

Lemma closed_complete T : (forall x, closed T x) -> forall x, nonmatch g x -> is_match (T x) = false.
Proof.
  intros HC x H. induction H as [x Hat | x y Hy Hn IH].
  - rewrite (proj1 (HC x) Hat). reflexivity.
  - destruct (r_attrs (rule_of g x)) eqn:Hat.
    + rewrite (proj1 (HC x) Hat). reflexivity.
    + rewrite (proj2 (HC x) Hat); [reflexivity|]. exists y. auto.
Qed.

Theorem kinds_correct : exists s, determine_types g = Some s /\ (forall x, kind_spec g x (types s x)) /\ Inv2 s.
Proof.
  assert (Hm : mcount init < S n) by (assert (B := cnt_bound (fun x => is_match (types init x))); unfold mcount; lia).
  destruct (loop_terminates (S n) init Inv_init Inv2_init eq_refl Hm) as [s0 [HI [H2 [Ho [HL Hc]]]]].
  exists (run_pass g s0). split; [exact HL|].
  assert (HC := closed_all s0 HI Ho Hc).
  rewrite run_pass_eq in *.
  destruct (fold_Big (seq 0 n) (reset s0)) as [_ B]. destruct (B (Inv_reset s0 HI)) as [HI' [_ [_ H2']]].
  split; [|apply H2'; apply Inv2_reset; exact H2].
  intro x. destruct (HI' x) as [I1 [I2 I3]].
  destruct (types (fold_left step (seq 0 n) (reset s0)) x) eqn:E; simpl.
  - intro Hn. assert (F := closed_complete _ HC x Hn). rewrite E in F. discriminate.
  - split; [apply I2; reflexivity|].
    assert (Hn : nonmatch g x) by (apply I3; reflexivity).
    inversion Hn as [x' Hat|x' y Hy Hny]; subst.
    + rewrite (I2 eq_refl) in Hat. discriminate.
    + exists y. auto.
  - apply I1. reflexivity.
Qed.

End G.

(* ------------------------------------------------------------------ textx_isinstance: the visited-set search *)
Section Dfs.
Variable inhf : nat -> list nat.
Variable n : nat.
Hypothesis Hrange : forall x y, In y (inhf x) -> y < n.

Fixpoint dfs_list (f : nat) (k : nat) (l : list nat) (vis : nat -> bool) : option (bool * (nat -> bool)) :=
  match l with
  | [] => Some (false, vis)
  | c :: l' => if vis c then dfs_list f k l' vis else
               match dfs inhf f k c vis with
               | None => None
               | Some (true, v) => Some (true, v)
               | Some (false, v) => dfs_list f k l' v
               end
  end.

Lemma dfs_S f k r vis : dfs inhf (S f) k r vis =
  if Nat.eqb k r then Some (true, vis) else dfs_list f k (inhf r) (upd vis r true).
Proof.
  simpl. destruct (Nat.eqb k r); [reflexivity|].
  generalize (upd vis r true). induction (inhf r) as [|a l IH]; intro v; simpl; [reflexivity|].
  destruct (v a); [apply IH|]. destruct (dfs inhf f k a v) as [[[|] v']|]; [reflexivity | apply IH | reflexivity].
Qed.

Lemma dfs_sound : forall f k r vis v, dfs inhf f k r vis = Some (true, v) -> ireach inhf r k.
Proof.
  induction f as [|f IH]; intros k r vis v H; [discriminate|].
  rewrite dfs_S in H. destruct (Nat.eqb k r) eqn:E.
  - apply Nat.eqb_eq in E. subst. apply ireach_refl.
  - assert (HL : forall l v1, dfs_list f k l v1 = Some (true, v) -> exists c, In c l /\ ireach inhf c k).
    { induction l as [|c l IHl]; intros v1 H1; simpl in H1; [discriminate|].
      destruct (v1 c).
      - destruct (IHl v1 H1) as [c' [Hc Hr]]. exists c'. split; [right; exact Hc | exact Hr].
      - destruct (dfs inhf f k c v1) as [[[|] v2]|] eqn:D; [|..].
        + exists c. split; [left; reflexivity | apply (IH k c v1 v2 D)].
        + destruct (IHl v2 H1) as [c' [Hc Hr]]. exists c'. split; [right; exact Hc | exact Hr].
        + discriminate. }
    destruct (HL _ _ H) as [c [Hc Hr]]. apply (ireach_step inhf r c k Hc Hr).
Qed.

Definition vmono (a b : nat -> bool) : Prop := forall z, a z = true -> b z = true.
Definition vclosed (k : nat) (a b : nat -> bool) : Prop :=
  forall z, b z = true -> a z = true \/ (z <> k /\ forall c, In c (inhf z) -> b c = true).

Lemma dfs_mono : forall f k r vis b v, dfs inhf f k r vis = Some (b, v) -> vmono vis v.
Proof.
  induction f as [|f IH]; intros k r vis b v H; [discriminate|].
  rewrite dfs_S in H. destruct (Nat.eqb k r); [inversion H; subst; intros z Hz; exact Hz|].
  assert (HL : forall l v1, dfs_list f k l v1 = Some (b, v) -> vmono v1 v).
  { induction l as [|c l IHl]; intros v1 H1; simpl in H1; [inversion H1; subst; intros z Hz; exact Hz|].
    destruct (v1 c); [apply IHl; exact H1|].
    destruct (dfs inhf f k c v1) as [[[|] v2]|] eqn:D; [| |discriminate].
    - inversion H1; subst. apply (IH k c v1 true v D).
    - intros z Hz. apply (IHl v2 H1). apply (IH k c v1 false v2 D). exact Hz. }
  intros z Hz. apply (HL _ _ H). unfold upd. destruct (Nat.eqb z r); [reflexivity | exact Hz].
Qed.

Lemma dfs_false : forall f k r vis v, dfs inhf f k r vis = Some (false, v) ->
  v r = true /\ vclosed k vis v.
Proof.
  induction f as [|f IH]; intros k r vis v H; [discriminate|].
  rewrite dfs_S in H. destruct (Nat.eqb k r) eqn:E; [discriminate|]. apply Nat.eqb_neq in E.
  assert (HL : forall l v1, dfs_list f k l v1 = Some (false, v) ->
                            (forall c, In c l -> v c = true) /\ vclosed k v1 v).
  { induction l as [|c l IHl]; intros v1 H1; simpl in H1.
    - inversion H1; subst. split; [intros c []|]. intros z Hz. left. exact Hz.
    - destruct (v1 c) eqn:Vc.
      + destruct (IHl v1 H1) as [A B]. split; [|exact B].
        intros c' [<-|Hc]; [|apply A; exact Hc].
        assert (M : vmono v1 v).
        { clear - H1 IH. revert v1 H1. induction l as [|c' l IHl']; intros v1 H1; simpl in H1;
            [inversion H1; subst; intros z Hz; exact Hz|].
          destruct (v1 c'); [apply IHl'; exact H1|].
          destruct (dfs inhf f k c' v1) as [[[|] v2]|] eqn:D; [discriminate| |discriminate].
          intros z Hz. apply (IHl' v2 H1). apply (dfs_mono f k c' v1 false v2 D). exact Hz. }
        apply M. exact Vc.
      + destruct (dfs inhf f k c v1) as [[[|] v2]|] eqn:D; [discriminate| |discriminate].
        destruct (IH k c v1 v2 D) as [Hc2 C2]. destruct (IHl v2 H1) as [A B].
        assert (M : vmono v2 v).
        { clear - H1 IH. revert v2 H1. induction l as [|c' l IHl']; intros v2 H1; simpl in H1;
            [inversion H1; subst; intros z Hz; exact Hz|].
          destruct (v2 c'); [apply IHl'; exact H1|].
          destruct (dfs inhf f k c' v2) as [[[|] v3]|] eqn:D; [discriminate| |discriminate].
          intros z Hz. apply (IHl' v3 H1). apply (dfs_mono f k c' v2 false v3 D). exact Hz. }
        split.
        * intros c' [<-|Hc]; [apply M; exact Hc2 | apply A; exact Hc].
        * intros z Hz. destruct (B z Hz) as [Hz2|Hz2]; [|right; exact Hz2].
          destruct (C2 z Hz2) as [Hz1|[Hne Hs]]; [left; exact Hz1|].
          right. split; [exact Hne|]. intros c' Hc'. apply M. apply Hs. exact Hc'. }
  destruct (HL _ _ H) as [A B].
  assert (M := dfs_mono (S f) k r vis false v). rewrite dfs_S in M.
  destruct (Nat.eqb k r) eqn:E'; [apply Nat.eqb_eq in E'; congruence|]. specialize (M H).
  assert (Hr : v r = true).
  { clear - H IH. assert (HM : forall l v1, dfs_list f k l v1 = Some (false, v) -> vmono v1 v).
    { induction l as [|c l IHl]; intros v1 H1; simpl in H1; [inversion H1; subst; intros z Hz; exact Hz|].
      destruct (v1 c); [apply IHl; exact H1|].
      destruct (dfs inhf f k c v1) as [[[|] v2]|] eqn:D; [discriminate| |discriminate].
      intros z Hz. apply (IHl v2 H1). apply (dfs_mono f k c v1 false v2 D). exact Hz. }
    apply (HM _ _ H). apply upd_same. }
  split; [exact Hr|].
  intros z Hz. destruct (B z Hz) as [Hz1|Hz1]; [|right; exact Hz1].
  unfold upd in Hz1. destruct (Nat.eqb z r) eqn:Ez; [|left; exact Hz1].
  apply Nat.eqb_eq in Ez. subst z. right. split; [congruence | exact A].
Qed.

Lemma dfs_complete f k r v : dfs inhf f k r (fun _ => false) = Some (false, v) -> ~ ireach inhf r k.
Proof.
  intros H Hr. destruct (dfs_false f k r _ v H) as [Hv C].
  assert (G : forall z, ireach inhf z k -> v z = true -> False).
  { intros z Hz. induction Hz as [z | z y w Hy Hyw IH]; intro Vz.
    - destruct (C z Vz) as [F|[F _]]; [discriminate | congruence].
    - destruct (C z Vz) as [F|[_ F]]; [discriminate|]. apply (IH H Hr C). apply F. exact Hy. }
  exact (G r Hr Hv).
Qed.

Definition uv (vis : nat -> bool) : nat := length (filter (fun x => negb (vis x)) (seq 0 n)).

Lemma uv_mono a b : vmono a b -> uv b <= uv a.
Proof.
  intro M. unfold uv. apply filter_len_le. intros x H. apply negb_true_iff in H. apply negb_true_iff.
  destruct (a x) eqn:E; [rewrite (M x E) in H; discriminate | reflexivity].
Qed.

Lemma uv_upd c vis : c < n -> vis c = false -> uv (upd vis c true) < uv vis.
Proof.
  intros Hc Hv. unfold uv. apply filter_len_lt with (x := c).
  - intros y H. unfold upd in H. destruct (Nat.eqb y c); [discriminate | exact H].
  - apply in_seq. lia.
  - rewrite Hv. reflexivity.
  - rewrite upd_same. reflexivity.
Qed.

Lemma dfs_nooof : forall f k r vis, uv (upd vis r true) < f -> dfs inhf f k r vis <> None.
Proof.
  induction f as [|f IH]; intros k r vis Hu; [lia|].
  rewrite dfs_S. destruct (Nat.eqb k r); [discriminate|].
  assert (HL : forall l v1, (forall c, In c l -> c < n) -> uv v1 <= f -> dfs_list f k l v1 <> None).
  { induction l as [|c l IHl]; intros v1 Hl Hv; simpl; [discriminate|].
    destruct (v1 c) eqn:Vc; [apply IHl; [intros; apply Hl; right; assumption | exact Hv]|].
    assert (Hc : uv (upd v1 c true) < f).
    { assert (L := uv_upd c v1 (Hl c (or_introl eq_refl)) Vc). lia. }
    destruct (dfs inhf f k c v1) as [[[|] v2]|] eqn:D; [discriminate| |exfalso; exact (IH k c v1 Hc D)].
    apply IHl; [intros; apply Hl; right; assumption|].
    assert (L := uv_mono v1 v2 (dfs_mono f k c v1 false v2 D)). lia. }
  apply HL; [intros c Hc; apply (Hrange r c Hc) | lia].
Qed.

Lemma isinstance_graph k r :
  exists b, isinstance n inhf k (Some r) = Some b /\ (b = true <-> ireach inhf r k).
Proof.
  unfold isinstance.
  assert (Hn : dfs inhf (S n) k r (fun _ => false) <> None).
  { apply dfs_nooof. unfold uv. assert (L : forall p (l : list nat), length (filter p l) <= length l).
    { intros p l. induction l as [|a l IH]; simpl; [lia | destruct (p a); simpl; lia]. }
    specialize (L (fun x => negb (upd (fun _ => false) r true x)) (seq 0 n)). rewrite seq_length in L. lia. }
  destruct (dfs inhf (S n) k r (fun _ => false)) as [[b v]|] eqn:D; [|congruence].
  exists b. split; [reflexivity|]. destruct b.
  - split; [intros _; apply (dfs_sound _ _ _ _ _ D) | reflexivity].
  - split; [discriminate | intro H; exfalso; exact (dfs_complete _ _ _ _ D H)].
Qed.
End Dfs.

(* recorded inheritance only follows references of abstract rules to non-match rules *)
Lemma ireach_reach g s : Inv2 g s -> forall r k, ireach (inh s) r k -> reach g (types s) r k.
Proof.
  intros H2 r k H. induction H as [x | x y z Hy Hyz IH]; [apply reach_refl|].
  destruct (H2 x y Hy) as [Hx [Hr Hm]]. apply (reach_step g (types s) x y z Hx Hr); [|exact IH].
  apply is_match_false. exact Hm.
Qed.

Theorem isinstance_correct g :
  exists s, determine_types g = Some s /\
    forall k r, exists b, isinstance (length g) (inh s) k (Some r) = Some b /\
                          (b = true <-> ireach (inh s) r k) /\
                          (b = true -> reach g (types s) r k).
Proof.
  destruct (kinds_correct g) as [s [H1 [H2 H3]]]. exists s. split; [exact H1|].
  intros k r.
  assert (Hrange : forall x y, In y (inh s x) -> y < length g).
  { intros x y Hy. destruct (H3 x y Hy) as [_ [_ Hm]].
    destruct (Nat.lt_ge_cases y (length g)) as [L|G]; [exact L|]. exfalso.
    assert (K := H2 y). unfold kind_spec, rule_refs in K. rewrite (rule_of_overflow g y G) in K.
    destruct (types s y); simpl in *; [discriminate | destruct K as [_ [w [[] _]]] | discriminate]. }
  destruct (isinstance_graph (inh s) (length g) Hrange k r) as [b [Hb Hiff]].
  exists b. split; [exact Hb|]. split; [exact Hiff|].
  intro E. apply (ireach_reach g s H3). apply Hiff. exact E.
Qed.

(* ------------------------------------------------------------------ building objects *)
Section TreeInd.
Variable P : tree -> Prop.
Hypothesis HT : forall s, P (TT s).
Hypothesis HN : forall r kids, Forall P kids -> P (TN r kids).
Hypothesis HA : forall kids, Forall P kids -> P (TA kids).
Fixpoint tree_ind' (t : tree) : P t :=
  match t with
  | TT s => HT s
  | TN r kids => HN r kids ((fix go (l : list tree) : Forall P l :=
                              match l with [] => Forall_nil P | x :: l' => Forall_cons x (tree_ind' x) (go l') end) kids)
  | TA kids => HA kids ((fix go (l : list tree) : Forall P l :=
                              match l with [] => Forall_nil P | x :: l' => Forall_cons x (tree_ind' x) (go l') end) kids)
  end.
End TreeInd.

Fixpoint vals_of (K : nat -> kind) (l : list tree) : list value :=
  match l with
  | [] => []
  | TA ks :: l' => map (process K) ks ++ vals_of K l'
  | _ :: l' => vals_of K l'
  end.

Fixpoint pick_nm (K : nat -> kind) (l : list tree) : option tree :=
  match l with [] => None | k :: l' => if nonmatch_node K k then Some k else pick_nm K l' end.

Fixpoint first_nt (l : list tree) : option tree :=
  match l with [] => None | k :: l' => match k with TT _ => first_nt l' | _ => Some k end end.

Lemma process_common K r kids : K r = KCommon -> process K (TN r kids) = VObj r (vals_of K kids).
Proof.
  intro H. simpl. rewrite H. f_equal.
  induction kids as [|k kids IH]; [reflexivity|].
  destruct k as [s|r' ks|ks]; simpl; try exact IH. rewrite <- IH. reflexivity.
Qed.

Lemma process_match K r kids : K r = KMatch -> process K (TN r kids) = VStr (flat (TN r kids)).
Proof. intro H. simpl. rewrite H. reflexivity. Qed.

Definition abstract_result (K : nat -> kind) (r : nat) (kids : list tree) : value :=
  match kids with
  | [] => VStr []
  | [k] => process K k
  | _ => match pick_nm K kids with
         | Some k => process K k
         | None => match first_nt kids with
                   | Some k => process K k
                   | None => VStr (flat (TN r kids))
                   end
         end
  end.

Lemma pick_eq K (V : value) (l : list tree) :
  (fix pick (l : list tree) : value :=
     match l with [] => V | k :: l' => if nonmatch_node K k then process K k else pick l' end) l
  = match pick_nm K l with Some k => process K k | None => V end.
Proof. induction l as [|a l IH]; simpl; [reflexivity | destruct (nonmatch_node K a); [reflexivity | exact IH]]. Qed.

Lemma first_eq K (V : value) (m : list tree) :
  (fix first_nt (m : list tree) : value :=
     match m with [] => V | k :: m' => match k with TT _ => first_nt m' | _ => process K k end end) m
  = match first_nt m with Some k => process K k | None => V end.
Proof. induction m as [|a m IH]; simpl; [reflexivity | destruct a; [exact IH | reflexivity | reflexivity]]. Qed.

Lemma process_abstract K r kids : K r = KAbstract -> process K (TN r kids) = abstract_result K r kids.
Proof.
  intro H. unfold abstract_result.
  destruct kids as [|k1 [|k2 kids]]; [simpl; rewrite H; reflexivity | simpl; rewrite H; reflexivity|].
  simpl. rewrite H.
  destruct (nonmatch_node K k1); [reflexivity|]. destruct (nonmatch_node K k2); [reflexivity|].
  etransitivity; [apply pick_eq|].
  destruct (pick_nm K kids); [reflexivity|].
  destruct k1; [|reflexivity|reflexivity]. destruct k2; [|reflexivity|reflexivity].
  apply first_eq.
Qed.

Lemma objs_VObj c vs : objs (VObj c vs) = c :: flat_map objs vs.
Proof. reflexivity. Qed.

Lemma pick_nm_In K l k : pick_nm K l = Some k -> In k l.
Proof.
  induction l as [|a l IH]; simpl; [discriminate|]. destruct (nonmatch_node K a).
  - intro H. inversion H. auto.
  - intro H. right. apply IH. exact H.
Qed.

Lemma first_nt_In l k : first_nt l = Some k -> In k l.
Proof.
  induction l as [|a l IH]; simpl; [discriminate|]. destruct a; intro H;
    [right; apply IH; exact H | inversion H; left; reflexivity | inversion H; left; reflexivity].
Qed.

Definition all_common (K : nat -> kind) (v : value) : Prop := Forall (fun c => K c = KCommon) (objs v).

Theorem only_common_instances K : forall t, all_common K (process K t).
Proof.
  assert (G : forall t, all_common K (process K t) /\
                        match t with TA ks => Forall (fun k => all_common K (process K k)) ks | _ => True end).
  { induction t as [s|r kids IH|kids IH] using tree_ind'.
    - split; [apply Forall_nil | exact I].
    - split; [|exact I]. destruct (K r) eqn:E.
      + rewrite (process_match K r kids E). apply Forall_nil.
      + rewrite (process_abstract K r kids E). unfold abstract_result.
        assert (Hin : forall k, In k kids -> all_common K (process K k)).
        { intros k Hk. rewrite Forall_forall in IH. apply (proj1 (IH k Hk)). }
        destruct kids as [|k1 [|k2 kids]]; [apply Forall_nil | apply Hin; left; reflexivity|].
        destruct (pick_nm K (k1 :: k2 :: kids)) eqn:Pk; [apply Hin; apply (pick_nm_In K _ _ Pk)|].
        destruct (first_nt (k1 :: k2 :: kids)) eqn:Fk; [apply Hin; apply (first_nt_In _ _ Fk) | apply Forall_nil].
      + rewrite (process_common K r kids E). unfold all_common. rewrite objs_VObj.
        apply Forall_cons; [exact E|].
        induction IH as [|k kids Hk _ IHl]; [apply Forall_nil|].
        destruct k as [s|r' ks|ks]; simpl; try exact IHl.
        rewrite flat_map_app. apply Forall_app. split; [|exact IHl].
        destruct Hk as [_ Hks]. clear - Hks. induction Hks as [|a ks Ha _ IHk]; simpl; [apply Forall_nil|].
        apply Forall_app. split; [exact Ha | exact IHk].
    - split; [apply Forall_nil|]. rewrite Forall_forall in *. intros k Hk. apply (proj1 (IH k Hk)). }
  intro t. apply (proj1 (G t)).
Qed.

(* the first node of an abstract / common rule decides, whatever precedes or follows it *)
Lemma pick_nm_first K pre k post :
  (forall p, In p pre -> nonmatch_node K p = false) -> nonmatch_node K k = true ->
  pick_nm K (pre ++ k :: post) = Some k.
Proof.
  intros Hp Hk. induction pre as [|a pre IH]; simpl; [rewrite Hk; reflexivity|].
  rewrite (Hp a (or_introl eq_refl)). apply IH. intros p H. apply Hp. right. exact H.
Qed.

Theorem abstract_first_nonmatch K r pre k post :
  K r = KAbstract ->
  (forall p, In p pre -> nonmatch_node K p = false) -> nonmatch_node K k = true ->
  process K (TN r (pre ++ k :: post)) = process K k.
Proof.
  intros Hr Hp Hk. rewrite (process_abstract K r _ Hr). unfold abstract_result.
  assert (Pk := pick_nm_first K pre k post Hp Hk).
  destruct (pre ++ k :: post) as [|k1 [|k2 l]] eqn:E.
  - destruct pre; discriminate.
  - simpl in Pk. destruct (nonmatch_node K k1); [inversion Pk; reflexivity | discriminate].
  - rewrite Pk. reflexivity.
Qed.

Lemma first_nt_none l : (forall p, In p l -> exists s, p = TT s) -> first_nt l = None.
Proof.
  induction l as [|a l IH]; intro H; [reflexivity|]. simpl.
  destruct (H a (or_introl eq_refl)) as [s ->]. apply IH. intros p Hp. apply H. right. exact Hp.
Qed.

Lemma pick_nm_none_terms K l : (forall p, In p l -> exists s, p = TT s) -> pick_nm K l = None.
Proof.
  induction l as [|a l IH]; intro H; [reflexivity|]. simpl.
  destruct (H a (or_introl eq_refl)) as [s ->]. simpl. apply IH. intros p Hp. apply H. right. exact Hp.
Qed.

Theorem abstract_all_terminals K r kids :
  K r = KAbstract -> (forall p, In p kids -> exists s, p = TT s) ->
  process K (TN r kids) = VStr (flat (TN r kids)).
Proof.
  intros Hr Ht. rewrite (process_abstract K r _ Hr). unfold abstract_result.
  destruct kids as [|k1 [|k2 l]].
  - reflexivity.
  - destruct (Ht k1 (or_introl eq_refl)) as [s ->]. simpl. rewrite app_nil_r. reflexivity.
  - rewrite (pick_nm_none_terms K _ Ht), (first_nt_none _ Ht). reflexivity.
Qed.
Lemma kind_spec_unique g x k1 k2 : kind_spec g x k1 -> kind_spec g x k2 -> k1 = k2.
Proof.
  destruct k1, k2; simpl; intros H1 H2; try reflexivity; exfalso.
  - destruct H2 as [_ [y [Hy Hn]]]. apply H1. apply (nm_ref g x y Hy Hn).
  - apply H1. apply nm_attrs. exact H2.
  - destruct H1 as [_ [y [Hy Hn]]]. apply H2. apply (nm_ref g x y Hy Hn).
  - destruct H1 as [H1 _]. congruence.
  - apply H2. apply nm_attrs. exact H1.
  - destruct H2 as [H2 _]. congruence.
Qed.

Theorem inh_by_sound g : exists s, determine_types g = Some s /\
  forall z y, In y (inh s z) -> types s z = KAbstract /\ In y (rule_refs g z) /\ types s y <> KMatch.
Proof.
  destruct (kinds_correct g) as [s [H1 [_ H3]]]. exists s. split; [exact H1|].
  intros z y Hy. destruct (H3 z y Hy) as [A [B C]]. split; [exact A|]. split; [exact B|].
  apply is_match_false. exact C.
Qed.

(* the same at the level of rule kinds (uses the generated fact abstract_pick_by_kind) *)
Lemma nonmatch_node_TN K r ks : nonmatch_node K (TN r ks) = negb (is_match (K r)).
Proof. reflexivity. Qed.

Definition plain_node (K : nat -> kind) (p : tree) : Prop :=
  (exists s, p = TT s) \/ (exists q qs, p = TN q qs /\ K q = KMatch).

Theorem abstract_first_nonmatch_kinds K r pre r' ks post :
  K r = KAbstract -> (forall p, In p pre -> plain_node K p) -> K r' <> KMatch ->
  process K (TN r (pre ++ TN r' ks :: post)) = process K (TN r' ks).
Proof.
  intros Hr Hp Hk. apply abstract_first_nonmatch; [exact Hr | |].
  - intros p Hin. destruct (Hp p Hin) as [[s ->]|[q [qs [-> Hq]]]]; [reflexivity|].
    rewrite nonmatch_node_TN, Hq. reflexivity.
  - rewrite nonmatch_node_TN. apply negb_true_iff. apply is_match_false. exact Hk.
Qed.

(* ------------------------------------------------------------------ objects come from nodes of the tree *)
Lemma node_rules_TN r kids : node_rules (TN r kids) = r :: flat_map node_rules kids.
Proof. reflexivity. Qed.

Lemma node_rules_TA kids : node_rules (TA kids) = flat_map node_rules kids.
Proof. reflexivity. Qed.

Lemma In_flat_map_intro {A B} (f : A -> list B) l x y : In x l -> In y (f x) -> In y (flat_map f l).
Proof. intros H1 H2. apply in_flat_map. exists x. auto. Qed.

Theorem objs_from_nodes K : forall t c, In c (objs (process K t)) -> K c = KCommon /\ In c (node_rules t).
Proof.
  assert (G : forall t, (forall c, In c (objs (process K t)) -> In c (node_rules t)) /\
                        match t with TA ks => Forall (fun k => forall c, In c (objs (process K k)) -> In c (node_rules k)) ks | _ => True end).
  { induction t as [s|r kids IH|kids IH] using tree_ind'.
    - split; [intros c [] | exact I].
    - split; [|exact I]. rewrite node_rules_TN.
      assert (Hin : forall k, In k kids -> forall c, In c (objs (process K k)) -> In c (r :: flat_map node_rules kids)).
      { intros k Hk c Hc. right. rewrite Forall_forall in IH. apply (In_flat_map_intro node_rules kids k c Hk). apply (proj1 (IH k Hk)). exact Hc. }
      destruct (K r) eqn:E.
      + rewrite (process_match K r kids E). intros c [].
      + rewrite (process_abstract K r kids E). unfold abstract_result.
        destruct kids as [|k1 [|k2 kids]]; [intros c [] | apply Hin; left; reflexivity|].
        destruct (pick_nm K (k1 :: k2 :: kids)) eqn:Pk; [apply Hin; apply (pick_nm_In K _ _ Pk)|].
        destruct (first_nt (k1 :: k2 :: kids)) eqn:Fk; [apply Hin; apply (first_nt_In _ _ Fk) | intros c []].
      + rewrite (process_common K r kids E). intros c Hc. rewrite objs_VObj in Hc. destruct Hc as [<-|Hc]; [left; reflexivity|].
        right. clear Hin. induction IH as [|k kids Hk _ IHl]; [destruct Hc|].
        destruct k as [s|r' ks|ks];
          [simpl in Hc |- *; apply IHl; exact Hc
          |change (In c (node_rules (TN r' ks) ++ flat_map node_rules kids)); apply in_or_app; right; apply IHl; exact Hc|].
        simpl in Hc |- *.
        change (In c (flat_map objs (map (process K) ks ++ vals_of K kids))) in Hc.
        rewrite flat_map_app in Hc. apply in_app_or in Hc as [Hc|Hc]; [|apply in_or_app; right; apply IHl; exact Hc].
        apply in_or_app. left. change (In c (flat_map node_rules ks)). destruct Hk as [_ Hks]. clear - Hks Hc.
        induction Hks as [|a ks Ha _ IHk]; simpl in *; [destruct Hc|].
        apply in_app_or in Hc as [Hc|Hc]; apply in_or_app; [left; apply Ha; exact Hc | right; apply IHk; exact Hc].
    - split; [intros c []|]. rewrite Forall_forall in *. intros k Hk. apply (proj1 (IH k Hk)). }
  intros t c Hc. split.
  - assert (F := only_common_instances K t). unfold all_common in F. rewrite Forall_forall in F. apply F. exact Hc.
  - apply (proj1 (G t)). exact Hc.
Qed.
