(* C05 — the attribute called `parent`: where the tree model is exact, and what happens outside *)
From TxV Require Import Core.Base Model.Nav Model.NavParent Proofs.NavProofs.

(* ---- inside the class `no_parent_attr` Python's getattr is the slot value: followp = follow ---- *)
Section Agree.
  Variable root : obj.
  Variable h : heap.
  Variables sel sf : obj -> bool.
  Variable cf : bool.

  Lemma elemsp_ok (F : obj -> state -> fres) (F' : obj -> state -> state) vs :
    Forall (fun v => forall st, F v st = FOk (F' v st)) vs ->
    forall st, elemsp F sf vs st = FOk (follow_elems F' sf vs st).
  Proof.
    induction 1 as [|v vs Hv Hvs IH]; intro st; simpl; [reflexivity|].
    destruct (sf v); [rewrite Hv|]; simpl; apply IH.
  Qed.

  Lemma attrsp_ok id (F : obj -> state -> fres) (F' : obj -> state -> state) ss :
    Forall (fun mvs : ameta * list obj =>
              str_eqb (aname (fst mvs)) s_parent = false /\
              (acont (fst mvs) = true ->
               Forall (fun v => forall st, F v st = FOk (F' v st)) (slot_vals (fst mvs) (snd mvs)))) ss ->
    forall st, attrsp root h id F sf ss st = FOk (follow_attrs F' sf ss st).
  Proof.
    induction 1 as [|[m vs] ss [Hn Hv] Hs IH]; intro st; simpl; [reflexivity|].
    simpl in Hn, Hv. unfold py_getattr. rewrite Hn.
    destruct (acont m); [|simpl; apply IH].
    specialize (Hv eq_refl). unfold slot_vals in Hv. destruct (amany m).
    - rewrite (elemsp_ok F F' vs Hv). simpl. apply IH.
    - destruct vs as [|v vs']; [simpl; apply IH|].
      inversion Hv as [|v0 l0 Hv0 _]; subst. destruct (sf v); [rewrite Hv0|]; simpl; apply IH.
  Qed.

  Lemma child_nodes_incl id c slots m vs v x :
    In (m, vs) slots -> acont m = true -> In v (slot_vals m vs) ->
    In x (nodes v) -> In x (nodes (Node id c slots)).
  Proof.
    intros H1 H2 H3 Hx. rewrite nodes_node. right. apply in_below. exists m, vs, v. auto.
  Qed.

  Lemma followp_follow : forall elem,
    no_parent_attr elem = true ->
    forall fuel st, length (nodes elem) < fuel ->
      followp root h fuel sel sf cf elem st = FOk (follow sel sf cf elem st).
  Proof.
    induction elem as [k t|t|id c slots IH] using obj_ind'; intros Hnp fuel st Hf;
      (destruct fuel as [|f]; [inversion Hf|]); try reflexivity.
    cbn [followp follow]. destruct (mem_N id (snd st)); [reflexivity|].
    assert (Hself : find_slot s_parent slots = None).
    { apply (no_parent_attr_slots (Node id c slots) (Node id c slots) Hnp). apply self_in_walk. reflexivity. }
    assert (HF : Forall (fun mvs : ameta * list obj =>
              str_eqb (aname (fst mvs)) s_parent = false /\
              (acont (fst mvs) = true ->
               Forall (fun v => forall st, followp root h f sel sf cf v st = FOk (follow sel sf cf v st))
                      (slot_vals (fst mvs) (snd mvs)))) slots).
    { rewrite Forall_forall. intros [m vs] Hs. simpl. split.
      - exact (find_none _ _ Hself (m, vs) Hs).
      - intro Hc. rewrite Forall_forall. intros v Hv st'.
        apply (IH_get _ _ _ _ _ IH Hs Hv).
        + unfold no_parent_attr in *. rewrite forallb_forall in *. intros x Hx. apply Hnp.
          eapply child_nodes_incl; eassumption.
        + pose proof (below_length allf false slots m vs v Hs Hc Hv eq_refl) as Hle.
          rewrite nodes_node in Hf. simpl in Hf. unfold nodes. lia. }
    rewrite (attrsp_ok id _ (follow sel sf cf) slots HF). reflexivity.
  Qed.
End Agree.

(* ---- outside: a cycle of parent links makes get_model run forever ---- *)
Lemma get_model_cycle (h : heap) a b ca cb :
  lookup a h = Some {| hcls := ca; hparent := Some (PObj b) |} ->
  lookup b h = Some {| hcls := cb; hparent := Some (PObj a) |} ->
  forall fuel, get_model h fuel a = GFuel /\ get_model h fuel b = GFuel.
Proof.
  intros Ha Hb. induction fuel as [|f [IHa IHb]]; [split; reflexivity|].
  split; simpl; [rewrite Ha | rewrite Hb]; simpl; assumption.
Qed.

Local Open Scope N_scope.
(* R0{c0=[R1 n1{parent->n2}, R1 n2{parent->n1}]}: `parent=[R1]` in a nested rule *)
Definition ex_parent_ref : obj :=
  Node 0 [82;48] [ (mk_attr [99;48] true true,
    [ Node 1 [82;49] [ (mk_attr s_parent false false, [Ref 2]) ];
      Node 2 [82;49] [ (mk_attr s_parent false false, [Ref 1]) ] ]) ].
(* R0{c0=[R1 n1{parent=5}]}: a containment attribute `parent=INT` in a nested rule *)
Definition ex_parent_nested : obj :=
  Node 0 [82;48] [ (mk_attr [99;48] true true, [ Node 1 [82;49] [ (mk_attr s_parent true false, [Prim 1 [53]]) ] ]) ].
(* R0{c0=[R1 n1{parent=[R2 n2]}]}: a list attribute `parent+=R2` in a nested rule *)
Definition ex_parent_list : obj :=
  Node 0 [82;48] [ (mk_attr [99;48] true true,
    [ Node 1 [82;49] [ (mk_attr s_parent true true, [Node 2 [82;50] []]) ] ]) ].
Local Close Scope N_scope.

Lemma parent_reference_symptom :
  uniq ex_parent_ref /\
  lookup 1 (heap_of ex_parent_ref) = Some {| hcls := [82;49]%N; hparent := Some (PObj 2) |} /\
  forall fuel, get_model (heap_of ex_parent_ref) fuel 1 = GFuel.
Proof.
  split; [apply uniq_b_sound; vm_compute; reflexivity|]. split; [vm_compute; reflexivity|].
  intro fuel. apply (get_model_cycle (heap_of ex_parent_ref) 1 2 [82;49]%N [82;49]%N); vm_compute; reflexivity.
Qed.

(* the call parse_tree_to_objgraph makes on every load: a selector nothing satisfies, from the root *)
Lemma parent_nested_symptom :
  uniq ex_parent_nested /\
  followp ex_parent_nested (heap_of ex_parent_nested) 1000 (fun _ => false) (fun _ => true) false
          ex_parent_nested ([], []) = FRecursion.
Proof. split; [apply uniq_b_sound; vm_compute; reflexivity | vm_compute; reflexivity]. Qed.

Lemma parent_list_symptom :
  uniq ex_parent_list /\
  followp ex_parent_list (heap_of ex_parent_list) 1000 (fun _ => false) (fun _ => true) false
          ex_parent_list ([], []) = FTypeError.
Proof. split; [apply uniq_b_sound; vm_compute; reflexivity | vm_compute; reflexivity]. Qed.
