(* PlantUML exports are line oriented: exactly two lines of the modelled document start with '@' (the
   @startuml and @enduml of C29_plantuml_shape), whatever match-rule texts the legend quotes. *)
From Coq Require Import String.
From TxV Require Import Core.Base Model.ExportDefs Gen.SrcExport Model.Export Model.ExportWalk Model.ExportMeta
  Proofs.ExportProofs Proofs.ExportMetaProofs.

Definition noat (u : list N) : bool := forallb (fun c => negb (N.eqb c 64)) u.
Definition nonl (u : list N) : bool := forallb (fun c => negb (N.eqb c 10)) u.

Lemma noat_app u v : noat (u ++ v) = noat u && noat v.
Proof. apply forallb_app. Qed.
Lemma nonl_app u v : nonl (u ++ v) = nonl u && nonl v.
Proof. apply forallb_app. Qed.

Lemma at_noat u : noat u = true -> forall b, at_lines b u = 0.
Proof.
  induction u as [|c u IH]; intros H b; [reflexivity|].
  cbn [noat forallb] in H. apply andb_true_iff in H as [Hc Hu]. apply negb_true_iff in Hc.
  cbn [at_lines]. rewrite Hc, andb_false_r. cbn. apply IH, Hu.
Qed.

Lemma at_app u : forall b v, at_lines b (u ++ v) = at_lines b u + at_lines (eol b u) v.
Proof.
  induction u as [|c u IH]; intros b v; [reflexivity|].
  cbn [app at_lines eol]. rewrite IH. lia.
Qed.

Lemma eol_app u : forall b v, eol b (u ++ v) = eol (eol b u) v.
Proof. induction u as [|c u IH]; intros b v; [reflexivity|]. cbn [app eol]. apply IH. Qed.

Lemma eol_nl b u : eol b (u ++ nl) = true.
Proof. rewrite eol_app. reflexivity. Qed.

Lemma at_nonl u : nonl u = true -> forall v, at_lines false (u ++ v) = at_lines false v.
Proof.
  induction u as [|c u IH]; intros H v; [reflexivity|].
  cbn [nonl forallb] in H. apply andb_true_iff in H as [Hc Hu]. apply negb_true_iff in Hc.
  cbn [app at_lines]. rewrite Hc. cbn. apply IH, Hu.
Qed.

Lemma plain_noat u : forallb plain_char u = true -> noat u = true.
Proof. apply forallb_impl. intros c Hc. rewrite (plain_not 64 eq_refl c Hc). reflexivity. Qed.
Lemma plain_nonl u : forallb plain_char u = true -> nonl u = true.
Proof. apply forallb_impl. intros c Hc. rewrite (plain_not 10 eq_refl c Hc). reflexivity. Qed.
Lemma word_noat u : forallb word_char u = true -> noat u = true.
Proof. intro H. apply plain_noat. eapply forallb_impl; [apply word_plain | exact H]. Qed.
Lemma word_nonl u : forallb word_char u = true -> nonl u = true.
Proof. intro H. apply plain_nonl. eapply forallb_impl; [apply word_plain | exact H]. Qed.

Lemma noat_flat_map {X : Type} (f : X -> list N) (l : list X) :
  (forall x, In x l -> noat (f x) = true) -> noat (flat_map f l) = true.
Proof.
  induction l as [|x l IH]; intro H; [reflexivity|].
  cbn [flat_map]. rewrite noat_app, (H x (or_introl eq_refl)). apply IH. intros y Hy. apply H. right. exact Hy.
Qed.

(* ---- dot_escape never produces a newline *)
Lemma chain_nonl_unit chain : chain_nonl chain = true -> forall x, nonl (esc1 chain x) = true.
Proof.
  intros Hs x. unfold chain_nonl in Hs. rewrite forallb_forall in Hs.
  destruct (in_dec N.eq_dec x (10%N :: map fst chain)) as [Hin|Hout]; [apply Hs, Hin|].
  rewrite esc1_other by (intro H; apply Hout; right; exact H).
  assert (Hx : N.eqb x 10 = false) by (apply N.eqb_neq; intro E; apply Hout; left; symmetry; exact E).
  cbn. rewrite Hx. reflexivity.
Qed.

Lemma chain_nonl_all chain : chain_nonl chain = true -> forall s, nonl (apply_chain chain s) = true.
Proof.
  intros Hs s. rewrite apply_chain_flat. induction s as [|x s IH]; [reflexivity|].
  cbn [flat_map]. rewrite nonl_app, (chain_nonl_unit chain Hs x). exact IH.
Qed.

Lemma escape_chain_nonl : chain_nonl escape_chain = true.
Proof. vm_compute. reflexivity. Qed.

Lemma dot_escape_nonl s : nonl (dot_escape s) = true.
Proof. apply chain_nonl_all, escape_chain_nonl. Qed.

(* ---- names *)
Section Count.
  Variable cl : list mcls.
  Hypothesis Hn : names_ok cl = true.

  Lemma names_of c : In c cl ->
    forallb word_char (mc_name c) = true /\ forallb word_char (mc_fqn c) = true
    /\ forall a, In a (mc_attrs c) -> forallb word_char (ma_name a) = true.
  Proof.
    intro Hc. unfold names_ok in Hn. rewrite forallb_forall in Hn. specialize (Hn c Hc).
    apply andb_true_iff in Hn as [H12 H3]. apply andb_true_iff in H12 as [H1 H2].
    rewrite forallb_forall in H3. auto.
  Qed.

  Lemma cls_name_word j : forallb word_char (cls_name cl j) = true.
  Proof.
    unfold cls_name. destruct (nth_error cl j) as [t|] eqn:E; [|reflexivity].
    apply (names_of t (nth_error_In cl j E)).
  Qed.

  Lemma attr_type_noat a : noat (attr_type cl a) = true.
  Proof.
    unfold attr_type. destruct (mult_list (ma_mult a)); rewrite ?noat_app, ?(word_noat _ (cls_name_word (ma_cls a))); reflexivity.
  Qed.

  Lemma pu_attr_line_noat c a : In c cl -> In a (mc_attrs c) -> noat (pu_attr_line cl a) = true.
  Proof.
    intros Hc Ha. unfold pu_attr_line. destruct (plain_attr cl a); [|reflexivity].
    destruct (names_of c Hc) as [_ [_ H3]].
    destruct (mult_required (ma_mult a)); rewrite ?noat_app, ?(word_noat _ (H3 a Ha)), ?attr_type_noat; reflexivity.
  Qed.

  Lemma pu_class_noat k c : In c cl -> noat (pu_class cl k c) = true.
  Proof.
    intro Hc. destruct (names_of c Hc) as [_ [H2 _]].
    unfold pu_class, pu_class_open. rewrite !noat_app, (word_noat _ H2).
    assert (Hat : noat (match mc_typ c with KCommon => flat_map (pu_attr_line cl) (mc_attrs c) | _ => [] end) = true).
    { destruct (mc_typ c); try reflexivity. apply noat_flat_map. intros a Ha. apply (pu_attr_line_noat c a Hc Ha). }
    rewrite Hat. destruct (mc_typ c); reflexivity.
  Qed.

  Lemma pu_link_noat k c a t : In c cl -> In a (mc_attrs c) -> In t cl -> noat (pu_link cl k c a t) = true.
  Proof.
    intros Hc Ha Ht. destruct (names_of c Hc) as [_ [H2 H3]]. destruct (names_of t Ht) as [_ [T2 _]].
    unfold pu_link. rewrite !noat_app, (word_noat _ H2), (word_noat _ T2), (word_noat _ (H3 a Ha)).
    destruct (ma_cont a), (ma_mult a); reflexivity.
  Qed.

  Lemma pu_inh_noat k c j t : In c cl -> In t cl -> noat (pu_inh k c j t) = true.
  Proof.
    intros Hc Ht. destruct (names_of c Hc) as [_ [H2 _]]. destruct (names_of t Ht) as [_ [T2 _]].
    unfold pu_inh. rewrite !noat_app, (word_noat _ H2), (word_noat _ T2). reflexivity.
  Qed.

  (* every statement: no '@', and its text ends with a newline *)
  Lemma stmt_ok s : In s (mm_stmts cl pu_renderer) -> noat (snd s) = true /\ exists t0, snd s = t0 ++ nl.
  Proof.
    assert (Hcs : forall j c0, In c0 cl -> In s (class_stmt cl pu_renderer j c0) -> noat (snd s) = true /\ exists t0, snd s = t0 ++ nl).
    { intros j c0 Hc0. unfold class_stmt. destruct (is_match c0); [intros []|]. intros [E|[]]. subst s. cbn [snd r_class pu_renderer].
      split; [apply pu_class_noat, Hc0|]. unfold pu_class. eexists. rewrite !app_assoc. reflexivity. }
    unfold mm_stmts. intro H. apply in_app_or in H as [H|H]; [|apply in_app_or in H as [H|H]].
    - unfold first_part in H. apply in_flat_map in H as [[j c0] [Hin H]]. cbn [fst snd] in H.
      destruct (in_classes c0 && negb (named_builtin c0)); [|contradiction].
      apply In_indexed in Hin. apply (Hcs j c0 (nth_error_In cl j Hin) H).
    - destruct H as [E|[]]. subst s. cbn [snd]. split; [reflexivity | exists nl; reflexivity].
    - unfold second_part in H. apply in_flat_map in H as [[j c0] [Hin H]]. cbn [fst snd] in H.
      apply In_indexed in Hin. pose proof (nth_error_In cl j Hin) as Hc0.
      destruct (in_classes c0); [|contradiction]. apply in_app_or in H as [H|H].
      + apply in_flat_map in H as [a [Ha H]]. unfold attr_stmts in H.
        destruct (nth_error cl (ma_cls a)) as [t0|] eqn:Et; [|contradiction].
        pose proof (nth_error_In cl _ Et) as Ht0.
        apply in_app_or in H as [H|H].
        * destruct (is_link a t0); [|contradiction]. destruct H as [E|[]]. subst s. cbn [snd r_link pu_renderer].
          split; [apply pu_link_noat; assumption|]. unfold pu_link. eexists. rewrite !app_assoc. reflexivity.
        * destruct (in_classes t0); [contradiction|]. apply (Hcs _ t0 Ht0 H).
      + unfold inh_stmts in H. apply in_flat_map in H as [i [Hi H]].
        destruct (nth_error cl i) as [t0|] eqn:Et; [|contradiction]. destruct H as [E|[]]. subst s. cbn [snd r_inh pu_renderer].
        split; [apply pu_inh_noat; [exact Hc0 | apply (nth_error_In cl i Et)]|]. unfold pu_inh. eexists. rewrite !app_assoc. reflexivity.
  Qed.

  Lemma texts_noat (l : list mstmt) : (forall s, In s l -> noat (snd s) = true) -> noat (flat_map snd l) = true.
  Proof. apply noat_flat_map. Qed.

  Lemma texts_eol (l : list mstmt) : (forall s, In s l -> exists t0, snd s = t0 ++ nl) -> l <> [] -> forall b, eol b (flat_map snd l) = true.
  Proof.
    induction l as [|s l IH]; intros H Hne b; [contradiction|].
    cbn [flat_map]. destruct (H s (or_introl eq_refl)) as [t0 E]. rewrite E, eol_app, eol_nl.
    destruct l as [|s2 l2]; [reflexivity|]. apply IH; [intros y Hy; apply H; right; exact Hy | discriminate].
  Qed.
End Count.

Lemma at_nl_any e v : at_lines e (nl ++ v) = at_lines true v.
Proof. cbn [nl app at_lines]. rewrite andb_false_r. reflexivity. Qed.

Lemma at_line_noat u : noat u = true -> forall b v, at_lines b (u ++ nl ++ v) = at_lines true v.
Proof. intros H b v. rewrite at_app, (at_noat _ H), at_nl_any. reflexivity. Qed.

Lemma at_line_sp u : nonl u = true -> forall b v, at_lines b ((32%N :: u) ++ nl ++ v) = at_lines true v.
Proof.
  intros H b v. cbn [app at_lines]. rewrite andb_false_r. cbn [N.eqb Pos.eqb plus].
  rewrite (at_nonl _ H). apply at_nl_any.
Qed.

Lemma assoc5 {X : Type} (a b c d e r : list X) : (a ++ b ++ c ++ d ++ e ++ r) = (a ++ b ++ c ++ d ++ e) ++ r.
Proof. rewrite <- !app_assoc. reflexivity. Qed.

Definition pu_row (r : list N * list N) : list N :=
  codes "  | " ++ fst r ++ codes " | " ++ dot_escape (snd r) ++ codes " |" ++ nl.

Lemma row_line r : forallb word_char (fst r) = true -> forall b v, at_lines b (pu_row r ++ v) = at_lines true v.
Proof.
  intros Hr b v. unfold pu_row. rewrite assoc5, <- app_assoc.
  change (codes "  | ") with (32%N :: codes " | ").
  change ((32%N :: codes " | ") ++ fst r ++ codes " | " ++ dot_escape (snd r) ++ codes " |")
    with (32%N :: (codes " | " ++ fst r ++ codes " | " ++ dot_escape (snd r) ++ codes " |")).
  apply at_line_sp. rewrite !nonl_app, (word_nonl _ Hr), dot_escape_nonl. reflexivity.
Qed.

Lemma legend_rows rows : rows_ok rows = true -> forall v,
  at_lines true (flat_map pu_row rows ++ v) = at_lines true v.
Proof.
  induction rows as [|r rows IH]; intros H v; [reflexivity|].
  cbn [rows_ok forallb] in H. apply andb_true_iff in H as [Hr Hrows].
  cbn [flat_map]. rewrite <- app_assoc, (row_line r Hr). apply IH, Hrows.
Qed.

Theorem pu_at_lines cl lt rows : names_ok cl = true -> rows_ok rows = true -> linetype_ok lt = true ->
  at_lines true (mm_pu_doc cl lt rows) = 2.
Proof.
  intros Hn Hr Hl. rewrite pu_doc_shape.
  rewrite at_app. change (at_lines true pu_start) with 1. change (eol true pu_start) with true.
  rewrite <- !app_assoc.
  assert (Hrest : noat (pu_header_rest lt) = true).
  { unfold pu_header_rest. destruct lt as [l|]; [|reflexivity]. cbn [linetype_ok] in Hl. rewrite !noat_app, (plain_noat _ Hl). reflexivity. }
  assert (Hrest_eol : eol true (pu_header_rest lt) = true).
  { unfold pu_header_rest. rewrite !app_assoc. apply eol_nl. }
  rewrite at_app, (at_noat _ Hrest), Hrest_eol.
  set (ST := mm_stmts cl pu_renderer).
  assert (Hst : noat (flat_map snd ST) = true) by (apply texts_noat; intros s Hs; apply (stmt_ok cl Hn s Hs)).
  assert (Hst_eol : eol true (flat_map snd ST) = true).
  { apply texts_eol; [intros s Hs; apply (stmt_ok cl Hn s Hs)|]. unfold ST, mm_stmts. intro E. apply app_eq_nil in E as [_ E]. discriminate. }
  rewrite at_app, (at_noat _ Hst), Hst_eol.
  assert (Hend : at_lines true pu_end = 1) by reflexivity.
  unfold pu_legend. destruct rows as [|r rows]; [cbn [app]; rewrite Hend; reflexivity|].
  change (flat_map (fun r0 => codes "  | " ++ fst r0 ++ codes " | " ++ dot_escape (snd r0) ++ codes " |" ++ nl) (r :: rows))
    with (flat_map pu_row (r :: rows)).
  rewrite <- !app_assoc.
  rewrite at_nl_any.
  rewrite (at_line_noat (codes "legend") eq_refl).
  rewrite (at_line_noat (codes "  Match rules:") eq_refl).
  rewrite (at_line_noat (codes "  |= Name  |= Rule details |") eq_refl).
  rewrite (legend_rows (r :: rows) Hr).
  rewrite (at_line_noat (codes "end legend") eq_refl).
  rewrite at_nl_any. rewrite Hend. reflexivity.
Qed.
