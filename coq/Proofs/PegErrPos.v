(* The failure position reported by the Peg interpreter lies inside the input (for EVERY grammar table,
   configuration, memoization setting and fuel; the oracle must stay inside the input: [orc_sane]).
   Stable names: [run_syntaxerr_in_text], [parse_posbound], [Jinv].
   Invariant: every position stored in the state (pos, nm, comment_positions values, cache new
   positions) is <= length input. *)
From TxV Require Import Core.Base Model.PegSyntax Model.Peg Proofs.PegProofs Proofs.PegTerm.

Section ErrPos.
Variable g : grammar.
Variable input : list N.
Variable orc : nat -> nat -> option nat.
Hypothesis Hsane : orc_sane g input orc.

Notation parser := (nat -> bool -> st -> out) (only parsing).
Notation len := (length input).

Definition Jinv (s : st) : Prop :=
  pos s <= len /\
  (forall nid p cr np, clookup nid p (cache s) = Some (cr, np) -> np <= len) /\
  (forall k v, lookup k (cpos s) = Some v -> v <= len) /\
  (forall q, nm s = Some q -> q <= len).

Definition Jout (o : out) : Prop := match o with Ok _ s1 | Fail s1 => Jinv s1 | Abort _ => True end.
Definition rec_J (rec : parser) : Prop := forall c psq s, Jinv s -> Jout (rec c psq s).

Lemma J_set_pos p s : Jinv s -> p <= len -> Jinv (set_pos p s).
Proof. intros (A & B & C & D) L. split; [exact L | split; [exact B | split; [exact C | exact D]]]. Qed.
Lemma J_set_nm p s : Jinv s -> p <= len -> Jinv (set_nm (Some p) s).
Proof.
  intros (A & B & C & D) L. split; [exact A | split; [exact B | split; [exact C|]]].
  cbn. intros q' Eq. injection Eq as <-. exact L.
Qed.
Lemma J_reg_fail p s : Jinv s -> p <= len -> Jinv (reg_fail p s).
Proof.
  intros J L. unfold reg_fail. destruct (nm s) as [q|].
  - destruct (in_cmt s); [exact J|]. destruct (Nat.ltb q p); [now apply J_set_nm | exact J].
  - now apply J_set_nm.
Qed.
Lemma J_raise p s : Jinv s -> p <= len -> Jout (nm_raise p s).
Proof. intros. now apply J_reg_fail. Qed.
Lemma J_same s s' : pos s' = pos s -> cache s' = cache s -> cpos s' = cpos s -> nm s' = nm s -> Jinv s -> Jinv s'.
Proof. intros P C K Nm (A & B & Cc & D). unfold Jinv. now rewrite P, C, K, Nm. Qed.
Lemma J_enter_ws nd s : Jinv s -> Jinv (enter_ws nd s).
Proof. apply J_same; unfold enter_ws; destruct (n_ws nd), (n_skipws nd); reflexivity. Qed.
Lemma J_leave_ws nd old s : Jinv s -> Jinv (leave_ws nd old s).
Proof. apply J_same; unfold leave_ws; destruct (n_ws nd), (n_skipws nd); reflexivity. Qed.
Lemma J_enter_eol nd s : Jinv s -> Jinv (enter_eol nd s).
Proof. apply J_same; unfold enter_eol; destruct (n_eolterm nd); reflexivity. Qed.
Lemma J_leave_eol nd old s : Jinv s -> Jinv (leave_eol nd old s).
Proof. apply J_same; unfold leave_eol; destruct (n_eolterm nd); reflexivity. Qed.
Lemma J_in_cmt b s : Jinv s -> Jinv (set_in_cmt b s).
Proof. apply J_same; reflexivity. Qed.

Lemma J_msw s : Jinv s -> Jinv (maybe_skip_ws input s).
Proof.
  intro J. unfold maybe_skip_ws, do_skip_ws. destruct (skipws s); [|exact J].
  pose proof (skip_ws_from_bounds (ws s) (skipn (pos s) input) (pos s)) as B. rewrite skipn_length in B.
  apply J_set_pos; [exact J|]. destruct J as (A & _). lia.
Qed.

Lemma J_upd k v s : Jinv s -> v <= len -> Jinv (set_cpos (upd k v (cpos s)) s).
Proof.
  intros (A & B & C & D) L. split; [exact A | split; [exact B | split; [|exact D]]]. cbn.
  intros k2 v2 E. destruct (Nat.eq_dec k2 k) as [->|Hne].
  - rewrite lookup_upd_same in E. injection E as <-. exact L.
  - rewrite lookup_upd_other in E by assumption. exact (C _ _ E).
Qed.

Lemma J_cput n p v np s : Jinv s -> np <= len -> Jinv (cput n p (v, np) s).
Proof.
  intros (A & B & C & D) L. split; [exact A | split; [|split; [exact C | exact D]]]. cbn.
  intros nid p2 cr np2 E. destruct (Nat.eqb nid n && Nat.eqb p2 p)%bool; [injection E as _ <-; exact L | exact (B _ _ _ _ E)].
Qed.

Section Helpers.
Variable rec : parser.
Hypothesis Hrec : rec_J rec.

Lemma cmt_loop_J cm k : forall s, Jinv s -> Jout (cmt_loop input rec cm k s).
Proof.
  induction k as [|k IH]; intros s J; cbn [cmt_loop]; [exact I|].
  pose proof (Hrec cm false s J) as G. destruct (rec cm false s) as [r s1|s1|w]; cbn in G; auto.
  apply IH. now apply J_msw.
Qed.

Lemma match_pre_J k s : Jinv s -> Jout (match_pre g input rec k s).
Proof.
  intro J. unfold match_pre, parse_comments. pose proof (J_msw s J) as J1.
  set (s1 := maybe_skip_ws input s) in *.
  destruct (if skipws s1 then lookup (pos s1) (cpos s1) else None) as [p'|] eqn:L.
  - destruct (skipws s1); [|discriminate]. cbn. apply J_set_pos; [exact J1|].
    destruct J1 as (_ & _ & C & _). exact (C _ _ L).
  - destruct (in_cmt s1); [exact J1|]. destruct (g_comments g) as [cm|].
    + pose proof (cmt_loop_J cm k (set_in_cmt true s1) (J_in_cmt true s1 J1)) as G.
      destruct (cmt_loop input rec cm k (set_in_cmt true s1)) as [r s2|s2|w]; [| exact G | exact I].
      exact (J_upd (pos s1) (pos s2) (set_in_cmt false s2) (J_in_cmt false s2 G) (proj1 G)).
    + exact (J_upd (pos s1) (pos s1) (set_in_cmt false (set_in_cmt true s1))
                   (J_in_cmt false _ (J_in_cmt true s1 J1)) (proj1 J1)).
Qed.

Lemma term_J nid nd psq s : get_node g nid = Some nd -> Jinv s -> Jout (term_parse input orc nid (n_kind nd) psq s).
Proof.
  intros Hn J. destruct Hsane as [S1 S2]. pose proof (proj1 J) as Ps.
  unfold term_parse. cbv zeta. destruct (n_kind nd) eqn:K; try exact I.
  - destruct (Nat.eqb len (pos s)); [exact J | now apply J_raise].
  - destruct oid as [o|].
    + destruct (orc o (pos s)) as [x|] eqn:E; [|now apply J_raise].
      cbn. apply J_set_pos; [exact J | exact (S2 nid nd s0 o (pos s) x Hn K E)].
    + destruct (is_prefix s0 (skipn (pos s) input)) eqn:E; [|now apply J_raise].
      apply is_prefix_len in E. rewrite skipn_length in E. cbn. apply J_set_pos; [exact J | lia].
  - destruct (orc oid (pos s)) as [l|] eqn:E; [|now apply J_raise].
    destruct (Nat.eqb l 0); [exact J|]. cbn. apply J_set_pos; [exact J | exact (S1 _ _ _ E)].
Qed.

Lemma seq_loop_J psq kids : forall acc s, Jinv s -> Jout (seq_loop rec psq kids acc s).
Proof.
  induction kids as [|c kids IH]; intros acc s J; cbn [seq_loop]; [exact J|].
  pose proof (Hrec c psq s J) as G. destruct (rec c psq s); cbn in G; auto; now apply IH.
Qed.

Lemma choice_loop_J cp kids : cp <= len -> forall s, Jinv s -> Jout (choice_loop rec cp kids s).
Proof.
  intro L. induction kids as [|c kids IH]; intros s J; cbn [choice_loop]; [exact J|].
  pose proof (Hrec c false s J) as G. destruct (rec c false s) as [r s1|s1|w]; cbn in G; auto.
  - destruct (is_none r); [now apply IH | exact G].
  - apply IH. now apply J_set_pos.
Qed.

Lemma rep_loop_J e sep plus k : forall first acc s, Jinv s -> Jout (rep_loop rec e sep plus k first acc s).
Proof.
  induction k as [|k IH]; intros first acc s J; cbn [rep_loop]; [exact I|]. pose proof (proj1 J) as Ps.
  assert (Helem : forall acc1 s1, Jinv s1 ->
    Jout (match rec e false s1 with
          | Ok r s2 => if truthy r then rep_loop rec e sep plus k false (acc1 ++ [r]) s2 else Ok (RList acc1) s2
          | Fail s2 => if (plus && first)%bool then Fail (set_pos (pos s) s2) else Ok (RList acc1) (set_pos (pos s) s2)
          | Abort w => Abort w end)).
  { intros acc1 s1 J1. pose proof (Hrec e false s1 J1) as G. destruct (rec e false s1) as [r s2|s2|w]; cbn in G; auto.
    - destruct (truthy r); [now apply IH | exact G].
    - destruct (plus && first)%bool; cbn; now apply J_set_pos. }
  destruct sep as [sp|]; [|now apply Helem]. destruct first; [now apply Helem|].
  pose proof (Hrec sp false s J) as G. destruct (rec sp false s) as [sr s1|s1|w]; cbn in G; auto.
  all: try (now apply Helem).
  destruct plus; cbn; now apply J_set_pos.
Qed.

Definition Jugr (o : ugr) : Prop := match o with UGHit _ _ s1 | UGNone _ s1 => Jinv s1 | UGAbort _ => True end.
Lemma ug_try_J sf cl todo : cl <= len -> forall mt s, Jinv s -> Jugr (ug_try rec sf cl todo mt s).
Proof.
  intro L. induction todo as [|e todo IH]; intros mt s J; cbn [ug_try]; [exact J|].
  pose proof (Hrec e false s J) as G. destruct (rec e false s) as [r s1|s1|w]; cbn in G; auto.
  - destruct (truthy r); [destruct sf|]; [apply IH; now apply J_set_pos | exact G | now apply IH].
  - apply IH. now apply J_set_pos.
Qed.

Definition Jugo (o : ugo) : Prop := match o with UGDone _ _ s1 => Jinv s1 | UGOAbort _ => True end.
Lemma ug_loop_J sep n : forall todo first sr acc s, Jinv s -> Jugo (ug_loop rec sep n todo first sr acc s).
Proof.
  induction n as [|n IH]; intros todo first sr acc s J; destruct todo as [|t0 todo]; cbn [ug_loop];
    try exact J; try exact I. pose proof (proj1 J) as Ps.
  assert (Hcont : forall sf sr1 s1, Jinv s1 ->
    Jugo (match ug_try rec sf (pos s1) (t0 :: todo) true s1 with
          | UGHit e r s2 => ug_loop rec sep n (remove_first e (t0 :: todo)) false sr1
                              ((if truthy sr1 then acc ++ [sr1] else acc) ++ [r]) s2
          | UGNone mt s2 => UGDone mt acc (set_pos (pos s) s2)
          | UGAbort w => UGOAbort w end)).
  { intros sf sr1 s1 J1. pose proof (ug_try_J sf (pos s1) (t0 :: todo) (proj1 J1) true s1 J1) as G.
    destruct (ug_try rec sf (pos s1) (t0 :: todo) true s1) as [e r s2|mt s2|w]; cbn in G; [now apply IH | | exact I].
    cbn. now apply J_set_pos. }
  destruct sep as [sp|]; [|now apply Hcont]. destruct first; [now apply Hcont|].
  pose proof (Hrec sp false s J) as G. destruct (rec sp false s) as [sr1 s1|s1|w]; cbn in G; auto.
  all: try (now apply Hcont).
  all: try (apply Hcont; now apply J_set_pos).
Qed.

Lemma body_J k nid nd s : get_node g nid = Some nd -> Jinv s -> Jout (body rec k nd s).
Proof.
  intros Hn J. pose proof (proj1 J) as Ps. unfold body. destruct (n_kind nd); try exact I.
  - pose proof (seq_loop_J true (n_kids nd) [] _ (J_enter_ws nd s J)) as G.
    destruct (seq_loop rec true (n_kids nd) [] (enter_ws nd s)) as [r s1|s1|w]; cbn in G; auto.
    + destruct r as [|t|[|x l]]; cbn; now apply J_leave_ws.
    + cbn. apply J_leave_ws. now apply J_set_pos.
  - pose proof (choice_loop_J (pos s) (n_kids nd) Ps _ (J_enter_ws nd s J)) as G.
    destruct (choice_loop rec (pos s) (n_kids nd) (enter_ws nd s)) as [r s1|s1|w]; cbn in G; auto.
    destruct (is_none r); [apply J_raise; [now apply J_leave_ws | exact Ps] | cbn; now apply J_leave_ws].
  - destruct (n_kids nd) as [|e l]; [exact I|].
    pose proof (Hrec e false s J) as G. destruct (rec e false s); cbn in G |- *; auto. now apply J_set_pos.
  - destruct (n_kids nd) as [|e l]; [exact I|].
    pose proof (rep_loop_J e (n_sep nd) false k true [] _ (J_enter_eol nd s J)) as G.
    destruct (rep_loop rec e (n_sep nd) false k true [] (enter_eol nd s)); cbn in G |- *; auto; now apply J_leave_eol.
  - destruct (n_kids nd) as [|e l]; [exact I|].
    pose proof (rep_loop_J e (n_sep nd) true k true [] _ (J_enter_eol nd s J)) as G.
    destruct (rep_loop rec e (n_sep nd) true k true [] (enter_eol nd s)); cbn in G |- *; auto; now apply J_leave_eol.
  - destruct (n_kids nd) as [|e l] eqn:K; [exact I|]. rewrite <- K.
    pose proof (ug_loop_J (n_sep nd) (S (length (n_kids nd))) (n_kids nd) true RNone [] _ (J_enter_eol nd s J)) as G.
    destruct (ug_loop rec (n_sep nd) (S (length (n_kids nd))) (n_kids nd) true RNone [] (enter_eol nd s)) as [mt acc s1|w];
      cbn in G; auto.
    destruct mt; [cbn; now apply J_leave_eol|].
    apply J_raise; [apply J_set_pos; [now apply J_leave_eol | exact Ps] | exact Ps].
  - pose proof (seq_loop_J false (n_kids nd) [] s J) as G.
    destruct (seq_loop rec false (n_kids nd) [] s); cbn in G |- *; auto; now apply J_set_pos.
  - pose proof (seq_loop_J false (n_kids nd) [] s J) as G.
    destruct (seq_loop rec false (n_kids nd) [] s); cbn in G |- *; auto.
    + apply J_raise; [now apply J_set_pos | exact Ps].
    + now apply J_set_pos.
  - exact J.
Qed.

End Helpers.

Theorem parse_posbound m f : rec_J (parse g input orc m f).
Proof.
  induction f as [|f IH]; intros nid psq s J; cbn [parse]; [exact I|].
  destruct (get_node g nid) as [nd|] eqn:Hn; [|exact I]. pose proof (proj1 J) as Ps.
  destruct (is_match_kind (n_kind nd)).
  - pose proof (match_pre_J _ IH f s J) as G0.
    destruct (match_pre g input (parse g input orc m f) f s) as [r0 s0|s0|w0]; cbn in G0; auto.
    pose proof (term_J nid nd psq s0 Hn G0) as G.
    destruct (term_parse input orc nid (n_kind nd) psq s0); cbn in G |- *; auto.
  - cbn zeta. destruct (if m then clookup nid (pos s) (cache s) else None) as [[cr np]|] eqn:L.
    + destruct m; [|discriminate]. pose proof (proj1 (proj2 J) _ _ _ _ L) as B.
      destruct cr; cbn; now apply J_set_pos.
    + pose proof (body_J _ IH f nid nd s Hn J) as G.
      destruct (body (parse g input orc m f) f nd s) as [r s1|s1|w]; cbn in G |- *; auto.
      * destruct m; [apply J_cput; [exact G | exact (proj1 G)] | exact G].
      * destruct m; [apply J_cput; [now apply J_set_pos | exact Ps] | now apply J_set_pos].
Qed.

End ErrPos.

(* the error position of a rejected input lies inside the input *)
Theorem run_syntaxerr_in_text g c orc m f input p :
  orc_sane g input orc -> run g c orc m f input = SyntaxErr p -> p <= length input.
Proof.
  intros Hs E. unfold run in E.
  assert (J0 : Jinv input (init_st c)).
  { split; [cbn; lia | split; [intros nid q cr np L; discriminate L | split; [intros k v L; discriminate L | intros q L; discriminate L]]]. }
  pose proof (parse_posbound g input orc Hs m f (g_top g) false (init_st c) J0) as G.
  destruct (parse g input orc m f (g_top g) false (init_st c)) as [r s1|s1|w]; try discriminate E.
  injection E as <-. cbn in G. unfold nm_pos. destruct (nm s1) as [q|] eqn:Eq; [|lia].
  exact (proj2 (proj2 (proj2 G)) q Eq).
Qed.
