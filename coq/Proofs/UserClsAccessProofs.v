(* During a load the user class's own accessor methods are still what acts on every object that
   is not under construction; objects under construction use the per-object storage. *)
From TxV Require Import Core.Base Model.UserCls Proofs.UserClsProofs.
Require Import Lia.

Section Access.
  Variable rep res : list (list N).
  Hypothesis rep_nodup : NoDup rep.
  Hypothesis rep_in_res : forall a, In a rep -> In a res.
  Variable d0 : list N -> slot.
  (* before loading the class has nothing of textX in its __dict__ *)
  Hypothesis d0_own : forall a, d0 a <> TxFn.

  Lemma reach_meth ops : meth_inv rep d0 (s_cls (run rep res (init d0) ops)).
  Proof.
    pose proof (run_inv rep res rep_nodup rep_in_res d0 ops (init d0) (inv_init rep d0)) as H.
    destruct H as [_ [_ [_ M]]]. exact M.
  Qed.

  (* one accessor name that the replacement covers *)
  Lemma slot_cases ops a :
    In a rep ->
    let k := s_cls (run rep res (init d0) ops) in
    (k_count k = 0 /\ k_dict k a = d0 a) \/
    (k_count k <> 0 /\ k_dict k a = TxFn /\ k_saved k a = Some (d0 a)).
  Proof.
    intros Ha k. destruct (reach_meth ops) as [M0 M1]. fold k in M0, M1.
    apply mem_str_In in Ha.
    destruct (Nat.eq_dec (k_count k) 0) as [E|E].
    - left. split; [exact E | apply (M0 E a)].
    - right. destruct (M1 E a) as [Hd Hs]. rewrite Ha in Hd, Hs. split; [exact E|]. split; assumption.
  Qed.

  Lemma of_slot_own a : match d0 a with TxFn => ToBase | s => of_slot s end = of_slot (d0 a).
  Proof. destruct (d0 a); reflexivity. Qed.

  (* objects that are not under construction: initialised ones, objects of earlier or nested
     loads, anything else of the class *)
  Theorem own_accessors_act ops x hit :
    In n_setattr rep -> In n_getattribute rep -> In n_delattr rep ->
    let k := s_cls (run rep res (init d0) ops) in
    stored k x = false ->
    acting_set k x = of_slot (d0 n_setattr) /\
    acting_get k x hit = of_slot (d0 n_getattribute) /\
    acting_del k x hit = of_slot (d0 n_delattr).
  Proof.
    intros Hs Hg Hd k Hst. unfold acting_set, acting_get, acting_del. rewrite Hst. cbn [andb].
    split; [|split].
    - destruct (slot_cases ops _ Hs) as [[_ E]|[_ [E1 E2]]]; fold k in E || fold k in E1, E2.
      + rewrite E. pose proof (d0_own n_setattr). destruct (d0 n_setattr); try reflexivity. congruence.
      + rewrite E1, E2. reflexivity.
    - destruct (slot_cases ops _ Hg) as [[_ E]|[_ [E1 E2]]]; fold k in E || fold k in E1, E2.
      + rewrite E. pose proof (d0_own n_getattribute). destruct (d0 n_getattribute); try reflexivity. congruence.
      + rewrite E1, E2. reflexivity.
    - destruct (slot_cases ops _ Hd) as [[_ E]|[_ [E1 E2]]]; fold k in E || fold k in E1, E2.
      + rewrite E. pose proof (d0_own n_delattr). destruct (d0 n_delattr); try reflexivity. congruence.
      + rewrite E1, E2. reflexivity.
  Qed.

  (* objects under construction while the class is instrumented: the storage *)
  Theorem storage_acts ops x :
    In n_setattr rep -> In n_getattribute rep -> In n_delattr rep ->
    let k := s_cls (run rep res (init d0) ops) in
    stored k x = true -> k_count k <> 0 ->
    acting_set k x = ToStorage /\ acting_get k x true = ToStorage /\ acting_del k x true = ToStorage /\
    acting_get k x false = ToBase.
  Proof.
    intros Hs Hg Hd k Hst Hc. unfold acting_set, acting_get, acting_del. rewrite Hst. cbn [andb].
    destruct (slot_cases ops _ Hs) as [[E _]|[_ [S1 _]]]; [fold k in E; contradiction|].
    destruct (slot_cases ops _ Hg) as [[E _]|[_ [G1 _]]]; [fold k in E; contradiction|].
    destruct (slot_cases ops _ Hd) as [[E _]|[_ [D1 _]]]; [fold k in E; contradiction|].
    fold k in S1, G1, D1. rewrite S1, G1, D1. repeat split; reflexivity.
  Qed.

  (* methods the replacement does not cover are never touched *)
  Theorem other_methods_untouched ops a :
    ~ In a rep -> k_dict (s_cls (run rep res (init d0) ops)) a = d0 a.
  Proof.
    intro Hn. destruct (reach_meth ops) as [M0 M1].
    destruct (Nat.eq_dec (k_count (s_cls (run rep res (init d0) ops))) 0) as [E|E].
    - apply (M0 E a).
    - destruct (M1 E a) as [Hd _]. destruct (mem_str a rep) eqn:M; [apply mem_str_In in M; contradiction | exact Hd].
  Qed.
End Access.
