(* C02 — witness for the table-level end-to-end theorem: `Model: (a=INT | b=INT) a+=INT[','];` on `1 2 , 3`
   (dumped by tools/pegdump.py + tools/mmdump.py; the oracle never matches the empty string). *)
From TxV Require Import Core.Base Model.MultBase Gen.SrcMult Model.Mult.
From TxV Require Model.Build Model.MultBuild Model.Spec Proofs.BuildPlaced Proofs.PegProofs Proofs.PegMemo Proofs.MultEndProofs.
From TxV Require Import Model.PegSyntax Model.Peg Model.MultPeg Proofs.MultPegWitness.

Definition wit2_g : grammar :=
  (mkGrammar [mkNode KSeq [1;8] None false [77;111;100;101;108]%N true false None None;
  mkNode KSeq [2;6] None false [77;111;100;101;108]%N true false None None;
  mkNode KChoice [3;5] None false []%N false false None None;
  mkNode KSeq [4] None false [95;95;97;115;103;110;95;112;108;97;105;110]%N true false None None;
  mkNode (KRegex 0) [] None false [73;78;84]%N true false None None;
  mkNode KSeq [4] None false [95;95;97;115;103;110;95;112;108;97;105;110]%N true false None None;
  mkNode KPlus [4] (Some 7) false [95;95;97;115;103;110;95;111;110;101;111;114;109;111;114;101]%N true false None None;
  mkNode (KStr [44]%N None) [] None false [115;101;112]%N false false None None;
  mkNode KEOF [] None false [69;79;70]%N false false None None] 0 None).
Definition wit2_tbl := [((0,0),1);((0,2),1);((0,6),1)].

Lemma wit2_orc_pos : Spec.orc_pos (orc_of wit2_tbl).
Proof.
  intros o p n E. unfold orc_of, wit2_tbl in E.
  repeat match type of E with (if ?b then _ else _) = _ => destruct b end; try discriminate; inversion E; lia.
Qed.

Lemma wit2_end :
  Spec.wfg wit2_g 24 = true /\ Spec.orc_pos (orc_of wit2_tbl) /\ BuildPlaced.table_asg_ok wit2_g wit_mm 24 = true
  /\ PegProofs.ctx_constant wit2_g = true
  /\ MultBuild.asg_table_okb wit2_g wit_mm = true
  /\ MultPeg.den wit2_g wit_mm wit_attr true wit_body wit_nid = true /\ grammar_ok wit_body = true
  /\ MultEndProofs.top_okb wit2_g wit_nid = true
  /\ MultBuild.mult_agreesb wit_attr wit_body wit_attrs = true
  /\ PegMemo.not_aborted (run wit2_g wit_cfg (orc_of wit2_tbl) false 50 wit_input)
  /\ exists r p e vals,
       run wit2_g wit_cfg (orc_of wit2_tbl) true 50 wit_input = Parsed r
       /\ Build.build wit2_g wit_mm wit_input wit_grp true false r = Build.BOk (Build.VObj [77;111;100;101;108]%N p e vals)
       /\ Build.get_val [97]%N vals
          = Some (Build.VList [Build.VTerm [73;78;84]%N [49]%N; Build.VTerm [73;78;84]%N [50]%N; Build.VTerm [73;78;84]%N [51]%N]).
Proof.
  split; [vm_compute; reflexivity|]. split; [exact wit2_orc_pos|].
  do 7 (split; [vm_compute; reflexivity|]). split; [vm_compute; exact I|].
  eexists. eexists. eexists. eexists. split; [vm_compute; reflexivity|]. split; vm_compute; reflexivity.
Qed.
