(* The editor-support data of C34 on the parse trees of the builder model (Model/Build.v, C01/C06):
   keys of the position map are spans (tpos, tend) of common-rule nodes of the Peg parse tree,
   collected references are the children of reference assignments with their span, and every
   object / pending reference process_node (pnode) builds is one of them. *)
From Coq Require Import Sorting.Sorted Sorting.Permutation.
From TxV Require Import Core.Base Model.PegSyntax Model.Peg Model.Build Proofs.BuildProofs Proofs.BuildObjProofs.
From TxV Require Import Model.EdPosDefs Gen.SrcEdPos Model.EdPos Proofs.EdPosProofs Model.EdPosBuild.

Section A.
Variable g : grammar.
Variable mm : list ninfo.
Notation ab := (abs g mm).

Definition item_of (t : tree) : N * N * nat := (fst (nspan t), snd (nspan t), tree_nid t).

Lemma subtrees_kid n kids k t' : In k kids -> In t' (subtrees k) -> In t' (subtrees (NT n kids)).
Proof. intros Hk Ht. cbn [subtrees]. right. apply in_flat_map. exists k. split; assumption. Qed.

Lemma subtrees_self t : In t (subtrees t).
Proof. destruct t; cbn [subtrees]; left; reflexivity. Qed.

Lemma sel_nonmatch_cases meta kind l r :
  sel_nonmatch (list node) (ab meta) [] kind l = Some r -> r = [] \/ exists x, In x l /\ r = ab meta x.
Proof.
  induction l as [|x l IH]; cbn [sel_nonmatch]; intro H; [discriminate|].
  destruct x as [n p len s|xn kids].
  - destruct (IH H) as [->|[y [Hy ->]]]; [left; reflexivity | right; exists y; split; [right; exact Hy | reflexivity]].
  - destruct (kind xn) as [[|]|].
    + inversion H; subst. right. exists (NT xn kids). split; [left; reflexivity | reflexivity].
    + destruct (IH H) as [->|[y [Hy ->]]]; [left; reflexivity | right; exists y; split; [right; exact Hy | reflexivity]].
    + inversion H; subst. left; reflexivity.
Qed.

Lemma sel_nt_cases meta hc l r :
  sel_nt (list node) (ab meta) [] hc l = Some r -> r = [] \/ exists x, In x l /\ r = ab meta x.
Proof.
  induction l as [|x l IH]; cbn [sel_nt]; intro H; [discriminate|].
  destruct x as [n p len s|xn kids].
  - destruct (IH H) as [->|[y [Hy ->]]]; [left; reflexivity | right; exists y; split; [right; exact Hy | reflexivity]].
  - inversion H; subst. destruct (hc xn); [right; exists (NT xn kids); split; [left; reflexivity | reflexivity] | left; reflexivity].
Qed.

(* a node of the abstraction comes from a subtree: generic traversal lemma.
   Q nd t' : the abstraction node nd was made for the parse-tree node t' *)
Definition made (nd : node) (t' : tree) : Prop :=
  match nd with
  | NObj i s e _ => is_common mm t' /\ (s, e, i) = item_of t'
  | NRef i s e _ => (s, e) = nspan t' /\ i = tree_nid t'
  | NTok s e => (s, e) = nspan t'
  end.

Definition nodes_ok (t : tree) : Prop :=
  forall meta nd, In nd (flat_map subnodes (ab meta t)) -> exists t', In t' (subtrees t) /\ made nd t'.

Lemma abs_nodes : forall t, nodes_ok t.
Proof.
  induction t as [n p l s | n kids IH] using tree_ind2; intros meta nd Hx.
  - cbn in Hx. destruct Hx as [<-|[]]. exists (T n p l s). split; [left; reflexivity | reflexivity].
  - rewrite Forall_forall in IH.
    assert (Hkid : forall m k, In k kids -> In nd (flat_map subnodes (ab m k)) ->
                   exists t', In t' (subtrees (NT n kids)) /\ made nd t').
    { intros m k Hk Hin. destruct (IH _ Hk _ _ Hin) as [t' [H1 H2]].
      exists t'. split; [eapply subtrees_kid; eassumption | exact H2]. }
    assert (Hrefkid : forall m a k, In k kids ->
              In nd (flat_map subnodes ((if is_refattr a m then [refnode k] else []) ++ ab m k)) ->
              exists t', In t' (subtrees (NT n kids)) /\ made nd t').
    { intros m a k Hk Hin. rewrite flat_map_app in Hin. apply in_app_or in Hin as [Hin|Hin]; [|apply (Hkid m k Hk Hin)].
      destruct (is_refattr a m); [|destruct Hin]. cbn in Hin. destruct Hin as [<-|[]].
      exists k. split; [eapply subtrees_kid; [exact Hk | apply subtrees_self] | split; reflexivity]. }
    cbn [abs] in Hx. destruct (info mm n) as [a op|k cls attrs|r gr|] eqn:Ei.
    + destruct op.
      * destruct kids as [|k rest]; [destruct Hx|]. apply (Hrefkid meta a k); [left; reflexivity | exact Hx].
      * destruct Hx.
      * apply in_flat_map in Hx as [x [Hx1 Hx2]]. apply in_flat_map in Hx1 as [k [Hk Hx1]].
        destruct (is_sep_of g n k); [destruct Hx1|].
        apply (Hrefkid meta a k Hk). apply in_flat_map. exists x. split; assumption.
      * destruct Hx.
    + destruct k.
      * cbn [flat_map subnodes] in Hx. rewrite app_nil_r in Hx. destruct Hx as [<-|Hx].
        -- exists (NT n kids). split; [left; reflexivity|]. split; [exists cls, attrs; exact Ei | reflexivity].
        -- apply in_flat_map in Hx as [x [Hx1 Hx2]]. apply in_flat_map in Hx1 as [k [Hk Hx1]].
           apply (Hkid attrs k Hk). apply in_flat_map. exists x. split; assumption.
      * destruct kids as [|k rest]; [destruct Hx|]. destruct rest as [|k2 rest].
        -- apply (Hkid meta k); [left; reflexivity | exact Hx].
        -- destruct (sel_nonmatch (list node) (ab meta) [] (nonmatch_class mm) (k :: k2 :: rest)) as [r|] eqn:E1.
           ++ apply sel_nonmatch_cases in E1 as [->|[y [Hy ->]]]; [destruct Hx | apply (Hkid meta y Hy Hx)].
           ++ destruct (sel_nt (list node) (ab meta) [] (has_class mm) (k :: k2 :: rest)) as [r|] eqn:E2; [|destruct Hx].
              apply sel_nt_cases in E2 as [->|[y [Hy ->]]]; [destruct Hx | apply (Hkid meta y Hy Hx)].
      * cbn in Hx. destruct Hx as [<-|[]]. exists (NT n kids). split; [left; reflexivity | reflexivity].
    + destruct Hx.
    + destruct Hx.
Qed.

Lemma obj_is_subnode nd : forall x, In x (objs_post nd) -> exists i s e ks, In (NObj i s e ks) (subnodes nd) /\ x = (s, e, i).
Proof.
  induction nd as [i s e kids IHk|i s e nm|s e] using node_ind'; intros x Hx; cbn [objs_post] in Hx; try destruct Hx.
  apply in_app_or in Hx as [Hx|[<-|[]]].
  - apply in_flat_map in Hx as [k [Hk Hx]]. rewrite Forall_forall in IHk.
    destruct (IHk _ Hk _ Hx) as [i' [s' [e' [ks [H1 H2]]]]]. exists i', s', e', ks. split; [|exact H2].
    cbn [subnodes]. right. apply in_flat_map. exists k. split; assumption.
  - exists i, s, e, kids. split; [cbn [subnodes]; left; reflexivity | reflexivity].
Qed.

(* every key of the position map of the abstracted tree is the span (tpos, tend) of a
   common-rule node of the parse tree, and its value is that node's rule *)
Theorem dict_key_is_node_span meta t nd s e i :
  In nd (ab meta t) -> In (s, e, i) (rule_dict nd) ->
  exists t', In t' (subtrees t) /\ is_common mm t' /\
             i = tree_nid t' /\ s = N.of_nat (Build.tpos t') /\ e = N.of_nat (Build.tend t').
Proof.
  intros Hnd Hd. apply dict_sound in Hd.
  destruct (obj_is_subnode nd _ Hd) as [i' [s' [e' [ks [H1 H2]]]]]. inversion H2; subst i' s' e'.
  destruct (abs_nodes t meta (NObj i s e ks)) as [t' [Ht [Hc Hi]]].
  { apply in_flat_map. exists nd. split; assumption. }
  exists t'. split; [exact Ht|]. split; [exact Hc|]. unfold item_of, nspan in Hi. cbn [fst snd] in Hi.
  inversion Hi; subst. repeat split; reflexivity.
Qed.

(* every collected reference is the child a reference assignment reads, with that node's span:
   ObjCrossRef.position / position_end = start / end of the reference node of the parse tree *)
Theorem ref_is_tree_node meta t nd x :
  In nd (ab meta t) -> In x (refs_pre nd) ->
  exists k, In k (subtrees t) /\ cstart x = N.of_nat (Build.tpos k) /\ cend x = N.of_nat (Build.tend k).
Proof.
  intros Hnd Hx. apply ref_is_node in Hx.
  destruct (abs_nodes t meta _ (proj2 (in_flat_map _ _ _) (ex_intro _ nd (conj Hnd Hx)))) as [k [Hk [Hs _]]].
  exists k. split; [exact Hk|]. unfold nspan in Hs. inversion Hs. split; reflexivity.
Qed.
End A.

(* ================================================================ what pnode builds is among them *)
Lemma incl_chain {A} (X B C O1 O2 O : list A) :
  incl X (B ++ O1) -> incl B (C ++ O2) -> incl O1 O -> incl O2 O -> incl X (C ++ O).
Proof.
  intros H1 H2 H3 H4 x Hx. apply H1 in Hx. apply in_app_or in Hx as [Hx|Hx].
  - apply H2 in Hx. apply in_app_or in Hx as [Hx|Hx]; apply in_or_app; [left; exact Hx | right; apply H4; exact Hx].
  - apply in_or_app; right. apply H3; exact Hx.
Qed.

Lemma oitems_app a b : oitems (a ++ b) = oitems a ++ oitems b.
Proof. unfold oitems. apply flat_map_app. Qed.

Lemma oitems_obj i s e ks : oitems [NObj i s e ks] = oitems ks ++ [IObj s e].
Proof. unfold oitems. cbn [flat_map nitems]. rewrite app_nil_r. reflexivity. Qed.

Lemma valitems_set a v l : incl (valitems (set_val a v l)) (valitems l ++ vitems v).
Proof.
  induction l as [|[k w] l IH]; cbn [set_val valitems flat_map].
  - rewrite app_nil_r. apply incl_refl.
  - destruct (str_eqb a k); cbn [flat_map].
    + intros x Hx. apply in_app_or in Hx as [Hx|Hx]; apply in_or_app; [right; exact Hx | left; apply in_or_app; right; exact Hx].
    + intros x Hx. apply in_app_or in Hx as [Hx|Hx].
      * apply in_or_app; left. apply in_or_app; left; exact Hx.
      * apply IH in Hx. apply in_app_or in Hx as [Hx|Hx]; apply in_or_app; [left; apply in_or_app; right; exact Hx | right; exact Hx].
Qed.

Lemma valitems_get a l w : get_val a l = Some w -> incl (vitems w) (valitems l).
Proof.
  induction l as [|[k u] l IH]; cbn [get_val valitems flat_map]; intro H; [discriminate|].
  destruct (str_eqb a k).
  - inversion H; subst. apply incl_appl, incl_refl.
  - apply incl_appr. apply IH; exact H.
Qed.

Lemma topitems_set a v c : incl (topitems (Some (cur_set a v c))) (topitems (Some c) ++ vitems v).
Proof. cbn [topitems cur_set c_vals]. apply valitems_set. Qed.

Lemma init_noitems auto attrs : valitems (init_attrs auto attrs) = [].
Proof.
  unfold init_attrs. induction attrs as [|a l IH]; [reflexivity|].
  cbn [map valitems flat_map]. fold (valitems (map (fun a0 => (a_name a0, init_attr auto a0)) l)). rewrite IH, app_nil_r.
  unfold init_attr. destruct (a_mult a); try reflexivity;
    destruct (is_base_type (a_cls a)); try reflexivity; destruct auto; try reflexivity; destruct (a_bool a); reflexivity.
Qed.

Section B.
Variable g : grammar.
Variable mm : list ninfo.
Variable input : list N.
Variable grp : nat -> nat -> option (nat * nat).
Variable auto use_grp : bool.
Notation pn := (pnode g mm input grp auto use_grp).
Notation ab := (abs g mm).

Lemma term_value_noitems n p l v : term_value g mm input grp use_grp n p l = BOk v -> vitems v = [].
Proof.
  unfold term_value. intro H.
  destruct use_grp; [|inversion H; reflexivity].
  destruct (get_node g n) as [nd|]; [|inversion H; reflexivity].
  destruct (n_kind nd); try (inversion H; reflexivity).
  destruct (info mm n) as [| |r gr|]; try (inversion H; reflexivity).
  destruct gr as [|[|gr]]; try (inversion H; reflexivity).
  destruct (grp _ p) as [[gs gl]|]; [inversion H; reflexivity|].
  destruct (is_base5 _); [discriminate | inversion H; reflexivity].
Qed.

Lemma go_noitems l :
  Forall (fun t => forall v, pmatch g input t = BOk v -> vitems v = []) l ->
  forall vs,
  (fix go (l : list tree) : bres (list value) :=
     match l with
     | [] => BOk []
     | x :: l' => match pmatch g input x with
                  | BOk v => match go l' with BOk vs => BOk (v :: vs) | BErr e => BErr e end
                  | BErr e => BErr e
                  end
     end) l = BOk vs -> flat_map vitems vs = [].
Proof.
  induction l as [|x l IHl]; intros HF vs E.
  - inversion E; reflexivity.
  - inversion HF as [|? ? Hx HF']; subst.
    destruct (pmatch g input x) as [w|] eqn:Ex; [|discriminate].
    match type of E with match ?G with _ => _ end = _ => destruct G as [vs'|] eqn:E' end; [|discriminate].
    inversion E; subst. cbn [flat_map]. rewrite (Hx _ eq_refl), (IHl HF' _ eq_refl). reflexivity.
Qed.

Lemma pmatch_noitems : forall t v, pmatch g input t = BOk v -> vitems v = [].
Proof.
  induction t as [n p l s | n kids IH] using tree_ind2; intros v H.
  - cbn [pmatch] in H. inversion H; reflexivity.
  - cbn [pmatch] in H. destruct (is_base5 _); [discriminate|].
    destruct kids as [|k rest]; [discriminate|]. destruct rest as [|k2 rest].
    + inversion IH as [|? ? Hk _]; subst. destruct (pmatch g input k) as [w|] eqn:E; [|discriminate].
      inversion H; subst. cbn [vitems]. apply Hk. reflexivity.
    + inversion IH as [|? ? Hk IH2]; subst. inversion IH2 as [|? ? Hk2 IH3]; subst.
      destruct (pmatch g input k) as [w1|] eqn:E1; [|discriminate].
      destruct (pmatch g input k2) as [w2|] eqn:E2; [|discriminate].
      match type of H with match match match ?G with _ => _ end with _ => _ end with _ => _ end = _ => destruct G as [vs|] eqn:E3 end; [|discriminate].
      inversion H; subst. cbn [vitems flat_map].
      rewrite (Hk _ eq_refl), (Hk2 _ eq_refl), (go_noitems _ IH3 _ E3). reflexivity.
Qed.

(* the class table pnode reads from the stack top is the one abs was given *)
Definition meta_is (meta : list attr) (top : option cur) : Prop :=
  match top with Some c => c_meta c = meta | None => True end.

Lemma meta_frame meta top top' : same_frame top top' -> meta_is meta top -> meta_is meta top'.
Proof. destruct top, top'; cbn; try tauto. intros [_ [_ [_ H]]] <-. exact H. Qed.

Definition ok_rec (rec : tree -> option cur -> bres (value * option cur)) (t : tree) : Prop :=
  forall meta top v top', meta_is meta top -> rec t top = BOk (v, top') ->
  incl (vitems v ++ topitems top') (topitems top ++ oitems (ab meta t)).

Lemma each_objs rec l :
  Forall (ok_rec rec) l -> Forall (frame_ok rec) l ->
  forall meta top top', meta_is meta top -> each_loop rec l top = BOk top' ->
  incl (topitems top') (topitems top ++ oitems (flat_map (ab meta) l)).
Proof.
  induction l as [|k l IH]; intros HF HR meta top top' Hm H; cbn [each_loop] in H.
  - inversion H; subst. apply incl_appl, incl_refl.
  - inversion HF as [|? ? Hk HF']; subst. inversion HR as [|? ? Rk HR']; subst.
    destruct (rec k top) as [[v top1]|e] eqn:E; [|discriminate].
    cbn [flat_map]. rewrite oitems_app.
    eapply incl_chain; [apply (IH HF' HR' meta _ _ (meta_frame _ _ _ (Rk _ _ _ E) Hm) H) | | apply incl_appr, incl_refl | apply incl_appl, incl_refl].
    eapply incl_tran; [|apply (Hk _ _ _ _ Hm E)]. apply incl_appr, incl_refl.
Qed.

Definition refcls_of (ma : attr) : option (list N) :=
  if (a_ref ma && negb (a_cont ma))%bool then Some (a_cls ma) else None.

Lemma lst_objs rec is_sep a refcls isr l :
  Forall (ok_rec rec) l -> Forall (frame_ok rec) l ->
  (match refcls with Some _ => isr = true | None => isr = false end) ->
  forall meta top top', meta_is meta top -> lst_loop rec is_sep a refcls l top = BOk top' ->
  incl (topitems top')
       (topitems top ++ oitems (flat_map (fun k => if is_sep k then [] else (if isr then [refnode k] else []) ++ ab meta k) l)).
Proof.
  induction l as [|k l IH]; intros HF HR Hisr meta top top' Hm H; cbn [lst_loop] in H.
  - inversion H; subst. apply incl_appl, incl_refl.
  - inversion HF as [|? ? Hk HF']; subst. inversion HR as [|? ? Rk HR']; subst. cbn [flat_map].
    destruct (is_sep k); [apply (IH HF' HR' Hisr meta _ _ Hm H)|].
    destruct (rec k top) as [[v0 top1]|e] eqn:E; [|discriminate].
    set (v := match refcls with Some cl => VRef v0 (Build.tpos k) cl | None => v0 end) in *.
    destruct top1 as [c1|]; [|discriminate].
    pose proof (Hk _ _ _ _ Hm E) as Hs.
    pose proof (meta_frame _ _ _ (Rk _ _ _ E) Hm) as Hm1.
    rewrite oitems_app.
    set (O := oitems ((if isr then [refnode k] else []) ++ ab meta k)).
    assert (Hv : incl (vitems v ++ topitems (Some c1)) (topitems top ++ O)).
    { subst v O. rewrite oitems_app. destruct refcls as [cl|]; subst isr.
      - cbn [vitems app]. intros x [<-|Hx].
        + apply in_or_app; right. apply in_or_app; left. cbn. left. reflexivity.
        + apply Hs in Hx. apply in_app_or in Hx as [Hx|Hx]; apply in_or_app; [left; exact Hx | right; apply in_or_app; right; exact Hx].
      - cbn [oitems flat_map app]. exact Hs. }
    assert (Hnew : forall X, incl (vitems X) (topitems (Some c1) ++ vitems v) ->
                   incl (topitems (Some (cur_set a X c1))) (topitems top ++ O)).
    { intros X HX. eapply incl_tran; [|exact Hv].
      eapply incl_tran; [apply topitems_set|]. intros x Hx. apply in_app_or in Hx as [Hx|Hx].
      - apply in_or_app; right; exact Hx.
      - apply HX in Hx. apply in_app_or in Hx as [Hx|Hx]; apply in_or_app; [right | left]; exact Hx. }
    assert (Hm2 : forall X, meta_is meta (Some (cur_set a X c1))) by (intro X; exact Hm1).
    destruct (get_val a (c_vals c1)) as [[]|] eqn:Eg; try discriminate.
    + eapply incl_chain; [apply (IH HF' HR' Hisr meta _ _ (Hm2 _) H) | apply Hnew | apply incl_appr, incl_refl | apply incl_appl, incl_refl].
      cbn [vitems flat_map]. rewrite app_nil_r. apply incl_appr, incl_refl.
    + eapply incl_chain; [apply (IH HF' HR' Hisr meta _ _ (Hm2 _) H) | apply Hnew | apply incl_appr, incl_refl | apply incl_appl, incl_refl].
      cbn [vitems]. rewrite flat_map_app. cbn [flat_map]. rewrite app_nil_r.
      apply incl_app; [|apply incl_appr, incl_refl].
      apply incl_appl. apply (valitems_get _ _ _ Eg).
Qed.

Lemma first_nonmatch_objs rec kind l meta top :
  Forall (ok_rec rec) l -> meta_is meta top ->
  match first_nonmatch rec kind l top with
  | None => sel_nonmatch (list node) (ab meta) [] kind l = None
  | Some r => exists ns, sel_nonmatch (list node) (ab meta) [] kind l = Some ns /\
                forall v top', r = BOk (v, top') ->
                incl (vitems v ++ topitems top') (topitems top ++ oitems ns)
  end.
Proof.
  induction l as [|x l IH]; intros HF Hm; cbn [first_nonmatch sel_nonmatch]; [reflexivity|].
  inversion HF as [|? ? Hx HF']; subst.
  destruct x as [n p len s|xn kids]; [apply IH; assumption|].
  destruct (kind xn) as [[|]|].
  - exists (ab meta (NT xn kids)). split; [reflexivity|]. intros v top' E. apply (Hx _ _ _ _ Hm E).
  - apply IH; assumption.
  - exists []. split; [reflexivity|]. intros v top' E. discriminate.
Qed.

Lemma first_nt_objs rec hc l meta top :
  Forall (ok_rec rec) l -> meta_is meta top ->
  match first_nt rec hc l top with
  | None => sel_nt (list node) (ab meta) [] hc l = None
  | Some r => exists ns, sel_nt (list node) (ab meta) [] hc l = Some ns /\
                forall v top', r = BOk (v, top') ->
                incl (vitems v ++ topitems top') (topitems top ++ oitems ns)
  end.
Proof.
  induction l as [|x l IH]; intros HF Hm; cbn [first_nt sel_nt]; [reflexivity|].
  inversion HF as [|? ? Hx HF']; subst.
  destruct x as [n p len s|xn kids]; [apply IH; assumption|].
  destruct (hc xn).
  - exists (ab meta (NT xn kids)). split; [reflexivity|]. intros v top' E. apply (Hx _ _ _ _ Hm E).
  - exists []. split; [reflexivity|]. intros v top' E. discriminate.
Qed.

Lemma same_top_incl top v : vitems v = [] ->
  forall O, incl (vitems v ++ topitems top) (topitems top ++ O).
Proof. intros -> O. cbn [app]. apply incl_appl, incl_refl. Qed.

Lemma all_frames l : Forall (frame_ok pn) l.
Proof. apply Forall_forall. intros x _. apply pnode_frame. Qed.

Theorem pnode_objs : forall t, ok_rec pn t.
Proof.
  induction t as [n p l s | n kids IH] using tree_ind2; intros meta top v top' Hm H.
  - cbn [pnode] in H. destruct (term_value g mm input grp use_grp n p l) as [w|] eqn:E; inversion H; subst.
    apply same_top_incl. eapply term_value_noitems; exact E.
  - cbn [pnode] in H. cbn [abs]. destruct (info mm n) as [a op|k cls attrs|r gr|] eqn:Ei; try discriminate.
    + destruct top as [c|]; [|discriminate]. cbn [meta_is] in Hm.
      unfold is_refattr. rewrite <- Hm.
      destruct (find_attr a (c_meta c)) as [ma|]; [|discriminate].
      destruct op; try discriminate.
      * (* plain *)
        destruct (get_val a (c_vals c)) as [av|] eqn:Eg; [|discriminate].
        destruct (val_truthy av && negb (is_vlist av))%bool; [discriminate|].
        destruct kids as [|k rest]; [discriminate|].
        inversion IH as [|? ? Hk _]; subst.
        destruct (pn k (Some c)) as [[v0 top1]|e] eqn:E; [|discriminate].
        set (isr := (a_ref ma && negb (a_cont ma))%bool) in *.
        set (v1 := if isr then VRef v0 (Build.tpos k) (a_cls ma) else v0) in *.
        destruct top1 as [c1|]; [|discriminate].
        assert (Hmc : meta_is (c_meta c) (Some c)) by reflexivity.
        pose proof (Hk _ _ _ _ Hmc E) as Hs.
        set (O := oitems ((if isr then [refnode k] else []) ++ ab (c_meta c) k)).
        assert (Hv : incl (vitems v1 ++ topitems (Some c1)) (topitems (Some c) ++ O)).
        { subst v1 O. rewrite oitems_app. destruct isr.
          - cbn [vitems app]. intros x [<-|Hx].
            + apply in_or_app; right. apply in_or_app; left. cbn. left. reflexivity.
            + apply Hs in Hx. apply in_app_or in Hx as [Hx|Hx]; apply in_or_app; [left; exact Hx | right; apply in_or_app; right; exact Hx].
          - cbn [oitems flat_map app]. exact Hs. }
        assert (Hnew : forall X, incl (vitems X) (topitems (Some c) ++ vitems v1) ->
                       incl (vitems VNone ++ topitems (Some (cur_set a X c1))) (topitems (Some c) ++ O)).
        { intros X HX. cbn [vitems app]. intros x Hx.
          apply topitems_set in Hx. apply in_app_or in Hx as [Hx|Hx].
          - apply Hv. apply in_or_app; right; exact Hx.
          - apply HX in Hx. apply in_app_or in Hx as [Hx|Hx].
            + apply in_or_app; left. exact Hx.
            + apply Hv. apply in_or_app; left; exact Hx. }
        destruct av; inversion H; subst; apply Hnew; try (apply incl_appr, incl_refl).
        cbn [vitems]. rewrite flat_map_app. cbn [flat_map]. rewrite app_nil_r.
        apply incl_app; [|apply incl_appr, incl_refl].
        apply incl_appl. apply (valitems_get _ _ _ Eg).
      * (* optional *)
        inversion H; subst. cbn [vitems app]. apply incl_appl.
        eapply incl_tran; [apply topitems_set|]. cbn [vitems]. rewrite app_nil_r. apply incl_refl.
      * (* list *)
        match type of H with match lst_loop _ _ _ ?RC _ _ with _ => _ end = _ => set (rc := RC) in * end.
        destruct (lst_loop pn (is_sep_of g n) a rc kids (Some c)) as [t1|e] eqn:E; [|discriminate].
        inversion H; subst. cbn [vitems app].
        apply (lst_objs pn (is_sep_of g n) a rc (a_ref ma && negb (a_cont ma))%bool kids IH (all_frames kids)); [|reflexivity|exact E].
        subst rc. destruct (a_ref ma && negb (a_cont ma))%bool; reflexivity.
    + destruct k.
      * (* common *)
        destruct (each_loop pn kids _) as [[c1|]|e] eqn:E; try discriminate.
        destruct (name_ok (c_vals c1)); [|discriminate]. destruct (many_ok (c_meta c1) (c_vals c1)); [|discriminate].
        inversion H; subst. clear H.
        assert (F : same_frame (Some (mkCur cls attrs (Build.tpos (NT n kids)) (Build.tend (NT n kids)) (init_attrs auto attrs))) (Some c1)).
        { apply (each_frame pn kids); [|exact E]. apply all_frames. }
        unfold same_frame in F. cbn [c_pos c_end] in F. destruct F as [F1 [F2 _]].
        assert (Hmc : meta_is attrs (Some (mkCur cls attrs (Build.tpos (NT n kids)) (Build.tend (NT n kids)) (init_attrs auto attrs)))) by reflexivity.
        pose proof (each_objs _ _ IH (all_frames kids) _ _ _ Hmc E) as Hk.
        cbn [topitems c_vals] in Hk. rewrite init_noitems in Hk. cbn [app] in Hk.
        rewrite oitems_obj. unfold nspan. cbn [fst snd].
        intros x Hx. apply in_or_app.
        apply in_app_or in Hx as [Hx|Hx]; [|left; exact Hx].
        cbn [vitems] in Hx. destruct Hx as [<-|Hx].
        -- right. apply in_or_app; right. left. rewrite F1, F2. reflexivity.
        -- right. apply in_or_app; left. apply Hk. exact Hx.
      * (* abstract *)
        destruct kids as [|k rest]; [discriminate|].
        destruct rest as [|k2 rest].
        -- inversion IH as [|? ? Hk _]; subst. apply (Hk _ _ _ _ Hm H).
        -- pose proof (first_nonmatch_objs pn (nonmatch_class mm) (k :: k2 :: rest) meta top IH Hm) as H1.
           destruct (first_nonmatch pn (nonmatch_class mm) (k :: k2 :: rest) top) as [r0|] eqn:E0.
           ++ destruct H1 as [ns [-> Hns]]. apply Hns. exact H.
           ++ rewrite H1.
              pose proof (first_nt_objs pn (has_class mm) (k :: k2 :: rest) meta top IH Hm) as H2.
              destruct (first_nt pn (has_class mm) (k :: k2 :: rest) top) as [r|] eqn:E.
              ** destruct H2 as [ns [-> Hns]]. apply Hns. exact H.
              ** rewrite H2. inversion H; subst. apply same_top_incl. reflexivity.
      * (* match *)
        destruct (pmatch g input (NT n kids)) as [w|] eqn:E; inversion H; subst.
        apply same_top_incl. eapply pmatch_noitems; exact E.
Qed.
End B.

(* items of the abstraction, read back *)
Lemma nitems_obj nd : forall s e, In (IObj s e) (nitems nd) -> exists i, In (s, e, i) (objs_post nd).
Proof.
  induction nd as [i s0 e0 kids IHk|i s0 e0 nm|s0 e0] using node_ind'; intros s e H; cbn [nitems] in H.
  - apply in_app_or in H as [H|[H|[]]].
    + apply in_flat_map in H as [k [Hk H]]. rewrite Forall_forall in IHk. destruct (IHk _ Hk _ _ H) as [j Hj].
      exists j. cbn [objs_post]. apply in_or_app; left. apply in_flat_map. exists k. split; assumption.
    + inversion H; subst. exists i. cbn [objs_post]. apply in_or_app; right. left. reflexivity.
  - destruct H as [H|[]]. discriminate.
  - destruct H.
Qed.

Lemma nitems_ref nd : forall s, In (IRef s) (nitems nd) -> exists x, In x (refs_pre nd) /\ cstart x = s.
Proof.
  induction nd as [i s0 e0 kids IHk|i s0 e0 nm|s0 e0] using node_ind'; intros s H; cbn [nitems] in H.
  - apply in_app_or in H as [H|[H|[]]]; [|discriminate].
    apply in_flat_map in H as [k [Hk H]]. rewrite Forall_forall in IHk. destruct (IHk _ Hk _ H) as [x [Hx1 Hx2]].
    exists x. split; [|exact Hx2]. cbn [refs_pre]. apply in_flat_map. exists k. split; assumption.
  - destruct H as [H|[]]. inversion H; subst. eexists. split; [cbn [refs_pre]; left; reflexivity | reflexivity].
  - destruct H.
Qed.

(* every object inside the value built from a parse tree (without an enclosing object) spans
   exactly a common-rule node of that tree and is listed in the position map; every pending
   reference inside it is a collected reference whose start is the VRef's position, i.e. the
   start of the reference node of the parse tree *)
Theorem built_objects_spans_and_keys g mm input grp auto use_grp t v top' :
  pnode g mm input grp auto use_grp t None = BOk (v, top') ->
  forall p e, In (IObj (N.of_nat p) (N.of_nat e)) (vitems v) ->
  (exists t', In t' (subtrees t) /\ is_common mm t' /\ p = Build.tpos t' /\ e = Build.tend t') /\
  exists nd i, In nd (abs g mm [] t) /\ In (N.of_nat p, N.of_nat e, i) (rule_dict nd).
Proof.
  intros H p e Hin.
  pose proof (pnode_objs g mm input grp auto use_grp t [] None v top' I H) as Hi. cbn [topitems app] in Hi.
  assert (Hk : In (IObj (N.of_nat p) (N.of_nat e)) (oitems (abs g mm [] t))) by (apply Hi; apply in_or_app; left; exact Hin).
  unfold oitems in Hk. apply in_flat_map in Hk as [nd [Hnd Hk]].
  destruct (nitems_obj _ _ _ Hk) as [i Hi2].
  destruct (dict_complete nd _ Hi2) as [j Hj]. cbn [ikey fst] in Hj.
  split; [|exists nd, j; split; assumption].
  destruct (dict_key_is_node_span g mm [] t nd _ _ _ Hnd Hj) as [t' [H1 [H2 [_ [H3 H4]]]]].
  exists t'. split; [exact H1|]. split; [exact H2|]. split; apply Nat2N.inj; assumption.
Qed.

Theorem built_refs_are_collected g mm input grp auto use_grp t v top' :
  pnode g mm input grp auto use_grp t None = BOk (v, top') ->
  forall p, In (IRef (N.of_nat p)) (vitems v) ->
  exists nd x k, In nd (abs g mm [] t) /\ In x (refs_pre nd) /\ cstart x = N.of_nat p /\
                 In k (subtrees t) /\ p = Build.tpos k /\ cend x = N.of_nat (Build.tend k).
Proof.
  intros H p Hin.
  pose proof (pnode_objs g mm input grp auto use_grp t [] None v top' I H) as Hi. cbn [topitems app] in Hi.
  assert (Hk : In (IRef (N.of_nat p)) (oitems (abs g mm [] t))) by (apply Hi; apply in_or_app; left; exact Hin).
  unfold oitems in Hk. apply in_flat_map in Hk as [nd [Hnd Hk]].
  destruct (nitems_ref _ _ Hk) as [x [Hx1 Hx2]].
  destruct (ref_is_tree_node g mm [] t nd x Hnd Hx1) as [k [Hk1 [Hk2 Hk3]]].
  exists nd, x, k. repeat split; try assumption.
  rewrite Hx2 in Hk2. apply Nat2N.inj. exact Hk2.
Qed.

(* C34_entry_exact on the builder's parse trees: the entry made for the collected reference has
   ref_pos_start = the VRef's position = start of the reference node, ref_pos_end = its end *)
Theorem built_ref_entry g mm input grp auto use_grp t v top' :
  pnode g mm input grp auto use_grp t None = BOk (v, top') ->
  forall p, In (IRef (N.of_nat p)) (vitems v) ->
  exists nd x k, In nd (abs g mm [] t) /\ In x (refs_pre nd) /\ In k (subtrees t) /\ p = Build.tpos k /\
                 forall tg, e_start (mk_entry (x, tg)) = N.of_nat p /\
                            e_end (mk_entry (x, tg)) = N.of_nat (Build.tend k).
Proof.
  intros H p Hin.
  destruct (built_refs_are_collected g mm input grp auto use_grp t v top' H p Hin) as [nd [x [k [H1 [H2 [H3 [H4 [H5 H6]]]]]]]].
  exists nd, x, k. repeat split; try assumption; rewrite mk_entry_eq; cbn [e_start e_end]; assumption.
Qed.

(* ================================================================ the converse inclusion is false *)
(* "the keys of the position map are exactly the spans of the objects of the built value" does NOT
   hold: a rule referenced without an assignment inside a common rule (A: c=C B;) is processed
   (its object is created and registered in pos_rule_dict) and the result is dropped by the loop
   over the children (each_loop: `for n in node: process_node(n)`).  Witness: the table of
   `A: c=C B; C: 'c' n=ID; B: 'b' m=ID;` on the tree of "c x b y"; replayed on textX: the map is
   {(4,7): B, (0,3): C, (0,7): A} while the model contains only A and C. *)
Definition drop_mm : list ninfo :=
  [IRule RCommon [65]%N [mkAttr [99]%N M1 true false [67]%N false];   (* 0: A, attribute c *)
   IAsgn [99]%N OpPlain;                                               (* 1: c=C *)
   IRule RCommon [67]%N [];                                            (* 2: C *)
   IOther;                                                             (* 3: terminals *)
   IRule RCommon [66]%N []].                                           (* 4: B *)
Definition drop_tree : tree :=
  NT 0 [NT 1 [NT 2 [T 3 0 1 false; T 3 2 1 false]]; NT 4 [T 3 4 1 false; T 3 6 1 false]].

Lemma keys_exactly_built_refuted :
  exists g mm input grp auto use_grp t v top',
    pnode g mm input grp auto use_grp t None = BOk (v, top') /\
    exists nd s e i, In nd (abs g mm [] t) /\ In (s, e, i) (rule_dict nd) /\ ~ In (IObj s e) (vitems v).
Proof.
  exists (mkGrammar [] 0 None), drop_mm, [], (fun _ _ => None), false, false, drop_tree.
  eexists. eexists. split; [vm_compute; reflexivity|].
  eexists. exists 4%N, 7%N, 4. split; [vm_compute; left; reflexivity|]. split.
  - vm_compute. left. reflexivity.
  - vm_compute. intros [H|[H|[]]]; discriminate.
Qed.
