(* The position map of C34 on the parse trees of the builder model (Model/Build.v, C01/C06):
   keys are spans (tpos, tend) of common-rule nodes of the Peg parse tree, and every object
   process_node (pnode) builds is one of them. *)
From Coq Require Import Sorting.Sorted Sorting.Permutation.
From TxV Require Import Core.Base Model.PegSyntax Model.Peg Model.Build Proofs.BuildProofs Proofs.BuildObjProofs.
From TxV Require Import Model.EdPosDefs Gen.SrcEdPos Model.EdPos Proofs.EdPosProofs Model.EdPosBuild.

Section A.
Variable g : grammar.
Variable mm : list ninfo.
Notation ab := (abs g mm).

Definition item_of (t : tree) : N * N * nat := (fst (nspan t), snd (nspan t), tree_nid t).

Lemma subtrees_kid n kids k t' : In k kids -> In t' (subtrees k) -> In t' (subtrees (NT n kids)).
Proof. intros Hk Ht. cbn [subtrees]. right. apply in_flat_map. exists k. split; assumption. Qed.

Lemma sel_nonmatch_cases kind l r :
  sel_nonmatch (list node) ab [] kind l = Some r -> r = [] \/ exists x, In x l /\ r = ab x.
Proof.
  induction l as [|x l IH]; cbn [sel_nonmatch]; intro H; [discriminate|].
  destruct x as [n p len s|xn kids].
  - destruct (IH H) as [->|[y [Hy ->]]]; [left; reflexivity | right; exists y; split; [right; exact Hy | reflexivity]].
  - destruct (kind xn) as [[|]|].
    + inversion H; subst. right. exists (NT xn kids). split; [left; reflexivity | reflexivity].
    + destruct (IH H) as [->|[y [Hy ->]]]; [left; reflexivity | right; exists y; split; [right; exact Hy | reflexivity]].
    + inversion H; subst. left; reflexivity.
Qed.

Lemma sel_nt_cases hc l r :
  sel_nt (list node) ab [] hc l = Some r -> r = [] \/ exists x, In x l /\ r = ab x.
Proof.
  induction l as [|x l IH]; cbn [sel_nt]; intro H; [discriminate|].
  destruct x as [n p len s|xn kids].
  - destruct (IH H) as [->|[y [Hy ->]]]; [left; reflexivity | right; exists y; split; [right; exact Hy | reflexivity]].
  - inversion H; subst. destruct (hc xn); [right; exists (NT xn kids); split; [left; reflexivity | reflexivity] | left; reflexivity].
Qed.

Definition objs_ok (t : tree) : Prop :=
  forall x, In x (flat_map objs_post (ab t)) ->
  exists t', In t' (subtrees t) /\ is_common mm t' /\ x = item_of t'.

Lemma abs_objs : forall t, objs_ok t.
Proof.
  induction t as [n p l s | n kids IH] using tree_ind2; intros x Hx.
  - cbn in Hx. destruct Hx.
  - rewrite Forall_forall in IH.
    assert (Hkid : forall k, In k kids -> In x (flat_map objs_post (ab k)) ->
                   exists t', In t' (subtrees (NT n kids)) /\ is_common mm t' /\ x = item_of t').
    { intros k Hk Hin. destruct (IH _ Hk _ Hin) as [t' [H1 [H2 H3]]].
      exists t'. split; [eapply subtrees_kid; eassumption | split; assumption]. }
    cbn [abs] in Hx. destruct (info mm n) as [a op|k cls attrs|r gr|] eqn:Ei.
    + destruct op.
      * destruct kids as [|k rest]; [destruct Hx|]. apply (Hkid k); [left; reflexivity | exact Hx].
      * destruct Hx.
      * apply in_flat_map in Hx as [nd [Hnd Hx]]. apply in_flat_map in Hnd as [k [Hk Hnd]].
        destruct (is_sep_of g n k); [destruct Hnd|].
        apply (Hkid k Hk). apply in_flat_map. exists nd. split; assumption.
      * destruct Hx.
    + destruct k.
      * cbn [flat_map objs_post] in Hx. rewrite app_nil_r in Hx.
        apply in_app_or in Hx as [Hx|[<-|[]]].
        -- apply in_flat_map in Hx as [nd [Hnd Hx]]. apply in_flat_map in Hnd as [k [Hk Hnd]].
           apply (Hkid k Hk). apply in_flat_map. exists nd. split; assumption.
        -- exists (NT n kids). split; [left; reflexivity|]. split; [exists cls, attrs; exact Ei | reflexivity].
      * destruct kids as [|k rest]; [destruct Hx|]. destruct rest as [|k2 rest].
        -- apply (Hkid k); [left; reflexivity | exact Hx].
        -- destruct (sel_nonmatch (list node) ab [] (nonmatch_class mm) (k :: k2 :: rest)) as [r|] eqn:E1.
           ++ apply sel_nonmatch_cases in E1 as [->|[y [Hy ->]]]; [destruct Hx | apply (Hkid y Hy Hx)].
           ++ destruct (sel_nt (list node) ab [] (has_class mm) (k :: k2 :: rest)) as [r|] eqn:E2; [|destruct Hx].
              apply sel_nt_cases in E2 as [->|[y [Hy ->]]]; [destruct Hx | apply (Hkid y Hy Hx)].
      * cbn in Hx. destruct Hx.
    + destruct Hx.
    + destruct Hx.
Qed.

(* every key of the position map of the abstracted tree is the span (tpos, tend) of a
   common-rule node of the parse tree, and its value is that node's rule *)
Theorem dict_key_is_node_span t nd s e i :
  In nd (ab t) -> In (s, e, i) (rule_dict nd) ->
  exists t', In t' (subtrees t) /\ is_common mm t' /\
             i = tree_nid t' /\ s = N.of_nat (Build.tpos t') /\ e = N.of_nat (Build.tend t').
Proof.
  intros Hnd Hd. apply dict_sound in Hd.
  destruct (abs_objs t (s, e, i)) as [t' [H1 [H2 H3]]].
  { apply in_flat_map. exists nd. split; assumption. }
  exists t'. split; [exact H1|]. split; [exact H2|]. unfold item_of, nspan in H3. cbn [fst snd] in H3.
  inversion H3; subst. repeat split; reflexivity.
Qed.
End A.

(* ================================================================ pnode's objects are among them *)
Lemma incl_chain {A} (X B C O1 O2 O : list A) :
  incl X (B ++ O1) -> incl B (C ++ O2) -> incl O1 O -> incl O2 O -> incl X (C ++ O).
Proof.
  intros H1 H2 H3 H4 x Hx. apply H1 in Hx. apply in_app_or in Hx as [Hx|Hx].
  - apply H2 in Hx. apply in_app_or in Hx as [Hx|Hx]; apply in_or_app; [left; exact Hx | right; apply H4; exact Hx].
  - apply in_or_app; right. apply H3; exact Hx.
Qed.

Lemma ospans_app a b : ospans (a ++ b) = ospans a ++ ospans b.
Proof. unfold ospans. rewrite flat_map_app, map_app. reflexivity. Qed.

Lemma ospans_obj i s e ks : ospans [NObj i s e ks] = ospans ks ++ [(s, e)].
Proof. unfold ospans. cbn [flat_map objs_post]. rewrite app_nil_r, map_app. reflexivity. Qed.

Lemma valspans_set a v l : incl (valspans (set_val a v l)) (valspans l ++ vspans v).
Proof.
  induction l as [|[k w] l IH]; cbn [set_val valspans flat_map].
  - rewrite app_nil_r. apply incl_refl.
  - destruct (str_eqb a k); cbn [flat_map].
    + intros x Hx. apply in_app_or in Hx as [Hx|Hx]; apply in_or_app; [right; exact Hx | left; apply in_or_app; right; exact Hx].
    + intros x Hx. apply in_app_or in Hx as [Hx|Hx].
      * apply in_or_app; left. apply in_or_app; left; exact Hx.
      * apply IH in Hx. apply in_app_or in Hx as [Hx|Hx]; apply in_or_app; [left; apply in_or_app; right; exact Hx | right; exact Hx].
Qed.

Lemma valspans_get a l w : get_val a l = Some w -> incl (vspans w) (valspans l).
Proof.
  induction l as [|[k u] l IH]; cbn [get_val valspans flat_map]; intro H; [discriminate|].
  destruct (str_eqb a k).
  - inversion H; subst. apply incl_appl, incl_refl.
  - apply incl_appr. apply IH; exact H.
Qed.

Lemma topspans_set a v c : incl (topspans (Some (cur_set a v c))) (topspans (Some c) ++ vspans v).
Proof. cbn [topspans cur_set c_vals]. apply valspans_set. Qed.

Lemma init_nospans auto attrs : valspans (init_attrs auto attrs) = [].
Proof.
  unfold init_attrs. induction attrs as [|a l IH]; [reflexivity|].
  cbn [map valspans flat_map]. fold (valspans (map (fun a0 => (a_name a0, init_attr auto a0)) l)). rewrite IH, app_nil_r.
  unfold init_attr. destruct (a_mult a); try reflexivity;
    destruct (is_base_type (a_cls a)); try reflexivity; destruct auto; try reflexivity; destruct (a_bool a); reflexivity.
Qed.

Section B.
Variable g : grammar.
Variable mm : list ninfo.
Variable input : list N.
Variable grp : nat -> nat -> option (nat * nat).
Variable auto use_grp : bool.
Notation pn := (pnode g mm input grp auto use_grp).
Notation ab := (abs g mm).

Lemma term_value_nospans n p l v : term_value g mm input grp use_grp n p l = BOk v -> vspans v = [].
Proof.
  unfold term_value. intro H.
  destruct use_grp; [|inversion H; reflexivity].
  destruct (get_node g n) as [nd|]; [|inversion H; reflexivity].
  destruct (n_kind nd); try (inversion H; reflexivity).
  destruct (info mm n) as [| |r gr|]; try (inversion H; reflexivity).
  destruct gr as [|[|gr]]; try (inversion H; reflexivity).
  destruct (grp _ p) as [[gs gl]|]; [inversion H; reflexivity|].
  destruct (is_base5 _); [discriminate | inversion H; reflexivity].
Qed.

Lemma go_nospans l :
  Forall (fun t => forall v, pmatch g input t = BOk v -> vspans v = []) l ->
  forall vs,
  (fix go (l : list tree) : bres (list value) :=
     match l with
     | [] => BOk []
     | x :: l' => match pmatch g input x with
                  | BOk v => match go l' with BOk vs => BOk (v :: vs) | BErr e => BErr e end
                  | BErr e => BErr e
                  end
     end) l = BOk vs -> flat_map vspans vs = [].
Proof.
  induction l as [|x l IHl]; intros HF vs E.
  - inversion E; reflexivity.
  - inversion HF as [|? ? Hx HF']; subst.
    destruct (pmatch g input x) as [w|] eqn:Ex; [|discriminate].
    match type of E with match ?G with _ => _ end = _ => destruct G as [vs'|] eqn:E' end; [|discriminate].
    inversion E; subst. cbn [flat_map]. rewrite (Hx _ eq_refl), (IHl HF' _ eq_refl). reflexivity.
Qed.

Lemma pmatch_nospans : forall t v, pmatch g input t = BOk v -> vspans v = [].
Proof.
  induction t as [n p l s | n kids IH] using tree_ind2; intros v H.
  - cbn [pmatch] in H. inversion H; reflexivity.
  - cbn [pmatch] in H. destruct (is_base5 _); [discriminate|].
    destruct kids as [|k rest]; [discriminate|]. destruct rest as [|k2 rest].
    + inversion IH as [|? ? Hk _]; subst. destruct (pmatch g input k) as [w|] eqn:E; [|discriminate].
      inversion H; subst. cbn [vspans]. apply Hk. reflexivity.
    + inversion IH as [|? ? Hk IH2]; subst. inversion IH2 as [|? ? Hk2 IH3]; subst.
      destruct (pmatch g input k) as [w1|] eqn:E1; [|discriminate].
      destruct (pmatch g input k2) as [w2|] eqn:E2; [|discriminate].
      match type of H with match match match ?G with _ => _ end with _ => _ end with _ => _ end = _ => destruct G as [vs|] eqn:E3 end; [|discriminate].
      inversion H; subst. cbn [vspans flat_map].
      rewrite (Hk _ eq_refl), (Hk2 _ eq_refl), (go_nospans _ IH3 _ E3). reflexivity.
Qed.

Definition ok_rec (rec : tree -> option cur -> bres (value * option cur)) (t : tree) : Prop :=
  forall top v top', rec t top = BOk (v, top') ->
  incl (map sp (vspans v ++ topspans top')) (map sp (topspans top) ++ ospans (ab t)).

Lemma each_objs rec l :
  Forall (ok_rec rec) l -> forall top top', each_loop rec l top = BOk top' ->
  incl (map sp (topspans top')) (map sp (topspans top) ++ ospans (flat_map ab l)).
Proof.
  induction l as [|k l IH]; intros HF top top' H; cbn [each_loop] in H.
  - inversion H; subst. apply incl_appl, incl_refl.
  - inversion HF as [|? ? Hk HF']; subst.
    destruct (rec k top) as [[v top1]|e] eqn:E; [|discriminate].
    cbn [flat_map]. rewrite ospans_app.
    eapply incl_chain; [apply (IH HF' _ _ H) | | apply incl_appr, incl_refl | apply incl_appl, incl_refl].
    eapply incl_tran; [|apply (Hk _ _ _ E)]. rewrite map_app. apply incl_appr, incl_refl.
Qed.

Lemma lst_objs rec is_sep a is_ref l :
  Forall (ok_rec rec) l -> forall top top', lst_loop rec is_sep a is_ref l top = BOk top' ->
  incl (map sp (topspans top')) (map sp (topspans top) ++ ospans (flat_map (fun k => if is_sep k then [] else ab k) l)).
Proof.
  induction l as [|k l IH]; intros HF top top' H; cbn [lst_loop] in H.
  - inversion H; subst. apply incl_appl, incl_refl.
  - inversion HF as [|? ? Hk HF']; subst. cbn [flat_map].
    destruct (is_sep k); [apply (IH HF' _ _ H)|].
    destruct (rec k top) as [[v top1]|e] eqn:E; [|discriminate].
    destruct is_ref; [discriminate|].
    destruct top1 as [c1|]; [|discriminate].
    pose proof (Hk _ _ _ E) as Hs. rewrite ospans_app.
    assert (Hnew : forall X, incl (vspans X) (topspans (Some c1) ++ vspans v) ->
                   incl (map sp (topspans (Some (cur_set a X c1)))) (map sp (topspans top) ++ ospans (ab k))).
    { intros X HX. eapply incl_tran; [|exact Hs]. apply incl_map.
      eapply incl_tran; [apply topspans_set|]. intros x Hx. apply in_app_or in Hx as [Hx|Hx].
      - apply in_or_app; right; exact Hx.
      - apply HX in Hx. apply in_app_or in Hx as [Hx|Hx]; apply in_or_app; [right | left]; exact Hx. }
    destruct (get_val a (c_vals c1)) as [[]|] eqn:Eg; try discriminate.
    + eapply incl_chain; [apply (IH HF' _ _ H) | apply Hnew | apply incl_appr, incl_refl | apply incl_appl, incl_refl].
      cbn [vspans flat_map]. rewrite app_nil_r. apply incl_appr, incl_refl.
    + eapply incl_chain; [apply (IH HF' _ _ H) | apply Hnew | apply incl_appr, incl_refl | apply incl_appl, incl_refl].
      cbn [vspans]. rewrite flat_map_app. cbn [flat_map]. rewrite app_nil_r.
      apply incl_app; [|apply incl_appr, incl_refl].
      apply incl_appl. apply (valspans_get _ _ _ Eg).
Qed.

Lemma first_nonmatch_objs rec kind l top :
  Forall (ok_rec rec) l ->
  match first_nonmatch rec kind l top with
  | None => sel_nonmatch (list node) ab [] kind l = None
  | Some r => exists ns, sel_nonmatch (list node) ab [] kind l = Some ns /\
                forall v top', r = BOk (v, top') ->
                incl (map sp (vspans v ++ topspans top')) (map sp (topspans top) ++ ospans ns)
  end.
Proof.
  induction l as [|x l IH]; intro HF; cbn [first_nonmatch sel_nonmatch]; [reflexivity|].
  inversion HF as [|? ? Hx HF']; subst.
  destruct x as [n p len s|xn kids]; [apply IH; exact HF'|].
  destruct (kind xn) as [[|]|].
  - exists (ab (NT xn kids)). split; [reflexivity|]. intros v top' E. apply (Hx _ _ _ E).
  - apply IH; exact HF'.
  - exists []. split; [reflexivity|]. intros v top' E. discriminate.
Qed.

Lemma first_nt_objs rec hc l top :
  Forall (ok_rec rec) l ->
  match first_nt rec hc l top with
  | None => sel_nt (list node) ab [] hc l = None
  | Some r => exists ns, sel_nt (list node) ab [] hc l = Some ns /\
                forall v top', r = BOk (v, top') ->
                incl (map sp (vspans v ++ topspans top')) (map sp (topspans top) ++ ospans ns)
  end.
Proof.
  induction l as [|x l IH]; intro HF; cbn [first_nt sel_nt]; [reflexivity|].
  inversion HF as [|? ? Hx HF']; subst.
  destruct x as [n p len s|xn kids]; [apply IH; exact HF'|].
  destruct (hc xn).
  - exists (ab (NT xn kids)). split; [reflexivity|]. intros v top' E. apply (Hx _ _ _ E).
  - exists []. split; [reflexivity|]. intros v top' E. discriminate.
Qed.

Lemma same_top_incl top v : vspans v = [] ->
  forall O, incl (map sp (vspans v ++ topspans top)) (map sp (topspans top) ++ O).
Proof. intros -> O. cbn [app]. apply incl_appl, incl_refl. Qed.

Theorem pnode_objs : forall t, ok_rec pn t.
Proof.
  induction t as [n p l s | n kids IH] using tree_ind2; intros top v top' H.
  - cbn [pnode] in H. destruct (term_value g mm input grp use_grp n p l) as [w|] eqn:E; inversion H; subst.
    apply same_top_incl. eapply term_value_nospans; exact E.
  - cbn [pnode] in H. cbn [abs]. destruct (info mm n) as [a op|k cls attrs|r gr|] eqn:Ei; try discriminate.
    + destruct top as [c|]; [|discriminate].
      destruct (find_attr a (c_meta c)) as [ma|]; [|discriminate].
      destruct op; try discriminate.
      * (* plain *)
        destruct (get_val a (c_vals c)) as [av|] eqn:Eg; [|discriminate].
        destruct (val_truthy av && negb (is_vlist av))%bool; [discriminate|].
        destruct kids as [|k rest]; [discriminate|].
        inversion IH as [|? ? Hk _]; subst.
        destruct (pn k (Some c)) as [[v1 top1]|e] eqn:E; [|discriminate].
        destruct (a_ref ma && negb (a_cont ma))%bool; [discriminate|].
        destruct top1 as [c1|]; [|discriminate].
        pose proof (Hk _ _ _ E) as Hs.
        assert (Hnew : forall X, incl (vspans X) (topspans (Some c) ++ vspans v1) ->
                       incl (map sp (vspans VNone ++ topspans (Some (cur_set a X c1)))) (map sp (topspans (Some c)) ++ ospans (ab k))).
        { intros X HX. cbn [vspans app]. intros x Hx. apply in_map_iff in Hx as [y [<- Hy]].
          apply topspans_set in Hy. apply in_app_or in Hy as [Hy|Hy].
          - apply Hs. apply in_map. apply in_or_app; right; exact Hy.
          - apply HX in Hy. apply in_app_or in Hy as [Hy|Hy].
            + apply in_or_app; left. apply in_map; exact Hy.
            + apply Hs. apply in_map. apply in_or_app; left; exact Hy. }
        destruct av; inversion H; subst; apply Hnew; try (apply incl_appr, incl_refl).
        cbn [vspans]. rewrite flat_map_app. cbn [flat_map]. rewrite app_nil_r.
        apply incl_app; [|apply incl_appr, incl_refl].
        apply incl_appl. apply (valspans_get _ _ _ Eg).
      * (* optional *)
        inversion H; subst. cbn [vspans app]. apply incl_appl. apply incl_map.
        eapply incl_tran; [apply topspans_set|]. cbn [vspans]. rewrite app_nil_r. apply incl_refl.
      * (* list *)
        destruct (lst_loop pn (is_sep_of g n) a (a_ref ma && negb (a_cont ma))%bool kids (Some c)) as [t1|e] eqn:E; [|discriminate].
        inversion H; subst. cbn [vspans app]. apply (lst_objs _ _ _ _ _ IH _ _ E).
    + destruct k.
      * (* common *)
        destruct (each_loop pn kids _) as [[c1|]|e] eqn:E; try discriminate.
        destruct (name_ok (c_vals c1)); [|discriminate]. destruct (many_ok (c_meta c1) (c_vals c1)); [|discriminate].
        inversion H; subst. clear H.
        assert (F : same_frame (Some (mkCur cls attrs (Build.tpos (NT n kids)) (Build.tend (NT n kids)) (init_attrs auto attrs))) (Some c1)).
        { apply (each_frame pn kids); [|exact E]. apply Forall_forall. intros x _. apply pnode_frame. }
        unfold same_frame in F. cbn [c_pos c_end] in F. destruct F as [F1 [F2 _]].
        pose proof (each_objs _ _ IH _ _ E) as Hk. cbn [topspans c_vals] in Hk. rewrite init_nospans in Hk. cbn [map app] in Hk.
        rewrite ospans_obj. unfold nspan. cbn [fst snd].
        intros x Hx. apply in_map_iff in Hx as [y [<- Hy]]. apply in_or_app.
        apply in_app_or in Hy as [Hy|Hy]; [|left; apply in_map; exact Hy].
        cbn [vspans] in Hy. destruct Hy as [<-|Hy].
        -- right. apply in_or_app; right. left. unfold sp. cbn [fst snd]. rewrite F1, F2. reflexivity.
        -- right. apply in_or_app; left. apply Hk. apply in_map. exact Hy.
      * (* abstract *)
        destruct kids as [|k rest]; [discriminate|].
        destruct rest as [|k2 rest].
        -- inversion IH as [|? ? Hk _]; subst. apply (Hk _ _ _ H).
        -- pose proof (first_nonmatch_objs pn (nonmatch_class mm) (k :: k2 :: rest) top IH) as H1.
           destruct (first_nonmatch pn (nonmatch_class mm) (k :: k2 :: rest) top) as [r0|] eqn:E0.
           ++ destruct H1 as [ns [-> Hns]]. apply Hns. exact H.
           ++ rewrite H1.
              pose proof (first_nt_objs pn (has_class mm) (k :: k2 :: rest) top IH) as H2.
              destruct (first_nt pn (has_class mm) (k :: k2 :: rest) top) as [r|] eqn:E.
              ** destruct H2 as [ns [-> Hns]]. apply Hns. exact H.
              ** rewrite H2. inversion H; subst. apply same_top_incl. reflexivity.
      * (* match *)
        destruct (pmatch g input (NT n kids)) as [w|] eqn:E; inversion H; subst.
        apply same_top_incl. eapply pmatch_nospans; exact E.
Qed.

(* every object inside the value built from a parse tree (without an enclosing object) spans
   exactly a common-rule node of that tree, and that span is a key of the position map *)
Theorem built_objects_are_keys t v top' :
  pn t None = BOk (v, top') ->
  forall p e, In (p, e) (vspans v) ->
  (exists t', In t' (subtrees t) /\ is_common mm t' /\ p = Build.tpos t' /\ e = Build.tend t') /\
  In (N.of_nat p, N.of_nat e) (ospans (ab t)).
Proof.
  intros H p e Hin.
  assert (Hk : In (sp (p, e)) (ospans (ab t))).
  { pose proof (pnode_objs t _ _ _ H) as Hi. cbn [topspans map app] in Hi.
    apply Hi. apply in_map. apply in_or_app; left; exact Hin. }
  split; [|exact Hk].
  unfold ospans in Hk. apply in_map_iff in Hk as [[[s0 e0] i] [Hk1 Hk2]].
  destruct (abs_objs g mm t _ Hk2) as [t' [H1 [H2 H3]]].
  exists t'. split; [exact H1|]. split; [exact H2|].
  unfold item_of, nspan in H3. cbn [fst snd] in H3. inversion H3; subst.
  unfold sp, ikey in Hk1. cbn [fst snd] in Hk1. inversion Hk1 as [[Ha Hb]].
  split; apply Nat2N.inj; symmetry; assumption.
Qed.

(* ... and is listed in the position map of the abstracted tree *)
Theorem built_objects_in_dict t v top' :
  pn t None = BOk (v, top') ->
  forall p e, In (p, e) (vspans v) ->
  exists nd i, In nd (ab t) /\ In (N.of_nat p, N.of_nat e, i) (rule_dict nd).
Proof.
  intros H p e Hin. destruct (built_objects_are_keys t v top' H p e Hin) as [_ Hk].
  unfold ospans in Hk. apply in_map_iff in Hk as [x [Hx1 Hx2]].
  apply in_flat_map in Hx2 as [nd [Hnd Hx2]].
  destruct (dict_complete nd x Hx2) as [i Hi]. exists nd, i. split; [exact Hnd|].
  rewrite Hx1 in Hi. exact Hi.
Qed.
End B.

Theorem built_objects_spans_and_keys g mm input grp auto use_grp t v top' :
  pnode g mm input grp auto use_grp t None = BOk (v, top') ->
  forall p e, In (p, e) (vspans v) ->
  (exists t', In t' (subtrees t) /\ is_common mm t' /\ p = Build.tpos t' /\ e = Build.tend t') /\
  exists nd i, In nd (abs g mm t) /\ In (N.of_nat p, N.of_nat e, i) (rule_dict nd).
Proof.
  intros H p e Hin. split.
  - exact (proj1 (built_objects_are_keys g mm input grp auto use_grp t v top' H p e Hin)).
  - exact (built_objects_in_dict g mm input grp auto use_grp t v top' H p e Hin).
Qed.
