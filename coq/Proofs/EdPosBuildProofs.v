(* The position map of C34 on the parse trees of the builder model (Model/Build.v, C01/C06):
   keys are spans (tpos, tend) of common-rule nodes of the Peg parse tree, and every object
   process_node (pnode) builds is one of them. *)
From Coq Require Import Sorting.Sorted Sorting.Permutation.
From TxV Require Import Core.Base Model.PegSyntax Model.Peg Model.Build Proofs.BuildProofs Proofs.BuildObjProofs.
From TxV Require Import Model.EdPosDefs Gen.SrcEdPos Model.EdPos Proofs.EdPosProofs Model.EdPosBuild.

Section A.
Variable g : grammar.
Variable mm : list ninfo.
Notation ab := (abs g mm).

Definition item_of (t : tree) : N * N * nat := (fst (nspan t), snd (nspan t), tree_nid t).

Lemma subtrees_kid n kids k t' : In k kids -> In t' (subtrees k) -> In t' (subtrees (NT n kids)).
Proof. intros Hk Ht. cbn [subtrees]. right. apply in_flat_map. exists k. split; assumption. Qed.

Lemma sel_nonmatch_cases kind l r :
  sel_nonmatch (list node) ab [] kind l = Some r -> r = [] \/ exists x, In x l /\ r = ab x.
Proof.
  induction l as [|x l IH]; cbn [sel_nonmatch]; intro H; [discriminate|].
  destruct x as [n p len s|xn kids].
  - destruct (IH H) as [->|[y [Hy ->]]]; [left; reflexivity | right; exists y; split; [right; exact Hy | reflexivity]].
  - destruct (kind xn) as [[|]|].
    + inversion H; subst. right. exists (NT xn kids). split; [left; reflexivity | reflexivity].
    + destruct (IH H) as [->|[y [Hy ->]]]; [left; reflexivity | right; exists y; split; [right; exact Hy | reflexivity]].
    + inversion H; subst. left; reflexivity.
Qed.

Lemma sel_nt_cases hc l r :
  sel_nt (list node) ab [] hc l = Some r -> r = [] \/ exists x, In x l /\ r = ab x.
Proof.
  induction l as [|x l IH]; cbn [sel_nt]; intro H; [discriminate|].
  destruct x as [n p len s|xn kids].
  - destruct (IH H) as [->|[y [Hy ->]]]; [left; reflexivity | right; exists y; split; [right; exact Hy | reflexivity]].
  - inversion H; subst. destruct (hc xn); [right; exists (NT xn kids); split; [left; reflexivity | reflexivity] | left; reflexivity].
Qed.

Definition objs_ok (t : tree) : Prop :=
  forall x, In x (flat_map objs_post (ab t)) ->
  exists t', In t' (subtrees t) /\ is_common mm t' /\ x = item_of t'.

Lemma abs_objs : forall t, objs_ok t.
Proof.
  induction t as [n p l s | n kids IH] using tree_ind2; intros x Hx.
  - cbn in Hx. destruct Hx.
  - rewrite Forall_forall in IH.
    assert (Hkid : forall k, In k kids -> In x (flat_map objs_post (ab k)) ->
                   exists t', In t' (subtrees (NT n kids)) /\ is_common mm t' /\ x = item_of t').
    { intros k Hk Hin. destruct (IH _ Hk _ Hin) as [t' [H1 [H2 H3]]].
      exists t'. split; [eapply subtrees_kid; eassumption | split; assumption]. }
    cbn [abs] in Hx. destruct (info mm n) as [a op|k cls attrs|r gr|] eqn:Ei.
    + destruct op.
      * destruct kids as [|k rest]; [destruct Hx|]. apply (Hkid k); [left; reflexivity | exact Hx].
      * destruct Hx.
      * apply in_flat_map in Hx as [nd [Hnd Hx]]. apply in_flat_map in Hnd as [k [Hk Hnd]].
        destruct (is_sep_of g n k); [destruct Hnd|].
        apply (Hkid k Hk). apply in_flat_map. exists nd. split; assumption.
      * destruct Hx.
    + destruct k.
      * cbn [flat_map objs_post] in Hx. rewrite app_nil_r in Hx.
        apply in_app_or in Hx as [Hx|[<-|[]]].
        -- apply in_flat_map in Hx as [nd [Hnd Hx]]. apply in_flat_map in Hnd as [k [Hk Hnd]].
           apply (Hkid k Hk). apply in_flat_map. exists nd. split; assumption.
        -- exists (NT n kids). split; [left; reflexivity|]. split; [exists cls, attrs; exact Ei | reflexivity].
      * destruct kids as [|k rest]; [destruct Hx|]. destruct rest as [|k2 rest].
        -- apply (Hkid k); [left; reflexivity | exact Hx].
        -- destruct (sel_nonmatch (list node) ab [] (nonmatch_class mm) (k :: k2 :: rest)) as [r|] eqn:E1.
           ++ apply sel_nonmatch_cases in E1 as [->|[y [Hy ->]]]; [destruct Hx | apply (Hkid y Hy Hx)].
           ++ destruct (sel_nt (list node) ab [] (has_class mm) (k :: k2 :: rest)) as [r|] eqn:E2; [|destruct Hx].
              apply sel_nt_cases in E2 as [->|[y [Hy ->]]]; [destruct Hx | apply (Hkid y Hy Hx)].
      * cbn in Hx. destruct Hx.
    + destruct Hx.
    + destruct Hx.
Qed.

(* every key of the position map of the abstracted tree is the span (tpos, tend) of a
   common-rule node of the parse tree, and its value is that node's rule *)
Theorem dict_key_is_node_span t nd s e i :
  In nd (ab t) -> In (s, e, i) (rule_dict nd) ->
  exists t', In t' (subtrees t) /\ is_common mm t' /\
             i = tree_nid t' /\ s = N.of_nat (Build.tpos t') /\ e = N.of_nat (Build.tend t').
Proof.
  intros Hnd Hd. apply dict_sound in Hd.
  destruct (abs_objs t (s, e, i)) as [t' [H1 [H2 H3]]].
  { apply in_flat_map. exists nd. split; assumption. }
  exists t'. split; [exact H1|]. split; [exact H2|]. unfold item_of, nspan in H3. cbn [fst snd] in H3.
  inversion H3; subst. repeat split; reflexivity.
Qed.
End A.
