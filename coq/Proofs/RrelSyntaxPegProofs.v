(* Per-run obligation: the live parser model dumped from ParserPython(rrel_standalone) is, node
   for node, the PEG the token parser and the lexer of the model were written from. *)
From TxV Require Import Core.Base Model.PegSyntax Gen.SrcRrelSyntax Model.RrelSyntaxPeg.

Lemma live_peg_is_transcribed : peg_check rrel_peg rrel_peg_config rrel_peg_oracles rrel_rules = true.
Proof. vm_compute. reflexivity. Qed.

(* the comparison is not vacuous: it rejects the table with two alternatives of rrel_path_element swapped *)
Definition swapped_rules : list (list N * pexp) :=
  map (fun r => if str_eqb (fst r) r_path_element
                then (fst r, PChoice [PRef r_brackets; PRef r_parent; PRef r_navigation]) else r) rrel_rules.
Lemma swapped_peg_rejected : peg_check rrel_peg rrel_peg_config rrel_peg_oracles swapped_rules = false.
Proof. vm_compute. reflexivity. Qed.
