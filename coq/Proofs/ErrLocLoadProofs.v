(* Composition of the error-location theorems with Model/Peg.v and Model/Build.v (their files are
   imported read-only). *)
From TxV Require Import Core.Base Model.PegSyntax Model.Peg Model.Build Proofs.BuildProofs Proofs.BuildObjProofs.
From TxV Require Import Model.ErrLoc Gen.SrcLoc Proofs.ErrLocProofs Proofs.ErrLocSrcProofs Model.ErrLocLoad.
Require Import Lia.

(* ---- the two transcriptions of Arpeggio's pos_to_linecol (Model/Build.v for C06, Model/ErrLoc.v)
        are the same function, for every text and every offset (also beyond the end) *)
Lemma line_ends_from_same : forall l p, Build.line_ends_from l p = ErrLoc.line_ends_from p l.
Proof.
  induction l as [|c r IH]; intro p; cbn [Build.line_ends_from ErrLoc.line_ends_from]; [reflexivity|].
  rewrite IH. reflexivity.
Qed.

Lemma ascending_head_le : forall a r i, ascending (a :: r) -> i < length r -> a <= nth i r 0.
Proof. intros a r i H Hi. apply (H 0 (S i)); cbn; lia. Qed.

Lemma bisect_left_same : forall l x, ascending l -> Build.bisect_left l x = ErrLoc.bisect_left l x.
Proof.
  unfold Build.bisect_left. induction l as [|a r IH]; intros x Ha; [reflexivity|].
  cbn [filter ErrLoc.bisect_left]. destruct (Nat.ltb_spec a x) as [Hlt|Hge].
  - cbn [length]. rewrite IH by (eapply ascending_tail; exact Ha). reflexivity.
  - assert (E : filter (fun e => e <? x) r = []).
    { apply filter_none. intros e He. apply In_nth with (d := 0) in He. destruct He as [i [Hi Hn]].
      pose proof (ascending_head_le a r i Ha Hi) as Hle. rewrite Hn in Hle.
      apply Nat.ltb_ge. lia. }
    rewrite E. reflexivity.
Qed.

Lemma line_end_is_newline : forall t off i, i < length (ErrLoc.line_ends_from off t) ->
  nth (nth i (ErrLoc.line_ends_from off t) 0 - off) t 0%N = 10%N.
Proof.
  induction t as [|c r IH]; intros off i Hi; cbn [ErrLoc.line_ends_from] in *; [cbn in Hi; lia|].
  destruct (N.eqb_spec c 10) as [Ec|Ec].
  - destruct i as [|i].
    + cbn [nth]. replace (off - off) with 0 by lia. exact Ec.
    + cbn [nth length] in *. pose proof (line_ends_from_lower r (S off) i ltac:(lia)) as Hl.
      replace (nth i (ErrLoc.line_ends_from (S off) r) 0 - off)
        with (S (nth i (ErrLoc.line_ends_from (S off) r) 0 - S off)) by lia.
      cbn [nth]. apply IH. lia.
  - pose proof (line_ends_from_lower r (S off) i Hi) as Hl.
    replace (nth i (ErrLoc.line_ends_from (S off) r) 0 - off)
      with (S (nth i (ErrLoc.line_ends_from (S off) r) 0 - S off)) by lia.
    cbn [nth]. apply IH. exact Hi.
Qed.

Theorem linecol_models_agree : forall input p, Build.pos_to_linecol input p = ErrLoc.pos_to_linecol input p.
Proof.
  intros input p. unfold Build.pos_to_linecol, ErrLoc.pos_to_linecol, line_ends.
  rewrite line_ends_from_same.
  rewrite bisect_left_same by apply line_ends_ascending.
  set (les := ErrLoc.line_ends_from 0 input).
  destruct (ErrLoc.bisect_left les p) as [|l1] eqn:El; [reflexivity|].
  destruct (Nat.ltb_spec 0 (S l1)); [|lia].
  replace (S l1 - 1) with l1 by lia.
  assert (Hl : l1 < length les).
  { pose proof (bisect_left_le_length les p). lia. }
  pose proof (line_end_is_newline input 0 l1 Hl) as Hn. fold les in Hn.
  replace (nth l1 les 0 - 0) with (nth l1 les 0) in Hn by lia.
  rewrite Hn. change (is_nl_cr 10) with true. cbv iota. reflexivity.
Qed.

(* C06's get_location and the location used here *)
Lemma obj_location_is_build_location : forall fs m p e, in_text fs m p ->
  obj_location fs m p e =
  let '(lc, n) := Build.get_location (s_text (file_at fs m)) p e in
  {| r_file := s_name (file_at fs m); r_line := Some (fst lc); r_col := Some (snd lc); r_nchar := Some n |}.
Proof.
  intros fs m p e H. unfold obj_location, Build.get_location.
  rewrite linecol_models_agree, (pos_to_linecol_exact _ _ H). reflexivity.
Qed.

(* ---- C28: the syntax error of a failed parse is located at the interpreter's failure position *)
Theorem load_syntax_error_spec : forall g c orc memo fuel fs m,
  match Peg.run g c orc memo fuel (s_text (file_at fs m)) with
  | SyntaxErr p =>
      in_text fs m p -> load_syntax_error syntax_desc g c orc memo fuel fs m = Some (located_at fs m p)
  | _ => load_syntax_error syntax_desc g c orc memo fuel fs m = None
  end.
Proof.
  intros. unfold load_syntax_error.
  destruct (Peg.run g c orc memo fuel (s_text (file_at fs m))) as [r|p|w]; try reflexivity.
  intro H. rewrite (syntax_located fs m p H). reflexivity.
Qed.

(* ---- C33: an object built from a common-rule node is processed with the location of that node *)
Lemma common_node_yields_object : forall g mm input grp auto use_grp n kids top v top',
  pnode g mm input grp auto use_grp (NT n kids) top = BOk (v, top') ->
  (exists c a, info mm n = IRule RCommon c a) ->
  exists cls attrs, v = VObj cls (tpos (NT n kids)) (tend (NT n kids)) attrs.
Proof.
  intros g mm input grp auto use_grp n kids top v top' H Hc.
  assert (Hv : exists cls p e attrs, v = VObj cls p e attrs).
  { destruct Hc as [c [a Ei]]. cbn [pnode] in H. rewrite Ei in H.
    destruct (each_loop _ kids _) as [[c1|]|er]; try discriminate.
    destruct (name_ok (c_vals c1)); [|discriminate].
    destruct (many_ok (c_meta c1) (c_vals c1)); [|discriminate].
    inversion H; subst. eauto. }
  destruct Hv as [cls [p [e [attrs ->]]]].
  destruct (object_span_is_node_span g mm input grp auto use_grp n kids top cls p e attrs top' H Hc) as [-> ->].
  eauto.
Qed.

Theorem built_object_processor_error : forall g mm grp auto use_grp fs m n kids top v top' wrapped err,
  pnode g mm (s_text (file_at fs m)) grp auto use_grp (NT n kids) top = BOk (v, top') ->
  (exists c a, info mm n = IRule RCommon c a) ->
  in_text fs m (tpos (NT n kids)) ->
  process_built_node process_fills location_keys g mm grp auto use_grp fs m (NT n kids) top wrapped (RaisesTx err)
  = Some (Fails (completed err (obj_location fs m (tpos (NT n kids)) (tend (NT n kids))))).
Proof.
  intros g mm grp auto use_grp fs m n kids top v top' w err H Hc Hin.
  destruct (common_node_yields_object _ _ _ _ _ _ _ _ _ _ _ H Hc) as [cls [attrs ->]].
  unfold process_built_node. rewrite H. rewrite (obj_textx_error _ _ _ _ _ _ Hin). reflexivity.
Qed.

Theorem built_object_wrapped_exception : forall g mm grp auto use_grp fs m n kids top v top',
  pnode g mm (s_text (file_at fs m)) grp auto use_grp (NT n kids) top = BOk (v, top') ->
  (exists c a, info mm n = IRule RCommon c a) ->
  in_text fs m (tpos (NT n kids)) ->
  process_built_node process_fills location_keys g mm grp auto use_grp fs m (NT n kids) top true RaisesOther
  = Some (Fails (obj_location fs m (tpos (NT n kids)) (tend (NT n kids)))).
Proof.
  intros g mm grp auto use_grp fs m n kids top v top' H Hc Hin.
  destruct (common_node_yields_object _ _ _ _ _ _ _ _ _ _ _ H Hc) as [cls [attrs ->]].
  unfold process_built_node. rewrite H. rewrite (obj_wrapped_other _ _ _ _ Hin). reflexivity.
Qed.

(* nchar of a well-formed node is positive: tend - tpos = length of the matched text > 0 *)
Lemma built_object_nchar_positive : forall fs m t, wf_tree t = true ->
  exists k, r_nchar (obj_location fs m (tpos t) (tend t)) = Some k /\ 0 < k /\ tpos t + k = tend t.
Proof.
  intros fs m t H. pose proof (wf_tree_nonempty t H). exists (tend t - tpos t). cbn. repeat split; lia.
Qed.

(* ---- the location is a function of the object (its span and its model), not of its start offset:
        objects with the same start and different ends get different nchar; objects at the same offsets of
        two models with different file names get different file names *)
Lemma location_distinguishes_ends : forall fs m pos e1 e2 wrapped, in_text fs m pos ->
  pos <= e1 -> pos <= e2 -> e1 <> e2 ->
  obj_dispatch process_fills location_keys fs m pos e1 wrapped (RaisesTx no_loc)
  <> obj_dispatch process_fills location_keys fs m pos e2 wrapped (RaisesTx no_loc).
Proof.
  intros fs m pos e1 e2 w H H1 H2 Hne. rewrite !obj_unlocated by assumption.
  intro E. inversion E. lia.
Qed.

Lemma location_distinguishes_models : forall fs m1 m2 pos e wrapped, in_text fs m1 pos -> in_text fs m2 pos ->
  s_name (file_at fs m1) <> s_name (file_at fs m2) ->
  obj_dispatch process_fills location_keys fs m1 pos e wrapped (RaisesTx no_loc)
  <> obj_dispatch process_fills location_keys fs m2 pos e wrapped (RaisesTx no_loc).
Proof.
  intros fs m1 m2 pos e w H1 H2 Hne. rewrite !obj_unlocated by assumption.
  intro E. inversion E. contradiction.
Qed.
