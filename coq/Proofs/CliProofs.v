From TxV Require Import Core.Base Gen.SrcCli Model.Cli.

Lemma parse_loop_spec_n : forall n args files d, length args <= n -> parse_loop args files d = spec_loop args files d.
Proof.
  induction n as [|n IH]; intros [|m rest] files d Hn;
    [reflexivity | simpl in Hn; lia | reflexivity | ].
  cbn [parse_loop spec_loop]. unfold is_switch, arg_name, key_of.
  change switch_prefix with [45;45]%N. cbn [length] in *.
  change bool_key_normalised with true. change value_key_normalised with true.
  change strip_chars with quotes. cbv iota.
  destruct (is_prefix [45;45]%N m).
  - destruct rest as [|v rest']; [reflexivity|]. cbn [length] in Hn.
    destruct (is_prefix [45;45]%N v); apply IH; cbn [length]; lia.
  - apply IH. lia.
Qed.

Lemma parse_loop_spec args files d : parse_loop args files d = spec_loop args files d.
Proof. apply (parse_loop_spec_n (length args)). lia. Qed.

Lemma normalize_no_dash s : ~ In dash (normalize s).
Proof.
  induction s as [|c s IH]; simpl; [tauto|].
  intros [H|H]; [|tauto].
  destruct (N.eqb c dash) eqn:E; [discriminate H|].
  apply N.eqb_neq in E. congruence.
Qed.

Definition keys_ok (d : list (list N * aval)) := forall k v, In (k, v) d -> ~ In dash k.

Lemma dset_keys_ok k v d : ~ In dash k -> keys_ok d -> keys_ok (dset k v d).
Proof.
  intros Hk. induction d as [|[k' v'] d IH]; intros Hd k0 v0; simpl.
  - intros [H|[]]. inversion H; subst. assumption.
  - destruct (str_eqb k k') eqn:E.
    + intros [H|H]; [inversion H; subst; assumption | apply (Hd k0 v0); right; assumption].
    + intros [H|H]; [apply (Hd k0 v0); left; assumption|].
      apply (IH (fun a b Hab => Hd a b (or_intror Hab)) k0 v0 H).
Qed.

Lemma spec_loop_keys_ok_n : forall n args files d, length args <= n -> keys_ok d -> keys_ok (snd (spec_loop args files d)).
Proof.
  induction n as [|n IH]; intros [|m rest] files d Hn Hd;
    [exact Hd | simpl in Hn; lia | exact Hd | ].
  cbn [spec_loop]. cbn [length] in Hn. destruct (is_prefix [45;45]%N m).
  - destruct rest as [|v rest'].
    + simpl. apply dset_keys_ok; [apply normalize_no_dash | exact Hd].
    + cbn [length] in Hn.
      destruct (is_prefix [45;45]%N v); apply IH; try (cbn [length]; lia);
        apply dset_keys_ok; try apply normalize_no_dash; exact Hd.
  - apply IH; [lia | exact Hd].
Qed.

Lemma spec_loop_keys_ok args files d : keys_ok d -> keys_ok (snd (spec_loop args files d)).
Proof. apply (spec_loop_keys_ok_n (length args)). lia. Qed.

Lemma custom_args_no_dash args k v : In (k, v) (custom_args args) -> ~ In dash k.
Proof.
  unfold custom_args. rewrite parse_loop_spec. apply spec_loop_keys_ok. intros ? ? [].
Qed.

(* files before a trailing switch do not disturb it *)
Lemma spec_loop_files : forall fs files d tail,
  forallb (fun m => negb (is_prefix [45;45]%N m)) fs = true ->
  spec_loop (fs ++ tail) files d = spec_loop tail (files ++ fs) d.
Proof.
  induction fs as [|m fs IH]; intros files d tail H; simpl.
  - rewrite app_nil_r. reflexivity.
  - simpl in H. apply andb_true_iff in H as [Hm Hfs]. apply negb_true_iff in Hm.
    rewrite Hm. rewrite IH by assumption. rewrite <- app_assoc. reflexivity.
Qed.

Definition dd : list N := [45;45]%N.

Lemma bare_flag fs name :
  forallb (fun m => negb (is_prefix [45;45]%N m)) fs = true ->
  custom_args (fs ++ [dd ++ name]) = [(normalize name, ATrue)] /\ model_files (fs ++ [dd ++ name]) = fs.
Proof.
  intro H. unfold custom_args, model_files. rewrite parse_loop_spec, spec_loop_files by assumption.
  cbn. split; reflexivity.
Qed.

Lemma valued_arg fs name v :
  forallb (fun m => negb (is_prefix [45;45]%N m)) fs = true -> is_prefix [45;45]%N v = false ->
  custom_args (fs ++ [dd ++ name; v]) = [(normalize name, AStr (strip quotes v))].
Proof.
  intros H Hv. unfold custom_args. rewrite parse_loop_spec, spec_loop_files by assumption.
  cbn [spec_loop]. unfold dd. rewrite (is_prefix_app [45;45]%N name), Hv.
  cbn [spec_loop snd app dset]. reflexivity.
Qed.

(* validation *)
Definition validate_spec (decl : option (list gparam)) (given : list (list N)) : Prop :=
  match decl with
  | None => True
  | Some ps => (forall p, In p ps -> pmandatory p = true -> In (pname p) given) /\
               (ps = [] \/ forall g, In g given -> In g (map pname ps))
  end.

Lemma validate_accept_iff decl given : validate decl given = Accept <-> validate_spec decl given.
Proof.
  unfold validate, validate_spec. destruct decl as [ps|]; [|tauto].
  destruct (find _ ps) as [p|] eqn:F.
  - split; [discriminate|]. intros [Hm _]. apply find_some in F as [Hin Hp].
    apply andb_true_iff in Hp as [Hp1 Hp2]. apply negb_true_iff in Hp2.
    specialize (Hm p Hin Hp1). apply mem_str_In in Hm. congruence.
  - assert (Hm : forall p, In p ps -> pmandatory p = true -> In (pname p) given).
    { intros p Hin Hp. pose proof (find_none _ _ F p Hin) as Hn. cbv beta in Hn.
      rewrite Hp in Hn. simpl in Hn. apply negb_false_iff in Hn. apply mem_str_In. exact Hn. }
    destruct given as [|g0 gs].
    + split; [|reflexivity]. intros _. split; [exact Hm|]. right. intros g [].
    + destruct ps as [|p0 ps'].
      * split; [|reflexivity]. intros _. split; [exact Hm | left; reflexivity].
      * destruct (find _ (g0 :: gs)) as [g|] eqn:G.
        -- split; [discriminate|]. intros [_ [Hc|Hc]]; [discriminate|].
           apply find_some in G as [Hin Hg]. apply negb_true_iff in Hg.
           specialize (Hc g Hin). apply mem_str_In in Hc. congruence.
        -- split; [|reflexivity]. intros _. split; [exact Hm|]. right. intros g Hin.
           pose proof (find_none _ _ G g Hin) as Hn. cbv beta in Hn.
           apply negb_false_iff in Hn. apply mem_str_In. exact Hn.
Qed.

Lemma validate_exit decl given : exit_of_verdict (validate decl given) = 0 <-> validate_spec decl given.
Proof.
  rewrite <- validate_accept_iff. destruct (validate decl given); simpl; split; intro H;
    try reflexivity; try discriminate.
Qed.

Lemma check_exit_zero_iff l : check_exit l = 0 <-> forallb (fun b => b) l = true.
Proof.
  induction l as [|[|] l IH]; simpl; [tauto | exact IH | split; discriminate].
Qed.

Lemma check_exit_values l : check_exit l = 0 \/ check_exit l = 1.
Proof. induction l as [|[|] l IH]; simpl; auto. Qed.

(* ---- the per-file loop ---- *)
Lemma gen_files_doc : forall files first info m reg given,
  gen_files files first info m reg given = doc_calls (map (doc_call info m reg given) files).
Proof.
  induction files as [|f r IH]; intros first info m reg given; [reflexivity|].
  cbn [gen_files map doc_calls]. unfold doc_call at 1.
  destruct (assoc f info) as [fi|]; [|reflexivity].
  assert (HL : lang_for m fi = doc_lang m fi) by (destruct m; reflexivity).
  rewrite HL. destruct (doc_lang m fi) as [l|]; [|reflexivity].
  destruct (f_valid fi l); [|reflexivity].
  change lookup_per_file with true. change any_permitted_iff_deduced with true. cbv iota.
  destruct (lookup reg l (is_per_file m)) as [[gl decl]|]; [|reflexivity].
  destruct (validate decl given); try reflexivity.
  rewrite IH. reflexivity.
Qed.

Lemma doc_calls_exit : forall cs, (fst (doc_calls cs) = 0 <-> Forall (fun c => c <> None) cs) /\ (fst (doc_calls cs) = 0 \/ fst (doc_calls cs) = 1).
Proof.
  induction cs as [|[c|] r [IH1 IH2]]; cbn [doc_calls].
  - split; [split; [constructor | reflexivity] | left; reflexivity].
  - destruct (doc_calls r) as [e cs'] eqn:E. cbn [fst] in *. split; [|exact IH2].
    rewrite IH1. split; [intro H; constructor; [discriminate | exact H] | intro H; inversion H; assumption].
  - cbn [fst]. split; [|right; reflexivity]. split; [discriminate|]. intro H. inversion H as [|x l Hx Hl]. exfalso. apply Hx. reflexivity.
Qed.

(* every generator call is for a file of the command line, made by the generator registered for the
   language of that very file (or by the "any" generator when that language has none and was deduced) *)
Lemma doc_calls_sound : forall cs c, In c (snd (doc_calls cs)) -> In (Some c) cs.
Proof.
  induction cs as [|[c0|] r IH]; intros c H; cbn [doc_calls] in H.
  - destruct H.
  - destruct (doc_calls r) as [e cs'] eqn:E. cbn [snd] in *. destruct H as [H|H]; [left; congruence | right; apply IH; exact H].
  - destruct H.
Qed.

Lemma doc_calls_complete : forall cs, fst (doc_calls cs) = 0 -> map Some (snd (doc_calls cs)) = cs.
Proof.
  induction cs as [|[c0|] r IH]; intro H; cbn [doc_calls] in *.
  - reflexivity.
  - destruct (doc_calls r) as [e cs'] eqn:E. cbn [fst snd map] in *. rewrite IH by assumption. reflexivity.
  - discriminate.
Qed.

Lemma generator_per_file : forall files info m reg given f gl l,
  In (f, gl, l) (snd (gen_files files None info m reg given)) ->
  In f files /\ exists fi decl, assoc f info = Some fi /\ doc_lang m fi = Some l /\ f_valid fi l = true /\
     lookup reg l (is_per_file m) = Some (gl, decl) /\ validate decl given = Accept.
Proof.
  intros files info m reg given f gl l H. rewrite gen_files_doc in H. apply doc_calls_sound in H.
  apply in_map_iff in H. destruct H as [f' [Hc Hin]]. unfold doc_call in Hc.
  destruct (assoc f' info) as [fi|] eqn:A; [|discriminate].
  destruct (doc_lang m fi) as [l'|] eqn:L; [|discriminate].
  destruct (f_valid fi l') eqn:V; [|discriminate].
  destruct (lookup reg l' (is_per_file m)) as [[gl' decl]|] eqn:K; [|discriminate].
  destruct (validate decl given) eqn:W; try discriminate.
  inversion Hc; subst f' gl' l'. split; [assumption|]. exists fi, decl. repeat split; assumption.
Qed.

Lemma lookup_own_language : forall reg l ap gl decl, lookup reg l ap = Some (gl, decl) ->
  (gl = l /\ reg l = Some decl) \/ (ap = true /\ reg l = None /\ gl = any_lang /\ reg any_lang = Some decl).
Proof.
  intros reg l ap gl decl H. unfold lookup in H. destruct (reg l) as [g|] eqn:R.
  - inversion H; subst. left. split; reflexivity.
  - destruct ap; [|discriminate]. destruct (reg any_lang) as [g|] eqn:R2; [|discriminate]. inversion H; subst.
    right. repeat split; reflexivity.
Qed.

Lemma check_cmd_exit : forall m info files,
  (check_cmd m info files = 0 <-> forall f, In f files -> file_loads m info f = true) /\
  (check_cmd m info files = 0 \/ check_cmd m info files = 1).
Proof.
  intros m info files. unfold check_cmd. split; [|apply check_exit_values].
  rewrite check_exit_zero_iff, forallb_forall. split.
  - intros H f Hin. apply (H (file_loads m info f)). apply in_map. exact Hin.
  - intros H b Hb. apply in_map_iff in Hb. destruct Hb as [f [Hf Hin]]. subst b. apply H. exact Hin.
Qed.

Lemma generator_per_file_full : forall files info m reg given f gl l,
  In (f, gl, l) (snd (gen_files files None info m reg given)) ->
  In f files /\ exists fi decl, assoc f info = Some fi /\ doc_lang m fi = Some l /\ f_valid fi l = true /\
     lookup reg l (is_per_file m) = Some (gl, decl) /\ validate decl given = Accept /\
     ((gl = l /\ reg l = Some decl) \/ (is_per_file m = true /\ reg l = None /\ gl = any_lang /\ reg any_lang = Some decl)).
Proof.
  intros files info m reg given f gl l H.
  destruct (generator_per_file files info m reg given f gl l H) as [H1 [fi [decl [A [B [C [D E]]]]]]].
  split; [exact H1|]. exists fi, decl. repeat (split; [assumption|]). exact (lookup_own_language _ _ _ _ _ D).
Qed.

Lemma generate_exit : forall files info m reg given,
  let r := gen_files files None info m reg given in
  (fst r = 0 <-> Forall (fun f => doc_call info m reg given f <> None) files) /\ (fst r = 0 \/ fst r = 1) /\
  (fst r = 0 -> map Some (snd r) = map (doc_call info m reg given) files).
Proof.
  intros files info m reg given. cbv zeta. rewrite gen_files_doc.
  destruct (doc_calls_exit (map (doc_call info m reg given) files)) as [H1 H2].
  split; [|split; [exact H2 | apply doc_calls_complete]].
  rewrite H1. rewrite Forall_map. reflexivity.
Qed.
