(* Fuel monotonicity of the Peg interpreter (Model/Peg.v), for EVERY grammar, oracle, configuration and
   memoization setting: an outcome other than "out of fuel" (Abort 0 / Aborted 0) does not change when
   more fuel is given.  Stable names: [parse_fuel_mono], [run_fuel_mono], [run_fuel_indep]. *)
From TxV Require Import Core.Base Model.PegSyntax Model.Peg.

Section Fuel.
Variable g : grammar.
Variable input : list N.
Variable orc : nat -> nat -> option nat.
Variable memo : bool.

Notation parser := (nat -> bool -> st -> out) (only parsing).

(* o' refines o: either o ran out of fuel or they are equal *)
Definition le_out (o o' : out) : Prop := o = Abort 0 \/ o' = o.
Definition rec_le (rec rec' : parser) : Prop := forall c psq s, le_out (rec c psq s) (rec' c psq s).

Lemma le_out_refl o : le_out o o.
Proof. now right. Qed.

Section Helpers.
Variables rec rec' : parser.
Hypothesis Hrec : rec_le rec rec'.

Ltac call c psq s :=
  let A := fresh "A" in let E := fresh "E" in
  destruct (Hrec c psq s) as [A|E];
  [rewrite A; try (now left) | rewrite E; destruct (rec c psq s) as [?r ?s1|?s1|?w]; try apply le_out_refl].

Lemma cmt_loop_mono cm k : forall k' s, k <= k' ->
  le_out (cmt_loop input rec cm k s) (cmt_loop input rec' cm k' s).
Proof.
  induction k as [|k IH]; intros k' s L; cbn [cmt_loop]; [now left|].
  destruct k' as [|k']; [lia|]. cbn [cmt_loop]. call cm false s.
  apply IH. lia.
Qed.

Lemma match_pre_mono k k' s : k <= k' ->
  le_out (match_pre g input rec k s) (match_pre g input rec' k' s).
Proof.
  intro L. unfold match_pre, parse_comments.
  destruct (if skipws (maybe_skip_ws input s) then _ else None); [apply le_out_refl|].
  destruct (in_cmt (maybe_skip_ws input s)); [apply le_out_refl|].
  destruct (g_comments g) as [cm|]; [|apply le_out_refl].
  destruct (cmt_loop_mono cm k k' (set_in_cmt true (maybe_skip_ws input s)) L) as [A|E].
  - rewrite A. now left.
  - rewrite E. apply le_out_refl.
Qed.

Lemma seq_loop_mono psq kids : forall acc s,
  le_out (seq_loop rec psq kids acc s) (seq_loop rec' psq kids acc s).
Proof.
  induction kids as [|c kids IH]; intros acc s; cbn [seq_loop]; [apply le_out_refl|].
  call c psq s. apply IH.
Qed.

Lemma choice_loop_mono cp kids : forall s,
  le_out (choice_loop rec cp kids s) (choice_loop rec' cp kids s).
Proof.
  induction kids as [|c kids IH]; intros s; cbn [choice_loop]; [apply le_out_refl|].
  call c false s.
  - destruct (is_none r); [apply IH | apply le_out_refl].
  - apply IH.
Qed.

Lemma rep_loop_mono e sep plus k : forall k' first acc s, k <= k' ->
  le_out (rep_loop rec e sep plus k first acc s) (rep_loop rec' e sep plus k' first acc s).
Proof.
  induction k as [|k IH]; intros k' first acc s L; cbn [rep_loop]; [now left|].
  destruct k' as [|k']; [lia|]. cbn [rep_loop].
  assert (Helem : forall acc1 s1,
    le_out (match rec e false s1 with
            | Ok r s2 => if truthy r then rep_loop rec e sep plus k false (acc1 ++ [r]) s2 else Ok (RList acc1) s2
            | Fail s2 => if (plus && first)%bool then Fail (set_pos (pos s) s2) else Ok (RList acc1) (set_pos (pos s) s2)
            | Abort w => Abort w end)
           (match rec' e false s1 with
            | Ok r s2 => if truthy r then rep_loop rec' e sep plus k' false (acc1 ++ [r]) s2 else Ok (RList acc1) s2
            | Fail s2 => if (plus && first)%bool then Fail (set_pos (pos s) s2) else Ok (RList acc1) (set_pos (pos s) s2)
            | Abort w => Abort w end)).
  { intros acc1 s1. call e false s1. destruct (truthy r); [apply IH; lia | apply le_out_refl]. }
  destruct sep as [sp|]; [|apply Helem]. destruct first; [apply Helem|].
  call sp false s. apply Helem.
Qed.

Definition le_ugr (o o' : ugr) : Prop := o = UGAbort 0 \/ o' = o.
Lemma ug_try_mono sf cl todo : forall mt s,
  le_ugr (ug_try rec sf cl todo mt s) (ug_try rec' sf cl todo mt s).
Proof.
  induction todo as [|e todo IH]; intros mt s; cbn [ug_try]; [now right|].
  destruct (Hrec e false s) as [A|E]; [rewrite A; now left|]. rewrite E.
  destruct (rec e false s) as [r s1|s1|w]; try (now right).
  - destruct (truthy r); [destruct sf|]; try apply IH. now right.
  - apply IH.
Qed.

Definition le_ugo (o o' : ugo) : Prop := o = UGOAbort 0 \/ o' = o.
Lemma ug_loop_mono sep n : forall todo first sr acc s,
  le_ugo (ug_loop rec sep n todo first sr acc s) (ug_loop rec' sep n todo first sr acc s).
Proof.
  induction n as [|n IH]; intros todo first sr acc s; destruct todo as [|t0 todo]; cbn [ug_loop];
    try (now right); try (now left).
  assert (Hcont : forall sf sr1 s1,
    le_ugo (match ug_try rec sf (pos s1) (t0 :: todo) true s1 with
            | UGHit e r s2 => ug_loop rec sep n (remove_first e (t0 :: todo)) false sr1
                                ((if truthy sr1 then acc ++ [sr1] else acc) ++ [r]) s2
            | UGNone mt s2 => UGDone mt acc (set_pos (pos s) s2)
            | UGAbort w => UGOAbort w end)
           (match ug_try rec' sf (pos s1) (t0 :: todo) true s1 with
            | UGHit e r s2 => ug_loop rec' sep n (remove_first e (t0 :: todo)) false sr1
                                ((if truthy sr1 then acc ++ [sr1] else acc) ++ [r]) s2
            | UGNone mt s2 => UGDone mt acc (set_pos (pos s) s2)
            | UGAbort w => UGOAbort w end)).
  { intros sf sr1 s1. destruct (ug_try_mono sf (pos s1) (t0 :: todo) true s1) as [A|E].
    - rewrite A. now left.
    - rewrite E. destruct (ug_try rec sf (pos s1) (t0 :: todo) true s1); try (now right). apply IH. }
  destruct sep as [sp|]; [|apply Hcont]. destruct first; [apply Hcont|].
  destruct (Hrec sp false s) as [A|E]; [rewrite A; now left|]. rewrite E.
  destruct (rec sp false s) as [r s1|s1|w]; try apply Hcont. now right.
Qed.

Lemma body_mono k k' nd s : k <= k' -> le_out (body rec k nd s) (body rec' k' nd s).
Proof.
  intro L. unfold body. destruct (n_kind nd); try apply le_out_refl.
  - destruct (seq_loop_mono true (n_kids nd) [] (enter_ws nd s)) as [A|E]; [rewrite A; now left|].
    rewrite E. apply le_out_refl.
  - destruct (choice_loop_mono (pos s) (n_kids nd) (enter_ws nd s)) as [A|E]; [rewrite A; now left|].
    rewrite E. apply le_out_refl.
  - destruct (n_kids nd) as [|e l]; [apply le_out_refl|]. call e false s.
  - destruct (n_kids nd) as [|e l]; [apply le_out_refl|].
    destruct (rep_loop_mono e (n_sep nd) false k k' true [] (enter_eol nd s) L) as [A|E]; [rewrite A; now left|].
    rewrite E. apply le_out_refl.
  - destruct (n_kids nd) as [|e l]; [apply le_out_refl|].
    destruct (rep_loop_mono e (n_sep nd) true k k' true [] (enter_eol nd s) L) as [A|E]; [rewrite A; now left|].
    rewrite E. apply le_out_refl.
  - destruct (n_kids nd) as [|e l] eqn:K; [apply le_out_refl|]. rewrite <- K.
    destruct (ug_loop_mono (n_sep nd) (S (length (n_kids nd))) (n_kids nd) true RNone [] (enter_eol nd s)) as [A|E];
      [rewrite A; now left|]. rewrite E. apply le_out_refl.
  - destruct (seq_loop_mono false (n_kids nd) [] s) as [A|E]; [rewrite A; now left|]. rewrite E. apply le_out_refl.
  - destruct (seq_loop_mono false (n_kids nd) [] s) as [A|E]; [rewrite A; now left|]. rewrite E. apply le_out_refl.
Qed.

End Helpers.

Lemma parse_fuel_le f : forall f', f <= f' -> rec_le (parse g input orc memo f) (parse g input orc memo f').
Proof.
  induction f as [|f IH]; intros f' L nid psq s; [now left|].
  destruct f' as [|f']; [lia|]. cbn [parse].
  assert (L' : f <= f') by lia. specialize (IH f' L').
  destruct (get_node g nid) as [nd|]; [|apply le_out_refl].
  destruct (is_match_kind (n_kind nd)).
  - destruct (match_pre_mono _ _ IH f f' s L') as [A|E]; [rewrite A; now left|]. rewrite E. apply le_out_refl.
  - cbn zeta. destruct (if memo then clookup nid (pos s) (cache s) else None) as [[cr np]|]; [apply le_out_refl|].
    destruct (body_mono _ _ IH f f' nd s L') as [A|E]; [rewrite A; now left|]. rewrite E. apply le_out_refl.
Qed.

(* parse: a result that is not "out of fuel" is the result for every larger fuel *)
Theorem parse_fuel_mono f f' nid psq s :
  f <= f' -> parse g input orc memo f nid psq s <> Abort 0 ->
  parse g input orc memo f' nid psq s = parse g input orc memo f nid psq s.
Proof. intros L NA. destruct (parse_fuel_le f f' L nid psq s) as [A|E]; [contradiction | exact E]. Qed.

End Fuel.

Theorem run_fuel_mono g c orc memo f f' input :
  f <= f' -> run g c orc memo f input <> Aborted 0 ->
  run g c orc memo f' input = run g c orc memo f input.
Proof.
  intros L NA. unfold run in *.
  destruct (parse_fuel_le g input orc memo f f' L (g_top g) false (init_st c)) as [A|E].
  - rewrite A in NA. contradiction.
  - now rewrite E.
Qed.

(* two fuels on which the interpreter does not run out of fuel give the same outcome *)
Corollary run_fuel_indep g c orc memo f f' input :
  run g c orc memo f input <> Aborted 0 -> run g c orc memo f' input <> Aborted 0 ->
  run g c orc memo f input = run g c orc memo f' input.
Proof.
  intros N N'. destruct (Nat.le_ge_cases f f') as [L|L].
  - symmetry. now apply run_fuel_mono.
  - now apply run_fuel_mono.
Qed.
