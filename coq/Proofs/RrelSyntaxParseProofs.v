(* Everything the model's parser returns is a tree the round-trip theorem applies to, except for
   fixed names that end in a backslash:
     parse_text u s = Some e -> wf_expr e /\ parsed_ok u e = true
     parsed_ok u e = true -> no_trailing_bs e = true -> lexable u e = true
   hence  parse_text u s = Some e -> no_trailing_bs e = true -> parse_text u (print_src e) = Some e. *)
From TxV Require Import Core.Base Model.Rx Model.RrelSyntaxLib Gen.SrcRrelSyntax Model.RrelSyntax Model.RrelSyntaxText.
From TxV Require Import Proofs.RxProofs Proofs.RrelSyntaxProofs Proofs.RrelSyntaxPrintProofs Proofs.RrelSyntaxLexProofs
  Proofs.RrelSyntaxTextProofs.
Require Import Lia.

(* ---------------------------------------------------------------- writable = no unescaped quote and no final backslash *)
Lemma ends_bs_cons c f : f <> [] -> ends_bs (c :: f) = ends_bs f.
Proof. destruct f; [contradiction | reflexivity]. Qed.

Lemma str_ok_char q : N.eqb q c_bslash = false -> forall n f, length f <= n ->
  str_ok q f = (negb (unesc q f) && negb (ends_bs f))%bool.
Proof.
  intros Hq. induction n as [|n IH]; intros f Hn.
  - destruct f; [reflexivity | cbn in Hn; lia].
  - destruct f as [|c f']; [reflexivity|]. cbn [length] in Hn. cbn [str_ok unesc].
    destruct (N.eqb c q) eqn:Hcq; [reflexivity|].
    destruct (N.eqb c c_bslash) eqn:Hcb.
    + destruct f' as [|c2 f'']; [cbn [ends_bs]; rewrite Hcb; reflexivity|].
      cbn [length] in Hn. rewrite (ends_bs_cons c (c2 :: f'')) by discriminate.
      destruct (N.eqb c2 q) eqn:H2.
      * rewrite (IH f'') by lia. apply N.eqb_eq in H2. subst c2.
        destruct f'' as [|c3 f3]; [cbn [ends_bs]; rewrite Hq; reflexivity|].
        rewrite (ends_bs_cons q (c3 :: f3)) by discriminate. reflexivity.
      * apply IH. cbn [length]. lia.
    + destruct f' as [|c2 f'']; [cbn [ends_bs str_ok unesc]; rewrite Hcb; reflexivity|].
      rewrite (ends_bs_cons c (c2 :: f'')) by discriminate. apply IH. lia.
Qed.

Lemma lexed_expressible f : fx_lexed f = true -> ends_bs f = false -> expressible f = true.
Proof.
  unfold fx_lexed, expressible. intros H Hb.
  rewrite (str_ok_char c_squote eq_refl (length f) f (le_n _)), (str_ok_char c_dquote eq_refl (length f) f (le_n _)).
  rewrite Hb. cbn [negb]. rewrite !andb_true_r. exact H.
Qed.

(* ---------------------------------------------------------------- trees *)
Lemma lx_combine (p1 p2 p3 f1 f2 f3 : list N -> bool) (d1 d2 d3 : nat -> bool) :
  (forall s, p1 s = true -> p2 s = true -> p3 s = true) ->
  (forall s, f1 s = true -> f2 s = true -> f3 s = true) ->
  (forall n, d1 n = true -> d2 n = true -> d3 n = true) ->
  (forall e, lx_elem p1 f1 d1 e = true -> lx_elem p2 f2 d2 e = true -> lx_elem p3 f3 d3 e = true) /\
  (forall p, lx_path p1 f1 d1 p = true -> lx_path p2 f2 d2 p = true -> lx_path p3 f3 d3 p = true) /\
  (forall s, lx_seq p1 f1 d1 s = true -> lx_seq p2 f2 d2 s = true -> lx_seq p3 f3 d3 s = true).
Proof.
  intros Hp Hf Hd. apply rrel_mutind; cbn [lx_elem lx_path lx_seq].
  - intros t. apply Hp.
  - intros n c f H1 H2. apply andb_true_iff in H1 as [H1 H1']. apply andb_true_iff in H2 as [H2 H2'].
    apply andb_true_iff. split; [apply Hp; assumption|]. destruct f as [fx|]; [apply (Hf fx H1' H2') | reflexivity].
  - intros n. apply Hd.
  - intros s IH. exact IH.
  - intros s IH. exact IH.
  - intros e IH. exact IH.
  - intros e IHe p IHp H1 H2. apply andb_true_iff in H1 as [H1 H1']. apply andb_true_iff in H2 as [H2 H2'].
    apply andb_true_iff. split; [apply IHe | apply IHp]; assumption.
  - intros p IH. exact IH.
  - intros p IHp s IHs H1 H2. apply andb_true_iff in H1 as [H1 H1']. apply andb_true_iff in H2 as [H2 H2'].
    apply andb_true_iff. split; [apply IHp | apply IHs]; assumption.
Qed.

Theorem parsed_lexable u e : parsed_ok u e = true -> no_trailing_bs e = true -> lexable u e = true.
Proof.
  unfold parsed_ok, no_trailing_bs, lexable. intros H1 H2. apply andb_true_iff in H1 as [H1 Hfl].
  rewrite Hfl, andb_true_r.
  refine (proj2 (proj2 (lx_combine (ident u) (fun _ => true) (ident u) fx_lexed (fun f => negb (ends_bs f)) expressible
            nonzero (fun _ => true) nonzero _ _ _)) (eseq e) H1 H2).
  - intros s H _. exact H.
  - intros s Ha Hb. apply lexed_expressible; [exact Ha|]. destruct (ends_bs s); [discriminate | reflexivity].
  - intros n H _. exact H.
Qed.

(* ---------------------------------------------------------------- what a terminal's regex can have matched *)
Section Sound.
Variable u : N -> N.
Notation E := (rrel_env u).

Lemma hd_in {A} (l : list A) x : hd_error l = Some x -> In x l.
Proof. destruct l; [discriminate|]. intros [= ->]. left. reflexivity. Qed.

Lemma first_in r st st' : rx_first E r st = Some st' -> In st' (ends E r st).
Proof. apply hd_in. Qed.

Lemma in_ends_seq a b st st' : In st' (ends E (RSeq a b) st) ->
  exists st1, In st1 (ends E a st) /\ In st' (ends E b st1).
Proof. rewrite ends_seq. intro H. apply in_flat_map in H. exact H. Qed.

Lemma in_ends_chr l pre s st' : In st' (ends E (RChr l) (pre, s)) -> exists t, s = l :: t /\ st' = (l :: pre, t).
Proof.
  destruct s as [|c t]; [intros []|]. rewrite (ends_chr E l pre c t (Hic u)).
  destruct (N.eqb c l) eqn:Hc; [|intros []]. apply N.eqb_eq in Hc. subst c.
  intros [<-|[]]. exists t. split; reflexivity.
Qed.

Lemma span_split (ok : N -> bool) s : exists run rest, s = run ++ rest /\ forallb ok run = true /\ stops ok rest.
Proof.
  induction s as [|c s IH]; [exists [], []; repeat split|].
  destruct (ok c) eqn:Hc.
  - destruct IH as [run [rest [-> [Hr Hs]]]]. exists (c :: run), rest. repeat split; [cbn; rewrite Hc; exact Hr | exact Hs].
  - exists [], (c :: s). repeat split. exact Hc.
Qed.

(* rrel_id *)
Lemma id_sound pre s pre' s2 : rx_first E rx_rrel_id (pre, s) = Some (pre', s2) ->
  exists m, s = m ++ s2 /\ ident u m = true.
Proof.
  intro H. apply first_in in H. unfold rx_rrel_id in H.
  apply in_ends_seq in H as [st1 [H1 H]].
  destruct s as [|c t]; [destruct H1|]. rewrite ends_set in H1.
  destruct (xorb true (set_mem E c [ICat false CDigit; ICat true CWord])) eqn:Hc; [|destruct H1].
  destruct H1 as [<-|[]]. rewrite (set_idstart u) in Hc.
  apply in_ends_seq in H as [st2 [H2 H]].
  destruct (span_split (fun x => xorb false (set_mem E x [ICat false CWord])) t) as [run [rest [-> [Hrun Hstop]]]].
  rewrite (ends_star_set E false [ICat false CWord] run (c :: pre) rest Hrun Hstop) in H2.
  apply prefix_states_in in H2 as [a [b [-> ->]]].
  cbn [ends] in H. destruct (xorb false (word_boundary E (rev a ++ c :: pre, b ++ rest))); [|destruct H].
  destruct H as [[= <- <-]|[]].
  exists (c :: a). split; [cbn [app]; rewrite <- app_assoc; reflexivity|].
  cbn [ident]. apply andb_true_iff. split.
  - unfold idstart. destruct (Rx.is_digit E c); destruct (Rx.is_word E c); cbn in Hc; try discriminate; reflexivity.
  - rewrite forallb_app in Hrun. apply andb_true_iff in Hrun as [Ha _].
    apply forallb_forall. intros x Hx. rewrite forallb_forall in Ha. specialize (Ha x Hx).
    rewrite xorb_false_l, (set_word u) in Ha. exact Ha.
Qed.

(* the flags prefix *)
Lemma flags_sound pre s pre' s2 : rx_first E rx_rrel_flags (pre, s) = Some (pre', s2) ->
  exists fl, s = (43%N :: fl ++ [58%N]) ++ s2 /\ struth fl = true /\ forallb is_flagch fl = true.
Proof.
  intro H. apply first_in in H. unfold rx_rrel_flags in H.
  apply in_ends_seq in H as [st1 [H1 H]]. apply in_ends_chr in H1 as [t [-> ->]].
  apply in_ends_seq in H as [st2 [H2 H]].
  destruct (span_split (fun x => xorb false (set_mem E x [IChar 109%N; IChar 112%N])) t) as [run [rest [-> [Hrun Hstop]]]].
  rewrite (ends_plus_set E false _ run (43%N :: pre) rest Hrun Hstop) in H2.
  destruct run as [|c run']; [destruct H2|].
  apply prefix_states_in in H2 as [a [b [-> ->]]].
  apply in_ends_chr in H as [t2 [Hb [= -> ->]]].
  exists (c :: a). split; [|split; [reflexivity|]].
  - cbn [app]. rewrite <- !app_assoc. cbn [app]. rewrite Hb. reflexivity.
  - change (c :: a ++ b) with ((c :: a) ++ b) in Hrun. rewrite forallb_app in Hrun. apply andb_true_iff in Hrun as [Ha _].
    apply forallb_forall. intros x Hx. rewrite forallb_forall in Ha. specialize (Ha x Hx).
    rewrite xorb_false_l, (set_flag u) in Ha. exact Ha.
Qed.

(* rrel_dots: at least one character is consumed *)
Lemma dots_sound pre s pre' s2 : rx_first E rx_rrel_dots (pre, s) = Some (pre', s2) -> length s2 < length s.
Proof.
  intro H. apply first_in in H. rewrite (ends_dots u) in H. cbn [snd] in H. rewrite rep_loop_lo in H.
  apply in_flat_map in H as [st1 [H1 H]].
  unfold step1 in H1. cbn [snd fst] in H1. destruct s as [|c t]; [destruct H1|].
  destruct (chr_eq E c 46); [|destruct H1]. destruct H1 as [<-|[]].
  apply (rep_loop_shrinks _ true (step1_shrinks _)) in H. cbn [snd length] in *. lia.
Qed.

(* string_value *)
Section StringSound.
Variable q : N.
Hypothesis Hq : N.eqb q 92 = false.

Definition hd_ok (x : list N) : Prop := match x with c :: _ => N.eqb c q = false | [] => True end.
(* f is a sequence of units: backslash-q pairs and single characters other than q *)
Definition J (f : list N) : Prop := hd_ok f /\ forall x, hd_ok x -> unesc q (f ++ x) = unesc q x.

Lemma J_nil : J [].
Proof. split; [exact I | intros x _; reflexivity]. Qed.

Lemma J_pair f : J f -> J (92%N :: q :: f).
Proof.
  intros [_ Hf]. split; [change (N.eqb 92 q = false); rewrite N.eqb_sym; exact Hq|].
  intros x Hx. change ((92%N :: q :: f) ++ x) with (92%N :: q :: f ++ x).
  cbn [unesc]. unfold c_bslash. rewrite (N.eqb_sym 92 q), Hq, !N.eqb_refl. apply Hf. exact Hx.
Qed.

Lemma J_char c f : N.eqb c q = false -> J f -> J (c :: f).
Proof.
  intros Hc [Hh Hf]. split; [exact Hc|].
  intros x Hx. cbn [app unesc]. rewrite Hc. unfold c_bslash.
  destruct (N.eqb c 92) eqn:Hc92; [|apply Hf; exact Hx].
  destruct (f ++ x) as [|c2 r] eqn:Hfx.
  - destruct f; [|discriminate]. cbn [app] in Hfx. subst x. reflexivity.
  - assert (H2 : N.eqb c2 q = false).
    { destruct f as [|c' f']; cbn [app] in Hfx.
      - subst x. exact Hx.
      - injection Hfx as -> _. exact Hh. }
    rewrite H2. rewrite <- Hfx. apply Hf. exact Hx.
Qed.

Lemma sv_star_sound : forall fuel pre s st',
  In st' (rep_loop (ends E (sv_body q)) true 0 None fuel (pre, s)) -> exists f, s = f ++ snd st' /\ J f.
Proof.
  induction fuel as [|fu IH]; intros pre s st' H; [destruct H|].
  cbn [rep_loop is_zero_opt] in H. apply in_app_or in H as [H|H].
  - apply in_flat_map in H as [st1 [H1 H]].
    destruct (Nat.ltb (length (snd st1)) (length (snd (pre, s)))); [|destruct H].
    destruct s as [|c t]; [destruct H1|]. rewrite (ends_sv_body u q) in H1.
    apply in_app_or in H1 as [H1|H1].
    + destruct (N.eqb c 92) eqn:Hc; [|destruct H1]. destruct t as [|d t']; [destruct H1|].
      destruct (N.eqb d q) eqn:Hd; [|destruct H1]. destruct H1 as [<-|[]].
      apply N.eqb_eq in Hc, Hd. subst c d.
      apply IH in H as [f [-> Hf]]. exists (92%N :: q :: f). split; [reflexivity | apply J_pair; exact Hf].
    + destruct (N.eqb c q) eqn:Hc; [destruct H1|]. destruct H1 as [<-|[]].
      apply IH in H as [f [-> Hf]]. exists (c :: f). split; [reflexivity | apply J_char; assumption].
  - destruct H as [<-|[]]. exists []. split; [reflexivity | apply J_nil].
Qed.

Lemma sv_sound pre s pre' s2 : rx_first E (sv_rx q) (pre, s) = Some (pre', s2) ->
  exists f, s = (q :: f ++ [q]) ++ s2 /\ unesc q f = false.
Proof.
  intro H. apply first_in in H. unfold sv_rx in H.
  apply in_ends_seq in H as [st1 [H1 H]]. apply in_ends_chr in H1 as [t [-> ->]].
  apply in_ends_seq in H as [st2 [H2 H]].
  cbn [ends] in H2. apply sv_star_sound in H2 as [f [-> [_ Hf]]].
  destruct st2 as [pre2 r2]. cbn [snd] in *.
  apply in_ends_chr in H as [t2 [-> [= -> ->]]].
  exists f. split; [cbn [app]; rewrite <- app_assoc; reflexivity|].
  specialize (Hf [] I). rewrite app_nil_r in Hf. exact Hf.
Qed.
End StringSound.

End Sound.

(* ---------------------------------------------------------------- every token the lexer returns *)
Section LexSound.
Variable u : N -> N.
Notation E := (rrel_env u).

Lemma punct_lexed c t : punct c = Some t -> tok_lexed u t = true.
Proof.
  unfold punct. repeat (match goal with |- context [if ?b then _ else _] => destruct b end);
    intros [= <-]; reflexivity.
Qed.

Lemma firstn_pos_length {A} (s : list A) k : 0 < k -> k <= length s -> length (firstn k s) <> 0.
Proof. intros Hk Hl. rewrite firstn_length. lia. Qed.

Lemma first_tok_sound pre s t pre' s2 : first_tok u pre s = Some (t, (pre', s2)) -> tok_lexed u t = true.
Proof.
  unfold first_tok.
  destruct (rx_first E rx_rrel_flags (pre, s)) as [[p1 r1]|] eqn:H1.
  { intros [= <- _ _]. cbn [snd]. apply flags_sound in H1 as [fl [-> [Hne Hall]]].
    rewrite take_match_app, strip_ends_wrap. cbn [tok_lexed]. rewrite Hne, Hall. reflexivity. }
  destruct (rx_first E rx_rrel_id (pre, s)) as [[p2 r2]|] eqn:H2.
  { intros [= <- _ _]. cbn [snd]. apply id_sound in H2 as [m [-> Hm]]. rewrite take_match_app. exact Hm. }
  destruct (rx_first E rx_rrel_dots (pre, s)) as [[p3 r3]|] eqn:H3.
  { intros [= <- _ _]. cbn [snd tok_lexed]. apply dots_sound in H3. unfold take_match, nonzero.
    destruct (Nat.eqb (length (firstn (length s - length r3) s)) 0) eqn:Hz; [|reflexivity].
    apply Nat.eqb_eq in Hz. exfalso. revert Hz. apply firstn_pos_length; lia. }
  destruct (rx_first E rx_string_value_0 (pre, s)) as [[p4 r4]|] eqn:H4.
  { intros [= <- _ _]. cbn [snd]. rewrite sv0_shape in H4. apply (sv_sound u 39%N eq_refl) in H4 as [f [-> Hf]].
    rewrite take_match_app, strip_ends_wrap. cbn [hd tok_lexed]. rewrite Hf. reflexivity. }
  destruct (rx_first E rx_string_value_1 (pre, s)) as [[p5 r5]|] eqn:H5.
  { intros [= <- _ _]. cbn [snd]. rewrite sv1_shape in H5. apply (sv_sound u 34%N eq_refl) in H5 as [f [-> Hf]].
    rewrite take_match_app, strip_ends_wrap. cbn [hd tok_lexed]. rewrite Hf. reflexivity. }
  destruct s as [|c s']; [discriminate|].
  destruct (punct c) as [t'|] eqn:Hp; [|discriminate]. cbn [option_map]. intros [= <- _ _]. apply (punct_lexed c). exact Hp.
Qed.

Theorem lex_sound : forall fuel pre s ts, lex_rx u fuel pre s = Some ts -> forallb (tok_lexed u) ts = true.
Proof.
  induction fuel as [|f IH]; intros pre s ts H; [discriminate|].
  cbn [lex_rx] in H. destruct s as [|c s']; [injection H as <-; reflexivity|].
  destruct (ws_char c); [apply (IH _ _ _ H)|].
  destruct (first_tok u pre (c :: s')) as [[t [pre' s2]]|] eqn:Hft; [|discriminate].
  destruct (lex_rx u f pre' s2) as [ts'|] eqn:Hl; [|discriminate]. cbn [option_map] in H. injection H as <-.
  cbn [forallb]. rewrite (first_tok_sound _ _ _ _ _ Hft), (IH _ _ _ Hl). reflexivity.
Qed.
End LexSound.

(* ---------------------------------------------------------------- every tree the token parser returns *)
Section ParseSound.
Variable u : N -> N.
Notation TP ts := (forallb (tok_lexed u) ts = true).
Notation lxe := (lx_elem (ident u) fx_lexed nonzero).
Notation lxp := (lx_path (ident u) fx_lexed nonzero).
Notation lxs := (lx_seq (ident u) fx_lexed nonzero).

Ltac splitb := repeat match goal with
  | H : (_ && _)%bool = true |- _ => apply andb_true_iff in H; destruct H
  end.
Ltac solveb := repeat split; auto; cbn [forallb tok_lexed lx_elem lx_path lx_seq]; repeat (apply andb_true_iff; split); auto.

Lemma str_tok_fx fx q : tok_lexed u (TStr fx q) = true -> fx_lexed fx = true.
Proof.
  cbn [tok_lexed]. unfold fx_lexed, c_squote, c_dquote. intro H. apply andb_true_iff in H as [Hq Hu].
  apply orb_true_iff in Hq as [Hq|Hq]; apply N.eqb_eq in Hq; subst q; rewrite Hu; [reflexivity | apply orb_true_r].
Qed.

Lemma wf_tail_path p : wf_tail p -> wf_path p.
Proof. destruct p as [e|e p']; destruct e; cbn; tauto. Qed.

Lemma star_of_ok e : wf_elem e -> lxe e = true -> wf_elem (star_of e) /\ lxe (star_of e) = true.
Proof. destruct e; cbn; tauto. Qed.

Definition Spe f := forall ts e r, p_pe f ts = Some (e, r) -> TP ts -> (wf_elem e /\ lxe e = true) /\ TP r.
Definition Sx f := forall ts e r, p_x f ts = Some (e, r) -> TP ts -> (wf_elem e /\ lxe e = true) /\ TP r.
Definition Sel f := forall ts p r, p_elems f ts = Some (p, r) -> TP ts -> (wf_tail p /\ lxp p = true) /\ TP r.
Definition Spa f := forall ts p r, p_path f ts = Some (p, r) -> TP ts -> (wf_path p /\ lxp p = true) /\ TP r.
Definition Sse f := forall ts s r, p_seq f ts = Some (s, r) -> TP ts -> (wf_seq s /\ lxs s = true) /\ TP r.

Lemma pe_step f : Sse f -> Spe (S f).
Proof.
  intros IH ts e r H HTP. rewrite p_pe_S in H.
  destruct ts as [|t0 ts0]; [discriminate|].
  destruct t0 as [k | fx q | n | | | | | | | fl]; try discriminate.
  - (* an identifier: parent(T) or a consumed name *)
    cbn [forallb tok_lexed] in HTP. splitb.
    destruct ts0 as [|t1 ts1]; [injection H as <- <-; solveb|].
    destruct t1; try (injection H as <- <-; solveb; fail).
    destruct ts1 as [|t2 ts2]; [injection H as <- <-; solveb|].
    destruct t2; try (injection H as <- <-; solveb; fail).
    destruct ts2 as [|t3 ts3]; [injection H as <- <-; solveb|].
    destruct t3; try (injection H as <- <-; solveb; fail).
    cbn [forallb tok_lexed] in *. splitb.
    destruct (str_eqb k kw_parent); injection H as <- <-; solveb.
  - (* 'fixed'~name *)
    destruct ts0 as [|t1 ts1]; [discriminate|]. destruct t1; try discriminate.
    destruct ts1 as [|t2 ts2]; [discriminate|]. destruct t2; try discriminate.
    injection H as <- <-. cbn [forallb] in HTP. splitb.
    match goal with Hs : tok_lexed u (TStr _ _) = true |- _ => pose proof (str_tok_fx _ _ Hs) end.
    cbn [tok_lexed] in *. solveb.
  - (* ( sequence ) *)
    cbn [forallb tok_lexed] in HTP. splitb.
    destruct (p_seq f ts0) as [[s r1]|] eqn:Hs; [|discriminate].
    destruct r1 as [|t1 r2]; [discriminate|]. destruct t1; try discriminate. injection H as <- <-.
    destruct (IH _ _ _ Hs) as [[Hw Hl] Hr]; [assumption|].
    cbn [forallb tok_lexed] in Hr. splitb. cbn [wf_elem lx_elem]. solveb.
  - (* ~name *)
    destruct ts0 as [|t1 ts1]; [discriminate|]. destruct t1; try discriminate. injection H as <- <-.
    cbn [forallb tok_lexed] in HTP. splitb. solveb.
Qed.

Lemma x_step f : Spe f -> Sx (S f).
Proof.
  intros IH ts e r H HTP. rewrite p_x_S in H.
  destruct (p_pe f ts) as [[e0 r0]|] eqn:Hpe; [|discriminate].
  destruct (IH _ _ _ Hpe HTP) as [[Hw Hl] Hr].
  destruct r0 as [|t1 r1]; [injection H as <- <-; auto|].
  destruct t1; try (injection H as <- <-; auto; fail).
  injection H as <- <-. cbn [forallb tok_lexed] in Hr. splitb.
  split; [apply star_of_ok; assumption | assumption].
Qed.

Lemma elems_step f : Sx f -> Sel f -> Sel (S f).
Proof.
  intros IHx IHe ts p r H HTP. rewrite p_elems_S in H.
  destruct (p_x f ts) as [[e0 r0]|] eqn:Hx; [|discriminate].
  destruct (IHx _ _ _ Hx HTP) as [[Hw Hl] Hr].
  destruct r0 as [|t1 r1]; [injection H as <- <-; solveb|].
  destruct t1 as [k | fx q | n | | | | | | | fl]; try (injection H as <- <-; solveb; fail).
  destruct n as [|[|n]]; try (injection H as <- <-; solveb; fail).
  destruct (p_elems f r1) as [[p1 r2]|] eqn:He; [|discriminate]. injection H as <- <-.
  cbn [forallb tok_lexed] in Hr. splitb.
  destruct (IHe _ _ _ He) as [[Hw1 Hl1] Hr1]; [assumption|].
  cbn [wf_tail]. solveb.
Qed.

Lemma caret_ok : wf_elem caret_elem /\ lxe caret_elem = true.
Proof. split; [exact I | reflexivity]. Qed.

Lemma path_step f : Sel f -> Spa (S f).
Proof.
  intros IH ts p r H HTP. rewrite p_path_S in H.
  destruct ts as [|t0 ts0].
  - cbn beta iota zeta in H. destruct (p_elems f []) as [[p1 r1]|] eqn:He; [|discriminate]. injection H as <- <-.
    destruct (IH _ _ _ He HTP) as [[Hw Hl] Hr]. split; [split; [apply wf_tail_path|]|]; assumption.
  - destruct t0 as [k | fx q | n | | | | | | | fl]; cbn beta iota zeta in H;
      try (destruct (p_elems f (_ :: ts0)) as [[p1 r1]|] eqn:He; [|discriminate]; injection H as <- <-;
           destruct (IH _ _ _ He HTP) as [[Hw Hl] Hr]; split; [split; [apply wf_tail_path|]|]; assumption).
    + (* dots head *)
      cbn [forallb tok_lexed] in HTP. splitb.
      destruct (p_elems f ts0) as [[p1 r1]|] eqn:He; injection H as <- <-.
      * destruct (IH _ _ _ He) as [[Hw Hl] Hr]; [assumption|]. cbn [wf_path]. solveb.
      * solveb.
    + (* ^ *)
      cbn [forallb tok_lexed] in HTP. splitb. destruct caret_ok as [Hcw Hcl].
      destruct (p_elems f ts0) as [[p1 r1]|] eqn:He; injection H as <- <-.
      * destruct (IH _ _ _ He) as [[Hw Hl] Hr]; [assumption|].
        split; [split|assumption]; [unfold caret_elem; cbn [wf_path wf_tail]; split; [exact Hcw | exact Hw]|].
        cbn [lx_path]. apply andb_true_iff. split; [exact Hcl | exact Hl].
      * split; [split|assumption]; [exact Hcw | exact Hcl].
Qed.

Lemma seq_step f : Spa f -> Sse f -> Sse (S f).
Proof.
  intros IHp IHs ts s r H HTP. rewrite p_seq_S in H.
  destruct (p_path f ts) as [[p0 r0]|] eqn:Hp; [|discriminate].
  destruct (IHp _ _ _ Hp HTP) as [[Hw Hl] Hr].
  destruct r0 as [|t1 r1]; [injection H as <- <-; rewrite wf_seq_S1; solveb|].
  destruct t1; try (injection H as <- <-; rewrite wf_seq_S1; solveb; fail).
  destruct (p_seq f r1) as [[s1 r2]|] eqn:Hs; [|discriminate]. injection H as <- <-.
  cbn [forallb tok_lexed] in Hr. splitb.
  destruct (IHs _ _ _ Hs) as [[Hw1 Hl1] Hr1]; [assumption|].
  rewrite wf_seq_SCons. solveb.
Qed.

Theorem parser_sound : forall f, Spe f /\ Sx f /\ Sel f /\ Spa f /\ Sse f.
Proof.
  induction f as [|f [IHpe [IHx [IHel [IHpa IHse]]]]].
  - repeat apply conj; intros ts x r H; discriminate.
  - repeat apply conj; [apply pe_step | apply x_step | apply elems_step | apply path_step | apply seq_step]; assumption.
Qed.

Theorem parse_toks_sound ts e : parse_toks ts = Some e -> TP ts -> wf_expr e /\ parsed_ok u e = true.
Proof.
  unfold parse_toks, p_expr. intros H HTP.
  destruct (parser_sound (5 * length ts + 5)) as [_ [_ [_ [_ HS]]]].
  destruct ts as [|t0 ts0].
  - destruct (p_seq _ []) as [[s r]|] eqn:Hs; [|discriminate]. destruct r; [|discriminate]. injection H as <-.
    destruct (HS _ _ _ Hs HTP) as [[Hw Hl] _]. unfold wf_expr, parsed_ok. cbn [eseq eflags forallb]. rewrite Hl. auto.
  - destruct t0 as [k | fx q | n | | | | | | | fl];
      try (destruct (p_seq _ (_ :: ts0)) as [[s r]|] eqn:Hs; [|discriminate]; destruct r; [|discriminate]; injection H as <-;
           destruct (HS _ _ _ Hs HTP) as [[Hw Hl] _]; unfold wf_expr, parsed_ok; cbn [eseq eflags forallb]; rewrite Hl; auto).
    destruct (p_seq _ ts0) as [[s r]|] eqn:Hs; [|discriminate]. destruct r; [|discriminate]. injection H as <-.
    cbn [forallb tok_lexed] in HTP. splitb.
    destruct (HS _ _ _ Hs) as [[Hw Hl] _]; [assumption|]. unfold wf_expr, parsed_ok. cbn [eseq eflags]. rewrite Hl. auto.
Qed.
End ParseSound.

(* ---------------------------------------------------------------- the property in its stated form *)
Theorem parse_text_sound u s e : parse_text u s = Some e -> wf_expr e /\ parsed_ok u e = true.
Proof.
  unfold parse_text, lex_text. destruct (lex_rx u (S (length s)) [] s) as [ts|] eqn:Hl; [|discriminate].
  intro H. apply (parse_toks_sound u ts e H). apply (lex_sound u _ _ _ _ Hl).
Qed.

Theorem parsed_roundtrip u s e : parse_text u s = Some e -> no_trailing_bs e = true ->
  parse_text u (print_src e) = Some e.
Proof.
  intros H Hb. destruct (parse_text_sound u s e H) as [Hw Hp].
  apply parse_text_print; [exact Hw | apply parsed_lexable; assumption].
Qed.

Theorem parsed_same_evaluation (A : Type) (eval : expr -> A) u s e : parse_text u s = Some e ->
  no_trailing_bs e = true -> option_map eval (parse_text u (print_src e)) = Some (eval e).
Proof. intros H Hb. rewrite (parsed_roundtrip u s e H Hb). reflexivity. Qed.

(* ---------------------------------------------------------------- ASCII identifiers are identifiers for every classification *)
Lemma ident_ascii_only u s : ident ascii_only s = true -> ident u s = true.
Proof.
  assert (Hw : forall c, Rx.is_word (rrel_env ascii_only) c = true -> Rx.is_word (rrel_env u) c = true).
  { intro c. unfold Rx.is_word. destruct (N.ltb c 128); [trivial | discriminate]. }
  destruct s as [|c r]; [discriminate|]. cbn [ident]. intro H. apply andb_true_iff in H as [Hc Hr].
  apply andb_true_iff. split.
  - unfold idstart, Rx.is_word, Rx.is_digit in *. destruct (N.ltb c 128); [exact Hc | discriminate].
  - apply forallb_forall. intros x Hx. rewrite forallb_forall in Hr. apply Hw, Hr, Hx.
Qed.

Theorem lexable_ascii_only u e : lexable ascii_only e = true -> lexable u e = true.
Proof.
  unfold lexable. intro H. apply andb_true_iff in H as [H Hfl]. rewrite Hfl, andb_true_r.
  refine (proj2 (proj2 (lx_combine (ident ascii_only) (ident ascii_only) (ident u) expressible expressible expressible
            nonzero nonzero nonzero _ _ _)) (eseq e) H H); auto.
  intros s Hs _. apply ident_ascii_only. exact Hs.
Qed.

Theorem parse_text_print_ascii u e : wf_expr e -> lexable ascii_only e = true -> parse_text u (print_src e) = Some e.
Proof. intros Hw Hl. apply parse_text_print; [exact Hw | apply lexable_ascii_only; exact Hl]. Qed.
