(* The printer never emits two tokens that run together, hence (with the lexer lemma and the
   token-level round trip) parse_text (print_src e) = Some e for every well-formed, expressible
   tree. *)
From TxV Require Import Core.Base Model.Rx Model.RrelSyntaxLib Gen.SrcRrelSyntax Model.RrelSyntax Model.RrelSyntaxText.
From TxV Require Import Proofs.RrelSyntaxProofs Proofs.RrelSyntaxPrintProofs Proofs.RrelSyntaxLexProofs.
Require Import Lia.

(* ---------------------------------------------------------------- every printed token is well formed *)
Section AllOk.
Variable u : N -> N.
Notation tok_ok := (tok_ok u).
Notation lx_elem := (lx_elem (ident u) expressible nonzero).
Notation lx_path := (lx_path (ident u) expressible nonzero).
Notation lx_seq := (lx_seq (ident u) expressible nonzero).

Lemma all_ok_app a b : forallb tok_ok (a ++ b) = (forallb tok_ok a && forallb tok_ok b)%bool.
Proof. apply forallb_app. Qed.

Lemma quote_for_cases f : (N.eqb (quote_for f) c_squote || N.eqb (quote_for f) c_dquote)%bool = true.
Proof. unfold quote_for. destruct (unesc c_squote f); reflexivity. Qed.

(* a text with an unescaped q cannot be written between q's *)
Lemma unesc_not_ok q : forall n f, length f <= n -> unesc q f = true -> str_ok q f = false.
Proof.
  induction n as [|n IH]; intros f Hn H.
  - destruct f; [discriminate | cbn in Hn; lia].
  - destruct f as [|c f']; [discriminate|]. cbn [length] in Hn. cbn [unesc str_ok] in *.
    destruct (N.eqb c q); [reflexivity|].
    destruct (N.eqb c c_bslash).
    + destruct f' as [|c2 f'']; [reflexivity|]. cbn [length] in Hn.
      destruct (N.eqb c2 q); apply IH; (cbn [length]; lia) || exact H.
    + apply IH; [lia | exact H].
Qed.

(* a text without unescaped q that can be written between some other quotes can be written between q's *)
Lemma ok_other_quote q q' : N.eqb q c_bslash = false -> N.eqb q' c_bslash = false ->
  forall n f, length f <= n -> unesc q f = false -> str_ok q' f = true -> str_ok q f = true.
Proof.
  intros Hq Hq'. induction n as [|n IH]; intros f Hn Hu Hok.
  - destruct f; [reflexivity | cbn in Hn; lia].
  - destruct f as [|c f']; [reflexivity|]. cbn [length] in Hn. cbn [unesc str_ok] in *.
    destruct (N.eqb c q) eqn:Hcq; [discriminate|].
    destruct (N.eqb c q') eqn:Hcq'; [discriminate|].
    destruct (N.eqb c c_bslash) eqn:Hcb.
    + destruct f' as [|c2 f'']; [discriminate|]. cbn [length] in Hn.
      destruct (N.eqb c2 q) eqn:H2q.
      * (* backslash q: a pair for q; for q' the backslash is plain and so is the q *)
        apply N.eqb_eq in H2q. subst c2.
        destruct (N.eqb q q') eqn:Hqq.
        { apply IH; [lia | exact Hu | exact Hok]. }
        cbn [str_ok] in Hok. rewrite Hqq, Hq in Hok. apply IH; [lia | exact Hu | exact Hok].
      * destruct (N.eqb c2 q') eqn:H2q'.
        { (* backslash q': a pair for q'; for q both characters are plain *)
          apply N.eqb_eq in H2q'. subst c2. cbn [unesc str_ok] in *. rewrite H2q in *. rewrite Hq' in *.
          apply IH; [lia | exact Hu | exact Hok]. }
        apply IH; [cbn [length]; lia | exact Hu | exact Hok].
    + apply IH; [lia | exact Hu | exact Hok].
Qed.

(* the quotes the printer chooses work whenever some quotes do *)
Lemma expressible_quote_for f : expressible f = true -> str_ok (quote_for f) f = true.
Proof.
  unfold expressible, quote_for. intro H.
  destruct (unesc c_squote f) eqn:Hu.
  - rewrite (unesc_not_ok c_squote (length f) f (le_n _) Hu) in H. exact H.
  - apply orb_true_iff in H as [H|H]; [exact H|].
    apply (ok_other_quote c_squote c_dquote eq_refl eq_refl (length f) f (le_n _) Hu H).
Qed.

Definition AE (e : elem) : Prop := lx_elem e = true -> forallb tok_ok (t_elem e) = true.
Definition AP (p : path) : Prop := lx_path p = true ->
  forallb tok_ok (t_path_tail p) = true /\ forallb tok_ok (t_path p) = true.
Definition AS (s : seq) : Prop := lx_seq s = true -> forallb tok_ok (t_seq s) = true.

Lemma all_ok_path p : forallb tok_ok (t_path_tail p) = true -> forallb tok_ok (t_path p) = true.
Proof.
  intro H. destruct p as [e|e p']; [destruct e; exact H|].
  destruct e; exact H.      (* dots head: the joining dot is a well-formed token, dropped by conversion *)
Qed.

Theorem all_ok_all : (forall e, AE e) /\ (forall p, AP p) /\ (forall s, AS s).
Proof.
  apply rrel_mutind; unfold AE, AP, AS.
  - intros t H. cbn [lx_elem t_elem forallb tok_ok] in *. rewrite H. reflexivity.
  - intros n c f H. cbn [lx_elem] in H. apply andb_true_iff in H as [Hn Hf].
    cbn [t_elem]. destruct f as [fx|]; [|destruct c]; cbn [forallb tok_ok]; rewrite Hn; try reflexivity.
    rewrite quote_for_cases, (expressible_quote_for fx Hf). reflexivity.
  - intros n H. cbn [lx_elem t_elem forallb tok_ok] in *. rewrite H. reflexivity.
  - intros s IH H. cbn [lx_elem t_elem forallb tok_ok] in *. rewrite all_ok_app, (IH H). reflexivity.
  - intros s IH H. cbn [lx_elem t_elem forallb tok_ok] in *. rewrite all_ok_app, (IH H). reflexivity.
  - intros e IHe H. cbn [lx_path] in H.
    assert (Ht : forallb tok_ok (t_path_tail (P1 e)) = true) by (cbn [t_path_tail]; apply IHe; exact H).
    split; [exact Ht | apply all_ok_path; exact Ht].
  - intros e IHe p IHp H. cbn [lx_path] in H. apply andb_true_iff in H as [He Hp].
    assert (Ht : forallb tok_ok (t_path_tail (PCons e p)) = true).
    { cbn [t_path_tail]. rewrite all_ok_app. cbn [forallb tok_ok]. rewrite (IHe He), (proj1 (IHp Hp)). reflexivity. }
    split; [exact Ht | apply all_ok_path; exact Ht].
  - intros p IHp H. cbn [lx_seq] in H. rewrite t_seq_S1. apply (proj2 (IHp H)).
  - intros p IHp s IHs H. cbn [lx_seq] in H. apply andb_true_iff in H as [Hp Hs].
    rewrite t_seq_SCons, all_ok_app. cbn [forallb tok_ok]. rewrite (proj2 (IHp Hp)), (IHs Hs). reflexivity.
Qed.

End AllOk.

(* ---------------------------------------------------------------- no two adjacent tokens run together *)
Lemma adj_app p a b : adj_from p (a ++ b) = (adj_from p a && adj_from (end_cls p a) b)%bool.
Proof.
  revert p. induction a as [|t a IH]; intro p; cbn [app adj_from end_cls]; [reflexivity|].
  rewrite IH, andb_assoc. reflexivity.
Qed.
Lemma end_app p a b : end_cls p (a ++ b) = end_cls (end_cls p a) b.
Proof. revert p. induction a as [|t a IH]; intro p; cbn [app end_cls]; [reflexivity | apply IH]. Qed.

Lemma clash_0 p : clash p 0 = false.
Proof. unfold clash. cbn. apply andb_false_r. Qed.
Lemma clash_1 p : p <> 1 -> clash p 1 = false.
Proof. intro H. unfold clash. destruct (Nat.eqb_spec p 1); [contradiction | reflexivity]. Qed.
Lemma clash_2 p : p <> 2 -> clash p 2 = false.
Proof. intro H. unfold clash. destruct (Nat.eqb_spec p 2); [contradiction | reflexivity]. Qed.

(* an element may follow anything but an identifier, and does not end in dots;
   paths and sequences follow (and are followed by) self-delimiting tokens only *)
Definition JE (e : elem) : Prop := wf_elem e -> forall p, p <> 1 ->
  adj_from p (t_elem e) = true /\ end_cls p (t_elem e) <> 2.
Definition JP (p : path) : Prop :=
  (wf_tail p -> forall q, q <> 1 -> adj_from q (t_path_tail p) = true /\ end_cls q (t_path_tail p) <> 2) /\
  (wf_path p -> adj_from 0 (t_path p) = true).
Definition JS (s : seq) : Prop := wf_seq s -> adj_from 0 (t_seq s) = true.

Lemma adj_path p :
  (wf_tail p -> forall q, q <> 1 -> adj_from q (t_path_tail p) = true /\ end_cls q (t_path_tail p) <> 2) ->
  (forall e p', p = PCons e p' -> wf_tail p' -> forall q, q <> 1 ->
      adj_from q (t_path_tail p') = true /\ end_cls q (t_path_tail p') <> 2) ->
  wf_path p -> adj_from 0 (t_path p) = true.
Proof.
  intros Htail Hsub Hwf. destruct p as [e|e p'].
  - destruct e; try (apply (Htail Hwf 0); discriminate). reflexivity.
  - destruct e; try (apply (Htail Hwf 0); discriminate).
    cbn [t_path wf_path adj_from cls] in *. rewrite clash_2 by discriminate.
    apply (Hsub _ _ eq_refl Hwf 2). discriminate.
Qed.

Theorem adj_all : (forall e, JE e) /\ (forall p, JP p) /\ (forall s, JS s).
Proof.
  apply rrel_mutind; unfold JE, JP, JS.
  - (* parent *)
    intros t _ p Hp. cbn [t_elem adj_from end_cls cls]. rewrite clash_1 by exact Hp.
    split; [reflexivity | discriminate].
  - (* navigation *)
    intros n c f _ p Hp. cbn [t_elem]. destruct f as [fx|]; [|destruct c]; cbn [adj_from end_cls cls];
      rewrite ?clash_0, ?clash_1 by (exact Hp || discriminate); (split; [reflexivity | discriminate]).
  - intros n H. contradiction.
  - (* brackets *)
    intros s IH Hwf p _. cbn [t_elem wf_elem adj_from end_cls cls] in *. rewrite clash_0, adj_app, end_app.
    rewrite (IH Hwf). cbn [adj_from end_cls cls]. rewrite clash_0. split; [reflexivity | discriminate].
  - (* star *)
    intros s IH Hwf p _. cbn [t_elem wf_elem adj_from end_cls cls] in *. rewrite clash_0, adj_app, end_app.
    rewrite (IH Hwf). cbn [adj_from end_cls cls]. rewrite !clash_0. split; [reflexivity | discriminate].
  - (* P1 *)
    intros e IHe.
    assert (Htail : wf_tail (P1 e) -> forall q, q <> 1 ->
              adj_from q (t_path_tail (P1 e)) = true /\ end_cls q (t_path_tail (P1 e)) <> 2).
    { cbn [wf_tail t_path_tail]. exact IHe. }
    split; [exact Htail|]. apply adj_path; [exact Htail | intros; discriminate].
  - (* PCons *)
    intros e IHe p [IHp _].
    assert (Htail : wf_tail (PCons e p) -> forall q, q <> 1 ->
              adj_from q (t_path_tail (PCons e p)) = true /\ end_cls q (t_path_tail (PCons e p)) <> 2).
    { cbn [wf_tail t_path_tail]. intros [He Hp] q Hq.
      destruct (IHe He q Hq) as [Ha He2]. destruct (IHp Hp 2) as [Hb Hp2]; [discriminate|].
      rewrite adj_app, end_app. cbn [adj_from end_cls cls]. rewrite Ha, clash_2 by exact He2.
      rewrite Hb. split; [reflexivity | exact Hp2]. }
    split; [exact Htail|]. apply adj_path; [exact Htail|].
    intros e0 p0 Heq. inversion Heq; subst. exact IHp.
  - (* S1 *)
    intros p [_ IHp] Hwf. rewrite t_seq_S1. rewrite wf_seq_S1 in Hwf. apply IHp. exact Hwf.
  - (* SCons *)
    intros p [_ IHp] s IHs Hwf. rewrite t_seq_SCons. rewrite wf_seq_SCons in Hwf. destruct Hwf as [Hp Hs].
    rewrite adj_app. cbn [adj_from cls]. rewrite clash_0, (IHp Hp), (IHs Hs). reflexivity.
Qed.

Theorem toks_ok_print u e : wf_expr e -> lexable u e = true -> toks_ok u (t_expr e) = true.
Proof.
  destruct e as [s fl]. unfold wf_expr, lexable, toks_ok, t_expr. cbn [eseq eflags].
  intros Hwf Hlx. apply andb_true_iff in Hlx as [Hs Hfl].
  destruct (all_ok_all u) as [_ [_ HA]]. destruct adj_all as [_ [_ HJ]].
  destruct fl as [|c fl].
  - rewrite (HA s Hs), (HJ s Hwf). reflexivity.
  - cbn [forallb tok_ok adj_from cls struth]. cbn [forallb] in Hfl. rewrite Hfl, (HA s Hs), clash_0, (HJ s Hwf). reflexivity.
Qed.

(* ---------------------------------------------------------------- the round trip on characters *)
Theorem parse_text_print u e : wf_expr e -> lexable u e = true -> parse_text u (print_src e) = Some e.
Proof.
  intros Hwf Hlx. unfold parse_text. rewrite print_src_render.
  rewrite (lex_text_render u _ (toks_ok_print u e Hwf Hlx)). apply parse_toks_print. exact Hwf.
Qed.

Theorem same_evaluation (A : Type) (eval : expr -> A) u e : wf_expr e -> lexable u e = true ->
  option_map eval (parse_text u (print_src e)) = Some (eval e).
Proof. intros Hwf Hlx. rewrite (parse_text_print u e Hwf Hlx). reflexivity. Qed.

Theorem lex_text_print u e : wf_expr e -> lexable u e = true -> lex_text u (print_src e) = Some (t_expr e).
Proof. intros Hwf Hlx. rewrite print_src_render. apply lex_text_render, toks_ok_print; assumption. Qed.

(* ---------------------------------------------------------------- the hypothesis on fixed names is needed:
   a fixed name ending in a backslash is accepted by the grammar when no later quote of the same
   kind follows ("a\"~x,'b'~y: the regex backtracks and closes the string at the escaped quote),
   but it has no string_value spelling that is independent of what follows; printed in single
   quotes, the text no longer parses *)
Definition tb_text : list N := [34;97;92;34;126;120;44;39;98;39;126;121]%N.
Definition tb_expr : expr :=
  {| eseq := SCons (P1 (ENav [120] false (Some [97;92]))) (S1 (P1 (ENav [121] false (Some [98])))); eflags := [] |}%N.

Lemma trailing_backslash_witness :
  parse_text ascii_only tb_text = Some tb_expr /\ wf_expr tb_expr /\ no_trailing_bs tb_expr = false /\
  parse_text ascii_only (print_src tb_expr) = None.
Proof. vm_compute. repeat split; reflexivity. Qed.

Lemma trailing_backslash_exists : exists s e,
  parse_text ascii_only s = Some e /\ wf_expr e /\ no_trailing_bs e = false /\ parse_text ascii_only (print_src e) = None.
Proof. exists tb_text, tb_expr. exact trailing_backslash_witness. Qed.
