(* C22 - insertion of Comment text: invariance of the interpreter (memoization off) for grammars
   whose Comment rule is a single regex terminal and that never change the whitespace mode.
   Unary part: in this class the comment loop and the comment_positions table compute a pure
   function of the position (relation CL); binary part: simulation of the two runs. *)
From TxV Require Import Core.Base Model.PegSyntax Model.Peg Model.PegWsDefs Proofs.PegWs Proofs.PegWsSim.
Require Import Lia.

Lemma scf_tr z y x : scf z y -> scf y x -> scf z x.
Proof.
  unfold scf. intros (A1 & A2 & A3 & A4 & A5 & A6) (B1 & B2 & B3 & B4 & B5 & B6).
  rewrite A1, A2, A3, A4, A5, A6. repeat split; assumption.
Qed.

(* ================================================================ one input *)
Section Unary.
Variable g : grammar.
Variable inp : list N.
Variable orcl : nat -> nat -> option nat.
Variable wset : list N.
Variables cm oc : nat.
Variable ndc : node.
Hypothesis Hcm : g_comments g = Some cm.
Hypothesis Hnd : get_node g cm = Some ndc.
Hypothesis Hkd : n_kind ndc = KRegex oc.

Definition sk (p : nat) : nat := skip_ws_from wset (skipn p inp) p.

Lemma skipn_nth {A} (l : list A) r :
  match nth_error l r with Some c => skipn r l = c :: skipn (S r) l | None => skipn r l = [] end.
Proof.
  revert r; induction l as [|x l IH]; intros [|r]; simpl; try reflexivity. apply IH.
Qed.

Lemma nth_skipn {A} (l : list A) p i : nth_error (skipn p l) i = nth_error l (p + i).
Proof. revert p; induction l as [|x l IH]; intros [|p]; simpl; try reflexivity; [destruct i; reflexivity | apply IH]. Qed.

Lemma sk_idem p : sk (sk p) = sk p.
Proof.
  unfold sk. pose proof (skip_stops wset (skipn p inp) p) as H. pose proof (skip_le wset (skipn p inp) p) as Hle.
  set (r := skip_ws_from wset (skipn p inp) p) in *.
  rewrite nth_skipn in H. replace (p + (r - p)) with r in H by lia.
  pose proof (skipn_nth inp r) as Hn. destruct (nth_error inp r) as [c|].
  - rewrite Hn. simpl. unfold inw in H. rewrite H. reflexivity.
  - rewrite Hn. reflexivity.
Qed.

(* the comment loop as a relation on (post-skip) positions *)
Inductive CL : nat -> nat -> Prop :=
| CL_stop q : orcl oc q = None -> CL q q
| CL_step q len e : orcl oc q = Some (S len) -> CL (sk (q + S len)) e -> CL q e.

Lemma CL_end q e : CL q e -> orcl oc e = None.
Proof. induction 1; assumption. Qed.

Definition sound (cp : list (nat * nat)) : Prop := forall q e, lookup q cp = Some e -> CL q e.

Lemma sound_upd cp q e : sound cp -> CL q e -> sound (upd q e cp).
Proof.
  intros Hs Hc r v. rewrite lookup_upd. destruct (Nat.eqb_spec r q) as [->|_]; [intro E; injection E as <-; exact Hc | apply Hs].
Qed.

Lemma set_pos_same x : set_pos (pos x) x = x.
Proof. destruct x; reflexivity. Qed.

(* invariant of the states outside the comment loop *)
Definition CI (x : st) : Prop :=
  skipws x = true /\ ws x = wset /\ in_cmt x = false /\ sound (cpos x).

Lemma CI_ext y x : scf y x -> CI x -> CI y.
Proof. unfold scf, CI. intros (A1 & A2 & A3 & A4 & A5 & A6). rewrite A1, A3, A5, A6. tauto. Qed.

Lemma msw_pos x : skipws x = true -> ws x = wset -> maybe_skip_ws inp x = set_pos (sk (pos x)) x.
Proof. intros H1 H2. unfold maybe_skip_ws, do_skip_ws, sk. rewrite H1, H2. reflexivity. Qed.

(* one attempt of the Comment terminal inside the comment loop *)
Lemma parse_cm_spec f y :
  in_cmt y = true -> skipws y = true -> ws y = wset -> sound (cpos y) -> sk (pos y) = pos y ->
  match parse g inp orcl false f cm false y with
  | Ok _ y1 => (orcl oc (pos y) = Some 0 /\ y1 = y) \/
               (exists len, orcl oc (pos y) = Some (S len) /\ y1 = set_pos (pos y + S len) y)
  | Fail y1 => scf y1 y /\ CL (pos y) (pos y1)
  | Abort _ => True
  end.
Proof.
  intros Hin Hsk Hws Hso Hpost. destruct f as [|f']; simpl; [exact I|].
  rewrite Hnd, Hkd. simpl. unfold match_pre. cbv zeta.
  rewrite (msw_pos y Hsk Hws), Hpost, set_pos_same. rewrite Hsk.
  destruct (lookup (pos y) (cpos y)) as [e|] eqn:EL.
  - pose proof (Hso _ _ EL) as HC. pose proof (CL_end _ _ HC) as HE. simpl. rewrite HE. simpl.
    split; [eapply scf_tr; [apply scf_reg_fail | apply scf_set_pos] | rewrite pos_reg_fail; exact HC].
  - rewrite Hin. simpl. destruct (orcl oc (pos y)) as [[|len]|] eqn:EO; simpl.
    + left. split; reflexivity.
    + right. exists len. split; reflexivity.
    + split; [apply scf_reg_fail | rewrite pos_reg_fail; apply CL_stop; exact EO].
Qed.

Lemma cmt_loop_CL f : forall kf y,
  in_cmt y = true -> skipws y = true -> ws y = wset -> sound (cpos y) -> sk (pos y) = pos y ->
  match cmt_loop inp (parse g inp orcl false f) cm kf y with
  | Ok _ y1 => CL (pos y) (pos y1) /\ scf y1 y
  | Fail _ => False
  | Abort _ => True
  end.
Proof.
  intros kf; induction kf as [|kf IH]; intros y Hin Hsk Hws Hso Hpost; cbn [cmt_loop]; [exact I|].
  pose proof (parse_cm_spec f y Hin Hsk Hws Hso Hpost) as HS.
  destruct (parse g inp orcl false f cm false y) as [r y1|y1|w]; [|split; [apply HS | apply HS]|exact I].
  destruct HS as [[EO ->]|[len [EO ->]]].
  - rewrite (msw_pos y Hsk Hws), Hpost, set_pos_same. apply IH; assumption.
  - assert (E1 : maybe_skip_ws inp (set_pos (pos y + S len) y) = set_pos (sk (pos y + S len)) y).
    { rewrite msw_pos by assumption. destruct y; reflexivity. }
    rewrite E1.
    specialize (IH (set_pos (sk (pos y + S len)) y) Hin Hsk Hws Hso (sk_idem _)).
    destruct (cmt_loop inp (parse g inp orcl false f) cm kf (set_pos (sk (pos y + S len)) y)) as [r2 y2|y2|w];
      [|exact IH|exact I].
    destruct IH as [HC Hf]. split; [eapply CL_step; [exact EO | exact HC] | eapply scf_tr; [exact Hf | apply scf_set_pos]].
Qed.

Lemma match_pre_CL f x : CI x ->
  match match_pre g inp (parse g inp orcl false f) f x with
  | Ok r x1 => r = RNone /\ CL (sk (pos x)) (pos x1) /\ CI x1
  | Fail _ => False
  | Abort _ => True
  end.
Proof.
  intros (Hsk & Hws & Hin & Hso). unfold match_pre. cbv zeta.
  rewrite (msw_pos x Hsk Hws). simpl. rewrite Hsk.
  destruct (lookup (sk (pos x)) (cpos x)) as [e|] eqn:EL.
  - split; [reflexivity|]. split; [apply Hso; exact EL|]. repeat split; assumption.
  - rewrite Hin. unfold parse_comments. rewrite Hcm.
    pose proof (cmt_loop_CL f f (set_in_cmt true (set_pos (sk (pos x)) x)) eq_refl Hsk Hws Hso (sk_idem _)) as H.
    destruct (cmt_loop inp (parse g inp orcl false f) cm f (set_in_cmt true (set_pos (sk (pos x)) x))) as [r y1|y1|w];
      [|exact H|exact I].
    destruct H as [HC (A1 & A2 & A3 & A4 & A5 & A6)]. simpl in *.
    split; [reflexivity|]. split; [exact HC|]. unfold CI; simpl.
    rewrite A3, A1, A6. repeat split; try assumption. apply sound_upd; assumption.
Qed.

End Unary.

(* ================================================================ the two inputs *)
Section Bin.
Variable g : grammar.
Variables a w1 c w2 b : list N.
Variables orc orc' : nat -> nat -> option nat.
Variable wset : list N.
Variables cm oc : nat.
Variable ndc : node.
Let ins := w1 ++ c ++ w2.
Let k := length a.
Let n := length ins.
Let qc := k + length w1.
Notation s0 := (a ++ b).
Notation s1 := (a ++ ins ++ b).
Notation sh := (shift_res (length a) (length ins)).
Notation ph := (phi (length a) (length ins)).
Notation sks := (sk s0 wset).
Notation sks' := (sk s1 wset).
Notation CLs := (CL s0 orc wset oc).
Notation CLs' := (CL s1 orc' wset oc).

Hypothesis Hcm : g_comments g = Some cm.
Hypothesis Hnd : get_node g cm = Some ndc.
Hypothesis Hkd : n_kind ndc = KRegex oc.
Hypothesis Hw1 : subset_ws w1 wset = true.
Hypothesis Hw2 : subset_ws w2 wset = true.
Hypothesis Hc0 : exists c0 ct, c = c0 :: ct /\ inw wset c0 = false.
Hypothesis Hoc : orc' oc qc = Some (length c).
Hypothesis Htok : forall nd, In nd (g_nodes g) -> is_match_kind (n_kind nd) = true ->
                             tok a ins b orc orc' (n_kind nd).
Hypothesis Hfree : forall nd, In nd (g_nodes g) -> node_mode_free nd = true.

Lemma len_s0 : length s0 = k + length b.
Proof. unfold k. apply app_length. Qed.
Lemma len_ins : n = length w1 + (length c + length w2).
Proof. unfold n, ins. rewrite !app_length. reflexivity. Qed.
Lemma len_c_pos : 0 < length c.
Proof. destruct Hc0 as (c0 & ct & -> & _). simpl. lia. Qed.

Lemma tok_cm : tok a ins b orc orc' (KRegex oc).
Proof.
  rewrite <- Hkd. apply Htok; [unfold get_node in Hnd; eapply nth_error_In; exact Hnd | rewrite Hkd; reflexivity].
Qed.

(* the comment oracle is shifted and its matches neither leave the input nor cross k *)
Lemma oc_spec p : p <= length s0 ->
  orc' oc (ph p) = orc oc p /\
  forall len, orc oc p = Some len -> p + len <= length s0 /\ (p < k -> p + len <= k).
Proof. intro Hp. exact (tok_spec a ins b orc orc' (KRegex oc) p tok_cm Hp). Qed.

(* positions before skipping *)
Definition Rpc (p p' : nat) : Prop :=
  p <= length s0 /\ ((p < k /\ p' = p) \/ (p = k /\ (p' = k \/ p' = k + n)) \/ (k < p /\ p' = p + n)).

Lemma Rpc_advance p len :
  p <= length s0 -> p + len <= length s0 -> (p < k -> p + len <= k) -> Rpc (p + len) (ph p + len).
Proof.
  intros H1 H2 H3. unfold Rpc, phi. fold k n. split; [exact H2|].
  destruct (Nat.ltb_spec p k) as [Hlt|Hge]; [specialize (H3 Hlt)|]; lia.
Qed.

Lemma Rpc_phi p : p <= length s0 -> Rpc p (ph p).
Proof. intro H. unfold Rpc, phi. fold k n. split; [exact H|]. destruct (Nat.ltb_spec p k); lia. Qed.

Lemma skipn_s0_k : skipn k s0 = b.
Proof. rewrite skipn_app_ge by (fold k; lia). fold k. rewrite Nat.sub_diag. reflexivity. Qed.

Lemma sks_k_ge : k <= sks k /\ sks k <= length s0.
Proof.
  unfold sk. rewrite skipn_s0_k. pose proof (skip_le wset b k). pose proof (skip_bound wset b k).
  pose proof len_s0. lia.
Qed.

Lemma skip_c_head rest p : skip_ws_from wset (c ++ rest) p = p.
Proof. destruct Hc0 as (c0 & ct & -> & Hc). simpl. unfold inw in Hc. rewrite Hc. reflexivity. Qed.

(* from the end of the inserted comment, skipping reaches the image of where skipping from k ends *)
Lemma skA : sks' (qc + length c) = ph (sks k).
Proof.
  unfold sk. rewrite skipn_s0_k.
  assert (E : skipn (qc + length c) s1 = w2 ++ b).
  { unfold qc, ins. rewrite skipn_app_ge by (fold k; lia). fold k.
    replace (k + length w1 + length c - k) with (length w1 + length c) by lia.
    rewrite <- app_assoc. rewrite skipn_app_ge by lia.
    replace (length w1 + length c - length w1) with (length c) by lia.
    rewrite <- app_assoc. rewrite skipn_app_ge by lia. rewrite Nat.sub_diag. reflexivity. }
  rewrite E, skip_app. unfold subset_ws in Hw2. rewrite Hw2.
  replace (qc + length c + length w2) with (k + n) by (unfold qc; rewrite len_ins; lia).
  rewrite skip_offset. unfold phi. fold k n. pose proof (skip_le wset b k).
  destruct (Nat.ltb_spec (skip_ws_from wset b k) k); lia.
Qed.

(* skipping from related positions: aligned, or the mutated run stands at the inserted comment *)
Lemma skip_c p p' : Rpc p p' ->
  (sks' p' = ph (sks p) /\ sks p <= length s0) \/ (sks' p' = qc /\ sks p = sks k).
Proof.
  intros [Hlen H]. pose proof len_s0 as Ls.
  assert (Hb : sks p <= length s0).
  { unfold sk. pose proof (skip_bound wset (skipn p s0) p) as Hb. rewrite skipn_length in Hb. lia. }
  assert (HA : forall p0, p0 <= k -> forallb (inw wset) (skipn p0 a) = true ->
               sk s1 wset p0 = qc /\ sk s0 wset p0 = sks k).
  { intros p0 Hp0 Hall. unfold sk. rewrite skipn_s0_k.
    rewrite !skipn_app_le by (fold k; lia).
    rewrite (skip_app wset (skipn p0 a) b), (skip_app wset (skipn p0 a) (ins ++ b)), Hall.
    rewrite skipn_length. fold k. replace (p0 + (k - p0)) with k by lia.
    split; [|reflexivity]. unfold ins. rewrite <- !app_assoc. rewrite skip_app.
    unfold subset_ws in Hw1. rewrite Hw1. rewrite skip_c_head. reflexivity. }
  destruct H as [[Hlt ->] | [[-> [-> | ->]] | [Hgt ->]]].
  - destruct (forallb (inw wset) (skipn p a)) eqn:Ea.
    + right. apply HA; [lia | exact Ea].
    + left. split; [|exact Hb]. unfold sk. rewrite !skipn_app_le by (fold k; lia).
      rewrite (skip_app wset (skipn p a) b), (skip_app wset (skipn p a) (ins ++ b)), Ea.
      pose proof (skip_partial_lt wset (skipn p a) p Ea) as Hl. rewrite skipn_length in Hl. fold k in Hl.
      unfold phi. fold k. destruct (Nat.ltb_spec (skip_ws_from wset (skipn p a) p) k); lia.
  - right. apply HA; [lia|]. unfold k. rewrite skipn_all. reflexivity.
  - left. split; [|exact Hb]. unfold sk at 1.
    assert (E : skipn (k + n) s1 = b).
    { rewrite skipn_app_ge by (fold k; lia). fold k. rewrite skipn_app_ge by (fold n; lia). fold n.
      replace (k + n - k - n) with 0 by lia. reflexivity. }
    rewrite E. unfold sk. rewrite skipn_s0_k. rewrite skip_offset. unfold phi. fold k n.
    pose proof (skip_le wset b k). destruct (Nat.ltb_spec (skip_ws_from wset b k) k); lia.
  - left. split; [|exact Hb]. unfold sk.
    assert (E1 : skipn p s0 = skipn (p - k) b) by (apply skipn_app_ge; fold k; lia).
    assert (E2 : skipn (p + n) s1 = skipn (p - k) b).
    { rewrite skipn_app_ge by (fold k; lia). fold k. rewrite skipn_app_ge by (fold n; lia). fold n. f_equal. lia. }
    rewrite E1, E2, skip_offset. unfold phi. fold k n. pose proof (skip_le wset (skipn (p - k) b) p).
    destruct (Nat.ltb_spec (skip_ws_from wset (skipn (p - k) b) p) k); lia.
Qed.

(* the comment loops of the two runs end at corresponding positions *)
Lemma CL_sim q e : CLs q e -> q <= length s0 ->
  forall e', CLs' (ph q) e' -> e' = ph e /\ e <= length s0.
Proof.
  induction 1 as [q EO | q len e EO HC IH]; intros Hq e' HC'.
  - destruct (oc_spec q Hq) as [Eq _]. rewrite EO in Eq.
    inversion HC' as [q0 EO' | q0 len' e0 EO' HC0]; subst; [split; [reflexivity | exact Hq]|].
    rewrite Eq in EO'. discriminate.
  - destruct (oc_spec q Hq) as [Eq Hlen]. rewrite EO in Eq. destruct (Hlen _ EO) as [L1 L2].
    inversion HC' as [q0 EO' | q0 len' e0 EO' HC0]; subst; [rewrite Eq in EO'; discriminate|].
    rewrite Eq in EO'. injection EO' as <-.
    destruct (skip_c (q + S len) (ph q + S len) (Rpc_advance q (S len) Hq L1 L2)) as [[E Hb] | [E E2]].
    + rewrite E in HC0. apply IH; assumption.
    + rewrite E in HC0.
      inversion HC0 as [q1 EO1 | q1 len1 e1 EO1 HC1]; subst; [fold qc in EO1; rewrite Hoc in EO1; discriminate|].
      fold qc in EO1. rewrite Hoc in EO1. injection EO1 as E3. rewrite <- E3 in HC1.
      rewrite skA in HC1. rewrite <- E2 in HC1. apply IH; [|exact HC1].
      rewrite E2. apply sks_k_ge.
Qed.


(* ---------------------------------------------------------------- states and outcomes *)
Notation CIs := (CI s0 orc wset oc).
Notation CIs' := (CI s1 orc' wset oc).
Definition Rstc (x x' : st) : Prop := Rpc (pos x) (pos x') /\ CIs x /\ CIs' x'.

Lemma Rstc_set_pos p p' x x' : Rpc p p' -> Rstc x x' -> Rstc (set_pos p x) (set_pos p' x').
Proof.
  intros Hp (_ & H1 & H2). split; [exact Hp|].
  split; [eapply CI_ext; [apply scf_set_pos | exact H1] | eapply CI_ext; [apply scf_set_pos | exact H2]].
Qed.

Lemma Rstc_reg_fail p p' x x' : Rstc x x' -> Rstc (reg_fail p x) (reg_fail p' x').
Proof.
  intros (Hp & H1 & H2). split; [rewrite !pos_reg_fail; exact Hp|].
  split; [eapply CI_ext; [apply scf_reg_fail | exact H1] | eapply CI_ext; [apply scf_reg_fail | exact H2]].
Qed.

Definition is_abort (o : out) : bool := match o with Abort _ => true | _ => false end.

Definition strict (o o' : out) : Prop :=
  match o, o' with
  | Ok r x, Ok r' x' => r' = sh r /\ Rstc x x'
  | Fail x, Fail x' => Rstc x x'
  | _, _ => False
  end.

(* simulation up to aborts: nothing is claimed when either run runs out of fuel (the mutated run
   needs one more iteration of the comment loop) *)
Definition simc (o o' : out) : Prop := is_abort o = true \/ is_abort o' = true \/ strict o o'.

Lemma simc_inv o o' : simc o o' ->
  match o, o' with
  | Abort _, _ => True
  | _, Abort _ => True
  | Ok r x, Ok r' x' => r' = sh r /\ Rstc x x'
  | Fail x, Fail x' => Rstc x x'
  | _, _ => False
  end.
Proof. intros [H|[H|H]]; destruct o, o'; simpl in *; try discriminate; try exact I; try exact H; try contradiction. Qed.

Lemma simc_ok r x x' : Rstc x x' -> simc (Ok r x) (Ok (sh r) x').
Proof. intro H. right; right. split; [reflexivity | exact H]. Qed.
Lemma simc_ok' r r' x x' : r' = sh r -> Rstc x x' -> simc (Ok r x) (Ok r' x').
Proof. intros -> H. apply simc_ok, H. Qed.
Lemma simc_fail x x' : Rstc x x' -> simc (Fail x) (Fail x').
Proof. intro H. right; right. exact H. Qed.
Lemma simc_abl w o : simc (Abort w) o.
Proof. left; reflexivity. Qed.
Lemma simc_abr w o : simc o (Abort w).
Proof. right; left; reflexivity. Qed.

Ltac inv_sim Hs := apply simc_inv in Hs; simpl in Hs; try contradiction; try apply simc_abl; try apply simc_abr.

Notation parser := (nat -> bool -> st -> out) (only parsing).
Definition Wc (rec rec' : parser) : Prop :=
  forall nid psq x x', Rstc x x' -> simc (rec nid psq x) (rec' nid psq x').

(* ---------------------------------------------------------------- pre-terminal phase *)
Definition simpre (o o' : out) : Prop :=
  is_abort o = true \/ is_abort o' = true \/
  match o, o' with
  | Ok _ x, Ok _ x' => Rstc x x' /\ pos x' = ph (pos x) /\ pos x <= length s0
  | _, _ => False
  end.

Lemma match_pre_simc f x x' : Rstc x x' ->
  simpre (match_pre g s0 (parse g s0 orc false f) f x) (match_pre g s1 (parse g s1 orc' false f) f x').
Proof.
  intros (Hp & H1 & H2).
  pose proof (match_pre_CL g s0 orc wset cm oc ndc Hcm Hnd Hkd f x H1) as A.
  pose proof (match_pre_CL g s1 orc' wset cm oc ndc Hcm Hnd Hkd f x' H2) as B.
  destruct (match_pre g s0 (parse g s0 orc false f) f x) as [r y|y|w]; [|contradiction|left; reflexivity].
  destruct (match_pre g s1 (parse g s1 orc' false f) f x') as [r' y'|y'|w']; [|contradiction|right; left; reflexivity].
  destruct A as (_ & CA & IA). destruct B as (_ & CB & IB). right; right.
  assert (E : pos y' = ph (pos y) /\ pos y <= length s0).
  { destruct (skip_c _ _ Hp) as [[E Hb] | [E E2]].
    - rewrite E in CB. exact (CL_sim _ _ CA Hb _ CB).
    - rewrite E in CB. rewrite E2 in CA.
      inversion CB as [q1 EO1 | q1 len1 e1 EO1 HC1]; subst; [fold qc in EO1; rewrite Hoc in EO1; discriminate|].
      fold qc in EO1. rewrite Hoc in EO1. injection EO1 as E3. rewrite <- E3 in HC1.
      rewrite skA in HC1. exact (CL_sim _ _ CA (proj2 sks_k_ge) _ HC1). }
  destruct E as [E Hb]. split; [|split; assumption].
  split; [rewrite E; apply Rpc_phi, Hb | split; assumption].
Qed.

(* ---------------------------------------------------------------- terminals *)
Lemma term_parse_simc nid kd psq x x' :
  tok a ins b orc orc' kd -> Rstc x x' -> pos x' = ph (pos x) -> pos x <= length s0 ->
  simc (term_parse s0 orc nid kd psq x) (term_parse s1 orc' nid kd psq x').
Proof.
  intros Ht HR HQb HQa.
  destruct (tok_spec a ins b orc orc' kd (pos x) Ht HQa) as [Heq Hlen]. rewrite <- HQb in Heq.
  assert (Hfail : simc (nm_raise (pos x) x) (nm_raise (pos x') x')).
  { unfold nm_raise. apply simc_fail, Rstc_reg_fail, HR. }
  assert (Hadv : forall len, tmatch s0 orc kd (pos x) = Some len ->
                 Rstc (set_pos (pos x + len) x) (set_pos (pos x' + len) x')).
  { intros len E. destruct (Hlen len E) as [L1 L2]. apply Rstc_set_pos; [|exact HR].
    rewrite HQb. apply Rpc_advance; assumption. }
  destruct kd as [| | | | | | | | | |t [o|]|o]; simpl; try apply simc_abl.
  - simpl in Heq.
    destruct (Nat.eqb (length s0) (pos x)); destruct (Nat.eqb (length s1) (pos x'));
      try discriminate; [|exact Hfail].
    apply simc_ok'; [simpl; rewrite HQb; reflexivity | exact HR].
  - simpl in Heq, Hadv.
    destruct (orc o (pos x)) as [l|]; destruct (orc' o (pos x')) as [l'|]; try discriminate; [|exact Hfail].
    apply simc_ok'; [simpl; rewrite HQb; reflexivity | apply Hadv; reflexivity].
  - simpl in Heq, Hadv.
    destruct (is_prefix t (skipn (pos x) s0)); destruct (is_prefix t (skipn (pos x') s1));
      try discriminate; [|exact Hfail].
    apply simc_ok'; [simpl; rewrite HQb; reflexivity | apply Hadv; reflexivity].
  - simpl in Heq, Hadv.
    destruct (orc o (pos x)) as [l|]; destruct (orc' o (pos x')) as [l'|]; try discriminate; [|exact Hfail].
    injection Heq as ->. destruct (Nat.eqb l 0).
    + apply simc_ok'; [reflexivity | exact HR].
    + apply simc_ok'; [simpl; rewrite HQb; reflexivity | apply Hadv; reflexivity].
Qed.

(* ---------------------------------------------------------------- loops over children *)
Lemma seq_loop_simc rec rec' psq : Wc rec rec' -> forall kids acc x x',
  Rstc x x' -> simc (seq_loop rec psq kids acc x) (seq_loop rec' psq kids (map sh acc) x').
Proof.
  intros HW kids; induction kids as [|c0 kids IH]; intros acc x x' HR; simpl.
  - apply (simc_ok (RList acc)), HR.
  - pose proof (HW c0 psq x x' HR) as Hs.
    destruct (rec c0 psq x) as [r x1|x1|w]; destruct (rec' c0 psq x') as [r' x1'|x1'|w']; inv_sim Hs.
    + destruct Hs as [-> HR1]. rewrite truthy_sh. destruct (truthy r).
      * specialize (IH (acc ++ [r]) x1 x1' HR1). rewrite map_app in IH. exact IH.
      * apply IH, HR1.
    + apply simc_fail, Hs.
Qed.

Lemma choice_loop_simc rec rec' : Wc rec rec' -> forall kids cp cp' x x',
  Rpc cp cp' -> Rstc x x' -> simc (choice_loop rec cp kids x) (choice_loop rec' cp' kids x').
Proof.
  intros HW kids; induction kids as [|c0 kids IH]; intros cp cp' x x' Hcp HR; simpl.
  - apply (simc_ok RNone), HR.
  - pose proof (HW c0 false x x' HR) as Hs.
    destruct (rec c0 false x) as [r x1|x1|w]; destruct (rec' c0 false x') as [r' x1'|x1'|w']; inv_sim Hs.
    + destruct Hs as [-> HR1]. rewrite is_none_sh. destruct (is_none r).
      * apply IH; assumption.
      * apply simc_ok, HR1.
    + apply IH; [exact Hcp|]. apply Rstc_set_pos; [exact Hcp | exact Hs].
Qed.

Lemma rep_loop_simc rec rec' e sep plus : Wc rec rec' -> forall kf first acc x x',
  Rstc x x' ->
  simc (rep_loop rec e sep plus kf first acc x) (rep_loop rec' e sep plus kf first (map sh acc) x').
Proof.
  intros HW kf; induction kf as [|kf IH]; intros first acc x x' HR; simpl; [apply simc_abl|].
  pose proof HR as [Hp _].
  assert (Helem : forall acc1 y y', Rstc y y' ->
    simc
      (match rec e false y with
       | Ok r y2 => if truthy r then rep_loop rec e sep plus kf false (acc1 ++ [r]) y2 else Ok (RList acc1) y2
       | Fail y2 => if (plus && first)%bool then Fail (set_pos (pos x) y2) else Ok (RList acc1) (set_pos (pos x) y2)
       | Abort w => Abort w
       end)
      (match rec' e false y' with
       | Ok r y2 => if truthy r then rep_loop rec' e sep plus kf false (map sh acc1 ++ [r]) y2 else Ok (RList (map sh acc1)) y2
       | Fail y2 => if (plus && first)%bool then Fail (set_pos (pos x') y2) else Ok (RList (map sh acc1)) (set_pos (pos x') y2)
       | Abort w => Abort w
       end)).
  { intros acc1 y y' HRy. pose proof (HW e false y y' HRy) as Hs.
    destruct (rec e false y) as [r y1|y1|w]; destruct (rec' e false y') as [r' y1'|y1'|w']; inv_sim Hs.
    - destruct Hs as [-> HR1]. rewrite truthy_sh. destruct (truthy r).
      + specialize (IH false (acc1 ++ [r]) y1 y1' HR1). rewrite map_app in IH. exact IH.
      + apply (simc_ok (RList acc1)), HR1.
    - assert (HR2 : Rstc (set_pos (pos x) y1) (set_pos (pos x') y1')) by (apply Rstc_set_pos; assumption).
      destruct (plus && first)%bool; [apply simc_fail, HR2 | apply (simc_ok (RList acc1)), HR2]. }
  destruct sep as [sp|]; [destruct first|]; try (apply Helem; exact HR).
  pose proof (HW sp false x x' HR) as Hs.
  destruct (rec sp false x) as [r x1|x1|w]; destruct (rec' sp false x') as [r' x1'|x1'|w']; inv_sim Hs.
  - destruct Hs as [-> HR1]. rewrite truthy_sh.
    replace (if truthy r then map sh acc ++ [sh r] else map sh acc)
      with (map sh (if truthy r then acc ++ [r] else acc)) by (destruct (truthy r); [apply map_app | reflexivity]).
    apply Helem, HR1.
  - assert (HR2 : Rstc (set_pos (pos x) x1) (set_pos (pos x') x1')) by (apply Rstc_set_pos; assumption).
    rewrite andb_false_r. apply (simc_ok (RList acc)), HR2.
Qed.

(* ---------------------------------------------------------------- unordered group *)
Definition ugr_abort (o : ugr) : bool := match o with UGAbort _ => true | _ => false end.
Definition simc_ugr (o o' : ugr) : Prop :=
  ugr_abort o = true \/ ugr_abort o' = true \/
  match o, o' with
  | UGHit e r x, UGHit e' r' x' => e' = e /\ r' = sh r /\ Rstc x x'
  | UGNone mt x, UGNone mt' x' => mt' = mt /\ Rstc x x'
  | _, _ => False
  end.

Lemma simc_ugr_inv o o' : simc_ugr o o' ->
  match o, o' with
  | UGAbort _, _ => True
  | _, UGAbort _ => True
  | UGHit e r x, UGHit e' r' x' => e' = e /\ r' = sh r /\ Rstc x x'
  | UGNone mt x, UGNone mt' x' => mt' = mt /\ Rstc x x'
  | _, _ => False
  end.
Proof. intros [H|[H|H]]; destruct o, o'; simpl in *; try discriminate; try exact I; try exact H; try contradiction. Qed.

Lemma ug_try_simc rec rec' sf : Wc rec rec' -> forall todo cl cl' mt x x',
  Rpc cl cl' -> Rstc x x' -> simc_ugr (ug_try rec sf cl todo mt x) (ug_try rec' sf cl' todo mt x').
Proof.
  intros HW todo; induction todo as [|e rest IH]; intros cl cl' mt x x' Hcl HR; simpl.
  - right; right. split; [reflexivity | exact HR].
  - pose proof (HW e false x x' HR) as Hs.
    destruct (rec e false x) as [r x1|x1|w]; destruct (rec' e false x') as [r' x1'|x1'|w'];
      apply simc_inv in Hs; simpl in Hs; try contradiction;
      try (left; reflexivity); try (right; left; reflexivity).
    + destruct Hs as [-> HR1]. rewrite truthy_sh. destruct (truthy r).
      * destruct sf.
        -- apply IH; [exact Hcl|]. apply Rstc_set_pos; assumption.
        -- right; right. split; [reflexivity | split; [reflexivity | exact HR1]].
      * apply IH; assumption.
    + apply IH; [exact Hcl|]. apply Rstc_set_pos; assumption.
Qed.

Definition ugo_abort (o : ugo) : bool := match o with UGOAbort _ => true | _ => false end.
Definition simc_ugo (o o' : ugo) : Prop :=
  ugo_abort o = true \/ ugo_abort o' = true \/
  match o, o' with
  | UGDone mt acc x, UGDone mt' acc' x' => mt' = mt /\ acc' = map sh acc /\ Rstc x x'
  | _, _ => False
  end.

Lemma simc_ugo_inv o o' : simc_ugo o o' ->
  match o, o' with
  | UGOAbort _, _ => True
  | _, UGOAbort _ => True
  | UGDone mt acc x, UGDone mt' acc' x' => mt' = mt /\ acc' = map sh acc /\ Rstc x x'
  end.
Proof. intros [H|[H|H]]; destruct o, o'; simpl in *; try discriminate; try exact I; try exact H; try contradiction. Qed.

Lemma ug_loop_simc rec rec' sep : Wc rec rec' -> forall nf todo first sr acc x x',
  Rstc x x' ->
  simc_ugo (ug_loop rec sep nf todo first sr acc x) (ug_loop rec' sep nf todo first (sh sr) (map sh acc) x').
Proof.
  intros HW nf; induction nf as [|nf IH]; intros todo first sr acc x x' HR;
    destruct todo as [|t0 todo0];
    try (simpl; right; right; split; [reflexivity | split; [reflexivity | exact HR]]);
    [left; reflexivity|].
  cbn [ug_loop]. set (todo := t0 :: todo0) in *. pose proof HR as [Hp _].
  assert (Hcont : forall sf sr1 y y', Rstc y y' ->
    simc_ugo
      (match ug_try rec sf (pos y) todo true y with
       | UGHit e r y2 => ug_loop rec sep nf (remove_first e todo) false sr1
                                 ((if truthy sr1 then acc ++ [sr1] else acc) ++ [r]) y2
       | UGNone mt y2 => UGDone mt acc (set_pos (pos x) y2)
       | UGAbort w => UGOAbort w
       end)
      (match ug_try rec' sf (pos y') todo true y' with
       | UGHit e r y2 => ug_loop rec' sep nf (remove_first e todo) false (sh sr1)
                                 ((if truthy (sh sr1) then map sh acc ++ [sh sr1] else map sh acc) ++ [r]) y2
       | UGNone mt y2 => UGDone mt (map sh acc) (set_pos (pos x') y2)
       | UGAbort w => UGOAbort w
       end)).
  { intros sf sr1 y y' HRy.
    pose proof (ug_try_simc rec rec' sf HW todo (pos y) (pos y') true y y' (proj1 HRy) HRy) as Hs.
    destruct (ug_try rec sf (pos y) todo true y) as [e r y1|mt y1|w];
      destruct (ug_try rec' sf (pos y') todo true y') as [e' r' y1'|mt' y1'|w'];
      apply simc_ugr_inv in Hs; simpl in Hs; try contradiction;
      try (left; reflexivity); try (right; left; reflexivity).
    - destruct Hs as (-> & -> & HR1). rewrite truthy_sh.
      specialize (IH (remove_first e todo) false sr1 ((if truthy sr1 then acc ++ [sr1] else acc) ++ [r]) y1 y1' HR1).
      rewrite map_app in IH. simpl map in IH.
      replace (map sh (if truthy sr1 then acc ++ [sr1] else acc))
        with (if truthy sr1 then map sh acc ++ [sh sr1] else map sh acc) in IH
        by (destruct (truthy sr1); [rewrite map_app; reflexivity | reflexivity]).
      exact IH.
    - destruct Hs as [-> HR1]. right; right. split; [reflexivity | split; [reflexivity|]].
      apply Rstc_set_pos; assumption. }
  destruct sep as [sp|]; [destruct first|]; try (apply Hcont; exact HR).
  pose proof (HW sp false x x' HR) as Hs.
  destruct (rec sp false x) as [r x1|x1|w]; destruct (rec' sp false x') as [r' x1'|x1'|w'];
    apply simc_inv in Hs; simpl in Hs; try contradiction;
    try (left; reflexivity); try (right; left; reflexivity).
  - destruct Hs as [-> HR1]. apply Hcont, HR1.
  - apply Hcont. apply Rstc_set_pos; assumption.
Qed.


(* ---------------------------------------------------------------- _parse of non-terminals *)
Lemma free_spec nd : node_mode_free nd = true -> n_ws nd = None /\ n_skipws nd = None /\ n_eolterm nd = false.
Proof.
  unfold node_mode_free. destruct (n_ws nd); [discriminate|]. destruct (n_skipws nd); [discriminate|].
  intro H. apply negb_true_iff in H. auto.
Qed.

Lemma body_simc rec rec' kf nd : Wc rec rec' -> node_mode_free nd = true -> forall x x',
  Rstc x x' -> simc (body rec kf nd x) (body rec' kf nd x').
Proof.
  intros HW Hn x x' HR. pose proof HR as [Hp _]. destruct (free_spec nd Hn) as (F1 & F2 & F3).
  unfold body, enter_ws, leave_ws, enter_eol, leave_eol. rewrite F1, F2, F3.
  destruct (n_kind nd) eqn:EK; try apply simc_abl.
  - (* Sequence *)
    pose proof (seq_loop_simc rec rec' true HW (n_kids nd) [] _ _ HR) as Hs. simpl map in Hs.
    destruct (seq_loop rec true (n_kids nd) [] x) as [r x1|x1|w];
      destruct (seq_loop rec' true (n_kids nd) [] x') as [r' x1'|x1'|w']; inv_sim Hs.
    + destruct Hs as [-> HR1].
      destruct r as [|t|[|r0 l]]; simpl; (apply simc_ok'; [reflexivity | exact HR1]).
    + apply simc_fail. apply Rstc_set_pos; assumption.
  - (* OrderedChoice *)
    pose proof (choice_loop_simc rec rec' HW (n_kids nd) (pos x) (pos x') _ _ Hp HR) as Hs.
    destruct (choice_loop rec (pos x) (n_kids nd) x) as [r x1|x1|w];
      destruct (choice_loop rec' (pos x') (n_kids nd) x') as [r' x1'|x1'|w']; inv_sim Hs.
    + destruct Hs as [-> HR1]. rewrite is_none_sh. destruct (is_none r).
      * unfold nm_raise. apply simc_fail, Rstc_reg_fail, HR1.
      * apply (simc_ok (RList [r])), HR1.
    + apply simc_fail, Hs.
  - (* Optional *)
    destruct (n_kids nd) as [|e kids]; [apply simc_abl|].
    pose proof (HW e false x x' HR) as Hs.
    destruct (rec e false x) as [r x1|x1|w]; destruct (rec' e false x') as [r' x1'|x1'|w']; inv_sim Hs.
    + destruct Hs as [-> HR1]. apply (simc_ok (RList [r])), HR1.
    + apply (simc_ok RNone). apply Rstc_set_pos; assumption.
  - (* ZeroOrMore *)
    destruct (n_kids nd) as [|e kids]; [apply simc_abl|].
    pose proof (rep_loop_simc rec rec' e (n_sep nd) false HW kf true [] _ _ HR) as Hs. simpl map in Hs.
    destruct (rep_loop rec e (n_sep nd) false kf true [] x) as [r x1|x1|w];
      destruct (rep_loop rec' e (n_sep nd) false kf true [] x') as [r' x1'|x1'|w']; inv_sim Hs.
    + destruct Hs as [-> HR1]. apply simc_ok, HR1.
    + apply simc_fail, Hs.
  - (* OneOrMore *)
    destruct (n_kids nd) as [|e kids]; [apply simc_abl|].
    pose proof (rep_loop_simc rec rec' e (n_sep nd) true HW kf true [] _ _ HR) as Hs. simpl map in Hs.
    destruct (rep_loop rec e (n_sep nd) true kf true [] x) as [r x1|x1|w];
      destruct (rep_loop rec' e (n_sep nd) true kf true [] x') as [r' x1'|x1'|w']; inv_sim Hs.
    + destruct Hs as [-> HR1]. apply simc_ok, HR1.
    + apply simc_fail, Hs.
  - (* UnorderedGroup *)
    destruct (n_kids nd) as [|e0 kids0] eqn:EKids; [apply simc_abl|]. rewrite <- EKids.
    pose proof (ug_loop_simc rec rec' (n_sep nd) HW (S (length (n_kids nd))) (n_kids nd) true RNone [] _ _ HR) as Hs.
    simpl map in Hs. simpl shift_res in Hs.
    destruct (ug_loop rec (n_sep nd) (S (length (n_kids nd))) (n_kids nd) true RNone [] x) as [mt acc x1|w];
      destruct (ug_loop rec' (n_sep nd) (S (length (n_kids nd))) (n_kids nd) true RNone [] x') as [mt' acc' x1'|w'];
      apply simc_ugo_inv in Hs; simpl in Hs; try apply simc_abl; try apply simc_abr.
    destruct Hs as (-> & -> & HR1). destruct mt.
    + apply simc_ok'; [destruct acc; reflexivity | exact HR1].
    + unfold nm_raise. apply simc_fail, Rstc_reg_fail. apply Rstc_set_pos; assumption.
  - (* And *)
    pose proof (seq_loop_simc rec rec' false HW (n_kids nd) [] _ _ HR) as Hs. simpl map in Hs.
    destruct (seq_loop rec false (n_kids nd) [] x) as [r x1|x1|w];
      destruct (seq_loop rec' false (n_kids nd) [] x') as [r' x1'|x1'|w']; inv_sim Hs.
    + apply (simc_ok RNone). apply Rstc_set_pos; [exact Hp | apply Hs].
    + apply simc_fail. apply Rstc_set_pos; assumption.
  - (* Not *)
    pose proof (seq_loop_simc rec rec' false HW (n_kids nd) [] _ _ HR) as Hs. simpl map in Hs.
    destruct (seq_loop rec false (n_kids nd) [] x) as [r x1|x1|w];
      destruct (seq_loop rec' false (n_kids nd) [] x') as [r' x1'|x1'|w']; inv_sim Hs.
    + unfold nm_raise. apply simc_fail, Rstc_reg_fail. apply Rstc_set_pos; [exact Hp | apply Hs].
    + apply (simc_ok RNone). apply Rstc_set_pos; assumption.
  - (* Empty *)
    apply (simc_ok RNone), HR.
Qed.

(* ---------------------------------------------------------------- parse() *)
Lemma parse_simc : forall fuel, Wc (parse g s0 orc false fuel) (parse g s1 orc' false fuel).
Proof.
  intro fuel; induction fuel as [|f IH]; intros nid psq x x' HR; simpl; [apply simc_abl|].
  destruct (get_node g nid) as [nd|] eqn:EN; [|apply simc_abl].
  assert (Hin : In nd (g_nodes g)) by (unfold get_node in EN; eapply nth_error_In; exact EN).
  destruct (is_match_kind (n_kind nd)) eqn:EM.
  - pose proof (match_pre_simc f x x' HR) as Hs.
    destruct (match_pre g s0 (parse g s0 orc false f) f x) as [r0 x1|x1|w];
      destruct (match_pre g s1 (parse g s1 orc' false f) f x') as [r0' x1'|x1'|w'];
      try apply simc_abl; try apply simc_abr;
      (destruct Hs as [Hs|[Hs|Hs]]; simpl in Hs; try discriminate; try contradiction).
    destruct Hs as (HR1 & HQb & HQa).
    pose proof (term_parse_simc nid (n_kind nd) psq x1 x1' (Htok nd Hin EM) HR1 HQb HQa) as Hs2.
    destruct (term_parse s0 orc nid (n_kind nd) psq x1) as [r x2|x2|w];
      destruct (term_parse s1 orc' nid (n_kind nd) psq x1') as [r' x2'|x2'|w']; inv_sim Hs2.
    + destruct Hs2 as [-> HR2]. apply simc_ok'; [destruct (n_suppress nd); reflexivity | exact HR2].
    + apply simc_fail, Hs2.
  - pose proof (body_simc (parse g s0 orc false f) (parse g s1 orc' false f) f nd IH (Hfree nd Hin) x x' HR) as Hs.
    destruct (body (parse g s0 orc false f) f nd x) as [r x1|x1|w];
      destruct (body (parse g s1 orc' false f) f nd x') as [r' x1'|x1'|w']; inv_sim Hs.
    + destruct Hs as [-> HR1]. apply simc_ok'; [apply post_sh | exact HR1].
    + apply simc_fail. apply Rstc_set_pos; [apply HR | exact Hs].
Qed.

End Bin.

(* ================================================================ the theorem *)
Lemma cmt_oid_spec g oc : cmt_oid g = Some oc ->
  exists cm ndc, g_comments g = Some cm /\ get_node g cm = Some ndc /\ n_kind ndc = KRegex oc.
Proof.
  unfold cmt_oid. destruct (g_comments g) as [cm|]; [|discriminate].
  destruct (get_node g cm) as [ndc|] eqn:E; [|discriminate].
  destruct (n_kind ndc) eqn:K; try discriminate. intro H; injection H as ->. eauto.
Qed.

Theorem comment_insert_invariant g cfg orc orc' fuel a w1 c w2 b :
  cmt_wf g cfg = true ->
  cmt_ins_okb g cfg orc' a w1 c w2 = true ->
  shift_okb g (a ++ b) orc (a ++ (w1 ++ c ++ w2) ++ b) orc' (length a) (length (w1 ++ c ++ w2)) = true ->
  not_aborted (run g cfg orc false fuel (a ++ b)) ->
  not_aborted (run g cfg orc' false fuel (a ++ (w1 ++ c ++ w2) ++ b)) ->
  outcome_shifted (length a) (length (w1 ++ c ++ w2))
                  (run g cfg orc false fuel (a ++ b)) (run g cfg orc' false fuel (a ++ (w1 ++ c ++ w2) ++ b)).
Proof.
  intros Hwf Hins Hok Hna Hna'.
  unfold cmt_wf in Hwf. apply andb_true_iff in Hwf as [Hwf Hoid]. apply andb_true_iff in Hwf as [Hsk Hfree].
  destruct (cmt_oid g) as [oc|] eqn:EO; [|discriminate].
  destruct (cmt_oid_spec g oc EO) as (cm & ndc & Hcm & Hnd & Hkd).
  unfold cmt_ins_okb in Hins. rewrite EO in Hins.
  apply andb_true_iff in Hins as [Hins Hoc]. apply andb_true_iff in Hins as [Hins Hc0].
  apply andb_true_iff in Hins as [Hw1 Hw2]. apply opt_nat_eqb_eq in Hoc.
  assert (Hc0' : exists c0 ct, c = c0 :: ct /\ inw (c_ws cfg) c0 = false).
  { destruct c as [|c0 ct]; [discriminate|]. exists c0, ct. split; [reflexivity|]. apply negb_true_iff, Hc0. }
  rewrite forallb_forall in Hfree.
  assert (Htok : forall nd, In nd (g_nodes g) -> is_match_kind (n_kind nd) = true ->
                 tok a (w1 ++ c ++ w2) b orc orc' (n_kind nd)).
  { intros nd Hin EM. unfold shift_okb in Hok. rewrite forallb_forall in Hok. specialize (Hok nd Hin).
    rewrite EM in Hok. exact Hok. }
  pose proof (parse_simc g a w1 c w2 b orc orc' (c_ws cfg) cm oc ndc Hcm Hnd Hkd Hw1 Hw2 Hc0' Hoc Htok Hfree
                         fuel (g_top g) false (init_st cfg) (init_st cfg)) as Hsim.
  assert (HR : Rstc a w1 c w2 b orc orc' (c_ws cfg) oc (init_st cfg) (init_st cfg)).
  { unfold Rstc, CI, init_st; simpl. split.
    - unfold Rpc. split; [lia|]. destruct (length a); [right; left; lia | left; lia].
    - repeat split; try assumption; intros q e H; discriminate H. }
  specialize (Hsim HR). unfold run in *.
  destruct (parse g (a ++ b) orc false fuel (g_top g) false (init_st cfg)) as [r x1|x1|w];
    destruct (parse g (a ++ (w1 ++ c ++ w2) ++ b) orc' false fuel (g_top g) false (init_st cfg)) as [r' x1'|x1'|w'];
    simpl in Hna, Hna'; try contradiction;
    apply simc_inv in Hsim; simpl in Hsim; try contradiction; simpl.
  - apply Hsim.
  - exact I.
Qed.
