(* Positions of an ACCEPTED parse stay inside the text (when the regex oracle does), so the composed C33
   theorem needs no numeric bound on the node position.  Uses, read-only, the terminal invariant of
   Proofs/PegInv.v and the oracle hypothesis orc_sane of Proofs/PegTerm.v. *)
From TxV Require Import Core.Base Model.PegSyntax Model.Peg Model.Build Proofs.BuildProofs Proofs.BuildObjProofs.
From TxV Require Import Proofs.PegCongr Proofs.PegInv Proofs.PegTerm Proofs.PegErrPos.
From TxV Require Import Model.ErrLoc Gen.SrcLoc Proofs.ErrLocProofs Proofs.ErrLocSrcProofs Model.ErrLocLoad Proofs.ErrLocLoadProofs.
Require Import Lia.

(* a terminal is empty or lies inside the input *)
Definition inside (input : list N) (nid p len : nat) : bool := Nat.eqb len 0 || Nat.leb (p + len) (length input).

Lemma prefix_len : forall (t l : list N), is_prefix t l = true -> length t <= length l.
Proof.
  induction t as [|x t IH]; intros l E; cbn in *; [lia|].
  destruct l as [|y l]; [discriminate|]. apply andb_true_iff in E as [_ E]. cbn. specialize (IH l E). lia.
Qed.

Lemma term_inside : forall g input orc, orc_sane g input orc ->
  forall nid nd psq s r s', get_node g nid = Some nd ->
    term_parse input orc nid (n_kind nd) psq s = Ok r s' -> res_okb (inside input) r = true.
Proof.
  intros g input orc [S1 S2] nid nd psq s r s' Hn H. unfold term_parse in H. cbv zeta in H.
  destruct (n_kind nd) as [| | | | | | | | | |t oid|o] eqn:K; try discriminate.
  - (* EOF *)
    destruct (Nat.eqb (length input) (pos s)); [|discriminate]. inversion H; subst. reflexivity.
  - (* StrMatch *)
    destruct oid as [o|].
    + destruct (orc o (pos s)) as [x|] eqn:O; [|discriminate]. inversion H; subst.
      cbn. unfold inside. pose proof (S2 nid nd t o (pos s) x Hn K O) as B.
      apply orb_true_iff. right. apply Nat.leb_le. exact B.
    + destruct (is_prefix t (skipn (pos s) input)) eqn:P; [|discriminate]. inversion H; subst.
      cbn. unfold inside. apply prefix_len in P. rewrite skipn_length in P.
      destruct (length t) as [|k] eqn:L; [reflexivity|]. apply orb_true_iff. right. apply Nat.leb_le. lia.
  - (* RegExMatch *)
    destruct (orc o (pos s)) as [len|] eqn:O; [|discriminate].
    destruct (Nat.eqb len 0); inversion H; subst; [reflexivity|].
    cbn. unfold inside. apply orb_true_iff. right. apply Nat.leb_le. exact (S1 o (pos s) len O).
Qed.

Lemma subtrees_ok : forall pt t, tree_okb pt t = true -> forall x, In x (subtrees t) -> tree_okb pt x = true.
Proof.
  intros pt t. induction t as [nid p len sup | nid kids IH] using PegCongr.tree_ind2; intros H x Hin.
  - cbn in Hin. destruct Hin as [<-|[]]. exact H.
  - cbn [subtrees] in Hin. destruct Hin as [<-|Hin]; [exact H|].
    cbn [tree_okb] in H. induction IH as [|k l Hk Hl IHl]; [destruct Hin|].
    cbn [forallb] in H. apply andb_true_iff in H as [H1 H2].
    cbn [flat_map] in Hin. apply in_app_or in Hin as [Hin|Hin]; [exact (Hk H1 x Hin) | exact (IHl H2 Hin)].
Qed.

Lemma res_subtrees_ok : forall pt r, res_okb pt r = true -> forall x, In x (res_subtrees r) -> tree_okb pt x = true.
Proof.
  intros pt r. induction r as [| t | l IH] using PegCongr.res_ind2; intros H x Hin.
  - destruct Hin.
  - exact (subtrees_ok pt t H x Hin).
  - cbn [res_okb] in H. cbn [res_subtrees] in Hin.
    induction IH as [|k l Hk Hl IHl]; [destruct Hin|].
    cbn [forallb] in H. apply andb_true_iff in H as [H1 H2].
    cbn [flat_map] in Hin. apply in_app_or in Hin as [Hin|Hin]; [exact (Hk H1 x Hin) | exact (IHl H2 Hin)].
Qed.

Lemma wf_inside_tpos : forall input t, tree_okb (inside input) t = true -> wf_tree t = true -> tpos t <= length input.
Proof.
  intros input t. induction t as [nid p len sup | nid kids IH] using PegCongr.tree_ind2; intros H W.
  - cbn [tree_okb wf_tree tpos] in *. unfold inside in H. destruct len as [|k]; [cbn in W; discriminate|].
    apply orb_true_iff in H as [H|H]; [cbn in H; discriminate|].
    apply Nat.leb_le in H. lia.
  - destruct kids as [|k r]; [cbn in W; discriminate|].
    cbn [tpos]. cbn [tree_okb forallb] in H. apply andb_true_iff in H as [H1 _].
    cbn [wf_tree forallb] in W. apply andb_true_iff in W as [W _]. apply andb_true_iff in W as [_ W].
    apply andb_true_iff in W as [W1 _]. inversion IH as [|? ? Hk _]; subst. exact (Hk H1 W1).
Qed.

(* every well-formed node of an accepted parse starts inside the text *)
Theorem parsed_node_in_text : forall g c orc memo fuel input r t,
  orc_sane g input orc -> Peg.run g c orc memo fuel input = Parsed r ->
  In t (res_subtrees r) -> wf_tree t = true -> tpos t <= length input.
Proof.
  intros g c orc memo fuel input r t S R Hin W.
  pose proof (run_ok (inside input) g input orc memo (term_inside g input orc S) c fuel r R) as Ok.
  exact (wf_inside_tpos input t (res_subtrees_ok _ r Ok t Hin) W).
Qed.

(* C33, composed with parser AND builder, without a numeric bound *)
Theorem parsed_object_processor_error : forall g c orc memo fuel mm grp auto use_grp fs m r n kids top v top' wrapped err,
  orc_sane g (s_text (file_at fs m)) orc ->
  Peg.run g c orc memo fuel (s_text (file_at fs m)) = Parsed r ->
  In (NT n kids) (res_subtrees r) -> wf_tree (NT n kids) = true ->
  pnode g mm (s_text (file_at fs m)) grp auto use_grp (NT n kids) top = BOk (v, top') ->
  (exists cl a, info mm n = IRule RCommon cl a) ->
  process_built_node process_fills location_keys g mm grp auto use_grp fs m (NT n kids) top wrapped (RaisesTx err)
  = Some (Fails (completed err (obj_location fs m (tpos (NT n kids)) (tend (NT n kids))))).
Proof.
  intros g c orc memo fuel mm grp auto use_grp fs m r n kids top v top' w err S R Hin W H Hc.
  eapply built_object_processor_error; [exact H | exact Hc |].
  unfold in_text. exact (parsed_node_in_text g c orc memo fuel _ r _ S R Hin W).
Qed.

Theorem parsed_object_wrapped_exception : forall g c orc memo fuel mm grp auto use_grp fs m r n kids top v top',
  orc_sane g (s_text (file_at fs m)) orc ->
  Peg.run g c orc memo fuel (s_text (file_at fs m)) = Parsed r ->
  In (NT n kids) (res_subtrees r) -> wf_tree (NT n kids) = true ->
  pnode g mm (s_text (file_at fs m)) grp auto use_grp (NT n kids) top = BOk (v, top') ->
  (exists cl a, info mm n = IRule RCommon cl a) ->
  process_built_node process_fills location_keys g mm grp auto use_grp fs m (NT n kids) top true RaisesOther
  = Some (Fails (obj_location fs m (tpos (NT n kids)) (tend (NT n kids)))).
Proof.
  intros g c orc memo fuel mm grp auto use_grp fs m r n kids top v top' S R Hin W H Hc.
  eapply built_object_wrapped_exception; [exact H | exact Hc |].
  unfold in_text. exact (parsed_node_in_text g c orc memo fuel _ r _ S R Hin W).
Qed.

(* C28, composed with the parser, without a numeric bound: the interpreter's failure position lies inside
   the text (Proofs/PegErrPos.v run_syntaxerr_in_text), so the located error needs only orc_sane *)
Theorem load_syntax_error_sane : forall g c orc memo fuel fs m,
  orc_sane g (s_text (file_at fs m)) orc ->
  match Peg.run g c orc memo fuel (s_text (file_at fs m)) with
  | SyntaxErr p => load_syntax_error syntax_desc g c orc memo fuel fs m = Some (located_at fs m p)
  | _ => load_syntax_error syntax_desc g c orc memo fuel fs m = None
  end.
Proof.
  intros g c orc memo fuel fs m S.
  pose proof (load_syntax_error_spec g c orc memo fuel fs m) as H.
  destruct (Peg.run g c orc memo fuel (s_text (file_at fs m))) as [r|p|w] eqn:E; try exact H.
  apply H. unfold in_text. exact (run_syntaxerr_in_text g c orc memo fuel _ p S E).
Qed.
