(* C02 — the full object builder (Model/Build.v) stores, for every attribute, exactly the matched values. *)
From Coq Require Import Lia.
From TxV Require Import Core.Base Model.PegSyntax Model.Peg Model.Build Proofs.BuildProofs Model.MultBuild.
From TxV Require Model.MultBase Gen.SrcMult Model.Mult Model.MultPeg Proofs.MultProofs Proofs.MultFlowProofs.

(* ---------------------------------------------------------------- association lists *)
Lemma get_set_same a v l : get_val a (set_val a v l) = Some v.
Proof.
  induction l as [|[k w] l IH]; cbn [set_val get_val]; [rewrite str_eqb_refl; reflexivity|].
  destruct (str_eqb a k) eqn:E; cbn [get_val]; rewrite E; [reflexivity | exact IH].
Qed.

Lemma get_set_other a a' v l : str_eqb a a' = false -> get_val a' (set_val a v l) = get_val a' l.
Proof.
  intro Hne. induction l as [|[k w] l IH]; cbn [set_val get_val].
  - destruct (str_eqb a' a) eqn:E; [|reflexivity]. apply str_eqb_eq in E. subst a'. rewrite str_eqb_refl in Hne. discriminate.
  - destruct (str_eqb a k) eqn:E; cbn [get_val].
    + apply str_eqb_eq in E. subst k. destruct (str_eqb a' a) eqn:E2; [|reflexivity].
      apply str_eqb_eq in E2. subst a'. rewrite str_eqb_refl in Hne. discriminate.
    + destruct (str_eqb a' k); [reflexivity | exact IH].
Qed.

Lemma find_attr_name a l ma : find_attr a l = Some ma -> a_name ma = a.
Proof.
  induction l as [|x l IH]; cbn [find_attr]; [discriminate|].
  destruct (str_eqb a (a_name x)) eqn:E; [|exact IH]. intro H. inversion H; subst. apply str_eqb_eq in E. auto.
Qed.

Section Proj.
Variable g : grammar.
Variable mm : list ninfo.
Variable input : list N.
Variable grp : nat -> nat -> option (nat * nat).
Variable auto use_grp : bool.
Variable attr_id : list N -> nat.
Variable conv : tree -> Mult.sval.
Notation pn := (pnode g mm input grp auto use_grp).
Notation pure := (asg_placed mm false).
Notation vf := (vof g mm input grp auto use_grp).
Notation tn := (MultPeg.tree_nodes g mm attr_id conv).
Notation evs := (map (Mult.node_ev SrcMult.src_sep_mode)).
Notation tv := (tvals g mm input grp auto use_grp).
Notation kv := (kid_vals g mm input grp auto use_grp).

(* ---------------------------------------------------------------- pure trees *)
Definition indep (t : tree) : Prop :=
  forall top v top', pn t top = BOk (v, top') -> top' = top /\ forall top2, pn t top2 = BOk (v, top2).

Lemma first_nonmatch_indep kind_of l :
  Forall indep l ->
  forall top, (first_nonmatch pn kind_of l top = None -> forall top2, first_nonmatch pn kind_of l top2 = None)
  /\ (forall v top', first_nonmatch pn kind_of l top = Some (BOk (v, top')) ->
      top' = top /\ forall top2, first_nonmatch pn kind_of l top2 = Some (BOk (v, top2))).
Proof.
  induction 1 as [|x l Hx Hl IH]; intro top; cbn [first_nonmatch]; [split; [auto | discriminate]|].
  destruct x as [n p len s|xn ks]; [apply IH|].
  destruct (kind_of xn) as [[|]|]; [| apply IH | split; discriminate].
  split; [discriminate|]. intros v top' H. injection H as H. destruct (Hx _ _ _ H) as [E K].
  split; [exact E | intro top2; rewrite (K top2); reflexivity].
Qed.

Lemma first_nt_indep has_cls l :
  Forall indep l ->
  forall top, (first_nt pn has_cls l top = None -> forall top2, first_nt pn has_cls l top2 = None)
  /\ (forall v top', first_nt pn has_cls l top = Some (BOk (v, top')) ->
      top' = top /\ forall top2, first_nt pn has_cls l top2 = Some (BOk (v, top2))).
Proof.
  induction 1 as [|x l Hx Hl IH]; intro top; cbn [first_nt]; [split; [auto | discriminate]|].
  destruct x as [n p len s|xn ks]; [apply IH|].
  split; [discriminate|]. intros v top' H. destruct (has_cls xn); [|discriminate]. injection H as H.
  destruct (Hx _ _ _ H) as [E K]. split; [exact E | intro top2; rewrite (K top2); reflexivity].
Qed.

Definition not_asg (t : tree) : bool :=
  match t with NT nid _ => match info mm nid with IAsgn _ _ => false | _ => true end | T _ _ _ _ => true end.

Lemma placed_indep : forall t under, asg_placed mm under t = true -> not_asg t = true -> indep t.
Proof.
  induction t as [n p l s | n kids IH] using tree_ind2; intros under Hp Hna top v top' H.
  - cbn [pnode] in H |- *. destruct (term_value g mm input grp use_grp n p l) as [v0|e]; inversion H; subst.
    split; [reflexivity | intro top2; reflexivity].
  - cbn [asg_placed] in Hp. cbn [not_asg] in Hna. cbn [pnode] in H |- *. unfold info in *.
    destruct (nth n mm IOther) as [a op|k cls attrs|r gr|] eqn:Ei; try discriminate.
    destruct k.
    + destruct (each_loop pn kids _) as [[c1|]|e]; try discriminate.
      destruct (name_ok (c_vals c1)); [|discriminate]. destruct (many_ok (c_meta c1) (c_vals c1)); inversion H; subst.
      split; [reflexivity | intro top2; reflexivity].
    + assert (HF : Forall indep kids).
      { clear H. induction IH as [|x l Hx Hl IHl]; [constructor|]. cbn [forallb] in Hp. apply andb_true_iff in Hp as [P1 P2].
        constructor; [|apply IHl, P2]. apply (Hx false P1).
        destruct x as [|xn xk]; [reflexivity|]. cbn [asg_placed] in P1. cbn [not_asg]. unfold info.
        destruct (nth xn mm IOther); try reflexivity. discriminate. }
      destruct kids as [|k rest]; [discriminate|]. destruct rest as [|k2 rest].
      * inversion HF as [|? ? Hk _]; subst. apply (Hk _ _ _ H).
      * destruct (first_nonmatch_indep (nonmatch_class mm) (k :: k2 :: rest) HF top) as [N1 N2].
        destruct (first_nonmatch pn (nonmatch_class mm) (k :: k2 :: rest) top) as [r0|] eqn:E0.
        -- subst r0. destruct (N2 _ _ eq_refl) as [E K]. split; [exact E | intro top2; rewrite (K top2); reflexivity].
        -- destruct (first_nt_indep (has_class mm) (k :: k2 :: rest) HF top) as [M1 M2].
           destruct (first_nt pn (has_class mm) (k :: k2 :: rest) top) as [r1|] eqn:E1.
           ++ subst r1. destruct (M2 _ _ eq_refl) as [E K]. split; [exact E|]. intro top2.
              rewrite (N1 eq_refl top2), (K top2). reflexivity.
           ++ inversion H; subst. split; [reflexivity|]. intro top2. rewrite (N1 eq_refl top2), (M1 eq_refl top2). reflexivity.
    + destruct (pmatch g input (NT n kids)); inversion H; subst. split; [reflexivity | intro top2; reflexivity].
Qed.

Lemma pure_not_asg t : pure t = true -> not_asg t = true.
Proof.
  destruct t as [|n kids]; [reflexivity|]. cbn [asg_placed not_asg]. unfold info.
  destruct (nth n mm IOther); try reflexivity. discriminate.
Qed.

Lemma pure_indep t : pure t = true -> indep t.
Proof. intro H. exact (placed_indep t false H (pure_not_asg t H)). Qed.

Lemma pure_vof t top v top' : pure t = true -> pn t top = BOk (v, top') -> top' = top /\ vf t = v.
Proof.
  intros Hp H. destruct (pure_indep t Hp _ _ _ H) as [E K]. split; [exact E|]. unfold vof. rewrite (K None). reflexivity.
Qed.

(* ---------------------------------------------------------------- the list loop on pure children *)
Definition wrapc (refcls : option (list N)) (k : tree) (v : value) : value :=
  match refcls with Some cl => VRef v (tpos k) cl | None => v end.

Lemma lst_loop_pure nid a refcls : forall ks c l top',
  forallb pure ks = true -> get_val a (c_vals c) = Some (VList l) ->
  lst_loop pn (is_sep_of g nid) a refcls ks (Some c) = BOk top' ->
  exists c', top' = Some c' /\ c_meta c' = c_meta c
    /\ get_val a (c_vals c') = Some (VList (l ++ map (fun t => wrapc refcls t (vf t)) (filter (fun t => negb (is_sep_of g nid t)) ks)))
    /\ forall a', str_eqb a a' = false -> get_val a' (c_vals c') = get_val a' (c_vals c).
Proof.
  induction ks as [|k ks IH]; intros c l top' Hp Hg H; cbn [lst_loop] in H.
  - inversion H; subst. exists c. cbn [filter map]. rewrite app_nil_r. auto.
  - cbn [forallb] in Hp. apply andb_true_iff in Hp as [Pk Pks]. cbn [filter].
    destruct (is_sep_of g nid k) eqn:Es; cbn [negb]; [apply (IH _ _ _ Pks Hg H)|].
    destruct (pn k (Some c)) as [[v top1]|e] eqn:E; [|discriminate].
    destruct (pure_vof _ _ _ _ Pk E) as [-> Hv]. cbn zeta in H. rewrite Hg in H.
    fold (wrapc refcls k v) in H.
    assert (Hg2 : get_val a (c_vals (cur_set a (VList (l ++ [wrapc refcls k v])) c)) = Some (VList (l ++ [wrapc refcls k v])))
      by apply get_set_same.
    destruct (IH _ _ _ Pks Hg2 H) as [c' [-> [Hm [Hv' Ho]]]].
    exists c'. split; [reflexivity|]. split; [exact Hm|]. split.
    + rewrite Hv'. cbn [map]. rewrite <- app_assoc, Hv. reflexivity.
    + intros a' Hne. rewrite (Ho a' Hne). apply get_set_other, Hne.
Qed.

(* ---------------------------------------------------------------- events of a child of the rule's NonTerminal *)
Hypothesis Htab : asg_table_okb g mm = true.

Lemma asg_table nid a o : info mm nid = IAsgn a o ->
  exists nd op, get_node g nid = Some nd /\ MultPeg.asg_op o (n_kind nd) = Some op.
Proof.
  intro Hi. unfold asg_table_okb in Htab. rewrite forallb_forall in Htab.
  assert (Hlt : nid < length mm).
  { destruct (Nat.lt_ge_cases nid (length mm)) as [L|L]; [exact L|].
    unfold info in Hi. rewrite nth_overflow in Hi by exact L. discriminate. }
  specialize (Htab nid (proj2 (in_seq _ _ _) (conj (Nat.le_0_l _) Hlt))). rewrite Hi in Htab.
  destruct (get_node g nid) as [nd|]; [|discriminate].
  destruct (MultPeg.asg_op o (n_kind nd)) as [op|] eqn:E; [|discriminate]. eauto.
Qed.

Definition op_fits (o : aop) (op : MultBase.asgop) : Prop :=
  match o, op with
  | OpPlain, MultBase.OpPlain | OpOptional, MultBase.OpBool | OpList, MultBase.OpStar | OpList, MultBase.OpPlus => True
  | _, _ => False
  end.

Lemma asg_op_fits o k op : MultPeg.asg_op o k = Some op -> op_fits o op.
Proof. destruct o, k; cbn; intro H; inversion H; exact I. Qed.

(* the single event of an assignment child *)
Lemma asg_kid_event nid ks a o :
  info mm nid = IAsgn a o ->
  exists op vals, op_fits o op /\ evs (tn (NT nid ks)) = [Mult.Ev (attr_id a) op vals].
Proof.
  intro Hi. destruct (asg_table _ _ _ Hi) as [nd [op [Hn Ho]]].
  exists op. eexists. split; [eapply asg_op_fits, Ho|].
  cbn [MultPeg.tree_nodes]. unfold MultPeg.info. unfold info in Hi. rewrite Hi, Hn, Ho. reflexivity.
Qed.

Lemma nonasg_kid_event k : (forall nid ks a o, k = NT nid ks -> info mm nid <> IAsgn a o) -> tn k = [].
Proof.
  intro H. destruct k as [|nid ks]; [reflexivity|]. cbn [MultPeg.tree_nodes]. unfold MultPeg.info.
  destruct (nth nid mm IOther) as [a o| | |] eqn:E; try reflexivity. exfalso. eapply (H nid ks a o eq_refl). exact E.
Qed.

Definition wgt (a : nat) (l : list tree) : nat := Mult.weight a (evs (flat_map tn l)).

Lemma wgt_app a l1 l2 : wgt a (l1 ++ l2) = wgt a l1 + wgt a l2.
Proof. unfold wgt. rewrite flat_map_app, map_app. apply MultFlowProofs.weight_app. Qed.

Lemma wgt_cons a k l : wgt a (k :: l) = wgt a [k] + wgt a l.
Proof. apply (wgt_app a [k] l). Qed.

(* weight 0 for the attribute's number: nothing was matched for the attribute *)
Lemma wgt0_tvals ma l : wgt (attr_id (a_name ma)) l = 0 -> tv ma l = [].
Proof.
  induction l as [|k l IH]; intro H; [reflexivity|]. rewrite wgt_cons in H.
  cbn [tvals flat_map]. fold (tv ma l). rewrite IH by lia. rewrite app_nil_r.
  destruct k as [|nid ks]; [reflexivity|]. cbn [kid_vals].
  destruct (info mm nid) as [a o| | |] eqn:Ei; try reflexivity.
  destruct (str_eqb (a_name ma) a) eqn:E; [|reflexivity]. apply str_eqb_eq in E. subst a. exfalso.
  destruct (asg_kid_event nid ks (a_name ma) o Ei) as [op [vals [_ Hev]]].
  assert (K : wgt (attr_id (a_name ma)) [NT nid ks] = 0) by lia. unfold wgt in K. cbn [flat_map] in K. rewrite app_nil_r, Hev in K.
  unfold Mult.weight, Mult.ev_weight in K. cbn in K. rewrite Nat.eqb_refl in K. destruct op; cbn in K; lia.
Qed.

(* ---------------------------------------------------------------- the invariant *)
Variable attrs : list attr.
Variable kids : list tree.
Hypothesis Hscalar : forall ma, find_attr (a_name ma) attrs = Some ma -> is_many (a_mult ma) = false ->
  wgt (attr_id (a_name ma)) kids <= 1.
Hypothesis Hmany : forall ma, find_attr (a_name ma) attrs = Some ma -> is_many (a_mult ma) = true ->
  forall e, In e (evs (flat_map tn kids)) -> Mult.ev_attr e = attr_id (a_name ma) -> Mult.ev_op e <> MultBase.OpBool.

Notation expv := (expected_val auto).

Definition inv (pre : list tree) (c : cur) : Prop :=
  c_meta c = attrs /\
  forall ma, find_attr (a_name ma) attrs = Some ma -> get_val (a_name ma) (c_vals c) = Some (expv ma (tv ma pre)).

Lemma init_falsy ma : is_many (a_mult ma) = false -> val_truthy (init_attr auto ma) = false.
Proof.
  unfold init_attr. destruct (a_mult ma); try discriminate; intros _;
    (destruct (is_base_type (a_cls ma)); [destruct auto; [reflexivity | destruct (a_bool ma); reflexivity] | reflexivity]).
Qed.

Lemma init_not_list ma : is_many (a_mult ma) = false -> is_vlist (init_attr auto ma) = false.
Proof.
  unfold init_attr. destruct (a_mult ma); try discriminate; intros _;
    (destruct (is_base_type (a_cls ma)); [destruct auto; [reflexivity | destruct (a_bool ma); reflexivity] | reflexivity]).
Qed.

Lemma tv_snoc ma pre k : tv ma (pre ++ [k]) = tv ma pre ++ kv ma k.
Proof. unfold tvals. rewrite flat_map_app. cbn [flat_map]. rewrite app_nil_r. reflexivity. Qed.

(* a child of the rule's NonTerminal that is not an assignment node leaves the object untouched *)
Lemma kid_nonasg_indep k : asg_placed mm true k = true -> not_asg k = true -> indep k.
Proof. intros Hp Hn. exact (placed_indep k true Hp Hn). Qed.

(* facts about an assignment child, shared by the success and the error analysis *)
Lemma asg_kid_facts pre nid ks suf a o c ma :
  kids = pre ++ NT nid ks :: suf -> inv pre c -> info mm nid = IAsgn a o -> find_attr a attrs = Some ma ->
  a_name ma = a /\ find_attr (a_name ma) attrs = Some ma /\
  get_val a (c_vals c) = Some (expv ma (tv ma pre)) /\
  exists op vals, op_fits o op /\
    (is_many (a_mult ma) = true -> op <> MultBase.OpBool) /\
    (is_many (a_mult ma) = false -> tv ma pre = [] /\ (op = MultBase.OpPlain \/ op = MultBase.OpBool)) /\
    In (Mult.Ev (attr_id a) op vals) (evs (flat_map tn kids)).
Proof.
  intros Hk [Hm Hv] Ei Ef.
  pose proof (find_attr_name _ _ _ Ef) as Hn. assert (Hma : find_attr (a_name ma) attrs = Some ma) by (rewrite Hn; exact Ef).
  split; [exact Hn|]. split; [exact Hma|]. split; [rewrite <- Hn; apply Hv, Hma|].
  destruct (asg_kid_event nid ks a o Ei) as [op [vals [Hfit Hev]]]. exists op, vals. split; [exact Hfit|].
  assert (Hw : wgt (attr_id a) kids = wgt (attr_id a) pre + wgt (attr_id a) [NT nid ks] + wgt (attr_id a) suf)
    by (rewrite Hk, wgt_app, wgt_cons; lia).
  assert (Hwk : wgt (attr_id a) [NT nid ks] = match op with MultBase.OpPlain | MultBase.OpBool => 1 | _ => 2 end).
  { unfold wgt. cbn [flat_map]. rewrite app_nil_r, Hev. unfold Mult.weight, Mult.ev_weight. cbn. rewrite Nat.eqb_refl.
    destruct op; reflexivity. }
  assert (Hin : In (Mult.Ev (attr_id a) op vals) (evs (flat_map tn kids))).
  { rewrite Hk, flat_map_app, map_app. apply in_or_app. right. cbn [flat_map]. rewrite map_app, Hev. left. reflexivity. }
  split; [|split; [|exact Hin]].
  - intros Emany Eb. subst op. apply (Hmany ma Hma Emany _ Hin); [cbn; rewrite Hn; reflexivity | reflexivity].
  - intro Emany. pose proof (Hscalar ma Hma Emany) as Hle. rewrite Hn in Hle. split.
    + apply wgt0_tvals. rewrite Hn. destruct op; lia.
    + destruct op; try lia; auto.
Qed.

Lemma step pre k suf c v top1 :
  kids = pre ++ k :: suf -> inv pre c -> asg_placed mm true k = true ->
  pn k (Some c) = BOk (v, top1) ->
  exists c1, top1 = Some c1 /\ inv (pre ++ [k]) c1.
Proof.
  intros Hk Hi Hok H. pose proof Hi as [Hm Hv].
  assert (Hpure_case : not_asg k = true -> exists c1, top1 = Some c1 /\ inv (pre ++ [k]) c1).
  { intro Hp. destruct (kid_nonasg_indep k Hok Hp _ _ _ H) as [-> _]. exists c. split; [reflexivity|]. split; [exact Hm|].
    intros ma Hma. rewrite tv_snoc.
    assert (E : kv ma k = []).
    { destruct k as [|nid ks]; [reflexivity|]. cbn [kid_vals]. cbn [not_asg] in Hp.
      destruct (info mm nid) as [a o|kk cls at'|r gr|]; try reflexivity. discriminate. }
    rewrite E, app_nil_r. apply Hv, Hma. }
  destruct k as [n p len s|nid ks]; [apply Hpure_case; reflexivity|].
  destruct (info mm nid) as [a o|kk cls at'|r gr|] eqn:Ei;
    try (apply Hpure_case; cbn [not_asg]; rewrite Ei; reflexivity).
  (* an assignment node: its children do not touch the object *)
  assert (Hks : forallb pure ks = true).
  { cbn [asg_placed] in Hok. unfold info in Ei. rewrite Ei in Hok. exact Hok. }
  cbn [pnode] in H. rewrite Ei in H.
  destruct (find_attr a (c_meta c)) as [ma|] eqn:Ef; [|discriminate]. rewrite Hm in Ef.
  destruct (asg_kid_facts pre nid ks suf a o c ma Hk Hi Ei Ef) as [Hn [Hma [Hcur [op [vals [Hfit [Hnb [Hsc Hin]]]]]]]].
  (* how the other attributes and the assigned one look afterwards *)
  assert (Fin : forall c1 fv, c_meta c1 = attrs -> get_val a (c_vals c1) = Some fv ->
                 (forall a', str_eqb a a' = false -> get_val a' (c_vals c1) = get_val a' (c_vals c)) ->
                 fv = expv ma (tv ma pre ++ kv ma (NT nid ks)) -> inv (pre ++ [NT nid ks]) c1).
  { intros c1 fv Hm1 Hg1 Ho1 Hfv. split; [exact Hm1|]. intros ma2 Hma2. rewrite tv_snoc.
    destruct (str_eqb a (a_name ma2)) eqn:E2.
    - apply str_eqb_eq in E2. assert (ma2 = ma) by (rewrite <- E2, Ef in Hma2; inversion Hma2; reflexivity). subst ma2.
      rewrite Hn, Hg1, Hfv. reflexivity.
    - rewrite (Ho1 _ E2), (Hv _ Hma2). f_equal. f_equal.
      cbn [kid_vals]. rewrite Ei. replace (str_eqb (a_name ma2) a) with false; [rewrite app_nil_r; reflexivity|].
      symmetry. apply str_eqb_neq. intro Eq. rewrite Eq, str_eqb_refl in E2. discriminate. }
  destruct (is_many (a_mult ma)) eqn:Emany.
  - (* list attribute: the current value is the list of everything matched so far *)
    unfold expected_val in Hcur. rewrite Emany in Hcur. specialize (Hnb eq_refl).
    destruct o; try (destruct op; contradiction).
    + (* = *) rewrite Hcur in H. cbn [val_truthy is_vlist negb] in H. rewrite andb_false_r in H.
      destruct ks as [|k0 ks']; [discriminate|]. cbn [forallb] in Hks. apply andb_true_iff in Hks as [P0 _].
      destruct (pn k0 (Some c)) as [[v0 top0]|e] eqn:E0; [|discriminate].
      destruct (pure_vof _ _ _ _ P0 E0) as [-> <-]. cbn zeta in H. injection H as Hx1 Hx2; subst v top1.
      eexists. split; [reflexivity|].
      eapply Fin; [exact Hm | apply get_set_same | intros a' Hne; apply get_set_other, Hne|].
      unfold expected_val. rewrite Emany. cbn [kid_vals]. rewrite Ei, Hn, str_eqb_refl. reflexivity.
    + (* *= += *)
      destruct (lst_loop pn (is_sep_of g nid) a _ ks (Some c)) as [t1|e] eqn:El; [|discriminate].
      injection H as Hx1 Hx2; subst v top1.
      destruct (lst_loop_pure nid a _ ks c _ _ Hks Hcur El) as [c' [-> [Hm' [Hg' Ho']]]].
      exists c'. split; [reflexivity|].
      eapply Fin; [rewrite Hm'; exact Hm | exact Hg' | exact Ho'|].
      unfold expected_val. rewrite Emany. cbn [kid_vals]. rewrite Ei, Hn, str_eqb_refl. f_equal. f_equal.
      apply map_ext. intro t. unfold wrapc, wrap, is_link. destruct (a_ref ma && negb (a_cont ma))%bool; reflexivity.
  - (* single-valued attribute: this is the only assignment matched for it *)
    destruct (Hsc eq_refl) as [Hpre Hop].
    unfold expected_val in Hcur. rewrite Emany, Hpre in Hcur.
    destruct o; try (destruct Hop; subst op; contradiction).
    + (* = *) rewrite Hcur in H. rewrite (init_falsy ma Emany) in H. cbn [andb] in H.
      destruct ks as [|k0 ks']; [discriminate|]. cbn [forallb] in Hks. apply andb_true_iff in Hks as [P0 _].
      destruct (pn k0 (Some c)) as [[v0 top0]|e] eqn:E0; [|discriminate].
      destruct (pure_vof _ _ _ _ P0 E0) as [-> <-]. cbn zeta in H.
      assert (Hset : BOk (VNone, Some (cur_set a (wrap ma k0 (vf k0)) c)) = BOk (v, top1)).
      { pose proof (init_not_list ma Emany) as Hnl. unfold wrap, is_link. destruct (init_attr auto ma); try exact H. discriminate Hnl. }
      injection Hset as Hx1 Hx2; subst v top1.
      eexists. split; [reflexivity|].
      eapply Fin; [exact Hm | apply get_set_same | intros a' Hne; apply get_set_other, Hne|].
      unfold expected_val. rewrite Emany, Hpre. cbn [kid_vals]. rewrite Ei, Hn, str_eqb_refl. reflexivity.
    + (* ?= *) injection H as Hx1 Hx2; subst v top1.
      eexists. split; [reflexivity|].
      eapply Fin; [exact Hm | apply get_set_same | intros a' Hne; apply get_set_other, Hne|].
      unfold expected_val. rewrite Emany, Hpre. cbn [kid_vals]. rewrite Ei, Hn, str_eqb_refl. reflexivity.
Qed.

(* the loop over the children of the rule's NonTerminal *)
Lemma each_inv : forall suf pre c c1,
  kids = pre ++ suf -> inv pre c -> forallb (asg_placed mm true) suf = true ->
  each_loop pn suf (Some c) = BOk (Some c1) -> inv kids c1.
Proof.
  induction suf as [|k suf IH]; intros pre c c1 Hk Hi Hok H; cbn [each_loop] in H.
  - inversion H; subst c1. rewrite Hk, app_nil_r. exact Hi.
  - cbn [forallb] in Hok. apply andb_true_iff in Hok as [Ok1 Ok2].
    destruct (pn k (Some c)) as [[v top1]|e] eqn:E; [|discriminate].
    destruct (step pre k suf c v top1 Hk Hi Ok1 E) as [c2 [-> Hi2]].
    apply (IH (pre ++ [k]) c2 c1); [rewrite <- app_assoc; exact Hk | exact Hi2 | exact Ok2 | exact H].
Qed.

(* ---------------------------------------------------------------- no 'Multiple assignments' at this level *)
Lemma lst_loop_err nid a refcls : forall ks c,
  lst_loop pn (is_sep_of g nid) a refcls ks (Some c) = BErr ESem ->
  exists k c', In k ks /\ pn k (Some c') = BErr ESem.
Proof.
  induction ks as [|k ks IH]; intros c H; cbn [lst_loop] in H; [discriminate|].
  destruct (is_sep_of g nid k).
  - destruct (IH _ H) as [k1 [c' [Hin He]]]. exists k1, c'. split; [right; exact Hin | exact He].
  - destruct (pn k (Some c)) as [[v top1]|er] eqn:E.
    + cbn zeta in H. destruct top1 as [c1|]; [|discriminate].
      destruct (get_val a (c_vals c1)) as [[]|]; try discriminate;
        (destruct (IH _ H) as [k1 [c' [Hin He]]]; exists k1, c'; split; [right; exact Hin | exact He]).
    + inversion H; subst er. exists k, c. split; [left; reflexivity | exact E].
Qed.

(* a semantic error while the children of the rule's NonTerminal are processed comes from converting a child
   (a nested object), never from the multiple-assignment guard of this object's own assignments *)
Lemma step_err pre k suf c :
  kids = pre ++ k :: suf -> inv pre c -> asg_placed mm true k = true ->
  pn k (Some c) = BErr ESem ->
  not_asg k = true \/ exists nid ks a o k0 c', k = NT nid ks /\ info mm nid = IAsgn a o /\ In k0 ks /\ pn k0 (Some c') = BErr ESem.
Proof.
  intros Hk Hi Hok H. pose proof Hi as [Hm Hv].
  destruct k as [n p len s|nid ks]; [left; reflexivity|].
  destruct (info mm nid) as [a o|kk cls at'|r gr|] eqn:Ei; try (left; cbn [not_asg]; rewrite Ei; reflexivity).
  right. cbn [pnode] in H. rewrite Ei in H.
  destruct (find_attr a (c_meta c)) as [ma|] eqn:Ef; [|discriminate]. rewrite Hm in Ef.
  destruct (asg_kid_facts pre nid ks suf a o c ma Hk Hi Ei Ef) as [Hn [Hma [Hcur [op [vals [Hfit [Hnb [Hsc Hin]]]]]]]].
  destruct o; try discriminate.
  - (* = : the guard does not fire *)
    rewrite Hcur in H.
    assert (Hguard : (val_truthy (expv ma (tv ma pre)) && negb (is_vlist (expv ma (tv ma pre))))%bool = false).
    { unfold expected_val. destruct (is_many (a_mult ma)) eqn:Emany; [cbn; apply andb_false_r|].
      destruct (Hsc eq_refl) as [Hpre _]. rewrite Hpre, (init_falsy ma Emany). reflexivity. }
    rewrite Hguard in H.
    destruct ks as [|k0 ks']; [discriminate|].
    destruct (pn k0 (Some c)) as [[v0 top0]|er] eqn:E0.
    + cbn zeta in H. destruct top0; [|discriminate]. destruct (expv ma (tv ma pre)); discriminate.
    + inversion H; subst er. exists nid, (k0 :: ks'), a, OpPlain, k0, c.
      split; [reflexivity|]. split; [exact Ei|]. split; [left; reflexivity | exact E0].
  - (* *= += *)
    destruct (lst_loop pn (is_sep_of g nid) a _ ks (Some c)) as [t1|er] eqn:El; [discriminate|].
    inversion H; subst er. destruct (lst_loop_err _ _ _ _ _ El) as [k0 [c' [Hin' He]]].
    exists nid, ks, a, OpList, k0, c'. split; [reflexivity|]. split; [exact Ei|]. split; assumption.
Qed.

Lemma each_err : forall suf pre c,
  kids = pre ++ suf -> inv pre c -> forallb (asg_placed mm true) suf = true ->
  each_loop pn suf (Some c) = BErr ESem ->
  exists k c', In k suf /\ pn k (Some c') = BErr ESem /\
    (not_asg k = true \/ exists nid ks a o k0 c'', k = NT nid ks /\ info mm nid = IAsgn a o /\ In k0 ks /\ pn k0 (Some c'') = BErr ESem).
Proof.
  induction suf as [|k suf IH]; intros pre c Hk Hi Hok H; cbn [each_loop] in H; [discriminate|].
  cbn [forallb] in Hok. apply andb_true_iff in Hok as [Ok1 Ok2].
  destruct (pn k (Some c)) as [[v top1]|er] eqn:E.
  - destruct (step pre k suf c v top1 Hk Hi Ok1 E) as [c2 [-> Hi2]].
    destruct (IH (pre ++ [k]) c2 (eq_trans Hk (app_assoc pre [k] suf)) Hi2 Ok2 H) as [k1 [c' [Hin R]]].
    exists k1, c'. split; [right; exact Hin | exact R].
  - inversion H; subst er. exists k, c. split; [left; reflexivity|]. split; [exact E|].
    exact (step_err pre k suf c Hk Hi Ok1 E).
Qed.

Hypothesis Hnames : forall ma, find_attr (a_name ma) attrs = Some ma ->
  get_val (a_name ma) (init_attrs auto attrs) = Some (init_attr auto ma).

Lemma inv_init cls p e : inv [] (mkCur cls attrs p e (init_attrs auto attrs)).
Proof.
  split; [reflexivity|]. intros ma Hma. cbn [c_vals tvals flat_map]. rewrite (Hnames ma Hma).
  unfold expected_val. destruct (is_many (a_mult ma)) eqn:E; [|reflexivity].
  unfold init_attr. destruct (a_mult ma); try discriminate; reflexivity.
Qed.

(* the object built for a common-rule node holds, for every attribute, exactly the matched values *)
Theorem object_values n cls top cls' p e vals top' :
  info mm n = IRule RCommon cls attrs ->
  forallb (asg_placed mm true) kids = true ->
  pn (NT n kids) top = BOk (VObj cls' p e vals, top') ->
  forall ma, find_attr (a_name ma) attrs = Some ma ->
    get_val (a_name ma) vals = Some (expv ma (tv ma kids)).
Proof.
  intros Hi Hok H ma Hma. cbn [pnode] in H. rewrite Hi in H.
  destruct (each_loop pn kids _) as [[c1|]|er] eqn:E; try discriminate.
  destruct (name_ok (c_vals c1)); [|discriminate]. destruct (many_ok (c_meta c1) (c_vals c1)); [|discriminate].
  inversion H; subst.
  destruct (each_inv kids [] _ c1 eq_refl (inv_init _ _ _) Hok E) as [_ Hv]. apply Hv, Hma.
Qed.

(* If building the object fails with a semantic error, the error was raised while a child was converted (a nested
   object's own error) or by the name check - never by 'Multiple assignments' on this object's attributes. *)
Theorem object_no_mult_assign n cls top :
  info mm n = IRule RCommon cls attrs ->
  forallb (asg_placed mm true) kids = true ->
  pn (NT n kids) top = BErr ESem ->
  (exists k c', In k kids /\ pn k (Some c') = BErr ESem /\
     (not_asg k = true \/ exists nid ks a o k0 c'', k = NT nid ks /\ info mm nid = IAsgn a o /\ In k0 ks /\ pn k0 (Some c'') = BErr ESem))
  \/ (exists c1, each_loop pn kids (Some (mkCur cls attrs (tpos (NT n kids)) (tend (NT n kids)) (init_attrs auto attrs))) = BOk (Some c1)
                 /\ name_ok (c_vals c1) = false).
Proof.
  intros Hi Hok H. cbn [pnode] in H. rewrite Hi in H.
  destruct (each_loop pn kids _) as [[c1|]|er] eqn:E; try discriminate.
  - right. exists c1. split; [reflexivity|]. destruct (name_ok (c_vals c1)); [|reflexivity].
    destruct (many_ok (c_meta c1) (c_vals c1)); discriminate.
  - left. inversion H; subst er. exact (each_err kids [] _ eq_refl (inv_init _ _ _) Hok E).
Qed.

End Proj.
