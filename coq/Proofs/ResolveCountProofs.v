From TxV Require Import Core.Base Gen.SrcResolve Model.Resolve Proofs.ResolveTermProofs.

(* ================================================================ C09: every resolution is counted as progress.
   Depends on exactly the two counting facts of Gen/SrcResolve.v (resolved_crossref_count is
   incremented for a resolved list reference AND for a resolved scalar reference); holds wherever
   Postponed references are re-queued or reported. *)
Lemma tfact_count_list : counts_list_resolution = true. Proof. reflexivity. Qed.
Lemma tfact_count_scalar : counts_scalar_resolution = true. Proof. reflexivity. Qed.

Lemma counted_is_one x : counted x = 1.
Proof. unfold counted. rewrite tfact_count_list, tfact_count_scalar. destruct (xmany x); reflexivity. Qed.

Opaque carry counted.

(* the progress count of one pass is exactly the number of references that left the pending list;
   the delayed list (what the loop counts as unresolved and what the error names) is as long as
   the new pending list *)
Theorem progress_counted_exact ans : forall pend st st' np d c,
  step ans pend st = Some (st', np, d, c) -> length np + c = length pend /\ length d = length np.
Proof.
  induction pend as [|x r IH]; intros st st' np d c H; cbn [step] in H.
  - injection H as Hst Hnp Hd Hc; subst. split; reflexivity.
  - destruct (ans x st) as [t| |]; [| |discriminate].
    + destruct (step ans r _) as [[[[st1 np1] d1] c1]|] eqn:E; [|discriminate].
      injection H as Hst Hnp Hd Hc; subst st' np d c.
      destruct (IH _ _ _ _ _ E) as [L1 L2]. rewrite counted_is_one. cbn [length]. split; [lia | exact L2].
    + destruct (step ans r _) as [[[[st1 np1] d1] c1]|] eqn:E; [|discriminate].
      injection H as Hst Hnp Hd Hc; subst st' np d c.
      destruct (IH _ _ _ _ _ E) as [L1 L2]. rewrite !carry_length. cbn [length]. split; [lia | rewrite L2; reflexivity].
Qed.

Transparent carry counted.
