(* Completeness of the RREL search (Model/Rrel.v) with the visited set and prevent_doubles:
   every failed search leaves a set of visited keys that passes the closure check closure_ok,
   hence (Proofs/RrelProofs.v, closure_complete) no justified result exists. *)
From TxV Require Import Core.Base Gen.SrcRrel Model.RrelSyntax Model.Rrel Proofs.RrelProofs.

(* ------------------------------------------------------------ the visited set only grows *)
Definition vmonoc (f : st -> res * st) : Prop :=
  forall s, incl (vis s) (vis (snd (f s))) /\ nxt s <= nxt (snd (f s)).
Definition vmono (k : cfg -> st -> res * st) : Prop := forall c, vmonoc (k c).

Lemma vm_trans (s1 s2 s3 : st) :
  incl (vis s1) (vis s2) /\ nxt s1 <= nxt s2 -> incl (vis s2) (vis s3) /\ nxt s2 <= nxt s3 ->
  incl (vis s1) (vis s3) /\ nxt s1 <= nxt s3.
Proof. intros [A B] [C D]. split; [eapply incl_tran; eauto | lia]. Qed.

Lemma vm_refl (s : st) : incl (vis s) (vis s) /\ nxt s <= nxt s.
Proof. split; [apply incl_refl | lia]. Qed.

Lemma guard_vmono kf pos first c body : vmonoc body -> vmonoc (fun s => guard kf pos first c s body).
Proof.
  intros H s. unfold guard. destruct (existsb _ _); simpl; [apply vm_refl|].
  eapply vm_trans; [|apply H]. simpl. split; [apply incl_tl, incl_refl | lia].
Qed.

Lemma iter_outs_vmono l k : vmono k -> vmonoc (iter_outs l k).
Proof.
  intros Hk. induction l as [|c l IH]; intros s; simpl; [apply vm_refl|].
  pose proof (Hk c s) as H1. destruct (k c s) as [r s1]. simpl in H1.
  destruct r; simpl; try exact H1. eapply vm_trans; [exact H1 | apply IH].
Qed.

Lemma pd_filter_vmono id pos k : vmono k -> vmono (pd_filter id pos k).
Proof.
  intros Hk c s. unfold pd_filter. destruct (existsb _ _); simpl; [apply vm_refl|].
  eapply vm_trans; [|apply Hk]. simpl. apply vm_refl.
Qed.

Lemma star_zero_vmono sl sr F m k' first c : vmono k' -> vmonoc (star_zero sl sr F m k' first c).
Proof.
  intros Hk s. unfold star_zero. destruct first; [|apply Hk].
  assert (H1 : incl (vis s) (vis (snd (if sl then k' c s else (RNone, s)))) /\
               nxt s <= nxt (snd (if sl then k' c s else (RNone, s)))).
  { destruct sl; [apply Hk | apply vm_refl]. }
  destruct (if sl then k' c s else (RNone, s)) as [r1 s1']. simpl in H1.
  destruct r1; simpl; try exact H1.
  destruct sr; [|exact H1].
  destruct (root_of F m (c_obj c)); [|exact H1]. eapply vm_trans; [exact H1 | apply Hk].
Qed.

Lemma gfz_vmono evs sl sr F m kf pos k' :
  (forall f c k, vmono k -> vmonoc (evs f c k)) -> vmono k' ->
  forall n first c, vmonoc (gfz evs sl sr F m kf pos k' n first c).
Proof.
  intros Hevs Hk. induction n as [|n IH]; intros first c s; simpl; [apply vm_refl|].
  apply (guard_vmono kf pos first c). intros s1.
  pose proof (star_zero_vmono sl sr F m k' first c Hk s1) as Hz.
  destruct (star_zero sl sr F m k' first c s1) as [r s2]. simpl in Hz.
  destruct r; simpl; try exact Hz.
  eapply vm_trans; [exact Hz|]. apply Hevs. intros c1. apply IH.
Qed.

Lemma ev_vmono F m kf :
  (forall e pos first c k, vmono k -> vmonoc (ev_elem F m kf pos e first c k)) /\
  (forall p q i j first c k, vmono k -> vmonoc (ev_path F m kf q i j p first c k)) /\
  (forall sq,
      (forall q i first c k, vmono k -> vmonoc (ev_alts F m kf q i sq first c k)) /\
      (forall q first c k, vmono k -> vmonoc (ev_seq F m kf q sq first c k))).
Proof.
  apply rrel_mutind.
  - intros T pos first c k Hk s. simpl. apply (guard_vmono kf pos first c). intros s1.
    destruct (apply_parent F m T (c_obj c)) as [[p|]|]; simpl; try apply vm_refl. apply Hk.
  - intros name consume fixed pos first c k Hk s. simpl. apply (guard_vmono kf pos first c). intros s1.
    destruct (apply_nav F m name consume fixed first c); simpl; try apply vm_refl.
    apply iter_outs_vmono; assumption.
  - intros n pos first c k Hk s. simpl. apply (guard_vmono kf pos first c). intros s1.
    destruct (apply_dots m n (c_obj c)); simpl; try apply vm_refl. apply Hk.
  - intros sq [_ IH] pos first c k Hk s. simpl. apply (guard_vmono kf pos first c). intros s1.
    apply IH; assumption.
  - intros sq [_ IH] pos first c k Hk s. simpl.
    eapply vm_trans; [|apply gfz_vmono].
    + simpl. split; [apply incl_refl | lia].
    + intros f c1 k1 Hk1. apply IH. exact Hk1.
    + apply pd_filter_vmono. exact Hk.
  - intros e IH q i j first c k Hk. simpl. apply IH. exact Hk.
  - intros e IHe p IHp q i j first c k Hk. simpl. apply IHe. intros c1. apply IHp. exact Hk.
  - intros p IHp. split.
    + intros q i first c k Hk. simpl. apply IHp. exact Hk.
    + intros q first c k Hk s. simpl. apply (guard_vmono kf q first c). apply IHp. exact Hk.
  - intros p IHp sq [IHa _]. split.
    + intros q i first c k Hk s. simpl.
      pose proof (IHp q i 0 first c k Hk s) as H1.
      destruct (ev_path F m kf q i 0 p first c k s) as [r s1]. simpl in H1.
      destruct r; simpl; try exact H1. eapply vm_trans; [exact H1 | apply IHa; assumption].
    + intros q first c k Hk s. simpl. apply (guard_vmono kf q first c). intros s1.
      pose proof (IHp q 0 0 first c k Hk s1) as H1.
      destruct (ev_path F m kf q 0 0 p first c k s1) as [r s2]. simpl in H1.
      destruct r; simpl; try exact H1. eapply vm_trans; [exact H1 | apply IHa; assumption].
Qed.

Definition on (c : cfg) : nat * list (list N) := (c_obj c, c_names c).

(* the outputs of a navigation step do not depend on the path collected so far *)
Lemma apply_nav_repath F m n cs fx f o ns tr tr' l :
  apply_nav F m n cs fx f (mk o ns tr) = SOuts l ->
  exists l', apply_nav F m n cs fx f (mk o ns tr') = SOuts l' /\ map on l' = map on l.
Proof.
  unfold apply_nav. simpl.
  destruct (if f then root_of F m o else Some o) as [b|]; [|discriminate].
  destruct cs, ns as [|nm rest]; simpl; destruct (m_attr m b n) as [| |x|xs|]; simpl; try discriminate;
    destruct fx as [fn|]; simpl;
    repeat match goal with |- context [List.find ?a ?b] => destruct (List.find a b) end;
    repeat match goal with |- context [name_is ?a ?b ?c] => destruct (name_is a b c) end;
    intro H; inversion H; subst; clear H; eexists; (split; [reflexivity|]); simpl;
    rewrite ?map_map; reflexivity.
Qed.

Section Complete.
  Variable F : nat.
  Variable m : model.
  Variable names0 : list (list N).
  Variable T : option (list N).
  Variable top : seq.
  Variable V : list (nat * list nat * nat * bool).

  Notation Hp := (nat -> list (list N) -> bool) (only parsing).

  (* ---------------------------------------------------------- the static guard sites *)
  Inductive node := NElem (e : elem) | NSeq (sq : seq).

  Inductive alts_from : seq -> nat -> seq -> Prop :=
  | af_0 sq : alts_from sq 0 sq
  | af_S sq i p sq' : alts_from sq i (SCons p sq') -> alts_from sq (S i) sq'.

  Inductive elems_from : path -> nat -> path -> Prop :=
  | ef_0 p : elems_from p 0 p
  | ef_S p j e p' : elems_from p j (PCons e p') -> elems_from p (S j) p'.

  Definition head_path (sq : seq) : path := match sq with S1 p => p | SCons p _ => p end.

  (* Site pos n H: the node n sits at position pos, and H is what "handled" means for the items it
     passes on (the key of the next guard is visited, or the acceptance test fails) *)
  Inductive Site : list nat -> node -> Hp -> Prop :=
  | S_root : Site [] (NSeq top) (hfinal m T)
  | S_last q sq H i sq1 j e :
      Site q (NSeq sq) H -> alts_from sq i sq1 -> elems_from (head_path sq1) j (P1 e) ->
      Site (j :: i :: q) (NElem e) H
  | S_mid q sq H i sq1 j e p' :
      Site q (NSeq sq) H -> alts_from sq i sq1 -> elems_from (head_path sq1) j (PCons e p') ->
      Site (j :: i :: q) (NElem e) (hnext V (S j :: i :: q))
  | S_br p sq H : Site p (NElem (EBr sq)) H -> Site (0 :: p) (NSeq sq) H
  | S_star p sq H : Site p (NElem (EStar sq)) H -> Site (0 :: p) (NSeq sq) (hnext V p).

  Lemma alts_from_fun sq i a b : alts_from sq i a -> alts_from sq i b -> a = b.
  Proof.
    intro Ha. revert b. induction Ha as [sq|sq i p sq' Ha IH]; intros b Hb.
    - inversion Hb; reflexivity.
    - inversion Hb as [|sq0 i0 p0 sq0' Hb']; subst. specialize (IH _ Hb'). inversion IH; reflexivity.
  Qed.

  Lemma elems_from_fun p j a b : elems_from p j a -> elems_from p j b -> a = b.
  Proof.
    intro Ha. revert b. induction Ha as [p|p j e p' Ha IH]; intros b Hb.
    - inversion Hb; reflexivity.
    - inversion Hb as [|p0 j0 e0 p0' Hb']; subst. specialize (IH _ Hb'). inversion IH; reflexivity.
  Qed.

  Lemma Site_len pos n H : Site pos n H ->
    exists k, match n with NSeq _ => List.length pos = 3 * k | NElem _ => List.length pos = 3 * k + 2 end.
  Proof.
    induction 1 as [|q sq H i sq1 j e Hs [k IH] _ _|q sq H i sq1 j e p' Hs [k IH] _ _|p sq H Hs [k IH]|p sq H Hs [k IH]];
      cbn [List.length] in *.
    - exists 0. reflexivity.
    - exists k. lia.
    - exists k. lia.
    - exists (S k). lia.
    - exists (S k). lia.
  Qed.

  Lemma Site_kind_clash q n H n' H' x : Site q (NSeq n) H -> Site (x :: q) (NElem n') H' -> False.
  Proof.
    intros H1 H2. apply Site_len in H1 as [k1 E1]. apply Site_len in H2 as [k2 E2].
    cbn [List.length] in *. lia.
  Qed.

  Lemma Site_fun pos n H : Site pos n H -> forall n' H', Site pos n' H' -> n = n' /\ H = H'.
  Proof.
    induction 1 as [|q sq H i sq1 j e Hs IH Ha He|q sq H i sq1 j e p' Hs IH Ha He|p sq H Hs IH|p sq H Hs IH];
      intros n' H' H2.
    - inversion H2; subst; split; reflexivity.
    - inversion H2 as [|q0 sq0 H0 i0 sq10 j0 e0 Hs0 Ha0 He0|q0 sq0 H0 i0 sq10 j0 e0 p0 Hs0 Ha0 He0
                       |p0 sq0 H0 Hs0|p0 sq0 H0 Hs0]; subst.
      + destruct (IH _ _ Hs0) as [E1 E2]. inversion E1; subst.
        rewrite (alts_from_fun _ _ _ _ Ha Ha0) in He. pose proof (elems_from_fun _ _ _ _ He He0) as E.
        inversion E; subst. split; reflexivity.
      + destruct (IH _ _ Hs0) as [E1 E2]. inversion E1; subst.
        rewrite (alts_from_fun _ _ _ _ Ha Ha0) in He. pose proof (elems_from_fun _ _ _ _ He He0) as E.
        discriminate.
      + exfalso. eapply Site_kind_clash; [exact Hs | exact Hs0].
      + exfalso. eapply Site_kind_clash; [exact Hs | exact Hs0].
    - inversion H2 as [|q0 sq0 H0 i0 sq10 j0 e0 Hs0 Ha0 He0|q0 sq0 H0 i0 sq10 j0 e0 p0 Hs0 Ha0 He0
                       |p0 sq0 H0 Hs0|p0 sq0 H0 Hs0]; subst.
      + destruct (IH _ _ Hs0) as [E1 E2]. inversion E1; subst.
        rewrite (alts_from_fun _ _ _ _ Ha Ha0) in He. pose proof (elems_from_fun _ _ _ _ He He0) as E.
        discriminate.
      + destruct (IH _ _ Hs0) as [E1 E2]. inversion E1; subst.
        rewrite (alts_from_fun _ _ _ _ Ha Ha0) in He. pose proof (elems_from_fun _ _ _ _ He He0) as E.
        inversion E; subst. split; reflexivity.
      + exfalso. eapply Site_kind_clash; [exact Hs | exact Hs0].
      + exfalso. eapply Site_kind_clash; [exact Hs | exact Hs0].
    - inversion H2 as [|q0 sq0 H0 i0 sq10 j0 e0 Hs0 Ha0 He0|q0 sq0 H0 i0 sq10 j0 e0 p0 Hs0 Ha0 He0
                       |p0 sq0 H0 Hs0|p0 sq0 H0 Hs0]; subst.
      + exfalso. eapply Site_kind_clash; [exact Hs0 | exact Hs].
      + exfalso. eapply Site_kind_clash; [exact Hs0 | exact Hs].
      + destruct (IH _ _ Hs0) as [E1 E2]. inversion E1; subst. split; reflexivity.
      + destruct (IH _ _ Hs0) as [E1 E2]. inversion E1.
    - inversion H2 as [|q0 sq0 H0 i0 sq10 j0 e0 Hs0 Ha0 He0|q0 sq0 H0 i0 sq10 j0 e0 p0 Hs0 Ha0 He0
                       |p0 sq0 H0 Hs0|p0 sq0 H0 Hs0]; subst.
      + exfalso. eapply Site_kind_clash; [exact Hs0 | exact Hs].
      + exfalso. eapply Site_kind_clash; [exact Hs0 | exact Hs].
      + destruct (IH _ _ Hs0) as [E1 E2]. inversion E1.
      + destruct (IH _ _ Hs0) as [E1 E2]. inversion E1; subst. split; reflexivity.
  Qed.

  (* ---------------------------------------------------------- what the run establishes *)
  Definition pos_of (k : nat * list nat * nat * bool) : list nat := snd (fst (fst k)).

  Definition key_rule (n : node) (H : Hp) (pos : list nat) (k : nat * list nat * nat * bool) : bool :=
    match n with
    | NElem (EBr _) => br_key_ok V pos k
    | NElem (EStar sq) => star_key_ok F m names0 V pos (sl_seq sq) (sr_seq sq) H k
    | NElem e => base_key_ok F m names0 e H k
    | NSeq sq => seq_key_ok V pos sq k
    end.

  (* the closure rule of the node at the key's position holds for the key *)
  Definition Good (k : nat * list nat * nat * bool) : Prop :=
    forall n H, Site (pos_of k) n H -> key_rule n H (pos_of k) k = true.

  Definition pd_id (e : nat * list nat * nat * nat) : nat := fst (fst (fst e)).
  Definition pdok (e : nat * list nat * nat * nat) : Prop :=
    let '(_, p, o, l) := e in forall e' H, Site p (NElem e') H -> H o (sufl names0 l) = true.
  Definition PDI (X : nat * list nat * nat * nat -> Prop) (s : st) : Prop :=
    forall e, In e (pds s) -> X e \/ pdok e.
  Definition Xok (U : nat -> Prop) (s : st) (X : nat * list nat * nat * nat -> Prop) : Prop :=
    forall e, X e -> ~ U (pd_id e) /\ pd_id e < nxt s.
  Definition UB (U : nat -> Prop) (s : st) : Prop := forall u, U u -> u < nxt s.

  Definition Post (s s' : st) : Prop :=
    incl (vis s) (vis s') /\ nxt s <= nxt s' /\
    (forall k, In k (vis s') -> In k (vis s) \/ Good k).

  Definition KC (k : cfg -> st -> res * st) (H : Hp) (U : nat -> Prop) : Prop :=
    vmono k /\ forall c s s' X, Suf names0 c -> UB U s -> Xok U s X -> PDI X s ->
      k c s = (RNone, s') -> incl (vis s') V ->
      Post s s' /\ PDI X s' /\ H (c_obj c) (c_names c) = true.

  Lemma Post_refl s : Post s s.
  Proof. split; [apply incl_refl|]. split; [lia|]. intros k Hk. left; exact Hk. Qed.

  Lemma Post_trans s1 s2 s3 : Post s1 s2 -> Post s2 s3 -> Post s1 s3.
  Proof.
    intros [A1 [B1 C1]] [A2 [B2 C2]]. split; [eapply incl_tran; eauto|]. split; [lia|].
    intros k Hk. destruct (C2 k Hk) as [H|H]; [|right; exact H]. apply C1. exact H.
  Qed.

  Lemma UB_mono U s s' : nxt s <= nxt s' -> UB U s -> UB U s'.
  Proof. intros Hn H u Hu. specialize (H u Hu). lia. Qed.

  Lemma Xok_mono U s s' X : nxt s <= nxt s' -> Xok U s X -> Xok U s' X.
  Proof. intros Hn H e He. destruct (H e He) as [A B]. split; [exact A | lia]. Qed.

  Lemma memk_of_In A k : In k A -> memk A k = true.
  Proof. intro H. apply (memk_In A). exact H. Qed.

  Lemma memk_incl A B k : incl A B -> memk A k = true -> memk B k = true.
  Proof. intros Hi H. apply memk_In. apply Hi. apply (memk_In A). exact H. Qed.

  Lemma firsts_in_incl A B q i sq o l f :
    incl A B -> firsts_in A q i sq o l f = true -> firsts_in B q i sq o l f = true.
  Proof.
    intro Hi. revert i. induction sq as [p|p sq IH]; intros i H; simpl in *.
    - eapply memk_incl; eauto.
    - apply andb_true_iff in H as [H1 H2]. apply andb_true_iff. split; [eapply memk_incl; eauto | apply IH; exact H2].
  Qed.

  (* guard with the repaired key *)
  Lemma guard_inv pos first c s body s' :
    guard true pos first c s body = (RNone, s') ->
    let key := (c_obj c, pos, List.length (c_names c), first) in
    (In key (vis s) /\ vis s' = vis s /\ pds s' = pds s /\ nxt s' = nxt s) \/
    (~ In key (vis s) /\
     body {| vis := key :: vis s; pds := pds s; nxt := nxt s; hit := hit s |} = (RNone, s')).
  Proof.
    unfold guard. simpl.
    destruct (existsb (key_eqb (c_obj c, pos, List.length (c_names c), first)) (vis s)) eqn:E; intro H.
    - left. inversion H; subst; simpl. apply (memk_In (vis s)) in E. auto.
    - right. split; [|exact H]. intro Hin. apply (memk_In (vis s)) in Hin. unfold memk in Hin. congruence.
  Qed.

  Lemma Suf_step e f c c' : r_elem m e f c c' -> Suf names0 c -> Suf names0 c'.
  Proof. intros Hr Hs. destruct (r_extends m) as [He _]. eapply Suf_extends; [eapply He; eauto | exact Hs]. Qed.

  Lemma Suf_same c o tr : Suf names0 c -> Suf names0 (mk o (c_names c) tr).
  Proof. intros [pre E]. exists pre. exact E. Qed.

  Lemma pd_eqb_eq a b : pd_eqb a b = true <-> a = b.
  Proof.
    destruct a as [[[i1 p1] o1] l1], b as [[[i2 p2] o2] l2]. unfold pd_eqb. split; intro H.
    - repeat (apply andb_true_iff in H as [H ?]).
      apply Nat.eqb_eq in H. apply pos_eqb_eq in H2. apply Nat.eqb_eq in H1. apply Nat.eqb_eq in H0.
      subst. reflexivity.
    - inversion H; subst. rewrite !Nat.eqb_refl.
      replace (pos_eqb p2 p2) with true by (symmetry; apply pos_eqb_eq; reflexivity). reflexivity.
  Qed.

  Definition Pre (U : nat -> Prop) (X : nat * list nat * nat * nat -> Prop) (c : cfg) (s : st) : Prop :=
    Suf names0 c /\ UB U s /\ Xok U s X /\ PDI X s.
  Definition Res (s s' : st) (X : nat * list nat * nat * nat -> Prop) (key : nat * list nat * nat * bool) : Prop :=
    Post s s' /\ PDI X s' /\ In key (vis s').

  Lemma Pre_eq U X c s s1 : pds s1 = pds s -> nxt s1 = nxt s -> Pre U X c s -> Pre U X c s1.
  Proof.
    intros Ep En [A [B [C D]]]. split; [exact A|]. split; [|split].
    - intros u Hu. rewrite En. apply B; exact Hu.
    - intros e He. rewrite En. apply C; exact He.
    - intros e He. rewrite Ep in He. apply D; exact He.
  Qed.

  Lemma Pre_step U X c c' s s' : Post s s' -> PDI X s' -> Suf names0 c' -> Pre U X c s -> Pre U X c' s'.
  Proof.
    intros [_ [Hn _]] Hp Hs [_ [B [C _]]]. split; [exact Hs|]. split; [eapply UB_mono; eauto|].
    split; [eapply Xok_mono; eauto | exact Hp].
  Qed.

  Lemma Good_intro pos n H k : Site pos n H -> pos_of k = pos -> key_rule n H pos k = true -> Good k.
  Proof.
    intros Hs Hp Hr n' H' Hs'. rewrite Hp in *. destruct (Site_fun _ _ _ Hs _ _ Hs') as [E1 E2]. subst. exact Hr.
  Qed.

  Lemma guard_case pos first c s body s' X :
    guard true pos first c s body = (RNone, s') -> PDI X s ->
    (forall s1, vis s1 = (c_obj c, pos, List.length (c_names c), first) :: vis s -> pds s1 = pds s -> nxt s1 = nxt s ->
                body s1 = (RNone, s') ->
                Post s1 s' /\ PDI X s' /\ Good (c_obj c, pos, List.length (c_names c), first)) ->
    Res s s' X (c_obj c, pos, List.length (c_names c), first).
  Proof.
    intros Hg Hpd Hb. apply guard_inv in Hg. simpl in Hg. destruct Hg as [[Hin [Ev [Ep En]]]|[Hnin Hbody]].
    - split; [|split].
      + split; [rewrite Ev; apply incl_refl|]. split; [lia|]. intros k Hk. left. rewrite Ev in Hk. exact Hk.
      + intros e He. rewrite Ep in He. apply Hpd; exact He.
      + rewrite Ev. exact Hin.
    - destruct (Hb {| vis := (c_obj c, pos, List.length (c_names c), first) :: vis s; pds := pds s; nxt := nxt s; hit := hit s |}
                   eq_refl eq_refl eq_refl Hbody) as [[A [B C]] [D G]]. simpl in *.
      split; [|split; [exact D|]].
      + split; [intros k Hk; apply A; right; exact Hk|]. split; [exact B|].
        intros k Hk. destruct (C k Hk) as [[E|Hin]|Hg]; [subst; right; exact G | left; exact Hin | right; exact Hg].
      + apply A. left. reflexivity.
  Qed.

  Lemma iter_outs_inv k H U l : KC k H U ->
    forall s s' X, (forall c, In c l -> Suf names0 c) -> UB U s -> Xok U s X -> PDI X s ->
      iter_outs l k s = (RNone, s') -> incl (vis s') V ->
      Post s s' /\ PDI X s' /\ (forall c, In c l -> H (c_obj c) (c_names c) = true).
  Proof.
    intros [Hvm Hk]. induction l as [|a l IH]; intros s s' X Hsuf Hub Hx Hpd Hev Hi; simpl in Hev.
    - inversion Hev; subst. split; [apply Post_refl|]. split; [exact Hpd|]. intros c [].
    - destruct (k a s) as [r s1] eqn:E. destruct r; try discriminate.
      assert (Hi1 : incl (vis s1) V).
      { pose proof (iter_outs_vmono l k Hvm s1) as [Hm _]. rewrite Hev in Hm. simpl in Hm.
        eapply incl_tran; eauto. }
      destruct (Hk a s s1 X (Hsuf a (or_introl eq_refl)) Hub Hx Hpd E Hi1) as [P1 [D1 Ha]].
      destruct P1 as [A1 [B1 C1]].
      destruct (IH s1 s' X (fun c Hc => Hsuf c (or_intror Hc)) (UB_mono _ _ _ B1 Hub) (Xok_mono _ _ _ _ B1 Hx) D1 Hev Hi)
        as [P2 [D2 Hl]].
      split; [eapply Post_trans; [split; [exact A1|split; [exact B1|exact C1]] | exact P2]|].
      split; [exact D2|]. intros c [<-|Hc]; [exact Ha | apply Hl; exact Hc].
  Qed.

  (* ---------------------------------------------------------- `*` *)
  Section Star.
    Variable pos : list nat.
    Variable sq : seq.
    Variable H : Hp.
    Hypothesis Hsite : Site pos (NElem (EStar sq)) H.
    Variable U : nat -> Prop.
    Variable k : cfg -> st -> res * st.
    Hypothesis Hk : KC k H U.
    Variable id : nat.
    Hypothesis Hid : forall u, U u -> u < id.

    Definition U' (u : nat) : Prop := U u \/ u = id.

    Lemma kc_pd : KC (pd_filter id pos k) H U'.
    Proof.
      destruct Hk as [Hvm Hkc]. split; [apply pd_filter_vmono; exact Hvm|].
      intros c s s' X Hsuf Hub Hx Hpd Hev Hi. unfold pd_filter in Hev.
      destruct (existsb (pd_eqb (id, pos, c_obj c, List.length (c_names c))) (pds s)) eqn:E.
      - inversion Hev; subst; simpl. apply existsb_exists in E as [e [He Ee]]. apply pd_eqb_eq in Ee. subst e.
        split; [unfold Post; simpl; split; [apply incl_refl|split; [lia|intros k0 Hk0; left; exact Hk0]]|].
        split; [intros e He'; simpl in He'; apply Hpd; exact He'|].
        destruct (Hpd _ He) as [Hxe|Hok].
        + destruct (Hx _ Hxe) as [Hnu _]. exfalso. apply Hnu. right. reflexivity.
        + simpl in Hok. rewrite <- (sufl_suf names0 c Hsuf). eapply Hok. exact Hsite.
      - set (e := (id, pos, c_obj c, List.length (c_names c))) in *.
        set (s1 := {| vis := vis s; pds := e :: pds s; nxt := nxt s; hit := hit s |}) in *.
        set (X' := fun e' => X e' \/ e' = e).
        assert (Hub1 : UB U s1) by (intros u Hu; apply (Hub u); left; exact Hu).
        assert (Hx1 : Xok U s1 X').
        { intros e' [Hxe | ->].
          - destruct (Hx _ Hxe) as [A B]. split; [intro Hu; apply A; left; exact Hu | exact B].
          - unfold e, s1; simpl. split; [intro Hu; specialize (Hid _ Hu); unfold pd_id in Hid; simpl in Hid; lia | apply (Hub id); right; reflexivity]. }
        assert (Hpd1 : PDI X' s1).
        { intros e' [<-|He']; [left; right; reflexivity|].
          destruct (Hpd _ He') as [A|B]; [left; left; exact A | right; exact B]. }
        destruct (Hkc c s1 s' X' Hsuf Hub1 Hx1 Hpd1 Hev Hi) as [P [D Hc]].
        split; [exact P|]. split; [|exact Hc].
        intros e' He'. destruct (D _ He') as [[A | ->] | B]; [left; exact A | | right; exact B].
        right. simpl. intros e0 H0 Hs0. destruct (Site_fun _ _ _ Hsite _ _ Hs0) as [_ <-].
        rewrite (sufl_suf names0 c Hsuf). exact Hc.
    Qed.

    Definition zero_part (first : bool) (c : cfg) : bool :=
      if first then implb (sl_seq sq) (H (c_obj c) (c_names c)) &&
                    implb (sr_seq sq) (match root_of F m (c_obj c) with
                                       | Some rt => H rt (c_names c) | None => false end)
      else H (c_obj c) (c_names c).

    Lemma star_zero_inv first c s1 s2 X :
      Pre U' X c s1 ->
      star_zero (sl_seq sq) (sr_seq sq) F m (pd_filter id pos k) first c s1 = (RNone, s2) ->
      incl (vis s2) V ->
      Post s1 s2 /\ PDI X s2 /\ zero_part first c = true.
    Proof.
      destruct kc_pd as [Hvm Hkc]. intros [Hsuf [Hub [Hx Hpd]]] Hz Hi.
      unfold star_zero in Hz. unfold zero_part. destruct first.
      - destruct (sl_seq sq) eqn:Esl.
        + destruct (pd_filter id pos k c s1) as [r1 s1'] eqn:E1. destruct r1; try discriminate.
          destruct (sr_seq sq) eqn:Esr.
          * destruct (root_of F m (c_obj c)) as [rt|] eqn:Er; [|discriminate].
            assert (Hi1 : incl (vis s1') V).
            { pose proof (Hvm (mk rt (c_names c) (c_path c)) s1') as [Hm _]. rewrite Hz in Hm. eapply incl_tran; eauto. }
            destruct (Hkc c s1 s1' X Hsuf Hub Hx Hpd E1 Hi1) as [P1 [D1 Hc1]].
            pose proof P1 as [_ [B1 _]].
            destruct (Hkc _ s1' s2 X (Suf_same c rt (c_path c) Hsuf) (UB_mono _ _ _ B1 Hub) (Xok_mono _ _ _ _ B1 Hx) D1 Hz Hi)
              as [P2 [D2 Hc2]]. simpl in Hc2.
            split; [eapply Post_trans; eauto|]. split; [exact D2|]. simpl. rewrite Hc1, Hc2. reflexivity.
          * inversion Hz; subst.
            destruct (Hkc c s1 s2 X Hsuf Hub Hx Hpd E1 Hi) as [P1 [D1 Hc1]].
            split; [exact P1|]. split; [exact D1|]. simpl. rewrite Hc1. reflexivity.
        + destruct (sr_seq sq) eqn:Esr.
          * destruct (root_of F m (c_obj c)) as [rt|] eqn:Er; [|discriminate].
            destruct (Hkc _ s1 s2 X (Suf_same c rt (c_path c) Hsuf) Hub Hx Hpd Hz Hi) as [P2 [D2 Hc2]]. simpl in Hc2.
            split; [exact P2|]. split; [exact D2|]. simpl. rewrite Hc2. reflexivity.
          * inversion Hz; subst. split; [apply Post_refl|]. split; [exact Hpd|]. reflexivity.
      - destruct (Hkc c s1 s2 X Hsuf Hub Hx Hpd Hz Hi) as [P1 [D1 Hc1]]. auto.
    Qed.

    Variable evs : bool -> cfg -> (cfg -> st -> res * st) -> st -> res * st.
    Hypothesis Hevs_vm : forall f c k1, vmono k1 -> vmonoc (evs f c k1).
    Hypothesis Hevs : forall f c k1 s s' X,
      Pre U' X c s -> KC k1 (hnext V pos) U' -> evs f c k1 s = (RNone, s') -> incl (vis s') V ->
      Res s s' X (c_obj c, 0 :: pos, List.length (c_names c), f).

    Lemma gfz_inv n : forall first c s s' X,
      Pre U' X c s ->
      gfz evs (sl_seq sq) (sr_seq sq) F m true pos (pd_filter id pos k) n first c s = (RNone, s') ->
      incl (vis s') V ->
      Res s s' X (c_obj c, pos, List.length (c_names c), first).
    Proof.
      pose proof kc_pd as [Hvm' _].
      induction n as [|n IH]; intros first c s s' X Hpre Hev Hi; simpl in Hev; [discriminate|].
      destruct Hpre as [Hsuf [Hub [Hx Hpd]]].
      eapply guard_case; [exact Hev | exact Hpd|].
      intros s1 Ev Ep En Hb. cbv beta in Hb.
      destruct (star_zero (sl_seq sq) (sr_seq sq) F m (pd_filter id pos k) first c s1) as [r s2] eqn:Ez.
      destruct r; try discriminate.
      set (kn := fun c1 s3 => gfz evs (sl_seq sq) (sr_seq sq) F m true pos (pd_filter id pos k) n false c1 s3) in *.
      assert (Hvn : vmono kn) by (intros c1; apply gfz_vmono; [exact Hevs_vm | exact Hvm']).
      assert (Hi2 : incl (vis s2) V).
      { pose proof (Hevs_vm first c kn Hvn s2) as [Hm _]. rewrite Hb in Hm. eapply incl_tran; eauto. }
      assert (Hpre1 : Pre U' X c s1) by (apply (Pre_eq U' X c s s1 Ep En); exact (conj Hsuf (conj Hub (conj Hx Hpd)))).
      destruct (star_zero_inv first c s1 s2 X Hpre1 Ez Hi2) as [P1 [D1 Hz]].
      assert (Hkn : KC kn (hnext V pos) U').
      { split; [exact Hvn|]. intros c1 s3 s3' X1 Hs1 Hub1 Hx1 Hpd1 Hev1 Hi1.
        destruct (IH false c1 s3 s3' X1 (conj Hs1 (conj Hub1 (conj Hx1 Hpd1))) Hev1 Hi1) as [P [D Hin]].
        split; [exact P|]. split; [exact D|]. unfold hnext. apply memk_of_In. apply Hi1. exact Hin. }
      destruct (Hevs first c kn s2 s' X (Pre_step U' X c c s1 s2 P1 D1 Hsuf Hpre1) Hkn Hb Hi) as [P2 [D2 Hin2]].
      split; [eapply Post_trans; eauto|]. split; [exact D2|].
      eapply Good_intro; [exact Hsite | reflexivity|]. simpl. unfold star_key_ok.
      rewrite (memk_of_In V _ (Hi _ Hin2)). simpl.
      rewrite (sufl_suf names0 c Hsuf). exact Hz.
    Qed.
  End Star.

  (* ---------------------------------------------------------- the evaluator *)
  Lemma base_done pos e H first c s1 s' X :
    Site pos (NElem e) H -> Post s1 s' -> PDI X s' ->
    base_key_ok F m names0 e H (c_obj c, pos, List.length (c_names c), first) = true ->
    match e with EBr _ | EStar _ => False | _ => True end ->
    Post s1 s' /\ PDI X s' /\ Good (c_obj c, pos, List.length (c_names c), first).
  Proof.
    intros Hs P D Hb He. split; [exact P|]. split; [exact D|].
    eapply Good_intro; [exact Hs | reflexivity|]. destruct e; simpl in *; try exact Hb; contradiction.
  Qed.

  Lemma main :
    (forall e pos H first c k s s' U X,
        Site pos (NElem e) H -> Pre U X c s -> KC k H U ->
        ev_elem F m true pos e first c k s = (RNone, s') -> incl (vis s') V ->
        Res s s' X (c_obj c, pos, List.length (c_names c), first)) /\
    (forall p q sq Hq i sq1 j first c k s s' U X,
        Site q (NSeq sq) Hq -> alts_from sq i sq1 -> elems_from (head_path sq1) j p ->
        Pre U X c s -> KC k Hq U ->
        ev_path F m true q i j p first c k s = (RNone, s') -> incl (vis s') V ->
        Res s s' X (c_obj c, j :: i :: q, List.length (c_names c), first)) /\
    (forall sq1,
        (forall q sq Hq i first c k s s' U X,
            Site q (NSeq sq) Hq -> alts_from sq i sq1 -> Pre U X c s -> KC k Hq U ->
            ev_alts F m true q i sq1 first c k s = (RNone, s') -> incl (vis s') V ->
            Post s s' /\ PDI X s' /\
            firsts_in (vis s') q i sq1 (c_obj c) (List.length (c_names c)) first = true) /\
        (forall q Hq first c k s s' U X,
            Site q (NSeq sq1) Hq -> Pre U X c s -> KC k Hq U ->
            ev_seq F m true q sq1 first c k s = (RNone, s') -> incl (vis s') V ->
            Res s s' X (c_obj c, q, List.length (c_names c), first))).
  Proof.
    destruct (ev_vmono F m true) as [VMe [VMp VMs]].
    apply rrel_mutind.
    - (* EParent *)
      intros T0 pos H first c k s s' U X Hs [Hsuf [Hub [Hx Hpd]]] [Hvm Hk] Hev Hi. simpl in Hev.
      eapply guard_case; [exact Hev | exact Hpd|]. intros s1 Ev Ep En Hb. cbv beta in Hb.
      pose proof (Pre_eq U X c s s1 Ep En (conj Hsuf (conj Hub (conj Hx Hpd)))) as [_ [Hub1 [Hx1 Hpd1]]].
      destruct (apply_parent F m T0 (c_obj c)) as [[p|]|] eqn:E; [| |discriminate].
      + destruct (Hk _ s1 s' X (Suf_same c p (c_path c) Hsuf) Hub1 Hx1 Hpd1 Hb Hi) as [P [D Hc]]. simpl in Hc.
        eapply base_done; eauto; [|exact I]. simpl. rewrite E, (sufl_suf names0 c Hsuf). exact Hc.
      + inversion Hb; subst. eapply base_done; eauto; [apply Post_refl | | exact I]. simpl. rewrite E. reflexivity.
    - (* ENav *)
      intros name consume fixed pos H first c k s s' U X Hs [Hsuf [Hub [Hx Hpd]]] Hkc Hev Hi. simpl in Hev.
      eapply guard_case; [exact Hev | exact Hpd|]. intros s1 Ev Ep En Hb. cbv beta in Hb.
      pose proof (Pre_eq U X c s s1 Ep En (conj Hsuf (conj Hub (conj Hx Hpd)))) as [_ [Hub1 [Hx1 Hpd1]]].
      destruct (apply_nav F m name consume fixed first c) as [l| |] eqn:E; try discriminate.
      assert (Hsl : forall c', In c' l -> Suf names0 c').
      { intros c' Hc'. eapply Suf_step; [eapply apply_nav_spec; eauto | exact Hsuf]. }
      destruct (iter_outs_inv k H U l Hkc s1 s' X Hsl Hub1 Hx1 Hpd1 Hb Hi) as [P [D Hl]].
      eapply base_done; eauto; [|exact I]. simpl.
      destruct c as [o ns tr]. simpl in *.
      destruct (apply_nav_repath F m name consume fixed first o ns tr [] l E) as [l' [E' Hmap]].
      pose proof (sufl_suf names0 (mk o ns tr) Hsuf) as Hsf. simpl in Hsf. rewrite Hsf, E'.
      apply forallb_forall. intros c' Hc'.
      assert (Hin : In (on c') (map on l)) by (rewrite <- Hmap; apply in_map; exact Hc').
      apply in_map_iff in Hin as [c2 [Eq Hc2]]. unfold on in Eq. injection Eq as Eo En'.
      rewrite <- Eo, <- En'. apply Hl. exact Hc2.
    - (* EDots *)
      intros n pos H first c k s s' U X Hs [Hsuf [Hub [Hx Hpd]]] [Hvm Hk] Hev Hi. simpl in Hev.
      eapply guard_case; [exact Hev | exact Hpd|]. intros s1 Ev Ep En Hb. cbv beta in Hb.
      pose proof (Pre_eq U X c s s1 Ep En (conj Hsuf (conj Hub (conj Hx Hpd)))) as [_ [Hub1 [Hx1 Hpd1]]].
      destruct (apply_dots m n (c_obj c)) as [p|] eqn:E.
      + destruct (Hk _ s1 s' X (Suf_same c p (c_path c) Hsuf) Hub1 Hx1 Hpd1 Hb Hi) as [P [D Hc]]. simpl in Hc.
        eapply base_done; eauto; [|exact I]. simpl. rewrite E, (sufl_suf names0 c Hsuf). exact Hc.
      + inversion Hb; subst. eapply base_done; eauto; [apply Post_refl | | exact I]. simpl. rewrite E. reflexivity.
    - (* EBr *)
      intros sq [_ IH] pos H first c k s s' U X Hs [Hsuf [Hub [Hx Hpd]]] Hkc Hev Hi. simpl in Hev.
      eapply guard_case; [exact Hev | exact Hpd|]. intros s1 Ev Ep En Hb. cbv beta in Hb.
      pose proof (Pre_eq U X c s s1 Ep En (conj Hsuf (conj Hub (conj Hx Hpd)))) as Hpre1.
      destruct (IH (0 :: pos) H first c k s1 s' U X (S_br _ _ _ Hs) Hpre1 Hkc Hb Hi) as [P [D Hin]].
      split; [exact P|]. split; [exact D|].
      eapply Good_intro; [exact Hs | reflexivity|]. simpl. apply memk_of_In. apply Hi. exact Hin.
    - (* EStar *)
      intros sq [_ IH] pos H first c k s s' U X Hs [Hsuf [Hub [Hx Hpd]]] Hkc Hev Hi. simpl in Hev.
      set (s0 := {| vis := vis s; pds := pds s; nxt := S (nxt s); hit := hit s |}) in *.
      assert (Hpre0 : Pre (U' U (nxt s)) X c s0).
      { split; [exact Hsuf|]. split; [|split].
        - intros u [Hu| ->]; simpl; [specialize (Hub u Hu); lia | lia].
        - intros e He. destruct (Hx e He) as [A B]. simpl. split; [|lia]. intros [Hu|Hu]; [apply A; exact Hu | lia].
        - exact Hpd. }
      destruct (gfz_inv pos sq H Hs U k Hkc (nxt s) Hub
                        (fun f c1 k1 s1 => ev_seq F m true (0 :: pos) sq f c1 k1 s1)
                        (fun f c1 k1 Hk1 => proj2 (VMs sq) (0 :: pos) f c1 k1 Hk1)
                        (fun f c1 k1 s1 s1' X1 Hp1 Hk1 He1 Hi1 =>
                           IH (0 :: pos) (hnext V pos) f c1 k1 s1 s1' (U' U (nxt s)) X1 (S_star _ _ _ Hs) Hp1 Hk1 He1 Hi1)
                        F first c s0 s' X Hpre0 Hev Hi) as [[A [B C]] [D Hin]].
      split; [|split; [exact D | exact Hin]].
      split; [exact A|]. split; [simpl in B; lia | exact C].
    - (* P1 *)
      intros e IH q sq Hq i sq1 j first c k s s' U X Hs Ha He Hpre Hkc Hev Hi. simpl in Hev.
      eapply IH; eauto. eapply S_last; eauto.
    - (* PCons *)
      intros e IHe p IHp q sq Hq i sq1 j first c k s s' U X Hs Ha He Hpre Hkc Hev Hi. simpl in Hev.
      eapply IHe; [eapply S_mid; eauto | exact Hpre | | exact Hev | exact Hi].
      split; [intros c1; apply VMp; exact (proj1 Hkc)|].
      intros c1 s1 s1' X1 Hs1 Hub1 Hx1 Hpd1 Hev1 Hi1.
      destruct (IHp q sq Hq i sq1 (S j) false c1 k s1 s1' U X1 Hs Ha (ef_S _ _ _ _ He)
                    (conj Hs1 (conj Hub1 (conj Hx1 Hpd1))) Hkc Hev1 Hi1) as [P [D Hin]].
      split; [exact P|]. split; [exact D|]. unfold hnext. apply memk_of_In. apply Hi1. exact Hin.
    - (* S1 *)
      intros p IHp. split.
      + intros q sq Hq i first c k s s' U X Hs Ha Hpre Hkc Hev Hi. simpl in Hev.
        destruct (IHp q sq Hq i (S1 p) 0 first c k s s' U X Hs Ha (ef_0 _) Hpre Hkc Hev Hi) as [P [D Hin]].
        split; [exact P|]. split; [exact D|]. simpl. apply memk_of_In. exact Hin.
      + intros q Hq first c k s s' U X Hs [Hsuf [Hub [Hx Hpd]]] Hkc Hev Hi. simpl in Hev.
        eapply guard_case; [exact Hev | exact Hpd|]. intros s1 Ev Ep En Hb. cbv beta in Hb.
        pose proof (Pre_eq U X c s s1 Ep En (conj Hsuf (conj Hub (conj Hx Hpd)))) as Hpre1.
        destruct (IHp q (S1 p) Hq 0 (S1 p) 0 first c k s1 s' U X Hs (af_0 _) (ef_0 _) Hpre1 Hkc Hb Hi) as [P [D Hin]].
        split; [exact P|]. split; [exact D|].
        eapply Good_intro; [exact Hs | reflexivity|]. simpl. apply memk_of_In. apply Hi. exact Hin.
    - (* SCons *)
      intros p IHp sq' [IHa _]. split.
      + intros q sq Hq i first c k s s' U X Hs Ha Hpre Hkc Hev Hi. simpl in Hev.
        destruct (ev_path F m true q i 0 p first c k s) as [r s1] eqn:E. destruct r; try discriminate.
        assert (Hi1 : incl (vis s1) V).
        { pose proof (proj1 (VMs sq') q (S i) first c k (proj1 Hkc) s1) as [Hm _]. rewrite Hev in Hm.
          eapply incl_tran; eauto. }
        destruct (IHp q sq Hq i (SCons p sq') 0 first c k s s1 U X Hs Ha (ef_0 _) Hpre Hkc E Hi1) as [P1 [D1 Hin1]].
        destruct Hpre as [Hsuf Hrest].
        destruct (IHa q sq Hq (S i) first c k s1 s' U X Hs (af_S _ _ _ _ Ha)
                      (Pre_step U X c c s s1 P1 D1 Hsuf (conj Hsuf Hrest)) Hkc Hev Hi) as [P2 [D2 Hf]].
        split; [eapply Post_trans; eauto|]. split; [exact D2|]. simpl.
        apply andb_true_iff. split; [|exact Hf]. apply memk_of_In. apply (proj1 P2). exact Hin1.
      + intros q Hq first c k s s' U X Hs [Hsuf [Hub [Hx Hpd]]] Hkc Hev Hi. simpl in Hev.
        eapply guard_case; [exact Hev | exact Hpd|]. intros s1 Ev Ep En Hb. cbv beta in Hb.
        pose proof (Pre_eq U X c s s1 Ep En (conj Hsuf (conj Hub (conj Hx Hpd)))) as Hpre1.
        destruct (ev_path F m true q 0 0 p first c k s1) as [r s2] eqn:E. destruct r; try discriminate.
        assert (Hi2 : incl (vis s2) V).
        { pose proof (proj1 (VMs sq') q 1 first c k (proj1 Hkc) s2) as [Hm _]. rewrite Hb in Hm.
          eapply incl_tran; eauto. }
        destruct (IHp q (SCons p sq') Hq 0 (SCons p sq') 0 first c k s1 s2 U X Hs (af_0 _) (ef_0 _) Hpre1 Hkc E Hi2)
          as [P1 [D1 Hin1]].
        destruct (IHa q (SCons p sq') Hq 1 first c k s2 s' U X Hs (af_S _ _ _ _ (af_0 _))
                      (Pre_step U X c c s1 s2 P1 D1 Hsuf Hpre1) Hkc Hb Hi) as [P2 [D2 Hf]].
        split; [eapply Post_trans; eauto|]. split; [exact D2|].
        eapply Good_intro; [exact Hs | reflexivity|]. simpl.
        apply andb_true_iff. split.
        * apply memk_of_In. apply Hi. apply (proj1 P2). exact Hin1.
        * eapply firsts_in_incl; [exact Hi | exact Hf].
  Qed.

  (* ---------------------------------------------------------- from good keys to the closure check *)
  Lemma forallb_rule (g : nat * list nat * nat * bool -> bool) pos :
    (forall k, In k V -> pos_of k = pos -> g k = true) -> forallb g (keys_at V pos) = true.
  Proof.
    intro H. apply forallb_forall. intros k Hk. unfold keys_at in Hk. apply filter_In in Hk as [Hin Hp].
    apply H; [exact Hin | apply pos_eqb_eq; exact Hp].
  Qed.

  Hypothesis HG : forall k, In k V -> Good k.

  Lemma good_rule pos n H k : Site pos n H -> In k V -> pos_of k = pos -> key_rule n H pos k = true.
  Proof. intros Hs Hin Hp. pose proof (HG k Hin n H) as Hg. rewrite Hp in Hg. apply Hg. exact Hs. Qed.

  Lemma ck_all :
    (forall e pos H, Site pos (NElem e) H -> ck_elem F m names0 V pos e H = true) /\
    (forall p q sq Hq i sq1 j, Site q (NSeq sq) Hq -> alts_from sq i sq1 -> elems_from (head_path sq1) j p ->
                               ck_path F m names0 V q i j p Hq = true) /\
    (forall sq1 q sq Hq i, Site q (NSeq sq) Hq -> alts_from sq i sq1 -> ck_alts F m names0 V q i sq1 Hq = true).
  Proof.
    apply rrel_mutind.
    - intros T0 pos H Hs. simpl. unfold base_rule. apply forallb_rule. intros k Hin Hp.
      exact (good_rule pos _ H k Hs Hin Hp).
    - intros name consume fixed pos H Hs. simpl. unfold base_rule. apply forallb_rule. intros k Hin Hp.
      exact (good_rule pos _ H k Hs Hin Hp).
    - intros n pos H Hs. simpl. unfold base_rule. apply forallb_rule. intros k Hin Hp.
      exact (good_rule pos _ H k Hs Hin Hp).
    - intros sq IH pos H Hs.
      change (ck_elem F m names0 V pos (EBr sq) H) with
        (br_rule V pos && seq_rule V (0 :: pos) sq && ck_alts F m names0 V (0 :: pos) 0 sq H).
      rewrite (IH (0 :: pos) sq H 0 (S_br _ _ _ Hs) (af_0 _)).
      rewrite andb_true_r. apply andb_true_iff. split.
      + unfold br_rule. apply forallb_rule. intros k Hin Hp. exact (good_rule pos _ H k Hs Hin Hp).
      + unfold seq_rule. apply forallb_rule. intros k Hin Hp.
        exact (good_rule (0 :: pos) _ H k (S_br _ _ _ Hs) Hin Hp).
    - intros sq IH pos H Hs.
      change (ck_elem F m names0 V pos (EStar sq) H) with
        (star_rule F m names0 V pos (sl_seq sq) (sr_seq sq) H && seq_rule V (0 :: pos) sq
         && ck_alts F m names0 V (0 :: pos) 0 sq (hnext V pos)).
      rewrite (IH (0 :: pos) sq (hnext V pos) 0 (S_star _ _ _ Hs) (af_0 _)).
      rewrite andb_true_r. apply andb_true_iff. split.
      + unfold star_rule. apply forallb_rule. intros k Hin Hp. exact (good_rule pos _ H k Hs Hin Hp).
      + unfold seq_rule. apply forallb_rule. intros k Hin Hp.
        exact (good_rule (0 :: pos) _ _ k (S_star _ _ _ Hs) Hin Hp).
    - intros e IH q sq Hq i sq1 j Hs Ha He.
      change (ck_path F m names0 V q i j (P1 e) Hq) with (ck_elem F m names0 V (j :: i :: q) e Hq).
      apply IH. eapply S_last; eauto.
    - intros e IHe p IHp q sq Hq i sq1 j Hs Ha He.
      change (ck_path F m names0 V q i j (PCons e p) Hq) with
        (ck_elem F m names0 V (j :: i :: q) e (hnext V (S j :: i :: q)) && ck_path F m names0 V q i (S j) p Hq).
      apply andb_true_iff. split.
      + apply IHe. eapply S_mid; eauto.
      + eapply IHp; eauto. eapply ef_S; eauto.
    - intros p IHp q sq Hq i Hs Ha.
      change (ck_alts F m names0 V q i (S1 p) Hq) with (ck_path F m names0 V q i 0 p Hq).
      eapply IHp; eauto. apply ef_0.
    - intros p IHp sq' IHa q sq Hq i Hs Ha.
      change (ck_alts F m names0 V q i (SCons p sq') Hq) with
        (ck_path F m names0 V q i 0 p Hq && ck_alts F m names0 V q (S i) sq' Hq).
      apply andb_true_iff. split.
      + eapply IHp; eauto. apply ef_0.
      + eapply IHa; eauto. eapply af_S; eauto.
  Qed.
End Complete.

(* every failed search leaves a closed set of visited keys *)
Theorem fowp_closed F m sq o names T s :
  fowp F m true sq o names T = (RNone, s) -> closure_ok F m names (vis s) sq o T = true.
Proof.
  intro Hev. unfold fowp in Hev.
  destruct (main F m names T sq (vis s)) as [_ [_ Hs]]. destruct (Hs sq) as [Ha _].
  assert (Hpre : Pre m names T sq (vis s) (fun _ => False) (fun _ => False) (mk o names []) st0).
  { split; [exists []; reflexivity|]. split; [intros u []|]. split; [intros e []|]. intros e []. }
  assert (Hkc : KC F m names T sq (vis s) (final m T) (hfinal m T) (fun _ => False)).
  { split.
    - intros c s1. unfold final. destruct (c_names c); [destruct (conf_opt m T (c_obj c))|]; simpl; apply vm_refl.
    - intros c s1 s1' X _ _ _ Hpd Hf _. unfold final in Hf. unfold hfinal.
      destruct (c_names c) as [|n ns].
      + destruct (conf_opt m T (c_obj c)); [discriminate|]. inversion Hf; subst.
        split; [apply Post_refl|]. split; [exact Hpd | reflexivity].
      + inversion Hf; subst. split; [apply Post_refl|]. split; [exact Hpd | reflexivity]. }
  destruct (Ha [] sq (hfinal m T) 0 true (mk o names []) (final m T) st0 s (fun _ => False) (fun _ => False)
               (S_root m T sq (vis s)) (af_0 sq) Hpre Hkc Hev (incl_refl _)) as [[_ [_ Hg]] [_ Hf]].
  unfold closure_ok. simpl in Hf. rewrite Hf. simpl.
  destruct (ck_all F m names T sq (vis s)) as [_ [_ Hck]].
  - intros k Hk. destruct (Hg k Hk) as [[]|G]. exact G.
  - apply (Hck sq [] sq (hfinal m T) 0 (S_root m T sq (vis s)) (af_0 sq)).
Qed.

(* completeness of find: under unique sibling names, "not found" means that no expansion of the
   expression reaches a conforming object with all name parts consumed *)
Theorem find_complete F m sq o names T px :
  siblings_unique m -> find F m true sq o names T px = FNone ->
  forall t tr, ~ justified m sq o names T t tr.
Proof.
  intros Hu Hf. apply find_none_fowp in Hf.
  destruct (fowp F m true sq o names T) as [r s] eqn:E. simpl in Hf. subst r.
  eapply closure_complete; [exact Hu | eapply fowp_closed; exact E].
Qed.

Theorem find_certified_always F m sq o names T :
  fst (fowp F m true sq o names T) = RNone -> find_certified F m true sq o names T = true.
Proof.
  intro H. unfold find_certified. destruct (fowp F m true sq o names T) as [r s] eqn:E. simpl in *. subst r.
  eapply fowp_closed; exact E.
Qed.

Theorem find_complete_exists F m sq o names T px :
  siblings_unique m -> (exists t tr, justified m sq o names T t tr) ->
  find F m true sq o names T px <> FNone.
Proof. intros Hu [t [tr Hj]] Hf. exact (find_complete F m sq o names T px Hu Hf t tr Hj). Qed.

(* the same for the key form read from the source *)
Theorem find_complete_src F m sq o names T px :
  siblings_unique m -> find F m (key_has_first src_facts) sq o names T px = FNone ->
  forall t tr, ~ justified m sq o names T t tr.
Proof. rewrite src_key_form. apply find_complete. Qed.
