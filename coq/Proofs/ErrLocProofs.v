(* Proofs about Model/ErrLoc.v: pos_to_linecol is exact for every text and offset. *)
From TxV Require Import Core.Base Model.ErrLoc.
Require Import Lia.

(* number of "\n" among the first n characters; absolute index of the last one (t starts at offset off) *)
Fixpoint cnt (t : list N) (n : nat) : nat :=
  match n, t with
  | S n', c :: r => (if N.eqb c 10 then 1 else 0) + cnt r n'
  | _, _ => 0
  end.

Fixpoint lastnl (off : nat) (t : list N) (n : nat) : option nat :=
  match n, t with
  | S n', c :: r => match lastnl (S off) r n' with
                    | Some i => Some i
                    | None => if N.eqb c 10 then Some off else None
                    end
  | _, _ => None
  end.

Lemma bisect_small : forall t off x, x <= off -> bisect_left (line_ends_from off t) x = 0.
Proof.
  induction t as [|c r IH]; intros off x Hx; cbn [line_ends_from bisect_left]; [reflexivity|].
  destruct (N.eqb c 10).
  - cbn [bisect_left]. destruct (Nat.ltb_spec off x); [lia | reflexivity].
  - apply IH. lia.
Qed.

Lemma bisect_cnt : forall t off n, n <= length t ->
  bisect_left (line_ends_from off t) (off + n) = cnt t n.
Proof.
  induction t as [|c r IH]; intros off n Hn.
  - cbn in Hn. assert (n = 0) by lia. subst. reflexivity.
  - destruct n as [|n'].
    + cbn [cnt]. apply bisect_small. lia.
    + cbn [length] in Hn. cbn [line_ends_from cnt].
      replace (off + S n') with (S off + n') by lia.
      destruct (N.eqb c 10).
      * cbn [bisect_left]. destruct (Nat.ltb_spec off (S off + n')); [|lia].
        rewrite IH by lia. reflexivity.
      * rewrite IH by lia. reflexivity.
Qed.

Lemma cnt_lastnl_none : forall t off n, cnt t n = 0 <-> lastnl off t n = None.
Proof.
  induction t as [|c r IH]; intros off n.
  - destruct n; cbn; tauto.
  - destruct n as [|n']; [cbn; tauto|].
    cbn [cnt lastnl]. specialize (IH (S off) n').
    destruct (N.eqb c 10), (lastnl (S off) r n') eqn:E.
    + split; [lia | discriminate].
    + split; [lia | discriminate].
    + split; [intro H; apply IH; lia | discriminate].
    + split; [reflexivity | intros _; cbn; apply IH; reflexivity].
Qed.

Lemma nth_cnt_lastnl : forall t off n d, n <= length t -> 0 < cnt t n ->
  lastnl off t n = Some (nth (cnt t n - 1) (line_ends_from off t) d).
Proof.
  induction t as [|c r IH]; intros off n d Hn Hc.
  - destruct n; cbn in Hc; lia.
  - destruct n as [|n']; [cbn in Hc; lia|].
    cbn [length] in Hn. cbn [cnt lastnl line_ends_from] in *.
    destruct (N.eqb c 10).
    + destruct (cnt r n') as [|k] eqn:Ek.
      * assert (E : lastnl (S off) r n' = None) by (apply cnt_lastnl_none; exact Ek).
        rewrite E. reflexivity.
      * specialize (IH (S off) n' d). rewrite Ek in IH.
        rewrite IH by lia. replace (1 + S k - 1) with (S k) by lia. cbn [nth].
        replace (S k - 1) with k by lia. reflexivity.
    + cbn [plus] in *. rewrite (IH (S off) n' d) by lia. reflexivity.
Qed.

Lemma lastnl_bounds : forall t off n i, lastnl off t n = Some i ->
  off <= i /\ i < off + n /\ nth (i - off) t 0%N = 10%N.
Proof.
  induction t as [|c r IH]; intros off n i H.
  - destruct n; discriminate.
  - destruct n as [|n']; [discriminate|].
    cbn [lastnl] in H. destruct (lastnl (S off) r n') eqn:E.
    + inversion H; subst. apply IH in E. destruct E as (A & B & C).
      repeat split; try lia. replace (i - off) with (S (i - S off)) by lia. exact C.
    + destruct (N.eqb_spec c 10); [|discriminate]. inversion H; subst.
      repeat split; try lia. replace (i - i) with 0 by lia. reflexivity.
Qed.

Lemma advance_cnt : forall t off n line col, n <= length t ->
  advance t n line col =
  (line + cnt t n, match lastnl off t n with None => col + n | Some i => off + n - i end).
Proof.
  induction t as [|c r IH]; intros off n line col Hn.
  - cbn in Hn. assert (n = 0) by lia. subst. cbn. f_equal; lia.
  - destruct n as [|n'].
    + cbn. f_equal; lia.
    + cbn [length] in Hn. cbn [advance cnt lastnl].
      destruct (N.eqb c 10).
      * rewrite (IH (S off)) by lia. f_equal; try lia.
        destruct (lastnl (S off) r n'); lia.
      * rewrite (IH (S off)) by lia. f_equal; try lia.
        destruct (lastnl (S off) r n'); lia.
Qed.

(* ---- the main statement: Arpeggio's computation is the walk over the text *)
Theorem pos_to_linecol_exact : forall t pos, pos <= length t ->
  pos_to_linecol t pos = linecol_spec t pos.
Proof.
  intros t pos H. unfold pos_to_linecol, linecol_spec, line_ends.
  rewrite (advance_cnt t 0 pos 1 1 H).
  pose proof (bisect_cnt t 0 pos H) as B. cbn [plus] in B. rewrite B.
  destruct (cnt t pos) as [|k] eqn:Ek.
  - assert (E : lastnl 0 t pos = None) by (apply cnt_lastnl_none; exact Ek).
    rewrite E. cbn. f_equal; lia.
  - assert (Hc : 0 < cnt t pos) by lia.
    pose proof (nth_cnt_lastnl t 0 pos 0 H Hc) as L. rewrite Ek in L.
    rewrite L. destruct (Nat.ltb_spec 0 (S k)); [|lia].
    apply lastnl_bounds in L. destruct L as (_ & L2 & L3).
    replace (nth (S k - 1) (line_ends_from 0 t) 0 - 0) with (nth (S k - 1) (line_ends_from 0 t) 0) in L3 by lia.
    rewrite L3. change (is_nl_cr 10) with true. cbv iota.
    f_equal; lia.
Qed.

(* no truncated subtraction happens in the model: the line end looked up is before pos *)
Lemma pos_to_linecol_no_underflow : forall t pos, pos <= length t ->
  let line := bisect_left (line_ends t) pos in
  0 < line -> nth (line - 1) (line_ends t) 0 < pos.
Proof.
  intros t pos H line Hl. unfold line, line_ends in *.
  pose proof (bisect_cnt t 0 pos H) as B. cbn [plus] in B. rewrite B in *.
  pose proof (nth_cnt_lastnl t 0 pos 0 H Hl) as L.
  apply lastnl_bounds in L. lia.
Qed.

(* ---- bisect_left: the linear definition is the binary search CPython performs, on ascending lists *)
Definition ascending (l : list nat) : Prop := forall i j, i < j -> j < length l -> nth i l 0 <= nth j l 0.

Lemma bisect_left_le_length : forall l x, bisect_left l x <= length l.
Proof. induction l as [|a r IH]; intro x; cbn [bisect_left length]; [lia|]. destruct (a <? x); [specialize (IH x)|]; lia. Qed.

Lemma ascending_tail a r : ascending (a :: r) -> ascending r.
Proof. intros H i j Hij Hj. apply (H (S i) (S j)); cbn; lia. Qed.

Lemma bisect_left_char : forall l x, ascending l ->
  (forall i, i < bisect_left l x -> nth i l 0 < x) /\
  (forall i, bisect_left l x <= i -> i < length l -> x <= nth i l 0).
Proof.
  induction l as [|a r IH]; intros x Ha.
  - split; intros i Hi; cbn in *; lia.
  - cbn [bisect_left]. destruct (Nat.ltb_spec a x) as [Hlt|Hge].
    + destruct (IH x (ascending_tail _ _ Ha)) as [I1 I2]. split.
      * intros [|i] Hi; cbn; [lia | apply I1; lia].
      * intros [|i] Hi Hl; [lia|]. cbn. apply I2; cbn in Hl; lia.
    + split; [intros i Hi; lia|].
      intros [|i] _ Hl; cbn; [lia|].
      specialize (Ha 0 (S i)). cbn in Ha. cbn in Hl. specialize (Ha ltac:(lia) ltac:(lia)). lia.
Qed.

Lemma bisect_bs_correct : forall fuel l x lo hi, ascending l ->
  lo <= bisect_left l x <= hi -> hi <= length l -> hi - lo <= fuel ->
  bisect_bs fuel l x lo hi = bisect_left l x.
Proof.
  induction fuel as [|f IH]; intros l x lo hi Ha Hb Hh Hf.
  - cbn. lia.
  - cbn [bisect_bs]. destruct (Nat.ltb_spec lo hi) as [Hlt|Hge]; [|lia].
    destruct (bisect_left_char l x Ha) as [C1 C2].
    assert (Hm : lo <= (lo + hi) / 2 < hi).
    { split; [apply Nat.div_le_lower_bound; lia | apply Nat.div_lt_upper_bound; lia]. }
    destruct (Nat.ltb_spec (nth ((lo + hi) / 2) l 0) x) as [Hx|Hx].
    + apply IH; try assumption; try lia.
      destruct (Nat.le_gt_cases (bisect_left l x) ((lo + hi) / 2)) as [Hle|Hgt]; [|lia].
      specialize (C2 _ Hle ltac:(lia)). lia.
    + apply IH; try assumption; try lia.
      destruct (Nat.le_gt_cases (bisect_left l x) ((lo + hi) / 2)) as [Hle|Hgt]; [lia|].
      specialize (C1 _ Hgt). lia.
Qed.

Lemma line_ends_from_lower : forall t off i, i < length (line_ends_from off t) -> off <= nth i (line_ends_from off t) 0.
Proof.
  induction t as [|c r IH]; intros off i Hi; cbn [line_ends_from] in *; [cbn in Hi; lia|].
  destruct (N.eqb c 10).
  - destruct i as [|i]; cbn; [lia|]. cbn in Hi. specialize (IH (S off) i ltac:(lia)). lia.
  - specialize (IH (S off) i Hi). lia.
Qed.

Lemma line_ends_ascending : forall t off, ascending (line_ends_from off t).
Proof.
  induction t as [|c r IH]; intros off; cbn [line_ends_from].
  - intros i j _ Hj. cbn in Hj. lia.
  - destruct (N.eqb c 10); [|apply IH].
    intros i j Hij Hj. destruct j as [|j]; [lia|]. cbn in Hj.
    destruct i as [|i]; cbn.
    + pose proof (line_ends_from_lower r (S off) j ltac:(lia)). lia.
    + apply IH; lia.
Qed.

Theorem bisect_is_binary_search : forall t pos,
  bisect_bs (length (line_ends t)) (line_ends t) pos 0 (length (line_ends t)) = bisect_left (line_ends t) pos.
Proof.
  intros t pos. apply bisect_bs_correct.
  - apply line_ends_ascending.
  - split; [lia | apply bisect_left_le_length].
  - lia.
  - lia.
Qed.

(* ---- line/column determine the offset: different offsets of one text never share a location *)
Lemma cnt_mono : forall t n1 n2, n1 <= n2 -> cnt t n1 <= cnt t n2.
Proof.
  induction t as [|c r IH]; intros n1 n2 H; [destruct n1, n2; cbn; lia|].
  destruct n1 as [|n1]; [cbn; lia|]. destruct n2 as [|n2]; [lia|].
  cbn [cnt]. specialize (IH n1 n2 ltac:(lia)). lia.
Qed.

Lemma cnt_eq_lastnl : forall t off n1 n2, n1 <= n2 -> cnt t n1 = cnt t n2 -> lastnl off t n1 = lastnl off t n2.
Proof.
  induction t as [|c r IH]; intros off n1 n2 H E; [destruct n1, n2; reflexivity|].
  destruct n2 as [|n2]; [assert (n1 = 0) by lia; subst; reflexivity|].
  destruct n1 as [|n1].
  - cbn [cnt] in E. symmetry. apply cnt_lastnl_none. cbn [cnt]. lia.
  - cbn [cnt] in E. cbn [lastnl]. rewrite (IH (S off) n1 n2) by lia. reflexivity.
Qed.

Theorem linecol_injective : forall t p1 p2, p1 <= length t -> p2 <= length t ->
  linecol_spec t p1 = linecol_spec t p2 -> p1 = p2.
Proof.
  assert (W : forall t p1 p2, p1 <= p2 -> p2 <= length t -> linecol_spec t p1 = linecol_spec t p2 -> p1 = p2).
  { intros t p1 p2 H12 H2 E. unfold linecol_spec in E.
    rewrite (advance_cnt t 0 p1 1 1), (advance_cnt t 0 p2 1 1) in E by lia.
    inversion E as [[Ec El]].
    assert (Ec' : cnt t p1 = cnt t p2) by lia.
    rewrite (cnt_eq_lastnl t 0 p1 p2 H12 Ec') in El.
    destruct (lastnl 0 t p2) as [i|] eqn:L; [|lia].
    rewrite <- (cnt_eq_lastnl t 0 p1 p2 H12 Ec') in L. apply lastnl_bounds in L. lia. }
  intros t p1 p2 H1 H2 E. destruct (Nat.le_ge_cases p1 p2); [apply (W t); assumption|].
  symmetry. apply (W t); try assumption. symmetry. exact E.
Qed.
