(* The UserCls theorems instantiated with the method-name tuples extracted from textx/model.py
   (Gen/SrcUserCls.v): re-proved against the current source on every run. *)
From TxV Require Import Core.Base Gen.SrcUserCls Model.UserCls Proofs.UserClsProofs.

Lemma src_rep_nodup : NoDup replace_names.
Proof. apply nodupb_sound. vm_compute. reflexivity. Qed.

Lemma src_rep_in_res : forall a, In a replace_names -> In a restore_names.
Proof. apply inclb_sound. vm_compute. reflexivity. Qed.

Lemma src_parent_key : init_extra_key = parent_key.
Proof. vm_compute. reflexivity. Qed.

Definition src_step := step replace_names restore_names.
Definition src_run := run replace_names restore_names.

Lemma src_restored d0 ops :
  s_ctxs (src_run (init d0) ops) = [] -> cls_same d0 (s_cls (src_run (init d0) ops)).
Proof. apply (restored_after_any_history replace_names restore_names src_rep_nodup src_rep_in_res). Qed.

Lemma src_counted d0 ops :
  let s := src_run (init d0) ops in
  k_count (s_cls s) = nrep (s_ctxs s) /\ (forall x, In x (k_store (s_cls s)) -> owned (s_ctxs s) x).
Proof. apply (counted_during_any_history replace_names restore_names src_rep_nodup src_rep_in_res). Qed.

Lemma src_roundtrip d0 : cls_same d0 (cls_restore restore_names (cls_replace replace_names (cls0 d0))).
Proof. apply (replace_restore_roundtrip replace_names restore_names src_rep_nodup src_rep_in_res). Qed.

From TxV Require Import Proofs.UserClsLogProofs.

Lemma src_init_args (V : Type) tx_attrs (attrs : list (list N * V)) kv :
  In kv (init_kwargs tx_attrs attrs) <-> In kv attrs /\ (In (fst kv) tx_attrs \/ fst kv = init_extra_key).
Proof. rewrite src_parent_key. apply init_kwargs_spec. Qed.

Lemma src_init_args_collected (V : Type) tx_attrs (vals : list (list N * V)) pos pos_end parent :
  (forall kv, In kv vals -> In (fst kv) tx_attrs) ->
  ~ In tx_pos_key tx_attrs -> ~ In tx_pos_end_key tx_attrs ->
  init_kwargs tx_attrs (collected vals pos pos_end parent)
  = vals ++ match parent with Some p => [(init_extra_key, p)] | None => [] end.
Proof. rewrite src_parent_key. apply init_kwargs_collected. Qed.

Lemma src_init_order d0 ops c :
  In c (s_ctxs (src_run (init d0) ops)) -> trace_ok (c_trace c).
Proof. apply init_order. Qed.

Lemma src_failed_load_leaves_nothing d0 ops c rest :
  s_ctxs (src_run (init d0) ops) = c :: rest ->
  let s' := src_step (src_run (init d0) ops) Fail in
  (forall x, In x (c_objs c) -> ~ In x (k_store (s_cls s'))) /\
  (forall m, In m (c_mids c) -> ~ In m (s_repo s')) /\
  s_ctxs s' = rest.
Proof. apply (failed_load_leaves_nothing replace_names restore_names src_rep_nodup src_rep_in_res). Qed.

(* after a history that ended (in particular after a failed load) the machine satisfies the
   invariant again, so every statement above holds for whatever is loaded next *)
Lemma src_idle_is_initial d0 ops :
  s_ctxs (src_run (init d0) ops) = [] ->
  cls_same d0 (s_cls (src_run (init d0) ops)) /\
  forall ops2, s_ctxs (src_run (init d0) (ops ++ ops2)) = [] -> cls_same d0 (s_cls (src_run (init d0) (ops ++ ops2))).
Proof. intro E. split; [apply src_restored; exact E | intros ops2; apply src_restored]. Qed.

From TxV Require Import Proofs.UserClsInitProofs.

Lemma src_init_at_most_once d0 ops :
  let s := src_run (init d0) ops in
  NoDup (inited (s_log s)) /\ (forall x, In x (inited (s_log s)) -> ~ In x (pend (s_ctxs s))).
Proof. apply init_at_most_once. Qed.

Lemma src_all_initialised_at_finish d0 ops c rest :
  let s := src_run (init d0) ops in
  s_ctxs s = c :: rest -> c_frames c = [] -> (c_phase c = Ending [] \/ c_phase c = Processing) ->
  forall x, In x (c_objs c) -> In x (inited (s_log s)).
Proof. apply all_initialised_at_finish. Qed.

From TxV Require Import Proofs.UserClsAccessProofs.

Lemma src_has_set : In n_setattr replace_names. Proof. apply mem_str_In. vm_compute. reflexivity. Qed.
Lemma src_has_get : In n_getattribute replace_names. Proof. apply mem_str_In. vm_compute. reflexivity. Qed.
Lemma src_has_del : In n_delattr replace_names. Proof. apply mem_str_In. vm_compute. reflexivity. Qed.

Lemma src_own_accessors_act d0 ops x hit :
  (forall a, d0 a <> TxFn) ->
  let k := s_cls (src_run (init d0) ops) in
  stored k x = false ->
  acting_set k x = of_slot (d0 n_setattr) /\
  acting_get k x hit = of_slot (d0 n_getattribute) /\
  acting_del k x hit = of_slot (d0 n_delattr).
Proof.
  intros H. apply (own_accessors_act replace_names restore_names src_rep_nodup src_rep_in_res d0 H ops x hit
                     src_has_set src_has_get src_has_del).
Qed.

Lemma src_storage_acts d0 ops x :
  (forall a, d0 a <> TxFn) ->
  let k := s_cls (src_run (init d0) ops) in
  stored k x = true -> k_count k <> 0 ->
  acting_set k x = ToStorage /\ acting_get k x true = ToStorage /\ acting_del k x true = ToStorage /\
  acting_get k x false = ToBase.
Proof.
  intros H. apply (storage_acts replace_names restore_names src_rep_nodup src_rep_in_res d0 ops x
                     src_has_set src_has_get src_has_del).
Qed.

Lemma src_other_methods_untouched d0 ops a :
  ~ In a replace_names -> k_dict (s_cls (src_run (init d0) ops)) a = d0 a.
Proof. apply (other_methods_untouched replace_names restore_names src_rep_nodup src_rep_in_res). Qed.
