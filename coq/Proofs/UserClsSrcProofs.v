(* The UserCls theorems instantiated with the method-name tuples extracted from textx/model.py
   (Gen/SrcUserCls.v): re-proved against the current source on every run. *)
From TxV Require Import Core.Base Gen.SrcUserCls Model.UserCls Proofs.UserClsProofs.

Lemma src_rep_nodup : NoDup replace_names.
Proof. apply nodupb_sound. vm_compute. reflexivity. Qed.

Lemma src_rep_in_res : forall a, In a replace_names -> In a restore_names.
Proof. apply inclb_sound. vm_compute. reflexivity. Qed.

Lemma src_parent_key : init_extra_key = parent_key.
Proof. vm_compute. reflexivity. Qed.

Definition src_step := step replace_names restore_names.
Definition src_run := run replace_names restore_names.

Lemma src_restored d0 ops :
  s_ctxs (src_run (init d0) ops) = [] -> cls_same d0 (s_cls (src_run (init d0) ops)).
Proof. apply (restored_after_any_history replace_names restore_names src_rep_nodup src_rep_in_res). Qed.

Lemma src_counted d0 ops :
  let s := src_run (init d0) ops in
  k_count (s_cls s) = nrep (s_ctxs s) /\ (forall x, In x (k_store (s_cls s)) -> owned (s_ctxs s) x).
Proof. apply (counted_during_any_history replace_names restore_names src_rep_nodup src_rep_in_res). Qed.

Lemma src_roundtrip d0 : cls_same d0 (cls_restore restore_names (cls_replace replace_names (cls0 d0))).
Proof. apply (replace_restore_roundtrip replace_names restore_names src_rep_nodup src_rep_in_res). Qed.
