(* Proofs about Model/EdPos.v: the cross-reference list (every reference once, sorted, exact
   spans, for every provider / postponement schedule) and the position map. *)
From Coq Require Import Sorting.Sorted Sorting.Permutation.
From TxV Require Import Core.Base Model.EdPos.

Local Open Scope N_scope.

(* ================================================================ sorting of entries *)
Definition start_le (a b : entry) : Prop := e_start a <= e_start b.
Definition start_lt (a b : entry) : Prop := e_start a < e_start b.

Lemma insert_entry_perm x l : Permutation (x :: l) (insert_entry x l).
Proof.
  induction l as [|y r IH]; cbn [insert_entry]; [apply Permutation_refl|].
  destruct (N.leb (e_start x) (e_start y)); [apply Permutation_refl|].
  eapply perm_trans; [apply perm_swap|]. apply perm_skip. exact IH.
Qed.

Lemma sort_entries_perm l : Permutation l (sort_entries l).
Proof.
  induction l as [|x r IH]; cbn [sort_entries fold_right]; [apply perm_nil|].
  eapply perm_trans; [apply perm_skip; exact IH|]. apply insert_entry_perm.
Qed.

Lemma insert_entry_sorted x l : StronglySorted start_le l -> StronglySorted start_le (insert_entry x l).
Proof.
  induction l as [|y r IH]; intro Hs; cbn [insert_entry].
  - constructor; [constructor | constructor].
  - destruct (N.leb (e_start x) (e_start y)) eqn:E.
    + apply N.leb_le in E. constructor; [exact Hs|].
      constructor; [exact E|].
      apply StronglySorted_inv in Hs as [_ Hall].
      eapply Forall_impl; [|exact Hall]. intros z Hz. unfold start_le in *. lia.
    + apply N.leb_gt in E. apply StronglySorted_inv in Hs as [Hr Hall].
      constructor; [apply IH; exact Hr|].
      eapply Permutation_Forall; [apply insert_entry_perm|].
      constructor; [unfold start_le; lia | exact Hall].
Qed.

Lemma sort_entries_sorted l : StronglySorted start_le (sort_entries l).
Proof.
  induction l as [|x r IH]; cbn [sort_entries fold_right]; [constructor|].
  apply insert_entry_sorted. exact IH.
Qed.

(* ================================================================ resolution rounds *)
(* t is an answer the provider gave for x at some point of some load *)
Definition resolved_of (ans : provider) (xt : cref * target) : Prop :=
  exists h, ans (fst xt) h = Resolved (snd xt).

Lemma step_spec ans pend : forall h h' es d c,
  step ans pend h = Some (h', es, d, c) ->
  exists xts, es = map mk_entry xts /\ Forall (resolved_of ans) xts /\
              Permutation pend (map fst xts ++ d) /\ c = length es.
Proof.
  induction pend as [|x r IH]; intros h h' es d c Hs; cbn [step] in Hs.
  - inversion Hs; subst. exists []. repeat split; constructor.
  - destruct (ans x h) as [t| |] eqn:Ea; [| |discriminate].
    + destruct (step ans r (cid x :: h)) as [[[[h1 es1] d1] c1]|] eqn:Er; [|discriminate].
      inversion Hs; subst. destruct (IH _ _ _ _ _ Er) as [xts [He [Hf [Hp Hc]]]].
      exists ((x, t) :: xts). repeat split.
      * cbn [map]. rewrite He. reflexivity.
      * constructor; [exists h; exact Ea | exact Hf].
      * cbn [map fst app]. apply perm_skip. exact Hp.
      * cbn [length]. rewrite Hc. reflexivity.
    + destruct (step ans r (cid x :: h)) as [[[[h1 es1] d1] c1]|] eqn:Er; [|discriminate].
      inversion Hs; subst. destruct (IH _ _ _ _ _ Er) as [xts [He [Hf [Hp Hc]]]].
      exists xts. repeat split; try assumption.
      eapply perm_trans; [apply perm_skip; exact Hp|]. apply Permutation_middle.
Qed.

(* invariant of one model under construction, relative to the references rs it started with *)
Definition minv (ans : provider) (rs : list cref) (m : list cref * list entry) : Prop :=
  exists xts, Permutation rs (map fst xts ++ fst m) /\ Forall (resolved_of ans) xts /\
              Permutation (snd m) (map mk_entry xts) /\ StronglySorted start_le (snd m).

Lemma minv_init ans rs : minv ans rs (rs, []).
Proof. exists []. cbn. repeat split; try constructor. apply Permutation_refl. Qed.

Lemma round_spec ans ms : forall rss h h' ms' c,
  round ans ms h = Some (h', ms', c) -> Forall2 (minv ans) rss ms -> Forall2 (minv ans) rss ms'.
Proof.
  induction ms as [|[pend lst] r IH]; intros rss h h' ms' c Hr Hinv; cbn [round] in Hr.
  - inversion Hr; subst. exact Hinv.
  - destruct (step ans pend h) as [[[[h1 es] d] c1]|] eqn:Es; [|discriminate].
    destruct (round ans r h1) as [[[h2 r'] c2]|] eqn:Er; [|discriminate].
    inversion Hr; subst. inversion Hinv as [|rs m rss' ms0 Hm Hrest]; subst.
    constructor; [|eapply IH; eassumption].
    destruct Hm as [xts [Hp [Hf [Hl Hs]]]]. cbn [fst snd] in *.
    destruct (step_spec _ _ _ _ _ _ _ Es) as [xts2 [He [Hf2 [Hp2 _]]]].
    exists (xts ++ xts2). cbn [fst snd]. repeat split.
    + rewrite map_app, <- app_assoc. eapply perm_trans; [exact Hp|].
      apply Permutation_app_head. exact Hp2.
    + apply Forall_app; split; assumption.
    + eapply perm_trans; [apply Permutation_sym, sort_entries_perm|].
      rewrite map_app, He. apply Permutation_app_tail. exact Hl.
    + apply sort_entries_sorted.
Qed.

(* what the finished list of one model looks like *)
Definition listed (ans : provider) (rs : list cref) (es : list entry) : Prop :=
  StronglySorted start_le es /\
  exists xts, map fst xts = rs /\ Forall (resolved_of ans) xts /\ Permutation es (map mk_entry xts).

Lemma unresolved_zero ms : unresolved ms = 0%nat -> Forall (fun m : list cref * list entry => fst m = []) ms.
Proof.
  unfold unresolved. induction ms as [|m r IH]; intro H; [constructor|].
  cbn [map concat] in H. rewrite app_length in H.
  constructor; [destruct (fst m); [reflexivity | cbn in H; lia] | apply IH; lia].
Qed.

Lemma minv_done ans rs m : fst m = [] -> minv ans rs m -> listed ans rs (snd m).
Proof.
  intros Hd [xts [Hp [Hf [Hl Hs]]]]. rewrite Hd, app_nil_r in Hp. split; [exact Hs|].
  destruct (Permutation_map_inv _ _ Hp) as [xts' [Hrs Hpx]].
  exists xts'. repeat split.
  - symmetry; exact Hrs.
  - eapply Permutation_Forall; eassumption.
  - eapply perm_trans; [exact Hl|]. apply Permutation_map. exact Hpx.
Qed.

Lemma loop_spec ans fuel : forall rss ms h outs,
  loop fuel ans ms h = Ok outs -> Forall2 (minv ans) rss ms -> Forall2 (listed ans) rss outs.
Proof.
  induction fuel as [|f IH]; intros rss ms h outs Hl Hinv; cbn [loop] in Hl; [discriminate|].
  destruct (round ans ms h) as [[[h' ms'] c]|] eqn:Er; [|discriminate].
  pose proof (round_spec _ _ _ _ _ _ _ Er Hinv) as Hinv'.
  destruct (Nat.ltb 0 (unresolved ms') && Nat.ltb 0 c)%bool eqn:Eb; [eapply IH; eassumption|].
  destruct (Nat.ltb 0 (unresolved ms')) eqn:Eu; [discriminate|].
  inversion Hl; subst. apply Nat.ltb_ge in Eu.
  assert (Hz : unresolved ms' = 0%nat) by lia. apply unresolved_zero in Hz.
  clear - Hinv' Hz. induction Hinv' as [|rs m rss' ms0 Hm Hrest IHf]; cbn [map]; [constructor|].
  inversion Hz; subst. constructor; [apply minv_done; assumption | apply IHf; assumption].
Qed.

Theorem load_listed ans models outs :
  load ans models = Ok outs -> Forall2 (listed ans) models outs.
Proof.
  unfold load. intro Hl. eapply loop_spec; [exact Hl|].
  clear. induction models as [|rs r IH]; cbn [map]; constructor; [apply minv_init | exact IH].
Qed.

(* ================================================================ exact order *)
(* a list sorted strictly and a sorted permutation of it are equal *)
Lemma sorted_perm_eq (l1 : list entry) : forall l2,
  StronglySorted start_lt l1 -> StronglySorted start_le l2 -> Permutation l1 l2 -> l1 = l2.
Proof.
  induction l1 as [|a r1 IH]; intros l2 H1 H2 Hp.
  - apply Permutation_nil in Hp. symmetry; exact Hp.
  - destruct l2 as [|b r2]; [apply Permutation_sym, Permutation_nil in Hp; discriminate|].
    apply StronglySorted_inv in H1 as [H1r H1a]. apply StronglySorted_inv in H2 as [H2r H2b].
    assert (Hab : a = b).
    { assert (Hb : In b (a :: r1)) by (eapply Permutation_in; [apply Permutation_sym; exact Hp | left; reflexivity]).
      assert (Ha : In a (b :: r2)) by (eapply Permutation_in; [exact Hp | left; reflexivity]).
      destruct Hb as [Hb|Hb]; [exact Hb|]. destruct Ha as [Ha|Ha]; [symmetry; exact Ha|].
      rewrite Forall_forall in H1a, H2b. specialize (H1a _ Hb). specialize (H2b _ Ha).
      unfold start_lt, start_le in *. lia. }
    subst b. f_equal. apply IH; try assumption. eapply Permutation_cons_inv; exact Hp.
Qed.

Lemma map_mk_sorted xts :
  StronglySorted N.lt (map cstart (map fst xts)) -> StronglySorted start_lt (map mk_entry xts).
Proof.
  induction xts as [|[x t] r IH]; cbn [map fst]; intro H; [constructor|].
  apply StronglySorted_inv in H as [Hr Ha]. constructor; [apply IH; exact Hr|].
  rewrite Forall_forall in *. intros e He. apply in_map_iff in He as [[y u] [<- Hy]].
  unfold start_lt. cbn. apply Ha. apply in_map. apply (in_map fst) in Hy. exact Hy.
Qed.

(* one-to-one, in the order of the reference texts *)
Definition listed_in_order (ans : provider) (rs : list cref) (es : list entry) : Prop :=
  exists xts, map fst xts = rs /\ Forall (resolved_of ans) xts /\ es = map mk_entry xts.

Theorem load_listed_in_order ans models outs :
  Forall (fun rs => StronglySorted N.lt (map cstart rs)) models ->
  load ans models = Ok outs -> Forall2 (listed_in_order ans) models outs.
Proof.
  intros Hs Hl. apply load_listed in Hl.
  induction Hl as [|rs es rss ess [Hsort [xts [Hrs [Hf Hp]]]] Hrest IH]; [constructor|].
  inversion Hs; subst. constructor; [|apply IH; assumption].
  exists xts. repeat split; try assumption.
  symmetry. apply sorted_perm_eq; [apply map_mk_sorted; assumption | exact Hsort | apply Permutation_sym; exact Hp].
Qed.
