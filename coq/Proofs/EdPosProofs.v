(* Proofs about Model/EdPos.v: the cross-reference list (every reference once, sorted, exact
   spans, for every provider / postponement schedule) and the position map. *)
From Coq Require Import Sorting.Sorted Sorting.Permutation.
From TxV Require Import Core.Base Model.EdPosDefs Gen.SrcEdPos Model.EdPos.

Local Open Scope N_scope.

(* ================================================================ sorting of entries *)
Definition start_le (a b : entry) : Prop := e_start a <= e_start b.
Definition start_lt (a b : entry) : Prop := e_start a < e_start b.

(* the facts translated from the source, as the proofs use them (each holds by computation
   on Gen/SrcEdPos.v, i.e. only while the source has the repaired shape) *)
Lemma ekey_eq e : ekey src_list_key e = e_start e.
Proof. reflexivity. Qed.
Lemma sort_entries_eq l : sort_entries l = sort_entries_core l.
Proof. reflexivity. Qed.
Lemma mk_entry_eq x t : mk_entry (x, t) =
  {| e_ref := cid x; e_name := cname x; e_start := cstart x; e_end := cend x;
     e_file := tfile t; e_dstart := tstart t; e_dend := tend t |}.
Proof. reflexivity. Qed.
Lemma setdefault_eq d x : setdefault d x = if has_key (ikey x) d then d else d ++ [x].
Proof. reflexivity. Qed.
Lemma key_le_eq a b : key_le a b = (N.ltb (fst b) (fst a) || (N.eqb (fst a) (fst b) && N.leb (snd a) (snd b)))%bool.
Proof. reflexivity. Qed.

Lemma insert_entry_perm x l : Permutation (x :: l) (insert_entry x l).
Proof.
  induction l as [|y r IH]; cbn [insert_entry]; [apply Permutation_refl|].
  rewrite (ekey_eq x), (ekey_eq y).
  destruct (N.leb (e_start x) (e_start y)); [apply Permutation_refl|].
  eapply perm_trans; [apply perm_swap|]. apply perm_skip. exact IH.
Qed.

Lemma sort_entries_perm l : Permutation l (sort_entries l).
Proof.
  rewrite sort_entries_eq.
  induction l as [|x r IH]; cbn [sort_entries_core fold_right]; [apply perm_nil|].
  eapply perm_trans; [apply perm_skip; exact IH|]. apply insert_entry_perm.
Qed.

Lemma insert_entry_sorted x l : StronglySorted start_le l -> StronglySorted start_le (insert_entry x l).
Proof.
  induction l as [|y r IH]; intro Hs; cbn [insert_entry].
  - constructor; [constructor | constructor].
  - rewrite (ekey_eq x), (ekey_eq y). destruct (N.leb (e_start x) (e_start y)) eqn:E.
    + apply N.leb_le in E. constructor; [exact Hs|].
      constructor; [exact E|].
      apply StronglySorted_inv in Hs as [_ Hall].
      eapply Forall_impl; [|exact Hall]. intros z Hz. unfold start_le in *. lia.
    + apply N.leb_gt in E. apply StronglySorted_inv in Hs as [Hr Hall].
      constructor; [apply IH; exact Hr|].
      eapply Permutation_Forall; [apply insert_entry_perm|].
      constructor; [unfold start_le; lia | exact Hall].
Qed.

Lemma sort_entries_sorted l : StronglySorted start_le (sort_entries l).
Proof.
  rewrite sort_entries_eq.
  induction l as [|x r IH]; cbn [sort_entries_core fold_right]; [constructor|].
  apply insert_entry_sorted. exact IH.
Qed.

(* ================================================================ resolution rounds *)
(* t is an answer the provider gave for x at some point of some load *)
Definition resolved_of (ans : provider) (xt : cref * target) : Prop :=
  exists h, ans (fst xt) h = Resolved (snd xt).
(* the provider did not find b and the builtins fallback resolved it *)
Definition builtin_of (ans : provider) (bi : cref -> bool) (b : cref) : Prop :=
  bi b = true /\ exists h, ans b h = NotFound.

Lemma step_spec ans bi pend : forall h h' es d c,
  step ans bi pend h = Some (h', es, d, c) ->
  exists xts bs, es = map mk_entry xts /\ Forall (resolved_of ans) xts /\ Forall (builtin_of ans bi) bs /\
                 Permutation pend (map fst xts ++ bs ++ d) /\ c = (length es + length bs)%nat.
Proof.
  induction pend as [|x r IH]; intros h h' es d c Hs; cbn [step] in Hs.
  - inversion Hs; subst. exists [], []. repeat split; constructor.
  - destruct (ans x h) as [t| |] eqn:Ea.
    + destruct (step ans bi r (cid x :: h)) as [[[[h1 es1] d1] c1]|] eqn:Er; [|discriminate].
      inversion Hs; subst. destruct (IH _ _ _ _ _ Er) as [xts [bs [He [Hf [Hb [Hp Hc]]]]]].
      exists ((x, t) :: xts), bs. repeat split; try assumption.
      * cbn [map]. rewrite He. reflexivity.
      * constructor; [exists h; exact Ea | exact Hf].
      * cbn [map fst app]. apply perm_skip. exact Hp.
      * cbn [length]. lia.
    + destruct (step ans bi r (cid x :: h)) as [[[[h1 es1] d1] c1]|] eqn:Er; [|discriminate].
      inversion Hs; subst. destruct (IH _ _ _ _ _ Er) as [xts [bs [He [Hf [Hb [Hp Hc]]]]]].
      exists xts, bs. repeat split; try assumption.
      eapply perm_trans; [apply perm_skip; exact Hp|].
      rewrite !app_assoc. apply Permutation_middle.
    + destruct (bi x) eqn:Eb; [|discriminate].
      destruct (step ans bi r (cid x :: h)) as [[[[h1 es1] d1] c1]|] eqn:Er; [|discriminate].
      inversion Hs; subst. destruct (IH _ _ _ _ _ Er) as [xts [bs [He [Hf [Hb [Hp Hc]]]]]].
      exists xts, (x :: bs). repeat split; try assumption.
      * constructor; [split; [exact Eb | exists h; exact Ea] | exact Hb].
      * eapply perm_trans; [apply perm_skip; exact Hp|]. cbn [app]. apply Permutation_middle.
      * cbn [length]. lia.
Qed.

Lemma perm_merge {A} (a b p a2 b2 d : list A) :
  Permutation p (a2 ++ b2 ++ d) -> Permutation (a ++ b ++ p) ((a ++ a2) ++ (b ++ b2) ++ d).
Proof.
  intro H. eapply perm_trans; [apply Permutation_app_head, Permutation_app_head; exact H|].
  rewrite <- !app_assoc. apply Permutation_app_head.
  rewrite (app_assoc b a2), (app_assoc a2 b). apply Permutation_app_tail, Permutation_app_comm.
Qed.

(* invariant of one model under construction, relative to the references rs it started with *)
Definition minv (ans : provider) (bi : cref -> bool) (rs : list cref) (m : list cref * list entry) : Prop :=
  exists xts bs, Permutation rs (map fst xts ++ bs ++ fst m) /\ Forall (resolved_of ans) xts /\
                 Forall (builtin_of ans bi) bs /\
                 Permutation (snd m) (map mk_entry xts) /\ StronglySorted start_le (snd m).

Lemma minv_init ans bi rs : minv ans bi rs (rs, []).
Proof. exists [], []. cbn. repeat split; try constructor. apply Permutation_refl. Qed.

Lemma round_spec ans bi ms : forall rss h h' ms' c,
  round ans bi ms h = Some (h', ms', c) -> Forall2 (minv ans bi) rss ms -> Forall2 (minv ans bi) rss ms'.
Proof.
  induction ms as [|[pend lst] r IH]; intros rss h h' ms' c Hr Hinv; cbn [round] in Hr.
  - inversion Hr; subst. exact Hinv.
  - destruct (step ans bi pend h) as [[[[h1 es] d] c1]|] eqn:Es; [|discriminate].
    destruct (round ans bi r h1) as [[[h2 r'] c2]|] eqn:Er; [|discriminate].
    inversion Hr; subst. inversion Hinv as [|rs m rss' ms0 Hm Hrest]; subst.
    constructor; [|eapply IH; eassumption].
    destruct Hm as [xts [bs [Hp [Hf [Hb [Hl Hs]]]]]]. cbn [fst snd] in *.
    destruct (step_spec _ _ _ _ _ _ _ _ Es) as [xts2 [bs2 [He [Hf2 [Hb2 [Hp2 _]]]]]].
    exists (xts ++ xts2), (bs ++ bs2). cbn [fst snd]. repeat split.
    + rewrite map_app. eapply perm_trans; [exact Hp|]. apply perm_merge. exact Hp2.
    + apply Forall_app; split; assumption.
    + apply Forall_app; split; assumption.
    + eapply perm_trans; [apply Permutation_sym, sort_entries_perm|].
      rewrite map_app, He. apply Permutation_app_tail. exact Hl.
    + apply sort_entries_sorted.
Qed.

(* what the finished list of one model looks like: sorted; one entry for each reference the
   provider resolved to a model object (xts), none for the references resolved through the
   builtins (bs); together they are all the references of the model *)
Definition listed (ans : provider) (bi : cref -> bool) (rs : list cref) (es : list entry) : Prop :=
  StronglySorted start_le es /\
  exists xts bs, Permutation rs (map fst xts ++ bs) /\ Forall (resolved_of ans) xts /\
                 Forall (builtin_of ans bi) bs /\ Permutation es (map mk_entry xts).

Lemma unresolved_zero ms : unresolved ms = 0%nat -> Forall (fun m : list cref * list entry => fst m = []) ms.
Proof.
  unfold unresolved. induction ms as [|m r IH]; intro H; [constructor|].
  cbn [map concat] in H. rewrite app_length in H.
  constructor; [destruct (fst m); [reflexivity | cbn in H; lia] | apply IH; lia].
Qed.

Lemma minv_done ans bi rs m : fst m = [] -> minv ans bi rs m -> listed ans bi rs (snd m).
Proof.
  intros Hd [xts [bs [Hp [Hf [Hb [Hl Hs]]]]]]. rewrite Hd, app_nil_r in Hp. split; [exact Hs|].
  exists xts, bs. repeat split; assumption.
Qed.

Lemma loop_spec ans bi fuel : forall rss ms h outs,
  loop fuel ans bi ms h = Ok outs -> Forall2 (minv ans bi) rss ms -> Forall2 (listed ans bi) rss outs.
Proof.
  induction fuel as [|f IH]; intros rss ms h outs Hl Hinv; cbn [loop] in Hl; [discriminate|].
  destruct (round ans bi ms h) as [[[h' ms'] c]|] eqn:Er; [|discriminate].
  pose proof (round_spec _ _ _ _ _ _ _ _ Er Hinv) as Hinv'.
  destruct (Nat.ltb 0 (unresolved ms') && Nat.ltb 0 c)%bool eqn:Eb; [eapply IH; eassumption|].
  destruct (Nat.ltb 0 (unresolved ms')) eqn:Eu; [discriminate|].
  inversion Hl; subst. apply Nat.ltb_ge in Eu.
  assert (Hz : unresolved ms' = 0%nat) by lia. apply unresolved_zero in Hz.
  clear - Hinv' Hz. induction Hinv' as [|rs m rss' ms0 Hm Hrest IHf]; cbn [map]; [constructor|].
  inversion Hz; subst. constructor; [apply minv_done; assumption | apply IHf; assumption].
Qed.

Theorem load_listed ans bi models outs :
  load ans bi models = Ok outs -> Forall2 (listed ans bi) models outs.
Proof.
  unfold load. intro Hl. eapply loop_spec; [exact Hl|].
  clear. induction models as [|rs r IH]; cbn [map]; constructor; [apply minv_init | exact IH].
Qed.

(* every model of the load - not only the main one - ends with a sorted list *)
Theorem load_all_sorted ans bi models outs :
  load ans bi models = Ok outs -> length outs = length models /\ Forall (StronglySorted start_le) outs.
Proof.
  intro Hl. apply load_listed in Hl.
  induction Hl as [|rs es rss ess [Hs _] _ [IH1 IH2]]; [split; [reflexivity | constructor]|].
  split; [cbn [length]; rewrite IH1; reflexivity | constructor; assumption].
Qed.

(* without builtins every reference of the model has its entry *)
Definition listed_all (ans : provider) (rs : list cref) (es : list entry) : Prop :=
  StronglySorted start_le es /\
  exists xts, map fst xts = rs /\ Forall (resolved_of ans) xts /\ Permutation es (map mk_entry xts).

Lemma listed_no_builtins ans bi rs es :
  (forall x, In x rs -> bi x = false) -> listed ans bi rs es -> listed_all ans rs es.
Proof.
  intros Hbi [Hs [xts [bs [Hp [Hf [Hb Hl]]]]]]. split; [exact Hs|].
  assert (bs = []) as ->.
  { destruct bs as [|b bs']; [reflexivity|]. exfalso.
    inversion Hb as [|b0 l0 [Hb1 _] _]; subst.
    assert (In b rs) by (eapply Permutation_in; [apply Permutation_sym; exact Hp | apply in_or_app; right; left; reflexivity]).
    rewrite (Hbi _ H) in Hb1. discriminate. }
  rewrite app_nil_r in Hp.
  destruct (Permutation_map_inv _ _ Hp) as [xts' [Hrs Hpx]].
  exists xts'. repeat split.
  - symmetry; exact Hrs.
  - eapply Permutation_Forall; eassumption.
  - eapply perm_trans; [exact Hl|]. apply Permutation_map. exact Hpx.
Qed.

Theorem load_listed_no_builtins ans bi models outs :
  (forall x, bi x = false) ->
  load ans bi models = Ok outs -> Forall2 (listed_all ans) models outs.
Proof.
  intros Hbi Hl. apply load_listed in Hl.
  induction Hl as [|rs es rss ess H _ IH]; constructor; [|exact IH].
  eapply listed_no_builtins; [intros x _; apply Hbi | exact H].
Qed.

(* ================================================================ exact order *)
Lemma lt_sorted_nodup (l : list N) : StronglySorted N.lt l -> NoDup l.
Proof.
  induction l as [|x r IH]; intro H; [constructor|].
  apply StronglySorted_inv in H as [Hr Hx]. constructor; [|apply IH; exact Hr].
  intro Hin. rewrite Forall_forall in Hx. specialize (Hx _ Hin). lia.
Qed.

Lemma nodup_app_l {A} (a b : list A) : NoDup (a ++ b) -> NoDup a.
Proof.
  induction a as [|x r IH]; intro H; [constructor|]. cbn [app] in H.
  apply NoDup_cons_iff in H as [Hx Hr]. constructor; [|apply IH; exact Hr].
  intro Hin. apply Hx. apply in_or_app; left; exact Hin.
Qed.

Lemma le_nodup_lt (l : list N) : StronglySorted N.le l -> NoDup l -> StronglySorted N.lt l.
Proof.
  induction l as [|x r IH]; intros H Hn; [constructor|].
  apply StronglySorted_inv in H as [Hr Hx]. apply NoDup_cons_iff in Hn as [Hnx Hnr].
  constructor; [apply IH; assumption|]. rewrite Forall_forall in *. intros y Hy.
  specialize (Hx _ Hy). assert (x <> y) by (intro; subst; contradiction). lia.
Qed.

Lemma mk_sorted_starts xts :
  StronglySorted start_le (map mk_entry xts) -> StronglySorted N.le (map cstart (map fst xts)).
Proof.
  induction xts as [|[x t] r IH]; cbn [map fst]; intro H; [constructor|].
  apply StronglySorted_inv in H as [Hr Ha]. constructor; [apply IH; exact Hr|].
  rewrite Forall_forall in *. intros p Hp. apply in_map_iff in Hp as [y [<- Hy]].
  apply in_map_iff in Hy as [[y' u] [<- Hyu]]. cbn [fst].
  specialize (Ha (mk_entry (y', u)) (in_map _ _ _ Hyu)).
  unfold start_le in Ha. rewrite !mk_entry_eq in Ha. cbn [e_start] in Ha. exact Ha.
Qed.

(* the list is exactly the entries of the provider-resolved references, in text order *)
Definition listed_in_order (ans : provider) (bi : cref -> bool) (rs : list cref) (es : list entry) : Prop :=
  exists xts bs, es = map mk_entry xts /\ Permutation rs (map fst xts ++ bs) /\
                 Forall (resolved_of ans) xts /\ Forall (builtin_of ans bi) bs /\
                 StronglySorted N.lt (map cstart (map fst xts)).

Lemma listed_order ans bi rs es :
  StronglySorted N.lt (map cstart rs) -> listed ans bi rs es -> listed_in_order ans bi rs es.
Proof.
  intros Hrs [Hs [xts [bs [Hp [Hf [Hb Hl]]]]]].
  destruct (Permutation_map_inv _ _ Hl) as [xts' [He Hpx]]. subst es.
  assert (Hp' : Permutation rs (map fst xts' ++ bs)).
  { eapply perm_trans; [exact Hp|]. apply Permutation_app_tail, Permutation_map. exact Hpx. }
  exists xts', bs. repeat split; try assumption.
  - eapply Permutation_Forall; eassumption.
  - apply le_nodup_lt; [apply mk_sorted_starts; exact Hs|].
    apply lt_sorted_nodup in Hrs.
    eapply Permutation_NoDup in Hrs; [|apply Permutation_map; exact Hp'].
    rewrite map_app in Hrs. eapply nodup_app_l; exact Hrs.
Qed.

Theorem load_listed_in_order ans bi models outs :
  Forall (fun rs => StronglySorted N.lt (map cstart rs)) models ->
  load ans bi models = Ok outs -> Forall2 (listed_in_order ans bi) models outs.
Proof.
  intros Hs Hl. apply load_listed in Hl.
  induction Hl as [|rs es rss ess H Hrest IH]; [constructor|].
  inversion Hs; subst. constructor; [apply listed_order; assumption | apply IH; assumption].
Qed.

(* without builtins: entry by entry the references of the model, in their order *)
Lemma sorted_perm_eq (l1 : list entry) : forall l2,
  StronglySorted start_lt l1 -> StronglySorted start_le l2 -> Permutation l1 l2 -> l1 = l2.
Proof.
  induction l1 as [|a r1 IH]; intros l2 H1 H2 Hp.
  - apply Permutation_nil in Hp. symmetry; exact Hp.
  - destruct l2 as [|b r2]; [apply Permutation_sym, Permutation_nil in Hp; discriminate|].
    apply StronglySorted_inv in H1 as [H1r H1a]. apply StronglySorted_inv in H2 as [H2r H2b].
    assert (Hab : a = b).
    { assert (Hb : In b (a :: r1)) by (eapply Permutation_in; [apply Permutation_sym; exact Hp | left; reflexivity]).
      assert (Ha : In a (b :: r2)) by (eapply Permutation_in; [exact Hp | left; reflexivity]).
      destruct Hb as [Hb|Hb]; [exact Hb|]. destruct Ha as [Ha|Ha]; [symmetry; exact Ha|].
      rewrite Forall_forall in H1a, H2b. specialize (H1a _ Hb). specialize (H2b _ Ha).
      unfold start_lt, start_le in *. lia. }
    subst b. f_equal. apply IH; try assumption. eapply Permutation_cons_inv; exact Hp.
Qed.

Lemma map_mk_sorted xts :
  StronglySorted N.lt (map cstart (map fst xts)) -> StronglySorted start_lt (map mk_entry xts).
Proof.
  induction xts as [|[x t] r IH]; cbn [map fst]; intro H; [constructor|].
  apply StronglySorted_inv in H as [Hr Ha]. constructor; [apply IH; exact Hr|].
  rewrite Forall_forall in *. intros e He. apply in_map_iff in He as [[y u] [<- Hy]].
  unfold start_lt. rewrite !mk_entry_eq. cbn [e_start]. apply Ha. apply in_map. apply (in_map fst) in Hy. exact Hy.
Qed.

Definition listed_exactly (ans : provider) (rs : list cref) (es : list entry) : Prop :=
  exists xts, map fst xts = rs /\ Forall (resolved_of ans) xts /\ es = map mk_entry xts.

Theorem load_listed_exactly ans bi models outs :
  (forall x, bi x = false) ->
  Forall (fun rs => StronglySorted N.lt (map cstart rs)) models ->
  load ans bi models = Ok outs -> Forall2 (listed_exactly ans) models outs.
Proof.
  intros Hbi Hs Hl. apply (load_listed_no_builtins _ _ _ _ Hbi) in Hl.
  induction Hl as [|rs es rss ess [Hsort [xts [Hrs [Hf Hp]]]] Hrest IH]; [constructor|].
  inversion Hs; subst. constructor; [|apply IH; assumption].
  exists xts. repeat split; try assumption.
  symmetry. apply sorted_perm_eq; [apply map_mk_sorted; assumption | exact Hsort | apply Permutation_sym; exact Hp].
Qed.

(* ================================================================ models already in a repository *)
Definition repo_listed (ans : provider) (bi : cref -> bool) (g : gmodel) (es : list entry) : Prop :=
  match g with Fresh rs => listed ans bi rs es | Done es0 => es = es0 end.

Lemma merge_spec ans bi gms : forall outs,
  Forall2 (listed ans bi) (fresh_refs gms) outs -> Forall2 (repo_listed ans bi) gms (merge gms outs).
Proof.
  induction gms as [|[rs|es0] r IH]; intros outs H; cbn [merge].
  - constructor.
  - cbn [fresh_refs flat_map app] in H. inversion H as [|? o ? outs' Ho Hr]; subst.
    constructor; [exact Ho | apply IH; exact Hr].
  - constructor; [reflexivity | apply IH; exact H].
Qed.

Theorem load_repo_listed ans bi gms outs :
  load_repo ans bi gms = Ok outs -> Forall2 (repo_listed ans bi) gms outs.
Proof.
  unfold load_repo. destruct (load ans bi (fresh_refs gms)) as [o| | |] eqn:El; try discriminate.
  intro H. inversion H; subst. apply merge_spec. apply load_listed. exact El.
Qed.

Theorem load_repo_all_sorted ans bi gms outs :
  Forall (fun g => match g with Done es => StronglySorted start_le es | Fresh _ => True end) gms ->
  load_repo ans bi gms = Ok outs -> Forall (StronglySorted start_le) outs.
Proof.
  intros Hd Hl. apply load_repo_listed in Hl.
  induction Hl as [|g es gms' outs' Hg _ IH]; [constructor|].
  inversion Hd; subst. constructor; [|apply IH; assumption].
  destruct g as [rs|es0]; cbn in Hg; [destruct Hg as [Hs _]; exact Hs | subst; assumption].
Qed.

(* ================================================================ trees *)
Lemma node_ind' (P : node -> Prop) :
  (forall i s e kids, Forall P kids -> P (NObj i s e kids)) ->
  (forall i s e nm, P (NRef i s e nm)) ->
  (forall s e, P (NTok s e)) ->
  forall n, P n.
Proof.
  intros HO HR HT. fix IH 1. intros [i s e kids|i s e nm|s e].
  - apply HO. induction kids as [|k r IHr]; constructor; [apply IH | exact IHr].
  - apply HR.
  - apply HT.
Qed.

Lemma flat_map_split {A B} (f : A -> list B) l1 x l2 :
  flat_map f (l1 ++ x :: l2) = flat_map f l1 ++ f x ++ flat_map f l2.
Proof. rewrite flat_map_app. cbn [flat_map]. reflexivity. Qed.

(* the registrations of a subtree are a contiguous block of those of the tree *)
Lemma subnode_objs t : forall n, In n (subnodes t) -> exists pre post, objs_post t = pre ++ objs_post n ++ post.
Proof.
  induction t as [i s e kids IHk|i s e nm|s e] using node_ind'; intros n Hn.
  - cbn [subnodes] in Hn. destruct Hn as [<-|Hn].
    + exists [], []. rewrite app_nil_r. reflexivity.
    + apply in_flat_map in Hn as [k [Hk Hnk]].
      rewrite Forall_forall in IHk. destruct (IHk _ Hk _ Hnk) as [pre [post Hd]].
      apply in_split in Hk as [k1 [k2 ->]].
      cbn [objs_post]. rewrite flat_map_split, Hd.
      exists (flat_map objs_post k1 ++ pre), (post ++ flat_map objs_post k2 ++ [(s, e, i)]).
      repeat rewrite <- app_assoc. reflexivity.
  - cbn in Hn. destruct Hn as [<-|[]]. exists [], []. reflexivity.
  - cbn in Hn. destruct Hn as [<-|[]]. exists [], []. reflexivity.
Qed.

Lemma subnode_obj_in t i s e kids : In (NObj i s e kids) (subnodes t) -> In (s, e, i) (objs_post t).
Proof.
  intro H. apply subnode_objs in H as [pre [post ->]]. cbn [objs_post].
  apply in_or_app; right. apply in_or_app; left. apply in_or_app; right. left; reflexivity.
Qed.

(* ================================================================ position map *)
Lemma key_eqb_eq a b : key_eqb a b = true <-> a = b.
Proof.
  unfold key_eqb. destruct a as [a1 a2], b as [b1 b2]. cbn [fst snd].
  rewrite andb_true_iff, !N.eqb_eq. split; [intros [-> ->]; reflexivity | intro H; inversion H; split; reflexivity].
Qed.

Lemma has_key_app k a b : has_key k (a ++ b) = (has_key k a || has_key k b)%bool.
Proof. unfold has_key. apply existsb_app. Qed.

Lemma has_key_cons k y l : has_key k (y :: l) = (key_eqb k (ikey y) || has_key k l)%bool.
Proof. reflexivity. Qed.

Lemma has_key_true k d : has_key k d = true <-> In k (map ikey d).
Proof.
  unfold has_key. rewrite existsb_exists. split.
  - intros [y [Hy E]]. apply key_eqb_eq in E. subst. apply in_map. exact Hy.
  - intro H. apply in_map_iff in H as [y [<- Hy]]. exists y. split; [exact Hy | apply key_eqb_eq; reflexivity].
Qed.

Lemma has_key_false k d : has_key k d = false <-> ~ In k (map ikey d).
Proof.
  rewrite <- has_key_true. destruct (has_key k d); split; intro H.
  - discriminate.
  - exfalso; apply H; reflexivity.
  - intro; discriminate.
  - reflexivity.
Qed.

Lemma fold_in l : forall d x,
  In x (fold_left setdefault l d) ->
  In x d \/ (has_key (ikey x) d = false /\ exists l1 l2, l = l1 ++ x :: l2 /\ has_key (ikey x) l1 = false).
Proof.
  induction l as [|y r IH]; intros d x Hx; cbn [fold_left] in Hx; [left; exact Hx|].
  apply IH in Hx as [Hx|[Hk [l1 [l2 [-> Hl1]]]]].
  - rewrite setdefault_eq in Hx. destruct (has_key (ikey y) d) eqn:Ey; [left; exact Hx|].
    apply in_app_or in Hx as [Hx|[<-|[]]]; [left; exact Hx|].
    right. split; [exact Ey|]. exists [], r. split; reflexivity.
  - right. rewrite setdefault_eq in Hk. destruct (has_key (ikey y) d) eqn:Ey.
    + split; [exact Hk|]. exists (y :: l1), l2. split; [reflexivity|].
      rewrite has_key_cons, Hl1, orb_false_r.
      destruct (key_eqb (ikey x) (ikey y)) eqn:E; [|reflexivity].
      apply key_eqb_eq in E. rewrite E in Hk. congruence.
    + rewrite has_key_app in Hk. apply orb_false_iff in Hk as [Hk1 Hk2].
      split; [exact Hk1|]. exists (y :: l1), l2. split; [reflexivity|].
      rewrite has_key_cons in *. cbn [has_key existsb] in Hk2. rewrite orb_false_r in Hk2.
      rewrite Hk2, Hl1. reflexivity.
Qed.

Lemma fold_nodup l : forall d, NoDup (map ikey d) -> NoDup (map ikey (fold_left setdefault l d)).
Proof.
  induction l as [|y r IH]; intros d Hd; cbn [fold_left]; [exact Hd|].
  apply IH. rewrite setdefault_eq. destruct (has_key (ikey y) d) eqn:Ey; [exact Hd|].
  rewrite map_app. cbn [map]. apply has_key_false in Ey.
  eapply Permutation_NoDup; [apply Permutation_cons_append|]. constructor; assumption.
Qed.

Lemma fold_keeps l : forall d k, has_key k d = true -> has_key k (fold_left setdefault l d) = true.
Proof.
  induction l as [|y r IH]; intros d k Hk; cbn [fold_left]; [exact Hk|].
  apply IH. rewrite setdefault_eq. destruct (has_key (ikey y) d); [exact Hk|].
  rewrite has_key_app, Hk. reflexivity.
Qed.

Lemma fold_complete l : forall d x, In x l -> has_key (ikey x) (fold_left setdefault l d) = true.
Proof.
  induction l as [|y r IH]; intros d x Hx; [destruct Hx|]. cbn [fold_left].
  destruct Hx as [->|Hx]; [|apply IH; exact Hx].
  apply fold_keeps. rewrite setdefault_eq. destruct (has_key (ikey x) d) eqn:E; [exact E|].
  rewrite has_key_app, has_key_cons.
  replace (key_eqb (ikey x) (ikey x)) with true by (symmetry; apply key_eqb_eq; reflexivity).
  rewrite orb_true_r. reflexivity.
Qed.

(* sorting of the items *)
Definition key_leP (x y : N * N * nat) : Prop := key_le (ikey x) (ikey y) = true.

Lemma insert_item_perm x l : Permutation (x :: l) (insert_item x l).
Proof.
  induction l as [|y r IH]; cbn [insert_item]; [apply Permutation_refl|].
  destruct (key_le (ikey x) (ikey y)); [apply Permutation_refl|].
  eapply perm_trans; [apply perm_swap|]. apply perm_skip. exact IH.
Qed.

Lemma sort_items_perm l : Permutation l (sort_items l).
Proof.
  induction l as [|x r IH]; cbn [sort_items fold_right]; [apply perm_nil|].
  eapply perm_trans; [apply perm_skip; exact IH|]. apply insert_item_perm.
Qed.

Lemma key_le_total a b : key_le a b = false -> key_le b a = true.
Proof.
  rewrite !key_le_eq. destruct a as [a1 a2], b as [b1 b2]. cbn [fst snd]. intro H.
  apply orb_false_iff in H as [H1 H2]. apply N.ltb_ge in H1.
  destruct (N.ltb a1 b1) eqn:E; [reflexivity|]. apply N.ltb_ge in E.
  assert (a1 = b1) by lia. subst. rewrite N.eqb_refl in *. cbn [andb orb] in *.
  apply N.leb_gt in H2. apply N.leb_le. lia.
Qed.

Lemma key_le_trans a b c : key_le a b = true -> key_le b c = true -> key_le a c = true.
Proof.
  rewrite !key_le_eq. destruct a as [a1 a2], b as [b1 b2], c as [c1 c2]. cbn [fst snd].
  rewrite !orb_true_iff, !andb_true_iff, !N.ltb_lt, !N.eqb_eq, !N.leb_le. intros H1 H2.
  destruct H1 as [H1|[-> H1]], H2 as [H2|[-> H2]]; try (left; lia). right; split; [reflexivity | lia].
Qed.

Lemma insert_item_sorted x l : StronglySorted key_leP l -> StronglySorted key_leP (insert_item x l).
Proof.
  induction l as [|y r IH]; intro Hs; cbn [insert_item].
  - constructor; constructor.
  - destruct (key_le (ikey x) (ikey y)) eqn:E.
    + constructor; [exact Hs|]. constructor; [exact E|].
      apply StronglySorted_inv in Hs as [_ Hall]. eapply Forall_impl; [|exact Hall].
      intros z Hz. unfold key_leP in *. eapply key_le_trans; eassumption.
    + apply key_le_total in E. apply StronglySorted_inv in Hs as [Hr Hall].
      constructor; [apply IH; exact Hr|].
      eapply Permutation_Forall; [apply insert_item_perm|]. constructor; [exact E | exact Hall].
Qed.

Lemma sort_items_sorted l : StronglySorted key_leP (sort_items l).
Proof.
  induction l as [|x r IH]; cbn [sort_items fold_right]; [constructor|].
  apply insert_item_sorted. exact IH.
Qed.

(* ---- the statements *)
Theorem dict_sound t x : In x (rule_dict t) -> In x (objs_post t).
Proof.
  intro H. unfold rule_dict in H. eapply Permutation_in in H; [|apply Permutation_sym, sort_items_perm].
  unfold dict_raw in H. apply fold_in in H as [[]|[_ [l1 [l2 [-> _]]]]].
  apply in_or_app; right; left; reflexivity.
Qed.

Theorem dict_complete t x : In x (objs_post t) -> exists v, In (ikey x, v) (rule_dict t).
Proof.
  intro H. apply (fold_complete _ []) in H. apply has_key_true in H.
  apply in_map_iff in H as [[k v] [Hk Hy]]. cbn [ikey fst] in Hk. subst k.
  exists v. eapply Permutation_in; [apply sort_items_perm | exact Hy].
Qed.

Theorem dict_keys_nodup t : NoDup (map ikey (rule_dict t)).
Proof.
  eapply Permutation_NoDup; [apply Permutation_map, sort_items_perm|].
  apply fold_nodup. constructor.
Qed.

Lemma split_unique {A} (x : A) : forall a a' b b',
  ~ In x a -> ~ In x a' -> a ++ x :: b = a' ++ x :: b' -> a = a'.
Proof.
  induction a as [|y a IH]; intros [|y' a'] b b' Ha Ha' E; cbn [app] in E.
  - reflexivity.
  - inversion E; subst. exfalso. apply Ha'. left; reflexivity.
  - inversion E; subst. exfalso. apply Ha. left; reflexivity.
  - inversion E; subst. f_equal. eapply IH; [| |eassumption]; intro Hin; [apply Ha | apply Ha']; right; exact Hin.
Qed.

(* the object kept for a span has no object with the same span nested inside it *)
Theorem dict_innermost t i s e kids :
  NoDup (map snd (objs_post t)) ->
  In (NObj i s e kids) (subnodes t) -> In (s, e, i) (rule_dict t) ->
  forall j kids', ~ In (NObj j s e kids') (flat_map subnodes kids).
Proof.
  intros Hnd Hsub Hd j kids' Hj.
  apply NoDup_map_inv in Hnd.
  unfold rule_dict in Hd. eapply Permutation_in in Hd; [|apply Permutation_sym, sort_items_perm].
  unfold dict_raw in Hd. apply fold_in in Hd as [[]|[_ [l1 [l2 [Hl Hk]]]]].
  apply subnode_objs in Hsub as [pre [post Hp]]. cbn [objs_post] in Hp.
  assert (Hin : In (s, e, j) (flat_map objs_post kids)).
  { apply in_flat_map in Hj as [k [Hk1 Hk2]]. apply in_flat_map. exists k. split; [exact Hk1|].
    eapply subnode_obj_in; exact Hk2. }
  assert (Hp' : objs_post t = (pre ++ flat_map objs_post kids) ++ (s, e, i) :: post).
  { rewrite Hp. repeat rewrite <- app_assoc. reflexivity. }
  assert (Hnot : forall a b, objs_post t = a ++ (s, e, i) :: b -> ~ In (s, e, i) a).
  { intros a b E Hi. rewrite E in Hnd. apply NoDup_remove_2 in Hnd. apply Hnd. apply in_or_app; left; exact Hi. }
  assert (El : l1 = pre ++ flat_map objs_post kids).
  { eapply split_unique; [eapply Hnot; exact Hl | eapply Hnot; exact Hp' | rewrite <- Hl; exact Hp']. }
  apply has_key_false in Hk. apply Hk. rewrite El. cbn [ikey fst].
  change (s, e) with (ikey (s, e, j)). apply in_map. apply in_or_app; right; exact Hin.
Qed.

Lemma key_le_not_contains x y : key_le x y = true -> x <> y -> ~ contains x y.
Proof.
  rewrite key_le_eq. unfold contains. destruct x as [x1 x2], y as [y1 y2]. cbn [fst snd].
  rewrite orb_true_iff, andb_true_iff, N.ltb_lt, N.eqb_eq, N.leb_le. intros H Hne [H1 H2].
  destruct H as [H|[-> H]]; [lia|]. apply Hne. f_equal. lia.
Qed.

(* no span is listed after a different span that contains it *)
Theorem dict_order t : StronglySorted (fun x y => ~ contains (ikey x) (ikey y)) (rule_dict t).
Proof.
  pose proof (dict_keys_nodup t) as Hnd. unfold rule_dict in *.
  pose proof (sort_items_sorted (dict_raw t)) as Hs.
  induction Hs as [|x l Hl IH Hall]; [constructor|].
  cbn [map] in Hnd. apply NoDup_cons_iff in Hnd as [Hx Hnd].
  constructor; [apply IH; exact Hnd|].
  rewrite Forall_forall in *. intros y Hy. apply key_le_not_contains; [apply Hall; exact Hy|].
  intro E. apply Hx. rewrite E. apply in_map. exact Hy.
Qed.

(* ================================================================ references of a well-formed tree *)
Lemma wfb_obj i s e kids : wfb (NObj i s e kids) = (N.leb s e && chainb s e kids)%bool.
Proof.
  cbn [wfb]. f_equal. generalize s as lo. induction kids as [|k r IH]; intro lo; cbn [chainb]; [reflexivity|].
  rewrite IH. reflexivity.
Qed.

Definition ref_ok (x : cref) : Prop := cstart x < cend x.
Definition ref_before (a b : cref) : Prop := cend a <= cstart b.
Definition within (lo hi : N) (rs : list cref) : Prop := Forall (fun x => lo <= cstart x /\ cend x <= hi) rs.
Definition good (n : node) : Prop :=
  nstart n <= nend n /\ StronglySorted ref_before (refs_pre n) /\ Forall ref_ok (refs_pre n) /\
  within (nstart n) (nend n) (refs_pre n).

Lemma StronglySorted_app {A} (R : A -> A -> Prop) l1 l2 :
  StronglySorted R l1 -> StronglySorted R l2 -> (forall a b, In a l1 -> In b l2 -> R a b) ->
  StronglySorted R (l1 ++ l2).
Proof.
  induction l1 as [|x r IH]; intros H1 H2 H; cbn [app]; [exact H2|].
  apply StronglySorted_inv in H1 as [Hr Hx]. constructor.
  - apply IH; [exact Hr | exact H2 | intros a b Ha Hb; apply H; [right; exact Ha | exact Hb]].
  - apply Forall_app; split; [exact Hx|]. rewrite Forall_forall. intros b Hb. apply H; [left; reflexivity | exact Hb].
Qed.

Lemma within_weaken lo hi lo' hi' rs : lo' <= lo -> hi <= hi' -> within lo hi rs -> within lo' hi' rs.
Proof. intros H1 H2 H. unfold within in *. eapply Forall_impl; [|exact H]. cbn. intros x [Ha Hb]. lia. Qed.

Lemma chain_good ks : forall lo hi,
  Forall (fun k => wfb k = true -> good k) ks -> chainb lo hi ks = true ->
  lo <= hi /\ StronglySorted ref_before (flat_map refs_pre ks) /\ Forall ref_ok (flat_map refs_pre ks) /\
  within lo hi (flat_map refs_pre ks).
Proof.
  induction ks as [|k r IH]; intros lo hi HP Hc; cbn [chainb] in Hc.
  - apply N.leb_le in Hc. cbn [flat_map]. repeat split; try constructor; exact Hc.
  - apply andb_true_iff in Hc as [Hc Hr]. apply andb_true_iff in Hc as [Hk Hlo]. apply N.leb_le in Hlo.
    inversion HP as [|k' r' Pk Pr]; subst.
    destruct (Pk Hk) as [Hse [Hs [Hok Hw]]]. destruct (IH _ _ Pr Hr) as [Hhi [Hs2 [Hok2 Hw2]]].
    cbn [flat_map]. split; [lia|]. split; [|split].
    + apply StronglySorted_app; [exact Hs | exact Hs2|].
      intros a b Ha Hb. unfold within in Hw, Hw2. rewrite Forall_forall in Hw, Hw2.
      destruct (Hw _ Ha) as [_ Ha2]. destruct (Hw2 _ Hb) as [Hb1 _]. unfold ref_before. lia.
    + apply Forall_app; split; assumption.
    + apply Forall_app; split; [eapply within_weaken; [| |exact Hw]; lia | eapply within_weaken; [| |exact Hw2]; lia].
Qed.

Lemma wf_good n : wfb n = true -> good n.
Proof.
  induction n as [i s e kids IHk|i s e nm|s e] using node_ind'; intro H.
  - rewrite wfb_obj in H. apply andb_true_iff in H as [Hse Hc]. apply N.leb_le in Hse.
    destruct (chain_good _ _ _ IHk Hc) as [_ [Hs [Hok Hw]]].
    unfold good. cbn [nstart nend refs_pre]. repeat split; assumption.
  - cbn [wfb] in H. apply N.ltb_lt in H. unfold good. cbn [nstart nend refs_pre].
    repeat split; try lia; repeat constructor; unfold ref_ok; cbn; lia.
  - cbn [wfb] in H. apply N.leb_le in H. unfold good. cbn [nstart nend refs_pre]. repeat split; try constructor. exact H.
Qed.

Lemma before_lt rs : StronglySorted ref_before rs -> Forall ref_ok rs -> StronglySorted N.lt (map cstart rs).
Proof.
  induction rs as [|x r IH]; intros Hs Hok; cbn [map]; [constructor|].
  apply StronglySorted_inv in Hs as [Hr Hx]. inversion Hok as [|x' r' Hxo Hro]; subst.
  constructor; [apply IH; assumption|]. rewrite Forall_forall in *. intros p Hp.
  apply in_map_iff in Hp as [y [<- Hy]]. specialize (Hx _ Hy). unfold ref_before, ref_ok in *. lia.
Qed.

Theorem tree_refs_increasing t : wfb t = true -> StronglySorted N.lt (map cstart (refs_pre t)).
Proof. intro H. destruct (wf_good _ H) as [_ [Hs [Hok _]]]. apply before_lt; assumption. Qed.

(* a collected reference is a reference node of the tree, with that node's span *)
Theorem ref_is_node t : forall x, In x (refs_pre t) -> In (NRef (cid x) (cstart x) (cend x) (cname x)) (subnodes t).
Proof.
  induction t as [i s e kids IHk|i s e nm|s e] using node_ind'; intros x Hx; cbn [refs_pre] in Hx.
  - cbn [subnodes]. right. apply in_flat_map in Hx as [k [Hk Hxk]]. apply in_flat_map. exists k.
    split; [exact Hk|]. rewrite Forall_forall in IHk. apply IHk; assumption.
  - destruct Hx as [<-|[]]. cbn. left. reflexivity.
  - destruct Hx.
Qed.

(* ================================================================ whole loads from parse trees *)
Lemma Forall2_map_l {A B C} (f : A -> B) (R : B -> C -> Prop) l : forall l',
  Forall2 R (map f l) l' -> Forall2 (fun a c => R (f a) c) l l'.
Proof.
  induction l as [|a r IH]; intros l' H; cbn [map] in H; inversion H; subst; constructor; [assumption | apply IH; assumption].
Qed.

Theorem load_trees_in_order ans bi trees outs :
  Forall (fun t => wfb t = true) trees ->
  load_trees ans bi trees = Ok outs ->
  Forall2 (fun t es => listed_in_order ans bi (refs_pre t) es) trees outs.
Proof.
  intros Hwf Hl. unfold load_trees in Hl. apply Forall2_map_l.
  apply load_listed_in_order; [|exact Hl].
  rewrite Forall_map. eapply Forall_impl; [|exact Hwf]. intros t Ht. apply tree_refs_increasing. exact Ht.
Qed.

Theorem load_trees_exactly ans bi trees outs :
  (forall x, bi x = false) ->
  Forall (fun t => wfb t = true) trees ->
  load_trees ans bi trees = Ok outs ->
  Forall2 (fun t es => listed_exactly ans (refs_pre t) es) trees outs.
Proof.
  intros Hbi Hwf Hl. unfold load_trees in Hl. apply Forall2_map_l.
  apply (load_listed_exactly _ bi); [exact Hbi| |exact Hl].
  rewrite Forall_map. eapply Forall_impl; [|exact Hwf]. intros t Ht. apply tree_refs_increasing. exact Ht.
Qed.

(* ================================================================ the translated source facts *)
Lemma source_facts :
  src_ref_pos_start = RefStart /\ src_ref_pos_end = RefEnd /\
  src_def_pos_start = TgtStart /\ src_def_pos_end = TgtEnd /\
  src_list_sorted = true /\ src_list_key = KRefStart /\
  src_dict_register = KeepFirst /\ src_dict_order = (Desc, Asc).
Proof. repeat split; reflexivity. Qed.

(* ================================================================ the fuel of [load] always suffices *)
Lemma step_count ans bi pend h h' es d c :
  step ans bi pend h = Some (h', es, d, c) -> length pend = (c + length d)%nat.
Proof.
  intro Hs. destruct (step_spec _ _ _ _ _ _ _ _ Hs) as [xts [bs [He [_ [_ [Hp Hc]]]]]].
  apply Permutation_length in Hp. rewrite !app_length, map_length in Hp.
  rewrite Hc, He, map_length. lia.
Qed.

Lemma round_count ans bi ms : forall h h' ms' c,
  round ans bi ms h = Some (h', ms', c) -> unresolved ms = (c + unresolved ms')%nat.
Proof.
  unfold unresolved. induction ms as [|[pend lst] r IH]; intros h h' ms' c Hr; cbn [round] in Hr.
  - inversion Hr; subst. reflexivity.
  - destruct (step ans bi pend h) as [[[[h1 es] d] c1]|] eqn:Es; [|discriminate].
    destruct (round ans bi r h1) as [[[h2 r'] c2]|] eqn:Er; [|discriminate].
    inversion Hr; subst. cbn [map fst concat]. rewrite !app_length.
    apply step_count in Es. apply IH in Er. lia.
Qed.

Lemma loop_fuel ans bi fuel : forall ms h, (unresolved ms < fuel)%nat -> loop fuel ans bi ms h <> OutOfFuel.
Proof.
  induction fuel as [|f IH]; intros ms h Hlt; [lia|]. cbn [loop].
  destruct (round ans bi ms h) as [[[h' ms'] c]|] eqn:Er; [|discriminate].
  apply round_count in Er.
  destruct (Nat.ltb 0 (unresolved ms') && Nat.ltb 0 c)%bool eqn:Eb.
  - apply andb_true_iff in Eb as [_ Ec]. apply Nat.ltb_lt in Ec. apply IH. lia.
  - destruct (Nat.ltb 0 (unresolved ms')); discriminate.
Qed.

Theorem load_terminates ans bi models : load ans bi models <> OutOfFuel.
Proof.
  unfold load. apply loop_fuel. unfold unresolved. rewrite map_map. cbn [fst]. rewrite map_id. lia.
Qed.

Theorem load_repo_terminates ans bi gms : load_repo ans bi gms <> OutOfFuel.
Proof.
  unfold load_repo. pose proof (load_terminates ans bi (fresh_refs gms)) as H.
  destruct (load ans bi (fresh_refs gms)); try discriminate. contradiction.
Qed.

Theorem terminates_both ans bi gms :
  load_repo ans bi gms <> OutOfFuel /\ forall models, load ans bi models <> OutOfFuel.
Proof. split; [apply load_repo_terminates | intro; apply load_terminates]. Qed.
