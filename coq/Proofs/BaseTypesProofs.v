(* Proofs for C04: extent of the base-type regexes on written values, conversions, loading. *)
From Coq Require Import Decimal DecimalPos DecimalN DecimalZ.
From TxV Require Import Core.Base Model.Rx Gen.SrcRegex Gen.SrcBaseConv Model.BaseTypes Model.BaseLits Proofs.RxProofs.
Require Import Lia.

(* ================================================================ STRING *)
Section StringRx.
Variable E : rxenv.
Hypothesis Hic : e_ignorecase E = false.
Variable q : N.
Hypothesis Hq : q <> 92%N.

Definition str_body (g : nat) : rx := RGroup g (RAlt (RSeq (RChr 92) (RChr q)) (RSet true [IChar q])).
Definition str_rx (g1 g2 : nat) : rx :=
  RGroup g1 (RSeq (RChr q) (RSeq (RRep true 0 None (str_body g2)) (RChr q))).

Lemma ends_body g pre c t :
  ends E (str_body g) (pre, c :: t) =
  (if N.eqb c 92 then match t with
                      | d :: t' => if N.eqb d q then [(q :: 92%N :: pre, t')] else []
                      | [] => []
                      end else [])
  ++ (if N.eqb c q then [] else [(c :: pre, t)]).
Proof.
  unfold str_body. rewrite ends_group, ends_alt, ends_seq. f_equal.
  - rewrite ends_chr by exact Hic. destruct (N.eqb c 92) eqn:Hc; [|reflexivity].
    apply N.eqb_eq in Hc. subst c. cbn [flat_map]. rewrite app_nil_r.
    destruct t as [|d t']; [reflexivity|]. rewrite ends_chr by exact Hic.
    destruct (N.eqb d q) eqn:Hd; [|reflexivity]. apply N.eqb_eq in Hd. subst d. reflexivity.
  - apply ends_notchr. exact Hic.
Qed.

Lemma ends_body_nil g pre : ends E (str_body g) (pre, []) = [].
Proof. reflexivity. Qed.

Lemma esc_cons c s : esc q (c :: s) = (if N.eqb c q then [92; q]%N else [c]) ++ esc q s.
Proof. reflexivity. Qed.

(* the escaped text never starts with the quote *)
Lemma esc_head s : match esc q s with d :: _ => N.eqb d q = false | [] => True end.
Proof.
  destruct s as [|c s]; [exact I|]. rewrite esc_cons. destruct (N.eqb c q) eqn:Hc; cbn [app].
  - apply N.eqb_neq. congruence.
  - exact Hc.
Qed.

Lemma q_neq_bs : N.eqb q 92 = false.
Proof. apply N.eqb_neq. exact Hq. Qed.
Lemma bs_neq_q : N.eqb 92 q = false.
Proof. apply N.eqb_neq. congruence. Qed.

(* the greedy walk over the escaped text stops exactly at the closing quote *)
Lemma string_star g : forall s pre rest fuel,
  ends_with_bs s = false -> length (esc q s ++ q :: rest) < fuel ->
  hd_error (rep_loop (ends E (str_body g)) true 0 None fuel (pre, esc q s ++ q :: rest))
  = Some (rev (esc q s) ++ pre, q :: rest).
Proof.
  induction s as [|c s IH]; intros pre rest fuel Hbs Hfuel.
  - destruct fuel as [|f]; [cbn in Hfuel; lia|].
    cbn [esc flat_map app rev rep_loop is_zero_opt]. rewrite ends_body.
    rewrite q_neq_bs, N.eqb_refl. reflexivity.
  - destruct fuel as [|f]; [cbn in Hfuel; lia|].
    rewrite esc_cons in *. cbn [rep_loop is_zero_opt].
    destruct (N.eqb c q) eqn:Hcq.
    + (* the quote: written as backslash quote, taken as one unit *)
      apply N.eqb_eq in Hcq. subst c.
      assert (Hbs' : ends_with_bs s = false).
      { destruct s as [|c' s']; [reflexivity|]. exact Hbs. }
      cbn [app]. rewrite ends_body. rewrite !N.eqb_refl, bs_neq_q. cbn [app flat_map snd length].
      rewrite (proj2 (Nat.ltb_lt _ _)) by lia. cbn [pred_opt].
      specialize (IH (q :: 92%N :: pre) rest f Hbs').
      cbn [app length] in Hfuel.
      destruct (rep_loop (ends E (str_body g)) true 0 None f (q :: 92%N :: pre, esc q s ++ q :: rest)) as [|x tl] eqn:Hr.
      * exfalso. assert (Hlt : length (esc q s ++ q :: rest) < f) by lia. specialize (IH Hlt). discriminate.
      * assert (Hlt : length (esc q s ++ q :: rest) < f) by lia. specialize (IH Hlt).
        cbn in IH. injection IH as ->. cbn [app hd_error rev]. rewrite <- !app_assoc. reflexivity.
    + cbn [app]. rewrite ends_body. rewrite Hcq.
      destruct (N.eqb c 92) eqn:Hc92.
      * (* a backslash that is part of the string: the next written character is not the quote *)
        apply N.eqb_eq in Hc92. subst c.
        assert (Hs : s <> []). { intros ->. cbn in Hbs. discriminate. }
        assert (Hbs' : ends_with_bs s = false).
        { destruct s as [|c' s']; [contradiction|]. exact Hbs. }
        pose proof (esc_head s) as Hh.
        destruct (esc q s) as [|d t] eqn:Hes.
        { exfalso. destruct s as [|c' s']; [contradiction|]. rewrite esc_cons in Hes.
          destruct (N.eqb c' q); discriminate. }
        cbn [app]. rewrite Hh. cbn [app flat_map snd length].
        rewrite (proj2 (Nat.ltb_lt _ _)) by lia. cbn [pred_opt].
        specialize (IH (92%N :: pre) rest f Hbs'). cbn [app] in IH.
        cbn [app length] in Hfuel.
        assert (Hlt : length (d :: t ++ q :: rest) < f) by (cbn [length]; lia). specialize (IH Hlt).
        destruct (rep_loop (ends E (str_body g)) true 0 None f (92%N :: pre, d :: t ++ q :: rest)) as [|x tl] eqn:Hr;
          [discriminate|].
        cbn in IH. injection IH as ->. cbn [app hd_error]. cbn [rev]. rewrite <- !app_assoc. reflexivity.
      * assert (Hbs' : ends_with_bs s = false).
        { destruct s as [|c' s']; [reflexivity|]. exact Hbs. }
        cbn [app flat_map snd length].
        rewrite (proj2 (Nat.ltb_lt _ _)) by lia. cbn [pred_opt].
        specialize (IH (c :: pre) rest f Hbs'). cbn [app length] in Hfuel.
        assert (Hlt : length (esc q s ++ q :: rest) < f) by lia. specialize (IH Hlt).
        destruct (rep_loop (ends E (str_body g)) true 0 None f (c :: pre, esc q s ++ q :: rest)) as [|x tl] eqn:Hr;
          [discriminate|].
        cbn in IH. injection IH as ->. cbn [app hd_error rev]. rewrite <- !app_assoc. reflexivity.
Qed.

Lemma first_str_rx g1 g2 s pre rest :
  ends_with_bs s = false ->
  rx_first E (str_rx g1 g2) (pre, quote q s ++ rest) = Some (rev (quote q s) ++ pre, rest).
Proof.
  intros Hbs. unfold str_rx, quote. rewrite first_group. cbn [app].
  eapply first_seq.
  { unfold rx_first. rewrite ends_chr by exact Hic. rewrite N.eqb_refl. reflexivity. }
  rewrite <- app_assoc. cbn [app].
  eapply first_seq.
  { unfold rx_first. cbn [ends snd Nat.add]. apply string_star; [exact Hbs | lia]. }
  unfold rx_first. rewrite ends_chr by exact Hic. rewrite N.eqb_refl. cbn [hd_error].
  f_equal. f_equal. cbn [rev]. rewrite rev_app_distr. cbn [rev app]. rewrite <- !app_assoc. reflexivity.
Qed.

(* a string regex cannot start on another character *)
Lemma ends_str_rx_other g1 g2 c t pre : c <> q -> ends E (str_rx g1 g2) (pre, c :: t) = [].
Proof.
  intros Hc. unfold str_rx. rewrite ends_group. apply ends_seq_nil_l.
  rewrite ends_chr by exact Hic. apply N.eqb_neq in Hc. rewrite Hc. reflexivity.
Qed.

End StringRx.

Lemma rx_STRING_shape : rx_STRING = RAlt (str_rx 34 1 2) (str_rx 39 3 4).
Proof. reflexivity. Qed.

Lemma src_env_ic u : e_ignorecase (src_env u) = false.
Proof. reflexivity. Qed.

Lemma quote_length q s : length (quote q s) = S (S (length (esc q s))).
Proof. unfold quote. cbn [length]. rewrite app_length. cbn [length]. lia. Qed.

(* STRING matches exactly the written string, whatever precedes and follows *)
Lemma string_match u q s pre rest :
  q = 34%N \/ q = 39%N -> ends_with_bs s = false ->
  rx_match (src_env u) rx_STRING pre (quote q s ++ rest) = Some (length (quote q s)).
Proof.
  intros Hq Hbs. rewrite rx_STRING_shape.
  apply rx_match_first_app with (pre' := rev (quote q s) ++ pre).
  destruct Hq as [-> | ->].
  - apply first_alt_l. apply first_str_rx; [apply src_env_ic | discriminate | exact Hbs].
  - rewrite first_alt_r.
    + apply first_str_rx; [apply src_env_ic | discriminate | exact Hbs].
    + unfold quote. cbn [app]. apply ends_str_rx_other; [apply src_env_ic | discriminate].
Qed.

(* ---- the unescape step *)
Lemma is_prefix_q_esc q s : q <> 92%N -> is_prefix [q] (esc q s) = false.
Proof.
  intros Hq. pose proof (esc_head q Hq s) as Hh. destruct (esc q s) as [|d t]; [reflexivity|].
  cbn [is_prefix]. rewrite N.eqb_sym, Hh. reflexivity.
Qed.

Lemma replace_go_esc q : q <> 92%N -> forall s, replace_go [92%N; q] [q] 0 (esc q s) = s.
Proof.
  intros Hq. induction s as [|c s IH]; [reflexivity|].
  rewrite esc_cons. destruct (N.eqb c q) eqn:Hcq.
  - apply N.eqb_eq in Hcq. subst c. cbn [app replace_go is_prefix length Nat.pred]. rewrite !N.eqb_refl. cbn [andb app].
    rewrite IH. reflexivity.
  - cbn [app replace_go]. destruct (N.eqb c 92) eqn:Hc.
    + apply N.eqb_eq in Hc. subst c.
      change (is_prefix [92%N; q] (92%N :: esc q s)) with (N.eqb 92 92 && is_prefix [q] (esc q s))%bool.
      rewrite is_prefix_q_esc by exact Hq. rewrite andb_false_r. rewrite IH. reflexivity.
    + cbn [is_prefix]. rewrite N.eqb_sym, Hc. cbn [andb]. rewrite IH. reflexivity.
Qed.

Lemma string_conv_quote q s : q = 34%N \/ q = 39%N -> string_conv (quote q s) = s.
Proof.
  intros Hq. unfold string_conv, quote. cbn [tl]. rewrite removelast_last.
  destruct Hq as [-> | ->].
  - change (N.eqb 34 conv_string_test) with true. cbn iota.
    change conv_string_then with [([92%N; 34%N], [34%N])].
    cbn [replace_chain fold_left fst snd replace]. apply replace_go_esc. discriminate.
  - change (N.eqb 39 conv_string_test) with false. cbn iota.
    change conv_string_else with [([92%N; 39%N], [39%N])].
    cbn [replace_chain fold_left fst snd replace]. apply replace_go_esc. discriminate.
Qed.

(* ================================================================ the loading loop *)
Lemma skip_ws_app w : forall pre rest,
  forallb is_ws w = true -> match rest with c :: _ => is_ws c = false | [] => True end ->
  skip_ws pre (w ++ rest) = (rev w ++ pre, rest).
Proof.
  induction w as [|c w IH]; intros pre rest Hw Hrest.
  - cbn [app rev]. destruct rest as [|c rest]; [reflexivity|]. cbn [skip_ws]. rewrite Hrest. reflexivity.
  - cbn [forallb] in Hw. apply andb_true_iff in Hw as [Hc Hw].
    cbn [app skip_ws]. rewrite Hc. rewrite IH by assumption. cbn [rev]. rewrite <- app_assoc. reflexivity.
Qed.

Lemma take_rev_app lit : forall pre rest, take_rev (length lit) pre (lit ++ rest) = (rev lit ++ pre, rest).
Proof.
  induction lit as [|c lit IH]; intros pre rest.
  - cbn. destruct rest; reflexivity.
  - cbn [length app take_rev]. rewrite IH. cbn [rev]. rewrite <- app_assoc. reflexivity.
Qed.

Lemma firstn_length_app {A} (l r : list A) : firstn (length l) (l ++ r) = l.
Proof. induction l as [|x l IH]; [reflexivity|]. cbn. rewrite IH. reflexivity. Qed.

Definition starts_nonws (lit : list N) : Prop :=
  match lit with c :: _ => is_ws c = false | [] => False end.

Lemma load_step E t f pre w lit rest leaf :
  forallb is_ws w = true -> starts_nonws lit ->
  bt_match E t (rev w ++ pre) (lit ++ rest) = Some (leaf, length lit) ->
  load_many_go E t (S f) pre (w ++ lit ++ rest) =
  match load_many_go E t f (rev lit ++ rev w ++ pre) rest with
  | Some vs => Some (convert leaf lit :: vs)
  | None => None
  end.
Proof.
  intros Hw Hlit Hm. cbn [load_many_go].
  rewrite skip_ws_app; [| exact Hw | destruct lit; [contradiction | exact Hlit]].
  rewrite Hm. rewrite take_rev_app. rewrite firstn_length_app. reflexivity.
Qed.

Lemma load_end E t f pre w :
  forallb is_ws w = true -> bt_match E t (rev w ++ pre) [] = None ->
  load_many_go E t (S f) pre w = Some [].
Proof.
  intros Hw Hm. cbn [load_many_go]. rewrite <- (app_nil_r w) at 1.
  rewrite skip_ws_app; [| exact Hw | exact I]. rewrite Hm. reflexivity.
Qed.

(* a sequence of written items: each literal followed by whitespace *)
Fixpoint seq_text (items : list (list N * list N * value)) : list N :=
  match items with
  | [] => []
  | (lit, w, _) :: tl => lit ++ w ++ seq_text tl
  end.

Fixpoint chain_ok (P : list N -> Prop) (items : list (list N * list N * value)) : Prop :=
  match items with
  | [] => True
  | (_, w, _) :: tl => P (w ++ seq_text tl) /\ chain_ok P tl
  end.

Lemma load_seq E t (P : list N -> Prop) :
  (forall pre, bt_match E t pre [] = None) ->
  forall items,
  (forall lit w v, In (lit, w, v) items ->
     forallb is_ws w = true /\ starts_nonws lit /\
     forall pre rest, P rest -> exists leaf, bt_match E t pre (lit ++ rest) = Some (leaf, length lit) /\ convert leaf lit = v) ->
  chain_ok P items ->
  forall w0 pre fuel, forallb is_ws w0 = true -> length (w0 ++ seq_text items) < fuel ->
  load_many_go E t fuel pre (w0 ++ seq_text items) = Some (map snd items).
Proof.
  intros Hnil. induction items as [|[[lit w] v] tl IH]; intros Hitems Hchain w0 pre fuel Hw0 Hfuel.
  - destruct fuel as [|f]; [lia|]. cbn [seq_text map]. rewrite app_nil_r. apply load_end; [exact Hw0 | apply Hnil].
  - destruct fuel as [|f]; [lia|].
    destruct (Hitems lit w v (or_introl eq_refl)) as (Hw & Hlit & Hm).
    cbn [chain_ok] in Hchain. destruct Hchain as [HP Hchain].
    destruct (Hm (rev w0 ++ pre) (w ++ seq_text tl) HP) as (leaf & Hbm & Hcv).
    cbn [seq_text map snd]. rewrite (load_step E t f pre w0 lit (w ++ seq_text tl) leaf Hw0 Hlit Hbm).
    rewrite IH; [rewrite Hcv; reflexivity | | exact Hchain | exact Hw |].
    + intros lit' w' v' Hin. apply Hitems. right. exact Hin.
    + cbn [seq_text] in Hfuel. rewrite !app_length in Hfuel. rewrite app_length.
      destruct lit; [contradiction|]. cbn [length] in Hfuel. lia.
Qed.

(* ---- strings: any separators (even none), both quote kinds mixed *)
Lemma is_ws_quote q : q = 34%N \/ q = 39%N -> is_ws q = false.
Proof. intros [-> | ->]; reflexivity. Qed.

Lemma string_bt_match u q s pre rest :
  q = 34%N \/ q = 39%N -> ends_with_bs s = false ->
  bt_match (src_env u) TSTRING pre (quote q s ++ rest) = Some (TSTRING, length (quote q s)).
Proof.
  intros Hq Hbs. cbn [bt_match]. unfold leaf_match. cbn [bt_rx].
  rewrite string_match by assumption. rewrite quote_length. reflexivity.
Qed.

Lemma string_bt_match_nil u pre : bt_match (src_env u) TSTRING pre [] = None.
Proof. reflexivity. Qed.

Definition str_items_text (items : list (N * list N * list N)) : list N :=
  flat_map (fun it => match it with (q, s, w) => quote q s ++ w end) items.

Definition str_item_ok (it : N * list N * list N) : Prop :=
  match it with (q, s, w) => (q = 34%N \/ q = 39%N) /\ ends_with_bs s = false /\ forallb is_ws w = true end.

Theorem string_roundtrip u (items : list (N * list N * list N)) (w0 : list N) :
  (forall it, In it items -> str_item_ok it) -> forallb is_ws w0 = true ->
  load_many (src_env u) TSTRING (w0 ++ str_items_text items)
  = Some (map (fun it => match it with (_, s, _) => VStr s end) items).
Proof.
  intros Hitems Hw0.
  pose (items' := map (fun it => match it with (q, s, w) => (quote q s, w, VStr s) end) items).
  assert (Htext : str_items_text items = seq_text items').
  { unfold items', str_items_text. clear. induction items as [|[[q s] w] tl IH]; [reflexivity|].
    cbn [flat_map map seq_text]. rewrite IH, <- app_assoc. reflexivity. }
  assert (Hvals : map (fun it => match it with (_, s, _) => VStr s end) items = map snd items').
  { unfold items'. rewrite map_map. apply map_ext. intros [[q s] w]. reflexivity. }
  rewrite Htext, Hvals. unfold load_many.
  apply load_seq with (P := fun _ => True).
  - intros pre. apply string_bt_match_nil.
  - intros lit w v Hin. unfold items' in Hin. apply in_map_iff in Hin as ([[q s] w'] & Heq & Hin).
    injection Heq as <- <- <-. destruct (Hitems _ Hin) as (Hq & Hbs & Hw).
    split; [exact Hw|]. split; [unfold quote; cbn; apply is_ws_quote; exact Hq|].
    intros pre rest _. exists TSTRING. split; [apply string_bt_match; assumption|].
    cbn [convert]. rewrite string_conv_quote by exact Hq. reflexivity.
  - clear. induction items' as [|[[lit w] v] tl IH]; cbn; auto.
  - exact Hw0.
  - lia.
Qed.

(* ================================================================ digits, INT *)
Lemma forallb_eq {A} (f g : A -> bool) l : (forall x, f x = g x) -> forallb f l = forallb g l.
Proof. intros H. induction l as [|x l IH]; [reflexivity|]. cbn. rewrite H, IH. reflexivity. Qed.

Lemma is_dig_not c k : is_dig c = true -> is_dig k = false -> N.eqb c k = false.
Proof. intros Hc Hk. apply N.eqb_neq. intros ->. congruence. Qed.

Section Plain.
Variable E : rxenv.
Hypothesis Hic : e_ignorecase E = false.

Definition digit_range : list citem := [IRange 48 57].
Definition digit_cat : list citem := [ICat false CDigit].
Definition sign_mp : list citem := [IChar 45; IChar 43].   (* INT: [-+] *)
Definition sign_pm : list citem := [IChar 43; IChar 45].   (* FLOAT: [+-] *)

Lemma mem_digit_range c : set_mem E c digit_range = is_dig c.
Proof. rewrite set_mem_plain by exact Hic. cbn. apply orb_false_r. Qed.

Lemma mem_digit_cat c : set_mem E c digit_cat = is_digit E c.
Proof.
  rewrite set_mem_plain by exact Hic. cbn [digit_cat existsb item_match cat_match].
  rewrite xorb_false_l, orb_false_r. reflexivity.
Qed.

Lemma is_digit_ascii c : is_dig c = true -> is_digit E c = true.
Proof.
  intros H. unfold is_digit. unfold is_dig, in_range in H. apply andb_true_iff in H as [H1 H2].
  apply N.leb_le in H2. rewrite (proj2 (N.ltb_lt c 128)) by lia.
  unfold in_range. rewrite H1. apply N.leb_le in H2. rewrite H2. reflexivity.
Qed.

Lemma is_word_ascii_digit c : is_dig c = true -> is_word E c = true.
Proof.
  intros H. unfold is_word. unfold is_dig, in_range in H. pose proof H as H'. apply andb_true_iff in H as [H1 H2].
  apply N.leb_le in H2. rewrite (proj2 (N.ltb_lt c 128)) by lia.
  unfold in_range. rewrite H'. reflexivity.
Qed.

Lemma mem_sign_mp c : set_mem E c sign_mp = (N.eqb c 45 || N.eqb c 43)%bool.
Proof. rewrite set_mem_plain by exact Hic. cbn. rewrite orb_false_r. reflexivity. Qed.

Lemma mem_sign_pm c : set_mem E c sign_pm = (N.eqb c 43 || N.eqb c 45)%bool.
Proof. rewrite set_mem_plain by exact Hic. cbn. rewrite orb_false_r. reflexivity. Qed.

(* an optional sign, written or not, followed by something that is not a sign *)
Lemma first_opt_sign items so pre body :
  (forall c, set_mem E c items = (N.eqb c 45 || N.eqb c 43)%bool) ->
  match body with c :: _ => N.eqb c 45 = false /\ N.eqb c 43 = false | [] => True end ->
  rx_first E (RRep true 0 (Some 1) (RSet false items)) (pre, sign_chars so ++ body)
  = Some (rev (sign_chars so) ++ pre, body).
Proof.
  intros Hmem Hbody. destruct so as [[|]|]; cbn [sign_chars app rev].
  - apply first_opt_take; [| cbn; lia]. unfold rx_first. rewrite ends_set, Hmem. reflexivity.
  - apply first_opt_take; [| cbn; lia]. unfold rx_first. rewrite ends_set, Hmem. reflexivity.
  - apply first_opt_skip. destruct body as [|c t]; [reflexivity|]. rewrite ends_set, Hmem.
    destruct Hbody as [-> ->]. reflexivity.
Qed.

(* every way of taking the optional sign *)
Lemma ends_opt_sign items so pre body :
  (forall c, set_mem E c items = (N.eqb c 45 || N.eqb c 43)%bool) ->
  match body with c :: _ => N.eqb c 45 = false /\ N.eqb c 43 = false | [] => True end ->
  ends E (RRep true 0 (Some 1) (RSet false items)) (pre, sign_chars so ++ body)
  = match so with
    | None => [(pre, body)]
    | Some _ => [(rev (sign_chars so) ++ pre, body); (pre, sign_chars so ++ body)]
    end.
Proof.
  intros Hmem Hbody. rewrite ends_opt. destruct so as [[|]|]; cbn [sign_chars app rev].
  - rewrite ends_set, Hmem. cbn [orb N.eqb Pos.eqb xorb flat_map snd length]. rewrite Nat.ltb_irrefl || idtac.
    rewrite (proj2 (Nat.ltb_lt _ _)) by lia. reflexivity.
  - rewrite ends_set, Hmem. cbn [orb N.eqb Pos.eqb xorb flat_map snd length].
    rewrite (proj2 (Nat.ltb_lt _ _)) by lia. reflexivity.
  - destruct body as [|c t]; [reflexivity|]. rewrite ends_set, Hmem. destruct Hbody as [-> ->]. reflexivity.
Qed.

Lemma digit_not_sign c : is_dig c = true -> N.eqb c 45 = false /\ N.eqb c 43 = false.
Proof. intros H. split; apply is_dig_not; auto. Qed.

Lemma all_digits_range ds : all_digits ds = true ->
  forallb (fun c => xorb false (set_mem E c digit_range)) ds = true.
Proof. intros H. rewrite <- H. apply forallb_eq. intros c. rewrite xorb_false_l. apply mem_digit_range. Qed.

Lemma all_digits_cat ds : all_digits ds = true ->
  forallb (fun c => xorb false (set_mem E c digit_cat)) ds = true.
Proof.
  intros H. unfold all_digits in H. rewrite forallb_forall in H. apply forallb_forall. intros c Hc.
  rewrite xorb_false_l, mem_digit_cat. apply is_digit_ascii. apply H. exact Hc.
Qed.

Lemma stops_range rest : not_digit_next rest -> stops (fun c => xorb false (set_mem E c digit_range)) rest.
Proof. destruct rest as [|c t]; [exact (fun _ => I)|]. cbn [stops not_digit_next]. rewrite xorb_false_l, mem_digit_range. auto. Qed.

(* INT on sign? digits+ *)
Lemma first_int so ds pre rest :
  ds <> [] -> all_digits ds = true -> not_digit_next rest ->
  rx_first E rx_INT (pre, sign_chars so ++ ds ++ rest) = Some (rev (sign_chars so ++ ds) ++ pre, rest).
Proof.
  intros Hne Hds Hrest. unfold rx_INT.
  eapply first_seq.
  - apply (first_opt_sign sign_mp); [exact mem_sign_mp|].
    destruct ds as [|c ds']; [contradiction|]. cbn [app]. apply digit_not_sign.
    cbn in Hds. apply andb_true_iff in Hds as [Hc _]. exact Hc.
  - destruct ds as [|c ds']; [contradiction|].
    rewrite (first_plus_set E false digit_range c ds'); [| apply all_digits_range; exact Hds | apply stops_range; exact Hrest].
    rewrite rev_app_distr, <- app_assoc. reflexivity.
Qed.

End Plain.

(* ---- int(): Horner value of Coq's decimal numerals *)
Fixpoint uval (acc : Z) (d : uint) : Z :=
  match d with
  | Nil => acc
  | D0 d => uval (acc * 10 + 0) d | D1 d => uval (acc * 10 + 1) d | D2 d => uval (acc * 10 + 2) d
  | D3 d => uval (acc * 10 + 3) d | D4 d => uval (acc * 10 + 4) d | D5 d => uval (acc * 10 + 5) d
  | D6 d => uval (acc * 10 + 6) d | D7 d => uval (acc * 10 + 7) d | D8 d => uval (acc * 10 + 8) d
  | D9 d => uval (acc * 10 + 9) d
  end.

Lemma digits_val_uint d : forall acc, digits_val acc (uint_chars d) = Some (uval acc d).
Proof.
  induction d; intros acc; cbn [uint_chars digits_val uval]; try reflexivity;
    match goal with |- context [digit_val ?c] => change (digit_val c) with (Some (Z.of_N (c - 48))) end;
    cbn [N.sub Z.of_N]; apply IHd.
Qed.

Lemma of_uint_acc_uval d : forall acc, Z.pos (Pos.of_uint_acc d acc) = uval (Z.pos acc) d.
Proof.
  induction d; intros acc; cbn [Pos.of_uint_acc uval]; try reflexivity; rewrite IHd; f_equal; lia.
Qed.

Lemma of_uint_uval d : uval 0 d = Z.of_N (Pos.of_uint d).
Proof.
  induction d; cbn [uval Pos.of_uint]; try reflexivity; try exact IHd;
    change (0 * 10 + ?k)%Z with k; symmetry; apply (of_uint_acc_uval d).
Qed.

Lemma uint_chars_digits d : all_digits (uint_chars d) = true.
Proof. induction d; cbn [uint_chars all_digits forallb]; try reflexivity; exact IHd. Qed.

Lemma uint_chars_nonnil d : d <> Nil -> uint_chars d <> [].
Proof. destruct d; intros H; try discriminate. contradiction. Qed.

Lemma digits_val_pos p : digits_val 0 (uint_chars (Pos.to_uint p)) = Some (Z.pos p).
Proof. rewrite digits_val_uint, of_uint_uval, DecimalPos.Unsigned.of_to. reflexivity. Qed.

Lemma int_of_text_digits ds : ds <> [] -> all_digits ds = true -> int_of_text ds = digits_val 0 ds.
Proof.
  intros Hne Hds. destruct ds as [|c t]; [contradiction|]. cbn in Hds. apply andb_true_iff in Hds as [Hc _].
  unfold int_of_text. destruct (digit_not_sign c Hc) as [-> ->]. reflexivity.
Qed.

Lemma dec_text_shape z : exists so ds, dec_text z = sign_chars so ++ ds /\ ds <> [] /\ all_digits ds = true
                                       /\ (so = None \/ so = Some false).
Proof.
  unfold dec_text. destruct z as [|p|p]; cbn [Z.to_int].
  - exists None, [48%N]. repeat split; try discriminate. left; reflexivity.
  - exists None, (uint_chars (Pos.to_uint p)). repeat split.
    + apply uint_chars_nonnil, DecimalPos.Unsigned.to_uint_nonnil.
    + apply uint_chars_digits.
    + left; reflexivity.
  - exists (Some false), (uint_chars (Pos.to_uint p)). repeat split.
    + apply uint_chars_nonnil, DecimalPos.Unsigned.to_uint_nonnil.
    + apply uint_chars_digits.
    + right; reflexivity.
Qed.

Lemma int_of_dec_text z : int_of_text (dec_text z) = Some z.
Proof.
  unfold dec_text. destruct z as [|p|p]; cbn [Z.to_int].
  - reflexivity.
  - rewrite int_of_text_digits; [apply digits_val_pos | apply uint_chars_nonnil, DecimalPos.Unsigned.to_uint_nonnil | apply uint_chars_digits].
  - unfold int_of_text. cbn [N.eqb Pos.eqb].
    destruct (uint_chars (Pos.to_uint p)) as [|c t] eqn:Hu.
    + exfalso. revert Hu. apply uint_chars_nonnil, DecimalPos.Unsigned.to_uint_nonnil.
    + rewrite <- Hu, digits_val_pos. reflexivity.
Qed.

(* "+" form and leading zeros also convert to the same integer value *)
Lemma int_of_plus_text ds : ds <> [] -> all_digits ds = true -> int_of_text (43%N :: ds) = digits_val 0 ds.
Proof. intros Hne _. unfold int_of_text. cbn [N.eqb Pos.eqb]. destruct ds; [contradiction|reflexivity]. Qed.

Lemma int_bt_match u so ds pre rest :
  ds <> [] -> all_digits ds = true -> not_digit_next rest ->
  bt_match (src_env u) TINT pre ((sign_chars so ++ ds) ++ rest) = Some (TINT, length (sign_chars so ++ ds)).
Proof.
  intros Hne Hds Hrest. cbn [bt_match]. unfold leaf_match. cbn [bt_rx].
  rewrite (rx_match_first_app _ _ _ _ _ (rev (sign_chars so ++ ds) ++ pre)).
  - destruct (sign_chars so ++ ds) eqn:Hl; [|reflexivity].
    apply app_eq_nil in Hl as [_ ->]. contradiction.
  - rewrite <- app_assoc. apply first_int; [apply src_env_ic | assumption..].
Qed.

Theorem int_roundtrip u z pre rest :
  not_digit_next rest ->
  bt_match (src_env u) TINT pre (dec_text z ++ rest) = Some (TINT, length (dec_text z))
  /\ convert TINT (dec_text z) = VInt z.
Proof.
  intros Hrest. split.
  - destruct (dec_text_shape z) as (so & ds & -> & Hne & Hds & _). apply int_bt_match; assumption.
  - cbn [convert]. rewrite int_of_dec_text. reflexivity.
Qed.

(* ================================================================ BOOL *)
Lemma bool_first u sp b pre rest :
  In (sp, b) bool_spellings -> not_word_next (src_env u) rest ->
  rx_first (src_env u) rx_BOOL (pre, sp ++ rest) = Some (rev sp ++ pre, rest).
Proof.
  intros Hin Hrest. cbn [bool_spellings In] in Hin.
  destruct Hin as [Heq|[Heq|[Heq|[Heq|[Heq|[Heq|[]]]]]]]; injection Heq as <- <-;
    (destruct rest as [|c t];
     [ reflexivity
     | cbn [not_word_next] in Hrest; unfold rx_first; cbn -[is_word word_boundary]; unfold word_boundary; cbn [fst snd]; rewrite Hrest; reflexivity ]).
Qed.

Theorem bool_roundtrip u sp b pre rest :
  In (sp, b) bool_spellings -> not_word_next (src_env u) rest ->
  bt_match (src_env u) TBOOL pre (sp ++ rest) = Some (TBOOL, length sp) /\ convert TBOOL sp = VBool b.
Proof.
  intros Hin Hrest. split.
  - cbn [bt_match]. unfold leaf_match. cbn [bt_rx].
    rewrite (rx_match_first_app _ _ _ _ _ _ (bool_first u sp b pre rest Hin Hrest)).
    cbn [bool_spellings In] in Hin.
    destruct Hin as [Heq|[Heq|[Heq|[Heq|[Heq|[Heq|[]]]]]]]; injection Heq as <- <-; reflexivity.
  - cbn [bool_spellings In] in Hin.
    destruct Hin as [Heq|[Heq|[Heq|[Heq|[Heq|[Heq|[]]]]]]]; injection Heq as <- <-; reflexivity.
Qed.

(* ================================================================ FLOAT, STRICTFLOAT, NUMBER *)
Definition nd (E : rxenv) (rest : list N) : Prop :=
  match rest with [] => True | c :: _ => is_digit E c = false end.

Definition DPLUS : rx := RRep true 1 None (RSet false digit_cat).
Definition DSTAR : rx := RRep true 0 None (RSet false digit_cat).
Definition SIGN : rx := RRep true 0 (Some 1) (RSet false sign_pm).
Definition EE : list citem := [IChar 101; IChar 69].
Definition EXP : rx := RSeq (RSet false EE) (RSeq SIGN DPLUS).
Definition WD : list citem := [ICat false CWord; IChar 46].
Definition TAIL : rx := RSeq (RLookBehind false 1 (RSet false WD)) (RLookAhead true (RSet false WD)).
Definition FA : rx := RSeq DPLUS (RRep true 0 (Some 1) (RGroup 2 (RSeq (RChr 46) DSTAR))).
Definition FB : rx := RSeq (RChr 46) DPLUS.
Definition SA : rx := RSeq DPLUS (RSeq (RChr 46) (RRep true 0 (Some 1) (RGroup 4 DSTAR))).
Definition ALT1 : rx := RGroup 2 (RSeq (RGroup 3 (RAlt SA FB)) (RRep true 0 (Some 1) (RGroup 5 EXP))).
Definition ALT2 : rx := RGroup 6 (RSeq (RGroup 7 DPLUS) (RGroup 8 EXP)).

Lemma rx_FLOAT_shape :
  rx_FLOAT = RSeq SIGN (RSeq (RGroup 1 (RAlt FA FB)) (RSeq (RRep true 0 (Some 1) (RGroup 3 EXP)) TAIL)).
Proof. reflexivity. Qed.

Lemma rx_STRICTFLOAT_shape :
  rx_STRICTFLOAT = RSeq SIGN (RSeq (RGroup 1 (RAlt ALT1 ALT2)) TAIL).
Proof. reflexivity. Qed.

Section Floats.
Variable E : rxenv.
Hypothesis Hic : e_ignorecase E = false.

Lemma stops_cat rest : nd E rest -> stops (fun c => xorb false (set_mem E c digit_cat)) rest.
Proof.
  destruct rest as [|c t]; [exact (fun _ => I)|]. cbn [stops nd].
  rewrite xorb_false_l, (mem_digit_cat E Hic). auto.
Qed.

Lemma first_dplus ds pre tail : ds <> [] -> all_digits ds = true -> nd E tail ->
  rx_first E DPLUS (pre, ds ++ tail) = Some (rev ds ++ pre, tail).
Proof.
  intros Hne Hds Htail. destruct ds as [|c ds']; [contradiction|].
  apply (first_plus_set E false digit_cat c ds'); [apply (all_digits_cat E Hic); exact Hds | apply stops_cat; exact Htail].
Qed.

Lemma first_dstar ds pre tail : all_digits ds = true -> nd E tail ->
  rx_first E DSTAR (pre, ds ++ tail) = Some (rev ds ++ pre, tail).
Proof.
  intros Hds Htail.
  apply (first_star_set E false digit_cat); [apply (all_digits_cat E Hic); exact Hds | apply stops_cat; exact Htail].
Qed.

Lemma dplus_nil pre tail : nd E tail -> ends E DPLUS (pre, tail) = [].
Proof. intros H. apply ends_plus_set_nil. apply stops_cat. exact H. Qed.

Lemma is_dig_nd c t : is_dig c = false -> N.ltb c 128 = true -> nd E (c :: t).
Proof. intros H Hlt. cbn [nd]. unfold is_digit. rewrite Hlt. exact H. Qed.

(* after any way of matching \d+ on a digit run, a continuation that can start neither on a digit
   nor on what follows the run fails *)
Lemma dplus_seq_nil r ds pre tail :
  all_digits ds = true -> nd E tail ->
  (forall pre', ends E r (pre', tail) = []) ->
  (forall pre' c t, is_dig c = true -> ends E r (pre', c :: t) = []) ->
  ends E (RSeq DPLUS r) (pre, ds ++ tail) = [].
Proof.
  intros Hds Htail Hr1 Hr2. rewrite ends_seq. apply flat_map_nil. intros st' Hin.
  unfold DPLUS in Hin.
  rewrite (ends_plus_set E false digit_cat ds pre tail) in Hin;
    [| apply (all_digits_cat E Hic); exact Hds | apply stops_cat; exact Htail].
  destruct ds as [|c ds']; [destruct Hin|].
  cbn [all_digits forallb] in Hds. apply andb_true_iff in Hds as [_ Hds].
  destruct (prefix_states_next is_dig _ _ _ _ Hds Hin) as [Hs | (c' & t & Hs & Hc')];
    destruct st' as [p s]; cbn [snd] in Hs; subst s; auto.
Qed.

Lemma mem_EE c : set_mem E c EE = (N.eqb c 101 || N.eqb c 69)%bool.
Proof. rewrite set_mem_plain by exact Hic. cbn. rewrite orb_false_r. reflexivity. Qed.

Lemma mem_WD c : set_mem E c WD = (is_word E c || N.eqb c 46)%bool.
Proof.
  rewrite set_mem_plain by exact Hic. cbn [WD existsb item_match cat_match].
  rewrite xorb_false_l, orb_false_r. reflexivity.
Qed.

Lemma mem_sign_pm' c : set_mem E c sign_pm = (N.eqb c 45 || N.eqb c 43)%bool.
Proof. rewrite (mem_sign_pm E Hic). apply orb_comm. Qed.

(* the exponent body  [eE][+-]?\d+ *)
Lemma first_EXP up so ds pre rest :
  ds <> [] -> all_digits ds = true -> nd E rest ->
  rx_first E EXP (pre, exp_chars (Some (up, so, ds)) ++ rest)
  = Some (rev (exp_chars (Some (up, so, ds))) ++ pre, rest).
Proof.
  intros Hne Hds Hrest. unfold EXP.
  assert (Hsign : match ds ++ rest with c :: _ => N.eqb c 45 = false /\ N.eqb c 43 = false | [] => True end).
  { destruct ds as [|c ds']; [contradiction|]. cbn [app]. apply digit_not_sign.
    cbn in Hds. apply andb_true_iff in Hds as [Hc _]. exact Hc. }
  destruct up; cbn [exp_chars app].
  - eapply first_seq; [unfold rx_first; rewrite ends_set, mem_EE; reflexivity|].
    rewrite <- app_assoc.
    eapply first_seq; [apply (first_opt_sign E sign_pm); [exact mem_sign_pm' | exact Hsign]|].
    rewrite (first_dplus ds _ rest Hne Hds Hrest). f_equal. f_equal.
    cbn [rev]. rewrite rev_app_distr, <- !app_assoc. reflexivity.
  - eapply first_seq; [unfold rx_first; rewrite ends_set, mem_EE; reflexivity|].
    rewrite <- app_assoc.
    eapply first_seq; [apply (first_opt_sign E sign_pm); [exact mem_sign_pm' | exact Hsign]|].
    rewrite (first_dplus ds _ rest Hne Hds Hrest). f_equal. f_equal.
    cbn [rev]. rewrite rev_app_distr, <- !app_assoc. reflexivity.
Qed.

Lemma EXP_nil pre rest :
  match rest with c :: _ => N.eqb c 101 = false /\ N.eqb c 69 = false | [] => True end ->
  ends E EXP (pre, rest) = [].
Proof.
  intros H. unfold EXP. apply ends_seq_nil_l. destruct rest as [|c t]; [reflexivity|].
  rewrite ends_set, mem_EE. destruct H as [-> ->]. reflexivity.
Qed.

Lemma exp_len_lt up so ds (rest : list N) : length rest < length (exp_chars (Some (up, so, ds)) ++ rest).
Proof. rewrite app_length. cbn [exp_chars length]. lia. Qed.

(* the optional exponent, written or not *)
Lemma first_opt_exp g eo pre rest :
  exp_ok eo = true -> nd E rest ->
  (eo = None -> match rest with c :: _ => N.eqb c 101 = false /\ N.eqb c 69 = false | [] => True end) ->
  rx_first E (RRep true 0 (Some 1) (RGroup g EXP)) (pre, exp_chars eo ++ rest)
  = Some (rev (exp_chars eo) ++ pre, rest).
Proof.
  intros Hok Hrest Hnone. destruct eo as [[[up so] ds]|].
  - cbn [exp_ok] in Hok. apply andb_true_iff in Hok as [Hne Hds].
    assert (Hne' : ds <> []) by (intros ->; discriminate).
    apply first_opt_take; [rewrite first_group; apply first_EXP; assumption | cbn [snd]; apply exp_len_lt].
  - cbn [exp_chars app rev]. apply first_opt_skip. rewrite ends_group. apply EXP_nil. apply Hnone. reflexivity.
Qed.

(* look-behind / look-ahead at the end of the literal *)
Lemma first_TAIL c pre rest :
  is_dig c = true \/ c = 46%N -> delimited E rest ->
  rx_first E TAIL (c :: pre, rest) = Some (c :: pre, rest).
Proof.
  intros Hc Hrest. unfold TAIL. eapply first_seq.
  - unfold rx_first. rewrite ends_lookbehind1_set; [reflexivity|].
    rewrite mem_WD. destruct Hc as [Hc | ->]; [rewrite (is_word_ascii_digit E c Hc); reflexivity | apply orb_true_r].
  - unfold rx_first. rewrite ends_lookahead_neg_set; [reflexivity|].
    destruct rest as [|c' t]; [exact I|]. cbn [stops]. rewrite mem_WD.
    destruct Hrest as (Hw & _ & Hdot). rewrite Hw. apply N.eqb_neq in Hdot. rewrite Hdot. reflexivity.
Qed.

Lemma delimited_nd rest : delimited E rest -> nd E rest.
Proof. destruct rest as [|c t]; [auto|]. intros (_ & H & _). exact H. Qed.

Lemma delimited_not_e rest : delimited E rest ->
  match rest with c :: _ => N.eqb c 101 = false /\ N.eqb c 69 = false | [] => True end.
Proof.
  destruct rest as [|c t]; [auto|]. intros (Hw & _ & _).
  split; apply N.eqb_neq; intros ->; discriminate Hw.
Qed.

Lemma delimited_not_dot rest : delimited E rest ->
  match rest with c :: _ => N.eqb c 46 = false | [] => True end.
Proof. destruct rest as [|c t]; [auto|]. intros (_ & _ & H). apply N.eqb_neq. exact H. Qed.

Lemma delimited_not_digit_next rest : delimited E rest -> not_digit_next rest.
Proof.
  destruct rest as [|c t]; [auto|]. intros (_ & H & _). cbn [not_digit_next].
  destruct (is_dig c) eqn:Hc; [|reflexivity]. rewrite (is_digit_ascii E c Hc) in H. discriminate.
Qed.

(* what follows the mantissa inside a literal, or after it *)
Definition mtail_ok (m : mantissa) (tail : list N) : Prop :=
  nd E tail /\ match m with MInt _ => match tail with c :: _ => N.eqb c 46 = false | [] => True end | _ => True end.

Lemma dot_group_nil g r pre tail :
  match tail with c :: _ => N.eqb c 46 = false | [] => True end ->
  ends E (RGroup g (RSeq (RChr 46) r)) (pre, tail) = [].
Proof.
  intros H. rewrite ends_group. apply ends_seq_nil_l. destruct tail as [|c t]; [reflexivity|].
  rewrite ends_chr by exact Hic. rewrite H. reflexivity.
Qed.

Lemma nd_dot t : nd E (46%N :: t).
Proof. reflexivity. Qed.

Lemma all_digits_nonempty (ds : list N) : negb (Nat.eqb (length ds) 0) = true -> ds <> [].
Proof. intros H ->. discriminate. Qed.

(* FLOAT mantissa  (\d+(\.\d* )?|\.\d+) *)
Lemma first_mant_float m pre tail :
  mant_ok m = true -> mtail_ok m tail ->
  rx_first E (RGroup 1 (RAlt FA FB)) (pre, mant_chars m ++ tail) = Some (rev (mant_chars m) ++ pre, tail).
Proof.
  intros Hok [Hnd Hdot]. rewrite first_group. destruct m as [ds1 ds2 | ds2 | ds1]; cbn [mant_ok mant_chars] in *.
  - apply andb_true_iff in Hok as [Hok Hds2]. apply andb_true_iff in Hok as [Hne Hds1].
    apply all_digits_nonempty in Hne.
    apply first_alt_l. unfold FA. rewrite <- app_assoc. cbn [app].
    eapply first_seq; [apply first_dplus; [exact Hne | exact Hds1 | apply nd_dot]|].
    apply first_opt_take.
    + rewrite first_group. eapply first_seq.
      * unfold rx_first. rewrite ends_chr by exact Hic. reflexivity.
      * rewrite (first_dstar ds2 _ tail Hds2 Hnd). f_equal. f_equal.
        rewrite rev_app_distr. cbn [rev]. rewrite <- !app_assoc. reflexivity.
    + cbn [snd length]. rewrite app_length. lia.
  - apply andb_true_iff in Hok as [Hne Hds2]. apply all_digits_nonempty in Hne.
    rewrite first_alt_r.
    + unfold FB. cbn [app]. eapply first_seq.
      * unfold rx_first. rewrite ends_chr by exact Hic. reflexivity.
      * rewrite (first_dplus ds2 _ tail Hne Hds2 Hnd). f_equal. f_equal.
        cbn [rev]. rewrite <- !app_assoc. reflexivity.
    + unfold FA. apply ends_seq_nil_l. cbn [app]. apply dplus_nil. apply nd_dot.
  - apply andb_true_iff in Hok as [Hne Hds1]. apply all_digits_nonempty in Hne.
    apply first_alt_l. unfold FA.
    eapply first_seq; [apply first_dplus; [exact Hne | exact Hds1 | exact Hnd]|].
    apply first_opt_skip. apply dot_group_nil. exact Hdot.
Qed.

(* STRICTFLOAT mantissa with a dot  (\d+\.(\d* )?|\.\d+) *)
Lemma first_mant_strict m pre tail :
  mant_ok m = true -> nd E tail -> (forall ds, m <> MInt ds) ->
  rx_first E (RGroup 3 (RAlt SA FB)) (pre, mant_chars m ++ tail) = Some (rev (mant_chars m) ++ pre, tail).
Proof.
  intros Hok Hnd Hm. rewrite first_group. destruct m as [ds1 ds2 | ds2 | ds1]; cbn [mant_ok mant_chars] in *.
  - apply andb_true_iff in Hok as [Hok Hds2]. apply andb_true_iff in Hok as [Hne Hds1].
    apply all_digits_nonempty in Hne.
    apply first_alt_l. unfold SA. rewrite <- app_assoc. cbn [app].
    eapply first_seq; [apply first_dplus; [exact Hne | exact Hds1 | apply nd_dot]|].
    eapply first_seq; [unfold rx_first; rewrite ends_chr by exact Hic; reflexivity|].
    destruct ds2 as [|d ds2'].
    + (* "12." : the optional \d* makes no progress *)
      cbn [app]. unfold rx_first. rewrite ends_opt, ends_group. unfold DSTAR.
      rewrite (ends_star_set E false digit_cat [] _ tail); [| reflexivity | apply stops_cat; exact Hnd].
      cbn [prefix_states flat_map snd]. rewrite Nat.ltb_irrefl. cbn [app hd_error].
      rewrite rev_app_distr. reflexivity.
    + apply first_opt_take.
      * rewrite first_group. rewrite (first_dstar (d :: ds2') _ tail Hds2 Hnd). f_equal. f_equal.
        rewrite rev_app_distr. cbn [rev]. rewrite <- !app_assoc. reflexivity.
      * cbn [snd length app]. rewrite app_length. lia.
  - apply andb_true_iff in Hok as [Hne Hds2]. apply all_digits_nonempty in Hne.
    rewrite first_alt_r.
    + unfold FB. cbn [app]. eapply first_seq.
      * unfold rx_first. rewrite ends_chr by exact Hic. reflexivity.
      * rewrite (first_dplus ds2 _ tail Hne Hds2 Hnd). f_equal. f_equal.
        cbn [rev]. rewrite <- !app_assoc. reflexivity.
    + unfold SA. apply ends_seq_nil_l. cbn [app]. apply dplus_nil. apply nd_dot.
  - exfalso. apply (Hm ds1). reflexivity.
Qed.

(* on a run of digits not followed by a dot, the dotted alternatives of STRICTFLOAT fail *)
Lemma dotted_nil ds pre tail :
  all_digits ds = true -> nd E tail ->
  match tail with c :: _ => N.eqb c 46 = false | [] => True end ->
  ends E (RGroup 3 (RAlt SA FB)) (pre, ds ++ tail) = [].
Proof.
  intros Hds Hnd Hdot. rewrite ends_group. apply ends_alt_nil.
  - unfold SA. apply dplus_seq_nil; [exact Hds | exact Hnd | |].
    + intros pre'. apply ends_seq_nil_l. destruct tail as [|c t]; [reflexivity|].
      rewrite ends_chr by exact Hic. rewrite Hdot. reflexivity.
    + intros pre' c t Hc. apply ends_seq_nil_l. rewrite ends_chr by exact Hic.
      rewrite (is_dig_not c 46 Hc eq_refl). reflexivity.
  - unfold FB. apply ends_seq_nil_l. destruct ds as [|c ds'].
    + cbn [app]. destruct tail as [|c t]; [reflexivity|]. rewrite ends_chr by exact Hic. rewrite Hdot. reflexivity.
    + cbn [app]. rewrite ends_chr by exact Hic. cbn in Hds. apply andb_true_iff in Hds as [Hc _].
      rewrite (is_dig_not c 46 Hc eq_refl). reflexivity.
Qed.

Lemma last_digit pfx ds : ds <> [] -> all_digits ds = true ->
  exists c l, rev (pfx ++ ds) = c :: l /\ is_dig c = true.
Proof.
  intros Hne Hds. destruct (exists_last Hne) as (ds' & c & ->).
  exists c, (rev (pfx ++ ds')). split.
  - rewrite app_assoc, rev_app_distr. reflexivity.
  - unfold all_digits in Hds. rewrite forallb_app in Hds. apply andb_true_iff in Hds as [_ Hc].
    cbn in Hc. apply andb_true_iff in Hc as [Hc _]. exact Hc.
Qed.

Lemma float_last so m eo :
  mant_ok m = true -> exp_ok eo = true ->
  exists c l, rev (float_chars so m eo) = c :: l /\ (is_dig c = true \/ c = 46%N).
Proof.
  intros Hm He. unfold float_chars. destruct eo as [[[up so'] ds]|].
  - cbn [exp_ok] in He. apply andb_true_iff in He as [Hne Hds]. apply all_digits_nonempty in Hne.
    cbn [exp_chars].
    destruct (last_digit (sign_chars so ++ mant_chars m ++ (if up then 69%N else 101%N) :: sign_chars so') ds Hne Hds)
      as (c & l & Hr & Hc).
    exists c, l. split; [|left; exact Hc]. rewrite <- Hr. apply (f_equal (@rev N)).
    rewrite <- !app_assoc. cbn [app]. rewrite <- ?app_assoc. reflexivity.
  - cbn [exp_chars]. rewrite app_nil_r.
    destruct m as [ds1 ds2 | ds2 | ds1]; cbn [mant_ok mant_chars] in *.
    + apply andb_true_iff in Hm as [Hm Hds2]. destruct ds2 as [|d ds2'].
      * exists 46%N, (rev (sign_chars so ++ ds1)). split; [|right; reflexivity].
        rewrite app_assoc, rev_app_distr. reflexivity.
      * destruct (last_digit (sign_chars so ++ ds1 ++ [46%N]) (d :: ds2') ltac:(discriminate) Hds2) as (c & l & Hr & Hc).
        exists c, l. split; [|left; exact Hc]. rewrite <- Hr. apply (f_equal (@rev N)). rewrite <- !app_assoc. reflexivity.
    + apply andb_true_iff in Hm as [Hne Hds2]. apply all_digits_nonempty in Hne.
      destruct (last_digit (sign_chars so ++ [46%N]) ds2 Hne Hds2) as (c & l & Hr & Hc).
      exists c, l. split; [|left; exact Hc]. rewrite <- Hr. apply (f_equal (@rev N)). rewrite <- !app_assoc. reflexivity.
    + apply andb_true_iff in Hm as [Hne Hds1]. apply all_digits_nonempty in Hne.
      destruct (last_digit (sign_chars so) ds1 Hne Hds1) as (c & l & Hr & Hc).
      exists c, l. split; [|left; exact Hc]. exact Hr.
Qed.

Lemma mant_head_not_sign m t : mant_ok m = true ->
  match mant_chars m ++ t with c :: _ => N.eqb c 45 = false /\ N.eqb c 43 = false | [] => True end.
Proof.
  intros Hm. destruct m as [ds1 ds2 | ds2 | ds1]; cbn [mant_ok mant_chars] in *.
  - apply andb_true_iff in Hm as [Hm _]. apply andb_true_iff in Hm as [Hne Hds].
    destruct ds1 as [|c ds1']; [discriminate|]. cbn [app]. apply digit_not_sign.
    cbn in Hds. apply andb_true_iff in Hds as [Hc _]. exact Hc.
  - cbn [app]. split; reflexivity.
  - apply andb_true_iff in Hm as [Hne Hds].
    destruct ds1 as [|c ds1']; [discriminate|]. cbn [app]. apply digit_not_sign.
    cbn in Hds. apply andb_true_iff in Hds as [Hc _]. exact Hc.
Qed.

Lemma exp_tail_nd eo rest : nd E rest -> nd E (exp_chars eo ++ rest).
Proof. intros H. destruct eo as [[[[|] so] ds]|]; [reflexivity | reflexivity | exact H]. Qed.

Lemma exp_tail_not_dot eo rest :
  match rest with c :: _ => N.eqb c 46 = false | [] => True end ->
  match exp_chars eo ++ rest with c :: _ => N.eqb c 46 = false | [] => True end.
Proof. intros H. destruct eo as [[[[|] so] ds]|]; [reflexivity | reflexivity | exact H]. Qed.

Lemma float_state so m eo pre :
  rev (exp_chars eo) ++ rev (mant_chars m) ++ rev (sign_chars so) ++ pre = rev (float_chars so m eo) ++ pre.
Proof. unfold float_chars. rewrite !rev_app_distr, <- !app_assoc. reflexivity. Qed.

(* FLOAT matches every float literal (and plain integers) in full *)
Lemma first_float so m eo pre rest :
  mant_ok m = true -> exp_ok eo = true -> delimited E rest ->
  rx_first E rx_FLOAT (pre, float_chars so m eo ++ rest) = Some (rev (float_chars so m eo) ++ pre, rest).
Proof.
  intros Hm He Hrest. rewrite rx_FLOAT_shape. unfold float_chars. rewrite <- !app_assoc.
  eapply first_seq.
  { apply (first_opt_sign E sign_pm); [exact mem_sign_pm' | apply mant_head_not_sign; exact Hm]. }
  eapply first_seq.
  { apply first_mant_float; [exact Hm|]. split.
    - apply exp_tail_nd, delimited_nd, Hrest.
    - destruct m; auto. apply exp_tail_not_dot, delimited_not_dot, Hrest. }
  eapply first_seq.
  { apply first_opt_exp; [exact He | apply delimited_nd, Hrest | intros _; apply delimited_not_e, Hrest]. }
  rewrite float_state. destruct (float_last so m eo Hm He) as (c & l & Hr & Hc).
  unfold float_chars in *. rewrite Hr. cbn [app]. apply first_TAIL; assumption.
Qed.

(* STRICTFLOAT matches every literal with a '.' or an exponent in full *)
Lemma first_strictfloat so m eo pre rest :
  mant_ok m = true -> exp_ok eo = true -> is_float_form m eo = true -> delimited E rest ->
  rx_first E rx_STRICTFLOAT (pre, float_chars so m eo ++ rest) = Some (rev (float_chars so m eo) ++ pre, rest).
Proof.
  intros Hm He Hform Hrest. rewrite rx_STRICTFLOAT_shape. unfold float_chars. rewrite <- !app_assoc.
  eapply first_seq.
  { apply (first_opt_sign E sign_pm); [exact mem_sign_pm' | apply mant_head_not_sign; exact Hm]. }
  eapply first_seq.
  { rewrite first_group.
    assert (Hcase : (forall ds, m <> MInt ds) \/ exists ds up so' ds3, m = MInt ds /\ eo = Some (up, so', ds3)).
    { destruct m as [ds1 ds2 | ds2 | ds1]; [left; discriminate | left; discriminate |].
      destruct eo as [[[up so'] ds3]|]; [|discriminate]. right. exists ds1, up, so', ds3. split; reflexivity. }
    destruct Hcase as [Hdot | (ds & up & so' & ds3 & -> & ->)].
    - apply first_alt_l. unfold ALT1. rewrite first_group. eapply first_seq.
      + apply first_mant_strict; [exact Hm | apply exp_tail_nd, delimited_nd, Hrest | exact Hdot].
      + apply first_opt_exp; [exact He | apply delimited_nd, Hrest | intros _; apply delimited_not_e, Hrest].
    - cbn [mant_ok mant_chars exp_ok] in *.
      apply andb_true_iff in Hm as [Hne Hds]. apply all_digits_nonempty in Hne.
      apply andb_true_iff in He as [Hne3 Hds3]. apply all_digits_nonempty in Hne3.
      rewrite first_alt_r.
      + unfold ALT2. rewrite first_group. eapply first_seq.
        * rewrite first_group. apply first_dplus; [exact Hne | exact Hds |]. destruct up; reflexivity.
        * rewrite first_group. apply first_EXP; [exact Hne3 | exact Hds3 | apply delimited_nd, Hrest].
      + unfold ALT1. rewrite ends_group. apply ends_seq_nil_l.
        apply dotted_nil; [exact Hds | destruct up; reflexivity | destruct up; reflexivity]. }
  rewrite float_state. destruct (float_last so m eo Hm He) as (c & l & Hr & Hc).
  unfold float_chars in *. rewrite Hr. cbn [app]. apply first_TAIL; assumption.
Qed.

(* STRICTFLOAT does not match any part of a plain integer *)
Lemma strictfloat_int_nil so ds pre rest :
  ds <> [] -> all_digits ds = true -> delimited E rest ->
  ends E rx_STRICTFLOAT (pre, sign_chars so ++ ds ++ rest) = [].
Proof.
  intros Hne Hds Hrest. rewrite rx_STRICTFLOAT_shape. rewrite ends_seq.
  assert (Hbody : forall pre', ends E (RSeq (RGroup 1 (RAlt ALT1 ALT2)) TAIL) (pre', ds ++ rest) = []).
  { intros pre'. apply ends_seq_nil_l. rewrite ends_group. apply ends_alt_nil.
    - unfold ALT1. rewrite ends_group. apply ends_seq_nil_l.
      apply dotted_nil; [exact Hds | apply delimited_nd, Hrest | apply delimited_not_dot, Hrest].
    - unfold ALT2. rewrite ends_group. rewrite ends_seq, ends_group. fold (ends E (RSeq DPLUS (RGroup 8 EXP)) (pre', ds ++ rest)).
      apply dplus_seq_nil; [exact Hds | apply delimited_nd, Hrest | |].
      + intros p. rewrite ends_group. apply EXP_nil. apply delimited_not_e, Hrest.
      + intros p c t Hc. rewrite ends_group. apply EXP_nil.
        split; apply (is_dig_not c _ Hc); reflexivity. }
  unfold SIGN. rewrite (ends_opt_sign E sign_pm so pre (ds ++ rest) mem_sign_pm').
  2:{ destruct ds as [|c ds']; [contradiction|]. cbn [app]. apply digit_not_sign.
      cbn in Hds. apply andb_true_iff in Hds as [Hc _]. exact Hc. }
  destruct so as [b|].
  - cbn [flat_map]. rewrite Hbody. cbn [app]. rewrite app_nil_r.
    apply ends_seq_nil_l. rewrite ends_group.
    assert (Hs : exists s, sign_chars (Some b) = [s] /\ (s = 43%N \/ s = 45%N)).
    { destruct b; eexists; split; try reflexivity; auto. }
    destruct Hs as (s & -> & Hs). cbn [app].
    assert (Hnds : nd E (s :: ds ++ rest)) by (destruct Hs as [-> | ->]; reflexivity).
    assert (Hndot : N.eqb s 46 = false) by (destruct Hs as [-> | ->]; reflexivity).
    apply ends_alt_nil.
    + unfold ALT1. rewrite ends_group. apply ends_seq_nil_l. rewrite ends_group. apply ends_alt_nil.
      * unfold SA. apply ends_seq_nil_l. apply dplus_nil. exact Hnds.
      * unfold FB. apply ends_seq_nil_l. rewrite ends_chr by exact Hic. rewrite Hndot. reflexivity.
    + unfold ALT2. rewrite ends_group. apply ends_seq_nil_l. rewrite ends_group. apply dplus_nil. exact Hnds.
  - cbn [flat_map]. rewrite Hbody. reflexivity.
Qed.

End Floats.

Lemma float_chars_length so m eo : mant_ok m = true -> exists n, length (float_chars so m eo) = S n.
Proof.
  intros Hm. destruct (float_chars so m eo) as [|c l] eqn:Hl; [|eexists; reflexivity].
  exfalso. unfold float_chars in Hl. apply app_eq_nil in Hl as [_ Hl]. apply app_eq_nil in Hl as [Hl _].
  destruct m as [ds1 ds2 | ds2 | ds1]; cbn [mant_chars mant_ok] in *.
  - apply app_eq_nil in Hl as [_ Hl]. discriminate.
  - discriminate.
  - subst ds1. discriminate.
Qed.

Lemma leaf_match_first E t r pre lit rest pre' n :
  bt_rx t = Some r -> length lit = S n ->
  rx_first E r (pre, lit ++ rest) = Some (pre', rest) ->
  leaf_match E t pre (lit ++ rest) = Some (t, length lit).
Proof.
  intros Hr Hn Hf. unfold leaf_match. rewrite Hr. rewrite (rx_match_first_app _ _ _ _ _ _ Hf), Hn. reflexivity.
Qed.

Lemma choice_NUMBER_shape : choice_NUMBER = [4; 2]%nat.
Proof. reflexivity. Qed.

(* FLOAT, STRICTFLOAT and NUMBER match a literal with '.' or exponent in full; NUMBER takes it as STRICTFLOAT *)
Theorem float_extent u so m eo pre rest :
  mant_ok m = true -> exp_ok eo = true -> is_float_form m eo = true -> delimited (src_env u) rest ->
  bt_match (src_env u) TFLOAT pre (float_chars so m eo ++ rest) = Some (TFLOAT, length (float_chars so m eo))
  /\ bt_match (src_env u) TSTRICTFLOAT pre (float_chars so m eo ++ rest) = Some (TSTRICTFLOAT, length (float_chars so m eo))
  /\ bt_match (src_env u) TNUMBER pre (float_chars so m eo ++ rest) = Some (TSTRICTFLOAT, length (float_chars so m eo)).
Proof.
  intros Hm He Hform Hrest. destruct (float_chars_length so m eo Hm) as [n Hn].
  assert (HS : leaf_match (src_env u) TSTRICTFLOAT pre (float_chars so m eo ++ rest)
               = Some (TSTRICTFLOAT, length (float_chars so m eo))).
  { eapply leaf_match_first; [reflexivity | exact Hn |].
    apply first_strictfloat; [apply src_env_ic | assumption..]. }
  split; [|split].
  - cbn [bt_match]. eapply leaf_match_first; [reflexivity | exact Hn |].
    apply first_float; [apply src_env_ic | assumption..].
  - exact HS.
  - cbn [bt_match]. unfold number_match. rewrite choice_NUMBER_shape. cbn [first_some code_leaf_match bt_of_code].
    rewrite HS. reflexivity.
Qed.

(* NUMBER on a plain integer literal: STRICTFLOAT matches no part of it, INT takes all of it *)
Theorem number_int_choice u so ds pre rest :
  ds <> [] -> all_digits ds = true -> delimited (src_env u) rest ->
  rx_match (src_env u) rx_STRICTFLOAT pre ((sign_chars so ++ ds) ++ rest) = None
  /\ bt_match (src_env u) TNUMBER pre ((sign_chars so ++ ds) ++ rest) = Some (TINT, length (sign_chars so ++ ds)).
Proof.
  intros Hne Hds Hrest.
  assert (HN : rx_match (src_env u) rx_STRICTFLOAT pre ((sign_chars so ++ ds) ++ rest) = None).
  { apply rx_match_nil. rewrite <- app_assoc. apply strictfloat_int_nil; [apply src_env_ic | assumption..]. }
  split; [exact HN|].
  cbn [bt_match]. unfold number_match. rewrite choice_NUMBER_shape. cbn [first_some code_leaf_match bt_of_code].
  unfold leaf_match at 1. cbn [bt_rx]. rewrite HN.
  pose proof (int_bt_match u so ds pre rest Hne Hds (delimited_not_digit_next (src_env u) rest Hrest)) as Hi.
  cbn [bt_match] in Hi. rewrite Hi. reflexivity.
Qed.

Theorem number_int_roundtrip u z pre rest :
  delimited (src_env u) rest ->
  bt_match (src_env u) TNUMBER pre (dec_text z ++ rest) = Some (TINT, length (dec_text z))
  /\ convert TINT (dec_text z) = VInt z.
Proof.
  intros Hrest. split.
  - destruct (dec_text_shape z) as (so & ds & -> & Hne & Hds & _).
    apply (number_int_choice u so ds pre rest Hne Hds Hrest).
  - cbn [convert]. rewrite int_of_dec_text. reflexivity.
Qed.

(* FLOAT also takes a plain integer literal in full (as a float) *)
Theorem float_on_int u so ds pre rest :
  ds <> [] -> all_digits ds = true -> delimited (src_env u) rest ->
  bt_match (src_env u) TFLOAT pre ((sign_chars so ++ ds) ++ rest) = Some (TFLOAT, length (sign_chars so ++ ds)).
Proof.
  intros Hne Hds Hrest.
  assert (Hm : mant_ok (MInt ds) = true).
  { cbn [mant_ok]. rewrite Hds. destruct ds; [contradiction|reflexivity]. }
  pose proof (first_float (src_env u) (src_env_ic u) so (MInt ds) None pre rest Hm eq_refl Hrest) as Hf.
  unfold float_chars in Hf. cbn [mant_chars exp_chars] in Hf. rewrite app_nil_r in Hf.
  destruct (float_chars_length so (MInt ds) None Hm) as [n Hn].
  unfold float_chars in Hn. cbn [mant_chars exp_chars] in Hn. rewrite app_nil_r in Hn.
  cbn [bt_match]. eapply leaf_match_first; [reflexivity | exact Hn | exact Hf].
Qed.

(* ---- single values and sequences through the loading loop *)
Lemma is_ws_delimited u w rest : forallb is_ws w = true -> w <> [] -> delimited (src_env u) (w ++ rest).
Proof.
  intros Hw Hne. destruct w as [|c w']; [contradiction|]. cbn [app delimited].
  cbn [forallb] in Hw. apply andb_true_iff in Hw as [Hc _].
  unfold is_ws in Hc. change src_ws with [9; 10; 13; 32]%N in Hc. cbn [existsb] in Hc.
  repeat (apply orb_true_iff in Hc as [Hc | Hc]; [apply N.eqb_eq in Hc; subst c; repeat split; discriminate |]).
  discriminate.
Qed.

Lemma number_nil u t pre : t = TINT \/ t = TFLOAT \/ t = TSTRICTFLOAT \/ t = TNUMBER \/ t = TBOOL ->
  bt_match (src_env u) t pre [] = None.
Proof. intros [-> | [-> | [-> | [-> | ->]]]]; reflexivity. Qed.

(* ================================================================ sequences of written values, every base type *)
Definition numlit_value (n : numlit) : value :=
  match n with NLInt z => VInt z | NLFloat so m eo => VFloat (float_chars so m eo) end.

Lemma seq_text_items {A} (text : A -> list N) (val : A -> value) (items : list (A * list N)) :
  items_text text items = seq_text (map (fun it => (text (fst it), snd it, val (fst it))) items).
Proof.
  unfold items_text. induction items as [|[a w] tl IH]; [reflexivity|].
  cbn [flat_map map seq_text fst snd]. rewrite IH, <- app_assoc. reflexivity.
Qed.

Lemma chain_of_seps {A} (text : A -> list N) (val : A -> value) (P : list N -> Prop) (items : list (A * list N)) :
  P [] -> (forall w rest, forallb is_ws w = true -> w <> [] -> P (w ++ rest)) ->
  (forall a w, In (a, w) items -> forallb is_ws w = true) -> seps_ok items ->
  chain_ok P (map (fun it => (text (fst it), snd it, val (fst it))) items).
Proof.
  intros Hnil Hws. induction items as [|[a w] tl IH]; intros Hw Hseps; [exact I|].
  cbn [map chain_ok fst snd]. split.
  - destruct tl as [|it tl'].
    + cbn [map seq_text]. rewrite app_nil_r. destruct w as [|c w']; [exact Hnil|].
      rewrite <- (app_nil_r (c :: w')). apply Hws; [apply (Hw a); left; reflexivity | discriminate].
    + cbn [seps_ok] in Hseps. destruct Hseps as [Hne _]. apply Hws; [apply (Hw a); left; reflexivity | exact Hne].
  - apply IH.
    + intros a' w' Hin. apply (Hw a'). right. exact Hin.
    + cbn [seps_ok] in Hseps. destruct tl as [|it tl']; [exact I | apply Hseps].
Qed.

(* the generic statement: items that each match in full before an acceptable continuation P, separated by
   non-empty whitespace (which is an acceptable continuation), load as exactly their values *)
Lemma load_written {A} E t (P : list N -> Prop) (text : A -> list N) (val : A -> value) (ok : A -> Prop) :
  (forall pre, bt_match E t pre [] = None) ->
  P [] -> (forall w rest, forallb is_ws w = true -> w <> [] -> P (w ++ rest)) ->
  (forall a, ok a -> starts_nonws (text a)) ->
  (forall a pre rest, ok a -> P rest ->
     exists leaf, bt_match E t pre (text a ++ rest) = Some (leaf, length (text a)) /\ convert leaf (text a) = val a) ->
  forall (items : list (A * list N)) w0,
  (forall a w, In (a, w) items -> ok a /\ forallb is_ws w = true) -> seps_ok items -> forallb is_ws w0 = true ->
  load_many E t (w0 ++ items_text text items) = Some (map (fun it => val (fst it)) items).
Proof.
  intros Hnil HP0 HPws Hstart Hmatch items w0 Hitems Hseps Hw0.
  rewrite (seq_text_items text val). unfold load_many.
  rewrite (load_seq E t P Hnil (map (fun it => (text (fst it), snd it, val (fst it))) items)).
  - rewrite map_map. reflexivity.
  - intros lit w v Hin. apply in_map_iff in Hin as ([a w'] & Heq & Hin). cbn [fst snd] in Heq.
    injection Heq as <- <- <-. destruct (Hitems a w' Hin) as [Hok Hw].
    split; [exact Hw|]. split; [apply Hstart; exact Hok|]. intros pre rest HP. apply Hmatch; assumption.
  - apply chain_of_seps; [exact HP0 | exact HPws | | exact Hseps].
    intros a w Hin. apply (Hitems a w Hin).
  - exact Hw0.
  - lia.
Qed.

Lemma not_ws_ge33 c : N.leb 33 c = true -> is_ws c = false.
Proof.
  intros H. apply N.leb_le in H. unfold is_ws. change src_ws with [9; 10; 13; 32]%N. cbn [existsb].
  repeat (rewrite (proj2 (N.eqb_neq c _)) by lia). reflexivity.
Qed.

Lemma is_dig_not_ws c : is_dig c = true -> is_ws c = false.
Proof.
  intros H. apply not_ws_ge33. unfold is_dig, in_range in H. apply andb_true_iff in H as [H _].
  apply N.leb_le in H. apply N.leb_le. lia.
Qed.

Lemma starts_digits ds t : ds <> [] -> all_digits ds = true -> starts_nonws (ds ++ t).
Proof.
  intros Hne Hds. destruct ds as [|c ds']; [contradiction|]. cbn [app starts_nonws].
  cbn in Hds. apply andb_true_iff in Hds as [Hc _]. apply is_dig_not_ws. exact Hc.
Qed.

Lemma starts_sign_digits so ds t : ds <> [] -> all_digits ds = true -> starts_nonws (sign_chars so ++ ds ++ t).
Proof.
  intros Hne Hds. destruct so as [[|]|]; cbn [sign_chars app]; [reflexivity | reflexivity |].
  apply starts_digits; assumption.
Qed.

Lemma starts_dec_text z : starts_nonws (dec_text z).
Proof.
  destruct (dec_text_shape z) as (so & ds & -> & Hne & Hds & _).
  rewrite <- (app_nil_r ds). apply starts_sign_digits; assumption.
Qed.

Lemma starts_float_chars so m eo : mant_ok m = true -> starts_nonws (float_chars so m eo).
Proof.
  intros Hm. unfold float_chars. destruct so as [[|]|]; cbn [sign_chars app]; [reflexivity | reflexivity |].
  destruct m as [ds1 ds2 | ds2 | ds1]; cbn [mant_ok mant_chars] in *.
  - apply andb_true_iff in Hm as [Hm _]. apply andb_true_iff in Hm as [Hne Hds].
    apply all_digits_nonempty in Hne. rewrite <- app_assoc. apply starts_digits; assumption.
  - reflexivity.
  - apply andb_true_iff in Hm as [Hne Hds]. apply all_digits_nonempty in Hne. apply starts_digits; assumption.
Qed.

Lemma ws_not_digit_next w rest : forallb is_ws w = true -> w <> [] -> not_digit_next (w ++ rest).
Proof.
  intros Hw Hne. destruct w as [|c w']; [contradiction|]. cbn [app not_digit_next].
  cbn [forallb] in Hw. apply andb_true_iff in Hw as [Hc _].
  destruct (is_dig c) eqn:Hd; [|reflexivity]. rewrite (is_dig_not_ws c Hd) in Hc. discriminate.
Qed.

Lemma ws_not_word_next u w rest : forallb is_ws w = true -> w <> [] -> not_word_next (src_env u) (w ++ rest).
Proof.
  intros Hw Hne.
  pose proof (is_ws_delimited u w rest Hw Hne) as Hd. destruct w as [|c w']; [contradiction|].
  cbn [app delimited not_word_next] in *. apply Hd.
Qed.

(* ---- INT *)
Theorem int_seq u (items : list (Z * list N)) w0 :
  (forall z w, In (z, w) items -> forallb is_ws w = true) -> seps_ok items -> forallb is_ws w0 = true ->
  load_many (src_env u) TINT (w0 ++ items_text dec_text items) = Some (map (fun it => VInt (fst it)) items).
Proof.
  intros Hitems Hseps Hw0.
  apply (load_written (src_env u) TINT not_digit_next dec_text VInt (fun _ => True)).
  - intros pre. apply number_nil. auto.
  - exact I.
  - apply ws_not_digit_next.
  - intros z _. apply starts_dec_text.
  - intros z pre rest _ HP. exists TINT. apply int_roundtrip. exact HP.
  - intros z w Hin. split; [exact I | apply (Hitems z w Hin)].
  - exact Hseps.
  - exact Hw0.
Qed.

(* ---- NUMBER: integers and floats mixed *)
Theorem number_seq u (items : list (numlit * list N)) w0 :
  (forall n w, In (n, w) items -> numlit_ok n = true /\ forallb is_ws w = true) -> seps_ok items ->
  forallb is_ws w0 = true ->
  load_many (src_env u) TNUMBER (w0 ++ items_text numlit_text items) = Some (map (fun it => numlit_value (fst it)) items).
Proof.
  intros Hitems Hseps Hw0.
  apply (load_written (src_env u) TNUMBER (delimited (src_env u)) numlit_text numlit_value (fun n => numlit_ok n = true)).
  - intros pre. apply number_nil. auto.
  - exact I.
  - apply is_ws_delimited.
  - intros [z | so m eo] Hok; cbn [numlit_text].
    + apply starts_dec_text.
    + cbn [numlit_ok] in Hok. apply andb_true_iff in Hok as [Hok _]. apply andb_true_iff in Hok as [Hm _].
      apply starts_float_chars. exact Hm.
  - intros [z | so m eo] pre rest Hok HP; cbn [numlit_text numlit_value].
    + exists TINT. apply number_int_roundtrip. exact HP.
    + cbn [numlit_ok] in Hok. apply andb_true_iff in Hok as [Hok Hf]. apply andb_true_iff in Hok as [Hm He].
      exists TSTRICTFLOAT. split; [apply (float_extent u so m eo pre rest Hm He Hf HP) | reflexivity].
  - exact Hitems.
  - exact Hseps.
  - exact Hw0.
Qed.

(* ---- FLOAT and STRICTFLOAT: float literals *)
Theorem float_seq u t (items : list (numlit * list N)) w0 :
  t = TFLOAT \/ t = TSTRICTFLOAT ->
  (forall n w, In (n, w) items -> numlit_ok n = true /\ numlit_is_float n = true /\ forallb is_ws w = true) ->
  seps_ok items -> forallb is_ws w0 = true ->
  load_many (src_env u) t (w0 ++ items_text numlit_text items) = Some (map (fun it => VFloat (numlit_text (fst it))) items).
Proof.
  intros Ht Hitems Hseps Hw0.
  apply (load_written (src_env u) t (delimited (src_env u)) numlit_text (fun n => VFloat (numlit_text n))
           (fun n => numlit_ok n = true /\ numlit_is_float n = true)).
  - intros pre. apply number_nil. destruct Ht as [-> | ->]; auto.
  - exact I.
  - apply is_ws_delimited.
  - intros [z | so m eo] [Hok Hfl]; [discriminate|]. cbn [numlit_text].
    cbn [numlit_ok] in Hok. apply andb_true_iff in Hok as [Hok _]. apply andb_true_iff in Hok as [Hm _].
    apply starts_float_chars. exact Hm.
  - intros [z | so m eo] pre rest [Hok Hfl] HP; [discriminate|]. cbn [numlit_text].
    cbn [numlit_ok] in Hok. apply andb_true_iff in Hok as [Hok Hf]. apply andb_true_iff in Hok as [Hm He].
    destruct (float_extent u so m eo pre rest Hm He Hf HP) as (H1 & H2 & _).
    destruct Ht as [-> | ->]; [exists TFLOAT | exists TSTRICTFLOAT]; split; auto.
  - intros n w Hin. destruct (Hitems n w Hin) as (H1 & H2 & H3). auto.
  - exact Hseps.
  - exact Hw0.
Qed.

(* ---- BOOL *)
Definition bool_value (sp : list N) : bool := bool_conv sp.

Theorem bool_seq u (items : list (list N * bool * list N)) w0 :
  (forall sp b w, In (sp, b, w) items -> In (sp, b) bool_spellings /\ forallb is_ws w = true) -> seps_ok items ->
  forallb is_ws w0 = true ->
  load_many (src_env u) TBOOL (w0 ++ items_text (fun sb => fst sb) items) = Some (map (fun it => VBool (snd (fst it))) items).
Proof.
  intros Hitems Hseps Hw0.
  apply (load_written (src_env u) TBOOL (not_word_next (src_env u)) (fun sb : list N * bool => fst sb)
           (fun sb => VBool (snd sb)) (fun sb => In sb bool_spellings)).
  - intros pre. apply number_nil. auto 6.
  - exact I.
  - apply ws_not_word_next.
  - intros [sp b] Hin. cbn [fst]. cbn [bool_spellings In] in Hin.
    destruct Hin as [Heq|[Heq|[Heq|[Heq|[Heq|[Heq|[]]]]]]]; injection Heq as <- <-; reflexivity.
  - intros [sp b] pre rest Hin HP. cbn [fst snd]. exists TBOOL. apply bool_roundtrip; assumption.
  - intros [sp b] w Hin. apply (Hitems sp b w Hin).
  - exact Hseps.
  - exact Hw0.
Qed.

(* ================================================================ a float match always ends at a delimiter *)
Definition float_end_ok (E : rxenv) (rest : list N) : Prop :=
  match rest with [] => True | c :: _ => is_word E c = false /\ c <> 46%N end.

Lemma tail_in_delimited E (Hic : e_ignorecase E = false) st st' :
  In st' (ends E TAIL st) -> st' = st /\ float_end_ok E (snd st).
Proof.
  unfold TAIL. intros Hin. apply ends_seq_in in Hin as (mid & Hmid & Hin).
  apply ends_lookahead_neg_in in Hin as [-> Hstop].
  assert (Hms : mid = st).
  { cbn [ends] in Hmid. destruct (back 1 st); [destruct (xorb false _)|]; cbn in Hmid; destruct Hmid as [<-|[]] || destruct Hmid; reflexivity. }
  subst mid. split; [reflexivity|]. destruct (snd st) as [|c t]; [exact I|]. cbn [stops float_end_ok] in *.
  rewrite (mem_WD E Hic) in Hstop. apply orb_false_iff in Hstop as [Hw Hd]. split; [exact Hw | apply N.eqb_neq; exact Hd].
Qed.

Theorem float_match_delimited u t pre text n :
  t = TFLOAT \/ t = TSTRICTFLOAT ->
  bt_match (src_env u) t pre text = Some (t, n) ->
  exists lit rest, text = lit ++ rest /\ length lit = n /\ float_end_ok (src_env u) rest.
Proof.
  intros Ht Hm.
  assert (Hrx : exists r, bt_rx t = Some r /\ rx_match (src_env u) r pre text = Some n /\
                          exists a, r = RSeq SIGN (RSeq a TAIL) \/ exists b, r = RSeq SIGN (RSeq a (RSeq b TAIL))).
  { destruct Ht as [-> | ->]; cbn [bt_match] in Hm; unfold leaf_match in Hm; cbn [bt_rx] in Hm.
    - exists rx_FLOAT. split; [reflexivity|]. split.
      + destruct (rx_match (src_env u) rx_FLOAT pre text) as [[|k]|]; try discriminate. injection Hm as <-. reflexivity.
      + eexists. right. eexists. apply rx_FLOAT_shape.
    - exists rx_STRICTFLOAT. split; [reflexivity|]. split.
      + destruct (rx_match (src_env u) rx_STRICTFLOAT pre text) as [[|k]|]; try discriminate. injection Hm as <-. reflexivity.
      + eexists. left. apply rx_STRICTFLOAT_shape. }
  destruct Hrx as (r & _ & Hrm & a & Hshape).
  destruct (rx_match_prefix _ _ _ _ _ Hrm) as (m & rest' & Htext & Hlen & Hfirst).
  exists m, rest'. split; [exact Htext|]. split; [exact Hlen|].
  unfold rx_first in Hfirst.
  assert (Hin : In (rev m ++ pre, rest') (ends (src_env u) r (pre, text))).
  { destruct (ends (src_env u) r (pre, text)) as [|x l]; [discriminate|]. injection Hfirst as ->. left. reflexivity. }
  destruct Hshape as [-> | [b ->]].
  - apply ends_seq_in in Hin as (m1 & _ & Hin). apply ends_seq_in in Hin as (m2 & _ & Hin).
    apply (tail_in_delimited _ (src_env_ic u)) in Hin as [<- Hok]. exact Hok.
  - apply ends_seq_in in Hin as (m1 & _ & Hin). apply ends_seq_in in Hin as (m2 & _ & Hin).
    apply ends_seq_in in Hin as (m3 & _ & Hin).
    apply (tail_in_delimited _ (src_env_ic u)) in Hin as [<- Hok]. exact Hok.
Qed.
