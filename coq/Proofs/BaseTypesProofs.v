(* Proofs for C04: extent of the base-type regexes on written values, conversions, loading. *)
From Coq Require Import Decimal DecimalPos DecimalN DecimalZ.
From TxV Require Import Core.Base Model.Rx Gen.SrcRegex Gen.SrcBaseConv Model.BaseTypes Model.BaseLits Proofs.RxProofs.
Require Import Lia.

(* ================================================================ STRING *)
Section StringRx.
Variable E : rxenv.
Hypothesis Hic : e_ignorecase E = false.
Variable q : N.
Hypothesis Hq : q <> 92%N.

Definition str_body (g : nat) : rx := RGroup g (RAlt (RSeq (RChr 92) (RChr q)) (RSet true [IChar q])).
Definition str_rx (g1 g2 : nat) : rx :=
  RGroup g1 (RSeq (RChr q) (RSeq (RRep true 0 None (str_body g2)) (RChr q))).

Lemma ends_body g pre c t :
  ends E (str_body g) (pre, c :: t) =
  (if N.eqb c 92 then match t with
                      | d :: t' => if N.eqb d q then [(q :: 92%N :: pre, t')] else []
                      | [] => []
                      end else [])
  ++ (if N.eqb c q then [] else [(c :: pre, t)]).
Proof.
  unfold str_body. rewrite ends_group, ends_alt, ends_seq. f_equal.
  - rewrite ends_chr by exact Hic. destruct (N.eqb c 92) eqn:Hc; [|reflexivity].
    apply N.eqb_eq in Hc. subst c. cbn [flat_map]. rewrite app_nil_r.
    destruct t as [|d t']; [reflexivity|]. rewrite ends_chr by exact Hic.
    destruct (N.eqb d q) eqn:Hd; [|reflexivity]. apply N.eqb_eq in Hd. subst d. reflexivity.
  - apply ends_notchr. exact Hic.
Qed.

Lemma ends_body_nil g pre : ends E (str_body g) (pre, []) = [].
Proof. reflexivity. Qed.

Lemma esc_cons c s : esc q (c :: s) = (if N.eqb c q then [92; q]%N else [c]) ++ esc q s.
Proof. reflexivity. Qed.

(* the escaped text never starts with the quote *)
Lemma esc_head s : match esc q s with d :: _ => N.eqb d q = false | [] => True end.
Proof.
  destruct s as [|c s]; [exact I|]. rewrite esc_cons. destruct (N.eqb c q) eqn:Hc; cbn [app].
  - apply N.eqb_neq. congruence.
  - exact Hc.
Qed.

Lemma q_neq_bs : N.eqb q 92 = false.
Proof. apply N.eqb_neq. exact Hq. Qed.
Lemma bs_neq_q : N.eqb 92 q = false.
Proof. apply N.eqb_neq. congruence. Qed.

(* the greedy walk over the escaped text stops exactly at the closing quote *)
Lemma string_star g : forall s pre rest fuel,
  ends_with_bs s = false -> length (esc q s ++ q :: rest) < fuel ->
  hd_error (rep_loop (ends E (str_body g)) true 0 None fuel (pre, esc q s ++ q :: rest))
  = Some (rev (esc q s) ++ pre, q :: rest).
Proof.
  induction s as [|c s IH]; intros pre rest fuel Hbs Hfuel.
  - destruct fuel as [|f]; [cbn in Hfuel; lia|].
    cbn [esc flat_map app rev rep_loop is_zero_opt]. rewrite ends_body.
    rewrite q_neq_bs, N.eqb_refl. reflexivity.
  - destruct fuel as [|f]; [cbn in Hfuel; lia|].
    rewrite esc_cons in *. cbn [rep_loop is_zero_opt].
    destruct (N.eqb c q) eqn:Hcq.
    + (* the quote: written as backslash quote, taken as one unit *)
      apply N.eqb_eq in Hcq. subst c.
      assert (Hbs' : ends_with_bs s = false).
      { destruct s as [|c' s']; [reflexivity|]. exact Hbs. }
      cbn [app]. rewrite ends_body. rewrite !N.eqb_refl, bs_neq_q. cbn [app flat_map snd length].
      rewrite (proj2 (Nat.ltb_lt _ _)) by lia. cbn [pred_opt].
      specialize (IH (q :: 92%N :: pre) rest f Hbs').
      cbn [app length] in Hfuel.
      destruct (rep_loop (ends E (str_body g)) true 0 None f (q :: 92%N :: pre, esc q s ++ q :: rest)) as [|x tl] eqn:Hr.
      * exfalso. assert (Hlt : length (esc q s ++ q :: rest) < f) by lia. specialize (IH Hlt). discriminate.
      * assert (Hlt : length (esc q s ++ q :: rest) < f) by lia. specialize (IH Hlt).
        cbn in IH. injection IH as ->. cbn [app hd_error rev]. rewrite <- !app_assoc. reflexivity.
    + cbn [app]. rewrite ends_body. rewrite Hcq.
      destruct (N.eqb c 92) eqn:Hc92.
      * (* a backslash that is part of the string: the next written character is not the quote *)
        apply N.eqb_eq in Hc92. subst c.
        assert (Hs : s <> []). { intros ->. cbn in Hbs. discriminate. }
        assert (Hbs' : ends_with_bs s = false).
        { destruct s as [|c' s']; [contradiction|]. exact Hbs. }
        pose proof (esc_head s) as Hh.
        destruct (esc q s) as [|d t] eqn:Hes.
        { exfalso. destruct s as [|c' s']; [contradiction|]. rewrite esc_cons in Hes.
          destruct (N.eqb c' q); discriminate. }
        cbn [app]. rewrite Hh. cbn [app flat_map snd length].
        rewrite (proj2 (Nat.ltb_lt _ _)) by lia. cbn [pred_opt].
        specialize (IH (92%N :: pre) rest f Hbs'). cbn [app] in IH.
        cbn [app length] in Hfuel.
        assert (Hlt : length (d :: t ++ q :: rest) < f) by (cbn [length]; lia). specialize (IH Hlt).
        destruct (rep_loop (ends E (str_body g)) true 0 None f (92%N :: pre, d :: t ++ q :: rest)) as [|x tl] eqn:Hr;
          [discriminate|].
        cbn in IH. injection IH as ->. cbn [app hd_error]. cbn [rev]. rewrite <- !app_assoc. reflexivity.
      * assert (Hbs' : ends_with_bs s = false).
        { destruct s as [|c' s']; [reflexivity|]. exact Hbs. }
        cbn [app flat_map snd length].
        rewrite (proj2 (Nat.ltb_lt _ _)) by lia. cbn [pred_opt].
        specialize (IH (c :: pre) rest f Hbs'). cbn [app length] in Hfuel.
        assert (Hlt : length (esc q s ++ q :: rest) < f) by lia. specialize (IH Hlt).
        destruct (rep_loop (ends E (str_body g)) true 0 None f (c :: pre, esc q s ++ q :: rest)) as [|x tl] eqn:Hr;
          [discriminate|].
        cbn in IH. injection IH as ->. cbn [app hd_error rev]. rewrite <- !app_assoc. reflexivity.
Qed.

Lemma first_str_rx g1 g2 s pre rest :
  ends_with_bs s = false ->
  rx_first E (str_rx g1 g2) (pre, quote q s ++ rest) = Some (rev (quote q s) ++ pre, rest).
Proof.
  intros Hbs. unfold str_rx, quote. rewrite first_group. cbn [app].
  eapply first_seq.
  { unfold rx_first. rewrite ends_chr by exact Hic. rewrite N.eqb_refl. reflexivity. }
  rewrite <- app_assoc. cbn [app].
  eapply first_seq.
  { unfold rx_first. cbn [ends snd Nat.add]. apply string_star; [exact Hbs | lia]. }
  unfold rx_first. rewrite ends_chr by exact Hic. rewrite N.eqb_refl. cbn [hd_error].
  f_equal. f_equal. cbn [rev]. rewrite rev_app_distr. cbn [rev app]. rewrite <- !app_assoc. reflexivity.
Qed.

(* a string regex cannot start on another character *)
Lemma ends_str_rx_other g1 g2 c t pre : c <> q -> ends E (str_rx g1 g2) (pre, c :: t) = [].
Proof.
  intros Hc. unfold str_rx. rewrite ends_group. apply ends_seq_nil_l.
  rewrite ends_chr by exact Hic. apply N.eqb_neq in Hc. rewrite Hc. reflexivity.
Qed.

End StringRx.

Lemma rx_STRING_shape : rx_STRING = RAlt (str_rx 34 1 2) (str_rx 39 3 4).
Proof. reflexivity. Qed.

Lemma src_env_ic u : e_ignorecase (src_env u) = false.
Proof. reflexivity. Qed.

Lemma quote_length q s : length (quote q s) = S (S (length (esc q s))).
Proof. unfold quote. cbn [length]. rewrite app_length. cbn [length]. lia. Qed.

(* STRING matches exactly the written string, whatever precedes and follows *)
Lemma string_match u q s pre rest :
  q = 34%N \/ q = 39%N -> ends_with_bs s = false ->
  rx_match (src_env u) rx_STRING pre (quote q s ++ rest) = Some (length (quote q s)).
Proof.
  intros Hq Hbs. rewrite rx_STRING_shape.
  apply rx_match_first_app with (pre' := rev (quote q s) ++ pre).
  destruct Hq as [-> | ->].
  - apply first_alt_l. apply first_str_rx; [apply src_env_ic | discriminate | exact Hbs].
  - rewrite first_alt_r.
    + apply first_str_rx; [apply src_env_ic | discriminate | exact Hbs].
    + unfold quote. cbn [app]. apply ends_str_rx_other; [apply src_env_ic | discriminate].
Qed.

(* ---- the unescape step *)
Lemma is_prefix_q_esc q s : q <> 92%N -> is_prefix [q] (esc q s) = false.
Proof.
  intros Hq. pose proof (esc_head q Hq s) as Hh. destruct (esc q s) as [|d t]; [reflexivity|].
  cbn [is_prefix]. rewrite N.eqb_sym, Hh. reflexivity.
Qed.

Lemma replace_go_esc q : q <> 92%N -> forall s, replace_go [92%N; q] [q] 0 (esc q s) = s.
Proof.
  intros Hq. induction s as [|c s IH]; [reflexivity|].
  rewrite esc_cons. destruct (N.eqb c q) eqn:Hcq.
  - apply N.eqb_eq in Hcq. subst c. cbn [app replace_go is_prefix length Nat.pred]. rewrite !N.eqb_refl. cbn [andb app].
    rewrite IH. reflexivity.
  - cbn [app replace_go]. destruct (N.eqb c 92) eqn:Hc.
    + apply N.eqb_eq in Hc. subst c.
      change (is_prefix [92%N; q] (92%N :: esc q s)) with (N.eqb 92 92 && is_prefix [q] (esc q s))%bool.
      rewrite is_prefix_q_esc by exact Hq. rewrite andb_false_r. rewrite IH. reflexivity.
    + cbn [is_prefix]. rewrite N.eqb_sym, Hc. cbn [andb]. rewrite IH. reflexivity.
Qed.

Lemma string_conv_quote q s : q = 34%N \/ q = 39%N -> string_conv (quote q s) = s.
Proof.
  intros Hq. unfold string_conv, quote. cbn [tl]. rewrite removelast_last.
  destruct Hq as [-> | ->].
  - change (N.eqb 34 conv_string_test) with true. cbn iota.
    change conv_string_then with [([92%N; 34%N], [34%N])].
    cbn [replace_chain fold_left fst snd replace]. apply replace_go_esc. discriminate.
  - change (N.eqb 39 conv_string_test) with false. cbn iota.
    change conv_string_else with [([92%N; 39%N], [39%N])].
    cbn [replace_chain fold_left fst snd replace]. apply replace_go_esc. discriminate.
Qed.

(* ================================================================ the loading loop *)
Lemma skip_ws_app w : forall pre rest,
  forallb is_ws w = true -> match rest with c :: _ => is_ws c = false | [] => True end ->
  skip_ws pre (w ++ rest) = (rev w ++ pre, rest).
Proof.
  induction w as [|c w IH]; intros pre rest Hw Hrest.
  - cbn [app rev]. destruct rest as [|c rest]; [reflexivity|]. cbn [skip_ws]. rewrite Hrest. reflexivity.
  - cbn [forallb] in Hw. apply andb_true_iff in Hw as [Hc Hw].
    cbn [app skip_ws]. rewrite Hc. rewrite IH by assumption. cbn [rev]. rewrite <- app_assoc. reflexivity.
Qed.

Lemma take_rev_app lit : forall pre rest, take_rev (length lit) pre (lit ++ rest) = (rev lit ++ pre, rest).
Proof.
  induction lit as [|c lit IH]; intros pre rest.
  - cbn. destruct rest; reflexivity.
  - cbn [length app take_rev]. rewrite IH. cbn [rev]. rewrite <- app_assoc. reflexivity.
Qed.

Lemma firstn_length_app {A} (l r : list A) : firstn (length l) (l ++ r) = l.
Proof. induction l as [|x l IH]; [reflexivity|]. cbn. rewrite IH. reflexivity. Qed.

Definition starts_nonws (lit : list N) : Prop :=
  match lit with c :: _ => is_ws c = false | [] => False end.

Lemma load_step E t f pre w lit rest leaf :
  forallb is_ws w = true -> starts_nonws lit ->
  bt_match E t (rev w ++ pre) (lit ++ rest) = Some (leaf, length lit) ->
  load_many_go E t (S f) pre (w ++ lit ++ rest) =
  match load_many_go E t f (rev lit ++ rev w ++ pre) rest with
  | Some vs => Some (convert leaf lit :: vs)
  | None => None
  end.
Proof.
  intros Hw Hlit Hm. cbn [load_many_go].
  rewrite skip_ws_app; [| exact Hw | destruct lit; [contradiction | exact Hlit]].
  rewrite Hm. rewrite take_rev_app. rewrite firstn_length_app. reflexivity.
Qed.

Lemma load_end E t f pre w :
  forallb is_ws w = true -> bt_match E t (rev w ++ pre) [] = None ->
  load_many_go E t (S f) pre w = Some [].
Proof.
  intros Hw Hm. cbn [load_many_go]. rewrite <- (app_nil_r w) at 1.
  rewrite skip_ws_app; [| exact Hw | exact I]. rewrite Hm. reflexivity.
Qed.

(* a sequence of written items: each literal followed by whitespace *)
Fixpoint seq_text (items : list (list N * list N * value)) : list N :=
  match items with
  | [] => []
  | (lit, w, _) :: tl => lit ++ w ++ seq_text tl
  end.

Fixpoint chain_ok (P : list N -> Prop) (items : list (list N * list N * value)) : Prop :=
  match items with
  | [] => True
  | (_, w, _) :: tl => P (w ++ seq_text tl) /\ chain_ok P tl
  end.

Lemma load_seq E t (P : list N -> Prop) :
  (forall pre, bt_match E t pre [] = None) ->
  forall items,
  (forall lit w v, In (lit, w, v) items ->
     forallb is_ws w = true /\ starts_nonws lit /\
     forall pre rest, P rest -> exists leaf, bt_match E t pre (lit ++ rest) = Some (leaf, length lit) /\ convert leaf lit = v) ->
  chain_ok P items ->
  forall w0 pre fuel, forallb is_ws w0 = true -> length (w0 ++ seq_text items) < fuel ->
  load_many_go E t fuel pre (w0 ++ seq_text items) = Some (map snd items).
Proof.
  intros Hnil. induction items as [|[[lit w] v] tl IH]; intros Hitems Hchain w0 pre fuel Hw0 Hfuel.
  - destruct fuel as [|f]; [lia|]. cbn [seq_text map]. rewrite app_nil_r. apply load_end; [exact Hw0 | apply Hnil].
  - destruct fuel as [|f]; [lia|].
    destruct (Hitems lit w v (or_introl eq_refl)) as (Hw & Hlit & Hm).
    cbn [chain_ok] in Hchain. destruct Hchain as [HP Hchain].
    destruct (Hm (rev w0 ++ pre) (w ++ seq_text tl) HP) as (leaf & Hbm & Hcv).
    cbn [seq_text map snd]. rewrite (load_step E t f pre w0 lit (w ++ seq_text tl) leaf Hw0 Hlit Hbm).
    rewrite IH; [rewrite Hcv; reflexivity | | exact Hchain | exact Hw |].
    + intros lit' w' v' Hin. apply Hitems. right. exact Hin.
    + cbn [seq_text] in Hfuel. rewrite !app_length in Hfuel. rewrite app_length.
      destruct lit; [contradiction|]. cbn [length] in Hfuel. lia.
Qed.

(* ---- strings: any separators (even none), both quote kinds mixed *)
Lemma is_ws_quote q : q = 34%N \/ q = 39%N -> is_ws q = false.
Proof. intros [-> | ->]; reflexivity. Qed.

Lemma string_bt_match u q s pre rest :
  q = 34%N \/ q = 39%N -> ends_with_bs s = false ->
  bt_match (src_env u) TSTRING pre (quote q s ++ rest) = Some (TSTRING, length (quote q s)).
Proof.
  intros Hq Hbs. cbn [bt_match]. unfold leaf_match. cbn [bt_rx].
  rewrite string_match by assumption. rewrite quote_length. reflexivity.
Qed.

Lemma string_bt_match_nil u pre : bt_match (src_env u) TSTRING pre [] = None.
Proof. reflexivity. Qed.

Definition str_items_text (items : list (N * list N * list N)) : list N :=
  flat_map (fun it => match it with (q, s, w) => quote q s ++ w end) items.

Definition str_item_ok (it : N * list N * list N) : Prop :=
  match it with (q, s, w) => (q = 34%N \/ q = 39%N) /\ ends_with_bs s = false /\ forallb is_ws w = true end.

Theorem string_roundtrip u (items : list (N * list N * list N)) (w0 : list N) :
  (forall it, In it items -> str_item_ok it) -> forallb is_ws w0 = true ->
  load_many (src_env u) TSTRING (w0 ++ str_items_text items)
  = Some (map (fun it => match it with (_, s, _) => VStr s end) items).
Proof.
  intros Hitems Hw0.
  pose (items' := map (fun it => match it with (q, s, w) => (quote q s, w, VStr s) end) items).
  assert (Htext : str_items_text items = seq_text items').
  { unfold items', str_items_text. clear. induction items as [|[[q s] w] tl IH]; [reflexivity|].
    cbn [flat_map map seq_text]. rewrite IH, <- app_assoc. reflexivity. }
  assert (Hvals : map (fun it => match it with (_, s, _) => VStr s end) items = map snd items').
  { unfold items'. rewrite map_map. apply map_ext. intros [[q s] w]. reflexivity. }
  rewrite Htext, Hvals. unfold load_many.
  apply load_seq with (P := fun _ => True).
  - intros pre. apply string_bt_match_nil.
  - intros lit w v Hin. unfold items' in Hin. apply in_map_iff in Hin as ([[q s] w'] & Heq & Hin).
    injection Heq as <- <- <-. destruct (Hitems _ Hin) as (Hq & Hbs & Hw).
    split; [exact Hw|]. split; [unfold quote; cbn; apply is_ws_quote; exact Hq|].
    intros pre rest _. exists TSTRING. split; [apply string_bt_match; assumption|].
    cbn [convert]. rewrite string_conv_quote by exact Hq. reflexivity.
  - clear. induction items' as [|[[lit w] v] tl IH]; cbn; auto.
  - exact Hw0.
  - lia.
Qed.

(* ================================================================ digits, INT *)
Lemma forallb_eq {A} (f g : A -> bool) l : (forall x, f x = g x) -> forallb f l = forallb g l.
Proof. intros H. induction l as [|x l IH]; [reflexivity|]. cbn. rewrite H, IH. reflexivity. Qed.

Lemma is_dig_not c k : is_dig c = true -> is_dig k = false -> N.eqb c k = false.
Proof. intros Hc Hk. apply N.eqb_neq. intros ->. congruence. Qed.

Section Plain.
Variable E : rxenv.
Hypothesis Hic : e_ignorecase E = false.

Definition digit_range : list citem := [IRange 48 57].
Definition digit_cat : list citem := [ICat false CDigit].
Definition sign_mp : list citem := [IChar 45; IChar 43].   (* INT: [-+] *)
Definition sign_pm : list citem := [IChar 43; IChar 45].   (* FLOAT: [+-] *)

Lemma mem_digit_range c : set_mem E c digit_range = is_dig c.
Proof. rewrite set_mem_plain by exact Hic. cbn. apply orb_false_r. Qed.

Lemma mem_digit_cat c : set_mem E c digit_cat = is_digit E c.
Proof.
  rewrite set_mem_plain by exact Hic. cbn [digit_cat existsb item_match cat_match].
  rewrite xorb_false_l, orb_false_r. reflexivity.
Qed.

Lemma is_digit_ascii c : is_dig c = true -> is_digit E c = true.
Proof.
  intros H. unfold is_digit. unfold is_dig, in_range in H. apply andb_true_iff in H as [H1 H2].
  apply N.leb_le in H2. rewrite (proj2 (N.ltb_lt c 128)) by lia.
  unfold in_range. rewrite H1. apply N.leb_le in H2. rewrite H2. reflexivity.
Qed.

Lemma is_word_ascii_digit c : is_dig c = true -> is_word E c = true.
Proof.
  intros H. unfold is_word. unfold is_dig, in_range in H. pose proof H as H'. apply andb_true_iff in H as [H1 H2].
  apply N.leb_le in H2. rewrite (proj2 (N.ltb_lt c 128)) by lia.
  unfold in_range. rewrite H'. reflexivity.
Qed.

Lemma mem_sign_mp c : set_mem E c sign_mp = (N.eqb c 45 || N.eqb c 43)%bool.
Proof. rewrite set_mem_plain by exact Hic. cbn. rewrite orb_false_r. reflexivity. Qed.

Lemma mem_sign_pm c : set_mem E c sign_pm = (N.eqb c 43 || N.eqb c 45)%bool.
Proof. rewrite set_mem_plain by exact Hic. cbn. rewrite orb_false_r. reflexivity. Qed.

(* an optional sign, written or not, followed by something that is not a sign *)
Lemma first_opt_sign items so pre body :
  (forall c, set_mem E c items = (N.eqb c 45 || N.eqb c 43)%bool) ->
  match body with c :: _ => N.eqb c 45 = false /\ N.eqb c 43 = false | [] => True end ->
  rx_first E (RRep true 0 (Some 1) (RSet false items)) (pre, sign_chars so ++ body)
  = Some (rev (sign_chars so) ++ pre, body).
Proof.
  intros Hmem Hbody. destruct so as [[|]|]; cbn [sign_chars app rev].
  - apply first_opt_take; [| cbn; lia]. unfold rx_first. rewrite ends_set, Hmem. reflexivity.
  - apply first_opt_take; [| cbn; lia]. unfold rx_first. rewrite ends_set, Hmem. reflexivity.
  - apply first_opt_skip. destruct body as [|c t]; [reflexivity|]. rewrite ends_set, Hmem.
    destruct Hbody as [-> ->]. reflexivity.
Qed.

(* every way of taking the optional sign *)
Lemma ends_opt_sign items so pre body :
  (forall c, set_mem E c items = (N.eqb c 45 || N.eqb c 43)%bool) ->
  match body with c :: _ => N.eqb c 45 = false /\ N.eqb c 43 = false | [] => True end ->
  ends E (RRep true 0 (Some 1) (RSet false items)) (pre, sign_chars so ++ body)
  = match so with
    | None => [(pre, body)]
    | Some _ => [(rev (sign_chars so) ++ pre, body); (pre, sign_chars so ++ body)]
    end.
Proof.
  intros Hmem Hbody. rewrite ends_opt. destruct so as [[|]|]; cbn [sign_chars app rev].
  - rewrite ends_set, Hmem. cbn [orb N.eqb Pos.eqb xorb flat_map snd length]. rewrite Nat.ltb_irrefl || idtac.
    rewrite (proj2 (Nat.ltb_lt _ _)) by lia. reflexivity.
  - rewrite ends_set, Hmem. cbn [orb N.eqb Pos.eqb xorb flat_map snd length].
    rewrite (proj2 (Nat.ltb_lt _ _)) by lia. reflexivity.
  - destruct body as [|c t]; [reflexivity|]. rewrite ends_set, Hmem. destruct Hbody as [-> ->]. reflexivity.
Qed.

Lemma digit_not_sign c : is_dig c = true -> N.eqb c 45 = false /\ N.eqb c 43 = false.
Proof. intros H. split; apply is_dig_not; auto. Qed.

Lemma all_digits_range ds : all_digits ds = true ->
  forallb (fun c => xorb false (set_mem E c digit_range)) ds = true.
Proof. intros H. rewrite <- H. apply forallb_eq. intros c. rewrite xorb_false_l. apply mem_digit_range. Qed.

Lemma all_digits_cat ds : all_digits ds = true ->
  forallb (fun c => xorb false (set_mem E c digit_cat)) ds = true.
Proof.
  intros H. unfold all_digits in H. rewrite forallb_forall in H. apply forallb_forall. intros c Hc.
  rewrite xorb_false_l, mem_digit_cat. apply is_digit_ascii. apply H. exact Hc.
Qed.

Lemma stops_range rest : not_digit_next rest -> stops (fun c => xorb false (set_mem E c digit_range)) rest.
Proof. destruct rest as [|c t]; [exact (fun _ => I)|]. cbn [stops not_digit_next]. rewrite xorb_false_l, mem_digit_range. auto. Qed.

(* INT on sign? digits+ *)
Lemma first_int so ds pre rest :
  ds <> [] -> all_digits ds = true -> not_digit_next rest ->
  rx_first E rx_INT (pre, sign_chars so ++ ds ++ rest) = Some (rev (sign_chars so ++ ds) ++ pre, rest).
Proof.
  intros Hne Hds Hrest. unfold rx_INT.
  eapply first_seq.
  - apply (first_opt_sign sign_mp); [exact mem_sign_mp|].
    destruct ds as [|c ds']; [contradiction|]. cbn [app]. apply digit_not_sign.
    cbn in Hds. apply andb_true_iff in Hds as [Hc _]. exact Hc.
  - destruct ds as [|c ds']; [contradiction|].
    rewrite (first_plus_set E false digit_range c ds'); [| apply all_digits_range; exact Hds | apply stops_range; exact Hrest].
    rewrite rev_app_distr, <- app_assoc. reflexivity.
Qed.

End Plain.

(* ---- int(): Horner value of Coq's decimal numerals *)
Fixpoint uval (acc : Z) (d : uint) : Z :=
  match d with
  | Nil => acc
  | D0 d => uval (acc * 10 + 0) d | D1 d => uval (acc * 10 + 1) d | D2 d => uval (acc * 10 + 2) d
  | D3 d => uval (acc * 10 + 3) d | D4 d => uval (acc * 10 + 4) d | D5 d => uval (acc * 10 + 5) d
  | D6 d => uval (acc * 10 + 6) d | D7 d => uval (acc * 10 + 7) d | D8 d => uval (acc * 10 + 8) d
  | D9 d => uval (acc * 10 + 9) d
  end.

Lemma digits_val_uint d : forall acc, digits_val acc (uint_chars d) = Some (uval acc d).
Proof.
  induction d; intros acc; cbn [uint_chars digits_val uval]; try reflexivity;
    match goal with |- context [digit_val ?c] => change (digit_val c) with (Some (Z.of_N (c - 48))) end;
    cbn [N.sub Z.of_N]; apply IHd.
Qed.

Lemma of_uint_acc_uval d : forall acc, Z.pos (Pos.of_uint_acc d acc) = uval (Z.pos acc) d.
Proof.
  induction d; intros acc; cbn [Pos.of_uint_acc uval]; try reflexivity; rewrite IHd; f_equal; lia.
Qed.

Lemma of_uint_uval d : uval 0 d = Z.of_N (Pos.of_uint d).
Proof.
  induction d; cbn [uval Pos.of_uint]; try reflexivity; try exact IHd;
    change (0 * 10 + ?k)%Z with k; symmetry; apply (of_uint_acc_uval d).
Qed.

Lemma uint_chars_digits d : all_digits (uint_chars d) = true.
Proof. induction d; cbn [uint_chars all_digits forallb]; try reflexivity; exact IHd. Qed.

Lemma uint_chars_nonnil d : d <> Nil -> uint_chars d <> [].
Proof. destruct d; intros H; try discriminate. contradiction. Qed.

Lemma digits_val_pos p : digits_val 0 (uint_chars (Pos.to_uint p)) = Some (Z.pos p).
Proof. rewrite digits_val_uint, of_uint_uval, DecimalPos.Unsigned.of_to. reflexivity. Qed.

Lemma int_of_text_digits ds : ds <> [] -> all_digits ds = true -> int_of_text ds = digits_val 0 ds.
Proof.
  intros Hne Hds. destruct ds as [|c t]; [contradiction|]. cbn in Hds. apply andb_true_iff in Hds as [Hc _].
  unfold int_of_text. destruct (digit_not_sign c Hc) as [-> ->]. reflexivity.
Qed.

Lemma dec_text_shape z : exists so ds, dec_text z = sign_chars so ++ ds /\ ds <> [] /\ all_digits ds = true
                                       /\ (so = None \/ so = Some false).
Proof.
  unfold dec_text. destruct z as [|p|p]; cbn [Z.to_int].
  - exists None, [48%N]. repeat split; try discriminate. left; reflexivity.
  - exists None, (uint_chars (Pos.to_uint p)). repeat split.
    + apply uint_chars_nonnil, DecimalPos.Unsigned.to_uint_nonnil.
    + apply uint_chars_digits.
    + left; reflexivity.
  - exists (Some false), (uint_chars (Pos.to_uint p)). repeat split.
    + apply uint_chars_nonnil, DecimalPos.Unsigned.to_uint_nonnil.
    + apply uint_chars_digits.
    + right; reflexivity.
Qed.

Lemma int_of_dec_text z : int_of_text (dec_text z) = Some z.
Proof.
  unfold dec_text. destruct z as [|p|p]; cbn [Z.to_int].
  - reflexivity.
  - rewrite int_of_text_digits; [apply digits_val_pos | apply uint_chars_nonnil, DecimalPos.Unsigned.to_uint_nonnil | apply uint_chars_digits].
  - unfold int_of_text. cbn [N.eqb Pos.eqb].
    destruct (uint_chars (Pos.to_uint p)) as [|c t] eqn:Hu.
    + exfalso. revert Hu. apply uint_chars_nonnil, DecimalPos.Unsigned.to_uint_nonnil.
    + rewrite <- Hu, digits_val_pos. reflexivity.
Qed.

(* "+" form and leading zeros also convert to the same integer value *)
Lemma int_of_plus_text ds : ds <> [] -> all_digits ds = true -> int_of_text (43%N :: ds) = digits_val 0 ds.
Proof. intros Hne _. unfold int_of_text. cbn [N.eqb Pos.eqb]. destruct ds; [contradiction|reflexivity]. Qed.

Lemma int_bt_match u so ds pre rest :
  ds <> [] -> all_digits ds = true -> not_digit_next rest ->
  bt_match (src_env u) TINT pre ((sign_chars so ++ ds) ++ rest) = Some (TINT, length (sign_chars so ++ ds)).
Proof.
  intros Hne Hds Hrest. cbn [bt_match]. unfold leaf_match. cbn [bt_rx].
  rewrite (rx_match_first_app _ _ _ _ _ (rev (sign_chars so ++ ds) ++ pre)).
  - destruct (sign_chars so ++ ds) eqn:Hl; [|reflexivity].
    apply app_eq_nil in Hl as [_ ->]. contradiction.
  - rewrite <- app_assoc. apply first_int; [apply src_env_ic | assumption..].
Qed.

Theorem int_roundtrip u z pre rest :
  not_digit_next rest ->
  bt_match (src_env u) TINT pre (dec_text z ++ rest) = Some (TINT, length (dec_text z))
  /\ convert TINT (dec_text z) = VInt z.
Proof.
  intros Hrest. split.
  - destruct (dec_text_shape z) as (so & ds & -> & Hne & Hds & _). apply int_bt_match; assumption.
  - cbn [convert]. rewrite int_of_dec_text. reflexivity.
Qed.

(* ================================================================ BOOL *)
Lemma bool_first u sp b pre rest :
  In (sp, b) bool_spellings -> not_word_next (src_env u) rest ->
  rx_first (src_env u) rx_BOOL (pre, sp ++ rest) = Some (rev sp ++ pre, rest).
Proof.
  intros Hin Hrest. cbn [bool_spellings In] in Hin.
  destruct Hin as [Heq|[Heq|[Heq|[Heq|[Heq|[Heq|[]]]]]]]; injection Heq as <- <-;
    (destruct rest as [|c t];
     [ reflexivity
     | cbn [not_word_next] in Hrest; unfold rx_first; cbn -[is_word word_boundary]; unfold word_boundary; cbn [fst snd]; rewrite Hrest; reflexivity ]).
Qed.

Theorem bool_roundtrip u sp b pre rest :
  In (sp, b) bool_spellings -> not_word_next (src_env u) rest ->
  bt_match (src_env u) TBOOL pre (sp ++ rest) = Some (TBOOL, length sp) /\ convert TBOOL sp = VBool b.
Proof.
  intros Hin Hrest. split.
  - cbn [bt_match]. unfold leaf_match. cbn [bt_rx].
    rewrite (rx_match_first_app _ _ _ _ _ _ (bool_first u sp b pre rest Hin Hrest)).
    cbn [bool_spellings In] in Hin.
    destruct Hin as [Heq|[Heq|[Heq|[Heq|[Heq|[Heq|[]]]]]]]; injection Heq as <- <-; reflexivity.
  - cbn [bool_spellings In] in Hin.
    destruct Hin as [Heq|[Heq|[Heq|[Heq|[Heq|[Heq|[]]]]]]]; injection Heq as <- <-; reflexivity.
Qed.
