(* C22 - simulation of the interpreter (Model/Peg.v, memoization off) under the insertion of
   whitespace that is in the active set of every mode the grammar can install (class ins_wf),
   given the per-case shifted-oracle hypothesis (shift_okb). *)
From TxV Require Import Core.Base Model.PegSyntax Model.Peg Model.PegWsDefs Proofs.PegWs.
Require Import Lia.

Section Sim.
Variable g : grammar.
Variables a ins b : list N.
Variables orc orc' : nat -> nat -> option nat.
Let k := length a.
Let n := length ins.
Let s := a ++ b.
Let s' := a ++ ins ++ b.
Notation RP := (Rp a ins b).
Notation RQ := (Rq a ins b).
Notation sh := (shift_res k n).
Notation sht := (shift_tree k n).
Notation ph := (phi k n).

(* ---------------------------------------------------------------- shift and the result predicates *)
Lemma truthy_sh r : truthy (sh r) = truthy r.
Proof. destruct r as [|[? ? ? ?|? [|? ?]]|[|? ?]]; reflexivity. Qed.
Lemma is_none_sh r : is_none (sh r) = is_none r.
Proof. destruct r; reflexivity. Qed.
Lemma head_is_none_sh r : head_is_none (sh r) = head_is_none r.
Proof. destruct r as [| |[|[| |] ?]]; reflexivity. Qed.
Lemma is_ptnode_sh r : is_ptnode (sh r) = is_ptnode r.
Proof. destruct r; reflexivity. Qed.
Lemma flatten_sh : forall r, flatten (sh r) = map sht (flatten r).
Proof.
  fix IH 1. intros [|t|l]; simpl; try reflexivity.
  induction l as [|x l IHl]; simpl; [reflexivity|]. rewrite map_app, IH, IHl. reflexivity.
Qed.
Lemma post_sh nid nd r : post nid nd (sh r) = sh (post nid nd r).
Proof.
  unfold post. rewrite head_is_none_sh.
  destruct (n_suppress nd || head_is_none r)%bool; simpl.
  - destruct (n_root nd); reflexivity.
  - rewrite truthy_sh, is_ptnode_sh. destruct (n_root nd && truthy r && negb (is_ptnode r))%bool; [|reflexivity].
    simpl. rewrite flatten_sh. reflexivity.
Qed.

(* ---------------------------------------------------------------- relation on parser states *)
Definition Inv (x : st) : Prop :=
  skipws x = true /\ subset_ws ins (ws x) = true /\ subset_ws ins (real_ws x) = true /\
  (eolterm x = true -> noeol ins = true).

Definition Rc (c c' : list (nat * nat)) : Prop :=
  forall q, match lookup q c, lookup (ph q) c' with
            | None, None => True
            | Some e, Some e' => RQ e e'
            | _, _ => False
            end.

Definition ctx (x x' : st) : Prop :=
  ws x = ws x' /\ real_ws x = real_ws x' /\ skipws x = skipws x' /\ eolterm x = eolterm x' /\
  in_cmt x = in_cmt x' /\ Rc (cpos x) (cpos x') /\ Inv x.

Definition Rst (x x' : st) : Prop := RP (pos x) (pos x') /\ ctx x x'.

Definition scf (y x : st) : Prop :=
  ws y = ws x /\ real_ws y = real_ws x /\ skipws y = skipws x /\ eolterm y = eolterm x /\
  in_cmt y = in_cmt x /\ cpos y = cpos x.

Lemma ctx_ext x x' y y' : scf y x -> scf y' x' -> ctx x x' -> ctx y y'.
Proof.
  unfold scf, ctx, Inv. intros (A1 & A2 & A3 & A4 & A5 & A6) (B1 & B2 & B3 & B4 & B5 & B6).
  rewrite A1, A2, A3, A4, A5, A6, B1, B2, B3, B4, B5, B6. tauto.
Qed.

Lemma scf_refl x : scf x x. Proof. repeat split. Qed.
Lemma scf_set_pos p x : scf (set_pos p x) x. Proof. repeat split. Qed.
Lemma scf_set_nm o x : scf (set_nm o x) x. Proof. repeat split. Qed.
Lemma scf_reg_fail p x : scf (reg_fail p x) x.
Proof.
  unfold reg_fail. destruct (nm x); [|apply scf_set_nm].
  destruct (in_cmt x); [apply scf_refl|]. destruct (Nat.ltb _ _); [apply scf_set_nm | apply scf_refl].
Qed.
Lemma scf_trans z y x : scf z y -> scf y x -> scf z x.
Proof. unfold scf. intuition congruence. Qed.

Lemma Rst_set_pos p p' x x' : RP p p' -> ctx x x' -> Rst (set_pos p x) (set_pos p' x').
Proof. intros Hp Hc. split; [exact Hp|]. eapply ctx_ext; [apply scf_set_pos | apply scf_set_pos | exact Hc]. Qed.

Lemma Rst_reg_fail p p' x x' : Rst x x' -> Rst (reg_fail p x) (reg_fail p' x').
Proof.
  intros [Hp Hc]. split.
  - replace (pos (reg_fail p x)) with (pos x); [replace (pos (reg_fail p' x')) with (pos x'); [exact Hp|]|];
      unfold reg_fail; repeat match goal with |- context [match ?e with _ => _ end] => destruct e end; reflexivity.
  - eapply ctx_ext; [apply scf_reg_fail | apply scf_reg_fail | exact Hc].
Qed.

Lemma pos_reg_fail p x : pos (reg_fail p x) = pos x.
Proof. unfold reg_fail; repeat match goal with |- context [match ?e with _ => _ end] => destruct e end; reflexivity. Qed.

(* ---------------------------------------------------------------- simulation of outcomes *)
Definition sim_out (o o' : out) : Prop :=
  match o, o' with
  | Ok r x, Ok r' x' => r' = sh r /\ Rst x x'
  | Fail x, Fail x' => Rst x x'
  | Abort w, Abort w' => w = w'
  | _, _ => False
  end.

Definition failq (o o' : out) : Prop :=
  match o, o' with Fail x, Fail x' => RQ (pos x) (pos x') | _, _ => True end.

Notation parser := (nat -> bool -> st -> out) (only parsing).
Definition W (rec rec' : parser) : Prop :=
  forall nid psq x x', Rst x x' -> sim_out (rec nid psq x) (rec' nid psq x').
Definition SW (rec rec' : parser) : Prop :=
  forall nid psq x x', Rst x x' ->
    sim_out (rec nid psq x) (rec' nid psq x') /\
    (RQ (pos x) (pos x') -> failq (rec nid psq x) (rec' nid psq x')).

Lemma SW_W rec rec' : SW rec rec' -> W rec rec'.
Proof. intros H nid psq x x' HR. apply H, HR. Qed.

(* ---------------------------------------------------------------- whitespace and comments *)
Lemma Rst_skip x x' :
  Rst x x' -> Rst (maybe_skip_ws (a ++ b) x) (maybe_skip_ws (a ++ ins ++ b) x') /\
              RQ (pos (maybe_skip_ws (a ++ b) x)) (pos (maybe_skip_ws (a ++ ins ++ b) x')).
Proof.
  intros [Hp Hc]. pose proof Hc as (E1 & E2 & E3 & E4 & E5 & E6 & (I1 & I2 & I3 & I4)).
  unfold maybe_skip_ws. rewrite <- E3, I1. unfold do_skip_ws. rewrite <- E1.
  pose proof (skip_absorb a ins b (ws x) (pos x) (pos x') I2 Hp) as Hq.
  split; [|exact Hq]. apply Rst_set_pos; [apply Rq_Rp; exact Hq | exact Hc].
Qed.

Lemma phi_inj p q : ph p = ph q -> p = q.
Proof. unfold phi. destruct (Nat.ltb_spec p k), (Nat.ltb_spec q k); lia. Qed.

Lemma lookup_upd q key v m : lookup q (upd key v m) = if Nat.eqb q key then Some v else lookup q m.
Proof.
  induction m as [|[k' v'] m IH]; simpl.
  - destruct (Nat.eqb q key); reflexivity.
  - destruct (Nat.eqb key k') eqn:E; simpl.
    + apply Nat.eqb_eq in E; subst k'. destruct (Nat.eqb q key); reflexivity.
    + destruct (Nat.eqb q k') eqn:E2.
      * apply Nat.eqb_eq in E2; subst k'. rewrite Nat.eqb_sym in E. rewrite E. reflexivity.
      * exact IH.
Qed.

Lemma Rc_upd c c' q e e' : Rc c c' -> RQ e e' -> Rc (upd q e c) (upd (ph q) e' c').
Proof.
  intros Hc He r. rewrite !lookup_upd.
  destruct (Nat.eqb_spec r q) as [->|Hne].
  - rewrite Nat.eqb_refl. exact He.
  - destruct (Nat.eqb_spec (ph r) (ph q)) as [E|_]; [apply phi_inj in E; contradiction | apply Hc].
Qed.

Lemma cmt_loop_no_fail rec inp cm kf x : forall y, cmt_loop inp rec cm kf x <> Fail y.
Proof.
  revert x; induction kf as [|kf IH]; intros x y; simpl; [discriminate|].
  destruct (rec cm false x); [apply IH | discriminate | discriminate].
Qed.

(* outcome of the pre-terminal phase: never a failure; positions aligned *)
Definition sim_pre (o o' : out) : Prop :=
  match o, o' with
  | Ok _ x, Ok _ x' => Rst x x' /\ RQ (pos x) (pos x')
  | Abort w, Abort w' => w = w'
  | _, _ => False
  end.

Lemma cmt_loop_sim rec rec' cm : SW rec rec' -> forall kf x x',
  Rst x x' -> RQ (pos x) (pos x') ->
  sim_pre (cmt_loop (a ++ b) rec cm kf x) (cmt_loop (a ++ ins ++ b) rec' cm kf x').
Proof.
  intros HS kf; induction kf as [|kf IH]; intros x x' HR HQ; simpl; [reflexivity|].
  destruct (HS cm false x x' HR) as [Hs Hf]. specialize (Hf HQ).
  destruct (rec cm false x) as [r x1|x1|w]; destruct (rec' cm false x') as [r' x1'|x1'|w'];
    simpl in Hs, Hf; try contradiction.
  - destruct Hs as [_ HR1]. destruct (Rst_skip x1 x1' HR1) as [HR2 HQ2]. apply IH; assumption.
  - split; assumption.
  - exact Hs.
Qed.

Lemma ctx_set_in_cmt v x x' : ctx x x' -> ctx (set_in_cmt v x) (set_in_cmt v x').
Proof. unfold ctx, Inv. simpl. tauto. Qed.

Lemma parse_comments_sim rec rec' : SW rec rec' -> forall kf x x',
  Rst x x' -> RQ (pos x) (pos x') ->
  sim_pre (parse_comments g (a ++ b) rec kf x) (parse_comments g (a ++ ins ++ b) rec' kf x').
Proof.
  intros HS kf x x' [Hp Hc] HQ. unfold parse_comments. destruct (g_comments g) as [cm|].
  - assert (HR1 : Rst (set_in_cmt true x) (set_in_cmt true x')) by (split; [exact Hp | apply ctx_set_in_cmt, Hc]).
    pose proof (cmt_loop_sim rec rec' cm HS kf _ _ HR1 HQ) as H.
    destruct (cmt_loop (a ++ b) rec cm kf (set_in_cmt true x)) as [r x1|x1|w];
      destruct (cmt_loop (a ++ ins ++ b) rec' cm kf (set_in_cmt true x')) as [r' x1'|x1'|w'];
      simpl in H; try contradiction; [|exact H].
    destruct H as [[Hp1 Hc1] HQ1]. simpl. split; [|exact HQ1]. split; [exact Hp1 | apply ctx_set_in_cmt, Hc1].
  - simpl. split; [|exact HQ]. split; [exact Hp|]. apply ctx_set_in_cmt, ctx_set_in_cmt, Hc.
Qed.

Lemma match_pre_sim rec rec' : SW rec rec' -> forall kf x x',
  Rst x x' ->
  sim_pre (match_pre g (a ++ b) rec kf x) (match_pre g (a ++ ins ++ b) rec' kf x').
Proof.
  intros HS kf x x' HR. unfold match_pre. cbv zeta.
  destruct (Rst_skip x x' HR) as [HR1 HQ1].
  set (x1 := maybe_skip_ws (a ++ b) x) in *. set (x1' := maybe_skip_ws (a ++ ins ++ b) x') in *.
  pose proof HR1 as [Hp1 Hc1]. pose proof Hc1 as (E1 & E2 & E3 & E4 & E5 & E6 & (I1 & I2 & I3 & I4)).
  rewrite <- E3, I1. destruct HQ1 as [HQa HQb].
  pose proof (E6 (pos x1)) as HL.
  change (ph (pos x1)) with (phi (length a) (length ins) (pos x1)) in HL. rewrite <- HQb in HL.
  destruct (lookup (pos x1) (cpos x1)) as [e|]; destruct (lookup (pos x1') (cpos x1')) as [e'|];
    try contradiction.
  - simpl. split; [|exact HL]. apply Rst_set_pos; [apply Rq_Rp, HL | exact Hc1].
  - rewrite <- E5. destruct (in_cmt x1).
    + simpl. split; [exact HR1 | split; assumption].
    + assert (HQ1 : RQ (pos x1) (pos x1')) by (split; assumption).
      pose proof (parse_comments_sim rec rec' HS kf x1 x1' HR1 HQ1) as H.
      destruct (parse_comments g (a ++ b) rec kf x1) as [r x2|x2|w];
        destruct (parse_comments g (a ++ ins ++ b) rec' kf x1') as [r' x2'|x2'|w'];
        simpl in H; try contradiction; [|exact H].
      destruct H as [[Hp2 Hc2] HQ2]. simpl. split; [|exact HQ2]. split; [exact Hp2|].
      unfold ctx in *. simpl. destruct Hc2 as (F1 & F2 & F3 & F4 & F5 & F6 & F7).
      repeat split; try assumption; try apply F7.
      rewrite HQb. apply Rc_upd; assumption.
Qed.


(* ---------------------------------------------------------------- terminals *)
Definition tok (kd : kind) : Prop :=
  term_shift_okb (a ++ b) orc (a ++ ins ++ b) orc' k n kd = true.

Lemma opt_nat_eqb_eq x y : opt_nat_eqb x y = true -> x = y.
Proof. destruct x, y; simpl; try discriminate; [|reflexivity]. intro H. apply Nat.eqb_eq in H. congruence. Qed.

Lemma tok_spec kd p : tok kd -> p <= length (a ++ b) ->
  tmatch (a ++ ins ++ b) orc' kd (ph p) = tmatch (a ++ b) orc kd p /\
  forall len, tmatch (a ++ b) orc kd p = Some len -> p + len <= length (a ++ b) /\ (p < k -> p + len <= k).
Proof.
  unfold tok, term_shift_okb. intros H Hp. rewrite forallb_forall in H.
  specialize (H p). unfold term_shift_at in H.
  assert (Hin : In p (seq 0 (S (length (a ++ b))))) by (apply in_seq; lia).
  specialize (H Hin). apply andb_true_iff in H as [H1 H2]. apply opt_nat_eqb_eq in H1.
  split; [exact H1|]. intros len E. rewrite E in H2. apply andb_true_iff in H2 as [H2 H3].
  apply Nat.leb_le in H2. split; [exact H2|]. intro Hlt.
  apply orb_true_iff in H3 as [H3|H3].
  - apply negb_true_iff, Nat.ltb_ge in H3. lia.
  - apply Nat.leb_le in H3. exact H3.
Qed.

Lemma Rp_advance p len :
  p <= length (a ++ b) -> p + len <= length (a ++ b) -> (p < k -> p + len <= k) -> RP (p + len) (ph p + len).
Proof.
  intros H1 H2 H3. unfold Rp, phi. fold k n. split; [exact H2|].
  destruct (Nat.ltb_spec p k) as [Hlt|Hge]; [specialize (H3 Hlt)|]; lia.
Qed.

Lemma term_parse_sim nid kd psq x x' :
  tok kd -> Rst x x' -> RQ (pos x) (pos x') ->
  sim_out (term_parse (a ++ b) orc nid kd psq x) (term_parse (a ++ ins ++ b) orc' nid kd psq x') /\
  failq (term_parse (a ++ b) orc nid kd psq x) (term_parse (a ++ ins ++ b) orc' nid kd psq x').
Proof.
  intros Ht HR HQ. pose proof HR as [Hp Hc]. pose proof HQ as [HQa HQb].
  destruct (tok_spec kd (pos x) Ht HQa) as [Heq Hlen]. fold k n in HQb. rewrite <- HQb in Heq.
  assert (Hfail : sim_out (nm_raise (pos x) x) (nm_raise (pos x') x') /\ failq (nm_raise (pos x) x) (nm_raise (pos x') x')).
  { unfold nm_raise; simpl. split; [apply Rst_reg_fail, HR | rewrite !pos_reg_fail; exact HQ]. }
  assert (Hadv : forall len, tmatch (a ++ b) orc kd (pos x) = Some len ->
                 Rst (set_pos (pos x + len) x) (set_pos (pos x' + len) x')).
  { intros len E. destruct (Hlen len E) as [L1 L2]. apply Rst_set_pos; [|exact Hc].
    rewrite HQb. apply Rp_advance; assumption. }
  destruct kd as [| | | | | | | | | |t [o|]|o]; simpl; try (split; reflexivity).
  - (* EOF *)
    simpl in Heq.
    destruct (Nat.eqb (length (a ++ b)) (pos x)); destruct (Nat.eqb (length (a ++ ins ++ b)) (pos x'));
      try discriminate; [|exact Hfail].
    simpl. rewrite HQb. repeat split; try exact HR; apply HR.
  - (* ignore_case literal *)
    simpl in Heq, Hadv.
    destruct (orc o (pos x)) as [l|]; destruct (orc' o (pos x')) as [l'|]; try discriminate; [|exact Hfail].
    simpl. rewrite HQb at 1. split; [|exact I]. split; [reflexivity | apply Hadv; reflexivity].
  - (* exact literal *)
    simpl in Heq, Hadv.
    destruct (is_prefix t (skipn (pos x) (a ++ b))); destruct (is_prefix t (skipn (pos x') (a ++ ins ++ b)));
      try discriminate; [|exact Hfail].
    simpl. rewrite HQb at 1. split; [|exact I]. split; [reflexivity | apply Hadv; reflexivity].
  - (* regex *)
    simpl in Heq, Hadv.
    destruct (orc o (pos x)) as [l|]; destruct (orc' o (pos x')) as [l'|]; try discriminate; [|exact Hfail].
    injection Heq as ->. destruct (Nat.eqb l 0).
    + simpl. split; [|exact I]. split; [reflexivity | exact HR].
    + simpl. rewrite HQb at 1. split; [|exact I]. split; [reflexivity | apply Hadv; reflexivity].
Qed.

(* ---------------------------------------------------------------- loops over children *)
Lemma seq_loop_sim rec rec' psq : W rec rec' -> forall kids acc x x',
  Rst x x' -> sim_out (seq_loop rec psq kids acc x) (seq_loop rec' psq kids (map sh acc) x').
Proof.
  intros HW kids; induction kids as [|c kids IH]; intros acc x x' HR; simpl.
  - split; [reflexivity | exact HR].
  - pose proof (HW c psq x x' HR) as Hs.
    destruct (rec c psq x) as [r x1|x1|w]; destruct (rec' c psq x') as [r' x1'|x1'|w'];
      simpl in Hs; try contradiction; try exact Hs.
    destruct Hs as [-> HR1]. rewrite truthy_sh. destruct (truthy r).
    + specialize (IH (acc ++ [r]) x1 x1' HR1). rewrite map_app in IH. exact IH.
    + apply IH, HR1.
Qed.

Lemma choice_loop_sim rec rec' : W rec rec' -> forall kids cp cp' x x',
  RP cp cp' -> Rst x x' -> sim_out (choice_loop rec cp kids x) (choice_loop rec' cp' kids x').
Proof.
  intros HW kids; induction kids as [|c kids IH]; intros cp cp' x x' Hcp HR; simpl.
  - split; [reflexivity | exact HR].
  - pose proof (HW c false x x' HR) as Hs.
    destruct (rec c false x) as [r x1|x1|w]; destruct (rec' c false x') as [r' x1'|x1'|w'];
      simpl in Hs; try contradiction; try exact Hs.
    + destruct Hs as [-> HR1]. rewrite is_none_sh. destruct (is_none r).
      * apply IH; assumption.
      * simpl. split; [reflexivity | exact HR1].
    + apply IH; [exact Hcp|]. apply Rst_set_pos; [exact Hcp | apply Hs].
Qed.

Lemma rep_loop_sim rec rec' e sep plus : W rec rec' -> forall kf first acc x x',
  Rst x x' ->
  sim_out (rep_loop rec e sep plus kf first acc x) (rep_loop rec' e sep plus kf first (map sh acc) x').
Proof.
  intros HW kf; induction kf as [|kf IH]; intros first acc x x' HR; simpl; [reflexivity|].
  pose proof HR as [Hp Hc].
  assert (Helem : forall acc1 y y', Rst y y' ->
    sim_out
      (match rec e false y with
       | Ok r y2 => if truthy r then rep_loop rec e sep plus kf false (acc1 ++ [r]) y2 else Ok (RList acc1) y2
       | Fail y2 => if (plus && first)%bool then Fail (set_pos (pos x) y2) else Ok (RList acc1) (set_pos (pos x) y2)
       | Abort w => Abort w
       end)
      (match rec' e false y' with
       | Ok r y2 => if truthy r then rep_loop rec' e sep plus kf false (map sh acc1 ++ [r]) y2 else Ok (RList (map sh acc1)) y2
       | Fail y2 => if (plus && first)%bool then Fail (set_pos (pos x') y2) else Ok (RList (map sh acc1)) (set_pos (pos x') y2)
       | Abort w => Abort w
       end)).
  { intros acc1 y y' HRy. pose proof (HW e false y y' HRy) as Hs.
    destruct (rec e false y) as [r y1|y1|w]; destruct (rec' e false y') as [r' y1'|y1'|w'];
      simpl in Hs; try contradiction; try exact Hs.
    - destruct Hs as [-> HR1]. rewrite truthy_sh. destruct (truthy r).
      + specialize (IH false (acc1 ++ [r]) y1 y1' HR1). rewrite map_app in IH. exact IH.
      + simpl. split; [reflexivity | exact HR1].
    - assert (HR2 : Rst (set_pos (pos x) y1) (set_pos (pos x') y1')) by (apply Rst_set_pos; [exact Hp | apply Hs]).
      destruct (plus && first)%bool; simpl; [exact HR2 | split; [reflexivity | exact HR2]]. }
  destruct sep as [sp|]; [destruct first|]; try (apply Helem; exact HR).
  pose proof (HW sp false x x' HR) as Hs.
  destruct (rec sp false x) as [r x1|x1|w]; destruct (rec' sp false x') as [r' x1'|x1'|w'];
    simpl in Hs; try contradiction; try exact Hs.
  - destruct Hs as [-> HR1]. rewrite truthy_sh.
    replace (if truthy r then map sh acc ++ [sh r] else map sh acc)
      with (map sh (if truthy r then acc ++ [r] else acc)) by (destruct (truthy r); [apply map_app | reflexivity]).
    apply Helem, HR1.
  - assert (HR2 : Rst (set_pos (pos x) x1) (set_pos (pos x') x1')) by (apply Rst_set_pos; [exact Hp | apply Hs]).
    rewrite andb_false_r. simpl. split; [reflexivity | exact HR2].
Qed.


(* ---------------------------------------------------------------- unordered group *)
Definition sim_ugr (o o' : ugr) : Prop :=
  match o, o' with
  | UGHit e r x, UGHit e' r' x' => e' = e /\ r' = sh r /\ Rst x x'
  | UGNone mt x, UGNone mt' x' => mt' = mt /\ Rst x x'
  | UGAbort w, UGAbort w' => w = w'
  | _, _ => False
  end.

Lemma ug_try_sim rec rec' sf : W rec rec' -> forall todo cl cl' mt x x',
  RP cl cl' -> Rst x x' -> sim_ugr (ug_try rec sf cl todo mt x) (ug_try rec' sf cl' todo mt x').
Proof.
  intros HW todo; induction todo as [|e rest IH]; intros cl cl' mt x x' Hcl HR; simpl.
  - split; [reflexivity | exact HR].
  - pose proof (HW e false x x' HR) as Hs.
    destruct (rec e false x) as [r x1|x1|w]; destruct (rec' e false x') as [r' x1'|x1'|w'];
      simpl in Hs; try contradiction; try exact Hs.
    + destruct Hs as [-> HR1]. rewrite truthy_sh. destruct (truthy r).
      * destruct sf.
        -- apply IH; [exact Hcl|]. apply Rst_set_pos; [exact Hcl | apply HR1].
        -- simpl. split; [reflexivity | split; [reflexivity | exact HR1]].
      * apply IH; assumption.
    + apply IH; [exact Hcl|]. apply Rst_set_pos; [exact Hcl | apply Hs].
Qed.

Definition sim_ugo (o o' : ugo) : Prop :=
  match o, o' with
  | UGDone mt acc x, UGDone mt' acc' x' => mt' = mt /\ acc' = map sh acc /\ Rst x x'
  | UGOAbort w, UGOAbort w' => w = w'
  | _, _ => False
  end.

Lemma ug_loop_sim rec rec' sep : W rec rec' -> forall nf todo first sr acc x x',
  Rst x x' ->
  sim_ugo (ug_loop rec sep nf todo first sr acc x) (ug_loop rec' sep nf todo first (sh sr) (map sh acc) x').
Proof.
  intros HW nf; induction nf as [|nf IH]; intros todo first sr acc x x' HR;
    destruct todo as [|t0 todo0]; try (simpl; split; [reflexivity | split; [reflexivity | exact HR]]);
    [reflexivity|].
  cbn [ug_loop]. set (todo := t0 :: todo0) in *. pose proof HR as [Hp Hc].
  assert (Hcont : forall sf sr1 y y', Rst y y' ->
    sim_ugo
      (match ug_try rec sf (pos y) todo true y with
       | UGHit e r y2 => ug_loop rec sep nf (remove_first e todo) false sr1
                                 ((if truthy sr1 then acc ++ [sr1] else acc) ++ [r]) y2
       | UGNone mt y2 => UGDone mt acc (set_pos (pos x) y2)
       | UGAbort w => UGOAbort w
       end)
      (match ug_try rec' sf (pos y') todo true y' with
       | UGHit e r y2 => ug_loop rec' sep nf (remove_first e todo) false (sh sr1)
                                 ((if truthy (sh sr1) then map sh acc ++ [sh sr1] else map sh acc) ++ [r]) y2
       | UGNone mt y2 => UGDone mt (map sh acc) (set_pos (pos x') y2)
       | UGAbort w => UGOAbort w
       end)).
  { intros sf sr1 y y' HRy. pose proof (ug_try_sim rec rec' sf HW todo (pos y) (pos y') true y y' (proj1 HRy) HRy) as Hs.
    destruct (ug_try rec sf (pos y) todo true y) as [e r y1|mt y1|w];
      destruct (ug_try rec' sf (pos y') todo true y') as [e' r' y1'|mt' y1'|w'];
      simpl in Hs; try contradiction; try exact Hs.
    - destruct Hs as (-> & -> & HR1). rewrite truthy_sh.
      specialize (IH (remove_first e todo) false sr1 ((if truthy sr1 then acc ++ [sr1] else acc) ++ [r]) y1 y1' HR1).
      rewrite map_app in IH. simpl map in IH.
      replace (map sh (if truthy sr1 then acc ++ [sr1] else acc))
        with (if truthy sr1 then map sh acc ++ [sh sr1] else map sh acc) in IH
        by (destruct (truthy sr1); [rewrite map_app; reflexivity | reflexivity]).
      exact IH.
    - destruct Hs as [-> HR1]. simpl. split; [reflexivity | split; [reflexivity|]].
      apply Rst_set_pos; [exact Hp | apply HR1]. }
  destruct sep as [sp|]; [destruct first|]; try (apply Hcont; exact HR).
  pose proof (HW sp false x x' HR) as Hs.
  destruct (rec sp false x) as [r x1|x1|w]; destruct (rec' sp false x') as [r' x1'|x1'|w'];
    simpl in Hs; try contradiction; try exact Hs.
  - destruct Hs as [-> HR1]. apply Hcont, HR1.
  - apply Hcont. apply Rst_set_pos; [exact Hp | apply Hs].
Qed.


(* ---------------------------------------------------------------- mode changes *)
Definition nok (nd : node) : Prop := node_ins_ok ins nd = true.

Lemma subset_strip w : noeol ins = true -> subset_ws ins w = true -> subset_ws ins (strip_eol w) = true.
Proof.
  unfold noeol, subset_ws. rewrite !forallb_forall. intros Hn Hw c Hc.
  specialize (Hn c Hc). specialize (Hw c Hc). unfold inw in *. rewrite existsb_exists in *.
  destruct Hw as [d [Hd E]]. exists d. split; [|exact E].
  unfold strip_eol. apply filter_In. split; [exact Hd|].
  apply N.eqb_eq in E. subst d. exact Hn.
Qed.

Lemma ctx_set_ws w x x' : subset_ws ins w = true -> ctx x x' -> ctx (set_ws w x) (set_ws w x').
Proof.
  unfold ctx, Inv. simpl. intros Hw (E1 & E2 & E3 & E4 & E5 & E6 & I1 & I2 & I3 & I4).
  rewrite <- E4. repeat split; try assumption.
  destruct (eolterm x); [apply subset_strip; auto | exact Hw].
Qed.

Lemma ctx_set_skipws x x' : ctx x x' -> ctx (set_skipws true x) (set_skipws true x').
Proof. unfold ctx, Inv. simpl. tauto. Qed.

Lemma ctx_set_eolterm v x x' : (v = true -> noeol ins = true) -> ctx x x' -> ctx (set_eolterm v x) (set_eolterm v x').
Proof.
  unfold ctx, Inv. simpl. intros Hv (E1 & E2 & E3 & E4 & E5 & E6 & I1 & I2 & I3 & I4).
  rewrite <- E1, <- E2. repeat split; try assumption.
  destruct v; [apply subset_strip; auto | exact I3].
Qed.

Lemma pos_enter_ws nd x : pos (enter_ws nd x) = pos x.
Proof. unfold enter_ws. destruct (n_ws nd), (n_skipws nd); reflexivity. Qed.
Lemma pos_leave_ws nd old x : pos (leave_ws nd old x) = pos x.
Proof. unfold leave_ws. destruct (n_ws nd), (n_skipws nd); reflexivity. Qed.
Lemma pos_enter_eol nd x : pos (enter_eol nd x) = pos x.
Proof. unfold enter_eol. destruct (n_eolterm nd); reflexivity. Qed.
Lemma pos_leave_eol nd old x : pos (leave_eol nd old x) = pos x.
Proof. unfold leave_eol. destruct (n_eolterm nd); reflexivity. Qed.

Lemma nok_spec nd : nok nd ->
  (forall v, n_skipws nd = Some v -> v = true) /\
  (forall w, n_ws nd = Some w -> subset_ws ins w = true) /\
  (n_eolterm nd = true -> noeol ins = true).
Proof.
  unfold nok, node_ins_ok. intro H. apply andb_true_iff in H as [H H3]. apply andb_true_iff in H as [H1 H2].
  repeat split.
  - intros v E. rewrite E in H1. destruct v; [reflexivity | discriminate].
  - intros w E. rewrite E in H2. exact H2.
  - intro E. rewrite E in H3. exact H3.
Qed.

Lemma Rst_enter_ws nd x x' : nok nd -> Rst x x' -> Rst (enter_ws nd x) (enter_ws nd x').
Proof.
  intros Hn [Hp Hc]. destruct (nok_spec nd Hn) as (N1 & N2 & _).
  split; [rewrite !pos_enter_ws; exact Hp|]. unfold enter_ws.
  assert (Hc1 : ctx (match n_ws nd with Some w => set_ws w x | None => x end)
                    (match n_ws nd with Some w => set_ws w x' | None => x' end)).
  { destruct (n_ws nd) as [w|]; [apply ctx_set_ws; [apply N2; reflexivity | exact Hc] | exact Hc]. }
  destruct (n_skipws nd) as [v|]; [|exact Hc1]. rewrite (N1 v eq_refl). apply ctx_set_skipws, Hc1.
Qed.

Lemma Rst_leave_ws nd old old' x x' : Rst old old' -> Rst x x' -> Rst (leave_ws nd old x) (leave_ws nd old' x').
Proof.
  intros [_ Ho] [Hp Hc]. split; [rewrite !pos_leave_ws; exact Hp|]. unfold leave_ws.
  pose proof Ho as (E1 & E2 & E3 & E4 & E5 & E6 & I1 & I2 & I3 & I4).
  assert (Hc1 : ctx (match n_ws nd with Some _ => set_ws (ws old) x | None => x end)
                    (match n_ws nd with Some _ => set_ws (ws old') x' | None => x' end)).
  { destruct (n_ws nd) as [w|]; [rewrite <- E1; apply ctx_set_ws; assumption | exact Hc]. }
  destruct (n_skipws nd) as [v|]; [|exact Hc1]. rewrite <- E3, I1. apply ctx_set_skipws, Hc1.
Qed.

Lemma Rst_enter_eol nd x x' : nok nd -> Rst x x' -> Rst (enter_eol nd x) (enter_eol nd x').
Proof.
  intros Hn [Hp Hc]. destruct (nok_spec nd Hn) as (_ & _ & N3).
  split; [rewrite !pos_enter_eol; exact Hp|]. unfold enter_eol.
  destruct (n_eolterm nd); [apply ctx_set_eolterm; [intros _; apply N3; reflexivity | exact Hc] | exact Hc].
Qed.

Lemma Rst_leave_eol nd old old' x x' : Rst old old' -> Rst x x' -> Rst (leave_eol nd old x) (leave_eol nd old' x').
Proof.
  intros [_ Ho] [Hp Hc]. split; [rewrite !pos_leave_eol; exact Hp|]. unfold leave_eol.
  pose proof Ho as (E1 & E2 & E3 & E4 & E5 & E6 & I1 & I2 & I3 & I4).
  destruct (n_eolterm nd); [|exact Hc]. rewrite <- E4. apply ctx_set_eolterm; assumption.
Qed.

(* ---------------------------------------------------------------- _parse of non-terminals *)
Lemma body_sim rec rec' kf nd : W rec rec' -> nok nd -> forall x x',
  Rst x x' -> sim_out (body rec kf nd x) (body rec' kf nd x').
Proof.
  intros HW Hn x x' HR. pose proof HR as [Hp Hc]. unfold body.
  destruct (n_kind nd) eqn:EK; try reflexivity.
  - (* Sequence *)
    pose proof (seq_loop_sim rec rec' true HW (n_kids nd) [] _ _ (Rst_enter_ws nd x x' Hn HR)) as Hs.
    simpl map in Hs.
    destruct (seq_loop rec true (n_kids nd) [] (enter_ws nd x)) as [r x1|x1|w];
      destruct (seq_loop rec' true (n_kids nd) [] (enter_ws nd x')) as [r' x1'|x1'|w'];
      simpl in Hs; try contradiction; try exact Hs.
    + destruct Hs as [-> HR1].
      destruct r as [|t|[|r0 l]]; simpl; (split; [reflexivity | apply Rst_leave_ws; assumption]).
    + simpl. apply Rst_leave_ws; [exact HR|]. apply Rst_set_pos; [exact Hp | apply Hs].
  - (* OrderedChoice *)
    pose proof (choice_loop_sim rec rec' HW (n_kids nd) (pos x) (pos x') _ _ Hp (Rst_enter_ws nd x x' Hn HR)) as Hs.
    destruct (choice_loop rec (pos x) (n_kids nd) (enter_ws nd x)) as [r x1|x1|w];
      destruct (choice_loop rec' (pos x') (n_kids nd) (enter_ws nd x')) as [r' x1'|x1'|w'];
      simpl in Hs; try contradiction; try exact Hs.
    destruct Hs as [-> HR1]. rewrite is_none_sh. destruct (is_none r).
    + unfold nm_raise. simpl. apply Rst_reg_fail, Rst_leave_ws; assumption.
    + simpl. split; [reflexivity | apply Rst_leave_ws; assumption].
  - (* Optional *)
    destruct (n_kids nd) as [|e kids]; [reflexivity|].
    pose proof (HW e false x x' HR) as Hs.
    destruct (rec e false x) as [r x1|x1|w]; destruct (rec' e false x') as [r' x1'|x1'|w'];
      simpl in Hs; try contradiction; try exact Hs.
    + destruct Hs as [-> HR1]. simpl. split; [reflexivity | exact HR1].
    + simpl. split; [reflexivity|]. apply Rst_set_pos; [exact Hp | apply Hs].
  - (* ZeroOrMore *)
    destruct (n_kids nd) as [|e kids]; [reflexivity|].
    pose proof (rep_loop_sim rec rec' e (n_sep nd) false HW kf true [] _ _ (Rst_enter_eol nd x x' Hn HR)) as Hs.
    simpl map in Hs.
    destruct (rep_loop rec e (n_sep nd) false kf true [] (enter_eol nd x)) as [r x1|x1|w];
      destruct (rep_loop rec' e (n_sep nd) false kf true [] (enter_eol nd x')) as [r' x1'|x1'|w'];
      simpl in Hs; try contradiction; try exact Hs.
    + destruct Hs as [-> HR1]. simpl. split; [reflexivity | apply Rst_leave_eol; assumption].
    + simpl. apply Rst_leave_eol; assumption.
  - (* OneOrMore *)
    destruct (n_kids nd) as [|e kids]; [reflexivity|].
    pose proof (rep_loop_sim rec rec' e (n_sep nd) true HW kf true [] _ _ (Rst_enter_eol nd x x' Hn HR)) as Hs.
    simpl map in Hs.
    destruct (rep_loop rec e (n_sep nd) true kf true [] (enter_eol nd x)) as [r x1|x1|w];
      destruct (rep_loop rec' e (n_sep nd) true kf true [] (enter_eol nd x')) as [r' x1'|x1'|w'];
      simpl in Hs; try contradiction; try exact Hs.
    + destruct Hs as [-> HR1]. simpl. split; [reflexivity | apply Rst_leave_eol; assumption].
    + simpl. apply Rst_leave_eol; assumption.
  - (* UnorderedGroup *)
    destruct (n_kids nd) as [|e0 kids0] eqn:EKids; [reflexivity|]. rewrite <- EKids.
    pose proof (ug_loop_sim rec rec' (n_sep nd) HW (S (length (n_kids nd))) (n_kids nd) true RNone [] _ _
                            (Rst_enter_eol nd x x' Hn HR)) as Hs.
    simpl map in Hs. simpl shift_res in Hs.
    destruct (ug_loop rec (n_sep nd) (S (length (n_kids nd))) (n_kids nd) true RNone [] (enter_eol nd x)) as [mt acc x1|w];
      destruct (ug_loop rec' (n_sep nd) (S (length (n_kids nd))) (n_kids nd) true RNone [] (enter_eol nd x')) as [mt' acc' x1'|w'];
      simpl in Hs; try contradiction; try exact Hs.
    destruct Hs as (-> & -> & HR1).
    assert (HR2 : Rst (leave_eol nd x x1) (leave_eol nd x' x1')) by (apply Rst_leave_eol; assumption).
    destruct mt.
    + simpl. split; [|exact HR2]. destruct acc; reflexivity.
    + unfold nm_raise. simpl. apply Rst_reg_fail. apply Rst_set_pos; [exact Hp | apply HR2].
  - (* And *)
    pose proof (seq_loop_sim rec rec' false HW (n_kids nd) [] _ _ HR) as Hs. simpl map in Hs.
    destruct (seq_loop rec false (n_kids nd) [] x) as [r x1|x1|w];
      destruct (seq_loop rec' false (n_kids nd) [] x') as [r' x1'|x1'|w'];
      simpl in Hs; try contradiction; try exact Hs.
    + simpl. split; [reflexivity|]. apply Rst_set_pos; [exact Hp | apply Hs].
    + simpl. apply Rst_set_pos; [exact Hp | apply Hs].
  - (* Not *)
    pose proof (seq_loop_sim rec rec' false HW (n_kids nd) [] _ _ HR) as Hs. simpl map in Hs.
    destruct (seq_loop rec false (n_kids nd) [] x) as [r x1|x1|w];
      destruct (seq_loop rec' false (n_kids nd) [] x') as [r' x1'|x1'|w'];
      simpl in Hs; try contradiction; try exact Hs.
    + unfold nm_raise. simpl. apply Rst_reg_fail. apply Rst_set_pos; [exact Hp | apply Hs].
    + simpl. split; [reflexivity|]. apply Rst_set_pos; [exact Hp | apply Hs].
  - (* Empty *)
    simpl. split; [reflexivity | exact HR].
Qed.

(* ---------------------------------------------------------------- parse() *)
Definition gok : Prop :=
  forall nd, In nd (g_nodes g) -> nok nd /\ (is_match_kind (n_kind nd) = true -> tok (n_kind nd)).

Lemma parse_sim : gok -> forall fuel,
  SW (parse g (a ++ b) orc false fuel) (parse g (a ++ ins ++ b) orc' false fuel).
Proof.
  intros Hg fuel; induction fuel as [|f IH]; intros nid psq x x' HR; simpl.
  - split; [reflexivity | intros _; exact I].
  - destruct (get_node g nid) as [nd|] eqn:EN; [|split; [reflexivity | intros _; exact I]].
    assert (Hin : In nd (g_nodes g)) by (unfold get_node in EN; eapply nth_error_In; exact EN).
    destruct (Hg nd Hin) as [Hn Ht].
    destruct (is_match_kind (n_kind nd)) eqn:EM.
    + (* Match.parse *)
      pose proof (match_pre_sim (parse g (a ++ b) orc false f) (parse g (a ++ ins ++ b) orc' false f) IH f x x' HR) as Hs.
      destruct (match_pre g (a ++ b) (parse g (a ++ b) orc false f) f x) as [r0 x1|x1|w];
        destruct (match_pre g (a ++ ins ++ b) (parse g (a ++ ins ++ b) orc' false f) f x') as [r0' x1'|x1'|w'];
        simpl in Hs; try contradiction.
      * destruct Hs as [HR1 HQ1].
        destruct (term_parse_sim nid (n_kind nd) psq x1 x1' (Ht eq_refl) HR1 HQ1) as [Hs2 Hf2].
        destruct (term_parse (a ++ b) orc nid (n_kind nd) psq x1) as [r x2|x2|w];
          destruct (term_parse (a ++ ins ++ b) orc' nid (n_kind nd) psq x1') as [r' x2'|x2'|w'];
          simpl in Hs2, Hf2; try contradiction.
        -- destruct Hs2 as [-> HR2]. split; [|intros _; exact I]. simpl.
           split; [destruct (n_suppress nd); reflexivity | exact HR2].
        -- split; [exact Hs2 | intros _; exact Hf2].
        -- split; [exact Hs2 | intros _; exact I].
      * split; [exact Hs | intros _; exact I].
    + (* non-terminals, memoization off *)
      pose proof (body_sim (parse g (a ++ b) orc false f) (parse g (a ++ ins ++ b) orc' false f) f nd
                           (SW_W _ _ IH) Hn x x' HR) as Hs.
      destruct (body (parse g (a ++ b) orc false f) f nd x) as [r x1|x1|w];
        destruct (body (parse g (a ++ ins ++ b) orc' false f) f nd x') as [r' x1'|x1'|w'];
        simpl in Hs; try contradiction.
      * destruct Hs as [-> HR1]. split; [|intros _; exact I]. simpl. split; [apply post_sh | exact HR1].
      * split.
        -- simpl. apply Rst_set_pos; [apply HR | apply Hs].
        -- intro HQ. simpl. exact HQ.
      * split; [exact Hs | intros _; exact I].
Qed.

End Sim.

(* ================================================================ the invariance theorem *)
Lemma gok_of g a ins b orc orc' cfg :
  ins_wf g cfg ins = true ->
  shift_okb g (a ++ b) orc (a ++ ins ++ b) orc' (length a) (length ins) = true ->
  gok g a ins b orc orc'.
Proof.
  unfold ins_wf, shift_okb. intros Hw Hs nd Hin.
  apply andb_true_iff in Hw as [_ Hw]. rewrite forallb_forall in Hw, Hs.
  split; [apply Hw, Hin|]. intro EM. specialize (Hs nd Hin). rewrite EM in Hs. exact Hs.
Qed.

Theorem ws_insert_invariant g cfg orc orc' fuel a ins b :
  ins_wf g cfg ins = true ->
  shift_okb g (a ++ b) orc (a ++ ins ++ b) orc' (length a) (length ins) = true ->
  outcome_shifted (length a) (length ins)
                  (run g cfg orc false fuel (a ++ b)) (run g cfg orc' false fuel (a ++ ins ++ b)).
Proof.
  intros Hw Hs. pose proof (gok_of g a ins b orc orc' cfg Hw Hs) as Hg.
  unfold ins_wf in Hw. apply andb_true_iff in Hw as [Hw _]. apply andb_true_iff in Hw as [Hsk Hsub].
  assert (HR : Rst a ins b (init_st cfg) (init_st cfg)).
  { unfold Rst, ctx, Inv, init_st; simpl. split.
    - unfold Rp. split; [lia|]. destruct (length a); [right; left; lia | left; lia].
    - repeat split; try assumption; try discriminate. }
  destruct (parse_sim g a ins b orc orc' Hg fuel (g_top g) false _ _ HR) as [Hsim _].
  unfold run.
  destruct (parse g (a ++ b) orc false fuel (g_top g) false (init_st cfg)) as [r x1|x1|w];
    destruct (parse g (a ++ ins ++ b) orc' false fuel (g_top g) false (init_st cfg)) as [r' x1'|x1'|w'];
    simpl in Hsim; try contradiction; simpl.
  - apply Hsim.
  - exact I.
  - exact Hsim.
Qed.

Corollary ws_insert_accepts g cfg orc orc' fuel a ins b r :
  ins_wf g cfg ins = true ->
  shift_okb g (a ++ b) orc (a ++ ins ++ b) orc' (length a) (length ins) = true ->
  run g cfg orc false fuel (a ++ b) = Parsed r ->
  run g cfg orc' false fuel (a ++ ins ++ b) = Parsed (shift_res (length a) (length ins) r).
Proof.
  intros Hw Hs E. pose proof (ws_insert_invariant g cfg orc orc' fuel a ins b Hw Hs) as H.
  rewrite E in H. destruct (run g cfg orc' false fuel (a ++ ins ++ b)); simpl in H; try contradiction.
  congruence.
Qed.

(* ================================================================ noskipws / ws: only the active set *)
Definition cpos_id (c : list (nat * nat)) : Prop := forall p q, lookup p c = Some q -> q = p.

Lemma cpos_id_upd c p : cpos_id c -> cpos_id (upd p p c).
Proof.
  intros H r q. rewrite lookup_upd. destruct (Nat.eqb_spec r p) as [->|_]; [congruence | apply H].
Qed.

(* Without a comment model the pre-terminal phase of Match.parse moves the position exactly by
   skip_ws_from over the effective set when skipping is on, and not at all when it is off. *)
Lemma match_pre_exact g input rec kf x :
  g_comments g = None -> cpos_id (cpos x) ->
  exists x1, match_pre g input rec kf x = Ok RNone x1 /\ cpos_id (cpos x1) /\
             pos x1 = (if skipws x then skip_ws_from (ws x) (skipn (pos x) input) (pos x) else pos x) /\
             ws x1 = ws x /\ skipws x1 = skipws x.
Proof.
  intros Hc Hid. unfold match_pre, parse_comments, maybe_skip_ws, do_skip_ws. rewrite Hc. cbv zeta.
  destruct (skipws x) eqn:Esk; simpl; rewrite ?Esk.
  - destruct (lookup _ (cpos x)) as [q|] eqn:EL.
    + apply Hid in EL. subst q. eexists; split; [reflexivity|]. simpl. rewrite Esk. repeat split; assumption.
    + destruct (in_cmt x); eexists; (split; [reflexivity|]); simpl; rewrite Esk; repeat split; try assumption.
      apply cpos_id_upd, Hid.
  - destruct (in_cmt x); eexists; (split; [reflexivity|]); simpl; rewrite ?Esk; repeat split; try assumption.
    apply cpos_id_upd, Hid.
Qed.

Lemma skip_absorb_eq w a ins b p p' :
  subset_ws ins w = true -> Rp a ins b p p' ->
  skip_ws_from w (skipn p' (a ++ ins ++ b)) p' =
  phi (length a) (length ins) (skip_ws_from w (skipn p (a ++ b)) p).
Proof. intros Hw Hp. apply (skip_absorb a ins b w p p' Hw Hp). Qed.

(* every character the pre-terminal phase moves over is in the effective whitespace set of the
   current mode; nothing is skipped under noskipws (no comment model) *)
Lemma only_active_set g input rec kf x :
  g_comments g = None -> cpos_id (cpos x) ->
  exists x1, match_pre g input rec kf x = Ok RNone x1 /\ cpos_id (cpos x1) /\
             pos x <= pos x1 /\
             (skipws x = false -> pos x1 = pos x) /\
             forallb (inw (ws x)) (firstn (pos x1 - pos x) (skipn (pos x) input)) = true.
Proof.
  intros Hc Hid. destruct (match_pre_exact g input rec kf x Hc Hid) as (x1 & E & Hid1 & Hp & _).
  exists x1. split; [exact E|]. split; [exact Hid1|]. rewrite Hp. destruct (skipws x).
  - split; [apply skip_le|]. split; [discriminate | apply skip_only_active].
  - split; [lia|]. split; [reflexivity|]. rewrite Nat.sub_diag. reflexivity.
Qed.
