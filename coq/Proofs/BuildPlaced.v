(* asg_placed (assignment nodes sit directly under common-rule nodes) derived from a decidable condition
   on the TABLE and the metamodel info, for tables in the class of the C01 refinement theorem: proved on the
   reference semantics (either variant) and transported by C01_refinement_partial.
   Stable names: table_asg_ok, asg_placed_of_run, asg_placed_of_run_tree. *)
From TxV Require Import Core.Base Model.PegSyntax Model.Peg Model.Spec Model.Build
     Proofs.BuildProofs Proofs.BuildObjProofs Proofs.SpecProofs Proofs.SpecSepProofs Proofs.SpecWf.
Require Import Lia.

Definition is_asgn_id (mm : list ninfo) (nid : nat) : bool :=
  match nth nid mm IOther with IAsgn _ _ => true | _ => false end.
Definition commonb (mm : list ninfo) (nid : nat) : bool :=
  match nth nid mm IOther with IRule RCommon _ _ => true | _ => false end.

(* [noasg g mm k nid]: no assignment node is a root in the frontier of nid (the roots reached from nid through
   non-root nodes, nid included) *)
Fixpoint noasg (g : grammar) (mm : list ninfo) (k : nat) (nid : nat) : bool :=
  match k with
  | 0 => false
  | S k' =>
    match get_node g nid with
    | None => true
    | Some nd =>
      if n_root nd then negb (is_asgn_id mm nid)
      else forallb (noasg g mm k') (n_kids nd) && match n_sep nd with Some sp => noasg g mm k' sp | None => true end
    end
  end.

(* the table condition: below a root that is not a common rule (match / abstract rules, assignment nodes, the
   top node) no assignment node is reachable without crossing another root *)
Definition table_asg_ok (g : grammar) (mm : list ninfo) (k : nat) : bool :=
  forallb (fun i => match get_node g i with
                    | Some nd => negb (n_root nd) || commonb mm i ||
                                 (forallb (noasg g mm k) (n_kids nd) && match n_sep nd with Some sp => noasg g mm k sp | None => true end)
                    | None => true
                    end) (seq 0 (length (g_nodes g))).

Lemma noasg_mono g mm : forall k nid, noasg g mm k nid = true -> noasg g mm (S k) nid = true.
Proof.
  induction k as [|k IH]; intros nid H; [discriminate|].
  cbn [noasg] in H. change (noasg g mm (S (S k)) nid) with
    (match get_node g nid with
     | None => true
     | Some nd => if n_root nd then negb (is_asgn_id mm nid)
                  else forallb (noasg g mm (S k)) (n_kids nd) && match n_sep nd with Some sp => noasg g mm (S k) sp | None => true end
     end).
  destruct (get_node g nid) as [nd|]; [|reflexivity]. destruct (n_root nd); [exact H|].
  apply andb_true_iff in H as [A B]. apply andb_true_iff. split.
  - rewrite forallb_forall in *. intros c Hc. apply IH. apply A. exact Hc.
  - destruct (n_sep nd); [apply IH; exact B | reflexivity].
Qed.

(* per-tree predicates *)
Definition okt (mm : list ninfo) (t : tree) : Prop :=
  match t with T _ _ _ _ => True | NT q kids => forallb (asg_placed mm (commonb mm q)) kids = true end.
Definition nasg (mm : list ninfo) (t : tree) : Prop :=
  match t with T _ _ _ _ => True | NT q _ => is_asgn_id mm q = false end.

Lemma asg_placed_of mm u t : okt mm t -> (u = false -> nasg mm t) -> asg_placed mm u t = true.
Proof.
  destruct t as [|q kids]; [reflexivity|]. cbn [okt nasg asg_placed]. unfold commonb, is_asgn_id.
  intros Ho Hn. destruct (nth q mm IOther) as [a op|rk cls attrs|r0 gr|]; try exact Ho.
  - destruct u; [exact Ho | specialize (Hn eq_refl); discriminate].
  - destruct rk; exact Ho.
Qed.

Section Placed.
Variable g : grammar.
Variable input : list N.
Variable orc : nat -> nat -> option nat.
Variable tq : bool.
Variable mm : list ninfo.
Variable pf : nat.
Variable K : nat.
Hypothesis Hwf : forall nid nd, get_node g nid = Some nd -> node_ok g (prodb g pf) nd = true.
Hypothesis Htab : table_asg_ok g mm K = true.

Notation sparser := (nat -> bool -> sctx -> nat -> sres) (only parsing).

Section Loops.
Variable pt : tree -> Prop.
Variable C : nat -> Prop.
Variable rec : sparser.
Hypothesis Hrec : forall c, C c -> forall psq x p ts p', rec c psq x p = SOk ts p' -> Forall pt (erase_all ts).

Lemma sseq_pr psq x kids : (forall c, In c kids -> C c) ->
  forall acc p ts p', Forall pt (erase_all acc) -> sseq rec psq x kids acc p = SOk ts p' -> Forall pt (erase_all ts).
Proof.
  induction kids as [|c kids IH]; intros HC acc p ts p' Ha H; cbn [sseq] in H.
  - inversion H; subst. exact Ha.
  - destruct (rec c psq x p) as [ts1 p1| |] eqn:E; try discriminate.
    apply (IH (fun c' Hc' => HC c' (or_intror Hc')) (acc ++ ts1) p1 ts p'); [|exact H].
    rewrite erase_all_app. apply Forall_app. split; [exact Ha | apply (Hrec c (HC c (or_introl eq_refl)) _ _ _ _ _ E)].
Qed.

Lemma schoice_pr x kids : (forall c, In c kids -> C c) ->
  forall p ts p', schoice rec x kids p = SOk ts p' -> Forall pt (erase_all ts).
Proof.
  induction kids as [|c kids IH]; intros HC p ts p' H; cbn [schoice] in H; [discriminate|].
  destruct (rec c false x p) as [ts1 p1| |] eqn:E; try discriminate.
  - inversion H; subst. apply (Hrec c (HC c (or_introl eq_refl)) _ _ _ _ _ E).
  - apply (IH (fun c' Hc' => HC c' (or_intror Hc')) p ts p' H).
Qed.

Lemma srep_pr e sep plus x : C e -> (forall sp, sep = Some sp -> C sp) ->
  forall k first acc p ts p', Forall pt (erase_all acc) -> srep tq rec e sep plus x k first acc p = SOk ts p' -> Forall pt (erase_all ts).
Proof.
  intros He Hs. induction k as [|k IH]; intros first acc p ts p' Ha H; [discriminate|].
  cbn [srep] in H.
  assert (Hel : forall sts p1, Forall pt (erase_all sts) ->
            match rec e false x p1 with
            | SOk ts0 p2 => if Nat.ltb p p2 then srep tq rec e sep plus x k false (acc ++ sts ++ ts0) p2
                            else if (plus && first)%bool then SOk (acc ++ sts ++ ts0) p2
                            else if (plus && first)%bool then SFail else SOk acc p
            | SFail => if (plus && first)%bool then SFail else SOk (if tq then acc ++ sts else acc) p
            | SOut => SOut
            end = SOk ts p' -> Forall pt (erase_all ts)).
  { intros sts p1 Hst X. destruct (rec e false x p1) as [ts0 p2| |] eqn:E; try discriminate.
    - pose proof (Hrec e He _ _ _ _ _ E) as H0.
      assert (Hall : Forall pt (erase_all (acc ++ sts ++ ts0))).
      { rewrite !erase_all_app. apply Forall_app. split; [exact Ha|]. apply Forall_app. split; assumption. }
      destruct (Nat.ltb p p2); [apply (IH _ _ _ _ _ Hall X)|].
      destruct (plus && first)%bool; inversion X; subst; [exact Hall | exact Ha].
    - destruct (plus && first)%bool; [discriminate|]. inversion X; subst.
      destruct tq; [rewrite erase_all_app; apply Forall_app; split; assumption | exact Ha]. }
  destruct sep as [sp|].
  - destruct first; [apply (Hel [] p (Forall_nil _) H)|].
    destruct (rec sp false x p) as [sts p1| |] eqn:E; try discriminate.
    + apply (Hel sts p1 (Hrec sp (Hs sp eq_refl) _ _ _ _ _ E) H).
    + destruct (plus && false)%bool; [discriminate|]. inversion H; subst. exact Ha.
  - apply (Hel [] p (Forall_nil _) H).
Qed.

(* the body of a node of the class: what it contributes is made of what its children / separator contribute *)
Lemma sbody_pr k nd x p ts p' : node_ok g (prodb g pf) nd = true ->
  (forall c, In c (n_kids nd) -> C c) -> (forall sp, n_sep nd = Some sp -> C sp) ->
  sbody tq rec k nd x p = SOk ts p' -> Forall pt (erase_all ts).
Proof.
  intros Hok HC Hs H. unfold node_ok in Hok. apply andb_true_iff in Hok as [_ Hkind]. unfold sbody in H.
  destruct (n_kind nd) eqn:Ek; try discriminate.
  - apply (sseq_pr true _ _ HC [] p ts p' (Forall_nil _) H).
  - apply (schoice_pr _ _ HC p ts p' H).
  - destruct (n_kids nd) as [|e rest]; [discriminate|].
    destruct (rec e false x p) as [ts1 p1| |] eqn:E; try discriminate; inversion H; subst.
    + apply (Hrec e (HC e (or_introl eq_refl)) _ _ _ _ _ E).
    + constructor.
  - destruct (n_kids nd) as [|e rest]; [discriminate|].
    apply (srep_pr e (n_sep nd) false _ (HC e (or_introl eq_refl)) Hs k true [] p ts p' (Forall_nil _) H).
  - destruct (n_kids nd) as [|e rest]; [discriminate|].
    apply (srep_pr e (n_sep nd) true _ (HC e (or_introl eq_refl)) Hs k true [] p ts p' (Forall_nil _) H).
  - destruct (sseq rec false x (n_kids nd) [] p); try discriminate. inversion H; subst. constructor.
  - destruct (sseq rec false x (n_kids nd) [] p); try discriminate; inversion H; subst; constructor.
  - inversion H; subst. constructor.
Qed.
End Loops.

(* the result of a non-terminal, after wrapping *)
Lemma seval_placed : forall f nid psq x p ts p',
  seval g input orc tq f nid psq x p = SOk ts p' ->
  Forall (okt mm) (erase_all ts) /\ (forall k, noasg g mm k nid = true -> Forall (nasg mm) (erase_all ts)).
Proof.
  induction f as [|f IH]; intros nid psq x p ts p' H; [discriminate|].
  cbn [seval] in H. destruct (get_node g nid) as [nd|] eqn:En; [|discriminate].
  destruct (is_match_kind (n_kind nd)) eqn:Em.
  - (* terminals contribute terminals *)
    destruct (skip g input (seval g input orc tq f) f x p) as [p1|]; [|discriminate].
    assert (HT : forall ts0 p2, term_match input orc nid (n_kind nd) psq p1 = SOk ts0 p2 ->
                   forall pt : tree -> Prop, (forall a b c d, pt (T a b c d)) -> Forall pt (erase_all ts0)).
    { intros ts0 p2 X pt Hpt. destruct (n_kind nd) as [| | | | | | | | | |t o|o]; try discriminate; cbn [term_match] in X.
      - destruct (Nat.eqb (length input) p1); inversion X; subst. constructor; [apply Hpt | constructor].
      - destruct o as [o|]; [destruct (orc o p1) | destruct (is_prefix t (skipn p1 input))]; inversion X; subst;
          (constructor; [apply Hpt | constructor]).
      - destruct (orc o p1); inversion X; subst. constructor; [apply Hpt | constructor]. }
    destruct (term_match input orc nid (n_kind nd) psq p1) as [ts0 p2| |] eqn:EM; try discriminate.
    inversion H; subst. destruct (n_suppress nd).
    + split; [constructor | intros; constructor].
    + split; [apply (HT ts0 p' eq_refl); intros; exact I | intros k _; apply (HT ts0 p' eq_refl); intros; exact I].
  - pose proof (Hwf _ _ En) as Hok.
    destruct (sbody tq (seval g input orc tq f) f nd x p) as [ts0 p2| |] eqn:EB; try discriminate.
    inversion H; subst. clear H.
    assert (Hokt : Forall (okt mm) (erase_all ts0)).
    { apply (sbody_pr (okt mm) (fun _ => True) (seval g input orc tq f) (fun c _ psq0 x0 p0 ts1 p1 E => proj1 (IH c psq0 x0 p0 ts1 p1 E))
               f nd x p ts0 p' Hok (fun _ _ => I) (fun _ _ => I) EB). }
    assert (Hnas : forall k, forallb (noasg g mm k) (n_kids nd) = true ->
                             match n_sep nd with Some sp => noasg g mm k sp | None => true end = true ->
                             Forall (nasg mm) (erase_all ts0)).
    { intros k Hk Hsp.
      apply (sbody_pr (nasg mm) (fun c => noasg g mm k c = true) (seval g input orc tq f)
               (fun c Hc psq0 x0 p0 ts1 p1 E => proj2 (IH c psq0 x0 p0 ts1 p1 E) k Hc) f nd x p ts0 p' Hok).
      - intros c Hc. rewrite forallb_forall in Hk. apply Hk. exact Hc.
      - intros sp Es. rewrite Es in Hsp. exact Hsp.
      - exact EB. }
    unfold wrap. destruct (n_suppress nd); [split; [constructor | intros; constructor]|].
    destruct (n_root nd) eqn:Er.
    + (* a root: one node around the contribution *)
      assert (Hnode : okt mm (NT nid (erase_all ts0))).
      { cbn [okt]. apply forallb_forall. intros t Ht.
        apply asg_placed_of.
        - rewrite Forall_forall in Hokt. apply Hokt. exact Ht.
        - intro Hc.
          (* nid is not a common rule: the table condition applies *)
          unfold table_asg_ok in Htab. rewrite forallb_forall in Htab.
          assert (Hi : In nid (seq 0 (length (g_nodes g)))).
          { apply in_seq. unfold get_node in En. assert (X : nth_error (g_nodes g) nid <> None) by congruence. apply nth_error_Some in X. lia. }
          specialize (Htab nid Hi). rewrite En, Er, Hc in Htab. cbn [negb orb] in Htab.
          apply andb_true_iff in Htab as [A B].
          pose proof (Hnas K A B) as HN. rewrite Forall_forall in HN. apply HN. exact Ht. }
      assert (Hres : forall l, l = [SNT nid ts0] -> Forall (okt mm) (erase_all l) /\
                        (forall k, noasg g mm k nid = true -> Forall (nasg mm) (erase_all l))).
      { intros l ->. unfold erase_all. cbn [flat_map]. rewrite erase_SNT, app_nil_r. split.
        - constructor; [exact Hnode | constructor].
        - intros k Hk. constructor; [|constructor]. cbn [nasg]. destruct k as [|k]; [discriminate|].
          cbn [noasg] in Hk. rewrite En, Er in Hk. apply negb_true_iff in Hk. exact Hk. }
      destruct ts0 as [|a l]; [destruct (n_kind nd); try (apply Hres; reflexivity); split; try constructor; intros; constructor|].
      destruct (n_kind nd); apply Hres; reflexivity.
    + split; [exact Hokt|]. intros k Hk. destruct k as [|k]; [discriminate|].
      cbn [noasg] in Hk. rewrite En, Er in Hk. apply andb_true_iff in Hk as [A B]. apply (Hnas k A B).
Qed.
End Placed.

(* For tables in the class of the C01 refinement theorem that satisfy the table condition: every NonTerminal of
   the interpreter's result has its children placed (assignment nodes only under common-rule nodes). *)
Theorem asg_placed_of_run g pf mm K c orc fuel input r :
  wfg g pf = true -> orc_pos orc -> table_asg_ok g mm K = true ->
  run g c orc false fuel input = Parsed r -> Forall (okt mm) (flatten r).
Proof.
  intros Hwf Horc Htab Hrun. destruct (wfg_parts g pf Hwf) as [Hnodes _].
  pose proof (refinement g pf c orc fuel input Hwf Horc) as HR. rewrite Hrun in HR.
  destruct HR as [ts [p [_ [_ [tsq [Eq Ee]]]]]]. rewrite <- Ee.
  unfold spec_run_q in Eq. apply (proj1 (seval_placed g input orc true mm pf K Hnodes Htab _ _ _ _ _ _ _ Eq)).
Qed.

Corollary asg_placed_of_run_tree g pf mm K c orc fuel input n t rest :
  wfg g pf = true -> orc_pos orc -> table_asg_ok g mm K = true ->
  run g c orc false fuel input = Parsed (RTree (NT n (t :: rest))) -> asg_placed mm (commonb mm n) t = true.
Proof.
  intros Hwf Horc Htab Hrun. pose proof (asg_placed_of_run g pf mm K c orc fuel input _ Hwf Horc Htab Hrun) as H.
  cbn [flatten] in H. inversion H as [|? ? Ho _]; subst. cbn [okt forallb] in Ho. apply andb_true_iff in Ho as [A _]. exact A.
Qed.

(* C06_objects_nested_ordered with hypotheses on the table and the oracle only *)
Theorem objects_nested_ordered_run g pf mm K c orc fuel input r :
  wfg g pf = true -> nosep g = true -> eof_ok g = true -> orc_pos orc -> table_asg_ok g mm K = true ->
  run g c orc false fuel input = Parsed r ->
  exists t rest, r = RTree (NT (g_top g) (t :: rest)) /\ wf_tree t = true /\ asg_placed mm (commonb mm (g_top g)) t = true /\
    forall grp auto ug top v top', pnode g mm input grp auto ug t top = BOk (v, top') -> good (tpos t) (tend t) v.
Proof.
  intros Hwf Hns He Horc Htab Hrun.
  destruct (run_wf g pf c orc fuel input r Hwf Hns He Horc Hrun) as [t [rest [-> W]]].
  pose proof (asg_placed_of_run_tree g pf mm K c orc fuel input _ t rest Hwf Horc Htab Hrun) as P.
  exists t, rest. split; [reflexivity|]. split; [exact W|]. split; [exact P|].
  intros grp auto ug top v top' H. exact (objects_nested_ordered g mm input grp auto ug t top v top' _ W P H).
Qed.

(* non-vacuity: Model: 'a' items+=Item*; Item: name=ID ('=' v=INT)? | 'b';  with its metamodel table *)
Definition mm_items : list ninfo :=
  [IOther; IRule RCommon [77]%N []; ITerm [] 0; IOther; IAsgn [105]%N OpList; IRule RCommon [73]%N [];
   IOther; IAsgn [110]%N OpPlain; ITerm [73;68]%N 0; IOther; IOther; ITerm [] 0; IAsgn [118]%N OpPlain; ITerm [73;78;84]%N 0;
   ITerm [] 0; ITerm [69;79;70]%N 0].
Lemma placed_nonvacuous :
  wfg g_items 24 = true /\ nosep g_items = true /\ eof_ok g_items = true /\ table_asg_ok g_items mm_items 24 = true /\
  accepts (run g_items c_default (orc_of t_items) false 60 in_items) = true.
Proof. vm_compute. repeat split. Qed.

(* the table condition is what fails when an assignment sits in a match rule *)
Lemma table_asg_refuted :
  table_asg_ok g_items [IOther; IRule RMatch [77]%N []; ITerm [] 0; IOther; IAsgn [105]%N OpList] 24 = false.
Proof. vm_compute. reflexivity. Qed.
