(* The decidable obligations over the exporters' templates TRANSLATED from textx/export.py, discharged by
   computation on every run, and the statements they give through the soundness theorems. *)
From TxV Require Import Core.Base Model.ExportDefs Gen.SrcExport Model.Export Proofs.ExportProofs.

Lemma model_doc_quotes_ok : doc_quotes_ok model_doc = true.
Proof. vm_compute. reflexivity. Qed.

Lemma metamodel_doc_quotes_ok : doc_quotes_ok metamodel_doc = true.
Proof. vm_compute. reflexivity. Qed.

Lemma model_doc_quotes w : gen model_doc w -> drun DOut w = Some DOut.
Proof. apply doc_quotes_sound. exact model_doc_quotes_ok. Qed.

Lemma metamodel_doc_quotes w : gen metamodel_doc w -> drun DOut w = Some DOut.
Proof. apply doc_quotes_sound. exact metamodel_doc_quotes_ok. Qed.

Lemma model_labels_ok : forallb label_ok model_labels = true.
Proof. vm_compute. reflexivity. Qed.

Lemma metamodel_labels_ok : forallb label_ok metamodel_labels = true.
Proof. vm_compute. reflexivity. Qed.

Lemma labels_sound (ls : list tx) : forallb label_ok ls = true ->
  forall t w, In t ls -> gen t w -> lrun LStart w = Some LDone.
Proof.
  intros H t w Hin Hg. rewrite forallb_forall in H. apply (label_sound t (H t Hin) w Hg).
Qed.

Lemma model_labels_record t w : In t model_labels -> gen t w -> lrun LStart w = Some LDone.
Proof. apply labels_sound. exact model_labels_ok. Qed.

Lemma metamodel_labels_record t w : In t metamodel_labels -> gen t w -> lrun LStart w = Some LDone.
Proof. apply labels_sound. exact metamodel_labels_ok. Qed.

Lemma labels_present : model_labels <> [] /\ metamodel_labels <> [].
Proof. split; discriminate. Qed.

Lemma plantuml_braces_ok : braces_ok (plantuml_body plantuml_doc) = true.
Proof. vm_compute. reflexivity. Qed.

Lemma plantuml_braces w : gen (plantuml_body plantuml_doc) w -> brun false w = Some false.
Proof. apply braces_sound. exact plantuml_braces_ok. Qed.

Lemma model_doc_blocks_ok : doc_blocks_ok model_doc = true.
Proof. vm_compute. reflexivity. Qed.

Lemma metamodel_doc_blocks_ok : doc_blocks_ok metamodel_doc = true.
Proof. vm_compute. reflexivity. Qed.

Lemma model_doc_blocks w : gen model_doc w -> grun g_start w = Some g_final.
Proof. apply doc_blocks_sound. exact model_doc_blocks_ok. Qed.

Lemma metamodel_doc_blocks w : gen metamodel_doc w -> grun g_start w = Some g_final.
Proof. apply doc_blocks_sound. exact metamodel_doc_blocks_ok. Qed.
