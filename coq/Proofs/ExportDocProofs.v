(* The decidable obligations over the exporters' templates TRANSLATED from textx/export.py, discharged by
   computation on every run, and the statements they give through the soundness theorems. *)
From TxV Require Import Core.Base Model.ExportDefs Gen.SrcExport Model.Export Proofs.ExportProofs.

Lemma model_doc_quotes_ok : doc_quotes_ok model_doc = true.
Proof. vm_compute. reflexivity. Qed.

Lemma metamodel_doc_quotes_ok : doc_quotes_ok metamodel_doc = true.
Proof. vm_compute. reflexivity. Qed.

Lemma model_doc_quotes w : gen model_doc w -> drun DOut w = Some DOut.
Proof. apply doc_quotes_sound. exact model_doc_quotes_ok. Qed.

Lemma metamodel_doc_quotes w : gen metamodel_doc w -> drun DOut w = Some DOut.
Proof. apply doc_quotes_sound. exact metamodel_doc_quotes_ok. Qed.
