(* metamodel_export_tofile (Model/ExportMeta.v): which classes get a node statement / class declaration, how
   often, and that links and specialisation edges only join declared classes. *)
From TxV Require Import Core.Base Model.ExportDefs Gen.SrcExport Model.Export Model.ExportWalk Model.ExportMeta.

(* ---------------------------------------------------------------- indexed lists *)
Lemma In_combine_seq {X : Type} (l : list X) : forall s k c,
  In (k, c) (combine (seq s (length l)) l) <-> s <= k /\ nth_error l (k - s) = Some c.
Proof.
  induction l as [|x l IH]; intros s k c; cbn [length seq combine].
  - split; [intros [] | intros [_ H]; destruct (k - s); discriminate].
  - cbn [In]. rewrite IH. split.
    + intros [E|[Hle Hn]].
      * inversion E; subst. split; [lia|]. rewrite Nat.sub_diag. reflexivity.
      * split; [lia|]. replace (k - s) with (S (k - S s)) by lia. exact Hn.
    + intros [Hle Hn]. destruct (Nat.eq_dec k s) as [->|Hne].
      * rewrite Nat.sub_diag in Hn. cbn in Hn. inversion Hn; subst. left. reflexivity.
      * right. split; [lia|]. replace (k - s) with (S (k - S s)) in Hn by lia. exact Hn.
Qed.

Lemma In_indexed {X : Type} (l : list X) k c : In (k, c) (indexed l) <-> nth_error l k = Some c.
Proof.
  unfold indexed. rewrite In_combine_seq. rewrite Nat.sub_0_r. split; [intros [_ H]; exact H | intro H; split; [lia | exact H]].
Qed.

Lemma map_fst_combine_seq {X : Type} (l : list X) s : map fst (combine (seq s (length l)) l) = seq s (length l).
Proof.
  revert s; induction l as [|x l IH]; intro s; [reflexivity|].
  cbn [length seq combine map fst]. rewrite IH. reflexivity.
Qed.

Lemma NoDup_fst_indexed {X : Type} (l : list X) : NoDup (map fst (indexed l)).
Proof. unfold indexed. rewrite map_fst_combine_seq. apply seq_NoDup. Qed.

Lemma NoDup_map_fst_filter {X Y : Type} (p : X * Y -> bool) (l : list (X * Y)) :
  NoDup (map fst l) -> NoDup (map fst (filter p l)).
Proof.
  induction l as [|x l IH]; intro H; [constructor|].
  cbn [map] in H. inversion H as [|a b Hn Hl]; subst. cbn [filter].
  destruct (p x); [|apply IH, Hl]. cbn [map]. constructor; [|apply IH, Hl].
  intro Hin. apply Hn. apply in_map_iff in Hin as [y [E Hy]]. apply filter_In in Hy as [Hy _].
  apply in_map_iff. exists y. split; assumption.
Qed.

Lemma count_one (l : list nat) k : NoDup l -> In k l -> count_occ Nat.eq_dec l k = 1.
Proof.
  intros Hnd Hin. pose proof (proj1 (NoDup_count_occ Nat.eq_dec l) Hnd k) as Hle.
  pose proof (proj1 (count_occ_In Nat.eq_dec l k) Hin) as Hgt. lia.
Qed.

(* ---------------------------------------------------------------- the traversal *)
Section MetaProofs.
  Variable cl : list mcls.
  Variable R : renderer.
  Notation first_part := (first_part cl R).
  Notation second_part := (second_part cl R).
  Notation stmts := (mm_stmts cl R).

  Lemma mnode_ids_app a b : mnode_ids (a ++ b) = mnode_ids a ++ mnode_ids b.
  Proof. unfold mnode_ids. apply flat_map_app. Qed.
  Lemma medges_app a b : medges (a ++ b) = medges a ++ medges b.
  Proof. unfold medges. apply flat_map_app. Qed.

  Lemma class_stmt_ids k c : mnode_ids (class_stmt cl R k c) = if is_match c then [] else [k].
  Proof. unfold class_stmt. destruct (is_match c); reflexivity. Qed.
  Lemma class_stmt_edges k c : medges (class_stmt cl R k c) = [].
  Proof. unfold class_stmt. destruct (is_match c); reflexivity. Qed.

  Lemma first_ids_gen (l : list (nat * mcls)) :
    mnode_ids (flat_map (fun kc => if in_classes (snd kc) && negb (named_builtin (snd kc)) then class_stmt cl R (fst kc) (snd kc) else []) l)
    = map fst (filter (fun kc => has_node (snd kc)) l).
  Proof.
    induction l as [|[k c] l IH]; [reflexivity|].
    cbn [flat_map filter fst snd]. rewrite mnode_ids_app, IH. unfold has_node.
    destruct (in_classes c && negb (named_builtin c)) eqn:E; cbn [andb].
    - rewrite class_stmt_ids. destruct (is_match c); reflexivity.
    - reflexivity.
  Qed.

  Lemma first_ids : mnode_ids first_part = map fst (filter (fun kc => has_node (snd kc)) (indexed cl)).
  Proof. apply first_ids_gen. Qed.

  Lemma first_edges_gen (l : list (nat * mcls)) :
    medges (flat_map (fun kc => if in_classes (snd kc) && negb (named_builtin (snd kc)) then class_stmt cl R (fst kc) (snd kc) else []) l) = [].
  Proof.
    induction l as [|[k c] l IH]; [reflexivity|].
    cbn [flat_map fst snd]. rewrite medges_app, IH, app_nil_r.
    destruct (in_classes c && negb (named_builtin c)); [apply class_stmt_edges | reflexivity].
  Qed.

  Lemma in_first k c : nth_error cl k = Some c -> has_node c = true -> In k (mnode_ids first_part).
  Proof.
    intros Hn Hh. rewrite first_ids. apply in_map_iff. exists (k, c). split; [reflexivity|].
    apply filter_In. split; [apply In_indexed, Hn | exact Hh].
  Qed.

  Lemma first_NoDup : NoDup (mnode_ids first_part).
  Proof. rewrite first_ids. apply NoDup_map_fst_filter, NoDup_fst_indexed. Qed.

  Lemma first_only k : In k (mnode_ids first_part) -> exists c, nth_error cl k = Some c /\ has_node c = true.
  Proof.
    rewrite first_ids. intro H. apply in_map_iff in H as [[k' c] [E Hin]]. cbn in E. subst k'.
    apply filter_In in Hin as [Hin Hh]. exists c. split; [apply In_indexed, Hin | exact Hh].
  Qed.

  (* node statements of the second loop: classes outside the exported list (OBJECT) used as an attribute type *)
  Lemma attr_ids k c a j : In j (mnode_ids (attr_stmts cl R k c a)) ->
    exists t, nth_error cl j = Some t /\ in_classes t = false /\ is_match t = false.
  Proof.
    unfold attr_stmts. destruct (nth_error cl (ma_cls a)) as [t|] eqn:Et; [|intros []].
    rewrite mnode_ids_app. intro H. apply in_app_or in H as [H|H].
    - destruct (is_link a t); cbn in H; contradiction.
    - destruct (in_classes t) eqn:Ei; [contradiction|]. rewrite class_stmt_ids in H.
      destruct (is_match t) eqn:Em; [contradiction|]. destruct H as [<-|[]]. exists t. auto.
  Qed.

  Lemma inh_ids k c : mnode_ids (inh_stmts cl R k c) = [].
  Proof.
    unfold inh_stmts. induction (mc_inh c) as [|j l IH]; [reflexivity|].
    cbn [flat_map]. rewrite mnode_ids_app, IH, app_nil_r. destruct (nth_error cl j); reflexivity.
  Qed.

  Lemma second_ids j : In j (mnode_ids second_part) ->
    exists t, nth_error cl j = Some t /\ in_classes t = false /\ is_match t = false.
  Proof.
    unfold second_part. induction (indexed cl) as [|[k c] l IH]; [intros []|].
    cbn [flat_map fst snd]. rewrite mnode_ids_app. intro H. apply in_app_or in H as [H|H]; [|apply IH, H].
    destruct (in_classes c); [|contradiction]. rewrite mnode_ids_app, inh_ids, app_nil_r in H.
    induction (mc_attrs c) as [|a al IHa]; [contradiction|].
    cbn [flat_map] in H. rewrite mnode_ids_app in H. apply in_app_or in H as [H|H]; [apply (attr_ids k c a j H) | apply IHa, H].
  Qed.

  Lemma stmts_ids : mnode_ids stmts = mnode_ids first_part ++ mnode_ids second_part.
  Proof. unfold mm_stmts. rewrite !mnode_ids_app. reflexivity. Qed.

  Theorem mm_node_once k c : nth_error cl k = Some c -> has_node c = true ->
    count_occ Nat.eq_dec (mnode_ids stmts) k = 1.
  Proof.
    intros Hn Hh. rewrite stmts_ids, count_occ_app.
    rewrite (count_one _ k first_NoDup (in_first k c Hn Hh)).
    assert (H0 : count_occ Nat.eq_dec (mnode_ids second_part) k = 0).
    { apply count_occ_not_In. intro Hin. destruct (second_ids k Hin) as [t [Ht [Hi _]]].
      rewrite Hn in Ht. inversion Ht; subst t. unfold has_node in Hh. rewrite Hi in Hh. discriminate. }
    rewrite H0. reflexivity.
  Qed.

  Theorem mm_node_only k : In k (mnode_ids stmts) ->
    exists c, nth_error cl k = Some c /\ is_match c = false /\ (has_node c = true \/ in_classes c = false).
  Proof.
    rewrite stmts_ids. intro H. apply in_app_or in H as [H|H].
    - destruct (first_only k H) as [c [Hn Hh]]. exists c. split; [exact Hn|]. split; [|left; exact Hh].
      unfold has_node in Hh. apply andb_true_iff in Hh as [_ Hm]. apply negb_true_iff in Hm. exact Hm.
    - destruct (second_ids k H) as [t [Hn [Hi Hm]]]. exists t. auto.
  Qed.

  (* the text of a tagged statement is the renderer's text for that class *)
  Theorem mm_node_text k t : In (MNode k, t) stmts -> exists c, nth_error cl k = Some c /\ t = r_class R cl k c.
  Proof.
    assert (Hcs : forall j c0, In (MNode k, t) (class_stmt cl R j c0) -> j = k /\ t = r_class R cl k c0).
    { intros j c0. unfold class_stmt. destruct (is_match c0); [intros []|]. intros [E|[]]. inversion E; subst. auto. }
    unfold mm_stmts. intro H. apply in_app_or in H as [H|H]; [|apply in_app_or in H as [H|H]].
    - unfold ExportMeta.first_part in H. apply in_flat_map in H as [[j c0] [Hin H]]. cbn [fst snd] in H.
      destruct (in_classes c0 && negb (named_builtin c0)); [|contradiction].
      destruct (Hcs j c0 H) as [-> ->]. exists c0. split; [apply In_indexed, Hin | reflexivity].
    - destruct H as [E|[]]. discriminate.
    - unfold ExportMeta.second_part in H. apply in_flat_map in H as [[j c0] [Hin H]]. cbn [fst snd] in H.
      destruct (in_classes c0); [|contradiction]. apply in_app_or in H as [H|H].
      + apply in_flat_map in H as [a [Ha H]]. unfold attr_stmts in H.
        destruct (nth_error cl (ma_cls a)) as [t0|] eqn:Et; [|contradiction].
        apply in_app_or in H as [H|H].
        * destruct (is_link a t0); [destruct H as [E|[]]; discriminate | contradiction].
        * destruct (in_classes t0); [contradiction|]. destruct (Hcs _ _ H) as [E ->]. subst k. exists t0. auto.
      + unfold inh_stmts in H. apply in_flat_map in H as [i [Hi H]].
        destruct (nth_error cl i); [destruct H as [E|[]]; discriminate | contradiction].
  Qed.

  Lemma wf_at k c : wf_mm cl = true -> nth_error cl k = Some c -> in_classes c = true ->
    (forall a t, In a (mc_attrs c) -> nth_error cl (ma_cls a) = Some t -> is_link a t = true -> has_node c = true /\ has_node t = true)
    /\ (forall j t, In j (mc_inh c) -> nth_error cl j = Some t -> has_node c = true /\ has_node t = true).
  Proof.
    intros Hwf Hn Hi. unfold wf_mm in Hwf. rewrite forallb_forall in Hwf.
    specialize (Hwf (k, c) (proj2 (In_indexed cl k c) Hn)). cbn [snd] in Hwf. rewrite Hi in Hwf.
    apply andb_true_iff in Hwf as [Ha Hj]. rewrite forallb_forall in Ha, Hj. split.
    - intros a t Hin Ht Hl. specialize (Ha a Hin). rewrite Ht, Hl in Ha. apply andb_true_iff in Ha. exact Ha.
    - intros j t Hin Ht. specialize (Hj j Hin). rewrite Ht in Hj. apply andb_true_iff in Hj. exact Hj.
  Qed.

  Theorem mm_edges_declared : wf_mm cl = true -> forall a b, In (a, b) (medges stmts) ->
    In a (mnode_ids stmts) /\ In b (mnode_ids stmts).
  Proof.
    intros Hwf a b H. unfold mm_stmts in H. rewrite !medges_app in H.
    unfold ExportMeta.first_part in H. rewrite first_edges_gen in H. cbn [app medges flat_map fst] in H.
    assert (Hgoal : exists c t, nth_error cl a = Some c /\ nth_error cl b = Some t /\ has_node c = true /\ has_node t = true).
    { unfold medges, ExportMeta.second_part in H. apply in_flat_map in H as [[tag txt] [Hs Htag]].
      apply in_flat_map in Hs as [[k c] [Hin Hs]]. cbn [fst snd] in Hs, Htag.
      destruct (in_classes c) eqn:Hi; [|contradiction].
      apply In_indexed in Hin. destruct (wf_at k c Hwf Hin Hi) as [Wa Wj].
      apply in_app_or in Hs as [Hs|Hs].
      - apply in_flat_map in Hs as [at0 [Hat Hs]]. unfold attr_stmts in Hs.
        destruct (nth_error cl (ma_cls at0)) as [t|] eqn:Et; [|contradiction].
        apply in_app_or in Hs as [Hs|Hs].
        + destruct (is_link at0 t) eqn:El; [|contradiction]. destruct Hs as [E|[]]. inversion E; subst tag txt.
          destruct Htag as [E2|[]]. inversion E2; subst a b.
          destruct (Wa at0 t Hat Et El) as [H1 H2]. exists c, t. auto.
        + destruct (in_classes t); [contradiction|]. unfold class_stmt in Hs.
          destruct (is_match t); [contradiction|]. destruct Hs as [E|[]]. inversion E; subst tag. contradiction.
      - unfold inh_stmts in Hs. apply in_flat_map in Hs as [j [Hj Hs]].
        destruct (nth_error cl j) as [t|] eqn:Et; [|contradiction]. destruct Hs as [E|[]]. inversion E; subst tag txt.
        destruct Htag as [E2|[]]. inversion E2; subst a b.
        destruct (Wj j t Hj Et) as [H1 H2]. exists c, t. auto. }
    destruct Hgoal as [c [t [Ha [Hb [Hc Ht]]]]]. rewrite stmts_ids. split; apply in_or_app; left.
    - apply (in_first a c Ha Hc).
    - apply (in_first b t Hb Ht).
  Qed.
End MetaProofs.

(* ---------------------------------------------------------------- document shape *)
Lemma pu_doc_shape cl lt rows :
  mm_pu_doc cl lt rows = pu_start ++ (pu_header_rest lt ++ flat_map snd (mm_stmts cl pu_renderer) ++ pu_legend rows) ++ pu_end.
Proof. unfold mm_pu_doc, mm_doc, pu_header, pu_trailer. repeat rewrite <- app_assoc. reflexivity. Qed.

Lemma dot_doc_shape cl rows :
  mm_dot_doc cl rows = export_header ++ (flat_map snd (mm_stmts cl dot_renderer) ++ dot_table rows) ++ dot_close.
Proof. unfold mm_dot_doc, mm_doc, dot_trailer. repeat rewrite <- app_assoc. reflexivity. Qed.
