(* C03: the lists _determine_rule_types leaves are exactly `recorded` (the declarative early-exit walk
   over the final kinds) for every grammar without a cycle through abstract rules; textx_isinstance is
   the closure of `recorded`. *)
From TxV Require Import Core.Base Model.Kinds Proofs.KindsProofs Proofs.KindsInhProofs.
Require Import Lia.

(* ------------------------------------------------------------------ list forms of the pure walk *)
Fixpoint walk_seq (K : nat -> kind) (l : list expr) (acc : list nat) : bool * list nat :=
  match l with
  | [] => (false, acc)
  | x :: l' => let (b, a1) := walk K x acc in if b then (true, a1) else walk_seq K l' a1
  end.
Fixpoint walk_choice (K : nat -> kind) (l : list expr) (acc : list nat) : bool * list nat :=
  match l with
  | [] => (false, acc)
  | x :: l' => let (b, a1) := walk K x acc in let (b', a2) := walk_choice K l' a1 in (b || b', a2)
  end.
Lemma walk_Seq K es acc : walk K (Seq es) acc = walk_seq K es acc.
Proof.
  simpl. revert acc. induction es as [|a es IH]; intro acc; simpl; [reflexivity|].
  destruct (walk K a acc) as [b a1]. destruct b; [reflexivity | apply IH].
Qed.
Lemma walk_Choice K es acc : walk K (Choice es) acc = walk_choice K es acc.
Proof.
  simpl. revert acc. induction es as [|a es IH]; intro acc; simpl; [reflexivity|].
  destruct (walk K a acc) as [b a1]. rewrite IH. reflexivity.
Qed.

(* ------------------------------------------------------------------ the stateful walk with accurate reads is the pure walk *)
Section Exact.
Variable K : nat -> kind.
Variable P : st -> Prop.
Variable det : nat -> st -> st.
Variable ok : nat -> Prop.
Variable y : nat.
Hypothesis Hacc : forall c a, ok c -> P a ->
  P (det c a) /\ is_match (types (det c a) c) = is_match (K c) /\ inh (det c a) y = inh a y.
Hypothesis Hadd : forall c a, P a -> P (set_inh y (inh a y ++ [c]) a).

Definition exact_post (e : expr) (s : st) (r : bool * st) : Prop :=
  P (snd r) /\ fst r = fst (walk K e (inh s y)) /\ inh (snd r) y = snd (walk K e (inh s y)).

Lemma addr_exact : forall e s, (forall c, In c (refs e) -> ok c) -> P s -> exact_post e s (addr det y e s).
Proof.
  induction e as [|r|es IH|es IH|e IH|e IH] using expr_ind'; intros s Hok HP.
  - split; [exact HP | split; reflexivity].
  - destruct (Hacc r s (Hok r (or_introl eq_refl)) HP) as [A [B C]]. unfold exact_post. simpl.
    rewrite B, C. destruct (negb (is_match (K r)) && negb (mem r (inh s y))); simpl.
    + split; [assert (HA := Hadd r (det r s) A); rewrite C in HA; exact HA|]. split; [reflexivity|]. rewrite upd_same. reflexivity.
    + split; [exact A|]. split; [reflexivity | exact C].
  - unfold exact_post. rewrite addr_Seq, walk_Seq. rewrite refs_Seq in Hok. revert s Hok HP.
    induction IH as [|a es Ha _ IHl]; intros s Hok HP; [split; [exact HP | split; reflexivity]|].
    simpl. destruct (Ha s (fun c Hc => Hok c (in_or_app _ _ _ (or_introl Hc))) HP) as [A [B C]].
    destruct (addr det y a s) as [b s1]. destruct (walk K a (inh s y)) as [wb wa]. simpl in A, B, C. subst wb.
    destruct b; [split; [exact A | split; [reflexivity | exact C]]|].
    destruct (IHl s1 (fun c Hc => Hok c (in_or_app _ _ _ (or_intror Hc))) A) as [A2 [B2 C2]].
    rewrite C in B2, C2. split; [exact A2 | split; assumption].
  - unfold exact_post. rewrite addr_Choice, walk_Choice. rewrite refs_Choice in Hok. revert s Hok HP.
    induction IH as [|a es Ha _ IHl]; intros s Hok HP; [split; [exact HP | split; reflexivity]|].
    simpl. destruct (Ha s (fun c Hc => Hok c (in_or_app _ _ _ (or_introl Hc))) HP) as [A [B C]].
    destruct (addr det y a s) as [b s1]. destruct (walk K a (inh s y)) as [wb wa]. simpl in A, B, C. subst wb.
    destruct (IHl s1 (fun c Hc => Hok c (in_or_app _ _ _ (or_intror Hc))) A) as [A2 [B2 C2]].
    rewrite C in B2, C2. destruct (addr_choice det y es s1) as [b2 s2]. destruct (walk_choice K es wa) as [wb2 wa2].
    simpl in A2, B2, C2 |- *. subst wb2. split; [exact A2 | split; [reflexivity | exact C2]].
  - simpl. apply IH; assumption.
  - simpl. apply IH; assumption.
Qed.
End Exact.

(* ------------------------------------------------------------------ lists of rules resolved before a call are not touched *)
Section Frozen.
Variable g : list rule.
Definition AuxI (B : nat -> bool) (a b : st) : Prop :=
  (forall z, B z = true -> resolved a z = true) ->
  (forall z, B z = true -> resolved b z = true) /\ (forall z, B z = true -> inh b z = inh a z).
Lemma AuxI_refl B a : AuxI B a a.
Proof. intro H. split; auto. Qed.
Lemma AuxI_trans B a b c : AuxI B a b -> AuxI B b c -> AuxI B a c.
Proof.
  intros F1 F2 H. destruct (F1 H) as [R1 T1]. destruct (F2 R1) as [R2 T2].
  split; [exact R2|]. intros z Hz. rewrite (T2 z Hz). apply T1. exact Hz.
Qed.
Lemma determine_AuxI : forall f x s B, AuxI B s (determine g f x s).
Proof.
  induction f as [|f IH]; intros x s B; [intro H; split; auto|].
  rewrite determine_S. destruct (resolved s x) eqn:Hres; [apply AuxI_refl|].
  intro HB.
  assert (HxB : B x = false) by (destruct (B x) eqn:E; [rewrite (HB x E) in Hres; discriminate | reflexivity]).
  assert (Hmark : AuxI B s (mark x s)).
  { intros _. split; [|auto]. intros z Hz. simpl. unfold upd. destruct (Nat.eqb z x); [reflexivity | apply HB; exact Hz]. }
  assert (Hset : forall k a, AuxI B a (set_type x k a)) by (intros k a Ha; split; auto).
  assert (Hinh : forall c a, AuxI B a (set_inh x (inh a x ++ [c]) a)).
  { intros c a Ha. split; [exact Ha|]. intros z Hz. simpl. unfold upd.
    destruct (Nat.eqb z x) eqn:E; [apply Nat.eqb_eq in E; subst; congruence | reflexivity]. }
  revert HB. change (AuxI B s (det_body g f x (mark x s))).
  eapply AuxI_trans; [exact Hmark|]. generalize (mark x s) as s0. intro s0. unfold det_body.
  destruct (r_attrs (rule_of g x)).
  - destruct (kind_eqb (types s0 x) KCommon); [apply AuxI_refl | apply Hset].
  - destruct (r_body (rule_of g x)) as [t|e].
    + cbv zeta. apply (AuxI_trans B s0 (determine g f t s0)); [apply IH|]. generalize (determine g f t s0) as s1. intro s1.
      destruct (negb (is_match (types s1 t)) && negb (kind_eqb (types s1 x) KAbstract)); [|apply AuxI_refl].
      eapply AuxI_trans; [apply Hset|]. destruct (mem t (inh (set_type x KAbstract s1) x)); [apply AuxI_refl | apply Hinh].
    + assert (H1 := hnm_R (AuxI B) (AuxI_refl B) (AuxI_trans B) (determine g f) (fun c a => IH c a B) e s0).
      destruct (hnm (determine g f) e s0) as [b s1]. simpl in H1. eapply AuxI_trans; [exact H1|].
      destruct (b && negb (kind_eqb (types s1 x) KAbstract)); [|apply AuxI_refl].
      eapply AuxI_trans; [apply Hset|].
      apply (addr_R (AuxI B) (AuxI_refl B) (AuxI_trans B) (determine g f) (fun c a => IH c a B) x (fun _ => True)
               (fun r a _ _ _ => Hinh r a) e _ (fun _ _ => I)).
Qed.
Lemma determine_inh_frozen f x s z : resolved s z = true -> inh (determine g f x s) z = inh s z.
Proof. intro H. apply (proj2 (determine_AuxI f x s (resolved s) (fun _ Hz => Hz))). exact H. Qed.
End Frozen.


Section Rec.
Variable g : list rule.
Let n := length g.
Variable K : nat -> kind.
Hypothesis HK : forall x, kind_spec g x (K x).
Variable rank : nat -> nat.
Hypothesis Hac : acyclic_abstract g K rank.

Definition done2 (s : st) (z : nat) : Prop :=
  (K z = KCommon -> types s z = KCommon) /\
  (K z = KAbstract -> types s z = KAbstract /\ inh s z = recorded g K z).
Definition DA2 (A : nat -> bool) (s : st) : Prop := forall z, resolved s z = true -> A z = true \/ done2 s z.
Definition P1b (s : st) : Prop := forall z, resolved s z = false -> types s z = KMatch /\ inh s z = [].
Definition Pre2 (A : nat -> bool) (c0 : nat) (s : st) : Prop :=
  Inv g s /\ P1b s /\ DA2 A s /\ unres g s <= c0.

Definition KeepI (y : nat) (a b : st) : Prop :=
  resolved a y = true -> resolved b y = true /\ types b y = types a y /\ inh b y = inh a y.
Lemma KeepI_refl y a : KeepI y a a.
Proof. intro H. auto. Qed.
Lemma KeepI_trans y a b c : KeepI y a b -> KeepI y b c -> KeepI y a c.
Proof.
  intros H1 H2 Ha. destruct (H1 Ha) as [Rb [Tb Ib]]. destruct (H2 Rb) as [Rc [Tc Ic]].
  split; [exact Rc|]. split; congruence.
Qed.
Lemma KeepI_det y f c a : KeepI y a (determine g f c a).
Proof.
  intro H. destruct (Keep_det g y f c a H) as [R T]. split; [exact R|]. split; [exact T|].
  apply determine_inh_frozen. exact H.
Qed.

Lemma done2_upd_inh s y l z : z <> y -> done2 s z -> done2 (set_inh y l s) z.
Proof. intros Hz [D1 D2]. split; [exact D1|]. intro H. simpl. rewrite (upd_other _ _ _ _ Hz). apply D2. exact H. Qed.
Lemma done2_set_type s y k z : z <> y -> done2 s z -> done2 (set_type y k s) z.
Proof. intros Hz [D1 D2]. split; simpl; rewrite (upd_other _ _ _ _ Hz); assumption. Qed.

Lemma Pre2_set_inh A c0 y c a : A y = true -> resolved a y = true -> Pre2 A c0 a -> Pre2 A c0 (set_inh y (inh a y ++ [c]) a).
Proof.
  intros Ay Ry [HI [H1 [HD HU]]]. split; [intro x; apply (HI x)|]. split; [|split; [|exact HU]].
  - intros z Hz. simpl in Hz. destruct (Nat.eq_dec z y) as [->|Hne]; [congruence|].
    simpl. rewrite (upd_other _ _ _ _ Hne). apply H1. exact Hz.
  - intros z Hz. destruct (Nat.eq_dec z y) as [->|Hne]; [left; exact Ay|].
    destruct (HD z Hz) as [L|R]; [left; exact L | right; apply done2_upd_inh; assumption].
Qed.

Lemma Pre2_set_abstract A c0 y a :
  A y = true -> resolved a y = true -> Big g a (set_type y KAbstract a) -> Pre2 A c0 a -> Pre2 A c0 (set_type y KAbstract a).
Proof.
  intros Ay Ry HB [HI [H1 [HD HU]]]. split; [apply (proj2 HB HI)|]. split; [|split; [|exact HU]].
  - intros z Hz. simpl in Hz |- *. destruct (Nat.eq_dec z y) as [->|Hne]; [congruence|].
    rewrite (upd_other _ _ _ _ Hne). apply H1. exact Hz.
  - intros z Hz. destruct (Nat.eq_dec z y) as [->|Hne]; [left; exact Ay|].
    destruct (HD z Hz) as [L|R]; [left; exact L | right; apply done2_set_type; assumption].
Qed.

Lemma DA2_close A y a : DA2 (upd A y true) a -> done2 a y -> DA2 A a.
Proof.
  intros HD Hy z Hz. destruct (Nat.eq_dec z y) as [->|Hne]; [right; exact Hy|].
  destruct (HD z Hz) as [L|R]; [left; rewrite (upd_other _ _ _ _ Hne) in L; exact L | right; exact R].
Qed.

Lemma main2 : forall f y s A, unres g s < f -> Inv g s -> P1b s -> AncR g K rank A y -> DA2 A s ->
  Inv g (determine g f y s) /\ P1b (determine g f y s) /\ DA2 A (determine g f y s) /\
  resolved (determine g f y s) y = true.
Proof.
  induction f as [|f IH]; intros y s A Hu HI H1 HA HD; [lia|].
  assert (HInv' : Inv g (determine g (S f) y s)) by (apply (proj2 (determine_Big g (S f) y s) HI)).
  assert (HRes' : resolved (determine g (S f) y s) y = true) by apply determine_marks.
  split; [exact HInv'|]. cut (P1b (determine g (S f) y s) /\ DA2 A (determine g (S f) y s)); [intros [X Y]; auto|].
  clear HInv' HRes'. rewrite determine_S. destruct (resolved s y) eqn:Hres; [auto|].
  assert (HP1m : P1b (mark y s)).
  { intros z Hz. simpl in Hz |- *. apply H1. unfold upd in Hz. destruct (Nat.eqb z y); [discriminate | exact Hz]. }
  destruct (Nat.lt_ge_cases y n) as [Hlt|Hge].
  2:{ rewrite (det_body_overflow g f y _ Hge). split; [exact HP1m|].
      intros z Hz. simpl in Hz. unfold upd in Hz. destruct (Nat.eqb z y) eqn:E; [|apply HD; exact Hz].
      apply Nat.eqb_eq in E. subst z. right. split; intro C; rewrite (K_overflow g K HK y Hge) in C; discriminate. }
  set (s0 := mark y s). set (A' := upd A y true). set (c0 := unres g s0).
  assert (Hc0 : c0 < f) by (assert (M := unres_mark g y s Hlt Hres); unfold c0, s0; lia).
  assert (Ay : A' y = true) by apply upd_same.
  assert (Ry0 : resolved s0 y = true) by (simpl; apply upd_same).
  assert (Ty0 : types s0 y = KMatch) by (simpl; apply (proj1 (H1 y Hres))).
  assert (Iy0 : inh s0 y = []) by (simpl; apply (proj2 (H1 y Hres))).
  assert (HP0 : Pre2 A' c0 s0).
  { split; [intro x; apply (HI x)|]. split; [exact HP1m|]. split; [|unfold c0; lia].
    intros z Hz. destruct (Nat.eq_dec z y) as [->|Hne]; [left; exact Ay|].
    simpl in Hz. rewrite (upd_other _ _ _ _ Hne) in Hz. destruct (HD z Hz) as [L|R]; [left; unfold A'; rewrite (upd_other _ _ _ _ Hne); exact L | right; exact R]. }
  unfold det_body. destruct (r_attrs (rule_of g y)) eqn:Hat.
  - (* common *)
    assert (Ky : K y = KCommon) by (apply (K_common g K HK); exact Hat).
    assert (Fin : forall a, (a = s0 /\ types s0 y = KCommon) \/ a = set_type y KCommon s0 -> P1b a /\ DA2 A a).
    { intros a Ha. assert (Ta : types a y = KCommon) by (destruct Ha as [[-> T]| ->]; [exact T | simpl; apply upd_same]).
      assert (Ra : forall z, resolved a z = resolved s0 z) by (destruct Ha as [[-> _]| ->]; reflexivity).
      assert (Oa : forall z, z <> y -> types a z = types s0 z /\ inh a z = inh s0 z).
      { destruct Ha as [[-> _]| ->]; intros z Hz; simpl; [auto | rewrite (upd_other _ _ _ _ Hz); auto]. }
      destruct HP0 as [_ [Q1 [QD _]]]. split.
      - intros z Hz. rewrite Ra in Hz. destruct (Nat.eq_dec z y) as [->|Hne]; [congruence|].
        rewrite (proj1 (Oa z Hne)), (proj2 (Oa z Hne)). apply Q1. exact Hz.
      - apply (DA2_close A y).
        + intros z Hz. rewrite Ra in Hz. destruct (Nat.eq_dec z y) as [->|Hne]; [left; exact Ay|].
          destruct (QD z Hz) as [L|[D1 D2]]; [left; exact L|]. right. destruct (Oa z Hne) as [OT OI].
          split; [rewrite OT; exact D1 | rewrite OT, OI; exact D2].
        + split; [intros _; exact Ta | intro C; congruence]. }
    destruct (kind_eqb (types s0 y) KCommon) eqn:E; apply Fin; [left; split; [reflexivity | apply kind_eqb_eq; exact E] | right; reflexivity].
  - (* no assignments *)
    assert (Kyc : K y <> KCommon) by (intro C; apply (K_common g K HK) in C; congruence).
    assert (HAnc : forall c, In c (rule_refs g y) -> AncR g K rank A' c).
    { intros c Hc. split.
      - intros a Ha. unfold A', upd in Ha. destruct (Nat.eqb a y) eqn:E; [apply Nat.eqb_eq in E; subst; exact Hat | apply (proj1 HA); exact Ha].
      - intros Kc a Ha. assert (Ky : K y = KAbstract) by (apply (K_parent g K HK y c Hat Hc); congruence).
        assert (Rc : rank c < rank y) by (apply (Hac y c Ky Hc Kc)).
        unfold A', upd in Ha. destruct (Nat.eqb a y) eqn:E.
        + apply Nat.eqb_eq in E. subst a. auto.
        + destruct (proj2 HA Ky a Ha) as [Ka Ra]. split; [exact Ka | lia]. }
    set (P := fun a => Pre2 A' c0 a /\ resolved a y = true).
    assert (Hacc : forall c a, In c (rule_refs g y) -> P a ->
              P (determine g f c a) /\ is_match (types (determine g f c a) c) = is_match (K c) /\
              inh (determine g f c a) y = inh a y).
    { intros c a Hc [[QI [Q1 [QD QU]]] QR].
      destruct (IH c a A' ltac:(lia) QI Q1 (HAnc c Hc) QD) as [RI [R1 [RD RR]]].
      split; [|split; [|apply determine_inh_frozen; exact QR]].
      - split; [|apply (proj1 (proj1 (determine_Big g f c a))); exact QR].
        split; [exact RI|]. split; [exact R1|]. split; [exact RD|].
        assert (M := unres_mono g a _ (proj1 (determine_Big g f c a))). lia.
      - destruct (K c) eqn:Kc.
        + destruct (is_match (types (determine g f c a) c)) eqn:E; [reflexivity|]. exfalso.
          assert (Hn := proj2 (proj2 (RI c)) E). apply (K_nonmatch g K HK) in Hn. congruence.
        + destruct (RD c RR) as [L|[_ D2]].
          * destruct (proj2 (HAnc c Hc) Kc c L) as [_ Bad]. lia.
          * rewrite (proj1 (D2 Kc)). reflexivity.
        + destruct (RD c RR) as [L|[D1 _]].
          * assert (F := proj1 (HAnc c Hc) c L). apply (K_common g K HK) in Kc. congruence.
          * rewrite (D1 Kc). reflexivity. }
    assert (Hadd : forall c a, P a -> P (set_inh y (inh a y ++ [c]) a)).
    { intros c a [Q R]. split; [apply Pre2_set_inh; assumption | exact R]. }
    assert (HP0' : P s0) by (split; assumption).
    destruct (r_body (rule_of g y)) as [t|e] eqn:Hb.
    + (* alias *)
      assert (Ht : In t (rule_refs g y)) by (unfold rule_refs; rewrite Hb; simpl; auto).
      cbv zeta. destruct (Hacc t s0 Ht HP0') as [[Q Ry1] [Acc I1]]. destruct (Keep_det g y f t s0 Ry0) as [_ Ty1].
      generalize dependent (determine g f t s0). intros s1 Q Ry1 Acc I1 Ty1.
      assert (Ty1' : types s1 y = KMatch) by (rewrite Ty1; exact Ty0).
      assert (I1' : inh s1 y = []) by (rewrite I1; exact Iy0).
      rewrite Acc, Ty1'. simpl. rewrite andb_true_r.
      destruct (is_match (K t)) eqn:Kt; simpl.
      * destruct Q as [_ [Q1 [QD _]]]. split; [exact Q1|]. apply (DA2_close A y); [exact QD|].
        split; [intro C; congruence|]. intro Ky. exfalso. destruct (K_abstract_has g K HK y Ky) as [_ [c [Hc Hn]]].
        unfold rule_refs in Hc. rewrite Hb in Hc. destruct Hc as [<-|[]]. apply is_match_true in Kt. congruence.
      * assert (HB : Big g s1 (set_type y KAbstract s1)).
        { apply Big_set_abstract; [exact Hat | exact Hlt | rewrite Ty1'; discriminate|].
          exists t. split; [exact Ht | exact Acc]. }
        assert (Q2 := Pre2_set_abstract A' c0 y s1 Ay Ry1 HB Q).
        rewrite I1'. simpl.
        assert (Q3 := Pre2_set_inh A' c0 y t (set_type y KAbstract s1) Ay Ry1 Q2). simpl in Q3. rewrite I1' in Q3. simpl in Q3.
        destruct Q3 as [_ [Q1 [QD _]]]. split; [exact Q1|]. apply (DA2_close A y); [exact QD|].
        split; [intro C; congruence|]. intros _. split; [simpl; apply upd_same|].
        simpl. rewrite upd_same. unfold recorded. rewrite Hb, Kt. reflexivity.
    + (* own body *)
      assert (Hrr : forall c, In c (refs e) -> In c (rule_refs g y)) by (unfold rule_refs; rewrite Hb; auto).
      assert (Hacc' : forall c a, In c (rule_refs g y) -> P a ->
                P (determine g f c a) /\ is_match (types (determine g f c a) c) = is_match (K c) /\
                (forall c', In c' (inh a y) -> In c' (inh (determine g f c a) y))).
      { intros c a Hc Ha. destruct (Hacc c a Hc Ha) as [X [Y Z]]. split; [exact X|]. split; [exact Y|]. intros c' Hc'. rewrite Z. exact Hc'. }
      destruct (hnm_accurate K P (determine g f) (fun c => In c (rule_refs g y)) y Hacc' e s0 Hrr HP0') as [Q Hb1].
      assert (Kp := hnm_R (KeepI y) (KeepI_refl y) (KeepI_trans y) (determine g f) (fun c a => KeepI_det y f c a) e s0 Ry0).
      assert (Htrue := hnm_true (determine g f) e s0).
      destruct (hnm (determine g f) e s0) as [b s1]. simpl in Q, Hb1, Kp, Htrue. destruct Kp as [_ [Ty1 I1]].
      destruct Q as [Q Ry1].
      assert (Ty1' : types s1 y = KMatch) by (rewrite Ty1; exact Ty0).
      assert (I1' : inh s1 y = []) by (rewrite I1; exact Iy0).
      rewrite Ty1'. simpl. rewrite andb_true_r. destruct b.
      * destruct (Htrue eq_refl) as [w [Hw Hwm]].
        assert (HB : Big g s1 (set_type y KAbstract s1)).
        { apply Big_set_abstract; [exact Hat | exact Hlt | rewrite Ty1'; discriminate|]. exists w. split; [apply Hrr; exact Hw | exact Hwm]. }
        assert (Q2 : P (set_type y KAbstract s1)) by (split; [apply Pre2_set_abstract; assumption | exact Ry1]).
        assert (W := addr_exact K P (determine g f) (fun c => In c (rule_refs g y)) y Hacc Hadd e _ Hrr Q2).
        assert (Kp2 := addr_R (Keep y) (Keep_refl y) (Keep_trans y) (determine g f) (fun c a => Keep_det g y f c a) y (fun _ => True)
                         (fun r a _ _ _ => Keep_inh y y _ a) e (set_type y KAbstract s1) (fun _ _ => I) Ry1).
        destruct (addr (determine g f) y e (set_type y KAbstract s1)) as [b3 s3]. unfold exact_post in W. simpl in W, Kp2 |- *.
        destruct W as [[[_ [Q1 [QD _]]] _] [_ I3]]. destruct Kp2 as [_ Ty3]. split; [exact Q1|].
        apply (DA2_close A y); [exact QD|]. split; [intro C; congruence|]. intro Ky. split.
        -- rewrite Ty3. simpl. apply upd_same.
        -- rewrite I3, I1'. unfold recorded. rewrite Hb. reflexivity.
      * destruct Q as [_ [Q1 [QD _]]]. split; [exact Q1|]. apply (DA2_close A y); [exact QD|].
        split; [intro C; congruence|]. intro Ky. specialize (Hb1 (has_nm_of g K HK y e Hb Ky)). discriminate.
Qed.
End Rec.


Section Rec3.
Variable g : list rule.
Let n := length g.
Variable K : nat -> kind.
Hypothesis HK : forall x, kind_spec g x (K x).
Variable rank : nat -> nat.
Hypothesis Hac : acyclic_abstract g K rank.

Lemma fold_first_pass2 : forall l s, Inv g s -> P1b s -> DA2 g K (fun _ => false) s ->
  Inv g (fold_left (step g) l s) /\ P1b (fold_left (step g) l s) /\ DA2 g K (fun _ => false) (fold_left (step g) l s).
Proof.
  induction l as [|x l IH]; intros s HI H1 HD; [auto|]. simpl. unfold step at 2 4 6.
  assert (Hu : unres g s < S n) by (assert (B := cnt_bound g (fun x => negb (resolved s x))); unfold unres, n; lia).
  assert (HA : AncR g K rank (fun _ => false) x) by (split; [intros a C; discriminate | intros _ a C; discriminate]).
  destruct (main2 g K HK rank Hac (S n) x s (fun _ => false) Hu HI H1 HA HD) as [A [B [C _]]].
  apply IH; assumption.
Qed.

Lemma first_pass_done2 : forall z, done2 g K (run_pass g init) z.
Proof.
  rewrite run_pass_eq.
  destruct (fold_first_pass2 (seq 0 n) (reset init)) as [_ [_ HD]].
  - intro x. simpl. repeat split; intro H; discriminate.
  - intros z _. split; reflexivity.
  - intros z Hz. simpl in Hz. discriminate.
  - intro z. destruct (Nat.lt_ge_cases z n) as [L|G].
    + destruct (HD z) as [C|D]; [apply fold_resolved; apply in_seq; unfold n in L; lia | discriminate | exact D].
    + split; intro C; rewrite (K_overflow g K HK z G) in C; discriminate.
Qed.

Lemma types_final s : Inv g s -> (forall z, done2 g K s z) -> forall z, types s z = K z.
Proof.
  intros HI HD z. destruct (HD z) as [D1 D2]. destruct (K z) eqn:Kz.
  - destruct (types s z) eqn:E; [reflexivity | |]; exfalso;
      (assert (Hn : nonmatch g z) by (apply (proj2 (proj2 (HI z))); rewrite E; reflexivity));
      apply (K_nonmatch g K HK) in Hn; congruence.
  - apply (D2 eq_refl).
  - apply (D1 eq_refl).
Qed.

(* once every kind is final nothing is recorded any more *)
Definition NI (a b : st) : Prop :=
  (Inv g a /\ forall z, types a z = K z) ->
  (Inv g b /\ (forall z, types b z = K z) /\ forall z, inh b z = inh a z).

Lemma NI_refl a : NI a a.
Proof. intros [H1 H2]. auto. Qed.
Lemma NI_trans a b c : NI a b -> NI b c -> NI a c.
Proof.
  intros F1 F2 H. destruct (F1 H) as [I1 [T1 E1]]. destruct (F2 (conj I1 T1)) as [I2 [T2 E2]].
  split; [exact I2|]. split; [exact T2|]. intro z. rewrite E2. apply E1.
Qed.

Lemma determine_NI : forall f x s, NI s (determine g f x s).
Proof.
  induction f as [|f IH]; intros x s; [intros [H1 H2]; split; [intro z; apply (H1 z) | split; auto]|].
  rewrite determine_S. destruct (resolved s x) eqn:Hres; [apply NI_refl|].
  apply (NI_trans s (mark x s)); [intros [H1 H2]; split; [intro z; apply (H1 z) | split; auto]|].
  generalize (mark x s) as s0. intro s0. unfold det_body.
  destruct (r_attrs (rule_of g x)) eqn:Hat.
  - intros [H1 H2]. assert (E : types s0 x = KCommon) by (rewrite H2; apply (K_common g K HK); exact Hat).
    rewrite E. simpl. split; [exact H1 | split; auto].
  - assert (Stay : forall s1 w, In w (rule_refs g x) -> Inv g s1 -> (forall z, types s1 z = K z) ->
                     is_match (types s1 w) = false -> kind_eqb (types s1 x) KAbstract = true).
    { intros s1 w Hw H1 H2 Hm. apply kind_eqb_eq. rewrite H2. apply (K_parent g K HK x w Hat Hw).
      rewrite <- H2. apply is_match_false. exact Hm. }
    destruct (r_body (rule_of g x)) as [t|e] eqn:Hb.
    + cbv zeta. apply (NI_trans s0 (determine g f t s0)); [apply IH|]. generalize (determine g f t s0) as s1. intro s1.
      intros [H1 H2]. destruct (is_match (types s1 t)) eqn:Mt; simpl; [split; [exact H1 | split; auto]|].
      rewrite (Stay s1 t ltac:(unfold rule_refs; rewrite Hb; simpl; auto) H1 H2 Mt). simpl. split; [exact H1 | split; auto].
    + assert (Hn := hnm_R NI NI_refl NI_trans (determine g f) IH e s0).
      assert (Htrue := hnm_true (determine g f) e s0).
      destruct (hnm (determine g f) e s0) as [b s1]. simpl in Hn, Htrue.
      apply (NI_trans s0 s1); [exact Hn|]. intros [H1 H2]. destruct b; simpl; [|split; [exact H1 | split; auto]].
      destruct (Htrue eq_refl) as [w [Hw Hwm]].
      rewrite (Stay s1 w ltac:(unfold rule_refs; rewrite Hb; simpl; exact Hw) H1 H2 Hwm). simpl. split; [exact H1 | split; auto].
Qed.

Lemma pass_done2 a : Inv g a -> (forall z, done2 g K a z) -> Inv g (run_pass g a) /\ forall z, done2 g K (run_pass g a) z.
Proof.
  intros HI HD. assert (HT := types_final a HI HD). rewrite run_pass_eq.
  assert (F := fold_rel g NI NI_refl NI_trans (fun s x => determine_NI (S n) x s) (seq 0 n) (reset a)).
  destruct (F (conj (Inv_reset g a HI) HT)) as [I1 [T1 E1]]. split; [exact I1|].
  intro z. destruct (HD z) as [D1 D2]. split.
  - intro Kz. rewrite T1. exact Kz.
  - intro Kz. split; [rewrite T1; exact Kz|]. rewrite E1. apply (proj2 (D2 Kz)).
Qed.

Lemma loop_done2 : forall k s s', Inv g s -> loop g k s = Some s' ->
  (forall z, done2 g K (run_pass g s) z) -> forall z, done2 g K s' z.
Proof.
  induction k as [|k IH]; intros s s' HI HL HD; [discriminate|]. simpl in HL.
  destruct (oof (run_pass g s)); [discriminate|]. destruct (changed (run_pass g s)).
  - assert (HI1 : Inv g (run_pass g s)).
    { rewrite run_pass_eq. apply (proj2 (fold_Big g (seq 0 n) (reset s))). apply Inv_reset. exact HI. }
    apply (IH (run_pass g s) s' HI1 HL). apply (proj2 (pass_done2 _ HI1 HD)).
  - inversion HL. subst. exact HD.
Qed.

Theorem inh_exact s : determine_types g = Some s -> forall z, done2 g K s z.
Proof.
  intro H. unfold determine_types in H. apply (loop_done2 _ _ _ (Inv_init g) H). exact first_pass_done2.
Qed.
End Rec3.

(* ------------------------------------------------------------------ _tx_inh_by = recorded; isinstance = its closure *)
Theorem tx_inh_by_recorded (g : list rule) (rank : nat -> nat) (s : st) :
  determine_types g = Some s -> acyclic_abstract g (types s) rank ->
  forall x, types s x = KAbstract -> inh s x = recorded g (types s) x.
Proof.
  intros Hs Hac x Hx.
  assert (HK : forall x, kind_spec g x (types s x)).
  { destruct (kinds_correct g) as [s0 [E [H _]]]. rewrite Hs in E. inversion E. subst. exact H. }
  apply (proj2 (proj2 (inh_exact g (types s) HK rank Hac s Hs x) Hx)).
Qed.

Theorem isinstance_exact (g : list rule) (rank : nat -> nat) (s : st) :
  determine_types g = Some s -> acyclic_abstract g (types s) rank ->
  forall r k, isinstance (length g) (inh s) k (Some r) = Some true <-> recorded_reach g (types s) r k.
Proof.
  intros Hs Hac r k.
  assert (HR := tx_inh_by_recorded g rank s Hs Hac).
  destruct (kinds_correct g) as [s1 [E1 [_ H2]]]. rewrite Hs in E1. inversion E1. subst s1.
  assert (Iff : ireach (inh s) r k <-> recorded_reach g (types s) r k).
  { split; intro H.
    - induction H as [x | x y z Hy _ IH]; [apply rreach_refl|].
      destruct (H2 x y Hy) as [Tx _]. apply (rreach_step g (types s) x y z Tx); [rewrite <- (HR x Tx); exact Hy | exact IH].
    - induction H as [x | x y z Tx Hy _ IH]; [apply ireach_refl|].
      apply (ireach_step (inh s) x y z); [rewrite (HR x Tx); exact Hy | exact IH]. }
  destruct (isinstance_correct g) as [s0 [E H]]. rewrite Hs in E. inversion E. subst s0.
  destruct (H k r) as [b [Hb [Hiff _]]]. rewrite Hb. split.
  - intro Hq. inversion Hq. subst b. apply Iff. apply Hiff. reflexivity.
  - intro Hq. f_equal. apply Hiff. apply Iff. exact Hq.
Qed.


Theorem yields_recorded_reach (g : list rule) (rank : nat -> nat) (s : st) :
  determine_types g = Some s -> wf_inh g (types s) rank ->
  forall r k, (yields g (types s) r k -> recorded_reach g (types s) r k) /\
              (tight g (types s) -> recorded_reach g (types s) r k -> yields g (types s) r k).
Proof.
  intros Hs Hwf r k. split.
  - intro H. apply (isinstance_exact g rank s Hs (proj1 Hwf)). apply (isinstance_complete g rank s Hs Hwf). exact H.
  - intros Ht H. apply (isinstance_iff g rank s Hs Hwf Ht). apply (isinstance_exact g rank s Hs (proj1 Hwf)). exact H.
Qed.
