(* Proofs about Model/UserCls.v *)
From TxV Require Import Core.Base Model.UserCls.
Require Import Lia.

(* ------------------------------------------------------------------ install / uninstall *)
Section MethodsProofs.
  Variable rep res : list (list N).

  Lemma upd_same {A} (f : list N -> A) k v : upd f k v k = v.
  Proof. unfold upd. rewrite str_eqb_refl. reflexivity. Qed.

  Lemma upd_other {A} (f : list N -> A) k v x : x <> k -> upd f k v x = f x.
  Proof. intro H. unfold upd. apply str_eqb_neq in H. rewrite H. reflexivity. Qed.

  (* pointwise description of the installation over a duplicate-free name list *)
  Lemma install_fold_spec : forall names d sv a, NoDup names ->
    fst (fold_left install1 names (d, sv)) a = (if mem_str a names then TxFn else d a) /\
    snd (fold_left install1 names (d, sv)) a = (if mem_str a names then Some (d a) else sv a).
  Proof.
    induction names as [|n names IH]; intros d sv a Hnd; [split; reflexivity|].
    inversion Hnd as [|? ? Hnotin Hnd']; subst.
    cbn [fold_left]. unfold install1 at 2 4. cbn [fst snd].
    destruct (IH (upd d n TxFn) (upd sv n (Some (d n))) a Hnd') as [H1 H2].
    rewrite H1, H2. unfold mem_str. cbn [existsb]. fold (mem_str a names).
    destruct (str_eqb a n) eqn:E.
    - apply str_eqb_eq in E. subst a. cbn [orb].
      destruct (mem_str n names) eqn:M; [apply mem_str_In in M; contradiction|].
      rewrite !upd_same. split; reflexivity.
    - cbn [orb]. apply str_eqb_neq in E. rewrite !upd_other by exact E. split; reflexivity.
  Qed.

  Lemma uninstall_fold_spec : forall names d sv a,
    fst (fold_left uninstall1 names (d, sv)) a
      = (if mem_str a names then match sv a with Some v => v | None => d a end else d a) /\
    snd (fold_left uninstall1 names (d, sv)) a = (if mem_str a names then None else sv a).
  Proof.
    induction names as [|n names IH]; intros d sv a; [split; reflexivity|].
    cbn [fold_left]. unfold uninstall1 at 2 4. cbn [fst snd].
    unfold mem_str. cbn [existsb]. fold (mem_str a names).
    destruct (sv n) as [v|] eqn:Sn.
    - destruct (IH (upd d n v) (upd sv n None) a) as [H1 H2]. rewrite H1, H2.
      destruct (str_eqb a n) eqn:E.
      + apply str_eqb_eq in E. subst a. cbn [orb]. rewrite !upd_same, Sn.
        destruct (mem_str n names); split; reflexivity.
      + cbn [orb]. apply str_eqb_neq in E. rewrite !upd_other by exact E. split; reflexivity.
    - destruct (IH d sv a) as [H1 H2]. rewrite H1, H2.
      destruct (str_eqb a n) eqn:E.
      + apply str_eqb_eq in E. subst a. cbn [orb]. rewrite Sn.
        destruct (mem_str n names); split; reflexivity.
      + cbn [orb]. split; reflexivity.
  Qed.

  (* the class-state invariant of the method slots, relative to the original entries d0 *)
  Definition meth_inv (d0 : list N -> slot) (k : cls) : Prop :=
    (k_count k = 0 -> forall a, k_dict k a = d0 a /\ k_saved k a = None) /\
    (k_count k <> 0 -> forall a, k_dict k a = (if mem_str a rep then TxFn else d0 a) /\
                                 k_saved k a = (if mem_str a rep then Some (d0 a) else None)).

  Hypothesis rep_nodup : NoDup rep.
  Hypothesis rep_in_res : forall a, In a rep -> In a res.

  Lemma meth_inv_replace d0 k : meth_inv d0 k -> meth_inv d0 (cls_replace rep k).
  Proof.
    intros [H0 H1]. unfold cls_replace. destruct (k_count k) as [|n] eqn:C.
    - split; cbn [k_count k_dict k_saved]; [discriminate|]. intros _ a.
      unfold install. destruct (k) as [c d sv st]. cbn [k_dict k_saved] in *.
      destruct (install_fold_spec rep d sv a rep_nodup) as [E1 E2]. rewrite E1, E2.
      destruct (H0 eq_refl a) as [Hd Hs]. rewrite Hd, Hs. split; reflexivity.
    - split; cbn [k_count k_dict k_saved]; [discriminate|]. intros _. apply H1. discriminate.
  Qed.

  Lemma meth_inv_restore d0 k : meth_inv d0 k -> meth_inv d0 (cls_restore res k).
  Proof.
    intros [H0 H1]. unfold cls_restore. destruct (k_count k) as [|[|n]] eqn:C.
    - split; [intros _; apply H0; reflexivity | intro H; rewrite C in H; congruence].
    - split; cbn [k_count k_dict k_saved]; [|congruence]. intros _ a.
      unfold uninstall. destruct (uninstall_fold_spec res (k_dict k) (k_saved k) a) as [E1 E2].
      rewrite E1, E2. assert (Hne : 1 <> 0) by discriminate.
      destruct (H1 Hne a) as [Hd Hs]. rewrite Hd, Hs.
      destruct (mem_str a rep) eqn:M.
      + apply mem_str_In in M. apply rep_in_res in M. apply mem_str_In in M. rewrite M. split; reflexivity.
      + destruct (mem_str a res); split; reflexivity.
    - split; cbn [k_count k_dict k_saved]; [discriminate|]. intros _. apply H1. discriminate.
  Qed.

  Lemma count_replace k : k_count (cls_replace rep k) = S (k_count k).
  Proof. unfold cls_replace. destruct (k_count k); reflexivity. Qed.

  Lemma count_restore k : k_count (cls_restore res k) = pred (k_count k).
  Proof. unfold cls_restore. destruct (k_count k) as [|[|n]] eqn:C; cbn [k_count pred]; try reflexivity. exact C. Qed.

  Lemma store_replace k : k_store (cls_replace rep k) = k_store k.
  Proof. unfold cls_replace. destruct (k_count k); reflexivity. Qed.

  Lemma store_restore k : k_store (cls_restore res k) = k_store k.
  Proof. unfold cls_restore. destruct (k_count k) as [|[|n]]; reflexivity. Qed.

  (* a full install/uninstall round trip on an uninstrumented class *)
  Lemma replace_restore_roundtrip d0 :
    cls_same d0 (cls_restore res (cls_replace rep (cls0 d0))).
  Proof.
    assert (M0 : meth_inv d0 (cls0 d0)).
    { split; cbn [cls0 k_count k_dict k_saved]; [intros _ a; split; reflexivity | congruence]. }
    pose proof (meth_inv_restore d0 _ (meth_inv_replace d0 _ M0)) as [H0 _].
    pose proof (count_restore (cls_replace rep (cls0 d0))) as C. rewrite count_replace in C. cbn [cls0 k_count pred] in C.
    unfold cls_same. split; [|split; [|split]].
    - exact C.
    - rewrite store_restore, store_replace. reflexivity.
    - intro a. apply (H0 C a).
    - intro a. apply (H0 C a).
  Qed.
End MethodsProofs.

(* ------------------------------------------------------------------ list helpers *)
Lemma in_remove_id x y l : In x (remove_id y l) <-> In x l /\ x <> y.
Proof.
  unfold remove_id. rewrite filter_In. split; intros [H1 H2]; split; try exact H1.
  - intro E. subst. rewrite Nat.eqb_refl in H2. discriminate.
  - apply negb_true_iff. apply Nat.eqb_neq. exact H2.
Qed.

Lemma existsb_eqb_In x xs : existsb (Nat.eqb x) xs = true <-> In x xs.
Proof.
  rewrite existsb_exists. split.
  - intros [y [Hy E]]. apply Nat.eqb_eq in E. subst. exact Hy.
  - intro H. exists x. split; [exact H | apply Nat.eqb_refl].
Qed.

Lemma in_remove_ids x xs l : In x (remove_ids xs l) <-> In x l /\ ~ In x xs.
Proof.
  unfold remove_ids. rewrite filter_In. split; intros [H1 H2]; split; try exact H1.
  - intro E. apply existsb_eqb_In in E. rewrite E in H2. discriminate.
  - apply negb_true_iff. destruct (existsb (Nat.eqb x) xs) eqn:E; [|reflexivity].
    apply existsb_eqb_In in E. contradiction.
Qed.

Lemma on_last_app (g : frame -> frame) pre f : on_last g (pre ++ [f]) = pre ++ [g f].
Proof.
  induction pre as [|p pre IH]; [reflexivity|].
  cbn [app on_last]. rewrite IH. destruct (pre ++ [f]) eqn:E; [destruct pre; discriminate | reflexivity].
Qed.

Lemma last_frame_some fs f : last_frame fs = Some f -> exists pre, fs = pre ++ [f].
Proof.
  unfold last_frame. destruct fs as [|f0 fs] using rev_ind; [discriminate|].
  rewrite map_app. cbn [map]. rewrite last_last. intro H. inversion H. subst. exists fs. reflexivity.
Qed.

(* ------------------------------------------------------------------ the load machine *)
Section MachineProofs.
  Variable rep res : list (list N).
  Hypothesis rep_nodup : NoDup rep.
  Hypothesis rep_in_res : forall a, In a rep -> In a res.
  Variable d0 : list N -> slot.

  Notation step := (step rep res).
  Notation run := (run rep res).
  Notation fail_ctx := (fail_ctx res).
  Notation abort_frame := (abort_frame res).

  Definition nrep_f (fs : list frame) : nat := length (filter f_replaced fs).
  Fixpoint nrep (cs : list ctx) : nat :=
    match cs with [] => 0 | c :: cs' => nrep_f (c_frames c) + nrep cs' end.
  Definition owns (c : ctx) (x : nat) : Prop :=
    In x (phase_cur (c_phase c)) \/ In x (flat_map f_alloc (c_frames c)).
  Definition owned (cs : list ctx) (x : nat) : Prop := exists c, In c cs /\ owns c x.
  Definition frame_ok (f : frame) : Prop :=
    forall x, In x (f_alloc f) -> In x (f_ostack f) \/ In x (f_inst f).
  Definition ctx_ok (c : ctx) : Prop := Forall frame_ok (c_frames c).

  (* the invariant of every reachable state *)
  Definition inv' (k : cls) (cs : list ctx) : Prop :=
    k_count k = nrep cs /\
    (forall x, In x (k_store k) -> owned cs x) /\
    Forall ctx_ok cs /\
    meth_inv rep d0 k.
  Definition inv (s : state) : Prop := inv' (s_cls s) (s_ctxs s).

  Lemma nrep_f_app a b : nrep_f (a ++ b) = nrep_f a + nrep_f b.
  Proof. unfold nrep_f. rewrite filter_app, app_length. reflexivity. Qed.

  Lemma abort_count fs : forall k, k_count (fold_left abort_frame fs k) = k_count k - nrep_f fs.
  Proof.
    induction fs as [|f fs IH]; intro k; cbn [fold_left]; [unfold nrep_f; cbn; lia|].
    rewrite IH. unfold abort_frame, cls_discard. cbn [k_count].
    unfold nrep_f. cbn [filter]. destruct (f_replaced f); cbn [length].
    - rewrite count_restore. lia.
    - lia.
  Qed.

  Lemma abort_store fs : forall k x,
    In x (k_store (fold_left abort_frame fs k)) <-> In x (k_store k) /\ ~ In x (flat_map f_alloc fs).
  Proof.
    induction fs as [|f fs IH]; intros k x; cbn [fold_left flat_map]; [tauto|].
    rewrite IH. unfold abort_frame, cls_discard. cbn [k_store]. rewrite in_remove_ids.
    assert (E : k_store (if f_replaced f then cls_restore res k else k) = k_store k).
    { destruct (f_replaced f); [apply store_restore | reflexivity]. }
    rewrite E, in_app_iff. tauto.
  Qed.

  Lemma abort_meth fs : forall k, meth_inv rep d0 k -> meth_inv rep d0 (fold_left abort_frame fs k).
  Proof.
    induction fs as [|f fs IH]; intros k H; cbn [fold_left]; [exact H|].
    apply IH. unfold abort_frame.
    assert (H' : meth_inv rep d0 (if f_replaced f then cls_restore res k else k)).
    { destruct (f_replaced f); [apply meth_inv_restore; assumption | exact H]. }
    exact H'.
  Qed.

  Lemma owned_tail c rest x : owned (c :: rest) x -> ~ owns c x -> owned rest x.
  Proof.
    intros [c2 [[E|Hin] Ho]] Hn; [subst; contradiction | exists c2; split; assumption].
  Qed.

  Lemma owned_head_mono c c' rest x :
    (owns c x -> owns c' x) -> owned (c :: rest) x -> owned (c' :: rest) x.
  Proof.
    intros Hm [c2 [[E|Hin] Ho]].
    - subst. exists c'. split; [left; reflexivity | apply Hm; exact Ho].
    - exists c2. split; [right; exact Hin | exact Ho].
  Qed.

  (* a failing load leaves the invariant for the remaining contexts *)
  Lemma inv_fail k c rest :
    inv' k (c :: rest) ->
    inv' (cls_discard (phase_cur (c_phase c)) (fold_left abort_frame (c_frames c) k)) rest.
  Proof.
    intros [Hc [Hs [Hf Hm]]]. unfold inv'. split; [|split; [|split]].
    - unfold cls_discard. cbn [k_count]. rewrite abort_count, Hc. cbn [nrep]. lia.
    - intros x Hx. unfold cls_discard in Hx. cbn [k_store] in Hx.
      apply in_remove_ids in Hx as [Hx Hncur]. apply abort_store in Hx as [Hx Hnal].
      apply (owned_tail c); [apply Hs; exact Hx|]. intros [H|H]; contradiction.
    - inversion Hf; assumption.
    - unfold cls_discard. destruct Hm as [M0 M1].
      pose proof (abort_meth (c_frames c) k (conj M0 M1)) as [A0 A1].
      split; cbn [k_count k_dict k_saved]; assumption.
  Qed.

  Lemma inv_fail_state s c rest :
    inv' (s_cls s) (c :: rest) -> inv (fail_ctx s c rest).
  Proof. intro H. unfold inv, fail_ctx. cbn [s_cls s_ctxs]. apply inv_fail. exact H. Qed.

  (* helpers for the store-only updates *)
  Lemma meth_inv_store k st :
    meth_inv rep d0 k ->
    meth_inv rep d0 {| k_count := k_count k; k_dict := k_dict k; k_saved := k_saved k; k_store := st |}.
  Proof. intros [M0 M1]. split; cbn [k_count k_dict k_saved]; assumption. Qed.

  Lemma step_inv s o : inv s -> inv (step s o).
  Proof.
    intro Hinv. destruct o as [main glob syn_ok| | | | |ok|ok| |]; unfold step.
    - (* Begin *)
      set (n := s_next s).
      set (newc := {| c_id := n; c_global := glob; c_frames := []; c_phase := Loading; c_mids := []; c_objs := []; c_trace := [] |}).
      assert (Hctxs : inv' (s_cls s) (if main then newc :: s_ctxs s else s_ctxs s)).
      { destruct main; [|exact Hinv]. destruct Hinv as [Hc [Hs [Hf Hm]]]. split; [|split; [|split]].
        - cbn [nrep newc c_frames]. unfold nrep_f. cbn. exact Hc.
        - intros x Hx. destruct (Hs x Hx) as [c2 [Hin Ho]]. exists c2. split; [right; exact Hin | exact Ho].
        - constructor; [constructor | exact Hf].
        - exact Hm. }
      destruct (if main then newc :: s_ctxs s else s_ctxs s) as [|c rest] eqn:Ectxs; [exact Hinv|].
      destruct (c_phase c) eqn:Eph; try exact Hinv.
      destruct syn_ok.
      + destruct Hctxs as [Hc [Hs [Hf Hm]]]. unfold inv. cbn [s_cls s_ctxs].
        split; [|split; [|split]].
        * rewrite count_replace, Hc. cbn [nrep c_frames]. rewrite nrep_f_app.
          change (nrep_f [new_frame (S n)]) with 1. lia.
        * intros x Hx. rewrite store_replace in Hx. apply (owned_head_mono c); [|apply Hs; exact Hx].
          unfold owns. cbn [c_phase c_frames phase_cur]. rewrite Eph. cbn [phase_cur].
          rewrite flat_map_app. rewrite in_app_iff. tauto.
        * inversion Hf as [|? ? Hok Hrest]; subst. constructor; [|exact Hrest].
          unfold ctx_ok. cbn [c_frames]. apply Forall_app. split; [exact Hok|].
          constructor; [|constructor]. intros x Hx. cbn in Hx. contradiction.
        * apply meth_inv_replace; assumption.
      + apply inv_fail_state. cbn [s_cls]. exact Hctxs.
    - (* Alloc *)
      destruct (s_ctxs s) as [|c rest] eqn:Ectxs; [exact Hinv|].
      destruct (c_phase c) eqn:Eph; try exact Hinv.
      destruct (last_frame (c_frames c)) as [f|] eqn:Elast; [|exact Hinv].
      apply last_frame_some in Elast as [pre Epre].
      unfold inv in *. rewrite Ectxs in Hinv. destruct Hinv as [Hc [Hs [Hf Hm]]].
      cbn [s_cls s_ctxs]. rewrite Epre, on_last_app. unfold alloc_frame.
      split; [|split; [|split]].
      + cbn [cls_alloc k_count nrep c_frames]. rewrite Hc. cbn [nrep]. rewrite Epre, !nrep_f_app.
        unfold nrep_f. cbn [filter f_replaced]. destruct (f_replaced f); reflexivity.
      + intros x Hx. cbn [cls_alloc k_store] in Hx. apply in_app_iff in Hx as [Hx|[Hx|[]]].
        * apply (owned_head_mono c); [|apply Hs; exact Hx].
          unfold owns. cbn [c_phase c_frames phase_cur]. rewrite Eph, Epre. cbn [phase_cur].
          rewrite !flat_map_app. cbn [flat_map f_alloc]. rewrite !in_app_iff. tauto.
        * subst x. eexists. split; [left; reflexivity|]. right. cbn [c_frames].
          rewrite flat_map_app. cbn [flat_map f_alloc]. rewrite !in_app_iff. cbn [In]. intuition.
      + inversion Hf as [|? ? Hok Hrest]; subst. constructor; [|exact Hrest].
        unfold ctx_ok in *. cbn [c_frames]. rewrite Epre in Hok. apply Forall_app in Hok as [Hpre Hlast].
        apply Forall_app. split; [exact Hpre|]. constructor; [|constructor].
        inversion Hlast as [|? ? Hfok _]; subst. intros x Hx. cbn [f_alloc f_ostack f_inst] in *.
        apply in_app_iff in Hx as [Hx|[Hx|[]]].
        * destruct (Hfok x Hx); [left; right; assumption | right; assumption].
        * left. left. exact Hx.
      + apply meth_inv_store. exact Hm.
    - (* Complete *)
      destruct (s_ctxs s) as [|c rest] eqn:Ectxs; [exact Hinv|].
      destruct (c_phase c) eqn:Eph; try exact Hinv.
      unfold inv in *. rewrite Ectxs in Hinv. destruct Hinv as [Hc [Hs [Hf Hm]]].
      cbn [set_ctxs s_cls s_ctxs].
      destruct (c_frames c) as [|f0 pre0] eqn:Efr using rev_ind.
      + cbn [on_last]. split; [|split; [|split]].
        * rewrite Hc. cbn [nrep c_frames]. rewrite Efr. reflexivity.
        * intros x Hx. apply (owned_head_mono c); [|apply Hs; exact Hx].
          unfold owns. cbn [c_phase c_frames phase_cur]. rewrite Eph, Efr. tauto.
        * inversion Hf; subst. constructor; [constructor | assumption].
        * exact Hm.
      + clear IHpre0. rewrite on_last_app.
        set (g := complete_frame).
        assert (Hrep : f_replaced (g f0) = f_replaced f0) by (unfold g, complete_frame; destruct (f_ostack f0); reflexivity).
        assert (Hal : f_alloc (g f0) = f_alloc f0) by (unfold g, complete_frame; destruct (f_ostack f0); reflexivity).
        split; [|split; [|split]].
        * rewrite Hc. cbn [nrep c_frames]. rewrite Efr, !nrep_f_app. unfold nrep_f. cbn [filter].
          rewrite Hrep. destruct (f_replaced f0); reflexivity.
        * intros x Hx. apply (owned_head_mono c); [|apply Hs; exact Hx].
          unfold owns. cbn [c_phase c_frames phase_cur]. rewrite Eph, Efr. cbn [phase_cur].
          rewrite !flat_map_app. cbn [flat_map]. rewrite Hal. tauto.
        * inversion Hf as [|? ? Hok Hrest]; subst. constructor; [|exact Hrest].
          unfold ctx_ok in *. cbn [c_frames]. rewrite Efr in Hok. apply Forall_app in Hok as [Hpre Hlast].
          apply Forall_app. split; [exact Hpre|]. constructor; [|constructor].
          inversion Hlast as [|? ? Hfok _]; subst. unfold g, complete_frame. destruct (f_ostack f0) as [|y st] eqn:Eos; [exact Hfok|].
          intros x Hx. cbn [f_alloc f_ostack f_inst] in *. destruct (Hfok x Hx) as [H|H].
          -- rewrite Eos in H. destruct H as [H|H]; [subst; right; apply in_app_iff; right; left; reflexivity | left; exact H].
          -- right. apply in_app_iff. left. exact H.
        * exact Hm.
    - (* ResolveOk *)
      destruct (s_ctxs s) as [|c rest] eqn:Ectxs; [exact Hinv|].
      destruct (c_phase c) eqn:Eph; try exact Hinv.
      unfold inv in *. rewrite Ectxs in Hinv. destruct Hinv as [Hc [Hs [Hf Hm]]].
      cbn [s_cls s_ctxs]. split; [|split; [|split]].
      + rewrite Hc. reflexivity.
      + intros x Hx. apply (owned_head_mono c); [|apply Hs; exact Hx].
        unfold owns. cbn [c_phase c_frames phase_cur]. rewrite Eph. cbn [phase_cur]. tauto.
      + inversion Hf; subst. constructor; assumption.
      + exact Hm.
    - (* EndModel *)
      destruct (s_ctxs s) as [|c rest] eqn:Ectxs; [exact Hinv|].
      destruct (c_phase c) as [|[|? ?]|] eqn:Eph; try exact Hinv.
      destruct (c_frames c) as [|f fs] eqn:Efr; [exact Hinv|].
      destruct (f_ostack f) eqn:Eos; [|exact Hinv].
      unfold inv in *. rewrite Ectxs in Hinv. destruct Hinv as [Hc [Hs [Hf Hm]]].
      cbn [s_cls s_ctxs].
      inversion Hf as [|? ? Hok Hrest]; subst. unfold ctx_ok in Hok. rewrite Efr in Hok.
      inversion Hok as [|? ? Hfok Hfsok]; subst.
      split; [|split; [|split]].
      + cbn [nrep c_frames]. cbn [nrep] in Hc. rewrite Efr in Hc. unfold nrep_f in Hc. cbn [filter] in Hc.
        destruct (f_replaced f); cbn [length] in Hc.
        * rewrite count_restore, Hc. unfold nrep_f. lia.
        * exact Hc.
      + intros x Hx.
        assert (Hx' : In x (k_store (s_cls s))).
        { destruct (f_replaced f); [rewrite store_restore in Hx|]; exact Hx. }
        apply (owned_head_mono c); [|apply Hs; exact Hx'].
        unfold owns. cbn [c_phase c_frames phase_cur]. rewrite Eph, Efr. cbn [phase_cur flat_map].
        rewrite in_app_iff. intros [[]|[H|H]].
        * left. destruct (Hfok x H) as [H'|H']; [rewrite Eos in H'; contradiction | exact H'].
        * right. exact H.
      + constructor; [exact Hfsok | exact Hrest].
      + destruct (f_replaced f); [apply meth_inv_restore; assumption | exact Hm].
    - (* Init *)
      destruct (s_ctxs s) as [|c rest] eqn:Ectxs; [exact Hinv|].
      destruct (c_phase c) as [|[|x cur]|] eqn:Eph; try exact Hinv.
      unfold inv in Hinv. rewrite Ectxs in Hinv. destruct Hinv as [Hc [Hs [Hf Hm]]].
      set (c' := {| c_id := c_id c; c_global := c_global c; c_frames := c_frames c;
                    c_phase := Ending cur; c_mids := c_mids c; c_objs := c_objs c;
                    c_trace := KInit (c_id c) x :: c_trace c |}).
      assert (H1 : inv' (cls_pop x (s_cls s)) (c' :: rest)).
      { split; [|split; [|split]].
        - cbn [cls_pop k_count]. rewrite Hc. reflexivity.
        - intros y Hy. cbn [cls_pop k_store] in Hy. apply in_remove_id in Hy as [Hy Hne].
          apply (owned_head_mono c); [|apply Hs; exact Hy].
          unfold owns. cbn [c' c_phase c_frames phase_cur]. rewrite Eph. cbn [phase_cur].
          intros [[H|H]|H]; [congruence | left; exact H | right; exact H].
        - inversion Hf; subst. constructor; assumption.
        - apply meth_inv_store. exact Hm. }
      destruct ok; [exact H1|]. apply inv_fail_state. cbn [s_cls]. exact H1.
    - (* Proc *)
      destruct (s_ctxs s) as [|c rest] eqn:Ectxs; [exact Hinv|].
      unfold inv in Hinv. rewrite Ectxs in Hinv.
      set (c' := {| c_id := c_id c; c_global := c_global c; c_frames := c_frames c;
                    c_phase := Processing; c_mids := c_mids c; c_objs := c_objs c;
                    c_trace := KProc (c_id c) :: c_trace c |}).
      assert (H1 : (c_phase c = Ending [] \/ c_phase c = Processing) -> inv' (s_cls s) (c' :: rest)).
      { intro Hph. destruct Hinv as [Hc [Hs [Hf Hm]]]. split; [|split; [|split]].
        - rewrite Hc. reflexivity.
        - intros y Hy. apply (owned_head_mono c); [|apply Hs; exact Hy].
          unfold owns. cbn [c' c_phase c_frames phase_cur].
          destruct Hph as [E|E]; rewrite E; cbn [phase_cur]; tauto.
        - inversion Hf; subst. constructor; assumption.
        - exact Hm. }
      destruct (c_phase c) as [|[|? ?]|] eqn:Eph; try (unfold inv; rewrite Ectxs; exact Hinv).
      + destruct (c_frames c) eqn:Efr; [|unfold inv; rewrite Ectxs; exact Hinv].
        destruct ok; [apply H1; left; reflexivity|]. apply inv_fail_state. cbn [s_cls]. apply H1. left; reflexivity.
      + destruct (c_frames c) eqn:Efr; [|unfold inv; rewrite Ectxs; exact Hinv].
        destruct ok; [apply H1; right; reflexivity|]. apply inv_fail_state. cbn [s_cls]. apply H1. right; reflexivity.
    - (* Fail *)
      destruct (s_ctxs s) as [|c rest] eqn:Ectxs; [exact Hinv|].
      apply inv_fail_state. unfold inv in Hinv. rewrite Ectxs in Hinv. exact Hinv.
    - (* Finish *)
      destruct (s_ctxs s) as [|c rest] eqn:Ectxs; [exact Hinv|].
      unfold inv in Hinv. rewrite Ectxs in Hinv.
      assert (H1 : (c_phase c = Ending [] /\ c_frames c = [] \/ c_phase c = Processing /\ c_frames c = []) ->
                   inv' (s_cls s) rest).
      { intros Hph. destruct Hinv as [Hc [Hs [Hf Hm]]]. split; [|split; [|split]].
        - rewrite Hc. cbn [nrep]. destruct Hph as [[_ E]|[_ E]]; rewrite E; reflexivity.
        - intros y Hy. apply (owned_tail c); [apply Hs; exact Hy|].
          unfold owns. destruct Hph as [[E1 E2]|[E1 E2]]; rewrite E1, E2; cbn; tauto.
        - inversion Hf; assumption.
        - exact Hm. }
      destruct (c_phase c) as [|[|? ?]|] eqn:Eph; try (unfold inv; rewrite Ectxs; exact Hinv).
      + destruct (c_frames c) eqn:Efr; [|unfold inv; rewrite Ectxs; exact Hinv].
        apply H1. left. split; reflexivity.
      + destruct (c_frames c) eqn:Efr; [|unfold inv; rewrite Ectxs; exact Hinv].
        apply H1. right. split; reflexivity.
  Qed.

  Lemma run_inv ops : forall s, inv s -> inv (run s ops).
  Proof.
    induction ops as [|o ops IH]; intros s H; [exact H|]. cbn [UserCls.run fold_left].
    apply IH. apply step_inv. exact H.
  Qed.

  Lemma inv_init : inv (init d0).
  Proof.
    unfold inv, init. cbn [s_cls s_ctxs]. split; [reflexivity|]. split; [intros x []|]. split; [constructor|].
    split; cbn [cls0 k_count k_dict k_saved]; [intros _ a; split; reflexivity | congruence].
  Qed.

  (* no load in progress: the class is exactly as before *)
  Lemma inv_idle s : inv s -> s_ctxs s = [] -> cls_same d0 (s_cls s).
  Proof.
    intros [Hc [Hs [_ [M0 _]]]] E. rewrite E in *. cbn [nrep] in Hc.
    unfold cls_same. split; [exact Hc|]. split; [|split].
    - destruct (k_store (s_cls s)) as [|x st] eqn:Est; [reflexivity|].
      destruct (Hs x (or_introl eq_refl)) as [c [[] _]].
    - intro a. apply (M0 Hc a).
    - intro a. apply (M0 Hc a).
  Qed.

  Theorem restored_after_any_history ops :
    s_ctxs (run (init d0) ops) = [] -> cls_same d0 (s_cls (run (init d0) ops)).
  Proof. intro E. apply inv_idle; [apply run_inv; apply inv_init | exact E]. Qed.

  (* while loads are running the count is exactly the number of parsers that replaced and have
     not restored, and every stored object belongs to a model still under construction *)
  Theorem counted_during_any_history ops :
    let s := run (init d0) ops in
    k_count (s_cls s) = nrep (s_ctxs s) /\ (forall x, In x (k_store (s_cls s)) -> owned (s_ctxs s) x).
  Proof. intro s. destruct (run_inv ops _ inv_init) as [Hc [Hs _]]. split; assumption. Qed.
End MachineProofs.

(* ------------------------------------------------------------------ decidable side conditions *)
Fixpoint nodupb (l : list (list N)) : bool :=
  match l with [] => true | x :: l' => negb (mem_str x l') && nodupb l' end.
Definition inclb (a b : list (list N)) : bool := forallb (fun x => mem_str x b) a.

Lemma nodupb_sound l : nodupb l = true -> NoDup l.
Proof.
  induction l as [|x l IH]; intro H; [constructor|]. cbn [nodupb] in H.
  apply andb_true_iff in H as [H1 H2]. constructor; [|apply IH; exact H2].
  intro Hin. apply mem_str_In in Hin. rewrite Hin in H1. discriminate.
Qed.

Lemma inclb_sound a b : inclb a b = true -> forall x, In x a -> In x b.
Proof.
  unfold inclb. rewrite forallb_forall. intros H x Hx. apply mem_str_In. apply H. exact Hx.
Qed.

(* ------------------------------------------------------------------ __init__ arguments *)
Lemma init_kwargs_spec {V} tx_attrs (attrs : list (list N * V)) kv :
  In kv (init_kwargs tx_attrs attrs) <-> In kv attrs /\ (In (fst kv) tx_attrs \/ fst kv = parent_key).
Proof.
  unfold init_kwargs. rewrite filter_In, orb_true_iff, mem_str_In, str_eqb_eq. tauto.
Qed.

Lemma filter_all {A} (p : A -> bool) l : (forall x, In x l -> p x = true) -> filter p l = l.
Proof.
  induction l as [|x l IH]; intro H; [reflexivity|]. cbn [filter].
  rewrite (H x (or_introl eq_refl)). f_equal. apply IH. intros y Hy. apply H. right. exact Hy.
Qed.

(* what __init__ receives for an object whose storage was filled by the loader *)
Lemma init_kwargs_collected {V} tx_attrs (vals : list (list N * V)) pos pos_end parent :
  (forall kv, In kv vals -> In (fst kv) tx_attrs) ->
  ~ In tx_pos_key tx_attrs -> ~ In tx_pos_end_key tx_attrs ->
  init_kwargs tx_attrs (collected vals pos pos_end parent)
  = vals ++ match parent with Some p => [(parent_key, p)] | None => [] end.
Proof.
  intros Hvals Hp Hpe. unfold init_kwargs, collected. rewrite !filter_app. f_equal.
  - apply filter_all. intros kv Hkv. apply orb_true_iff. left. apply mem_str_In. apply Hvals. exact Hkv.
  - cbn [filter fst]. 
    assert (E1 : mem_str tx_pos_key tx_attrs = false).
    { destruct (mem_str tx_pos_key tx_attrs) eqn:E; [apply mem_str_In in E; contradiction | reflexivity]. }
    assert (E2 : mem_str tx_pos_end_key tx_attrs = false).
    { destruct (mem_str tx_pos_end_key tx_attrs) eqn:E; [apply mem_str_In in E; contradiction | reflexivity]. }
    rewrite E1, E2.
    replace (str_eqb tx_pos_key parent_key) with false by (vm_compute; reflexivity).
    replace (str_eqb tx_pos_end_key parent_key) with false by (vm_compute; reflexivity).
    cbn [orb app]. destruct parent as [p|]; [|reflexivity].
    cbn [filter fst]. rewrite str_eqb_refl, orb_true_r. reflexivity.
Qed.
