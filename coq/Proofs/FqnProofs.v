(* Proofs about the FQN scope-provider model (C10). *)
From TxV Require Import Core.Base Model.FqnDefs Gen.SrcFqn Model.Fqn.

(* ------------------------------------------------------------------ lists *)
Lemma first_some_some {A B : Type} (f : A -> option B) (l : list A) (y : B) :
  first_some f l = Some y -> exists x, In x l /\ f x = Some y.
Proof.
  induction l as [|x l IH]; cbn [first_some]; [discriminate|].
  destruct (f x) as [y0|] eqn:E.
  - intros H; inversion H; subst y0. exists x. split; [left; reflexivity | exact E].
  - intros H. destruct (IH H) as [x' [Hin Hf]]. exists x'. split; [right; exact Hin | exact Hf].
Qed.

Lemma first_some_ex {A B : Type} (f : A -> option B) (l : list A) (x : A) (y : B) :
  In x l -> f x = Some y -> exists y', first_some f l = Some y'.
Proof.
  induction l as [|x0 l IH]; cbn [first_some]; [intros []|].
  intros [Heq|Hin] Hf.
  - subst x0. rewrite Hf. exists y. reflexivity.
  - destruct (f x0) as [y0|]; [exists y0; reflexivity | exact (IH Hin Hf)].
Qed.

(* ------------------------------------------------------------------ the translated filter *)
(* These three lemmas are the only place where the shape of Gen.SrcFqn.src_walked matters. *)
Lemma src_walked_containment (a : attr) :
  wf_attr a = true -> src_walked a = true -> a_decl a = true /\ a_cont a = true.
Proof.
  unfold wf_attr, src_walked, dunder, txpre, parent_name.
  destruct (a_decl a), (a_cont a), (a_call a), (is_prefix [95; 95]%N (a_name a)),
    (is_prefix [95; 116; 120; 95]%N (a_name a)), (str_eqb (a_name a) [112; 97; 114; 101; 110; 116]%N);
    cbn; intros H1 H2; try discriminate; split; reflexivity.
Qed.

Lemma src_walked_complete (a : attr) :
  wf_attr a = true -> a_decl a = true -> a_cont a = true -> src_walked a = true.
Proof.
  unfold wf_attr, src_walked, dunder, txpre, parent_name.
  destruct (a_decl a), (a_cont a), (a_call a), (is_prefix [95; 95]%N (a_name a)),
    (is_prefix [95; 116; 120; 95]%N (a_name a)), (str_eqb (a_name a) [112; 97; 114; 101; 110; 116]%N);
    cbn; intros H1 H2 H3; try discriminate; reflexivity.
Qed.

Lemma src_walked_erase (a : attr) :
  src_walked (erase_attr a) = src_walked a /\ (src_walked a = true -> erase_attr a = a).
Proof.
  unfold erase_attr. destruct (a_decl a && negb (a_cont a))%bool eqn:E.
  - apply andb_true_iff in E as [D C]. apply negb_true_iff in C.
    unfold src_walked. cbn [a_name a_decl a_cont a_call a_val]. rewrite D, C.
    destruct (is_prefix [95; 95]%N (a_name a)), (is_prefix [95; 116; 120; 95]%N (a_name a)),
      (str_eqb (a_name a) [112; 97; 114; 101; 110; 116]%N), (a_call a); cbn;
      (split; [reflexivity | discriminate]).
  - split; [reflexivity | intros _; reflexivity].
Qed.

(* ------------------------------------------------------------------ find_obj *)
Lemma named_spec (m : list obj) (nm : list N) (c : nat) : named m nm c = true <-> name_of m c = Some nm.
Proof.
  unfold named. destruct (name_of m c) as [s|]; split; intro H.
  - apply str_eqb_eq in H. subst s. reflexivity.
  - inversion H; subst s. apply str_eqb_refl.
  - discriminate.
  - discriminate.
Qed.

Lemma attr_find_sound (m : list obj) (nm : list N) (a : attr) (c : nat) :
  attr_find m nm a = Some c -> in_val c (a_val a) /\ name_of m c = Some nm.
Proof.
  unfold attr_find, in_val. destruct (a_val a) as [|[i|]|l].
  - discriminate.
  - destruct (named m nm i) eqn:E; intro H; inversion H; subst i.
    split; [reflexivity | apply named_spec; exact E].
  - discriminate.
  - intro H. apply find_some in H as [Hin Hn]. split; [exact Hin | apply named_spec; exact Hn].
Qed.

Lemma attr_find_complete (m : list obj) (nm : list N) (a : attr) (c : nat) :
  in_val c (a_val a) -> name_of m c = Some nm -> exists c', attr_find m nm a = Some c'.
Proof.
  unfold attr_find, in_val. intros Hv Hn. apply named_spec in Hn.
  destruct (a_val a) as [|[i|]|l].
  - contradiction.
  - inversion Hv; subst i. rewrite Hn. exists c. reflexivity.
  - discriminate.
  - destruct (find (named m nm) l) as [c'|] eqn:E; [exists c'; reflexivity|].
    exfalso. pose proof (find_none _ _ E c Hv) as Hf. rewrite Hn in Hf. discriminate.
Qed.

Lemma get_lt (m : list obj) (p : nat) (o : obj) : get m p = Some o -> p < length m.
Proof. unfold get. intro H. apply nth_error_Some. rewrite H. discriminate. Qed.

Lemma wf_model_obj (m : list obj) (p : nat) : wf_model m = true -> p < length m -> wf_obj m p = true.
Proof.
  unfold wf_model. intros H Hlt. rewrite forallb_forall in H. apply H. apply in_seq. lia.
Qed.

Lemma wf_model_attrs (m : list obj) (p : nat) (o : obj) (a : attr) :
  wf_model m = true -> get m p = Some o -> In a (o_attrs o) -> wf_attr a = true.
Proof.
  intros Hwf G Hin. pose proof (wf_model_obj m p Hwf (get_lt m p o G)) as H.
  unfold wf_obj in H. rewrite G in H. apply andb_true_iff in H as [H _].
  rewrite forallb_forall in H. exact (H a Hin).
Qed.

Lemma wf_model_parent (m : list obj) (p q : nat) : wf_model m = true -> parent_of m p = Some q -> q < p.
Proof.
  intros Hwf P. assert (exists o, get m p = Some o) as [o G].
  { unfold parent_of in P. destruct (get m p) as [o|]; [exists o; reflexivity | discriminate]. }
  pose proof (wf_model_obj m p Hwf (get_lt m p o G)) as H.
  unfold wf_obj in H. rewrite G, P in H. apply andb_true_iff in H as [_ H]. apply Nat.ltb_lt. exact H.
Qed.

Lemma find_obj_sound (m : list obj) (p : nat) (nm : list N) (c : nat) :
  wf_model m = true -> find_obj src_walked m p nm = Some c -> contains m p c /\ name_of m c = Some nm.
Proof.
  intros Hwf. unfold find_obj. destruct (get m p) as [o|] eqn:G; [|discriminate].
  intro H. apply first_some_some in H as [a [Hin Hf]].
  apply filter_In in Hin as [Hin Hw].
  pose proof (wf_model_attrs m p o a Hwf G Hin) as Hwa.
  destruct (src_walked_containment a Hwa Hw) as [Hd Hc].
  destruct (attr_find_sound m nm a c Hf) as [Hv Hn].
  split; [|exact Hn]. exists o, a. repeat split; assumption.
Qed.

Lemma find_obj_complete (m : list obj) (p : nat) (nm : list N) (c : nat) :
  wf_model m = true -> contains m p c -> name_of m c = Some nm ->
  (forall c1 c2, contains m p c1 -> contains m p c2 -> name_of m c1 = Some nm -> name_of m c2 = Some nm -> c1 = c2) ->
  find_obj src_walked m p nm = Some c.
Proof.
  intros Hwf Hc Hn Hu. pose proof Hc as Hc0. destruct Hc as (o & a & G & Hin & Hd & Hcont & Hv).
  pose proof (wf_model_attrs m p o a Hwf G Hin) as Hwa.
  pose proof (src_walked_complete a Hwa Hd Hcont) as Hw.
  destruct (attr_find_complete m nm a c Hv Hn) as [c' Hf].
  assert (In a (filter src_walked (o_attrs o))) as Hin' by (apply filter_In; split; assumption).
  destruct (first_some_ex (attr_find m nm) _ a c' Hin' Hf) as [y Hy].
  assert (find_obj src_walked m p nm = Some y) as Hfo by (unfold find_obj; rewrite G; exact Hy).
  destruct (find_obj_sound m p nm y Hwf Hfo) as [Hcy Hny].
  rewrite Hfo. f_equal. exact (Hu y c Hcy Hc0 Hny Hn).
Qed.

(* ------------------------------------------------------------------ find_path and chains *)
Lemma find_path_sound (m : list obj) (parts : list (list N)) :
  wf_model m = true -> forall p t, find_path src_walked m p parts = Some t -> chain m p parts t.
Proof.
  intros Hwf. induction parts as [|nm rest IH]; intros p t; cbn [find_path].
  - intro H; inversion H; subst t. constructor.
  - destruct (find_obj src_walked m p nm) as [c|] eqn:F; [|discriminate].
    intro H. destruct (find_obj_sound m p nm c Hwf F) as [Hc Hn].
    econstructor; [exact Hc | exact Hn | exact (IH c t H)].
Qed.

Lemma unique_on_tail (m : list obj) (nm : list N) (rest : list (list N)) :
  unique_on m (nm :: rest) -> unique_on m rest.
Proof. intros H o c1 c2 n Hin. apply H. right. exact Hin. Qed.

Lemma find_path_complete (m : list obj) :
  wf_model m = true -> forall p parts t, chain m p parts t -> unique_on m parts ->
  find_path src_walked m p parts = Some t.
Proof.
  intros Hwf p parts t Hch. induction Hch as [o | o c nm rest t Hc Hn Hch IH]; intro Hu; cbn [find_path].
  - reflexivity.
  - assert (find_obj src_walked m o nm = Some c) as F.
    { apply find_obj_complete; try assumption. intros c1 c2. apply Hu. left. reflexivity. }
    rewrite F. apply IH. exact (unique_on_tail m nm rest Hu).
Qed.

Lemma find_obj_fqn_sound (conf : nat -> nat -> bool) (m : list obj) (s : nat) (parts : list (list N)) (T t : nat) :
  wf_model m = true -> find_obj_fqn src_walked conf m s parts T = Some t -> good conf m s parts T t.
Proof.
  intros Hwf. unfold find_obj_fqn, good.
  destruct (find_path src_walked m s parts) as [t0|] eqn:F; [|discriminate].
  destruct (conforms conf m t0 T) eqn:C; [|discriminate].
  intro H; inversion H; subst t0. split; [apply find_path_sound; assumption | exact C].
Qed.

Lemma find_obj_fqn_complete (conf : nat -> nat -> bool) (m : list obj) (s : nat) (parts : list (list N)) (T t : nat) :
  wf_model m = true -> unique_on m parts -> good conf m s parts T t ->
  find_obj_fqn src_walked conf m s parts T = Some t.
Proof.
  intros Hwf Hu [Hch C]. unfold find_obj_fqn.
  rewrite (find_path_complete m Hwf s parts t Hch Hu), C. reflexivity.
Qed.

Lemma find_obj_fqn_none (conf : nat -> nat -> bool) (m : list obj) (s : nat) (parts : list (list N)) (T : nat) :
  wf_model m = true -> unique_on m parts -> find_obj_fqn src_walked conf m s parts T = None ->
  forall t, ~ good conf m s parts T t.
Proof.
  intros Hwf Hu F t Hg. rewrite (find_obj_fqn_complete conf m s parts T t Hwf Hu Hg) in F. discriminate.
Qed.

(* ------------------------------------------------------------------ the outward search *)
Lemma find_referenced_eq (walked : attr -> bool) (conf : nat -> nat -> bool) (fuel : nat) (m : list obj)
      (p : nat) (parts : list (list N)) (T : nat) :
  find_referenced walked conf fuel m p parts T =
  match find_obj_fqn walked conf m p parts T with
  | Some t => Found t
  | None => match parent_of m p with
            | None => Unknown
            | Some q => match fuel with 0 => OutOfFuel | S f => find_referenced walked conf f m q parts T end
            end
  end.
Proof. destruct fuel; reflexivity. Qed.

Lemma scope_at_0 (m : list obj) (r s : nat) : scope_at m r 0 s -> s = r.
Proof. intro H. inversion H; subst. reflexivity. Qed.

Lemma scope_at_S (m : list obj) (r i s : nat) :
  scope_at m r (S i) s -> exists q, parent_of m r = Some q /\ scope_at m q i s.
Proof. intro H. inversion H; subst. exists q. split; assumption. Qed.

Section Outward.
  Variable conf : nat -> nat -> bool.
  Variable m : list obj.
  Variable parts : list (list N).
  Variable T : nat.
  Hypothesis Hwf : wf_model m = true.

  Lemma find_referenced_total : forall p fuel, p <= fuel ->
    find_referenced src_walked conf fuel m p parts T <> OutOfFuel.
  Proof.
    intro p. induction p as [p IH] using lt_wf_ind. intros fuel Hle. rewrite find_referenced_eq.
    destruct (find_obj_fqn src_walked conf m p parts T) as [t0|]; [discriminate|].
    destruct (parent_of m p) as [q|] eqn:P; [|discriminate].
    pose proof (wf_model_parent m p q Hwf P) as Hq.
    destruct fuel as [|f]; [lia|]. apply IH; lia.
  Qed.

  (* without any uniqueness assumption: whatever is found is the end of a genuine chain *)
  Lemma find_referenced_sound : forall fuel p t,
    find_referenced src_walked conf fuel m p parts T = Found t ->
    exists i s, scope_at m p i s /\ good conf m s parts T t.
  Proof.
    induction fuel as [|f IH]; intros p t; rewrite find_referenced_eq;
      destruct (find_obj_fqn src_walked conf m p parts T) as [t0|] eqn:F.
    - intro H; inversion H; subst t0. exists 0, p. split; [constructor | apply find_obj_fqn_sound; assumption].
    - destruct (parent_of m p); discriminate.
    - intro H; inversion H; subst t0. exists 0, p. split; [constructor | apply find_obj_fqn_sound; assumption].
    - destruct (parent_of m p) as [q|] eqn:P; [|discriminate].
      intro H. destruct (IH q t H) as (i & s & Hs & Hg). exists (S i), s.
      split; [econstructor; eassumption | exact Hg].
  Qed.

  Hypothesis Hu : unique_on m parts.

  Lemma find_referenced_found : forall p fuel, p <= fuel -> forall t,
    find_referenced src_walked conf fuel m p parts T = Found t <-> resolves_to conf m p parts T t.
  Proof.
    intro p. induction p as [p IH] using lt_wf_ind. intros fuel Hle t. rewrite find_referenced_eq.
    destruct (find_obj_fqn src_walked conf m p parts T) as [t0|] eqn:F.
    - pose proof (find_obj_fqn_sound conf m p parts T t0 Hwf F) as Hg0. split.
      + intro H; inversion H; subst t0. exists 0, p. split; [constructor|]. split; [exact Hg0|].
        intros j s' t' Hj. lia.
      + intros (i & s & Hs & Hg & Hmin). destruct i as [|i].
        * apply scope_at_0 in Hs. subst s.
          rewrite (find_obj_fqn_complete conf m p parts T t Hwf Hu Hg) in F. inversion F. reflexivity.
        * exfalso. apply (Hmin 0 p t0); [lia | constructor | exact Hg0].
    - pose proof (find_obj_fqn_none conf m p parts T Hwf Hu F) as Hnone.
      destruct (parent_of m p) as [q|] eqn:P.
      + pose proof (wf_model_parent m p q Hwf P) as Hq.
        destruct fuel as [|f]; [lia|].
        assert (q <= f) as Hqf by lia. pose proof (IH q Hq f Hqf t) as IHq. split.
        * intro H. apply IHq in H. destruct H as (i & s & Hs & Hg & Hmin).
          exists (S i), s. split; [econstructor; eassumption|]. split; [exact Hg|].
          intros j s' t' Hj Hs' Hg'. destruct j as [|j].
          { apply scope_at_0 in Hs'. subst s'. exact (Hnone t' Hg'). }
          { apply scope_at_S in Hs' as (q' & P' & Hs''). rewrite P in P'. inversion P'; subst q'.
            apply (Hmin j s' t'); [lia | exact Hs'' | exact Hg']. }
        * intros (i & s & Hs & Hg & Hmin). destruct i as [|i].
          { apply scope_at_0 in Hs. subst s. exfalso. exact (Hnone t Hg). }
          apply scope_at_S in Hs as (q' & P' & Hs'). rewrite P in P'. inversion P'; subst q'.
          apply IHq. exists i, s. split; [exact Hs'|]. split; [exact Hg|].
          intros j s' t' Hj Hs'' Hg'. apply (Hmin (S j) s' t'); [lia | econstructor; eassumption | exact Hg'].
      + split; [discriminate|]. intros (i & s & Hs & Hg & _). exfalso. destruct i as [|i].
        * apply scope_at_0 in Hs. subst s. exact (Hnone t Hg).
        * apply scope_at_S in Hs as (q' & P' & _). rewrite P in P'. discriminate.
  Qed.

  Lemma find_referenced_unknown : forall p fuel, p <= fuel ->
    find_referenced src_walked conf fuel m p parts T = Unknown <-> unresolvable conf m p parts T.
  Proof.
    intro p. induction p as [p IH] using lt_wf_ind. intros fuel Hle. rewrite find_referenced_eq.
    destruct (find_obj_fqn src_walked conf m p parts T) as [t0|] eqn:F.
    - pose proof (find_obj_fqn_sound conf m p parts T t0 Hwf F) as Hg0. split; [discriminate|].
      intro U. exfalso. apply (U 0 p t0); [constructor | exact Hg0].
    - pose proof (find_obj_fqn_none conf m p parts T Hwf Hu F) as Hnone.
      destruct (parent_of m p) as [q|] eqn:P.
      + pose proof (wf_model_parent m p q Hwf P) as Hq.
        destruct fuel as [|f]; [lia|].
        assert (q <= f) as Hqf by lia. pose proof (IH q Hq f Hqf) as IHq. split.
        * intro H. apply IHq in H. intros i s t Hs. destruct i as [|i].
          { apply scope_at_0 in Hs. subst s. exact (Hnone t). }
          { apply scope_at_S in Hs as (q' & P' & Hs'). rewrite P in P'. inversion P'; subst q'.
            exact (H i s t Hs'). }
        * intro U. apply IHq. intros i s t Hs. apply (U (S i) s t). econstructor; eassumption.
      + split; [|reflexivity]. intros _ i s t Hs. destruct i as [|i].
        * apply scope_at_0 in Hs. subst s. exact (Hnone t).
        * apply scope_at_S in Hs as (q' & P' & _). rewrite P in P'. discriminate.
  Qed.
End Outward.

(* ------------------------------------------------------------------ top level *)
Lemma siblings_unique_on (m : list obj) (parts : list (list N)) : siblings_unique m -> unique_on m parts.
Proof. intros H o c1 c2 nm _. apply H. Qed.

Lemma fqn_resolves_on conf (m : list obj) (r : nat) (text : list N) (T t : nat) :
  wf_model m = true -> r < length m -> unique_on m (split_dots text) ->
  (fqn_resolve conf m r text T = Found t <-> resolves_to conf m r (split_dots text) T t).
Proof.
  intros Hwf Hr Hu. unfold fqn_resolve, fqn_resolve_with. apply find_referenced_found; [assumption | assumption | lia].
Qed.

Lemma fqn_unknown_on conf (m : list obj) (r : nat) (text : list N) (T : nat) :
  wf_model m = true -> r < length m -> unique_on m (split_dots text) ->
  (fqn_resolve conf m r text T = Unknown <-> unresolvable conf m r (split_dots text) T).
Proof.
  intros Hwf Hr Hu. unfold fqn_resolve, fqn_resolve_with. apply find_referenced_unknown; [assumption | assumption | lia].
Qed.

Lemma fqn_total conf (m : list obj) (r : nat) (text : list N) (T : nat) :
  wf_model m = true -> r < length m -> fqn_resolve conf m r text T <> OutOfFuel.
Proof.
  intros Hwf Hr. unfold fqn_resolve, fqn_resolve_with. apply find_referenced_total; [assumption | lia].
Qed.

Lemma fqn_only_genuine conf (m : list obj) (r : nat) (text : list N) (T t : nat) :
  wf_model m = true -> fqn_resolve conf m r text T = Found t ->
  exists i s, scope_at m r i s /\ chain m s (split_dots text) t /\ conforms conf m t T = true.
Proof.
  intros Hwf H. unfold fqn_resolve, fqn_resolve_with in H.
  destruct (find_referenced_sound conf m (split_dots text) T Hwf _ _ _ H) as (i & s & Hs & Hch & Hc).
  exists i, s. repeat split; assumption.
Qed.

(* ------------------------------------------------------------------ references do not matter *)
Lemma get_erase (m : list obj) (i : nat) : get (erase_refs m) i = option_map erase_obj (get m i).
Proof. unfold get, erase_refs. apply nth_error_map. Qed.

Lemma name_of_erase (m : list obj) (i : nat) : name_of (erase_refs m) i = name_of m i.
Proof. unfold name_of. rewrite get_erase. destruct (get m i); reflexivity. Qed.

Lemma cls_of_erase (m : list obj) (i : nat) : cls_of (erase_refs m) i = cls_of m i.
Proof. unfold cls_of. rewrite get_erase. destruct (get m i); reflexivity. Qed.

Lemma named_erase (m : list obj) (nm : list N) (i : nat) : named (erase_refs m) nm i = named m nm i.
Proof. unfold named. rewrite name_of_erase. reflexivity. Qed.

Lemma attr_find_erase (m : list obj) (nm : list N) (a : attr) : attr_find (erase_refs m) nm a = attr_find m nm a.
Proof.
  unfold attr_find. destruct (a_val a) as [|[i|]|l]; try reflexivity.
  - rewrite named_erase. reflexivity.
  - induction l as [|x l IH]; cbn [find]; [reflexivity|]. rewrite named_erase, IH. reflexivity.
Qed.

Lemma filter_walked_erase (l : list attr) : filter src_walked (map erase_attr l) = filter src_walked l.
Proof.
  induction l as [|a l IH]; cbn [map filter]; [reflexivity|].
  destruct (src_walked_erase a) as [E1 E2]. rewrite E1.
  destruct (src_walked a) eqn:W; [rewrite (E2 eq_refl), IH; reflexivity | exact IH].
Qed.

Lemma first_some_ext {A B : Type} (f g : A -> option B) (l : list A) :
  (forall x, f x = g x) -> first_some f l = first_some g l.
Proof. intro H. induction l as [|x l IH]; cbn [first_some]; [reflexivity|]. rewrite H, IH. reflexivity. Qed.

Lemma find_obj_erase (m : list obj) (p : nat) (nm : list N) :
  find_obj src_walked (erase_refs m) p nm = find_obj src_walked m p nm.
Proof.
  unfold find_obj. rewrite get_erase. destruct (get m p) as [o|]; cbn [option_map]; [|reflexivity].
  cbn [erase_obj o_attrs]. rewrite filter_walked_erase. apply first_some_ext. intro a. apply attr_find_erase.
Qed.

Lemma find_path_erase (m : list obj) (parts : list (list N)) :
  forall p, find_path src_walked (erase_refs m) p parts = find_path src_walked m p parts.
Proof.
  induction parts as [|nm rest IH]; intro p; cbn [find_path]; [reflexivity|].
  rewrite find_obj_erase. destruct (find_obj src_walked m p nm); [apply IH | reflexivity].
Qed.

Lemma find_obj_fqn_erase conf (m : list obj) (p : nat) (parts : list (list N)) (T : nat) :
  find_obj_fqn src_walked conf (erase_refs m) p parts T = find_obj_fqn src_walked conf m p parts T.
Proof.
  unfold find_obj_fqn, conforms. rewrite find_path_erase.
  destruct (find_path src_walked m p parts); [rewrite cls_of_erase|]; reflexivity.
Qed.

Lemma find_name_map (l : list attr) :
  find (fun a => str_eqb (a_name a) parent_name) (map erase_attr l)
  = option_map erase_attr (find (fun a => str_eqb (a_name a) parent_name) l).
Proof.
  induction l as [|a l IH]; cbn [map find option_map]; [reflexivity|].
  assert (a_name (erase_attr a) = a_name a) as En.
  { unfold erase_attr. destruct (a_decl a && negb (a_cont a))%bool; reflexivity. }
  rewrite En. destruct (str_eqb (a_name a) parent_name); [reflexivity | exact IH].
Qed.

Lemma parent_of_erase (m : list obj) (p : nat) : wf_model m = true -> parent_of (erase_refs m) p = parent_of m p.
Proof.
  intro Hwf. unfold parent_of. rewrite get_erase. destruct (get m p) as [o|] eqn:G; cbn [option_map]; [|reflexivity].
  cbn [erase_obj o_attrs]. rewrite find_name_map.
  destruct (find (fun a => str_eqb (a_name a) parent_name) (o_attrs o)) as [a|] eqn:F; cbn [option_map]; [|reflexivity].
  apply find_some in F as [Hin Hn].
  pose proof (wf_model_attrs m p o a Hwf G Hin) as Hwa.
  unfold wf_attr in Hwa. unfold erase_attr. destruct (a_decl a) eqn:D; cbn [andb]; [|reflexivity].
  rewrite Hn in Hwa. cbn in Hwa. rewrite andb_false_r in Hwa. discriminate.
Qed.

Lemma find_referenced_erase conf (m : list obj) (parts : list (list N)) (T : nat) :
  wf_model m = true -> forall fuel p,
  find_referenced src_walked conf fuel (erase_refs m) p parts T = find_referenced src_walked conf fuel m p parts T.
Proof.
  intro Hwf. induction fuel as [|f IH]; intro p; rewrite !find_referenced_eq, find_obj_fqn_erase, parent_of_erase by assumption.
  - reflexivity.
  - destruct (find_obj_fqn src_walked conf m p parts T); [reflexivity|].
    destruct (parent_of m p); [apply IH | reflexivity].
Qed.

Lemma fqn_resolve_erase conf (m : list obj) (r : nat) (text : list N) (T : nat) :
  wf_model m = true -> fqn_resolve conf (erase_refs m) r text T = fqn_resolve conf m r text T.
Proof.
  intro Hwf. unfold fqn_resolve, fqn_resolve_with. unfold erase_refs at 1. rewrite map_length.
  apply find_referenced_erase. exact Hwf.
Qed.

Lemma fqn_refs_irrelevant conf (m m' : list obj) (r : nat) (text : list N) (T : nat) :
  wf_model m = true -> wf_model m' = true -> erase_refs m = erase_refs m' ->
  fqn_resolve conf m r text T = fqn_resolve conf m' r text T.
Proof.
  intros H1 H2 E. rewrite <- (fqn_resolve_erase conf m r text T H1), <- (fqn_resolve_erase conf m' r text T H2), E.
  reflexivity.
Qed.

(* ------------------------------------------------------------------ decidable sibling uniqueness *)
Lemma uniq_names_sound (m : list obj) (l : list nat) :
  uniq_names m l = true -> forall c1 c2 nm, In c1 l -> In c2 l ->
  name_of m c1 = Some nm -> name_of m c2 = Some nm -> c1 = c2.
Proof.
  induction l as [|c l IH]; cbn [uniq_names]; [intros _ c1 c2 nm []|].
  intro H. apply andb_true_iff in H as [Hh Ht]. rewrite forallb_forall in Hh.
  assert (forall x nm, In x l -> name_of m c = Some nm -> name_of m x = Some nm -> c = x) as Hhead.
  { intros x nm Hin Hc Hx. pose proof (Hh x Hin) as Hd. unfold same_name_distinct in Hd.
    rewrite Hc, Hx, str_eqb_refl in Hd. cbn in Hd. rewrite negb_involutive in Hd.
    apply Nat.eqb_eq. exact Hd. }
  intros c1 c2 nm [E1|I1] [E2|I2] N1 N2.
  - congruence.
  - subst c1. exact (Hhead c2 nm I2 N1 N2).
  - subst c2. symmetry. exact (Hhead c1 nm I1 N2 N1).
  - exact (IH Ht c1 c2 nm I1 I2 N1 N2).
Qed.

Lemma contains_children (m : list obj) (o c : nat) :
  contains m o c -> exists ob, get m o = Some ob /\ In c (children_of ob).
Proof.
  intros (ob & a & G & Hin & Hd & Hc & Hv). exists ob. split; [exact G|].
  unfold children_of. apply in_flat_map. exists a. split; [exact Hin|].
  rewrite Hd, Hc. cbn [andb]. unfold in_val in Hv. destruct (a_val a) as [|[i|]|l].
  - contradiction.
  - inversion Hv; subst i. left. reflexivity.
  - discriminate.
  - exact Hv.
Qed.

Lemma unique_b_sound (m : list obj) : unique_b m = true -> siblings_unique m.
Proof.
  unfold unique_b. intros H o c1 c2 nm H1 H2 N1 N2. rewrite forallb_forall in H.
  destruct (contains_children m o c1 H1) as (ob & G & I1).
  destruct (contains_children m o c2 H2) as (ob' & G' & I2).
  rewrite G in G'. inversion G'; subst ob'.
  refine (uniq_names_sound m (children_of ob) _ c1 c2 nm I1 I2 N1 N2).
  apply H. unfold get in G. exact (nth_error_In _ _ G).
Qed.

(* ------------------------------------------------------------------ dotted texts *)
Lemma split_nodot (p : list N) : ~ In 46%N p -> split_dots p = [p].
Proof.
  induction p as [|c p IH]; cbn [split_dots]; [reflexivity|].
  intro H. destruct (N.eqb c 46) eqn:E.
  - apply N.eqb_eq in E. exfalso. apply H. left. exact E.
  - rewrite IH; [reflexivity|]. intro Hin. apply H. right. exact Hin.
Qed.

Lemma split_app (p s : list N) : ~ In 46%N p -> split_dots (p ++ 46%N :: s) = p :: split_dots s.
Proof.
  induction p as [|c p IH]; cbn [split_dots app].
  - intros _. reflexivity.
  - intro H. destruct (N.eqb c 46) eqn:E.
    + apply N.eqb_eq in E. exfalso. apply H. left. exact E.
    + rewrite IH; [reflexivity|]. intro Hin. apply H. right. exact Hin.
Qed.

Lemma split_join (parts : list (list N)) :
  parts <> [] -> Forall (fun p => ~ In 46%N p) parts -> split_dots (join_dots parts) = parts.
Proof.
  induction parts as [|p rest IH]; [intros H; contradiction|].
  intros _ HF. inversion HF as [|x l Hp Hrest]; subst.
  destruct rest as [|p2 rest].
  - cbn [join_dots]. apply split_nodot. exact Hp.
  - change (join_dots (p :: p2 :: rest)) with (p ++ 46%N :: join_dots (p2 :: rest)).
    rewrite split_app by exact Hp. rewrite IH; [reflexivity | discriminate | exact Hrest].
Qed.

(* ------------------------------------------------------------------ the pre-repair filter is refuted *)
From TxV Require Import Model.FqnWitness.

Lemma old_filter_refuted_parent :
  wf_model w1 = true /\ siblings_unique w1 /\ 3 < length w1 /\
  fqn_resolve_with old_walked wconf w1 3 t_cpc 2 = Found 2 /\ unresolvable wconf w1 3 (split_dots t_cpc) 2.
Proof.
  split; [vm_compute; reflexivity|]. split; [apply unique_b_sound; vm_compute; reflexivity|].
  split; [vm_compute; lia|]. split; [vm_compute; reflexivity|].
  apply fqn_unknown_on; [vm_compute; reflexivity | vm_compute; lia | | vm_compute; reflexivity].
  apply siblings_unique_on. apply unique_b_sound. vm_compute. reflexivity.
Qed.

Lemma old_filter_refuted_reference :
  wf_model w2 = true /\ siblings_unique w2 /\ 4 < length w2 /\
  fqn_resolve_with old_walked wconf w2 4 t_pdc 5 = Found 2 /\ unresolvable wconf w2 4 (split_dots t_pdc) 5.
Proof.
  split; [vm_compute; reflexivity|]. split; [apply unique_b_sound; vm_compute; reflexivity|].
  split; [vm_compute; lia|]. split; [vm_compute; reflexivity|].
  apply fqn_unknown_on; [vm_compute; reflexivity | vm_compute; lia | | vm_compute; reflexivity].
  apply siblings_unique_on. apply unique_b_sound. vm_compute. reflexivity.
Qed.
