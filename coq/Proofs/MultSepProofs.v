(* C02 — separator nodes: the list-assignment handler stores exactly the element values, in order. *)
From Coq Require Import Permutation Lia.
From TxV Require Import Core.Base Model.MultBase Gen.SrcMult Model.Mult Proofs.MultProofs Proofs.MultFlowProofs.

(* re-proved against the translated fact: fails when the handler tells separators by name or by position *)
Lemma src_sep_by_node : src_sep_mode = SepByNode.
Proof. reflexivity. Qed.

Lemma by_node_values hs idx cs :
  (hs = false -> forallb (fun c => negb (c_sep c)) cs = true) ->
  child_values_from SepByNode hs idx cs = elem_values cs.
Proof.
  revert idx. induction cs as [|c cs IH]; intros idx H; [reflexivity|].
  cbn [child_values_from kept]. unfold elem_values. cbn [filter].
  assert (Hr : hs = false -> forallb (fun c => negb (c_sep c)) cs = true).
  { intro E. specialize (H E). cbn [forallb] in H. apply andb_true_iff in H. apply H. }
  rewrite (IH (S idx) Hr). unfold elem_values.
  destruct hs.
  - cbn [andb]. destruct (c_sep c); reflexivity.
  - specialize (H eq_refl). cbn [forallb] in H. apply andb_true_iff in H as [H _]. rewrite H. reflexivity.
Qed.

Theorem separators_never_stored hs cs :
  (hs = false -> forallb (fun c => negb (c_sep c)) cs = true) ->
  child_values src_sep_mode hs cs = elem_values cs.
Proof. rewrite src_sep_by_node. unfold child_values. apply by_node_values. Qed.

(* the positional skip loses values and stores separator text as soon as one separator matched the empty string
   (no node): children 1 2 , 3  of  a+=INT[/,?/]  give [1; ","] instead of [1; 2; 3] *)
Definition sep_witness : list child :=
  [Child false false (SInt 1); Child false false (SInt 2); Child true true (SStr [44%N]); Child false false (SInt 3)].

Lemma positional_skip_refuted :
  elem_values sep_witness = [SInt 1; SInt 2; SInt 3]
  /\ child_values SepByPosition true sep_witness = [SInt 1; SStr [44%N]].
Proof. split; reflexivity. Qed.

(* the test by rule name drops every value matched by a grammar rule that is itself called `sep` *)
Lemma by_name_refuted :
  elem_values [Child false true (SInt 1)] = [SInt 1] /\ child_values SepByName false [Child false true (SInt 1)] = [].
Proof. split; reflexivity. Qed.

Lemma node_ev_attr mode n : ev_attr (node_ev mode n) = n_attr n.
Proof. reflexivity. Qed.

Lemma values_of_nodes a ns :
  forallb node_wf ns = true ->
  values_of a (map (node_ev src_sep_mode) ns) = node_values a ns.
Proof.
  induction ns as [|n ns IH]; intro H; [reflexivity|].
  cbn [forallb] in H. apply andb_true_iff in H as [Hn Hns].
  cbn [map values_of node_values flat_map]. fold (values_of a (map (node_ev src_sep_mode) ns)). fold (node_values a ns).
  rewrite (IH Hns). f_equal.
  rewrite node_ev_attr. destruct (Nat.eqb a (n_attr n)); [|reflexivity].
  unfold ev_values, node_ev. cbn [ev_op ev_vals]. unfold node_wf in Hn.
  destruct (n_op n); try reflexivity.
  - apply separators_never_stored. intro E. rewrite E in Hn. exact Hn.
  - apply separators_never_stored. intro E. rewrite E in Hn. exact Hn.
Qed.

(* value flow stated on parse-tree nodes: every value matched by an element of an assignment (and nothing else, in
   particular no separator text) ends up in the attribute, once, in input order *)
Theorem values_in_order_nodes b a ns d :
  grammar_ok b = true -> forallb node_wf ns = true -> emits b (map (node_ev src_sep_mode) ns) -> truthy d = false ->
  build a (init_val (infer b a) d) (map (node_ev src_sep_mode) ns)
  = Ok (if is_list (infer b a) then AList (node_values a ns)
        else AScalar (match node_values a ns with [] => d | v :: _ => v end))
  /\ (is_list (infer b a) = false -> length (node_values a ns) <= 1).
Proof.
  intros Hg Hwf He Hd. rewrite <- (values_of_nodes a ns Hwf). apply values_in_order; assumption.
Qed.

Definition witness_nodes : list anode :=
  [ANode 0 OpPlain false [Child false false (SInt 0)];
   ANode 0 OpPlus true sep_witness].
Definition witness_body2 := BSeq [BAsg 0 OpPlain; BAsg 0 OpPlus].

Lemma nonvacuous_nodes :
  grammar_ok witness_body2 = true /\ forallb node_wf witness_nodes = true
  /\ emits witness_body2 (map (node_ev src_sep_mode) witness_nodes)
  /\ build 0 (init_val (infer witness_body2 0) (SInt 0)) (map (node_ev src_sep_mode) witness_nodes)
     = Ok (AList [SInt 0; SInt 1; SInt 2; SInt 3]).
Proof.
  split; [vm_compute; reflexivity|]. split; [reflexivity|]. split; [|vm_compute; reflexivity].
  apply emits_BSeq. cbn [emits_seq witness_nodes map].
  eexists [_], [_]. split; [reflexivity|]. split.
  - left. eexists. repeat split. exists (SInt 0). reflexivity.
  - eexists [_], []. split; [reflexivity|]. split; [|reflexivity].
    left. eexists. repeat split.
Qed.
