From TxV Require Import Core.Base Model.ScopeDefs Gen.SrcScope Model.RrelSyntax Proofs.RrelSyntaxProofs Model.Scope.

Lemma select_spec regs cls attr has_rrel : select regs cls attr has_rrel = spec regs cls attr has_rrel.
Proof.
  unfold select, spec. destruct has_rrel; [reflexivity|].
  unfold dot, star.
  cbn [andb grammar_provider_first attr_refs map mk_key flat_map find app].
  rewrite ?app_nil_r. cbn [app].
  repeat match goal with |- context [mem_str ?k regs] => destruct (mem_str k regs) eqn:? end;
    try reflexivity; congruence.
Qed.

Lemma select_grammar_first regs cls attr : select regs cls attr true = FromGrammar.
Proof. rewrite select_spec. reflexivity. Qed.

Lemma registered_string_like_grammar t e :
  RrelSyntax.parse t = Some e -> registered_provider (RString t) = grammar_provider e.
Proof. intro H. unfold registered_provider, grammar_provider. change string_registration_parsed_by_grammar_ctor with true. cbv iota. rewrite H. reflexivity. Qed.

(* with C12's round trip: a string that lexes to the tokens of a well-formed grammar expression is that expression's provider *)
Lemma registered_string_of_tokens t e :
  wf_expr e -> lex (S (length t)) t = Some (t_expr e) -> registered_provider (RString t) = grammar_provider e.
Proof.
  intros Hwf Hlex. apply registered_string_like_grammar. unfold RrelSyntax.parse. rewrite Hlex. apply parse_toks_print. exact Hwf.
Qed.

(* a whole pass: every reference gets the provider documented for its own rule and attribute, whatever was
   selected for the references before it *)
Lemma select_pass_spec : forall regs refs memo,
  select_pass regs refs memo = map (fun r => spec regs (fst (fst r)) (snd (fst r)) (snd r)) refs.
Proof.
  intros regs refs. induction refs as [|[[cls attr] rr] r IH]; intro memo; [reflexivity|].
  cbn [select_pass map fst snd]. change selection_per_reference with true. cbv iota.
  rewrite select_spec, IH. reflexivity.
Qed.

(* only the latest registration counts *)
Lemma active_keys_latest : forall history acc last, active_keys (history ++ [last]) acc = last.
Proof.
  induction history as [|sp r IH]; intros acc last; cbn [active_keys app].
  - change registration_replaces with true. reflexivity.
  - apply IH.
Qed.

Lemma select_latest_registration history last cls attr has_rrel :
  select (active_keys (history ++ [last]) []) cls attr has_rrel = spec last cls attr has_rrel.
Proof. rewrite active_keys_latest. apply select_spec. Qed.

Lemma select_pass_latest_registration history last refs :
  select_pass (active_keys (history ++ [last]) []) refs [] = map (fun r => spec last (fst (fst r)) (snd (fst r)) (snd r)) refs.
Proof. rewrite active_keys_latest. apply select_pass_spec. Qed.

(* non-vacuity: a concrete configuration where the third key wins *)
Example select_example :
  select [[42;46;42]; [65;46;42]]%N [65]%N [98]%N false = Registered [65;46;42]%N.
Proof. reflexivity. Qed.
