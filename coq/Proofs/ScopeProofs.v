From TxV Require Import Core.Base Model.ScopeDefs Gen.SrcScope Model.Scope.

Lemma select_spec regs cls attr has_rrel : select regs cls attr has_rrel = spec regs cls attr has_rrel.
Proof.
  unfold select, spec. destruct has_rrel; [reflexivity|].
  unfold dot, star.
  cbn [andb grammar_provider_first attr_refs map mk_key flat_map find app].
  rewrite ?app_nil_r. cbn [app].
  repeat match goal with |- context [mem_str ?k regs] => destruct (mem_str k regs) eqn:? end;
    try reflexivity; congruence.
Qed.

Lemma select_grammar_first regs cls attr : select regs cls attr true = FromGrammar.
Proof. rewrite select_spec. reflexivity. Qed.

Lemma registered_string_like_grammar parse t :
  registered_provider parse (RString t) = grammar_provider (parse t).
Proof. reflexivity. Qed.

(* non-vacuity: a concrete configuration where the third key wins *)
Example select_example :
  select [[42;46;42]; [65;46;42]]%N [65]%N [98]%N false = Registered [65;46;42]%N.
Proof. reflexivity. Qed.
