(* C20 / C21 at model level, second part: use_regexp_group (any setting) and the up-to-case statement for
   ignore_case keywords (the extent of the known finding icase-keyword-spelling as a theorem). *)
From TxV Require Import Core.Base Model.PegSyntax Model.Peg Model.Build Model.KwDefs Gen.SrcKw Model.Kw
     Proofs.PegCongr Proofs.PegInv Proofs.KwProofs Proofs.KwBuild Proofs.KwModel.

Lemma vbrel_term_refl lo r t : vbrel lo (BOk (VTerm r t)) (BOk (VTerm r t)).
Proof. cbn. split; [reflexivity | left; reflexivity]. Qed.

(* ---------------------------------------------------------------- C20 with use_regexp_group *)
(* group(1) of a base-type match (BOOL is the only built-in with exactly one group) is not re-cased either *)
Definition base_groups_unchanged (g : grammar) (grp : nat -> nat -> option (nat * nat)) (s s' : list N) (r : res) : Prop :=
  forall nid nd o p len gs gl, In (nid, p, len) (res_terminals r) -> is_base5 (rule_of g nid) = true ->
    get_node g nid = Some nd -> n_kind nd = KRegex o -> grp o p = Some (gs, gl) ->
    KwProofs.slice s' gs gl = KwProofs.slice s gs gl.

Theorem icase_model_structure_grp lo g cfg (O : list N -> nat -> nat -> option nat) memo fuel s s' mm grp grp' auto ug r :
  all_str_icase g = true ->
  (forall nid nd o, get_node g nid = Some nd -> kind_oid (n_kind nd) = Some o -> case_blind lo O o) ->
  case_variant lo s s' ->
  Forall2 (char_ok (ws_universe g cfg)) s s' ->
  run g cfg (O s) memo fuel s = Parsed r ->
  base_matches_unchanged g s s' r ->
  (forall o p, grp' o p = grp o p) ->          (* group spans are positions: the same for both texts *)
  base_groups_unchanged g grp s s' r ->
  run g cfg (O s') memo fuel s' = Parsed r /\
  vbrel lo (build g mm s grp auto ug r) (build g mm s' grp' auto ug r).
Proof.
  intros Hall Hblind Hcv Hws Hrun Hbase Hgrp Hbg.
  split; [rewrite (icase_invariant lo g cfg O memo fuel s s' Hall Hblind Hcv Hws); exact Hrun|].
  rewrite <- (fr_id r) at 2.
  apply (build_rel lo (fun _ b => b) g g mm s s' grp grp' auto ug).
  - reflexivity.
  - intros asg t. rewrite ft_id. reflexivity.
  - intros nid p len Hin. unfold term_ok.
    assert (Ht : trel lo (rule_of g nid) (term_text g s nid p len) (term_text g s' nid p len)).
    { unfold term_text. destruct (get_node g nid) as [nd|] eqn:En; [|left; reflexivity].
      destruct (n_kind nd); try (left; reflexivity).
      destruct (is_base5 (rule_of g nid)) eqn:Eb.
      - left. exact (Hbase nid p len Hin Eb).
      - right. split; [exact Eb|]. exact (slice_case_variant lo s s' p len Hcv). }
    split; [|exact Ht]. unfold term_value. cbv zeta.
    destruct ug; [|cbn [vbrel vrel]; split; [reflexivity | exact Ht]].
    destruct (get_node g nid) as [nd|] eqn:En; [|cbn [vbrel vrel]; split; [reflexivity | exact Ht]].
    destruct (n_kind nd) as [| | | | | | | | | |t oid|o] eqn:Ek; try (cbn [vbrel vrel]; split; [reflexivity | exact Ht]).
    destruct (info mm nid) as [a op | k cls attrs | rr [|[|n]] |]; try (cbn [vbrel vrel]; split; [reflexivity | exact Ht]).
    rewrite Hgrp. destruct (grp o p) as [[gs gl]|] eqn:Eg.
    + cbn [vbrel vrel]. split; [reflexivity|]. destruct (is_base5 (rule_of g nid)) eqn:Eb.
      * left. exact (Hbg nid nd o p len gs gl Hin Eb En Ek Eg).
      * right. split; [exact Eb|]. exact (slice_case_variant lo s s' gs gl Hcv).
    + destruct (is_base5 (rule_of g nid)); [reflexivity | exact I].
Qed.

(* ---------------------------------------------------------------- C21: any use_regexp_group, any ignore_case *)
(* the literals autokwd replaces are not rules named like a converting base type *)
Definition kw_rules_not_base (g g' : grammar) : Prop :=
  forall nid nd nd' t oid o', get_node g nid = Some nd -> get_node g' nid = Some nd' ->
    n_kind nd = KStr t oid -> n_kind nd' = KRegex o' -> is_base5 (rule_of g nid) = false.
(* the keyword regex <literal>\b has no group *)
Definition kw_no_group (mm : list ninfo) (g g' : grammar) : Prop :=
  forall nid nd nd' t oid o' rr, get_node g nid = Some nd -> get_node g' nid = Some nd' ->
    n_kind nd = KStr t oid -> n_kind nd' = KRegex o' -> info mm nid <> ITerm rr 1.
(* the group oracle of a regex terminal present in both tables answers alike (oracle ids may be renumbered) *)
Definition grp_related (g g' : grammar) (grp grp' : nat -> nat -> option (nat * nat)) : Prop :=
  forall nid nd nd' o o', get_node g nid = Some nd -> get_node g' nid = Some nd' ->
    n_kind nd = KRegex o -> n_kind nd' = KRegex o' -> forall p, grp' o' p = grp o p.

Lemma lit_prefix_map lo t : forall s, lit_prefix lo true t s = true -> map lo (firstn (length t) s) = map lo t.
Proof.
  induction t as [|x t IH]; intros [|y s] H; try discriminate; [reflexivity | reflexivity|].
  cbn [lit_prefix ceq] in H. apply andb_true_iff in H as [H1 H2]. apply N.eqb_eq in H1.
  cbn [length firstn map]. rewrite (IH s H2), H1. reflexivity.
Qed.

(* a terminal of a StrMatch that autokwd replaces spells the literal, up to case *)
Definition ci_pt (lo : N -> N) (g g' : grammar) (input : list N) (nid p len : nat) : bool :=
  match get_node g nid, get_node g' nid with
  | Some nd, Some nd' =>
    match n_kind nd, n_kind nd' with
    | KStr t _, KRegex _ => str_eqb (map lo (KwProofs.slice input p len)) (map lo t)
    | _, _ => true
    end
  | _, _ => true
  end.

Lemma ci_term_ok wordc digitc lo g g' input orc orc' :
  kw_tables_spec wordc digitc lo g g' input orc orc' ->
  forall nid nd psq s r s',
    get_node g nid = Some nd -> term_parse input orc nid (n_kind nd) psq s = Ok r s' ->
    res_okb (ci_pt lo g g' input) r = true.
Proof.
  intros [Hn _] nid nd psq s r s' En. specialize (Hn nid). rewrite En in Hn. unfold term_parse. cbv zeta.
  destruct (n_kind nd) as [| | | | | | | | | |t oid|o] eqn:Ek; try discriminate.
  - destruct (Nat.eqb (length input) (pos s)); [|unfold nm_raise; discriminate].
    intro H. injection H as <- _. cbn [res_okb tree_okb]. unfold ci_pt. rewrite En.
    destruct (get_node g' nid); [rewrite Ek|]; reflexivity.
  - intro H. cbn [res_okb]. 
    assert (Hm : (match oid with
                  | Some o => match orc o (pos s) with Some _ => true | None => false end
                  | None => is_prefix t (skipn (pos s) input)
                  end) = true /\ r = RTree (T nid (pos s) (length t) psq)).
    { destruct (match oid with Some o => _ | None => _ end); [|unfold nm_raise in H; discriminate].
      injection H as <- _. split; reflexivity. }
    destruct Hm as [Hm ->]. cbn [res_okb tree_okb]. unfold ci_pt. rewrite En.
    destruct (get_node g' nid) as [nd'|] eqn:En'; [|reflexivity]. rewrite Ek.
    destruct (n_kind nd') as [| | | | | | | | | |t' oid'|o'] eqn:Ek'; try reflexivity.
    cbn [is_match_kind] in Hn. destruct Hn as [_ Hk]. unfold kw_kind_spec in Hk.
    unfold KwProofs.slice. apply str_eqb_eq.
    destruct oid as [o|].
    + destruct Hk as [_ [_ Ho]]. rewrite Ho in Hm. unfold str_match in Hm.
      destruct (lit_prefix lo true t (skipn (pos s) input)) eqn:Ep; [|discriminate].
      apply lit_prefix_map, Ep.
    + rewrite (is_prefix_firstn _ _ Hm). reflexivity.
  - destruct (orc o (pos s)) as [len|]; [|unfold nm_raise; discriminate].
    destruct (Nat.eqb len 0); intro H; injection H as <- _; [reflexivity|].
    cbn [res_okb tree_okb]. unfold ci_pt. rewrite En. destruct (get_node g' nid); [rewrite Ek|]; reflexivity.
Qed.

Theorem autokwd_objects_rel wordc digitc lo g g' cfg orc orc' memo fuel input mm grp grp' auto ug r :
  (forall a b, lo a = lo b -> wordc a = wordc b) ->
  kw_tables_spec wordc digitc lo g g' input orc orc' ->
  no_glued_keyword wordc digitc lo g input ->
  meta_same g g' -> kw_rules_not_base g g' ->
  (ug = true -> kw_no_group mm g g' /\ grp_related g g' grp grp') ->
  run g cfg orc memo fuel input = Parsed r ->
  run g' cfg orc' memo fuel input = Parsed (fr (kw_supf g g') r) /\
  vbrel lo (build g mm input grp auto ug r) (build g' mm input grp' auto ug (fr (kw_supf g g') r)).
Proof.
  intros Hwl Hspec Hglue Hmeta Hnb Hug Hrun.
  split.
  { rewrite (autokwd_same_model wordc digitc lo g g' cfg orc orc' memo fuel input Hwl Hspec Hglue), Hrun. reflexivity. }
  apply (build_rel lo (kw_supf g g') g g' mm input input grp grp' auto ug).
  - intro nid. exact (proj1 (Hmeta nid)).
  - intros asg t. unfold is_sep_of. rewrite tree_nid_ft.
    pose proof (proj2 (Hmeta asg)) as Hs.
    destruct (get_node g' asg) as [nd'|], (get_node g asg) as [nd|]; cbn [option_map] in Hs; try discriminate;
      [injection Hs as ->; reflexivity | reflexivity].
  - intros nid p len Hin.
    pose proof (res_okb_In (ci_pt lo g g' input) r
                  (run_ok (ci_pt lo g g' input) g input orc memo (ci_term_ok wordc digitc lo g g' input orc orc' Hspec)
                          cfg fuel r Hrun) nid p len Hin) as Hpt.
    unfold term_ok, term_value, term_text. cbv zeta. rewrite (proj1 (Hmeta nid)).
    destruct Hspec as [Hn _]. specialize (Hn nid). unfold ci_pt in Hpt.
    destruct (get_node g nid) as [nd|] eqn:En, (get_node g' nid) as [nd'|] eqn:En'; try contradiction.
    2:{ destruct ug; split; first [apply vbrel_term_refl | left; reflexivity]. }
    destruct (is_match_kind (n_kind nd)) eqn:Em.
    2:{ subst nd'. destruct (n_kind nd); try discriminate Em;
          (destruct ug; split; first [apply vbrel_term_refl | left; reflexivity]). }
    destruct Hn as [_ Hk]. unfold kw_kind_spec in Hk.
    destruct (n_kind nd) as [| | | | | | | | | |t oid|o] eqn:Ek; try discriminate;
      destruct (n_kind nd') as [| | | | | | | | | |t' oid'|o'] eqn:Ek';
      try solve [contradiction | destruct oid; contradiction].
    + (* EOF *) destruct ug; split; first [apply vbrel_term_refl | left; reflexivity].
    + (* StrMatch in both *)
      assert (t' = t) by (destruct oid, oid'; try contradiction; [exact (proj1 Hk) | exact Hk]). subst t'.
      destruct ug; split; first [apply vbrel_term_refl | left; reflexivity].
    + (* replaced StrMatch *)
      apply str_eqb_eq in Hpt.
      assert (Ht : trel lo (rule_of g nid) t (Build.slice input p len)).
      { right. split; [exact (Hnb nid nd nd' t oid o' En En' Ek Ek') | exact Hpt]. }
      split; [|exact Ht].
      destruct ug; [|cbn [vbrel vrel]; split; [reflexivity | exact Ht]].
      destruct (Hug eq_refl) as [Hng _]. pose proof (Hng nid nd nd' t oid o') as Hng'.
      destruct (info mm nid) as [a op | k cls attrs | rr [|[|n]] |];
        try (cbn [vbrel vrel]; split; [reflexivity | exact Ht]).
      exfalso. exact (Hng' rr En En' Ek Ek' eq_refl).
    + (* regex in both *)
      split; [|left; reflexivity].
      destruct ug; [|apply vbrel_term_refl].
      destruct (Hug eq_refl) as [_ Hgr]. rewrite (Hgr nid nd nd' o o' En En' Ek Ek' p).
      destruct (info mm nid) as [a op | k cls attrs | rr [|[|n]] |]; try apply vbrel_term_refl.
      destruct (grp o p) as [[gs gl]|]; [apply vbrel_term_refl|].
      destruct (is_base5 (rule_of g nid)); [reflexivity | exact I].
Qed.

(* identical object graphs when the comparison is exact (identity case folding: the hypotheses then say that the
   replaced literals match exactly, i.e. tables built without ignore_case), any use_regexp_group *)
Theorem autokwd_same_objects_grp wordc digitc g g' cfg orc orc' memo fuel input mm grp grp' auto ug r :
  kw_tables_spec wordc digitc (fun c => c) g g' input orc orc' ->
  no_glued_keyword wordc digitc (fun c => c) g input ->
  meta_same g g' -> kw_rules_not_base g g' ->
  (ug = true -> kw_no_group mm g g' /\ grp_related g g' grp grp') ->
  run g cfg orc memo fuel input = Parsed r ->
  run g' cfg orc' memo fuel input = Parsed (fr (kw_supf g g') r) /\
  build g' mm input grp' auto ug (fr (kw_supf g g') r) = build g mm input grp auto ug r.
Proof.
  intros Hspec Hglue Hmeta Hnb Hug Hrun.
  destruct (autokwd_objects_rel wordc digitc (fun c => c) g g' cfg orc orc' memo fuel input mm grp grp' auto ug r
              (fun a b H => f_equal wordc H) Hspec Hglue Hmeta Hnb Hug Hrun) as [H1 H2].
  split; [exact H1 | exact (vbrel_id_eq _ _ H2)].
Qed.
