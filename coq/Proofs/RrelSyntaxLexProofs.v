(* Lexer correctness on printed token sequences: the terminals of the RREL grammar (the regexes
   translated from the source, matched by the backtracking semantics of Model/Rx.v) recover
   exactly the tokens whose texts were concatenated, provided no two adjacent tokens run
   together:   toks_ok ts = true  ->  lex_text u (render ts) = Some ts. *)
From TxV Require Import Core.Base Model.Rx Model.RrelSyntaxLib Gen.SrcRrelSyntax Model.RrelSyntax Model.RrelSyntaxText.
From TxV Require Import Proofs.RxProofs Proofs.RrelSyntaxPrintProofs.
Require Import Lia ZifyBool.

Section LexProofs.
Variable u : N -> N.
Notation E := (rrel_env u).

Lemma Hic : e_ignorecase E = false.
Proof. reflexivity. Qed.

Lemma first_none r st : ends E r st = [] -> rx_first E r st = None.
Proof. unfold rx_first. intros ->. reflexivity. Qed.

(* ---------------------------------------------------------------- character facts *)
Lemma idstart_word c : idstart u c = true -> Rx.is_word E c = true.
Proof. unfold idstart. intro H. apply andb_true_iff in H. tauto. Qed.
Lemma idstart_not_digit c : idstart u c = true -> Rx.is_digit E c = false.
Proof. unfold idstart. intro H. apply andb_true_iff in H as [_ H]. destruct (Rx.is_digit E c); [discriminate | reflexivity]. Qed.
Lemma word_neq c d : Rx.is_word E c = true -> Rx.is_word E d = false -> N.eqb c d = false.
Proof. intros H1 H2. destruct (N.eqb c d) eqn:Hcd; [|reflexivity]. apply N.eqb_eq in Hcd. subst. congruence. Qed.
Lemma word_not_ws c : Rx.is_word E c = true -> ws_char c = false.
Proof.
  intro H. unfold ws_char, g_ws. cbn [existsb].
  rewrite !(word_neq c _ H) by reflexivity. reflexivity.
Qed.
(* ASCII identifiers [A-Za-z_][A-Za-z0-9_]* are identifiers for every classification *)
Lemma alpha_word c : is_alpha c = true -> Rx.is_word E c = true.
Proof. unfold is_alpha, Rx.is_word, in_range. intro H. destruct (N.ltb c 128) eqn:Hc; lia. Qed.
Lemma alpha_not_digit c : is_alpha c = true -> Rx.is_digit E c = false.
Proof. unfold is_alpha, Rx.is_digit, in_range. intro H. destruct (N.ltb c 128) eqn:Hc; lia. Qed.
Lemma word_word c : RrelSyntax.is_word c = true -> Rx.is_word E c = true.
Proof.
  unfold RrelSyntax.is_word, is_alpha, RrelSyntax.is_digit, Rx.is_word, in_range. intro H.
  destruct (N.ltb c 128) eqn:Hc; lia.
Qed.
Definition ident_ascii (s : list N) : bool :=
  match s with c :: r => (is_alpha c && forallb RrelSyntax.is_word r)%bool | [] => false end.
Lemma ident_ascii_ident s : ident_ascii s = true -> ident u s = true.
Proof.
  destruct s as [|c r]; [discriminate|]. cbn [ident_ascii ident]. intro H. apply andb_true_iff in H as [Hc Hr].
  unfold idstart. rewrite (alpha_word c Hc), (alpha_not_digit c Hc). cbn [andb negb].
  apply forallb_forall. intros x Hx. apply word_word. rewrite forallb_forall in Hr. apply Hr. exact Hx.
Qed.

Lemma set_word c : set_mem E c [ICat false CWord] = Rx.is_word E c.
Proof. rewrite set_mem_plain by exact Hic. cbn [existsb item_match cat_match]. destruct (Rx.is_word E c); reflexivity. Qed.
Lemma set_idstart c : set_mem E c [ICat false CDigit; ICat true CWord] = (Rx.is_digit E c || negb (Rx.is_word E c))%bool.
Proof.
  rewrite set_mem_plain by exact Hic. cbn [existsb item_match cat_match].
  destruct (Rx.is_digit E c); destruct (Rx.is_word E c); reflexivity.
Qed.
Lemma set_flag c : set_mem E c [IChar 109%N; IChar 112%N] = is_flagch c.
Proof.
  rewrite set_mem_plain by exact Hic. unfold is_flagch. cbn [existsb item_match].
  destruct (N.eqb c 109); destruct (N.eqb c 112); reflexivity.
Qed.

(* ---------------------------------------------------------------- flags:  \+[mp]+: *)
Lemma first_flags pre fl rest : struth fl = true -> forallb is_flagch fl = true ->
  exists pre', rx_first E rx_rrel_flags (pre, 43%N :: fl ++ 58%N :: rest) = Some (pre', rest).
Proof.
  intros Hne Hall. destruct fl as [|c fl]; [discriminate|]. eexists. unfold rx_rrel_flags.
  eapply first_seq.
  { unfold rx_first. rewrite ends_chr by exact Hic. reflexivity. }
  eapply first_seq.
  { change ((c :: fl) ++ 58%N :: rest) with ((c :: fl) ++ 58%N :: rest).
    apply first_plus_set.
    - apply forallb_forall. intros x Hx. rewrite xorb_false_l, set_flag.
      rewrite forallb_forall in Hall. apply Hall. exact Hx.
    - cbn [stops]. rewrite xorb_false_l, set_flag. reflexivity. }
  unfold rx_first. rewrite ends_chr by exact Hic. reflexivity.
Qed.

Lemma flags_none pre c t : N.eqb c 43 = false -> rx_first E rx_rrel_flags (pre, c :: t) = None.
Proof.
  intro H. apply first_none. unfold rx_rrel_flags. apply ends_seq_nil_l.
  rewrite ends_chr by exact Hic. rewrite H. reflexivity.
Qed.

(* ---------------------------------------------------------------- rrel_id:  [^\d\W]\w*\b *)
Lemma rev_head_in (l pre : list N) : l <> [] -> exists d m, rev l ++ pre = d :: m /\ In d l.
Proof.
  intro H. destruct (rev l) as [|d m] eqn:Hr.
  - exfalso. apply H. apply (f_equal (@rev N)) in Hr. rewrite rev_involutive in Hr. exact Hr.
  - exists d, (m ++ pre). split; [reflexivity|]. apply in_rev. rewrite Hr. left. reflexivity.
Qed.

Lemma first_id pre c s rest : idstart u c = true -> forallb (Rx.is_word E) s = true ->
  stops (Rx.is_word E) rest ->
  rx_first E rx_rrel_id (pre, (c :: s) ++ rest) = Some (rev s ++ c :: pre, rest).
Proof.
  intros Hc Hs Hstop. unfold rx_rrel_id. cbn [app].
  eapply first_seq.
  { unfold rx_first. rewrite ends_set. cbn [xorb]. rewrite set_idstart, (idstart_not_digit c Hc), (idstart_word c Hc). reflexivity. }
  eapply first_seq.
  { apply first_star_set.
    - apply forallb_forall. intros x Hx. rewrite xorb_false_l, set_word.
      rewrite forallb_forall in Hs. apply Hs. exact Hx.
    - destruct rest as [|d rest']; [exact I|]. cbn [stops] in *. rewrite xorb_false_l, set_word. exact Hstop. }
  unfold rx_first. cbn [ends]. unfold word_boundary. cbn [fst snd xorb].
  assert (Hw : forall x, In x (c :: s) -> Rx.is_word E x = true).
  { intros x [<-|Hx]; [apply idstart_word; exact Hc|]. rewrite forallb_forall in Hs. apply Hs. exact Hx. }
  change (rev s ++ c :: pre) with (rev s ++ [c] ++ pre). rewrite app_assoc.
  change (rev s ++ [c]) with (rev (c :: s)).
  destruct (rev_head_in (c :: s) pre) as [d [m [Hd Hin]]]; [discriminate|]. rewrite Hd.
  rewrite (Hw d Hin).
  destruct rest as [|d' rest']; [reflexivity|]. cbn [stops] in Hstop. rewrite Hstop. reflexivity.
Qed.

Lemma id_none pre c t : Rx.is_word E c = false -> rx_first E rx_rrel_id (pre, c :: t) = None.
Proof.
  intro H. apply first_none. unfold rx_rrel_id. apply ends_seq_nil_l.
  rewrite ends_set. cbn [xorb]. rewrite set_idstart, H. cbn. rewrite orb_true_r. reflexivity.
Qed.

(* ---------------------------------------------------------------- rrel_dots:  \.+ *)
Definition is_dot (c : N) : bool := N.eqb c 46.

Lemma ends_dots st : ends E rx_rrel_dots st =
  rep_loop (step1 (fun c => chr_eq E c 46%N)) true 1 None (S (1 + length (snd st))) st.
Proof. reflexivity. Qed.

Lemma first_dots pre n rest : stops is_dot rest ->
  exists pre', rx_first E rx_rrel_dots (pre, repeat 46%N (S n) ++ rest) = Some (pre', rest).
Proof.
  intro Hstop. unfold rx_first. rewrite ends_dots. cbn [snd repeat app]. rewrite rep_loop_lo. cbn [pred_opt].
  rewrite (step1_hit (fun c => chr_eq E c 46%N)) by reflexivity.
  cbn [flat_map]. rewrite app_nil_r.
  rewrite (rep_star_step1 (fun c => chr_eq E c 46%N)).
  - destruct (prefix_states_hd (46%N :: pre) (repeat 46%N n) rest) as [tl Htl]. rewrite Htl. eexists. reflexivity.
  - apply forallb_forall. intros x Hx. apply repeat_spec in Hx. subst. reflexivity.
  - destruct rest as [|d rest']; [exact I|]. cbn [stops] in *. rewrite chr_eq_plain by exact Hic. exact Hstop.
  - cbn [length]. lia.
Qed.

Lemma dots_none pre c t : N.eqb c 46 = false -> rx_first E rx_rrel_dots (pre, c :: t) = None.
Proof.
  intro H. apply first_none. rewrite ends_dots. cbn [snd]. rewrite rep_loop_lo.
  unfold step1. cbn [snd]. rewrite chr_eq_plain by exact Hic. rewrite H. reflexivity.
Qed.

(* ---------------------------------------------------------------- string_value:  q((\q)|[^q])*q *)
Section StringRx.
Variable q : N.
Hypothesis Hq : N.eqb q 92 = false.

Definition sv_body : rx := RGroup 1 (RAlt (RGroup 2 (RSeq (RChr 92) (RChr q))) (RSet true [IChar q])).
Definition sv_rx : rx := RSeq (RChr q) (RSeq (RRep true 0 None sv_body) (RChr q)).

Lemma Hq' : N.eqb 92 q = false.
Proof. rewrite N.eqb_sym. exact Hq. Qed.

Lemma ends_sv_body pre c t :
  ends E sv_body (pre, c :: t) =
  (if N.eqb c 92 then match t with
                      | d :: t' => if N.eqb d q then [(d :: c :: pre, t')] else []
                      | [] => []
                      end else [])
  ++ (if N.eqb c q then [] else [(c :: pre, t)]).
Proof.
  unfold sv_body. rewrite ends_group, ends_alt, ends_group, ends_seq. f_equal.
  - rewrite ends_chr by exact Hic. destruct (N.eqb c 92); [|reflexivity].
    cbn [flat_map]. rewrite app_nil_r.
    destruct t as [|d t']; [reflexivity|]. rewrite ends_chr by exact Hic. reflexivity.
  - apply ends_notchr. exact Hic.
Qed.

(* the greedy walk over a writable text stops exactly at the closing quote *)
Lemma sv_star : forall n f pre rest fuel,
  length f <= n -> str_ok q f = true -> length (f ++ q :: rest) < fuel ->
  exists pre' tl, rep_loop (ends E sv_body) true 0 None fuel (pre, f ++ q :: rest) = (pre', q :: rest) :: tl.
Proof.
  induction n as [|n IH]; intros f pre rest fuel Hlen Hok Hfuel.
  - destruct f as [|c f]; [|cbn in Hlen; lia].
    destruct fuel as [|fu]; [cbn in Hfuel; lia|].
    cbn [app rep_loop is_zero_opt]. rewrite ends_sv_body. rewrite Hq, N.eqb_refl. cbn [app flat_map].
    eexists _, _. reflexivity.
  - destruct f as [|c f].
    { destruct fuel as [|fu]; [cbn in Hfuel; lia|].
      cbn [app rep_loop is_zero_opt]. rewrite ends_sv_body. rewrite Hq, N.eqb_refl. cbn [app flat_map].
      eexists _, _. reflexivity. }
    destruct fuel as [|fu]; [cbn in Hfuel; lia|].
    cbn [str_ok] in Hok. unfold c_bslash in Hok.
    destruct (N.eqb c q) eqn:Hcq; [discriminate|].
    cbn [app rep_loop is_zero_opt]. rewrite ends_sv_body. rewrite Hcq.
    cbn [length app] in Hlen, Hfuel.
    destruct (N.eqb c 92) eqn:Hc92.
    + destruct f as [|c2 f2]; [discriminate|]. cbn [app].
      destruct (N.eqb c2 q) eqn:Hc2.
      * (* backslash quote: taken as one unit *)
        cbn [length] in Hlen, Hfuel.
        destruct (IH f2 (c2 :: c :: pre) rest fu) as [pre' [tl Hr]]; [lia | exact Hok | rewrite app_length in *; cbn [length] in *; lia |].
        cbn [app flat_map snd length].
        assert (Hlt : Nat.ltb (length (f2 ++ q :: rest)) (S (S (length (f2 ++ q :: rest)))) = true) by (apply Nat.ltb_lt; lia).
        rewrite Hlt. cbn [pred_opt]. rewrite Hr. eexists _, _. reflexivity.
      * (* a backslash that is part of the text *)
        destruct (IH (c2 :: f2) (c :: pre) rest fu) as [pre' [tl Hr]]; [cbn [length] in *; lia | exact Hok | cbn [length app] in *; lia |].
        cbn [app flat_map snd length].
        assert (Hlt : Nat.ltb (length (c2 :: f2 ++ q :: rest)) (S (length (c2 :: f2 ++ q :: rest))) = true) by (apply Nat.ltb_lt; lia).
        cbn [length] in Hlt. rewrite Hlt. cbn [pred_opt]. cbn [app] in Hr. rewrite Hr. eexists _, _. reflexivity.
    + destruct (IH f (c :: pre) rest fu) as [pre' [tl Hr]]; [lia | exact Hok | lia |].
      cbn [app flat_map snd length].
      assert (Hlt : Nat.ltb (length (f ++ q :: rest)) (S (length (f ++ q :: rest))) = true) by (apply Nat.ltb_lt; lia).
      rewrite Hlt. cbn [pred_opt]. rewrite Hr. eexists _, _. reflexivity.
Qed.

Lemma first_sv pre f rest : str_ok q f = true ->
  exists pre', rx_first E sv_rx (pre, q :: f ++ q :: rest) = Some (pre', rest).
Proof.
  intro Hok. unfold sv_rx.
  destruct (sv_star (length f) f (q :: pre) rest (S (length (f ++ q :: rest)))) as [pre' [tl Hr]]; [lia | exact Hok | lia |].
  eexists. eapply first_seq.
  { unfold rx_first. rewrite ends_chr by exact Hic. rewrite N.eqb_refl. reflexivity. }
  eapply first_seq.
  { unfold rx_first. cbn [ends snd Nat.add]. rewrite Hr. reflexivity. }
  unfold rx_first. rewrite ends_chr by exact Hic. rewrite N.eqb_refl. reflexivity.
Qed.

Lemma sv_none pre c t : N.eqb c q = false -> rx_first E sv_rx (pre, c :: t) = None.
Proof.
  intro H. apply first_none. unfold sv_rx. apply ends_seq_nil_l. rewrite ends_chr by exact Hic. rewrite H. reflexivity.
Qed.
End StringRx.

Lemma sv0_shape : rx_string_value_0 = sv_rx 39.
Proof. reflexivity. Qed.
Lemma sv1_shape : rx_string_value_1 = sv_rx 34.
Proof. reflexivity. Qed.


(* ---------------------------------------------------------------- one token *)
Lemma firstn_len_app {A} (m r : list A) : firstn (length m) (m ++ r) = m.
Proof. induction m as [|x m IH]; cbn [length firstn app]; [reflexivity | f_equal; exact IH]. Qed.

Lemma take_match_app m r : take_match (m ++ r) r = m.
Proof.
  unfold take_match. rewrite app_length. replace (length m + length r - length r) with (length m) by lia.
  apply firstn_len_app.
Qed.

Lemma strip_ends_wrap a f b : strip_ends (a :: f ++ [b]) = f.
Proof. unfold strip_ends. cbn [tl]. apply removelast_last. Qed.

(* what may follow a token's text without running into it *)
Definition sep_ok (t : tok) (rest : list N) : Prop :=
  match t with
  | TId _ => stops (Rx.is_word E) rest
  | TDots _ => stops is_dot rest
  | _ => True
  end.

Lemma ws_char_cases c : ws_char c = false ->
  N.eqb c 9 = false /\ N.eqb c 10 = false /\ N.eqb c 13 = false /\ N.eqb c 32 = false.
Proof. unfold ws_char, g_ws. cbn [existsb]. intro H. lia. Qed.

Lemma first_tok_flags pre fl rest : struth fl = true -> forallb is_flagch fl = true ->
  exists pre', first_tok u pre (r_tok (TFlags fl) ++ rest) = Some (TFlags fl, (pre', rest)).
Proof.
  intros Hne Hall. cbn [r_tok]. unfold first_tok.
  destruct (first_flags pre fl rest Hne Hall) as [pre' H].
  replace ((43%N :: fl ++ [58%N]) ++ rest) with (43%N :: fl ++ 58%N :: rest)
    by (cbn [app]; rewrite <- app_assoc; reflexivity).
  rewrite H. cbn [snd]. exists pre'. f_equal. f_equal. f_equal.
  replace (43%N :: fl ++ 58%N :: rest) with ((43%N :: fl ++ [58%N]) ++ rest)
    by (cbn [app]; rewrite <- app_assoc; reflexivity).
  rewrite take_match_app. apply strip_ends_wrap.
Qed.

Lemma first_tok_id pre s rest : ident u s = true -> stops (Rx.is_word E) rest ->
  exists pre', first_tok u pre (r_tok (TId s) ++ rest) = Some (TId s, (pre', rest)).
Proof.
  intros Hid Hstop. cbn [r_tok]. destruct s as [|c s]; [discriminate|].
  cbn [ident] in Hid. apply andb_true_iff in Hid as [Hc Hs].
  unfold first_tok. cbn [app].
  rewrite flags_none by (apply word_neq; [apply idstart_word; exact Hc | reflexivity]).
  pose proof (first_id pre c s rest Hc Hs Hstop) as H. cbn [app] in H. rewrite H. cbn [snd].
  eexists. f_equal. f_equal. f_equal.
  change (c :: s ++ rest) with ((c :: s) ++ rest). apply take_match_app.
Qed.

Lemma first_tok_dots pre n rest : Nat.eqb n 0 = false -> stops is_dot rest ->
  exists pre', first_tok u pre (r_tok (TDots n) ++ rest) = Some (TDots n, (pre', rest)).
Proof.
  intros Hn Hstop. destruct n as [|n]; [discriminate|]. cbn [r_tok].
  destruct (first_dots pre n rest Hstop) as [pre' H].
  unfold first_tok. cbn [repeat app] in *.
  rewrite flags_none by reflexivity. rewrite id_none by reflexivity. rewrite H. cbn [snd].
  exists pre'. f_equal. f_equal. f_equal.
  change (46%N :: repeat 46%N n ++ rest) with (repeat 46%N (S n) ++ rest).
  rewrite take_match_app. apply repeat_length.
Qed.

Lemma first_tok_str pre f q rest : (N.eqb q c_squote || N.eqb q c_dquote)%bool = true -> str_ok q f = true ->
  exists pre', first_tok u pre (r_tok (TStr f q) ++ rest) = Some (TStr f q, (pre', rest)).
Proof.
  intros Hq Hok. cbn [r_tok].
  assert (Happ : (q :: f ++ [q]) ++ rest = q :: f ++ q :: rest) by (cbn [app]; rewrite <- app_assoc; reflexivity).
  unfold c_squote, c_dquote in Hq. apply orb_true_iff in Hq as [Hq|Hq]; apply N.eqb_eq in Hq; subst q.
  - destruct (first_sv 39%N eq_refl pre f rest Hok) as [pre' H].
    unfold first_tok. rewrite Happ.
    rewrite flags_none by reflexivity. rewrite id_none by reflexivity. rewrite dots_none by reflexivity.
    rewrite sv0_shape, H. cbn [snd]. exists pre'. rewrite <- Happ, take_match_app, strip_ends_wrap. reflexivity.
  - destruct (first_sv 34%N eq_refl pre f rest Hok) as [pre' H].
    unfold first_tok. rewrite Happ.
    rewrite flags_none by reflexivity. rewrite id_none by reflexivity. rewrite dots_none by reflexivity.
    rewrite sv0_shape, sv_none by reflexivity.
    rewrite sv1_shape, H. cbn [snd]. exists pre'. rewrite <- Happ, take_match_app, strip_ends_wrap. reflexivity.
Qed.

Lemma first_tok_punct pre c t rest : punct c = Some t -> Rx.is_word E c = false ->
  N.eqb c 43 = false -> N.eqb c 46 = false -> N.eqb c 39 = false -> N.eqb c 34 = false ->
  first_tok u pre (c :: rest) = Some (t, (c :: pre, rest)).
Proof.
  intros Hp Hw H43 H46 H39 H34. unfold first_tok.
  rewrite flags_none by exact H43. rewrite id_none by exact Hw. rewrite dots_none by exact H46.
  rewrite sv0_shape, sv_none by exact H39. rewrite sv1_shape, sv_none by exact H34.
  rewrite Hp. reflexivity.
Qed.

Lemma first_tok_ok pre t rest : tok_ok u t = true -> sep_ok t rest ->
  exists pre', first_tok u pre (r_tok t ++ rest) = Some (t, (pre', rest)).
Proof.
  intros Hok Hsep. destruct t as [s | f q | n | | | | | | | fl]; cbn [tok_ok sep_ok] in *.
  - apply first_tok_id; assumption.
  - apply andb_true_iff in Hok as [Hq Hf]. apply first_tok_str; assumption.
  - apply first_tok_dots; [|assumption]. unfold nonzero in Hok. destruct (Nat.eqb n 0); [discriminate | reflexivity].
  - eexists. apply first_tok_punct; reflexivity.
  - eexists. apply first_tok_punct; reflexivity.
  - eexists. apply first_tok_punct; reflexivity.
  - eexists. apply first_tok_punct; reflexivity.
  - eexists. apply first_tok_punct; reflexivity.
  - eexists. apply first_tok_punct; reflexivity.
  - apply andb_true_iff in Hok as [Hne Hall]. apply first_tok_flags; assumption.
Qed.

(* the first character of a token's text *)
Lemma r_tok_head t : tok_ok u t = true ->
  exists c m, r_tok t = c :: m /\ ws_char c = false /\
              (cls t <> 1 -> Rx.is_word E c = false) /\ (cls t <> 2 -> is_dot c = false).
Proof.
  intro Hok. destruct t as [s | f q | n | | | | | | | fl]; cbn [tok_ok r_tok cls] in *;
    try (eexists _, _; split; [reflexivity|]; split; [reflexivity|]; split; intros _; reflexivity).
  - destruct s as [|c s]; [discriminate|]. cbn [ident] in Hok. apply andb_true_iff in Hok as [Hc _].
    exists c, s. split; [reflexivity|]. split; [apply word_not_ws, idstart_word; exact Hc|].
    split; [intro H; exfalso; apply H; reflexivity|]. intros _. apply word_neq; [apply idstart_word; exact Hc | reflexivity].
  - apply andb_true_iff in Hok as [Hq _]. unfold c_squote, c_dquote in Hq.
    apply orb_true_iff in Hq as [Hq|Hq]; apply N.eqb_eq in Hq; subst q;
      (eexists _, _; split; [reflexivity|]; split; [reflexivity|]; split; intros _; reflexivity).
  - destruct n as [|n]; [discriminate|]. cbn [repeat].
    eexists _, _. split; [reflexivity|]. split; [reflexivity|]. split; [intros _; reflexivity|].
    intro H. exfalso. apply H. reflexivity.
Qed.

Lemma r_tok_len t : tok_ok u t = true -> 1 <= length (r_tok t).
Proof. intro H. destruct (r_tok_head t H) as [c [m [-> _]]]. cbn [length]. lia. Qed.

Lemma sep_of_clash t t2 x : tok_ok u t2 = true -> clash (cls t) (cls t2) = false -> sep_ok t (r_tok t2 ++ x).
Proof.
  intros Hok Hcl. destruct (r_tok_head t2 Hok) as [c [m [-> [_ [Hw Hd]]]]]. cbn [app].
  destruct t; cbn [sep_ok cls stops] in *; try exact I.
  - apply Hw. intro H1. rewrite H1 in Hcl. discriminate.
  - apply Hd. intro H2. rewrite H2 in Hcl. discriminate.
Qed.

(* ---------------------------------------------------------------- a token sequence *)
Lemma lex_render : forall ts p fuel pre,
  forallb (tok_ok u) ts = true -> adj_from p ts = true -> length (render ts) < fuel ->
  lex_rx u fuel pre (render ts) = Some ts.
Proof.
  induction ts as [|t r IH]; intros p fuel pre Hall Hadj Hfuel.
  - destruct fuel as [|f]; [cbn in Hfuel; lia|]. reflexivity.
  - cbn [forallb] in Hall. apply andb_true_iff in Hall as [Ht Hr].
    cbn [adj_from] in Hadj. apply andb_true_iff in Hadj as [_ Hadj].
    rewrite render_cons in *. rewrite app_length in Hfuel. pose proof (r_tok_len t Ht) as Hlen.
    destruct fuel as [|f]; [lia|].
    assert (Hsep : sep_ok t (render r)).
    { destruct r as [|t2 r']; [destruct t; exact I|].
      cbn [forallb] in Hr. apply andb_true_iff in Hr as [Ht2 _].
      cbn [adj_from] in Hadj. apply andb_true_iff in Hadj as [Hcl _].
      rewrite render_cons. apply sep_of_clash; [exact Ht2|]. destruct (clash (cls t) (cls t2)); [discriminate | reflexivity]. }
    destruct (first_tok_ok pre t (render r) Ht Hsep) as [pre' Hft].
    destruct (r_tok_head t Ht) as [c [m [Hrt [Hws _]]]].
    rewrite Hrt in *. cbn [app lex_rx]. rewrite Hws. cbn [app] in Hft. rewrite Hft.
    rewrite (IH (cls t) f pre' Hr Hadj) by lia. reflexivity.
Qed.

Theorem lex_text_render ts : toks_ok u ts = true -> lex_text u (render ts) = Some ts.
Proof.
  unfold toks_ok, lex_text. intro H. apply andb_true_iff in H as [Hall Hadj].
  apply (lex_render ts 0); [exact Hall | exact Hadj | lia].
Qed.

End LexProofs.
