From TxV Require Import Core.Base Gen.SrcResolve Model.Resolve.

(* ================================================================ C09: termination, proved directly on step / round /
   loop / qround / qloop of Model/Resolve.v.  Depends on ONE fact of Gen/SrcResolve.v (read from
   textx/model.py): the while-condition demands resolved_count > 0.  It holds for any value of the
   other facts: wherever Postponed references are re-queued or reported, whatever is counted as
   progress (a resolution counts at most once), whatever the error condition. *)
Lemma tfact_loop : loop_condition = [(true, 0); (false, 0)]. Proof. reflexivity. Qed.

Lemma continue_needs_progress u c : forallb (holds u c) loop_condition = true -> 0 < c.
Proof.
  rewrite tfact_loop. cbn [forallb holds fst snd]. intro H. apply andb_true_iff in H as [_ H].
  apply andb_true_iff in H as [H _]. apply Nat.ltb_lt in H. exact H.
Qed.

Lemma carry_length f x l : length (carry f x l) = S (length l).
Proof. unfold carry. destruct f; [rewrite app_length; cbn [length]; lia | reflexivity]. Qed.

Lemma counted_le1 x : counted x <= 1.
Proof. unfold counted. destruct (if xmany x then _ else _); lia. Qed.

Opaque carry counted holds.

Lemma step_shrinks ans : forall pend st st' np d c,
  step ans pend st = Some (st', np, d, c) -> length np + c <= length pend /\ length d = length np.
Proof.
  induction pend as [|x r IH]; intros st st' np d c H; cbn [step] in H.
  - injection H as Hst Hnp Hd Hc; subst. cbn [length]. split; [lia | reflexivity].
  - destruct (ans x st) as [t| |]; [| |discriminate].
    + destruct (step ans r _) as [[[[st1 np1] d1] c1]|] eqn:E; [|discriminate].
      injection H as Hst Hnp Hd Hc; subst st' np d c.
      destruct (IH _ _ _ _ _ E) as [L1 L2]. pose proof (counted_le1 x). cbn [length]. split; [lia | exact L2].
    + destruct (step ans r _) as [[[[st1 np1] d1] c1]|] eqn:E; [|discriminate].
      injection H as Hst Hnp Hd Hc; subst st' np d c.
      destruct (IH _ _ _ _ _ E) as [L1 L2]. rewrite !carry_length. cbn [length]. split; [lia | rewrite L2; reflexivity].
Qed.

Lemma round_shrinks ans : forall models st st' pends dels c,
  round ans models st = Some (st', pends, dels, c) -> total pends + c <= total models /\ total dels = total pends.
Proof.
  unfold total. induction models as [|m ms IH]; intros st st' pends dels c H; cbn [round] in H.
  - injection H as Hst Hp Hd Hc; subst. cbn. split; [lia | reflexivity].
  - destruct (step ans m st) as [[[[st1 np] d] c1]|] eqn:E1; [|discriminate].
    destruct (round ans ms st1) as [[[[st2 nps] ds] c2]|] eqn:E2; [|discriminate].
    injection H as Hst Hp Hd Hc; subst st' pends dels c.
    destruct (step_shrinks _ _ _ _ _ _ _ E1) as [L1 L2]. destruct (IH _ _ _ _ _ E2) as [L3 L4].
    cbn [concat]. rewrite !app_length. split; lia.
Qed.

Lemma loop_fuel_direct ans : forall fuel models st, total models < fuel -> loop fuel ans models st <> OutOfFuel.
Proof.
  induction fuel as [|f IH]; intros models st Hf; [lia|]. cbn [loop].
  destruct (round ans models st) as [[[[st' pends] dels] c]|] eqn:E; [|discriminate].
  destruct (round_shrinks _ _ _ _ _ _ _ E) as [L1 L2].
  destruct (forallb (holds (total dels) c) loop_condition) eqn:Ec.
  - apply continue_needs_progress in Ec. apply IH. lia.
  - destruct (holds (total dels) c error_condition); discriminate.
Qed.

Theorem load_terminates_direct ans models : load ans models <> OutOfFuel.
Proof. unfold load. apply loop_fuel_direct. lia. Qed.

Lemma qround_shrinks ans : forall models st s st' pends dels c s',
  qround ans models st s = Some (st', pends, dels, c, s') -> total pends + c <= total models /\ total dels = total pends.
Proof.
  unfold total. induction models as [|m ms IH]; intros st s st' pends dels c s' H; cbn [qround] in H.
  - injection H as Hst Hp Hd Hc Hs; subst. cbn. split; [lia | reflexivity].
  - destruct (step (ans s) m st) as [[[[st1 np] d] c1]|] eqn:E1; [|discriminate].
    destruct (qround ans ms st1 _) as [[[[[st2 nps] ds] c2] s2]|] eqn:E2; [|discriminate].
    injection H as Hst Hp Hd Hc Hs; subst st' pends dels c s'.
    destruct (step_shrinks _ _ _ _ _ _ _ E1) as [L1 L2]. destruct (IH _ _ _ _ _ _ _ E2) as [L3 L4].
    cbn [concat]. rewrite !app_length. split; lia.
Qed.

Lemma qloop_fuel_direct ans : forall fuel models st s, total models < fuel -> qloop fuel ans models st s <> OutOfFuel.
Proof.
  induction fuel as [|f IH]; intros models st s Hf; [lia|]. cbn [qloop].
  destruct (qround ans models st s) as [[[[[st' pends] dels] c] s']|] eqn:E; [|discriminate].
  destruct (qround_shrinks _ _ _ _ _ _ _ _ _ E) as [L1 L2].
  destruct (forallb (holds (total dels) c) loop_condition) eqn:Ec.
  - apply continue_needs_progress in Ec. apply IH. lia.
  - destruct (holds (total dels) c error_condition); discriminate.
Qed.

Theorem qload_terminates_direct ans models : qload ans models <> OutOfFuel.
Proof. unfold qload. apply qloop_fuel_direct. lia. Qed.

Transparent carry counted holds.
