From TxV Require Import Core.Base Model.Registry.

Section Proofs.
  Variable fnm : list N -> list N -> bool.
  Variable ep_langs : list ldesc.
  Variable ep_gens : list gdesc.
  Notation step := (step fnm ep_langs ep_gens).
  Notation sstep := (sstep fnm ep_langs ep_gens).
  Notation abs := (abs ep_langs ep_gens).
  Notation run := (run fnm ep_langs ep_gens).
  Notation srun := (srun fnm ep_langs ep_gens).

  Lemma step_refines s o : sstep (abs s) o = (abs (fst (step s o)), snd (step s o)).
  Proof.
    destruct s as [l g c n]. destruct o; unfold abs, Registry.abs; cbn -[reg_lang reg_gen mm_for_lang mms_for langs_for_file gen_description load_langs load_gens].
    - (* RegLang *) destruct (reg_lang d _); reflexivity.
    - reflexivity.
    - destruct (reg_gen d _); reflexivity.
    - reflexivity.
    - reflexivity.
    - reflexivity.
    - reflexivity.
    - reflexivity.
    - (* MMForLang *)
      destruct (lookup (lower n0) c) as [m|] eqn:Hc; destruct kw;
        try (destruct (mm_for_lang _ _ _ _ _) as [[[m'|] c'] n']; reflexivity).
      unfold mm_for_lang. rewrite Hc. reflexivity.
    - (* MMForFile *)
      destruct (langs_for_file _ _ _) as [|d [|d' ds]]; try reflexivity.
      destruct (mm_for_lang _ _ _ _ _) as [[[m'|] c'] n']; reflexivity.
    - destruct (mms_for _ _ _ _ _) as [[[ms|] c'] n']; reflexivity.
    - reflexivity.
    - reflexivity.
  Qed.

  Lemma run_refines : forall ops s, run s ops = srun (abs s) ops.
  Proof.
    induction ops as [|o ops IH]; intro s; [reflexivity|].
    cbn [Registry.run Registry.srun]. rewrite step_refines.
    destruct (step s o) as [s' r]. cbn [fst snd]. rewrite IH. reflexivity.
  Qed.

  Theorem refines ops : run (init) ops = srun (sinit ep_langs ep_gens) ops.
  Proof. rewrite run_refines. reflexivity. Qed.

  (* ---------------- laws of the specification machine *)
  Lemma lower_idem s : lower (lower s) = lower s.
  Proof.
    induction s as [|c s IH]; simpl; [reflexivity|]. f_equal; [|exact IH].
    unfold lower_char. destruct (N.leb 65 c && N.leb c 90)%bool eqn:E; [|rewrite E; reflexivity].
    apply andb_true_iff in E as [E1 E2]. apply N.leb_le in E1, E2.
    replace (N.leb (c + 32) 90) with false by (symmetry; apply N.leb_gt; lia).
    rewrite andb_false_r. reflexivity.
  Qed.

  Lemma lookup_app_none {A} k (l : list (list N * A)) k' v :
    lookup k l = None -> lookup k (l ++ [(k', v)]) = if str_eqb k k' then Some v else None.
  Proof.
    induction l as [|[k0 v0] l IH]; simpl; [reflexivity|].
    destruct (str_eqb k k0); [discriminate|]. exact IH.
  Qed.

  Lemma lookup_app_some {A} k (l l' : list (list N * A)) v :
    lookup k l = Some v -> lookup k (l ++ l') = Some v.
  Proof.
    induction l as [|[k0 v0] l IH]; simpl; [discriminate|].
    destruct (str_eqb k k0); [tauto|]. exact IH.
  Qed.

  Lemma lookup_app_other {A} k (l : list (list N * A)) k' v :
    str_eqb k k' = false -> lookup k (l ++ [(k', v)]) = lookup k l.
  Proof.
    intro H. induction l as [|[k0 v0] l IH]; simpl; [rewrite H; reflexivity|].
    destruct (str_eqb k k0); [reflexivity | exact IH].
  Qed.

  (* 1. case-insensitive lookup: the answer depends only on the lowered name *)
  Lemma lang_lookup_ci s n n' : lower n = lower n' ->
    snd (sstep s (LangDescription n)) = snd (sstep s (LangDescription n')).
  Proof. intro H. cbn. rewrite H. reflexivity. Qed.

  Lemma gen_lookup_ci s l l' t t' a : lower l = lower l' -> lower t = lower t' ->
    snd (sstep s (GenDescription l t a)) = snd (sstep s (GenDescription l' t' a)).
  Proof. intros H1 H2. cbn. unfold gen_description. rewrite H1, H2. reflexivity. Qed.

  (* 2. registration: succeeds iff no case variant is registered; then every case variant finds it,
        a second registration of any case variant is refused, other names are unaffected *)
  Lemma reg_lang_ok_iff s d :
    snd (sstep s (RegLang d)) = RUnit <-> lookup (lower (lname d)) (slangs s) = None.
  Proof.
    cbn. unfold reg_lang. destruct (lookup _ _); cbn; split; intro H; try reflexivity; discriminate.
  Qed.

  Lemma reg_lang_then_lookup s d n :
    snd (sstep s (RegLang d)) = RUnit -> lower n = lower (lname d) ->
    snd (sstep (fst (sstep s (RegLang d))) (LangDescription n)) = RLang d.
  Proof.
    intros H Hn. apply reg_lang_ok_iff in H. cbn. unfold reg_lang. rewrite H. cbn.
    rewrite Hn, (lookup_app_none _ _ _ _ H), str_eqb_refl. reflexivity.
  Qed.

  Lemma reg_lang_dup_refused s d d' :
    snd (sstep s (RegLang d)) = RUnit -> lower (lname d') = lower (lname d) ->
    snd (sstep (fst (sstep s (RegLang d))) (RegLang d')) = RErr.
  Proof.
    intros H Hn. apply reg_lang_ok_iff in H. cbn. unfold reg_lang at 2. rewrite H. cbn.
    unfold reg_lang. rewrite Hn, (lookup_app_none _ _ _ _ H), str_eqb_refl. reflexivity.
  Qed.

  Lemma reg_lang_refused_keeps_state s d : snd (sstep s (RegLang d)) = RErr -> fst (sstep s (RegLang d)) = s.
  Proof. cbn. destruct (reg_lang d _); cbn; [discriminate | reflexivity]. Qed.

  Lemma reg_lang_other_unaffected s d n :
    lower n <> lower (lname d) ->
    snd (sstep (fst (sstep s (RegLang d))) (LangDescription n)) = snd (sstep s (LangDescription n)).
  Proof.
    intro Hn. cbn. unfold reg_lang. destruct (lookup (lower (lname d)) (slangs s)); cbn; [reflexivity|].
    rewrite lookup_app_other; [reflexivity|]. apply str_eqb_neq. exact Hn.
  Qed.

  (* 3. entry-point registrations survive clearing *)
  Lemma clear_langs_restores_entry_points s :
    slangs (fst (sstep s ClearLangs)) = load_langs ep_langs /\ scache (fst (sstep s ClearLangs)) = [].
  Proof. split; reflexivity. Qed.

  Lemma clear_gens_restores_entry_points s : sgens (fst (sstep s ClearGens)) = load_gens ep_gens.
  Proof. reflexivity. Qed.

  Lemma entry_point_lang_found_after_clear s d :
    lookup (lower (lname d)) (load_langs ep_langs) = Some d ->
    snd (sstep (fst (sstep s ClearLangs)) (LangDescription (lname d))) = RLang d.
  Proof. intro H. cbn. rewrite H. reflexivity. Qed.

  (* 4. languages_for_file: exactly the registered languages whose pattern matches, in order *)
  Lemma langs_for_file_exact s f d :
    In d (match snd (sstep s (LangsForFile f)) with RLangs l => l | _ => [] end) <->
    In d (map snd (slangs s)) /\ matches fnm f d = true.
  Proof. cbn. unfold langs_for_file. apply filter_In. Qed.

  Lemma lang_for_file_unique s f d :
    snd (sstep s (LangForFile f)) = RLang d <-> langs_for_file fnm f (slangs s) = [d].
  Proof.
    cbn. destruct (langs_for_file fnm f (slangs s)) as [|d0 [|d1 l]]; split; intro H;
      try discriminate; try (inversion H; reflexivity).
  Qed.

  Lemma lang_for_file_fails_otherwise s f :
    length (langs_for_file fnm f (slangs s)) <> 1 -> snd (sstep s (LangForFile f)) = RErr.
  Proof.
    cbn. destruct (langs_for_file fnm f (slangs s)) as [|d0 [|d1 l]]; cbn; intro H; try reflexivity.
    exfalso. apply H. reflexivity.
  Qed.

  (* 5. metamodel cache *)
  Lemma lookup_update_same {A} k (v : A) l : lookup k (update k v l) = Some v.
  Proof.
    induction l as [|[k0 v0] l IH]; simpl; [rewrite str_eqb_refl; reflexivity|].
    destruct (str_eqb k k0) eqn:E; simpl; [rewrite str_eqb_refl; reflexivity|]. rewrite E. exact IH.
  Qed.

  (* without arguments a cached instance is returned and nothing changes *)
  Lemma mm_cached_returned s n m :
    lookup (lower n) (scache s) = Some m -> sstep s (MMForLang n false) = (s, RMM m).
  Proof. intro H. cbn. unfold mm_for_lang. rewrite H. destruct s; reflexivity. Qed.

  (* whatever a successful request returns is what the next request without arguments
     returns, under any case variant of the name *)
  Lemma mm_then_cached s n kw m n' :
    snd (sstep s (MMForLang n kw)) = RMM m -> lower n' = lower n ->
    snd (sstep (fst (sstep s (MMForLang n kw))) (MMForLang n' false)) = RMM m.
  Proof.
    intros H Hn. cbn in *. unfold mm_for_lang in *. rewrite Hn.
    destruct (lookup (lower n) (scache s)) as [m0|] eqn:Hc; destruct kw;
      try (cbn in *; rewrite Hc; cbn; exact H);
      (destruct (lookup (lower n) (slangs s)) as [d|]; [destruct (lsrc d)|]; cbn in *; try discriminate;
       rewrite lookup_update_same; cbn; exact H).
  Qed.

  (* a factory-registered language called with arguments yields a fresh instance *)
  Lemma mm_factory_kwargs_fresh s n d f :
    lookup (lower n) (slangs s) = Some d -> lsrc d = Factory f ->
    snd (sstep s (MMForLang n true)) = RMM (MMFresh f (sserial s) true) /\
    sserial (fst (sstep s (MMForLang n true))) = S (sserial s).
  Proof.
    intros Hl Hs. cbn. unfold mm_for_lang. rewrite Hl, Hs.
    destruct (lookup (lower n) (scache s)); cbn; split; reflexivity.
  Qed.

  (* an instance-registered language always yields that instance *)
  Lemma mm_instance s n d i kw :
    lookup (lower n) (scache s) = None \/ kw = true ->
    lookup (lower n) (slangs s) = Some d -> lsrc d = Instance i ->
    snd (sstep s (MMForLang n kw)) = RMM (MMInst i).
  Proof.
    intros Hc Hl Hs. cbn. unfold mm_for_lang. rewrite Hl, Hs.
    destruct Hc as [Hc| ->]; [rewrite Hc; reflexivity|].
    destruct (lookup (lower n) (scache s)); reflexivity.
  Qed.
End Proofs.
