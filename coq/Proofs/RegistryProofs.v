From TxV Require Import Core.Base Gen.SrcRegistry Model.Registry.

(* ================================================================ the facts read from textx/registration.py
   (Gen/SrcRegistry.v).  When one of them changes this lemma stops compiling and C26_refines is
   no longer established. *)
Lemma facts_of_source :
  (lang_lookup_lowered, gen_lookup_lang_lowered, gen_lookup_target_lowered, reg_lang_check_lowered, reg_lang_store_lowered,
   reg_gen_lang_lowered, reg_gen_check_lowered, reg_gen_store_lowered, mm_key_lowered)
  = (true, true, true, true, true, true, true, true, true) /\
  (clear_langs_forgets_table, clear_langs_drops_cache, clear_gens_forgets_table, patternless_skipped) = (true, true, true, true) /\
  register_loads_then_refuses_then_inserts = true.
Proof. repeat split. Qed.

Lemma f_lang_lookup : lang_lookup_lowered = true. Proof. reflexivity. Qed.
Lemma f_gen_lookup_lang : gen_lookup_lang_lowered = true. Proof. reflexivity. Qed.
Lemma f_gen_lookup_target : gen_lookup_target_lowered = true. Proof. reflexivity. Qed.
Lemma f_reg_lang_check : reg_lang_check_lowered = true. Proof. reflexivity. Qed.
Lemma f_reg_lang_store : reg_lang_store_lowered = true. Proof. reflexivity. Qed.
Lemma f_reg_gen_lang : reg_gen_lang_lowered = true. Proof. reflexivity. Qed.
Lemma f_reg_gen_check : reg_gen_check_lowered = true. Proof. reflexivity. Qed.
Lemma f_reg_gen_store : reg_gen_store_lowered = true. Proof. reflexivity. Qed.
Lemma f_mm_key : mm_key_lowered = true. Proof. reflexivity. Qed.
Lemma f_clear_langs : clear_langs_forgets_table = true. Proof. reflexivity. Qed.
Lemma f_clear_cache : clear_langs_drops_cache = true. Proof. reflexivity. Qed.
Lemma f_clear_gens : clear_gens_forgets_table = true. Proof. reflexivity. Qed.
Lemma f_patternless : patternless_skipped = true. Proof. reflexivity. Qed.

Lemma lw_true s : lw true s = lower s. Proof. reflexivity. Qed.

Lemma update_absent {A} k (v : A) l : lookup k l = None -> update k v l = l ++ [(k, v)].
Proof.
  induction l as [|[k0 v0] l IH]; simpl; [reflexivity|].
  destruct (str_eqb k k0); [discriminate|]. intro H. rewrite (IH H). reflexivity.
Qed.

Section Proofs.
  Variable fnm : list N -> list N -> bool.
  Variable ep_langs : list ldesc.
  Variable ep_gens : list gdesc.
  Notation step := (step fnm ep_langs ep_gens).
  Notation step_ok := (step_ok fnm ep_langs ep_gens).
  Notation sstep_ok := (sstep_ok fnm ep_langs ep_gens).
  Notation sstep := (sstep fnm ep_langs ep_gens).
  Notation abs := (abs ep_langs ep_gens).
  Notation run := (run fnm ep_langs ep_gens).
  Notation srun := (srun fnm ep_langs ep_gens).

  Lemma lower_idem s : lower (lower s) = lower s.
  Proof.
    induction s as [|c s IH]; simpl; [reflexivity|]. f_equal; [|exact IH].
    unfold lower_char. destruct (N.leb 65 c && N.leb c 90)%bool eqn:E; [|rewrite E; reflexivity].
    apply andb_true_iff in E as [E1 E2]. apply N.leb_le in E1, E2.
    replace (N.leb (c + 32) 90) with false by (symmetry; apply N.leb_gt; lia).
    rewrite andb_false_r. reflexivity.
  Qed.

  (* ---------------- under the facts, the functions of the source are the canonical ones *)
  Lemma ireg_lang_eq d t : ireg_lang d t = reg_lang d t.
  Proof.
    unfold ireg_lang, reg_lang. rewrite f_reg_lang_check, f_reg_lang_store. cbn [lw].
    destruct (lookup (lower (lname d)) t) eqn:E; [reflexivity|]. rewrite (update_absent _ _ _ E). reflexivity.
  Qed.

  Lemma ireg_gen_eq d t : ireg_gen d t = reg_gen d t.
  Proof.
    unfold ireg_gen, reg_gen. rewrite f_reg_gen_lang, f_reg_gen_check, f_reg_gen_store. cbn [lw].
    destruct (lookup (lower (glang d)) t) as [lg|]; [|reflexivity].
    destruct (lookup (lower (gtarget d)) lg) eqn:E; [reflexivity|]. rewrite (update_absent _ _ _ E). reflexivity.
  Qed.

  Lemma ilang_description_eq n t : ilang_description n t = lookup (lower n) t.
  Proof. unfold ilang_description. rewrite f_lang_lookup. reflexivity. Qed.

  Lemma igen_description_eq l tg a t : igen_description l tg a t = gen_description l tg a t.
  Proof. unfold igen_description, gen_description. rewrite f_gen_lookup_lang, f_gen_lookup_target. reflexivity. Qed.

  Lemma ilangs_for_file_eq f t : ilangs_for_file fnm f t = Some (langs_for_file fnm f t).
  Proof. unfold ilangs_for_file. rewrite f_patternless. reflexivity. Qed.

  Lemma imm_for_lang_eq n kw t c k : imm_for_lang n kw t c k = mm_for_lang n kw t c k.
  Proof.
    unfold imm_for_lang, mm_for_lang. rewrite f_mm_key. cbn [lw]. rewrite ilang_description_eq, lower_idem. reflexivity.
  Qed.

  Lemma imms_for_eq : forall ds t c k acc, imms_for ds t c k acc = mms_for ds t c k acc.
  Proof.
    induction ds as [|d ds IH]; intros t c k acc; cbn [imms_for mms_for]; [reflexivity|].
    rewrite imm_for_lang_eq. destruct (mm_for_lang (lname d) false t c k) as [[[m|] c'] k']; [apply IH | reflexivity].
  Qed.

  (* the implementation machine in canonical form *)
  Definition cstep_ok (s : state) (o : op) : state * result :=
    match o with
    | RegLang d => let t := force_l ep_langs s in
                   match reg_lang d t with
                   | Some t' => (with_l s t', RUnit)
                   | None => (with_l s t, RErr)
                   end
    | ClearLangs => ({| langs := None; gens := gens s; cache := []; serial := serial s |}, RUnit)
    | RegGen d => let t := force_g ep_gens s in
                  match reg_gen d t with
                  | Some t' => (with_g s t', RUnit)
                  | None => (with_g s t, RErr)
                  end
    | ClearGens => ({| langs := langs s; gens := None; cache := cache s; serial := serial s |}, RUnit)
    | LangDescription n => let t := force_l ep_langs s in
                           (with_l s t, match lookup (lower n) t with Some d => RLang d | None => RErr end)
    | GenDescription l tg anyp => let t := force_g ep_gens s in
                           (with_g s t, match gen_description l tg anyp t with Some d => RGen d | None => RErr end)
    | LangsForFile f => let t := force_l ep_langs s in (with_l s t, RLangs (langs_for_file fnm f t))
    | LangForFile f => let t := force_l ep_langs s in
                       (with_l s t, match langs_for_file fnm f t with [d] => RLang d | _ => RErr end)
    | MMForLang n kw =>
        match lookup (lower n) (cache s), kw with
        | Some m, false => (s, RMM m)
        | _, _ => let t := force_l ep_langs s in
                  match mm_for_lang n kw t (cache s) (serial s) with
                  | (Some m, c', n') => (with_c (with_l s t) c' n', RMM m)
                  | (None, c', n') => (with_c (with_l s t) c' n', RErr)
                  end
        end
    | MMForFile f kw =>
        let t := force_l ep_langs s in
        match langs_for_file fnm f t with
        | [d] => match mm_for_lang (lname d) kw t (cache s) (serial s) with
                 | (Some m, c', n') => (with_c (with_l s t) c' n', RMM m)
                 | (None, c', n') => (with_c (with_l s t) c' n', RErr)
                 end
        | _ => (with_l s t, RErr)
        end
    | MMsForFile f =>
        let t := force_l ep_langs s in
        match mms_for (langs_for_file fnm f t) t (cache s) (serial s) [] with
        | (Some ms, c', n') => (with_c (with_l s t) c' n', RMMs ms)
        | (None, c', n') => (with_c (with_l s t) c' n', RErr)
        end
    | LangDescs => let t := force_l ep_langs s in (with_l s t, RLangs (map snd t))
    | GenDescs => let t := force_g ep_gens s in (with_g s t, RGens (flat_map (fun lg => map snd (snd lg)) t))
    end.

  Lemma step_ok_eq s o : step_ok s o = cstep_ok s o.
  Proof.
    destruct o; unfold Registry.step_ok, cstep_ok;
      rewrite ?ireg_lang_eq, ?ireg_gen_eq, ?ilang_description_eq, ?igen_description_eq, ?ilangs_for_file_eq,
              ?imm_for_lang_eq, ?imms_for_eq, ?f_clear_langs, ?f_clear_cache, ?f_clear_gens, ?f_mm_key; cbn [lw]; try reflexivity.
    all: destruct (langs_for_file fnm f _) as [|d [|d' ds]]; rewrite ?imm_for_lang_eq; reflexivity.
  Qed.

  (* discovery through the register functions of the source = discovery through the canonical ones *)
  Lemma load_from_ext {T D} (f g : D -> T -> option T) : (forall d t, f d t = g d t) ->
    forall eps t, load_from f eps t = load_from g eps t.
  Proof.
    intros E. induction eps as [|d r IH]; intro t; cbn [load_from]; [reflexivity|].
    rewrite E. destruct (g d t); [apply IH | reflexivity].
  Qed.
  Lemma iload_langs_eq : iload_langs_full ep_langs = load_langs_full ep_langs.
  Proof. apply load_from_ext. exact ireg_lang_eq. Qed.
  Lemma iload_gens_eq : iload_gens_full ep_gens = load_gens_full ep_gens.
  Proof. apply load_from_ext. exact ireg_gen_eq. Qed.

  Lemma needs_l_eq o c : needs_l o c = sneeds_l o c.
  Proof. destruct o; reflexivity. Qed.   (* uses mm_key_lowered = true by conversion *)

  Lemma cstep_ok_refines s o :
    (needs_l o (cache s) = true -> fail_l ep_langs s = false) -> (needs_g o = true -> fail_g ep_gens s = false) ->
    sstep_ok (abs s) o = (abs (fst (cstep_ok s o)), snd (cstep_ok s o)).
  Proof.
    intros Hl Hg. destruct s as [l g c n].
    destruct o; cbn [needs_l needs_g cache] in Hl, Hg; try specialize (Hl eq_refl); try specialize (Hg eq_refl);
      unfold abs, Registry.abs, cstep_ok, Registry.sstep_ok;
      cbn -[reg_lang reg_gen mm_for_lang mms_for langs_for_file gen_description load_langs load_gens load_langs_bad load_gens_bad iload_langs_full iload_gens_full] in *;
      try (rewrite Hl by fail); try (rewrite Hg by fail).
    - (* RegLang *) destruct (reg_lang d _); reflexivity.
    - (* ClearLangs *) rewrite iload_langs_eq. reflexivity.
    - destruct (reg_gen d _); reflexivity.
    - (* ClearGens *) rewrite iload_gens_eq. reflexivity.
    - reflexivity.
    - reflexivity.
    - reflexivity.
    - reflexivity.
    - (* MMForLang *)
      try rewrite f_mm_key in Hl. cbn [lw] in Hl.
      destruct (lookup (lower n0) c) as [m|] eqn:Hc; destruct kw; try specialize (Hl eq_refl); try (rewrite Hl by fail);
        try (destruct (mm_for_lang _ _ _ _ _) as [[[m'|] c'] n']; reflexivity).
      unfold mm_for_lang. rewrite Hc. reflexivity.
    - (* MMForFile *)
      destruct (langs_for_file _ _ _) as [|d [|d' ds]]; try reflexivity.
      destruct (mm_for_lang _ _ _ _ _) as [[[m'|] c'] n']; reflexivity.
    - destruct (mms_for _ _ _ _ _) as [[[ms|] c'] n']; reflexivity.
    - reflexivity.
    - reflexivity.
  Qed.

  Lemma step_refines s o : sstep (abs s) o = (abs (fst (step s o)), snd (step s o)).
  Proof.
    unfold Registry.step, Registry.sstep. rewrite <- needs_l_eq.
    change (scache (abs s)) with (cache s). change (slfail (abs s)) with (fail_l ep_langs s). change (sgfail (abs s)) with (fail_g ep_gens s).
    destruct (needs_l o (cache s) && fail_l ep_langs s)%bool eqn:El.
    - apply andb_true_iff in El as [_ El]. destruct s as [l g c n]. destruct l as [t|]; [discriminate|]. reflexivity.
    - destruct (needs_g o && fail_g ep_gens s)%bool eqn:Eg.
      + apply andb_true_iff in Eg as [_ Eg]. destruct s as [l g c n]. destruct g as [t|]; [discriminate|]. reflexivity.
      + rewrite step_ok_eq. apply cstep_ok_refines.
        * intro H. rewrite H in El. exact El.
        * intro H. rewrite H in Eg. exact Eg.
  Qed.

  Lemma run_refines : forall ops s, run s ops = srun (abs s) ops.
  Proof.
    induction ops as [|o ops IH]; intro s; [reflexivity|].
    cbn [Registry.run Registry.srun]. rewrite step_refines.
    destruct (step s o) as [s' r]. cbn [fst snd]. rewrite IH. reflexivity.
  Qed.

  Theorem refines ops : run (init) ops = srun (sinit ep_langs ep_gens) ops.
  Proof.
    rewrite run_refines. unfold abs, Registry.abs, sinit, force_l, force_g, fail_l, fail_g, init.
    cbn [langs gens cache serial]. unfold load_langs, load_gens, load_langs_bad, load_gens_bad.
    rewrite iload_langs_eq, iload_gens_eq. reflexivity.
  Qed.

  (* ---------------- laws of the specification machine *)

  Lemma lookup_app_none {A} k (l : list (list N * A)) k' v :
    lookup k l = None -> lookup k (l ++ [(k', v)]) = if str_eqb k k' then Some v else None.
  Proof.
    induction l as [|[k0 v0] l IH]; simpl; [reflexivity|].
    destruct (str_eqb k k0); [discriminate|]. exact IH.
  Qed.

  Lemma lookup_app_some {A} k (l l' : list (list N * A)) v :
    lookup k l = Some v -> lookup k (l ++ l') = Some v.
  Proof.
    induction l as [|[k0 v0] l IH]; simpl; [discriminate|].
    destruct (str_eqb k k0); [tauto|]. exact IH.
  Qed.

  Lemma lookup_app_other {A} k (l : list (list N * A)) k' v :
    str_eqb k k' = false -> lookup k (l ++ [(k', v)]) = lookup k l.
  Proof.
    intro H. induction l as [|[k0 v0] l IH]; simpl; [rewrite H; reflexivity|].
    destruct (str_eqb k k0); [reflexivity | exact IH].
  Qed.

  (* 1. case-insensitive lookup: the answer depends only on the lowered name *)
  Lemma lang_lookup_ci_ok s n n' : lower n = lower n' ->
    snd (sstep_ok s (LangDescription n)) = snd (sstep_ok s (LangDescription n')).
  Proof. intro H. cbn. rewrite H. reflexivity. Qed.

  Lemma gen_lookup_ci_ok s l l' t t' a : lower l = lower l' -> lower t = lower t' ->
    snd (sstep_ok s (GenDescription l t a)) = snd (sstep_ok s (GenDescription l' t' a)).
  Proof. intros H1 H2. cbn. unfold gen_description. rewrite H1, H2. reflexivity. Qed.

  (* 2. registration: succeeds iff no case variant is registered; then every case variant finds it,
        a second registration of any case variant is refused, other names are unaffected *)
  Lemma reg_lang_ok_iff_ok s d :
    snd (sstep_ok s (RegLang d)) = RUnit <-> lookup (lower (lname d)) (slangs s) = None.
  Proof.
    cbn. unfold reg_lang. destruct (lookup _ _); cbn; split; intro H; try reflexivity; discriminate.
  Qed.

  Lemma reg_lang_then_lookup_ok s d n :
    snd (sstep_ok s (RegLang d)) = RUnit -> lower n = lower (lname d) ->
    snd (sstep_ok (fst (sstep_ok s (RegLang d))) (LangDescription n)) = RLang d.
  Proof.
    intros H Hn. apply reg_lang_ok_iff_ok in H. cbn. unfold reg_lang. rewrite H. cbn.
    rewrite Hn, (lookup_app_none _ _ _ _ H), str_eqb_refl. reflexivity.
  Qed.

  Lemma reg_lang_dup_refused_ok s d d' :
    snd (sstep_ok s (RegLang d)) = RUnit -> lower (lname d') = lower (lname d) ->
    snd (sstep_ok (fst (sstep_ok s (RegLang d))) (RegLang d')) = RErr.
  Proof.
    intros H Hn. apply reg_lang_ok_iff_ok in H. cbn. unfold reg_lang at 2. rewrite H. cbn.
    unfold reg_lang. rewrite Hn, (lookup_app_none _ _ _ _ H), str_eqb_refl. reflexivity.
  Qed.

  Lemma reg_lang_refused_keeps_state_ok s d : snd (sstep_ok s (RegLang d)) = RErr -> fst (sstep_ok s (RegLang d)) = s.
  Proof. cbn. destruct (reg_lang d _); cbn; [discriminate | reflexivity]. Qed.

  Lemma reg_lang_other_unaffected_ok s d n :
    lower n <> lower (lname d) ->
    snd (sstep_ok (fst (sstep_ok s (RegLang d))) (LangDescription n)) = snd (sstep_ok s (LangDescription n)).
  Proof.
    intro Hn. cbn. unfold reg_lang. destruct (lookup (lower (lname d)) (slangs s)); cbn; [reflexivity|].
    rewrite lookup_app_other; [reflexivity|]. apply str_eqb_neq. exact Hn.
  Qed.

  (* 3. entry-point registrations survive clearing *)
  Lemma clear_langs_restores_entry_points_ok s :
    slangs (fst (sstep_ok s ClearLangs)) = load_langs ep_langs /\ scache (fst (sstep_ok s ClearLangs)) = [].
  Proof. split; reflexivity. Qed.

  Lemma clear_gens_restores_entry_points_ok s : sgens (fst (sstep_ok s ClearGens)) = load_gens ep_gens.
  Proof. reflexivity. Qed.

  Lemma entry_point_lang_found_after_clear_ok s d :
    lookup (lower (lname d)) (load_langs ep_langs) = Some d ->
    snd (sstep_ok (fst (sstep_ok s ClearLangs)) (LangDescription (lname d))) = RLang d.
  Proof. intro H. cbn. rewrite H. reflexivity. Qed.

  (* 4. languages_for_file: exactly the registered languages whose pattern matches, in order *)
  Lemma langs_for_file_exact_ok s f d :
    In d (match snd (sstep_ok s (LangsForFile f)) with RLangs l => l | _ => [] end) <->
    In d (map snd (slangs s)) /\ matches fnm f d = true.
  Proof. cbn. unfold langs_for_file. apply filter_In. Qed.

  Lemma lang_for_file_unique_ok s f d :
    snd (sstep_ok s (LangForFile f)) = RLang d <-> langs_for_file fnm f (slangs s) = [d].
  Proof.
    cbn. destruct (langs_for_file fnm f (slangs s)) as [|d0 [|d1 l]]; split; intro H;
      try discriminate; try (inversion H; reflexivity).
  Qed.

  Lemma lang_for_file_fails_otherwise_ok s f :
    length (langs_for_file fnm f (slangs s)) <> 1 -> snd (sstep_ok s (LangForFile f)) = RErr.
  Proof.
    cbn. destruct (langs_for_file fnm f (slangs s)) as [|d0 [|d1 l]]; cbn; intro H; try reflexivity.
    exfalso. apply H. reflexivity.
  Qed.

  Lemma lang_for_file_exactly_one_ok s f :
    (forall d, snd (sstep_ok s (LangForFile f)) = RLang d <-> langs_for_file fnm f (slangs s) = [d]) /\
    (length (langs_for_file fnm f (slangs s)) <> 1 -> snd (sstep_ok s (LangForFile f)) = RErr).
  Proof. split; [intro d; apply lang_for_file_unique_ok | apply lang_for_file_fails_otherwise_ok]. Qed.

  (* 5. metamodel cache *)
  Lemma lookup_update_same_ok {A} k (v : A) l : lookup k (update k v l) = Some v.
  Proof.
    induction l as [|[k0 v0] l IH]; simpl; [rewrite str_eqb_refl; reflexivity|].
    destruct (str_eqb k k0) eqn:E; simpl; [rewrite str_eqb_refl; reflexivity|]. rewrite E. exact IH.
  Qed.

  (* without arguments a cached instance is returned and nothing changes *)
  Lemma mm_cached_returned_ok s n m :
    lookup (lower n) (scache s) = Some m -> sstep_ok s (MMForLang n false) = (s, RMM m).
  Proof. intro H. cbn. unfold mm_for_lang. rewrite H. destruct s; reflexivity. Qed.

  (* whatever a successful request returns is what the next request without arguments
     returns, under any case variant of the name *)
  Lemma mm_then_cached_ok s n kw m n' :
    snd (sstep_ok s (MMForLang n kw)) = RMM m -> lower n' = lower n ->
    snd (sstep_ok (fst (sstep_ok s (MMForLang n kw))) (MMForLang n' false)) = RMM m.
  Proof.
    intros H Hn. cbn in *. unfold mm_for_lang in *. rewrite Hn.
    destruct (lookup (lower n) (scache s)) as [m0|] eqn:Hc; destruct kw;
      try (cbn in *; rewrite Hc; cbn; exact H);
      (destruct (lookup (lower n) (slangs s)) as [d|]; [destruct (lsrc d)|]; cbn in *; try discriminate;
       rewrite lookup_update_same_ok; cbn; exact H).
  Qed.

  (* a factory-registered language called with arguments yields a fresh instance *)
  Lemma mm_factory_kwargs_fresh_ok s n d f :
    lookup (lower n) (slangs s) = Some d -> lsrc d = Factory f ->
    snd (sstep_ok s (MMForLang n true)) = RMM (MMFresh f (sserial s) true) /\
    sserial (fst (sstep_ok s (MMForLang n true))) = S (sserial s).
  Proof.
    intros Hl Hs. cbn. unfold mm_for_lang. rewrite Hl, Hs.
    destruct (lookup (lower n) (scache s)); cbn; split; reflexivity.
  Qed.

  (* an instance-registered language always yields that instance *)
  Lemma mm_instance_ok s n d i kw :
    lookup (lower n) (scache s) = None \/ kw = true ->
    lookup (lower n) (slangs s) = Some d -> lsrc d = Instance i ->
    snd (sstep_ok s (MMForLang n kw)) = RMM (MMInst i).
  Proof.
    intros Hc Hl Hs. cbn. unfold mm_for_lang. rewrite Hl, Hs.
    destruct Hc as [Hc| ->]; [rewrite Hc; reflexivity|].
    destruct (lookup (lower n) (scache s)); reflexivity.
  Qed.

  (* ---------------- the same laws for the full specification machine [sstep], which reports a pending
     entry-point discovery failure first *)
  Lemma sstep_no_failure s o : slfail s = false -> sgfail s = false -> sstep s o = sstep_ok s o.
  Proof. intros H1 H2. unfold Registry.sstep. rewrite H1, H2, !andb_false_r. reflexivity. Qed.

  Lemma sstep_lang s o : needs_g o = false -> slfail s = false -> sstep s o = sstep_ok s o.
  Proof. intros H1 H2. unfold Registry.sstep. rewrite H1, H2, andb_false_r. reflexivity. Qed.

  Lemma sstep_failure_l s o : sneeds_l o (scache s) = true -> slfail s = true -> snd (sstep s o) = RErr.
  Proof. intros H1 H2. unfold Registry.sstep. rewrite H1, H2. reflexivity. Qed.

  Lemma lang_lookup_ci s n n' : lower n = lower n' ->
    snd (sstep s (LangDescription n)) = snd (sstep s (LangDescription n')).
  Proof.
    intro H. unfold Registry.sstep. cbn [sneeds_l needs_g andb]. destruct (slfail s); [reflexivity|].
    apply lang_lookup_ci_ok. exact H.
  Qed.

  Lemma gen_lookup_ci s l l' t t' a : lower l = lower l' -> lower t = lower t' ->
    snd (sstep s (GenDescription l t a)) = snd (sstep s (GenDescription l' t' a)).
  Proof.
    intros H1 H2. unfold Registry.sstep. cbn [sneeds_l needs_g andb]. destruct (sgfail s); [reflexivity|].
    apply gen_lookup_ci_ok; assumption.
  Qed.

  Lemma reg_lang_unit_no_failure s d : snd (sstep s (RegLang d)) = RUnit -> slfail s = false.
  Proof. intro H. destruct (slfail s) eqn:E; [|reflexivity]. rewrite (sstep_failure_l s (RegLang d) eq_refl E) in H. discriminate. Qed.

  Lemma reg_lang_keeps_flag s d : slfail (fst (sstep_ok s (RegLang d))) = slfail s.
  Proof. cbn. destruct (reg_lang d (slangs s)); reflexivity. Qed.

  Lemma reg_lang_then_lookup s d n :
    snd (sstep s (RegLang d)) = RUnit -> lower n = lower (lname d) ->
    snd (sstep (fst (sstep s (RegLang d))) (LangDescription n)) = RLang d.
  Proof.
    intros H Hn. pose proof (reg_lang_unit_no_failure s d H) as F.
    rewrite (sstep_lang s (RegLang d) eq_refl F) in *.
    rewrite (sstep_lang _ (LangDescription n) eq_refl); [|rewrite reg_lang_keeps_flag; exact F].
    apply reg_lang_then_lookup_ok; assumption.
  Qed.

  Lemma reg_lang_dup_refused s d d' :
    snd (sstep s (RegLang d)) = RUnit -> lower (lname d') = lower (lname d) ->
    snd (sstep (fst (sstep s (RegLang d))) (RegLang d')) = RErr.
  Proof.
    intros H Hn. pose proof (reg_lang_unit_no_failure s d H) as F.
    rewrite (sstep_lang s (RegLang d) eq_refl F) in *.
    rewrite (sstep_lang _ (RegLang d') eq_refl); [|rewrite reg_lang_keeps_flag; exact F].
    apply reg_lang_dup_refused_ok; assumption.
  Qed.

  (* a registration refused because the name is taken changes nothing (a pending discovery failure
     is a different refusal: it is consumed) *)
  Lemma reg_lang_refused_keeps_state s d : slfail s = false ->
    snd (sstep s (RegLang d)) = RErr -> fst (sstep s (RegLang d)) = s.
  Proof. intros F. rewrite (sstep_lang s (RegLang d) eq_refl F). apply reg_lang_refused_keeps_state_ok. Qed.

  Lemma reg_lang_other_unaffected s d n : slfail s = false ->
    lower n <> lower (lname d) ->
    snd (sstep (fst (sstep s (RegLang d))) (LangDescription n)) = snd (sstep s (LangDescription n)).
  Proof.
    intros F Hn. rewrite (sstep_lang s (RegLang d) eq_refl F), (sstep_lang s (LangDescription n) eq_refl F).
    rewrite (sstep_lang _ (LangDescription n) eq_refl); [|rewrite reg_lang_keeps_flag; exact F].
    apply reg_lang_other_unaffected_ok. exact Hn.
  Qed.

  (* entry-point registrations survive clearing - when discovery succeeds *)
  Lemma entry_point_lang_found_after_clear s d :
    load_langs_bad ep_langs = false ->
    lookup (lower (lname d)) (load_langs ep_langs) = Some d ->
    snd (sstep (fst (sstep s ClearLangs)) (LangDescription (lname d))) = RLang d.
  Proof.
    intros B H. unfold Registry.sstep at 2. cbn [sneeds_l needs_g andb].
    rewrite (sstep_lang _ (LangDescription (lname d)) eq_refl); [|exact B].
    apply entry_point_lang_found_after_clear_ok. exact H.
  Qed.

  (* a duplicate among the entry points: the FIRST operation consulting the language map after
     clearing reports the registration error; afterwards the map holds the entry points before the
     duplicate (and nothing reports the failure again until the next clearing) *)
  Lemma entry_point_duplicate_reported_once s o n :
    load_langs_bad ep_langs = true -> sneeds_l o [] = true ->
    let s1 := fst (sstep s ClearLangs) in
    snd (sstep s1 o) = RErr /\
    snd (sstep (fst (sstep s1 o)) (LangDescription n))
      = match lookup (lower n) (load_langs ep_langs) with Some d => RLang d | None => RErr end.
  Proof.
    intros B Ho s1.
    assert (E1 : s1 = {| slangs := load_langs ep_langs; slfail := true; sgens := sgens s; sgfail := sgfail s; scache := []; sserial := sserial s |}).
    { unfold s1, Registry.sstep. cbn [sneeds_l needs_g andb]. cbn [Registry.sstep_ok fst]. rewrite B. reflexivity. }
    rewrite E1. clear E1 s1.
    set (s2 := {| slangs := load_langs ep_langs; slfail := false; sgens := sgens s; sgfail := sgfail s; scache := []; sserial := sserial s |}).
    assert (E2 : sstep {| slangs := load_langs ep_langs; slfail := true; sgens := sgens s; sgfail := sgfail s; scache := []; sserial := sserial s |} o = (s2, RErr)).
    { unfold Registry.sstep. cbn [scache slfail]. rewrite Ho. reflexivity. }
    rewrite E2. cbn [fst snd]. split; [reflexivity|].
    unfold Registry.sstep, s2. cbn. reflexivity.
  Qed.

  Lemma langs_for_file_exact s f d : slfail s = false ->
    (In d (match snd (sstep s (LangsForFile f)) with RLangs l => l | _ => [] end) <->
     In d (map snd (slangs s)) /\ matches fnm f d = true).
  Proof. intro F. rewrite (sstep_lang s (LangsForFile f) eq_refl F). apply langs_for_file_exact_ok. Qed.

  Lemma lang_for_file_exactly_one s f : slfail s = false ->
    (forall d, snd (sstep s (LangForFile f)) = RLang d <-> langs_for_file fnm f (slangs s) = [d]) /\
    (length (langs_for_file fnm f (slangs s)) <> 1 -> snd (sstep s (LangForFile f)) = RErr).
  Proof. intro F. rewrite (sstep_lang s (LangForFile f) eq_refl F). apply lang_for_file_exactly_one_ok. Qed.

  Lemma mm_cached_returned s n m :
    lookup (lower n) (scache s) = Some m -> sstep s (MMForLang n false) = (s, RMM m).
  Proof.
    intro H. unfold Registry.sstep. cbn [sneeds_l needs_g andb]. rewrite H. cbn [andb].
    apply mm_cached_returned_ok. exact H.
  Qed.

  Lemma mm_then_cached s n kw m n' : slfail s = false ->
    snd (sstep s (MMForLang n kw)) = RMM m -> lower n' = lower n ->
    snd (sstep (fst (sstep s (MMForLang n kw))) (MMForLang n' false)) = RMM m.
  Proof.
    intros F H Hn. rewrite (sstep_lang s (MMForLang n kw) eq_refl F) in *.
    rewrite (sstep_lang _ (MMForLang n' false) eq_refl).
    - apply mm_then_cached_ok; assumption.
    - cbn. destruct (mm_for_lang n kw (slangs s) (scache s) (sserial s)) as [[[m'|] c'] k']; exact F.
  Qed.

  Lemma mm_factory_kwargs_fresh s n d f : slfail s = false ->
    lookup (lower n) (slangs s) = Some d -> lsrc d = Factory f ->
    snd (sstep s (MMForLang n true)) = RMM (MMFresh f (sserial s) true) /\
    sserial (fst (sstep s (MMForLang n true))) = S (sserial s).
  Proof. intro F. rewrite (sstep_lang s (MMForLang n true) eq_refl F). apply mm_factory_kwargs_fresh_ok. Qed.
End Proofs.
