(* Proofs about Model/History.v: the canonical-state invariant and history independence. *)
From TxV Require Import Core.Base Model.History.

(* ------------------------------------------------------------------ map_classes *)
Lemma map_classes_pres (P : nat -> ucls -> Prop) ids g :
  (forall id u, In id ids -> P id u -> P id (g u)) ->
  forall cl, (forall id, P id (cl id)) -> forall id, P id (map_classes ids g cl id).
Proof.
  unfold map_classes. induction ids as [|x ids IH]; intros Hg cl Hcl id; cbn [fold_left].
  - apply Hcl.
  - apply IH.
    + intros id' u Hin HP. apply Hg; [right; exact Hin | exact HP].
    + intro id'. unfold upd. destruct (Nat.eqb id' x) eqn:E.
      * apply Nat.eqb_eq in E. subst id'. apply Hg; [left; reflexivity | apply Hcl].
      * apply Hcl.
Qed.

Lemma map_classes_hit (Q : ucls -> Prop) ids g :
  (forall u, Q (g u)) ->
  forall cl id, In id ids -> Q (map_classes ids g cl id).
Proof.
  intros Hg. unfold map_classes. induction ids as [|x ids IH]; intros cl id Hin; cbn [fold_left].
  - destruct Hin.
  - destruct (in_dec Nat.eq_dec id ids) as [Hin'|Hnot].
    + apply IH. exact Hin'.
    + destruct Hin as [->|Hin]; [|contradiction].
      (* id = x is not touched by the remaining ids *)
      assert (Hkeep : forall ids' cl', ~ In id ids' ->
                 fold_left (fun acc i => upd acc i (g (acc i))) ids' cl' id = cl' id).
      { induction ids' as [|y ids' IH']; intros cl' Hn; cbn [fold_left]; [reflexivity|].
        rewrite IH' by (intro H; apply Hn; right; exact H).
        unfold upd. destruct (Nat.eqb id y) eqn:E; [|reflexivity].
        apply Nat.eqb_eq in E. exfalso. apply Hn. left. symmetry. exact E. }
      rewrite Hkeep by exact Hnot. unfold upd. rewrite Nat.eqb_refl. apply Hg.
Qed.

Lemma leak_classes_pres (P : nat -> ucls -> Prop) ids ns :
  (forall id u n, P id u -> P id {| u_instr := u_instr u; u_store := u_store u + n; u_owner := u_owner u; u_gram := u_gram u |}) ->
  forall cl, (forall id, P id (cl id)) -> forall id, P id (leak_classes ids ns cl id).
Proof.
  intro Hg. unfold leak_classes. generalize (combine ids ns) as ps.
  induction ps as [|[x n] ps IH]; intros cl Hcl id; cbn [fold_left].
  - apply Hcl.
  - apply IH. intro id'. unfold upd. cbn [fst snd]. destruct (Nat.eqb id' x) eqn:E.
    + apply Nat.eqb_eq in E. subst id'. apply Hg. apply Hcl.
    + apply Hcl.
Qed.

Lemma iter_swap {A} (g : A -> A) k a : Nat.iter k g (g a) = g (Nat.iter k g a).
Proof. induction k as [|k IH]; [reflexivity | cbn [Nat.iter nat_rect]; unfold Nat.iter in *; cbn; rewrite IH; reflexivity]. Qed.

(* a class listed k times receives the effect k times *)
Lemma map_classes_iter ids g : forall cl id,
  map_classes ids g cl id = Nat.iter (count_occ Nat.eq_dec ids id) g (cl id).
Proof.
  unfold map_classes. induction ids as [|x ids IH]; intros cl id; cbn [fold_left count_occ].
  - reflexivity.
  - rewrite IH. unfold upd. destruct (Nat.eq_dec x id) as [->|Hne].
    + rewrite Nat.eqb_refl. cbn [Nat.iter]. apply iter_swap.
    + destruct (Nat.eqb id x) eqn:E; [apply Nat.eqb_eq in E; congruence | reflexivity].
Qed.

(* ------------------------------------------------------------------ the invariant *)
Section Inv.
  Variable F : facts.
  Variable create_out : cfg -> gview -> cres.
  Variable load_out : cfg -> nat -> view -> lres.
  Variable cls_gram : nat -> nat.     (* the grammar each user class is written for *)

  Notation step := (step F create_out load_out).
  Notation run := (run F create_out load_out).
  Notation final := (final F create_out load_out).
  Notation result := (result F create_out load_out).

  (* a configuration uses a user class only with the grammar the class is written for *)
  Definition wf_cfg (c : cfg) : Prop := forall id, In id (c_classes c) -> cls_gram id = c_gram c.
  Definition wf_op (o : op) : Prop := match o with New _ c => wf_cfg c | _ => True end.

  Record inv (st : pst) : Prop := {
    i_gp_cache : forall a b gp, gparsers st a b = Some gp -> gp_cache gp = [];
    i_gp_key : forall a b gp, gparsers st a b = Some gp -> f_gp_key_memo F = true -> gp_memo gp = b;
    i_base : base_cache st = [];
    i_slot : forall s m, slots st s = Some m ->
               m_bp_dirty m = false /\ m_cache m = [] /\ m_stale m = false /\ wf_cfg (m_cfg m) /\
               (forall id, In id (c_classes (m_cfg m)) -> u_gram (classes st id) = Some (cls_gram id)) /\
               (exists b, k_kind (create_out (m_cfg m) {| gv_memo := b; gv_cache := [] |}) = COk /\
                          (f_gp_key_memo F = true -> b = c_memo (m_cfg m)));
    i_instr : forall id, u_instr (classes st id) = 0;
    i_gram : forall id, u_gram (classes st id) = None \/ u_gram (classes st id) = Some (cls_gram id)
  }.

  Lemma inv_init : inv init.
  Proof.
    constructor; cbn; try discriminate; try reflexivity; intros; try discriminate; auto.
  Qed.

  Hypothesis Fgood : good F = true.

  Lemma good_parts : f_clear_in_finally F = true /\ f_loads_use_clone F = true /\ f_clone_resets F = true /\
                     f_except_restores F = true /\ f_end_restores F = true /\ f_restore_on_primitive F = true /\
                     f_restore_on_immutable F = true /\ f_restore_guarded F = true.
  Proof.
    unfold good in Fgood. repeat (apply andb_true_iff in Fgood as [Fgood ?]). repeat split; assumption.
  Qed.

  Lemma after_parse_nil memo tok : after_parse F memo tok [] = [].
  Proof.
    destruct good_parts as [Hc _]. unfold after_parse. rewrite Hc. destruct memo; reflexivity.
  Qed.

  Lemma class_effect_instr r u : u_instr u = 0 -> u_instr (class_effect F r u) = 0.
  Proof.
    destruct good_parts as (_ & _ & _ & He & Hn & Hp & Him & Hgd).
    unfold class_effect. rewrite He, Hn, Hp, Him, Hgd. unfold when. cbn [negb].
    intro H0. destruct (l_kind r); cbn; rewrite ?H0; reflexivity.
  Qed.

  Lemma class_effect_gram r u : u_gram (class_effect F r u) = u_gram u.
  Proof.
    unfold class_effect, when.
    destruct (f_except_restores F), (f_end_restores F), (f_restore_on_primitive F), (f_restore_on_immutable F), (f_restore_guarded F), (l_kind r); reflexivity.
  Qed.

  Lemma step_new_inv st s c : wf_cfg c -> inv st -> inv (fst (step st (New s c))).
  Proof.
    intros Hwf I. destruct I as [Igc Igk Ib Is Ii Ig].
    cbn [step]. unfold step_new.
    remember (c_debug c) as kd eqn:Ekd. remember (gp_km F c) as km eqn:Ekm.
    remember (match gparsers st kd km with Some gp => gp | None => {| gp_memo := c_memo c; gp_cache := [] |} end) as gp eqn:Egp.
    assert (Hgpc : gp_cache gp = []).
    { rewrite Egp. destruct (gparsers st kd km) eqn:E; [eapply Igc; exact E | reflexivity]. }
    assert (Hgpk : f_gp_key_memo F = true -> gp_memo gp = km).
    { intro Hk. rewrite Egp. destruct (gparsers st kd km) eqn:E; [eapply Igk; eassumption|].
      cbn. rewrite Ekm. unfold gp_km. rewrite Hk. reflexivity. }
    remember (create_out c {| gv_memo := gp_memo gp; gv_cache := gp_cache gp |}) as r eqn:Er.
    remember (match k_kind r with
                | CSyntax => classes st
                | _ => map_classes (c_classes c) (reown_u (next_ser st) (c_gram c)) (classes st) end) as cls eqn:Ecls.
    assert (Hcls_instr : forall id, u_instr (cls id) = 0).
    { rewrite Ecls. destruct (k_kind r); try exact Ii;
        apply (map_classes_pres (fun _ u => u_instr u = 0)); auto. }
    assert (Hcls_gram : forall id, u_gram (cls id) = None \/ u_gram (cls id) = Some (cls_gram id)).
    { rewrite Ecls. destruct (k_kind r); try exact Ig;
        apply (map_classes_pres (fun id u => u_gram u = None \/ u_gram u = Some (cls_gram id))); auto;
        intros id u Hin _; right; cbn; rewrite (Hwf id Hin); reflexivity. }
    assert (Hcls_keep : forall id, u_gram (classes st id) = Some (cls_gram id) -> u_gram (cls id) = Some (cls_gram id)).
    { rewrite Ecls. destruct (k_kind r); auto;
        intros id0 H0; revert id0 H0;
        apply (map_classes_pres (fun id u => u_gram (classes st id) = Some (cls_gram id) -> u_gram u = Some (cls_gram id))); auto;
        intros id u Hin _ _; cbn; rewrite (Hwf id Hin); reflexivity. }
    constructor; cbn [fst gparsers base_cache slots classes].
    - intros a b gp0. unfold upd2. destruct (Bool.eqb a kd && Bool.eqb b km)%bool.
      + intro E. inversion E; subst gp0. cbn. rewrite Hgpc. apply after_parse_nil.
      + apply Igc.
    - intros a b gp0. unfold upd2. destruct (Bool.eqb a kd && Bool.eqb b km)%bool eqn:Ek.
      + intros E Hk. inversion E; subst gp0. cbn. apply andb_true_iff in Ek as [_ Ek].
        apply Bool.eqb_prop in Ek. rewrite Ek. apply Hgpk. exact Hk.
      + apply Igk.
    - exact Ib.
    - intros s0 m0. destruct (k_kind r) eqn:Ek.
      + intro E. destruct (Is s0 m0 E) as (H1 & H2 & H2s & H3 & H4 & H5). repeat split; auto.
      + intro E. destruct (Is s0 m0 E) as (H1 & H2 & H2s & H3 & H4 & H5). repeat split; auto.
      + unfold upd. destruct (Nat.eqb s0 s).
        * intro E. inversion E; subst m0. cbn. repeat split; auto.
          -- intros id Hin. rewrite Ecls.
             apply (map_classes_hit (fun u => u_gram u = Some (cls_gram id))); [|exact Hin].
             intro u. cbn. rewrite (Hwf id Hin). reflexivity.
          -- exists (gp_memo gp). split.
             ++ rewrite Er, Hgpc in Ek. exact Ek.
             ++ intro Hk. rewrite (Hgpk Hk), Ekm. unfold gp_km. rewrite Hk. reflexivity.
        * intro E. destruct (Is s0 m0 E) as (H1 & H2 & H2s & H3 & H4 & H5). repeat split; auto.
    - exact Hcls_instr.
    - exact Hcls_gram.
  Qed.

  Lemma step_load_inv st s i : inv st -> inv (fst (step st (Load s i))).
  Proof.
    intros I. pose proof I as I0. destruct I as [Igc Igk Ib Is Ii Ig].
    cbn [step]. unfold step_load. destruct (slots st s) as [m|] eqn:Em; [|exact I0].
    destruct good_parts as (Hc & Hl & Hr & _ & _ & _ & _ & Hgd).
    set (c := m_cfg m). set (r := load_out c i (view_of st m)).
    destruct (Is s m Em) as (Hd & Hmc & Hst & Hwf & Hgr & Hok).
    constructor; cbn [fst gparsers base_cache slots classes].
    - exact Igc.
    - exact Igk.
    - rewrite Ib. destruct (c_base c); [apply after_parse_nil | reflexivity].
    - intros s0 m0. unfold upd. destruct (Nat.eqb s0 s).
      + intro E. inversion E; subst m0. cbn. rewrite Hd, Hl, Hr, Hmc, Hst, Hgd. cbn. repeat split; auto.
        * apply after_parse_nil.
        * rewrite andb_false_r. reflexivity.
        * intros id Hin. fold c.
          apply (leak_classes_pres (fun id u => u_gram (classes st id) = Some (cls_gram id) -> u_gram u = Some (cls_gram id))); auto.
          pose proof (map_classes_pres (fun id u => u_gram (classes st id) = Some (cls_gram id) -> u_gram u = Some (cls_gram id))
                        (c_classes c) (class_effect F r)) as P.
          apply P; auto. intros id' u _ H1 H2. rewrite class_effect_gram. auto.
      + intro E. destruct (Is s0 m0 E) as (H1 & H2 & H2s & H3 & H4 & H5). repeat split; auto.
        intros id Hin.
        apply (leak_classes_pres (fun id u => u_gram (classes st id) = Some (cls_gram id) -> u_gram u = Some (cls_gram id))); auto.
        pose proof (map_classes_pres (fun id u => u_gram (classes st id) = Some (cls_gram id) -> u_gram u = Some (cls_gram id))
                      (c_classes c) (class_effect F r)) as P.
        apply P; auto. intros id' u _ H1' H2'. rewrite class_effect_gram. auto.
    - apply (leak_classes_pres (fun _ u => u_instr u = 0)); auto.
      apply (map_classes_pres (fun _ u => u_instr u = 0)); auto. intros id u _. apply class_effect_instr.
    - apply (leak_classes_pres (fun id u => u_gram u = None \/ u_gram u = Some (cls_gram id))); auto.
      apply (map_classes_pres (fun id u => u_gram u = None \/ u_gram u = Some (cls_gram id))); auto.
      intros id u _. rewrite class_effect_gram. auto.
  Qed.


  (* ---------------------------------------------------------------- loads started from inside a load *)
  (* the invariant without the clause on the instrumentation counters (which are 1 for the classes of a load in progress) *)
  Record inv0 (st : pst) : Prop := {
    j_gp_cache : forall a b gp, gparsers st a b = Some gp -> gp_cache gp = [];
    j_gp_key : forall a b gp, gparsers st a b = Some gp -> f_gp_key_memo F = true -> gp_memo gp = b;
    j_base : base_cache st = [];
    j_slot : forall s m, slots st s = Some m ->
               m_bp_dirty m = false /\ m_cache m = [] /\ m_stale m = false /\ wf_cfg (m_cfg m) /\
               (forall id, In id (c_classes (m_cfg m)) -> u_gram (classes st id) = Some (cls_gram id)) /\
               (exists b, k_kind (create_out (m_cfg m) {| gv_memo := b; gv_cache := [] |}) = COk /\
                          (f_gp_key_memo F = true -> b = c_memo (m_cfg m)));
    j_gram : forall id, u_gram (classes st id) = None \/ u_gram (classes st id) = Some (cls_gram id)
  }.

  Lemma inv_to0 st : inv st -> inv0 st.
  Proof. intros [A B C D E G]. constructor; assumption. Qed.

  Lemma inv_of0 st : inv0 st -> (forall id, u_instr (classes st id) = 0) -> inv st.
  Proof. intros [A B C D G] E. constructor; assumption. Qed.

  Lemma class_effect_id r u : class_effect F r u = u.
  Proof.
    destruct good_parts as (_ & _ & _ & He & Hn & Hp & Him & Hgd).
    unfold class_effect. rewrite He, Hn, Hp, Him, Hgd. unfold when. cbn [negb].
    destruct u as [n st0 ow g]. destruct (l_kind r); reflexivity.
  Qed.

  Lemma finish_effect_instr r u : u_instr (finish_effect F r u) = Nat.pred (u_instr u).
  Proof.
    destruct good_parts as (_ & _ & _ & He & Hn & Hp & Him & Hgd).
    unfold finish_effect. rewrite He, Hn, Hp, Him, Hgd. unfold when. cbn [negb].
    destruct (l_kind r); reflexivity.
  Qed.

  Lemma finish_effect_gram r u : u_gram (finish_effect F r u) = u_gram u.
  Proof.
    unfold finish_effect, when.
    destruct (f_except_restores F), (f_end_restores F), (f_restore_on_primitive F), (f_restore_on_immutable F), (f_restore_guarded F), (l_kind r); reflexivity.
  Qed.

  Lemma step_load_classes_instr st s i id :
    u_instr (classes (fst (step st (Load s i))) id) = u_instr (classes st id).
  Proof.
    cbn [History.step]. unfold step_load. destruct (slots st s) as [m|]; [|reflexivity]. cbn [fst classes].
    apply (leak_classes_pres (fun id u => u_instr u = u_instr (classes st id))); auto.
    apply (map_classes_pres (fun id u => u_instr u = u_instr (classes st id))); auto.
    intros id' u _ H. rewrite class_effect_id. exact H.
  Qed.

  Lemma step_load_inv0 st s i : inv0 st -> inv0 (fst (step st (Load s i))).
  Proof.
    intros I. pose proof I as I0. destruct I as [Igc Igk Ib Is Ig].
    cbn [History.step]. unfold step_load. destruct (slots st s) as [m|] eqn:Em; [|exact I0].
    destruct good_parts as (Hc & Hl & Hr & _ & _ & _ & _ & Hgd).
    set (c := m_cfg m). set (r := load_out c i (view_of st m)).
    destruct (Is s m Em) as (Hd & Hmc & Hst & Hwf & Hgr & Hok).
    assert (Hkeep : forall id, u_gram (classes st id) = Some (cls_gram id) ->
              u_gram (leak_classes (c_classes c) (l_leak r) (map_classes (c_classes c) (class_effect F r) (classes st)) id) = Some (cls_gram id)).
    { intro id.
      apply (leak_classes_pres (fun id u => u_gram (classes st id) = Some (cls_gram id) -> u_gram u = Some (cls_gram id))); auto.
      apply (map_classes_pres (fun id u => u_gram (classes st id) = Some (cls_gram id) -> u_gram u = Some (cls_gram id))); auto.
      intros id' u _ H1 H2. rewrite class_effect_gram. auto. }
    constructor; cbn [fst gparsers base_cache slots classes].
    - exact Igc.
    - exact Igk.
    - rewrite Ib. destruct (c_base c); [apply after_parse_nil | reflexivity].
    - intros s0 m0. unfold upd. destruct (Nat.eqb s0 s).
      + intro E. inversion E; subst m0. cbn. rewrite Hd, Hl, Hr, Hmc, Hst, Hgd. cbn. repeat split; auto.
        * apply after_parse_nil.
        * rewrite andb_false_r. reflexivity.
      + intro E. destruct (Is s0 m0 E) as (H1 & H2 & H2s & H3 & H4 & H5). repeat split; auto.
    - apply (leak_classes_pres (fun id u => u_gram u = None \/ u_gram u = Some (cls_gram id))); auto.
      apply (map_classes_pres (fun id u => u_gram u = None \/ u_gram u = Some (cls_gram id))); auto.
      intros id u _. rewrite class_effect_gram. auto.
  Qed.

  Lemma replace_gram ids cl id : u_gram (map_classes ids replace_u cl id) = u_gram (cl id).
  Proof. apply (map_classes_pres (fun id u => u_gram u = u_gram (cl id))); auto. Qed.

  Lemma begin_inv0 st s m i : inv0 st -> slots st s = Some m -> inv0 (begin_load F st s m i).
  Proof.
    intros [Igc Igk Ib Is Ig] Em.
    destruct good_parts as (Hc & Hl & Hr & _).
    destruct (Is s m Em) as (Hd & Hmc & Hst & Hwf & Hgr & Hok).
    constructor; unfold begin_load; cbn [gparsers base_cache slots classes].
    - exact Igc.
    - exact Igk.
    - rewrite Ib. destruct (c_base (m_cfg m)); [apply after_parse_nil | reflexivity].
    - intros s0 m0. unfold upd. destruct (Nat.eqb s0 s).
      + intro E. inversion E; subst m0. cbn. rewrite Hd, Hl, Hr, Hmc. cbn. repeat split; auto.
        * apply after_parse_nil.
        * intros id Hin. rewrite replace_gram. apply Hgr. exact Hin.
      + intro E. destruct (Is s0 m0 E) as (H1 & H2 & H2s & H3 & H4 & H5). repeat split; auto.
        intros id Hin. rewrite replace_gram. apply H4. exact Hin.
    - intro id. rewrite replace_gram. apply Ig.
  Qed.

  Lemma finish_gram c r cl id :
    u_gram (leak_classes (c_classes c) (l_leak r) (map_classes (c_classes c) (finish_effect F r) cl) id) = u_gram (cl id).
  Proof.
    apply (leak_classes_pres (fun id u => u_gram u = u_gram (cl id))); auto.
    apply (map_classes_pres (fun id u => u_gram u = u_gram (cl id))); auto.
    intros id' u _ H. rewrite finish_effect_gram. exact H.
  Qed.

  Lemma finish_inv0 st s c r : inv0 st -> inv0 (finish_load F st s c r).
  Proof.
    intros [Igc Igk Ib Is Ig].
    constructor; unfold finish_load; cbn [gparsers base_cache slots classes].
    - exact Igc.
    - exact Igk.
    - exact Ib.
    - intros s0 m0. destruct (slots st s) as [m|] eqn:Em.
      + unfold upd. destruct (Nat.eqb s0 s).
        * intro E. inversion E; subst m0. cbn.
          destruct (Is s m Em) as (H1 & H2 & H2s & H3 & H4 & H5). repeat split; auto.
          intros id Hin. rewrite finish_gram. apply H4. exact Hin.
        * intro E. destruct (Is s0 m0 E) as (H1 & H2 & H2s & H3 & H4 & H5). repeat split; auto.
          intros id Hin. rewrite finish_gram. apply H4. exact Hin.
      + intro E. destruct (Is s0 m0 E) as (H1 & H2 & H2s & H3 & H4 & H5). repeat split; auto.
        intros id Hin. rewrite finish_gram. apply H4. exact Hin.
    - intro id. rewrite finish_gram. apply Ig.
  Qed.

  Lemma iter_replace_instr k u : u_instr (Nat.iter k replace_u u) = k + u_instr u.
  Proof.
    induction k as [|k IH]; [reflexivity|].
    change (Nat.iter (S k) replace_u u) with (replace_u (Nat.iter k replace_u u)). cbn [u_instr replace_u]. rewrite IH. reflexivity.
  Qed.

  Lemma iter_finish_instr r k u : u_instr (Nat.iter k (finish_effect F r) u) = u_instr u - k.
  Proof.
    induction k as [|k IH]; [cbn; lia|].
    change (Nat.iter (S k) (finish_effect F r) u) with (finish_effect F r (Nat.iter k (finish_effect F r) u)).
    rewrite finish_effect_instr, IH. lia.
  Qed.

  (* the counters a load started by a provider of the load (s, m) sees: one per occurrence in the outer class list *)
  Definition held (m : mm) (id : nat) : nat := count_occ Nat.eq_dec (c_classes (m_cfg m)) id.

  Lemma begin_instr st s m i id : (forall id, u_instr (classes st id) = 0) ->
    u_instr (classes (begin_load F st s m i) id) = held m id.
  Proof.
    intro H0. unfold begin_load, held. cbn [classes]. rewrite map_classes_iter, iter_replace_instr, H0. lia.
  Qed.

  Lemma step_nested_inv st s i ph s' i' : inv st -> inv (fst (step st (Nested s i ph s' i'))).
  Proof.
    intro I. cbn [History.step]. unfold step_nested. destruct (slots st s) as [m|] eqn:Em; [|exact I].
    destruct ph.
    - (* provider phase *)
      destruct (step_load F load_out (begin_load F st s m i) s' i') as [st2 o2] eqn:E2. cbn [fst].
      assert (E2' : st2 = fst (step (begin_load F st s m i) (Load s' i'))) by (cbn [History.step]; rewrite E2; reflexivity).
      assert (I2 : inv0 st2).
      { rewrite E2'. apply step_load_inv0. apply begin_inv0; [apply inv_to0; exact I | exact Em]. }
      apply inv_of0; [apply finish_inv0; exact I2|].
      intro id. unfold finish_load. cbn [classes].
      apply (leak_classes_pres (fun _ u => u_instr u = 0)); auto.
      intro id0. rewrite map_classes_iter, iter_finish_instr.
      rewrite E2', step_load_classes_instr, (begin_instr st s m i id0 (i_instr st I)). unfold held. lia.
    - (* after the outer load has restored: two loads in a row *)
      destruct (step_load F load_out (fst (step_load F load_out st s i)) s' i') as [st2 o2] eqn:E2. cbn [fst].
      assert (E2' : st2 = fst (step (fst (step st (Load s i))) (Load s' i'))) by (cbn [History.step]; rewrite E2; reflexivity).
      rewrite E2'. apply step_load_inv. apply step_load_inv. exact I.
  Qed.

  Lemma step_inv st o : wf_op o -> inv st -> inv (fst (step st o)).
  Proof.
    destruct o as [s c|s i|s i ph s' i']; intros Hwf I;
      [apply step_new_inv; assumption | apply step_load_inv; assumption | apply step_nested_inv; assumption].
  Qed.

  Lemma run_fst st ops : forall o, fst (run st (o :: ops)) = fst (run (fst (step st o)) ops).
  Proof.
    intro o. cbn [History.run]. destruct (step st o) as [st1 x]. cbn [fst].
    destruct (run st1 ops) as [st2 xs]. reflexivity.
  Qed.

  Lemma run_inv ops : forall st, Forall wf_op ops -> inv st -> inv (fst (run st ops)).
  Proof.
    induction ops as [|o ops IH]; intros st Hwf I.
    - exact I.
    - rewrite run_fst. inversion Hwf; subst. apply IH; [assumption | apply step_inv; assumption].
  Qed.

  Lemma final_inv ops : Forall wf_op ops -> inv (final ops).
  Proof. intro H. unfold final, History.final. apply run_inv; [exact H | apply inv_init]. Qed.

  (* ---------------------------------------------------------------- results in a canonical state *)
  Lemma view_canonical st s m : inv st -> slots st s = Some m ->
    view_of st m = fresh_view (m_cfg m) (if c_repo (m_cfg m) then m_repo m else []).
  Proof.
    intros [Igc Igk Ib Is Ii Ig] Em. destruct (Is s m Em) as (Hd & Hmc & Hst & Hwf & Hgr & _).
    unfold view_of, fresh_view. rewrite Hd, Hmc, Hst, Ib. f_equal.
    - destruct (c_base (m_cfg m)); reflexivity.
    - apply map_ext. intro id. apply Ii.
    - apply map_ext_in. intros id Hin. rewrite (Hgr id Hin), (Hwf id Hin). reflexivity.
  Qed.

  Lemma load_result st s m i : inv st -> slots st s = Some m ->
    result st (Load s i) = OLoad (load_out (m_cfg m) i (fresh_view (m_cfg m) (if c_repo (m_cfg m) then m_repo m else []))).
  Proof.
    intros I Em. unfold result, History.result. cbn [History.step]. unfold step_load. rewrite Em. cbn [snd].
    rewrite (view_canonical st s m I Em). reflexivity.
  Qed.

  (* ---------------------------------------------------------------- the load started by a provider *)
  Definition set_instr (v : view) (l : list nat) : view :=
    {| v_memo := v_memo v; v_bp_dirty := v_bp_dirty v; v_caches := v_caches v; v_instr := l; v_cgram := v_cgram v;
       v_repo := v_repo v; v_stale := v_stale v |}.
  (* attribute access on objects that are not under construction does not depend on whether their class is
     instrumented (what the delegation to the class's own methods achieves) *)
  Definition instr_blind : Prop := forall c i v l, load_out c i (set_instr v l) = load_out c i v.

  Lemma nested_provider_view st s m i s' m' : inv st -> slots st s = Some m ->
    slots (begin_load F st s m i) s' = Some m' ->
    view_of (begin_load F st s m i) m'
    = set_instr (fresh_view (m_cfg m') (if c_repo (m_cfg m') then m_repo m' else [])) (map (held m) (c_classes (m_cfg m'))).
  Proof.
    intros I Em Em'. pose proof (begin_inv0 st s m i (inv_to0 st I) Em) as [_ _ Jb Js _].
    destruct (Js s' m' Em') as (Hd & Hmc & Hst & Hwf & Hgr & _).
    unfold view_of, fresh_view, set_instr. cbn [v_memo v_bp_dirty v_caches v_instr v_cgram v_repo v_stale].
    rewrite Hd, Hmc, Hst, Jb. f_equal.
    - destruct (c_base (m_cfg m')); reflexivity.
    - apply map_ext. intro id. apply begin_instr. apply (i_instr st I).
    - apply map_ext_in. intros id Hin. rewrite (Hgr id Hin), (Hwf id Hin). reflexivity.
  Qed.

  (* the inner load answers exactly what the same load answers at top level in the state the outer load started from *)
  Theorem nested_provider_inner st s m i s' m' i' : inv st -> instr_blind ->
    slots st s = Some m -> slots st s' = Some m' ->
    snd (step st (Nested s i PhProvider s' i'))
    = ONest (load_out (m_cfg m) i (fresh_view (m_cfg m) (if c_repo (m_cfg m) then m_repo m else []))) (result st (Load s' i')).
  Proof.
    intros I Hb Em Em'. cbn [History.step]. unfold step_nested. rewrite Em.
    rewrite (view_canonical st s m I Em).
    destruct (step_load F load_out (begin_load F st s m i) s' i') as [st2 o2] eqn:E2. cbn [snd]. f_equal.
    rewrite (load_result st s' m' i' I Em').
    unfold step_load in E2.
    destruct (slots (begin_load F st s m i) s') as [mb|] eqn:Eb.
    - inversion E2 as [[E2a E2b]]. f_equal.
      rewrite (nested_provider_view st s m i s' mb I Em Eb), Hb.
      unfold begin_load in Eb. cbn [slots] in Eb. unfold upd in Eb. destruct (Nat.eqb s' s) eqn:Es.
      + apply Nat.eqb_eq in Es. subst s'. rewrite Em in Em'. inversion Em'; subst m'. inversion Eb; subst mb. reflexivity.
      + rewrite Em' in Eb. inversion Eb; subst mb. reflexivity.
    - exfalso. unfold begin_load in Eb. cbn [slots] in Eb. unfold upd in Eb. destruct (Nat.eqb s' s); [discriminate | congruence].
  Qed.

  Lemma create_result st s c : inv st ->
    exists b, result st (New s c) = OCreate (create_out c {| gv_memo := b; gv_cache := [] |}) /\
              (f_gp_key_memo F = true -> b = c_memo c).
  Proof.
    intros [Igc Igk Ib Is Ii Ig]. unfold result, History.result. cbn [History.step]. unfold step_new. cbn [snd].
    destruct (gparsers st (c_debug c) (gp_km F c)) as [gp|] eqn:E.
    - exists (gp_memo gp). rewrite (Igc _ _ _ E). split; [reflexivity|].
      intro Hk. rewrite (Igk _ _ _ E Hk). unfold gp_km. rewrite Hk. reflexivity.
    - exists (c_memo c). split; reflexivity.
  Qed.

  (* memo-transparency of the textX-grammar parser: from empty caches, building a metamodel gives
     the same outcome whether or not the cached grammar parser memoizes *)
  Definition grammar_memo_transparent : Prop :=
    forall c b, create_out c {| gv_memo := b; gv_cache := [] |} = create_out c (fresh_gview c).

  Definition cache_ok : Prop := f_gp_key_memo F = true \/ grammar_memo_transparent.

  Lemma create_fresh st s c : cache_ok -> inv st -> result st (New s c) = OCreate (create_out c (fresh_gview c)).
  Proof.
    intros Hc I. destruct (create_result st s c I) as (b & Hr & Hb). rewrite Hr. f_equal.
    destruct Hc as [Hk|Ht]; [rewrite (Hb Hk); reflexivity | apply Ht].
  Qed.

  Lemma create_independent ops s c : cache_ok -> Forall wf_op ops ->
    result (final ops) (New s c) = result init (New s c).
  Proof.
    intros Hc Hwf. rewrite (create_fresh _ s c Hc (final_inv ops Hwf)), (create_fresh _ s c Hc inv_init). reflexivity.
  Qed.

  Lemma fresh_slot s c : k_kind (create_out c (fresh_gview c)) = COk ->
    slots (final [New s c]) s = Some {| m_cfg := c; m_ser := 1; m_bp_dirty := false; m_cache := []; m_repo := []; m_stale := false |}.
  Proof.
    intro Hk. unfold final, History.final. cbn. unfold fresh_gview in Hk. rewrite Hk. cbn. unfold upd. rewrite Nat.eqb_refl. reflexivity.
  Qed.

  (* the headline: after ANY history, a load answers what the same configuration answers on a fresh process *)
  Theorem history_independent ops s m i : cache_ok -> Forall wf_op ops ->
    slots (final ops) s = Some m -> c_repo (m_cfg m) = false ->
    result (final ops) (Load s i) = result (final [New s (m_cfg m)]) (Load s i).
  Proof.
    intros Hc Hwf Em Hrepo. set (c := m_cfg m) in *.
    pose proof (final_inv ops Hwf) as I.
    rewrite (load_result _ s m i I Em). fold c. rewrite Hrepo.
    assert (Hok : k_kind (create_out c (fresh_gview c)) = COk).
    { destruct I as [_ _ _ Is _ _]. destruct (Is s m Em) as (_ & _ & _ & _ & _ & b & Hb & Hbk). fold c in Hb, Hbk.
      destruct Hc as [Hk|Ht]; [rewrite (Hbk Hk) in Hb; exact Hb | rewrite <- (Ht c b); exact Hb]. }
    assert (Hwf1 : Forall wf_op [New s c]).
    { constructor; [|constructor]. destruct I as [_ _ _ Is _ _]. destruct (Is s m Em) as (_ & _ & _ & H & _). exact H. }
    rewrite (load_result _ s _ i (final_inv _ Hwf1) (fresh_slot s c Hok)). cbn [m_cfg m_repo]. fold c. rewrite Hrepo. reflexivity.
  Qed.

  (* with a global repository the view differs from the fresh one only in the cached files *)
  Definition set_repo (v : view) (r : list nat) : view :=
    {| v_memo := v_memo v; v_bp_dirty := v_bp_dirty v; v_caches := v_caches v; v_instr := v_instr v; v_cgram := v_cgram v; v_repo := r; v_stale := v_stale v |}.
  (* returning a cached model is not observable in the structural dump (unchanged files, idempotent processors) *)
  Definition repo_blind : Prop :=
    forall c i v r, l_kind (load_out c i (set_repo v r)) = l_kind (load_out c i v) /\
                    l_dump (load_out c i (set_repo v r)) = l_dump (load_out c i v).

  Definition out_obs (o : out) : option (lkind * nat) :=
    match o with OLoad r => Some (l_kind r, l_dump r) | _ => None end.

  Theorem history_independent_repo ops s m i : cache_ok -> repo_blind -> Forall wf_op ops ->
    slots (final ops) s = Some m ->
    out_obs (result (final ops) (Load s i)) = out_obs (result (final [New s (m_cfg m)]) (Load s i)).
  Proof.
    intros Hc Hb Hwf Em. set (c := m_cfg m) in *.
    pose proof (final_inv ops Hwf) as I.
    rewrite (load_result _ s m i I Em). fold c.
    assert (Hok : k_kind (create_out c (fresh_gview c)) = COk).
    { destruct I as [_ _ _ Is _ _]. destruct (Is s m Em) as (_ & _ & _ & _ & _ & b & Hb' & Hbk). fold c in Hb', Hbk.
      destruct Hc as [Hk|Ht]; [rewrite (Hbk Hk) in Hb'; exact Hb' | rewrite <- (Ht c b); exact Hb']. }
    assert (Hwf1 : Forall wf_op [New s c]).
    { constructor; [|constructor]. destruct I as [_ _ _ Is _ _]. destruct (Is s m Em) as (_ & _ & _ & H & _). exact H. }
    rewrite (load_result _ s _ i (final_inv _ Hwf1) (fresh_slot s c Hok)). cbn [m_cfg m_repo]. fold c.
    cbn [out_obs].
    set (r1 := if c_repo c then m_repo m else []). set (r2 := if c_repo c then [] else []).
    destruct (Hb c i (fresh_view c r2) r1) as [H1 H2].
    change (set_repo (fresh_view c r2) r1) with (fresh_view c r1) in H1, H2.
    rewrite H1, H2. reflexivity.
  Qed.
End Inv.

(* ------------------------------------------------------------------ necessity: what breaks it *)
Definition good_facts : facts := {| f_gp_key_memo := false; f_clear_in_finally := true; f_loads_use_clone := true;
  f_clone_resets := true; f_except_restores := true; f_end_restores := true; f_restore_on_primitive := true; f_restore_on_immutable := true; f_restore_guarded := true |}.

(* the code before the fix: a primitive model leaves the user classes instrumented *)
Definition prefix_facts : facts := {| f_gp_key_memo := false; f_clear_in_finally := true; f_loads_use_clone := true;
  f_clone_resets := true; f_except_restores := true; f_end_restores := true; f_restore_on_primitive := false; f_restore_on_immutable := false; f_restore_guarded := true |}.

Definition wit_cfg : cfg := {| c_gram := 0; c_memo := false; c_debug := false; c_base := true; c_classes := [7]; c_repo := false; c_root_user := false; c_opts := 0 |}.
Definition wit_create (_ : cfg) (_ : gview) : cres := {| k_kind := COk; k_dump := 0 |}.
(* input 0 is a primitive model; the dump of any other input shows whether a user class was instrumented when the load began *)
Definition wit_load (_ : cfg) (i : nat) (v : view) : lres :=
  match i with
  | 0 => {| l_kind := LOkPrim; l_dump := 0; l_leak := []; l_files := [] |}
  | _ => {| l_kind := LOk; l_dump := fold_left Nat.add (v_instr v) 0 + length (v_caches v); l_leak := []; l_files := [] |}
  end.

Lemma prim_leak_refuted :
  result prefix_facts wit_create wit_load (final prefix_facts wit_create wit_load [New 0 wit_cfg; Load 0 0]) (Load 0 1)
  <> result prefix_facts wit_create wit_load (final prefix_facts wit_create wit_load [New 0 wit_cfg]) (Load 0 1).
Proof. vm_compute. discriminate. Qed.

Lemma prim_leak_fixed :
  result good_facts wit_create wit_load (final good_facts wit_create wit_load [New 0 wit_cfg; Load 0 0]) (Load 0 1)
  = result good_facts wit_create wit_load (final good_facts wit_create wit_load [New 0 wit_cfg]) (Load 0 1).
Proof. vm_compute. reflexivity. Qed.

(* a restore limited to int/float/str/bool models (`type(model) in PRIMITIVE_PYTHON_TYPES`): a root value of another
   immutable type (a match rule converted to Decimal, a tuple ...) leaves the classes instrumented *)
Definition primonly_facts : facts := {| f_gp_key_memo := false; f_clear_in_finally := true; f_loads_use_clone := true;
  f_clone_resets := true; f_except_restores := true; f_end_restores := true; f_restore_on_primitive := true;
  f_restore_on_immutable := false; f_restore_guarded := true |}.
(* input 0: a primitive model, input 2: a non-primitive immutable model; other inputs show the counters they start from *)
Definition wit_load_imm (c : cfg) (i : nat) (v : view) : lres :=
  match i with
  | 2 => {| l_kind := LOkImm; l_dump := 0; l_leak := []; l_files := [] |}
  | _ => wit_load c i v
  end.

Lemma immutable_model_leak_refuted :
  result primonly_facts wit_create wit_load_imm (final primonly_facts wit_create wit_load_imm [New 0 wit_cfg; Load 0 0; Load 0 2]) (Load 0 1)
  <> result primonly_facts wit_create wit_load_imm (final primonly_facts wit_create wit_load_imm [New 0 wit_cfg]) (Load 0 1).
Proof. vm_compute. discriminate. Qed.

Lemma immutable_model_primitive_ok :
  result primonly_facts wit_create wit_load_imm (final primonly_facts wit_create wit_load_imm [New 0 wit_cfg; Load 0 0]) (Load 0 1)
  = result primonly_facts wit_create wit_load_imm (final primonly_facts wit_create wit_load_imm [New 0 wit_cfg]) (Load 0 1).
Proof. vm_compute. reflexivity. Qed.

(* without the clearing in `finally`, a memoizing load leaves entries that the next load of the metamodel reads *)
Definition noclear_facts : facts := {| f_gp_key_memo := false; f_clear_in_finally := false; f_loads_use_clone := true;
  f_clone_resets := true; f_except_restores := true; f_end_restores := true; f_restore_on_primitive := true; f_restore_on_immutable := true; f_restore_guarded := true |}.
Definition wit_cfg_memo : cfg := {| c_gram := 0; c_memo := true; c_debug := false; c_base := true; c_classes := []; c_repo := false; c_root_user := false; c_opts := 0 |}.

Lemma no_clear_refuted :
  result noclear_facts wit_create wit_load (final noclear_facts wit_create wit_load [New 0 wit_cfg_memo; Load 0 1]) (Load 0 2)
  <> result noclear_facts wit_create wit_load (final noclear_facts wit_create wit_load [New 0 wit_cfg_memo]) (Load 0 2).
Proof. vm_compute. discriminate. Qed.

(* the code before the second fix: the except path of a nested load (an imported file that fails to
   parse) un-instruments the classes of the enclosing load; the half-built model stays in the global
   repository and the next load of the file sees it *)
Definition unguarded_facts : facts := {| f_gp_key_memo := false; f_clear_in_finally := true; f_loads_use_clone := true;
  f_clone_resets := true; f_except_restores := true; f_end_restores := true; f_restore_on_primitive := true; f_restore_on_immutable := true; f_restore_guarded := false |}.
Definition wit_cfg_repo : cfg := {| c_gram := 3; c_memo := false; c_debug := false; c_base := false; c_classes := [5]; c_repo := true;
                                    c_root_user := true; c_opts := 0 |}.
(* input 3 imports a file that does not parse; a stale repository entry turns the error into a "model" *)
Definition wit_load_repo (_ : cfg) (i : nat) (v : view) : lres :=
  if v_stale v then {| l_kind := LOk; l_dump := 99; l_leak := []; l_files := [] |}
  else {| l_kind := LImportSyntax; l_dump := 1; l_leak := [1]; l_files := [3; 4] |}.

Lemma unguarded_restore_refuted :
  result unguarded_facts wit_create wit_load_repo (final unguarded_facts wit_create wit_load_repo [New 0 wit_cfg_repo; Load 0 3]) (Load 0 3)
  <> result unguarded_facts wit_create wit_load_repo (final unguarded_facts wit_create wit_load_repo [New 0 wit_cfg_repo]) (Load 0 3).
Proof. vm_compute. discriminate. Qed.

Lemma unguarded_restore_fixed :
  result good_facts wit_create wit_load_repo (final good_facts wit_create wit_load_repo [New 0 wit_cfg_repo; Load 0 3]) (Load 0 3)
  = result good_facts wit_create wit_load_repo (final good_facts wit_create wit_load_repo [New 0 wit_cfg_repo]) (Load 0 3).
Proof. vm_compute. reflexivity. Qed.

(* the grammar-parser cache is keyed by the debug flag only: if memoization of the GRAMMAR parser were
   observable, metamodel creation would depend on which metamodel was created first *)
Definition flip_memo (c : cfg) : cfg :=
  {| c_gram := c_gram c; c_memo := negb (c_memo c); c_debug := c_debug c; c_base := c_base c; c_classes := [];
     c_repo := c_repo c; c_root_user := false; c_opts := c_opts c |}.

Lemma memo_flag_visible F create_out load_out c :
  good F = true -> f_gp_key_memo F = false ->
  create_out c {| gv_memo := negb (c_memo c); gv_cache := [] |} <> create_out c {| gv_memo := c_memo c; gv_cache := [] |} ->
  result F create_out load_out (final F create_out load_out [New 0 (flip_memo c)]) (New 1 c)
  <> result F create_out load_out init (New 1 c).
Proof.
  intros Hg Hk Hne.
  assert (Hc : f_clear_in_finally F = true).
  { unfold good in Hg. repeat (apply andb_true_iff in Hg as [Hg ?]). assumption. }
  unfold result, final, History.run. cbn [History.step].
  unfold step_new at 3. cbn [snd init gparsers].
  unfold step_new at 2. cbn [fst init gparsers gp_keys].
  unfold step_new. cbn [snd gparsers]. unfold gp_km. rewrite Hk. cbn [flip_memo c_debug c_memo c_gram].
  unfold upd2. rewrite Bool.eqb_reflx. cbn [andb Bool.eqb gp_memo gp_cache].
  unfold after_parse. rewrite Hc.
  intro E. inversion E as [E1]. apply Hne. revert E1.
  destruct (c_memo c); cbn; intro E1; exact E1.
Qed.

(* a load started from a scope provider runs while the outer load holds the instrumentation: if attribute access on
   finished objects depended on it (as before the fix: a user __setattr__ was bypassed) the inner load would differ
   from the same load at top level *)
Lemma nested_provider_refuted :
  let st := final good_facts wit_create wit_load [New 0 wit_cfg] in
  snd (step good_facts wit_create wit_load st (Nested 0 1 PhProvider 0 1))
  <> ONest (wit_load wit_cfg 1 (fresh_view wit_cfg [])) (result good_facts wit_create wit_load st (Load 0 1)).
Proof. vm_compute. discriminate. Qed.

Lemma nested_after_ok :
  let st := final good_facts wit_create wit_load [New 0 wit_cfg] in
  snd (step good_facts wit_create wit_load st (Nested 0 1 PhAfter 0 1))
  = ONest (wit_load wit_cfg 1 (fresh_view wit_cfg [])) (result good_facts wit_create wit_load st (Load 0 1)).
Proof. vm_compute. reflexivity. Qed.
