From TxV Require Import Core.Base Model.FsDefs Gen.SrcFs Model.Fs.
Require Import Lia.

(* bookkeeping of the injected low-level failure: it has not fired before event n / it fires before event T *)
Definition ok_before (fl : failure) (n : nat) : Prop := match fl with AtFlush e _ _ => n <= e | _ => True end.
Definition fired (fl : failure) (T : nat) : Prop := match fl with AtFlush e _ _ => e < T | _ => False end.
Definition nonempty {A} (l : list A) : bool := match l with [] => false | _ => true end.
Definition b2n (b : bool) : nat := if b then 1 else 0.

Lemma fails_true : forall fl n, ok_before fl n -> fails fl n = true -> fired fl (S n).
Proof.
  intros fl n Hb Hf. destruct fl as [| |e pers part| |]; cbn in *; try discriminate.
  destruct pers; [apply Nat.leb_le in Hf | apply Nat.eqb_eq in Hf]; lia.
Qed.

Lemma fails_false : forall fl n, ok_before fl n -> fails fl n = false -> ok_before fl (S n).
Proof.
  intros fl n Hb Hf. destruct fl as [| |e pers part| |]; cbn in *; try exact I.
  destruct pers; [apply Nat.leb_gt in Hf | apply Nat.eqb_neq in Hf]; lia.
Qed.

Lemma fired_mono : forall fl T T', fired fl T -> T <= T' -> fired fl T'.
Proof. intros fl T T' H Hle. destruct fl; cbn in *; try contradiction. lia. Qed.

Lemma ok_fired_absurd : forall fl T, ok_before fl T -> fired fl T -> False.
Proof. intros fl T H1 H2. destruct fl; cbn in *; try contradiction. lia. Qed.

Lemma nonempty_snoc : forall (l : list nat) c, nonempty (l ++ [c]) = true.
Proof. intros l c. destruct l; reflexivity. Qed.

(* one low-level write while the data goes to the temporary name: the target is not touched *)
Lemma raw_event_spec : forall fl o tw keep c,
  h_loc (o_h o) = AtTemp -> temp (o_disk o) = Some c -> ok_before fl (o_ev o) ->
  forall o' raised, raw_event fl o tw keep = (o', raised) ->
  target (o_disk o') = target (o_disk o) /\ h_loc (o_h o') = AtTemp /\ o_ev o' = S (o_ev o) /\
  (exists c', temp (o_disk o') = Some c' /\ (raised = false -> c' = c ++ map Chunk tw)) /\
  (raised = false -> pending (o_h o') = keep /\ ok_before fl (S (o_ev o))) /\
  (raised = true -> fired fl (S (o_ev o))).
Proof.
  intros fl o tw keep c Hl Ht Hb o' raised E. unfold raw_event in E. rewrite Hl in E.
  destruct (fails fl (o_ev o)) eqn:F; inversion E; subst o' raised; clear E; cbn [o_disk o_h o_ev h_loc pending].
  - split; [destruct (leaves_part fl); [unfold append_at; rewrite Ht|]; reflexivity|].
    split; [reflexivity|]. split; [reflexivity|].
    split; [destruct (leaves_part fl); [unfold append_at; rewrite Ht; cbn [temp]|]; eexists; (split; [eassumption || reflexivity | discriminate])|].
    split; [discriminate|]. intros _. apply fails_true; assumption.
  - unfold append_at. rewrite Ht. cbn [target temp].
    split; [reflexivity|]. split; [reflexivity|]. split; [reflexivity|].
    split; [eexists; split; [reflexivity|reflexivity]|].
    split; [intros _; split; [reflexivity | apply fails_false; assumption] | discriminate].
Qed.

(* the generator's writes while the data goes to the temporary name *)
Lemma write_loop_spec : forall chunks sched fl o c,
  h_loc (o_h o) = AtTemp -> temp (o_disk o) = Some c -> ok_before fl (o_ev o) ->
  forall o' raised, write_loop chunks sched fl o = (o', raised) ->
  target (o_disk o') = target (o_disk o) /\ h_loc (o_h o') = AtTemp /\
  (exists c', temp (o_disk o') = Some c' /\
     (raised = false -> c' ++ map Chunk (pending (o_h o')) = c ++ map Chunk (pending (o_h o)) ++ map Chunk chunks)) /\
  (raised = false -> ok_before fl (o_ev o') /\
     o_ev o' + b2n (nonempty (pending (o_h o'))) = o_ev o + n_events_from chunks sched (nonempty (pending (o_h o)))) /\
  (raised = true -> fired fl (o_ev o + n_events_from chunks sched (nonempty (pending (o_h o))))).
Proof.
  induction chunks as [|c0 r IH]; intros sched fl o c Hl Ht Hb o' raised E; cbn [write_loop n_events_from] in *.
  - inversion E; subst o' raised. split; [reflexivity|]. split; [assumption|].
    split; [exists c; split; [assumption | intros _; cbn [map]; rewrite app_nil_r; reflexivity]|].
    split; [intros _; split; [assumption | destruct (pending (o_h o)); reflexivity] | discriminate].
  - destruct (hd Buf sched).
    + (* Buf *)
      specialize (IH (tl sched) fl (buffer c0 o) c Hl Ht Hb o' raised E).
      cbn [buffer o_disk o_h o_ev pending h_loc] in IH. rewrite nonempty_snoc in IH.
      destruct IH as [I1 [I2 [[c' [I3 I4]] [I5 I6]]]].
      split; [assumption|]. split; [assumption|].
      split; [exists c'; split; [assumption|]; intro Hr; rewrite (I4 Hr), map_app, <- !app_assoc; reflexivity|].
      split; assumption.
    + (* FlushAll *)
      destruct (raw_event fl o (pending (o_h o) ++ [c0]) []) as [o1 r1] eqn:R.
      destruct (raw_event_spec fl o _ _ c Hl Ht Hb o1 r1 R) as [R1 [R2 [R3 [[c1 [R4 R5]] [R6 R7]]]]].
      destruct r1.
      * inversion E; subst o' raised.
        split; [assumption|]. split; [assumption|].
        split; [exists c1; split; [assumption | discriminate]|].
        split; [discriminate|]. intros _. eapply fired_mono; [apply R7; reflexivity | lia].
      * destruct (R6 eq_refl) as [Rp Rb]. specialize (R5 eq_refl).
        assert (Hb1 : ok_before fl (o_ev o1)) by (rewrite R3; assumption).
        specialize (IH (tl sched) fl o1 c1 R2 R4 Hb1 o' raised E). rewrite Rp in IH. cbn [nonempty] in IH.
        destruct IH as [I1 [I2 [[c' [I3 I4]] [I5 I6]]]].
        split; [congruence|]. split; [assumption|].
        split; [exists c'; split; [assumption|]; intro Hr; rewrite (I4 Hr), R5, map_app; cbn [map app]; rewrite <- !app_assoc; reflexivity|].
        split.
        -- intro Hr. destruct (I5 Hr) as [J1 J2]. split; [assumption|]. rewrite J2, R3. lia.
        -- intro Hr. eapply fired_mono; [apply (I6 Hr) | rewrite R3; lia].
    + (* FlushKeep *)
      destruct (raw_event fl o (pending (o_h o)) [c0]) as [o1 r1] eqn:R.
      destruct (raw_event_spec fl o _ _ c Hl Ht Hb o1 r1 R) as [R1 [R2 [R3 [[c1 [R4 R5]] [R6 R7]]]]].
      destruct r1.
      * inversion E; subst o' raised.
        split; [assumption|]. split; [assumption|].
        split; [exists c1; split; [assumption | discriminate]|].
        split; [discriminate|]. intros _. eapply fired_mono; [apply R7; reflexivity | lia].
      * destruct (R6 eq_refl) as [Rp Rb]. specialize (R5 eq_refl).
        assert (Hb1 : ok_before fl (o_ev o1)) by (rewrite R3; assumption).
        specialize (IH (tl sched) fl o1 c1 R2 R4 Hb1 o' raised E). rewrite Rp in IH. cbn [nonempty] in IH.
        destruct IH as [I1 [I2 [[c' [I3 I4]] [I5 I6]]]].
        split; [congruence|]. split; [assumption|].
        split; [exists c'; split; [assumption|]; intro Hr; rewrite (I4 Hr), R5; cbn [map app]; rewrite <- !app_assoc; reflexivity|].
        split.
        -- intro Hr. destruct (I5 Hr) as [J1 J2]. split; [assumption|]. rewrite J2, R3. lia.
        -- intro Hr. eapply fired_mono; [apply (I6 Hr) | rewrite R3; lia].
Qed.

(* `with open(tmp, 'w') as f: write(f)` from a state without an open file: the target is not touched, the
   file is closed, and without an exception the temporary file holds the complete output *)
Lemma open_write_spec : forall f chunks sched fl e, writes_to_temp = true -> fl <> AtOpen ->
  forall st raised, exec (POpen PWrite) chunks sched fl e (init f) = (st, raised) ->
  hnd st = None /\ target (disk st) = target f /\
  (exists c, temp (disk st) = Some c /\ (raised = false -> c = complete chunks)) /\
  (raised = false -> fl <> AtClose /\ ok_before fl (n_events chunks sched)) /\
  (raised = true -> fl = AtClose \/ fired fl (n_events chunks sched)).
Proof.
  intros f chunks sched fl e Hw Hno st raised E.
  assert (E' : (let '(st1, r1) := exec PWrite chunks sched fl e (open_file (init f)) in
                let '(st2, r2) := close fl st1 in (st2, (r1 || r2)%bool)) = (st, raised)).
  { destruct fl; try exact E. exfalso. apply Hno. reflexivity. }
  clear E. unfold open_file in E'. rewrite Hw in E'. cbn [exec init disk hnd ev] in E'.
  set (o0 := opened _ _) in E'.
  destruct (write_loop chunks sched fl o0) as [o1 r1] eqn:W.
  assert (Hb0 : ok_before fl (o_ev o0)) by (destruct fl; cbn; try exact I; lia).
  destruct (write_loop_spec chunks sched fl o0 [] eq_refl eq_refl Hb0 o1 r1 W) as [W1 [W2 [[c1 [W3 W4]] [W5 W6]]]].
  cbn [o0 opened o_disk o_h o_ev target disk ev hnd pending nonempty map app Nat.add] in W1, W4, W5, W6.
  unfold close in E'. cbn [still_open hnd] in E'. unfold opened, still_open in E'. cbn [disk ev hnd] in E'.
  destruct (pending (o_h o1)) as [|p0 pr] eqn:P.
  - (* nothing left to flush *)
    inversion E'; subst st raised; clear E'. cbn [hnd disk].
    split; [reflexivity|]. split; [assumption|].
    split.
    { exists c1. split; [assumption|]. intro Hr. apply orb_false_iff in Hr. destruct Hr as [Hr _].
      specialize (W4 Hr). cbn [map] in W4. rewrite app_nil_r in W4. exact W4. }
    split.
    + intro Hr. apply orb_false_iff in Hr. destruct Hr as [Hr Hc]. split; [intro; subst fl; discriminate|].
      destruct (W5 Hr) as [J1 J2]. cbn [nonempty b2n] in J2. unfold n_events. rewrite <- J2, Nat.add_0_r. exact J1.
    + intro Hr. apply orb_true_iff in Hr. destruct Hr as [Hr|Hr]; [right; apply W6; exact Hr|].
      left. destruct fl; try discriminate. reflexivity.
  - (* the flush inside close *)
    set (o1' := {| o_disk := o_disk o1; o_h := o_h o1; o_ev := o_ev o1 |}) in E'.
    destruct (raw_event fl o1' (p0 :: pr) []) as [o2 r2] eqn:R.
    inversion E'; subst st raised; clear E'. cbn [hnd disk].
    destruct r1.
    + (* the writes already raised *)
      destruct (raw_event fl o1' (p0 :: pr) []) as [o2' r2'] eqn:R' in R. inversion R; subst o2' r2'.
      assert (Hd : target (o_disk o2) = target (o_disk o1) /\ exists c2, temp (o_disk o2) = Some c2).
      { unfold raw_event in R'. cbn [o1' o_h o_disk o_ev] in R'. rewrite W2 in R'.
        destruct (fails fl (o_ev o1)); inversion R'; subst o2; cbn [o_disk];
          [destruct (leaves_part fl)|]; unfold append_at; rewrite ?W3; cbn [target temp]; (split; [reflexivity | eexists; eassumption || reflexivity]). }
      destruct Hd as [Hd1 [c2 Hd2]].
      split; [reflexivity|]. split; [congruence|].
      split; [exists c2; split; [assumption | discriminate]|].
      split; [discriminate|]. intros _. right. apply W6. reflexivity.
    + destruct (W5 eq_refl) as [J1 J2]. cbn [nonempty b2n] in J2.
      destruct (raw_event_spec fl o1' (p0 :: pr) [] c1 W2 W3 J1 o2 r2 R) as [R1 [R2 [R3 [[c2 [R4 R5]] [R6 R7]]]]].
      cbn [o1' o_disk o_ev] in R1, R3, R6, R7.
      split; [reflexivity|]. split; [congruence|].
      split.
      { exists c2. split; [assumption|]. intro Hr. cbn [orb] in Hr. apply orb_false_iff in Hr. destruct Hr as [Hr _].
        rewrite (R5 Hr). specialize (W4 eq_refl). exact W4. }
      split.
      * intro Hr. cbn [orb] in Hr. apply orb_false_iff in Hr. destruct Hr as [Hr Hc]. split; [intro; subst fl; discriminate|].
        destruct (R6 Hr) as [_ K]. unfold n_events. rewrite <- J2. replace (o_ev o1 + 1) with (S (o_ev o1)) by lia. exact K.
      * intro Hr. cbn [orb] in Hr. apply orb_true_iff in Hr. destruct Hr as [Hr|Hr].
        -- right. unfold n_events. rewrite <- J2. replace (o_ev o1 + 1) with (S (o_ev o1)) by lia. apply R7. exact Hr.
        -- left. destruct fl; try discriminate. reflexivity.
Qed.

Lemma fl_is_open : forall fl, fl = AtOpen \/ fl <> AtOpen.
Proof. intro fl. destruct fl; (left; reflexivity) || (right; discriminate). Qed.

(* The exporters' protocol, as translated from the source. *)
Lemma protocol_is : protocol = PTry (PSeq (POpen PWrite) PReplace) PRemoveTmp /\ writes_to_temp = true /\ temp_same_dir = true.
Proof. repeat split; reflexivity. Qed.

(* all-or-nothing: whatever the buffering and the failure point, afterwards the target is either complete or
   exactly what it was before (absent if it was absent), and no temporary file remains *)
Theorem export_atomic : forall xd f chunks sched fl, temp f = None ->
  let '(f', raised) := export xd f chunks sched fl in
  temp f' = None /\
  (if raised then target f' = target f else target f' = Some (complete chunks)) /\
  (raised = false <-> fl = NoFailure \/ (exists e p q, fl = AtFlush e p q /\ n_events chunks sched <= e)).
Proof.
  intros xd f chunks sched fl Ht. destruct protocol_is as [P1 [P2 P3]].
  unfold export, run. rewrite P1, P3. set (en := {| xdev := xd; same_dir := true |}).
  assert (Hcd : cross_device en = false) by (unfold cross_device, en; cbn [xdev same_dir negb]; apply andb_false_r).
  assert (Hx : forall st, exec (PTry (PSeq (POpen PWrite) PReplace) PRemoveTmp) chunks sched fl en st =
    let '(st1, raised) := (let '(sta, ra) := exec (POpen PWrite) chunks sched fl en st in
                           if ra then (sta, true) else exec PReplace chunks sched fl en sta) in
    if raised then (fst (exec PRemoveTmp chunks sched fl en st1), true) else (st1, false)) by reflexivity.
  rewrite Hx. clear Hx.
  destruct (fl_is_open fl) as [Ho|Ho].
  - (* open() fails *)
    subst fl. cbn. split; [reflexivity|]. split; [reflexivity|]. split; [discriminate|].
    intros [H|[e [p [q [H _]]]]]; discriminate.
  - destruct (exec (POpen PWrite) chunks sched fl en (init f)) as [st1 r1] eqn:E.
    destruct (open_write_spec f chunks sched fl en P2 Ho st1 r1 E) as [S1 [S2 [[c [S3 S4]] [S5 S6]]]].
    destruct r1.
    + (* the write block raised: the handler removes the temporary file *)
      cbn [fst exec disk target temp].
      split; [reflexivity|]. split; [assumption|]. split; [discriminate|].
      intros [H|[e [p [q [H Hle]]]]]; subst fl; destruct (S6 eq_refl) as [K|K]; try discriminate; cbn in K; try contradiction; lia.
    + destruct (S5 eq_refl) as [Hc Hb]. specialize (S4 eq_refl). subst c.
      destruct fl as [| |e p q| |]; first [exfalso; apply Ho; reflexivity | exfalso; apply Hc; reflexivity | idtac]; cbn [exec]; rewrite ?Hcd, ?S3; cbn [fst disk target temp].
      * split; [reflexivity|]. split; [reflexivity|]. split; [intros _; left; reflexivity | reflexivity].
      * split; [reflexivity|]. split; [reflexivity|]. split; [|reflexivity].
        intros _. right. exists e, p, q. split; [reflexivity | exact Hb].
      * split; [reflexivity|]. split; [assumption|]. split; [discriminate|].
        intros [H|[e [p [q [H _]]]]]; discriminate.
Qed.

(* a failed run from scratch followed by a later run without --overwrite regenerates the file *)
Theorem rerun_regenerates : forall xd chunks sched fl chunks' sched',
  let f0 := {| target := None; temp := None |} in
  let '(f1, raised) := gen_file xd false f0 chunks sched fl in
  raised = true ->
  gen_file xd false f1 chunks' sched' NoFailure = ({| target := Some (complete chunks'); temp := None |}, false).
Proof.
  intros xd chunks sched fl chunks' sched'. cbv zeta. unfold gen_file at 1. cbn [target orb negb andb].
  rewrite andb_false_r. cbn [negb].
  pose proof (export_atomic xd {| target := None; temp := None |} chunks sched fl eq_refl) as H.
  destruct (export xd _ chunks sched fl) as [f1 raised]. destruct H as [Ht [Hg _]]. intro Hr. subst raised.
  cbn [target] in Hg. unfold gen_file. rewrite Hg. rewrite andb_false_r. cbn [negb orb].
  pose proof (export_atomic xd f1 chunks' sched' NoFailure Ht) as H2.
  destruct (export xd f1 chunks' sched' NoFailure) as [f2 r2]. destruct H2 as [Ht2 [Hg2 Hr2]].
  assert (r2 = false) by (apply Hr2; left; reflexivity). subst r2.
  destruct f2 as [tg tm]. cbn in *. subst. reflexivity.
Qed.

(* an existing complete file is never touched without --overwrite *)
Lemma existing_kept xd c chunks sched fl : forall t, gen_file xd false {| target := Some c; temp := t |} chunks sched fl = ({| target := Some c; temp := t |}, false).
Proof. intro t. unfold gen_file. cbn. reflexivity. Qed.

(* the same for a byte buffer of any capacity (the buffering of io.BufferedWriter) *)
Corollary export_atomic_buffered : forall xd cap sizes f chunks fl, temp f = None ->
  let '(f', raised) := export xd f chunks (sched_of_buffer cap sizes 0) fl in
  temp f' = None /\ (if raised then target f' = target f else target f' = Some (complete chunks)).
Proof.
  intros xd cap sizes f chunks fl Ht. pose proof (export_atomic xd f chunks (sched_of_buffer cap sizes 0) fl Ht) as H.
  destruct (export xd f chunks (sched_of_buffer cap sizes 0) fl) as [f' raised]. destruct H as [H1 [H2 _]]. split; assumption.
Qed.

(* why the order matters: the same statements with os.replace moved inside the `with open` block (before the
   close that flushes the buffer) are not atomic - a failure of the flush at close truncates the target *)
Definition early_replace : prog := POpen (PTry (PSeq PWrite PReplace) PRemoveTmp).
Lemma early_replace_not_atomic : writes_to_temp = true -> forall xd,
  run early_replace {| xdev := xd; same_dir := true |} {| target := None; temp := None |} [0; 1; 2] [] (AtFlush 0 true false)
  = ({| target := Some []; temp := None |}, true).
Proof. intros Hw xd. unfold run, early_replace. cbn [exec]. unfold open_file. rewrite Hw. destruct xd; vm_compute; reflexivity. Qed.

(* why the place of the temporary file and the publication primitive matter: the same statements with the temporary
   file in the system temporary folder and shutil.move.  When that folder is on another file system than the output
   folder the rename fails and shutil.move copies: a failure of the copy's low-level write (event 1; event 0 is the
   flush in close) leaves a truncated target.  On the same file system, or with the temporary file next to the
   target, the same failure point is never reached and the file is published by the rename.  With os.replace and a
   temporary file on another file system nothing is ever published. *)
Definition moved : prog := PTry (PSeq (POpen PWrite) PMove) PRemoveTmp.
Lemma move_across_devices_not_atomic : writes_to_temp = true ->
  run moved {| xdev := true; same_dir := false |} {| target := None; temp := None |} [0; 1; 2] [] (AtFlush 1 true false)
    = ({| target := Some []; temp := None |}, true) /\
  run moved {| xdev := true; same_dir := false |} {| target := Some [Chunk 9]; temp := None |} [0; 1; 2] [] (AtFlush 1 true true)
    = ({| target := Some [Chunk 0]; temp := None |}, true) /\
  run moved {| xdev := false; same_dir := false |} {| target := None; temp := None |} [0; 1; 2] [] (AtFlush 1 true false)
    = ({| target := Some (complete [0; 1; 2]); temp := None |}, false) /\
  run moved {| xdev := true; same_dir := true |} {| target := None; temp := None |} [0; 1; 2] [] (AtFlush 1 true false)
    = ({| target := Some (complete [0; 1; 2]); temp := None |}, false) /\
  run (PTry (PSeq (POpen PWrite) PReplace) PRemoveTmp) {| xdev := true; same_dir := false |} {| target := None; temp := None |} [0; 1; 2] [] NoFailure
    = ({| target := None; temp := None |}, true).
Proof. intro Hw. unfold run, moved. cbn [exec]. unfold open_file. rewrite Hw. vm_compute. repeat split; reflexivity. Qed.
