From TxV Require Import Core.Base Gen.SrcFs Model.Fs.

Lemma write_all_ok : forall chunks idx acc fl,
  (forall k p, fl <> AtWrite k p) -> write_all chunks idx fl acc = (acc ++ map Chunk chunks, false).
Proof.
  induction chunks as [|c r IH]; intros idx acc fl H; cbn [write_all map].
  - rewrite app_nil_r. reflexivity.
  - destruct fl; try (rewrite IH by assumption; rewrite <- app_assoc; reflexivity).
    exfalso. apply (H k partial). reflexivity.
Qed.

Lemma write_all_fail_free : forall chunks idx acc k p,
  snd (write_all chunks idx (AtWrite k p) acc) = false ->
  write_all chunks idx (AtWrite k p) acc = (acc ++ map Chunk chunks, false).
Proof.
  induction chunks as [|c r IH]; intros idx acc k p H; cbn [write_all map] in *.
  - rewrite app_nil_r. reflexivity.
  - destruct (Nat.eqb k idx); [discriminate|]. rewrite IH by assumption. rewrite <- app_assoc. reflexivity.
Qed.

(* The exporters' protocol is the atomic one. *)
Lemma protocol_atomic : writes_to_temp = true /\ replace_after_close = true /\ removes_temp_on_error = true.
Proof. repeat split; reflexivity. Qed.

(* all-or-nothing: whatever the failure point, afterwards the target is either complete or
   exactly what it was before (absent if it was absent), and no temporary file remains *)
Lemma write_all_raises : forall chunks idx acc k p, idx <= k -> k < idx + length chunks ->
  snd (write_all chunks idx (AtWrite k p) acc) = true.
Proof.
  induction chunks as [|c r IH]; intros idx acc k p H1 H2; cbn [write_all length] in *; [lia|].
  destruct (Nat.eqb k idx) eqn:Ek; [reflexivity|]. apply Nat.eqb_neq in Ek. apply IH; lia.
Qed.

Lemma write_all_passes : forall chunks idx acc k p, length chunks + idx <= k ->
  snd (write_all chunks idx (AtWrite k p) acc) = false.
Proof.
  induction chunks as [|c r IH]; intros idx acc k p Hle; cbn [write_all]; [reflexivity|].
  cbn [length] in Hle. replace (Nat.eqb k idx) with false by (symmetry; apply Nat.eqb_neq; lia). apply IH. lia.
Qed.

Theorem export_atomic : forall f chunks fl, temp f = None ->
  let '(f', raised) := export f chunks fl in
  temp f' = None /\
  (if raised then target f' = target f else target f' = Some (complete chunks)) /\
  (raised = false <-> fl = NoFailure \/ (exists k p, fl = AtWrite k p /\ length chunks <= k)).
Proof.
  intros f chunks fl Ht. destruct protocol_atomic as [P1 [P2 P3]].
  unfold export, on_error, set_open. rewrite P1, P2, P3. cbn [andb].
  destruct fl as [| |k p| |].
  - rewrite write_all_ok by (intros; discriminate). cbn. split; [reflexivity|]. split; [reflexivity|].
    split; [intros _; left; reflexivity | reflexivity].
  - cbn. split; [assumption|]. split; [reflexivity|]. split; [discriminate|].
    intros [H|[k [p [H _]]]]; discriminate.
  - destruct (write_all chunks 0 (AtWrite k p) []) as [content raised] eqn:E.
    destruct raised.
    + cbn. split; [reflexivity|]. split; [reflexivity|]. split; [discriminate|].
      intros [H|[k' [p' [H Hl]]]]; [discriminate|]. inversion H; subst k' p'.
      pose proof (write_all_passes chunks 0 [] k p ltac:(lia)) as G. rewrite E in G. discriminate.
    + pose proof (write_all_fail_free chunks 0 [] k p) as W. rewrite E in W. specialize (W eq_refl). inversion W; subst.
      cbn. split; [reflexivity|]. split; [reflexivity|]. split; [|reflexivity].
      intros _. right. exists k, p. split; [reflexivity|].
      destruct (Nat.le_gt_cases (length chunks) k) as [H|H]; [exact H|].
      pose proof (write_all_raises chunks 0 [] k p ltac:(lia) ltac:(lia)) as G. rewrite E in G. discriminate.
  - rewrite write_all_ok by (intros; discriminate). cbn. split; [reflexivity|]. split; [reflexivity|].
    split; [discriminate|]. intros [H|[k [p [H _]]]]; discriminate.
  - rewrite write_all_ok by (intros; discriminate). cbn. split; [reflexivity|]. split; [reflexivity|].
    split; [discriminate|]. intros [H|[k [p [H _]]]]; discriminate.
Qed.

(* a failed run from scratch followed by a later run without --overwrite regenerates the file *)
Theorem rerun_regenerates : forall chunks fl chunks',
  let f0 := {| target := None; temp := None |} in
  let '(f1, raised) := gen_file false f0 chunks fl in
  raised = true ->
  gen_file false f1 chunks' NoFailure = ({| target := Some (complete chunks'); temp := None |}, false).
Proof.
  intros chunks fl chunks'. cbv zeta. unfold gen_file at 1. cbn [target orb negb andb].
  rewrite andb_false_r. cbn [negb].
  pose proof (export_atomic {| target := None; temp := None |} chunks fl eq_refl) as H.
  destruct (export _ chunks fl) as [f1 raised]. destruct H as [Ht [Hg _]]. intro Hr. subst raised.
  cbn [target] in Hg. unfold gen_file. rewrite Hg. rewrite andb_false_r. cbn [negb orb].
  pose proof (export_atomic f1 chunks' NoFailure Ht) as H2.
  destruct (export f1 chunks' NoFailure) as [f2 r2]. destruct H2 as [Ht2 [Hg2 Hr2]].
  assert (r2 = false) by (apply Hr2; left; reflexivity). subst r2.
  destruct f2 as [tg tm]. cbn in *. subst. reflexivity.
Qed.

(* an existing complete file is never touched without --overwrite *)
Lemma existing_kept c chunks fl : forall t, gen_file false {| target := Some c; temp := t |} chunks fl = ({| target := Some c; temp := t |}, false).
Proof. intro t. unfold gen_file. cbn. reflexivity. Qed.
