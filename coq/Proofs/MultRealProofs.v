(* C02 — realisability: when maxcount says "many", the body really allows a trace with two values,
   so a list is needed (the "exactly when" of the property, against the grammar-structure semantics). *)
From Coq Require Import Permutation Lia.
From TxV Require Import Core.Base Model.MultBase Gen.SrcMult Model.Mult Proofs.MultProofs Proofs.MultFlowProofs.

Lemma values_of_app a t1 t2 : values_of a (t1 ++ t2) = values_of a t1 ++ values_of a t2.
Proof. unfold values_of. apply flat_map_app. Qed.

Lemma emits_seq_each l t : emits_seq l t -> exists ts, emits_each l ts /\ t = concat ts.
Proof.
  revert t. induction l as [|x l IH]; intros t H; cbn [emits_seq] in H.
  - exists []. split; [exact I | exact H].
  - destruct H as [t1 [t2 [-> [H1 H2]]]]. destruct (IH _ H2) as [ts [He ->]].
    exists (t1 :: ts). split; [split; assumption | reflexivity].
Qed.

Section Real.
  Variable a : nat.
  Notation nv t := (length (values_of a t)).

  Definition real_spec (c : nat) (E : list ev -> Prop) : Prop :=
    (exists t, E t) /\ (1 <= c -> exists t, E t /\ 1 <= nv t) /\ (2 <= c -> exists t, E t /\ 2 <= nv t).

  Lemma real_seq l :
    Forall (fun x => alts_nonempty x = true -> real_spec (maxcount a x) (emits x)) l ->
    forallb alts_nonempty l = true ->
    real_spec (list_sum (map (maxcount a) l)) (emits_seq l).
  Proof.
    induction 1 as [|x l Hx Hl IH]; intro Hne; cbn [forallb] in Hne.
    - split; [exists []; reflexivity|]. cbn. split; intro; lia.
    - apply andb_true_iff in Hne as [Nx Nl]. specialize (Hx Nx). specialize (IH Nl).
      destruct Hx as [[tx0 X0] [X1 X2]]. destruct IH as [[tl0 L0] [L1 L2]].
      cbn [map list_sum fold_right]. fold (list_sum (map (maxcount a) l)).
      set (cx := maxcount a x) in *. set (cl := list_sum (map (maxcount a) l)) in *.
      assert (mk : forall t1 t2, emits x t1 -> emits_seq l t2 -> emits_seq (x :: l) (t1 ++ t2))
        by (intros t1 t2 H1 H2; exists t1, t2; auto).
      split; [exists (tx0 ++ tl0); auto|]. split; intro Hc.
      + destruct (le_lt_dec 1 cx) as [L|L].
        * destruct (X1 L) as [t1 [H1 N1]]. exists (t1 ++ tl0). split; [auto|]. rewrite values_of_app, app_length. lia.
        * destruct L1 as [t2 [H2 N2]]; [lia|]. exists (tx0 ++ t2). split; [auto|]. rewrite values_of_app, app_length. lia.
      + destruct (le_lt_dec 2 cx) as [L|L].
        * destruct (X2 L) as [t1 [H1 N1]]. exists (t1 ++ tl0). split; [auto|]. rewrite values_of_app, app_length. lia.
        * destruct (le_lt_dec 1 cx) as [K|K].
          -- destruct (X1 K) as [t1 [H1 N1]]. destruct L1 as [t2 [H2 N2]]; [lia|].
             exists (t1 ++ t2). split; [auto|]. rewrite values_of_app, app_length. lia.
          -- destruct L2 as [t2 [H2 N2]]; [lia|]. exists (tx0 ++ t2). split; [auto|]. rewrite values_of_app, app_length. lia.
  Qed.

  Lemma real_spec_imp c c' (E E' : list ev -> Prop) :
    (forall t, E t -> E' t) -> (1 <= c' -> 1 <= c) -> (2 <= c' -> 2 <= c) -> real_spec c E -> real_spec c' E'.
  Proof.
    intros HE H1 H2 [[t0 T0] [R1 R2]]. split; [exists t0; auto|]. split; intro Hc.
    - destruct (R1 (H1 Hc)) as [t [Ht N]]. exists t. auto.
    - destruct (R2 (H2 Hc)) as [t [Ht N]]. exists t. auto.
  Qed.

  Lemma realisable_all b : alts_nonempty b = true -> real_spec (maxcount a b) (emits b).
  Proof.
    induction b as [|a' op|l IH|l IH|x IH|x IH|x IH|l IH] using body_ind'; intro Hne; cbn [alts_nonempty] in Hne.
    - split; [exists []; reflexivity|]. cbn [maxcount]. split; intro; lia.
    - assert (E1 : forall vs, ev_ok (Ev a' op vs) -> emits (BAsg a' op) [Ev a' op vs])
        by (intros vs Hok; left; exists (Ev a' op vs); repeat split; exact Hok).
      cbn [maxcount]. destruct (Nat.eqb a a') eqn:Ea.
      + destruct op.
        * assert (H : emits (BAsg a' OpPlain) [Ev a' OpPlain [SInt 0]]) by (apply E1; exists (SInt 0); reflexivity).
          split; [eexists; exact H|]. split; intro Hc; [|lia]. eexists. split; [exact H|].
          unfold values_of. cbn [flat_map ev_attr]. rewrite Ea. cbn. lia.
        * assert (H : emits (BAsg a' OpBool) [Ev a' OpBool []]) by (apply E1; reflexivity).
          split; [eexists; exact H|]. split; intro Hc; [|lia]. eexists. split; [exact H|].
          unfold values_of. cbn [flat_map ev_attr]. rewrite Ea. cbn. lia.
        * assert (H : emits (BAsg a' OpStar) [Ev a' OpStar [SInt 0; SInt 1]]) by (apply E1; exact I).
          split; [eexists; exact H|]. split; intro Hc; (eexists; split; [exact H|]);
            unfold values_of; cbn [flat_map ev_attr]; rewrite Ea; cbn; lia.
        * assert (H : emits (BAsg a' OpPlus) [Ev a' OpPlus [SInt 0; SInt 1]]) by (apply E1; exact I).
          split; [eexists; exact H|]. split; intro Hc; (eexists; split; [exact H|]);
            unfold values_of; cbn [flat_map ev_attr]; rewrite Ea; cbn; lia.
      + split; [|split; intro; lia]. destruct op.
        * eexists. apply E1. exists (SInt 0). reflexivity.
        * eexists. apply E1. reflexivity.
        * eexists. apply (E1 []). exact I.
        * eexists. apply (E1 [SInt 0]). exact I.
    - cbn [maxcount]. eapply real_spec_imp; [| | |apply (real_seq l IH Hne)].
      + intros t H. apply emits_BSeq, H.
      + apply cap2_ge1.
      + apply cap2_ge2.
    - apply andb_true_iff in Hne as [Hnil Hne]. cbn [maxcount].
      rewrite Forall_forall in IH. rewrite forallb_forall in Hne.
      assert (pick : forall k, 1 <= k -> k <= list_max (map (maxcount a) l) -> exists x, In x l /\ k <= maxcount a x).
      { intros k Hk Hle. apply list_max_ge in Hle as [n [Hn Hle]]; [|exact Hk].
        apply in_map_iff in Hn as [x [<- Hx]]. exists x. auto. }
      split; [|split; intro Hc].
      + destruct l as [|x l]; [discriminate|]. destruct (IH x (or_introl eq_refl) (Hne x (or_introl eq_refl))) as [[t T] _].
        exists t. apply emits_BAlt. exists x. split; [left; reflexivity | exact T].
      + destruct (pick 1 (le_n 1) Hc) as [x [Hx Hm]]. destruct (IH x Hx (Hne x Hx)) as [_ [R1 _]].
        destruct (R1 Hm) as [t [T N]]. exists t. split; [apply emits_BAlt; exists x; auto | exact N].
      + destruct (pick 2 (le_S 1 1 (le_n 1)) Hc) as [x [Hx Hm]]. destruct (IH x Hx (Hne x Hx)) as [_ [_ R2]].
        destruct (R2 Hm) as [t [T N]]. exists t. split; [apply emits_BAlt; exists x; auto | exact N].
    - cbn [maxcount]. eapply real_spec_imp; [| | |apply (IH Hne)]; [|auto|auto].
      intros t H. right. exact H.
    - cbn [maxcount]. destruct (IH Hne) as [_ [R1 _]].
      split; [exists []; exists []; split; [reflexivity | constructor]|].
      assert (two : 1 <= maxcount a x -> exists t, emits (BStar x) t /\ 2 <= nv t).
      { intro Hc. destruct (R1 Hc) as [t [T N]]. exists (t ++ t). split.
        - exists [t; t]. split; [cbn [concat]; rewrite app_nil_r; reflexivity | repeat constructor; exact T].
        - rewrite values_of_app, app_length. lia. }
      split; intro Hc; (destruct (maxcount a x); [lia|]); destruct two as [t [T N]]; try lia; exists t; split; try exact T; lia.
    - cbn [maxcount]. destruct (IH Hne) as [[t0 T0] [R1 _]].
      split; [exists t0; exists [t0]; split; [discriminate|]; split; [cbn [concat]; rewrite app_nil_r; reflexivity | repeat constructor; exact T0]|].
      assert (two : 1 <= maxcount a x -> exists t, emits (BPlus x) t /\ 2 <= nv t).
      { intro Hc. destruct (R1 Hc) as [t [T N]]. exists (t ++ t). split.
        - exists [t; t]. split; [discriminate|]. split; [cbn [concat]; rewrite app_nil_r; reflexivity | repeat constructor; exact T].
        - rewrite values_of_app, app_length. lia. }
      split; intro Hc; (destruct (maxcount a x); [lia|]); destruct two as [t [T N]]; try lia; exists t; split; try exact T; lia.
    - cbn [maxcount]. eapply real_spec_imp; [| | |apply (real_seq l IH Hne)].
      + intros t H. apply emits_BUnord. destruct (emits_seq_each l t H) as [ts [He ->]].
        exists ts, ts. split; [apply Permutation_refl | split; [reflexivity | exact He]].
      + apply cap2_ge1.
      + apply cap2_ge2.
  Qed.

  Theorem many_realisable b :
    alts_nonempty b = true -> 2 <= maxcount a b -> exists t, emits b t /\ 2 <= length (values_of a t).
  Proof. intros Hne Hc. destruct (realisable_all b Hne) as [_ [_ R2]]. exact (R2 Hc). Qed.
End Real.

Lemma values_weight a t : Forall ev_ok t -> cap2 (length (values_of a t)) <= cap2 (weight a t).
Proof.
  induction 1 as [|e t He Ht IH]; [cbn; lia|].
  unfold weight. cbn [map list_sum fold_right values_of flat_map]. fold (list_sum (map (ev_weight a) t)). fold (weight a t).
  fold (values_of a t). rewrite app_length. unfold ev_weight, ev_values. unfold ev_ok in He.
  destruct (Nat.eqb a (ev_attr e)); [|cbn [length]; unfold cap2 in *; lia].
  destruct (ev_op e).
  - destruct He as [v ->]. cbn [length]. unfold cap2 in *. lia.
  - cbn [length]. unfold cap2 in *. lia.
  - unfold cap2 in *. lia.
  - unfold cap2 in *. lia.
Qed.

(* list-valued exactly when the rule body allows one object to collect two or more values *)
Theorem list_exactly_when b a :
  alts_nonempty b = true ->
  (is_list (infer b a) = true <-> exists t, emits b t /\ 2 <= length (values_of a t)).
Proof.
  intro Hne. rewrite infer_list_iff. split.
  - apply many_realisable, Hne.
  - intros [t [He Hn]]. pose proof (emits_weight a b t He) as Hw. pose proof (emits_events b t He) as Hev.
    assert (Hok : Forall ev_ok t) by (eapply Forall_impl; [|exact Hev]; intros e [_ H]; exact H).
    pose proof (values_weight a t Hok) as Hv. unfold cap2 in *. lia.
Qed.

Lemma nonvacuous_realisable :
  alts_nonempty witness_body = true /\ 2 <= maxcount 0 witness_body.
Proof. split; [reflexivity | vm_compute; lia]. Qed.
