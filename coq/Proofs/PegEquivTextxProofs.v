(* The textX instance of the checker soundness theorem: depends on the generated parser tables
   (Gen/SrcLangPeg.v, Gen/SrcTxPeg.v), so it is re-proved whenever the source under test changes,
   while the general proofs in Proofs/PegEquivProofs.v are not rebuilt. *)
From TxV Require Import Core.Base Model.PegSyntax Model.Peg Proofs.PegProofs Model.PegEquiv Proofs.PegEquivProofs
  Proofs.PegEquivAccProofs.
From TxV Require Import Gen.SrcLangPeg Gen.SrcTxPeg.

Definition textx_R : list (nat * nat * bool) :=
  reach_all lang_grammar tx_grammar (seeds_of lang_labels tx_labels textx_seeds).

(* oracle ids of the regular expressions assumed never to match the empty string *)
Definition textx_ne : list nat := ne_of lang_oracles textx_nonempty_patterns.

Definition accepted_pair (p : nat * nat * bool) : bool :=
  match p with
  | (i, j, _) => existsb (lp_eqb (label_of lang_labels i, label_of tx_labels j)) textx_accepted_diffs
  end.

(* every pair of the traversal passes the local check or is an accepted difference *)
Lemma textx_pairs :
  frame_ok lang_grammar tx_grammar textx_R = true /\
  forallb (fun p => local_ok lang_grammar tx_grammar textx_ne false [] textx_R p || accepted_pair p) textx_R = true.
Proof. vm_compute. split; reflexivity. Qed.

Theorem textx_modulo_accepted input orc :
  orc_nonempty textx_ne orc ->
  (forall p, In p textx_R -> accepted_pair p = true -> sem_ok lang_grammar tx_grammar textx_ne input orc p) ->
  forall cfg f1 f2,
  outcome_rel (run lang_grammar cfg orc false f1 input) (run tx_grammar cfg orc false f2 input).
Proof.
  intros Hne H cfg f1 f2. destruct textx_pairs as [F A].
  apply (rel_sound lang_grammar tx_grammar textx_ne textx_R input orc Hne F).
  intros p HIn. rewrite forallb_forall in A. specialize (A p HIn). apply orb_true_iff in A as [A|A].
  - left. exact A.
  - right. apply H; assumption.
Qed.

(* memoization: both tables have a comment model, so they are outside the class of C19's theorem *)
Lemma textx_not_ctx_constant :
  PegProofs.ctx_constant lang_grammar = false /\ PegProofs.ctx_constant tx_grammar = false.
Proof. vm_compute. split; reflexivity. Qed.

(* ---------------------------------------------------------------- acceptance only (weak mode) *)
Definition textx_alts : list (nat * nat * nat) := alts_of lang_oracles textx_alt_patterns.

Definition accepted_pair_acc (p : nat * nat * bool) : bool :=
  match p with
  | (i, j, _) => existsb (lp_eqb (label_of lang_labels i, label_of tx_labels j)) textx_accepted_diffs_acc
  end.

Lemma textx_pairs_acc :
  frame_ok lang_grammar tx_grammar textx_R = true /\
  forallb (fun p => local_ok lang_grammar tx_grammar textx_ne true textx_alts textx_R p || accepted_pair_acc p) textx_R = true /\
  c_skipws lang_config = true /\ length textx_alts = length textx_alt_patterns.
Proof. vm_compute. repeat split. Qed.

Theorem textx_accepts_modulo_accepted input orc :
  orc_nonempty textx_ne orc -> orc_alts textx_alts orc ->
  (forall p, In p textx_R -> accepted_pair_acc p = true -> sem_okW lang_grammar tx_grammar textx_ne input orc p) ->
  forall f1 f2,
  run lang_grammar lang_config orc false f1 input <> Aborted 0 ->
  run tx_grammar tx_config orc false f2 input <> Aborted 0 ->
  PegEquiv.accepts (run lang_grammar lang_config orc false f1 input) =
  PegEquiv.accepts (run tx_grammar tx_config orc false f2 input).
Proof.
  intros Hne Halt H f1 f2 A1 A2. destruct textx_pairs_acc as (F & A & SK & _).
  assert (CE : tx_config = lang_config) by (vm_compute; reflexivity). rewrite CE in *.
  assert (O : outcome_acc (run lang_grammar lang_config orc false f1 input) (run tx_grammar lang_config orc false f2 input)).
  { apply (rel_sound_acc lang_grammar tx_grammar textx_ne textx_alts textx_R input orc Hne Halt F); [|exact SK].
    intros p HIn. rewrite forallb_forall in A. specialize (A p HIn). apply orb_true_iff in A as [A|A].
    - left. exact A.
    - right. apply H; assumption. }
  destruct O as [O|[O|O]]; [contradiction | contradiction |].
  destruct (run lang_grammar lang_config orc false f1 input), (run tx_grammar lang_config orc false f2 input);
    try contradiction; reflexivity.
Qed.
