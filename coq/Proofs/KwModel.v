(* C20 / C21 at the level of the constructed model: the parse-level theorems composed with the
   simulation of model construction (Proofs/KwBuild.v over Model/Build.v). *)
From TxV Require Import Core.Base Model.PegSyntax Model.Peg Model.Build Model.KwDefs Gen.SrcKw Model.Kw
     Proofs.PegCongr Proofs.PegInv Proofs.KwProofs Proofs.KwBuild.

Lemma slice_same input p len : Build.slice input p len = KwProofs.slice input p len.
Proof. reflexivity. Qed.

(* ---------------------------------------------------------------- C20 *)
(* the cased letters that were changed do not lie inside a match converted by a base type *)
Definition base_matches_unchanged (g : grammar) (s s' : list N) (r : res) : Prop :=
  forall nid p len, In (nid, p, len) (res_terminals r) -> is_base5 (rule_of g nid) = true ->
                    KwProofs.slice s' p len = KwProofs.slice s p len.

Theorem icase_model_structure lo g cfg (O : list N -> nat -> nat -> option nat) memo fuel s s' mm grp grp' auto r :
  all_str_icase g = true ->
  (forall nid nd o, get_node g nid = Some nd -> kind_oid (n_kind nd) = Some o -> case_blind lo O o) ->
  case_variant lo s s' ->
  Forall2 (char_ok (ws_universe g cfg)) s s' ->
  run g cfg (O s) memo fuel s = Parsed r ->
  base_matches_unchanged g s s' r ->
  run g cfg (O s') memo fuel s' = Parsed r /\
  vbrel lo (build g mm s grp auto false r) (build g mm s' grp' auto false r).
Proof.
  intros Hall Hblind Hcv Hws Hrun Hbase.
  split; [rewrite (icase_invariant lo g cfg O memo fuel s s' Hall Hblind Hcv Hws); exact Hrun|].
  rewrite <- (fr_id r) at 2.
  apply (build_rel lo (fun _ b => b) g g mm s s' grp grp' auto false).
  - reflexivity.
  - intros asg t. rewrite ft_id. reflexivity.
  - intros nid p len Hin. unfold term_ok, term_value.
    assert (Ht : trel lo (rule_of g nid) (term_text g s nid p len) (term_text g s' nid p len)).
    { unfold term_text. destruct (get_node g nid) as [nd|] eqn:En; [|left; reflexivity].
      destruct (n_kind nd); try (left; reflexivity).
      destruct (is_base5 (rule_of g nid)) eqn:Eb.
      - left. exact (Hbase nid p len Hin Eb).
      - right. split; [exact Eb|]. exact (slice_case_variant lo s s' p len Hcv). }
    split; [cbn [vbrel vrel]; split; [reflexivity | exact Ht] | exact Ht].
Qed.

(* ---------------------------------------------------------------- C21 *)
(* the StrMatches that autokwd replaces are case sensitive ones (no ignore_case) *)
Definition replaced_are_exact (g g' : grammar) : Prop :=
  forall nid nd nd' t oid o', get_node g nid = Some nd -> get_node g' nid = Some nd' ->
    n_kind nd = KStr t oid -> n_kind nd' = KRegex o' -> oid = None.

(* rule names and separators are the same in both tables *)
Definition meta_same (g g' : grammar) : Prop :=
  forall nid, rule_of g' nid = rule_of g nid /\
              option_map n_sep (get_node g' nid) = option_map n_sep (get_node g nid).

Lemma is_prefix_firstn t s : is_prefix t s = true -> firstn (length t) s = t.
Proof.
  revert s; induction t as [|x t IH]; intros [|y s] H; try discriminate; [reflexivity | reflexivity|].
  cbn [is_prefix] in H. apply andb_true_iff in H as [H1 H2]. apply N.eqb_eq in H1. subst y.
  cbn [length firstn]. rewrite (IH s H2). reflexivity.
Qed.

(* terminals of a case-sensitive StrMatch in a parse result carry the literal's text *)
Definition exact_pt (g : grammar) (input : list N) (nid p len : nat) : bool :=
  match get_node g nid with
  | Some nd => match n_kind nd with
               | KStr t None => str_eqb (KwProofs.slice input p len) t
               | _ => true
               end
  | None => true
  end.

Lemma exact_term_ok g input orc : forall nid nd psq s r s',
  get_node g nid = Some nd -> term_parse input orc nid (n_kind nd) psq s = Ok r s' ->
  res_okb (exact_pt g input) r = true.
Proof.
  intros nid nd psq s r s' Hn. unfold term_parse. cbv zeta.
  destruct (n_kind nd) as [| | | | | | | | | |t [o|]|o] eqn:Ek; try discriminate.
  - destruct (Nat.eqb (length input) (pos s)); [|unfold nm_raise; discriminate].
    intro H. injection H as <- _. cbn [res_okb tree_okb]. unfold exact_pt. rewrite Hn, Ek. reflexivity.
  - destruct (orc o (pos s)); [|unfold nm_raise; discriminate].
    intro H. injection H as <- _. cbn [res_okb tree_okb]. unfold exact_pt. rewrite Hn, Ek. reflexivity.
  - destruct (is_prefix t (skipn (pos s) input)) eqn:Ep; [|unfold nm_raise; discriminate].
    intro H. injection H as <- _. cbn [res_okb tree_okb]. unfold exact_pt. rewrite Hn, Ek.
    unfold KwProofs.slice. rewrite (is_prefix_firstn _ _ Ep). apply str_eqb_refl.
  - destruct (orc o (pos s)) as [len|]; [|unfold nm_raise; discriminate].
    destruct (Nat.eqb len 0); intro H; injection H as <- _; [reflexivity|].
    cbn [res_okb tree_okb]. unfold exact_pt. rewrite Hn, Ek. reflexivity.
Qed.

Theorem autokwd_same_objects wordc digitc lo g g' cfg orc orc' memo fuel input mm grp grp' auto r :
  (forall a b, lo a = lo b -> wordc a = wordc b) ->
  kw_tables_spec wordc digitc lo g g' input orc orc' ->
  no_glued_keyword wordc digitc lo g input ->
  replaced_are_exact g g' -> meta_same g g' ->
  run g cfg orc memo fuel input = Parsed r ->
  run g' cfg orc' memo fuel input = Parsed (fr (kw_supf g g') r) /\
  build g' mm input grp' auto false (fr (kw_supf g g') r) = build g mm input grp auto false r.
Proof.
  intros Hwl Hspec Hglue Hex Hmeta Hrun.
  split.
  { rewrite (autokwd_same_model wordc digitc lo g g' cfg orc orc' memo fuel input Hwl Hspec Hglue), Hrun. reflexivity. }
  apply vbrel_id_eq.
  apply (build_rel (fun c => c) (kw_supf g g') g g' mm input input grp grp' auto false).
  - intro nid. exact (proj1 (Hmeta nid)).
  - intros asg t. unfold is_sep_of. rewrite tree_nid_ft.
    pose proof (proj2 (Hmeta asg)) as Hs.
    destruct (get_node g' asg) as [nd'|], (get_node g asg) as [nd|]; cbn [option_map] in Hs; try discriminate;
      [injection Hs as ->; reflexivity | reflexivity].
  - intros nid p len Hin.
    pose proof (res_okb_In (exact_pt g input) r
                  (run_ok (exact_pt g input) g input orc memo (exact_term_ok g input orc) cfg fuel r Hrun)
                  nid p len Hin) as Hpt.
    assert (Ht : term_text g' input nid p len = term_text g input nid p len).
    { destruct Hspec as [Hn _]. specialize (Hn nid). unfold term_text. unfold exact_pt in Hpt.
      destruct (get_node g nid) as [nd|] eqn:En, (get_node g' nid) as [nd'|] eqn:En'; try contradiction; [|reflexivity].
      destruct (is_match_kind (n_kind nd)) eqn:Em; [|rewrite Hn; reflexivity].
      destruct Hn as [_ Hk]. unfold kw_kind_spec in Hk.
      destruct (n_kind nd) as [| | | | | | | | | |t oid|o] eqn:Ek; try discriminate;
        destruct (n_kind nd') as [| | | | | | | | | |t' oid'|o'] eqn:Ek';
        try solve [reflexivity | contradiction | destruct oid; contradiction].
      - destruct oid as [o|], oid' as [o'|]; try contradiction; [destruct Hk as [-> _] | subst t']; reflexivity.
      - rewrite (Hex nid nd nd' t oid o' En En' Ek Ek') in Hpt. apply str_eqb_eq in Hpt.
        exact Hpt. }
    unfold term_ok, term_value. rewrite Ht, (proj1 (Hmeta nid)).
    split; [cbn [vbrel vrel]; split; [reflexivity | left; reflexivity] | left; reflexivity].
Qed.
