(* Event-order and ownership invariants of the load machine (Model/UserCls.v). *)
From TxV Require Import Core.Base Model.UserCls Proofs.UserClsProofs.
Require Import Lia.

Section LogProofs.
  Variable rep res : list (list N).
  Notation step := (step rep res).
  Notation run := (run rep res).
  Notation fail_ctx := (fail_ctx res).

  Definition is_init (k : ekind) : bool := match k with KInit _ _ => true | _ => false end.
  Definition is_proc (k : ekind) : bool := match k with KProc _ => true | _ => false end.
  Definition is_resolved (k : ekind) : bool := match k with KResolved _ => true | _ => false end.

  (* traces are newest first: when an __init__ event happens, the resolution event of the load
     has happened and no object processor of the load has run *)
  Fixpoint trace_ok (t : list ekind) : Prop :=
    match t with
    | [] => True
    | k :: t' => (is_init k = true -> existsb is_resolved t' = true /\ existsb is_proc t' = false) /\ trace_ok t'
    end.

  Definition ctx_trace_inv (c : ctx) : Prop :=
    trace_ok (c_trace c) /\
    match c_phase c with
    | Loading => existsb is_resolved (c_trace c) = false /\ existsb is_proc (c_trace c) = false
    | Ending _ => existsb is_resolved (c_trace c) = true /\ existsb is_proc (c_trace c) = false
    | Processing => True
    end.

  Definition trace_inv (s : state) : Prop := Forall ctx_trace_inv (s_ctxs s).

  Lemma trace_inv_fail s c rest : Forall ctx_trace_inv (c :: rest) -> trace_inv (fail_ctx s c rest).
  Proof. intro H. unfold trace_inv, UserCls.fail_ctx. cbn [s_ctxs]. inversion H; assumption. Qed.

  Lemma step_trace_inv s o : trace_inv s -> trace_inv (step s o).
  Proof.
    unfold trace_inv. intro H. destruct o as [main glob syn_ok| | | | |ok|ok| |]; unfold UserCls.step.
    - (* Begin *)
      set (newc := {| c_id := s_next s; c_global := glob; c_frames := []; c_phase := Loading;
                      c_mids := []; c_objs := []; c_trace := [] |}).
      assert (Hc : Forall ctx_trace_inv (if main then newc :: s_ctxs s else s_ctxs s)).
      { destruct main; [|exact H]. constructor; [|exact H]. split; cbn; auto. }
      destruct (if main then newc :: s_ctxs s else s_ctxs s) as [|c rest] eqn:E; [exact H|].
      destruct (c_phase c) eqn:Eph; try exact H.
      destruct syn_ok.
      + cbn [s_ctxs]. inversion Hc as [|? ? Hc1 Hc2]; subst. constructor; [|exact Hc2].
        destruct Hc1 as [T P]. rewrite Eph in P. split; cbn [c_trace c_phase]; assumption.
      + apply trace_inv_fail. exact Hc.
    - (* Alloc *)
      destruct (s_ctxs s) as [|c rest] eqn:E; [rewrite E; exact H|].
      destruct (c_phase c) eqn:Eph; try (rewrite E; exact H).
      destruct (last_frame (c_frames c)) as [f|]; [|rewrite E; exact H].
      cbn [s_ctxs]. inversion H as [|? ? Hc1 Hc2]; subst. constructor; [|exact Hc2].
      destruct Hc1 as [T P]. rewrite Eph in P. split; cbn.
      * split; [intro Hd; discriminate Hd | exact T].
      * exact P.
    - (* Complete *)
      destruct (s_ctxs s) as [|c rest] eqn:E; [rewrite E; exact H|].
      destruct (c_phase c) eqn:Eph; try (rewrite E; exact H).
      cbn [set_ctxs s_ctxs]. inversion H as [|? ? Hc1 Hc2]; subst. constructor; [|exact Hc2].
      destruct Hc1 as [T P]. rewrite Eph in P. split; cbn [c_trace c_phase]; assumption.
    - (* ResolveOk *)
      destruct (s_ctxs s) as [|c rest] eqn:E; [rewrite E; exact H|].
      destruct (c_phase c) eqn:Eph; try (rewrite E; exact H).
      cbn [s_ctxs]. inversion H as [|? ? Hc1 Hc2]; subst. constructor; [|exact Hc2].
      destruct Hc1 as [T P]. rewrite Eph in P. destruct P as [P1 P2]. split; cbn.
      * split; [intro Hd; discriminate Hd | exact T].
      * split; [reflexivity | exact P2].
    - (* EndModel *)
      destruct (s_ctxs s) as [|c rest] eqn:E; [rewrite E; exact H|].
      destruct (c_phase c) as [|[|? ?]|] eqn:Eph; try (rewrite E; exact H).
      destruct (c_frames c) as [|f fs]; [rewrite E; exact H|].
      destruct (f_ostack f); [|rewrite E; exact H].
      cbn [s_ctxs]. inversion H as [|? ? Hc1 Hc2]; subst. constructor; [|exact Hc2].
      destruct Hc1 as [T P]. rewrite Eph in P. split; cbn [c_trace c_phase]; assumption.
    - (* Init *)
      destruct (s_ctxs s) as [|c rest] eqn:E; [rewrite E; exact H|].
      destruct (c_phase c) as [|[|x cur]|] eqn:Eph; try (rewrite E; exact H).
      inversion H as [|? ? Hc1 Hc2]; subst. destruct Hc1 as [T P]. rewrite Eph in P. destruct P as [P1 P2].
      match goal with |- Forall _ (s_ctxs (if ok then ?a else ?b)) => assert (Ha : Forall ctx_trace_inv (s_ctxs a)) end.
      { cbn [s_ctxs]. constructor; [|exact Hc2].
        split; cbn.
        - split; [intros _; split; assumption | exact T].
        - split; assumption. }
      destruct ok; [exact Ha|]. apply trace_inv_fail. exact Ha.
    - (* Proc *)
      destruct (s_ctxs s) as [|c rest] eqn:E; [rewrite E; exact H|].
      inversion H as [|? ? Hc1 Hc2]; subst. destruct Hc1 as [T P].
      assert (Ha : Forall ctx_trace_inv
                ({| c_id := c_id c; c_global := c_global c; c_frames := c_frames c; c_phase := Processing;
                    c_mids := c_mids c; c_objs := c_objs c; c_trace := KProc (c_id c) :: c_trace c |} :: rest)).
      { constructor; [|exact Hc2]. split; cbn; [|exact I].
        split; [intro Hd; discriminate Hd | exact T]. }
      destruct (c_phase c) as [|[|? ?]|] eqn:Eph; try (rewrite E; exact H).
      + destruct (c_frames c); [|rewrite E; exact H].
        destruct ok; [exact Ha|]. apply trace_inv_fail. exact Ha.
      + destruct (c_frames c); [|rewrite E; exact H].
        destruct ok; [exact Ha|]. apply trace_inv_fail. exact Ha.
    - (* Fail *)
      destruct (s_ctxs s) as [|c rest] eqn:E; [rewrite E; exact H|].
      apply trace_inv_fail. exact H.
    - (* Finish *)
      destruct (s_ctxs s) as [|c rest] eqn:E; [rewrite E; exact H|].
      inversion H as [|? ? Hc1 Hc2]; subst.
      destruct (c_phase c) as [|[|? ?]|]; try (rewrite E; exact H);
        (destruct (c_frames c); [cbn [s_ctxs]; exact Hc2 | rewrite E; exact H]).
  Qed.

  Lemma run_trace_inv ops : forall s, trace_inv s -> trace_inv (run s ops).
  Proof.
    induction ops as [|o ops IH]; intros s H; [exact H|]. cbn [UserCls.run fold_left].
    apply IH. apply step_trace_inv. exact H.
  Qed.

  Theorem init_order d0 ops c :
    In c (s_ctxs (run (init d0) ops)) -> trace_ok (c_trace c).
  Proof.
    intro Hin. assert (H : trace_inv (run (init d0) ops)).
    { apply run_trace_inv. unfold trace_inv, init. cbn. constructor. }
    unfold trace_inv in H. rewrite Forall_forall in H. apply (H c Hin).
  Qed.

  (* ---------------------------------------------------------------- a failing load leaves nothing (C15) *)
  (* ids are drawn from s_next; an object of a running load that is still stored is owned by
     that load (one of its models under construction, or the objects being initialised) *)
  Definition ctx_objs_inv (k : cls) (n : nat) (c : ctx) : Prop :=
    (forall x, In x (c_objs c) -> x < n) /\
    (forall x, In x (c_objs c) -> In x (k_store k) -> owns c x).

  Definition objs_inv (s : state) : Prop := Forall (ctx_objs_inv (s_cls s) (s_next s)) (s_ctxs s).

  Lemma ctx_objs_inv_weaken k k' n n' c :
    n <= n' -> (forall x, In x (k_store k') -> In x (k_store k)) ->
    ctx_objs_inv k n c -> ctx_objs_inv k' n' c.
  Proof.
    intros Hn Hst [B O]. split.
    - intros x Hx. specialize (B x Hx). lia.
    - intros x Hx Hs. apply O; [exact Hx | apply Hst; exact Hs].
  Qed.

  Lemma Forall_objs_weaken k k' n n' cs :
    n <= n' -> (forall x, In x (k_store k') -> In x (k_store k)) ->
    Forall (ctx_objs_inv k n) cs -> Forall (ctx_objs_inv k' n') cs.
  Proof.
    intros Hn Hst H. apply Forall_forall. intros c Hc. rewrite Forall_forall in H.
    apply (ctx_objs_inv_weaken k k' n n'); auto.
  Qed.

  Lemma store_abort_sub fs : forall k x, In x (k_store (fold_left (abort_frame res) fs k)) -> In x (k_store k).
  Proof.
    intros k x Hx. apply (abort_store res) in Hx. tauto.
  Qed.

  Lemma store_fail_sub s c rest x : In x (k_store (s_cls (fail_ctx s c rest))) -> In x (k_store (s_cls s)).
  Proof.
    unfold UserCls.fail_ctx. cbn [s_cls cls_discard k_store]. intro Hx.
    apply in_remove_ids in Hx as [Hx _]. apply store_abort_sub in Hx. exact Hx.
  Qed.

  Lemma objs_inv_fail s c rest :
    Forall (ctx_objs_inv (s_cls s) (s_next s)) (c :: rest) -> objs_inv (fail_ctx s c rest).
  Proof.
    intro H. unfold objs_inv. inversion H as [|? ? _ Hrest]; subst.
    apply (Forall_objs_weaken (s_cls s) _ (s_next s)).
    - unfold UserCls.fail_ctx. cbn [s_next]. lia.
    - intros x. apply store_fail_sub.
    - unfold UserCls.fail_ctx. cbn [s_ctxs]. exact Hrest.
  Qed.

  (* the statement of C15 for the references textX itself stores *)
  Lemma fail_leaves_nothing s c rest :
    Forall (ctx_objs_inv (s_cls s) (s_next s)) (c :: rest) ->
    (forall x, In x (c_objs c) -> ~ In x (k_store (s_cls (fail_ctx s c rest)))) /\
    (forall m, In m (c_mids c) -> ~ In m (s_repo (fail_ctx s c rest))).
  Proof.
    intro H. inversion H as [|? ? [B O] _]; subst. split.
    - intros x Hx Hs. unfold UserCls.fail_ctx in Hs. cbn [s_cls cls_discard k_store] in Hs.
      apply in_remove_ids in Hs as [Hs Hncur]. apply (abort_store res) in Hs as [Hs Hnal].
      destruct (O x Hx Hs) as [Ho|Ho]; contradiction.
    - intros m Hm Hr. unfold UserCls.fail_ctx in Hr. cbn [s_repo] in Hr.
      apply in_remove_ids in Hr as [_ Hn]. contradiction.
  Qed.

  Lemma in_flat_alloc_on_last_alloc x pre f y :
    In y (flat_map f_alloc (pre ++ [alloc_frame x f])) <-> In y (flat_map f_alloc (pre ++ [f])) \/ y = x.
  Proof.
    rewrite !flat_map_app. cbn [flat_map alloc_frame f_alloc]. rewrite !in_app_iff. cbn [In]. intuition.
  Qed.

  Lemma alloc_complete_frame f : f_alloc (complete_frame f) = f_alloc f.
  Proof. unfold complete_frame. destruct (f_ostack f); reflexivity. Qed.

  Lemma flat_alloc_on_last_complete fs :
    flat_map f_alloc (on_last complete_frame fs) = flat_map f_alloc fs.
  Proof.
    destruct fs as [|f0 pre] using rev_ind; [reflexivity|]. rewrite on_last_app, !flat_map_app.
    cbn [flat_map]. rewrite alloc_complete_frame. reflexivity.
  Qed.

  Lemma step_objs_inv d0 s o : inv rep d0 s -> objs_inv s -> objs_inv (step s o).
  Proof.
    intros Hinv H. unfold objs_inv in *.
    destruct o as [main glob syn_ok| | | | |ok|ok| |]; unfold UserCls.step.
    - (* Begin *)
      set (newc := {| c_id := s_next s; c_global := glob; c_frames := []; c_phase := Loading;
                      c_mids := []; c_objs := []; c_trace := [] |}).
      assert (Hc : Forall (ctx_objs_inv (s_cls s) (s_next s)) (if main then newc :: s_ctxs s else s_ctxs s)).
      { destruct main; [|exact H]. constructor; [|exact H]. split; cbn; intros x []. }
      destruct (if main then newc :: s_ctxs s else s_ctxs s) as [|c rest] eqn:E; [exact H|].
      destruct (c_phase c) eqn:Eph; try exact H.
      destruct syn_ok.
      + cbn [s_ctxs s_cls s_next]. inversion Hc as [|? ? [B O] Hc2]; subst. constructor.
        * split; cbn [c_objs].
          -- intros x Hx. specialize (B x Hx). lia.
          -- intros x Hx Hs. rewrite store_replace in Hs. destruct (O x Hx Hs) as [Ho|Ho].
             ++ left. cbn [c_phase phase_cur]. rewrite Eph in Ho. exact Ho.
             ++ right. cbn [c_frames]. rewrite flat_map_app, in_app_iff. left. exact Ho.
        * apply (Forall_objs_weaken (s_cls s) _ (s_next s)); [lia | intros x; rewrite store_replace; auto | exact Hc2].
      + apply objs_inv_fail. cbn [s_cls s_next].
        apply (Forall_objs_weaken (s_cls s) _ (s_next s)); [lia | auto | exact Hc].
    - (* Alloc *)
      destruct (s_ctxs s) as [|c rest] eqn:E; [rewrite E; exact H|].
      destruct (c_phase c) eqn:Eph; try (rewrite E; exact H).
      destruct (last_frame (c_frames c)) as [f|] eqn:El; [|rewrite E; exact H].
      apply last_frame_some in El as [pre Epre].
      cbn [s_ctxs s_cls s_next]. inversion H as [|? ? [B O] Hc2]; subst. constructor.
      + split; cbn [c_objs].
        * intros x Hx. apply in_app_iff in Hx as [Hx|[Hx|[]]]; [specialize (B x Hx); lia | lia].
        * intros x Hx Hs. right. cbn [c_frames]. rewrite Epre, on_last_app.
          apply in_flat_alloc_on_last_alloc.
          apply in_app_iff in Hx as [Hx|[Hx|[]]]; [|right; symmetry; exact Hx].
          cbn [cls_alloc k_store] in Hs. apply in_app_iff in Hs as [Hs|[Hs|[]]]; [|right; symmetry; exact Hs].
          left. destruct (O x Hx Hs) as [Ho|Ho]; [rewrite Eph in Ho; destruct Ho | rewrite Epre in Ho; exact Ho].
      + apply Forall_forall. intros c2 Hc2in. rewrite Forall_forall in Hc2. destruct (Hc2 c2 Hc2in) as [B2 O2].
        split.
        * intros x Hx. specialize (B2 x Hx). lia.
        * intros x Hx Hs. cbn [cls_alloc k_store] in Hs. apply in_app_iff in Hs as [Hs|[Hs|[]]].
          -- apply O2; assumption.
          -- specialize (B2 x Hx). lia.
    - (* Complete *)
      destruct (s_ctxs s) as [|c rest] eqn:E; [rewrite E; exact H|].
      destruct (c_phase c) eqn:Eph; try (rewrite E; exact H).
      cbn [set_ctxs s_ctxs s_cls s_next]. inversion H as [|? ? [B O] Hc2]; subst. constructor; [|exact Hc2].
      split; cbn [c_objs]; [exact B|]. intros x Hx Hs. destruct (O x Hx Hs) as [Ho|Ho].
      + rewrite Eph in Ho. destruct Ho.
      + right. cbn [c_frames]. rewrite flat_alloc_on_last_complete. exact Ho.
    - (* ResolveOk *)
      destruct (s_ctxs s) as [|c rest] eqn:E; [rewrite E; exact H|].
      destruct (c_phase c) eqn:Eph; try (rewrite E; exact H).
      cbn [s_ctxs s_cls s_next]. inversion H as [|? ? [B O] Hc2]; subst. constructor; [|exact Hc2].
      split; cbn [c_objs]; [exact B|]. intros x Hx Hs. destruct (O x Hx Hs) as [Ho|Ho].
      + rewrite Eph in Ho. destruct Ho.
      + right. exact Ho.
    - (* EndModel *)
      destruct (s_ctxs s) as [|c rest] eqn:E; [rewrite E; exact H|].
      destruct (c_phase c) as [|[|? ?]|] eqn:Eph; try (rewrite E; exact H).
      destruct (c_frames c) as [|f fs] eqn:Efr; [rewrite E; exact H|].
      destruct (f_ostack f) eqn:Eos; [|rewrite E; exact H].
      cbn [s_ctxs s_cls s_next]. inversion H as [|? ? [B O] Hc2]; subst.
      assert (Est : forall x, In x (k_store (if f_replaced f then cls_restore res (s_cls s) else s_cls s)) -> In x (k_store (s_cls s))).
      { intros x. destruct (f_replaced f); [rewrite store_restore|]; auto. }
      destruct Hinv as [_ [_ [Hfok _]]]. rewrite E in Hfok. inversion Hfok as [|? ? Hok _]; subst.
      unfold ctx_ok in Hok. rewrite Efr in Hok. inversion Hok as [|? ? Hf _]; subst.
      constructor.
      + split; cbn [c_objs]; [exact B|]. intros x Hx Hs. destruct (O x Hx (Est x Hs)) as [Ho|Ho].
        * rewrite Eph in Ho. destruct Ho.
        * rewrite Efr in Ho. cbn [flat_map] in Ho. apply in_app_iff in Ho as [Ho|Ho].
          -- left. cbn [c_phase phase_cur]. destruct (Hf x Ho) as [Hx'|Hx']; [rewrite Eos in Hx'; destruct Hx' | exact Hx'].
          -- right. exact Ho.
      + apply (Forall_objs_weaken (s_cls s) _ (s_next s)); [lia | exact Est | exact Hc2].
    - (* Init *)
      destruct (s_ctxs s) as [|c rest] eqn:E; [rewrite E; exact H|].
      destruct (c_phase c) as [|[|x cur]|] eqn:Eph; try (rewrite E; exact H).
      inversion H as [|? ? [B O] Hc2]; subst.
      match goal with |- Forall _ (s_ctxs (if ok then ?a else ?b)) =>
        assert (Ha : Forall (ctx_objs_inv (s_cls a) (s_next a)) (s_ctxs a)) end.
      { cbn [s_ctxs s_cls s_next]. constructor.
        - split; cbn [c_objs]; [exact B|]. intros y Hy Hs. cbn [cls_pop k_store] in Hs.
          apply in_remove_id in Hs as [Hs Hne]. destruct (O y Hy Hs) as [Ho|Ho].
          + left. cbn [c_phase phase_cur]. rewrite Eph in Ho. destruct Ho as [Ho|Ho]; [congruence | exact Ho].
          + right. exact Ho.
        - apply (Forall_objs_weaken (s_cls s) _ (s_next s)); [lia | | exact Hc2].
          intros y Hy. cbn [cls_pop k_store] in Hy. apply in_remove_id in Hy. tauto. }
      destruct ok.
      + match goal with |- Forall (ctx_objs_inv (s_cls ?a) (s_next ?a)) (s_ctxs ?a) => exact Ha end.
      + apply objs_inv_fail. exact Ha.
    - (* Proc *)
      destruct (s_ctxs s) as [|c rest] eqn:E; [rewrite E; exact H|].
      inversion H as [|? ? [B O] Hc2]; subst.
      assert (Ha : (c_phase c = Ending [] \/ c_phase c = Processing) ->
                Forall (ctx_objs_inv (s_cls s) (s_next s))
                ({| c_id := c_id c; c_global := c_global c; c_frames := c_frames c; c_phase := Processing;
                    c_mids := c_mids c; c_objs := c_objs c; c_trace := KProc (c_id c) :: c_trace c |} :: rest)).
      { intro Hph. constructor; [|exact Hc2]. split; cbn [c_objs]; [exact B|]. intros y Hy Hs.
        destruct (O y Hy Hs) as [Ho|Ho]; [|right; exact Ho].
        destruct Hph as [Ep|Ep]; rewrite Ep in Ho; destruct Ho. }
      destruct (c_phase c) as [|[|? ?]|] eqn:Eph; try (rewrite E; exact H).
      + destruct (c_frames c) eqn:Efr; [|rewrite E; exact H].
        destruct ok; [apply Ha; left; reflexivity|]. apply objs_inv_fail. apply Ha. left; reflexivity.
      + destruct (c_frames c) eqn:Efr; [|rewrite E; exact H].
        destruct ok; [apply Ha; right; reflexivity|]. apply objs_inv_fail. apply Ha. right; reflexivity.
    - (* Fail *)
      destruct (s_ctxs s) as [|c rest] eqn:E; [rewrite E; exact H|].
      apply objs_inv_fail. exact H.
    - (* Finish *)
      destruct (s_ctxs s) as [|c rest] eqn:E; [rewrite E; exact H|].
      inversion H as [|? ? _ Hc2]; subst.
      destruct (c_phase c) as [|[|? ?]|]; try (rewrite E; exact H);
        (destruct (c_frames c); [cbn [s_ctxs s_cls s_next]; exact Hc2 | rewrite E; exact H]).
  Qed.
End LogProofs.

Section LogTheorems.
  Variable rep res : list (list N).
  Hypothesis rep_nodup : NoDup rep.
  Hypothesis rep_in_res : forall a, In a rep -> In a res.
  Variable d0 : list N -> slot.

  Lemma run_both_inv ops : forall s, inv rep d0 s -> objs_inv s ->
    inv rep d0 (run rep res s ops) /\ objs_inv (run rep res s ops).
  Proof.
    induction ops as [|o ops IH]; intros s Hi Ho; [split; assumption|]. cbn [run fold_left].
    apply IH.
    - apply (step_inv rep res rep_nodup rep_in_res d0). exact Hi.
    - apply (step_objs_inv rep res d0); assumption.
  Qed.

  Lemma reachable_objs_inv ops : objs_inv (run rep res (init d0) ops).
  Proof.
    apply run_both_inv; [apply inv_init | unfold objs_inv, init; cbn; constructor].
  Qed.

  (* C15, for the references textX itself stores: when the running load raises (at any point of
     any history), none of the user objects it has allocated keeps an entry in _tx_obj_attrs and
     none of its models stays in a repository; the load is gone. *)
  Theorem failed_load_leaves_nothing ops c rest :
    s_ctxs (run rep res (init d0) ops) = c :: rest ->
    let s' := step rep res (run rep res (init d0) ops) Fail in
    (forall x, In x (c_objs c) -> ~ In x (k_store (s_cls s'))) /\
    (forall m, In m (c_mids c) -> ~ In m (s_repo s')) /\
    s_ctxs s' = rest.
  Proof.
    intros E s'. pose proof (reachable_objs_inv ops) as Ho. unfold objs_inv in Ho. rewrite E in Ho.
    unfold s', step. rewrite E.
    destruct (fail_leaves_nothing res _ c rest Ho) as [H1 H2]. split; [exact H1|]. split; [exact H2|].
    reflexivity.
  Qed.

  (* the failing forms of the callbacks are the callback followed by an exception *)
  Lemma init_false_is_fail s c rest x cur :
    s_ctxs s = c :: rest -> c_phase c = Ending (x :: cur) ->
    step rep res s (Init false) = step rep res (step rep res s (Init true)) Fail.
  Proof. intros E P. unfold step. rewrite E, P. cbn [s_ctxs]. reflexivity. Qed.
End LogTheorems.
