(* C05 — the translated source facts agree with Model/Nav.v *)
From TxV Require Import Core.Base Gen.SrcNav Model.Nav Model.NavSrc.

Lemma src_parent_top top rest : src_parent_of_stack (top :: rest) = Some top.
Proof.
  unfold src_parent_of_stack, src_parent_guard_nonempty, src_parent_stack_index, py_index.
  cbn [rev Z.ltb Z.compare]. rewrite app_length. cbn [length].
  assert (E : (Z.of_nat (length (rev rest) + 1) + -1)%Z = Z.of_nat (length (rev rest))) by lia.
  rewrite E. destruct (Z.of_nat (length (rev rest)) <? 0)%Z eqn:L; [apply Z.ltb_lt in L; lia|].
  rewrite Nat2Z.id. rewrite nth_error_app2 by apply le_n. rewrite Nat.sub_diag. reflexivity.
Qed.

Lemma src_parent_empty : src_parent_of_stack [] = None.
Proof. reflexivity. Qed.

(* the model's parent assignment is the one the source performs *)
Lemma parent_attr_src stack slots :
  find_slot s_parent slots = None ->
  parent_attr stack slots = option_map PObj (src_parent_of_stack stack).
Proof.
  intro H. unfold parent_attr. rewrite H. destruct stack as [|top rest].
  - reflexivity.
  - rewrite src_parent_top. reflexivity.
Qed.

Lemma src_stack_facts :
  src_parent_tuple_index = src_stack_entry_inst_pos /\ src_parent_guard_nonempty = true /\ src_parent_after_pop = true.
Proof. repeat split. Qed.

Lemma src_children_facts :
  src_single_mults = [s_mult_one; s_mult_optional] /\ src_follow_guard = s_attr_cont.
Proof. split; reflexivity. Qed.
