(* C02 — the assignment nodes of a Peg.v parse result of a rule body form an `emits` trace of that body. *)
From Coq Require Import Permutation Lia.
From TxV Require Import Core.Base Model.MultBase Gen.SrcMult Model.Mult Proofs.MultProofs Proofs.MultFlowProofs Proofs.MultSepProofs.
From TxV Require Model.Build.
From TxV Require Import Model.PegSyntax Model.Peg Model.MultPeg.

(* ---------------------------------------------------------------- results: flattening *)
Lemma flatten_list l : flatten (RList l) = concat (map flatten l).
Proof.
  induction l as [|x l IH]; [reflexivity|].
  change (flatten (RList (x :: l))) with (flatten x ++ flatten (RList l)). rewrite IH. reflexivity.
Qed.

Definition all_truthy (l : list res) : Prop := Forall (fun r => Peg.truthy r = true) l.

Lemma head_not_none l : all_truthy l -> head_is_none (RList l) = false.
Proof. intros H. destruct l as [|x l]; [reflexivity|]. inversion H; subst. destruct x; try reflexivity. discriminate. Qed.

(* results of non-terminal bodies are None or a list *)
Definition listy (r : res) : Prop := r = RNone \/ exists l, r = RList l.

Section Link.
Variable g : grammar.
Variable mm : list Build.ninfo.
Variable attr_id : list N -> nat.
Variable conv : tree -> sval.
Variable input : list N.
Variable orc : nat -> nat -> option nat.

Notation rnodes := (res_nodes g mm attr_id conv).
Notation tnodes := (tree_nodes g mm attr_id conv).
Notation evs := (map (node_ev src_sep_mode)).
Notation prs := (parse g input orc false).

Lemma rnodes_none : rnodes RNone = [].
Proof. reflexivity. Qed.

Lemma rnodes_list l : rnodes (RList l) = concat (map rnodes l).
Proof.
  unfold res_nodes. rewrite flatten_list. induction l as [|x l IH]; [reflexivity|].
  cbn [map concat]. rewrite flat_map_app, IH. reflexivity.
Qed.

Lemma rnodes_snoc acc r : rnodes (RList (acc ++ [r])) = rnodes (RList acc) ++ rnodes r.
Proof. rewrite !rnodes_list, map_app, concat_app. cbn [map concat]. rewrite app_nil_r. reflexivity. Qed.

Lemma rnodes_single r : rnodes (RList [r]) = rnodes r.
Proof. rewrite rnodes_list. cbn [map concat]. apply app_nil_r. Qed.

Lemma listy_falsy r : listy r -> Peg.truthy r = false -> rnodes r = [].
Proof.
  intros [-> | [l ->]] H; [reflexivity|]. destruct l; [reflexivity | discriminate].
Qed.

(* child level (result of parse on a sub-expression) and body level (result of _parse before post) *)
Definition cgood (x : Mult.body) (r : res) : Prop :=
  emits x (evs (rnodes r)) /\ (Peg.truthy r = false -> emits x []).
Definition bgood (b : Mult.body) (r : res) : Prop :=
  listy r /\ emits b (evs (rnodes r)) /\ (head_is_none r = true -> emits b []).

Definition leaf_res (r : res) : Prop := rnodes r = [] /\ (Peg.truthy r = true -> exists t, r = RTree t).

(* ---------------------------------------------------------------- shape of loop results (any recursive parser) *)
Section Shape.
Variable rec : nat -> bool -> st -> out.

Lemma seq_loop_shape psq kids : forall acc s r s',
  seq_loop rec psq kids acc s = Ok r s' -> exists acc', r = RList acc'.
Proof.
  induction kids as [|c kids IH]; intros acc s r s' H; cbn [seq_loop] in H.
  - inversion H. eauto.
  - destruct (rec c psq s) as [r1 s1|s1|w]; try discriminate. eapply IH, H.
Qed.

Lemma rep_loop_shape e sep plus : forall k first acc s r s',
  rep_loop rec e sep plus k first acc s = Ok r s' -> exists acc', r = RList acc'.
Proof.
  induction k as [|k IH]; intros first acc s r s' H; cbn [rep_loop] in H; [discriminate|].
  assert (E : forall acc1 s1,
             match rec e false s1 with
             | Ok r0 s2 => if Peg.truthy r0 then rep_loop rec e sep plus k false (acc1 ++ [r0]) s2 else Ok (RList acc1) s2
             | Fail s2 => if (plus && first)%bool then Fail (set_pos (pos s) s2) else Ok (RList acc1) (set_pos (pos s) s2)
             | Abort w => Abort w
             end = Ok r s' -> exists acc', r = RList acc').
  { intros acc1 s1 H1. destruct (rec e false s1) as [r0 s2|s2|w]; try discriminate.
    - destruct (Peg.truthy r0); [eapply IH, H1 | inversion H1; eauto].
    - destruct (plus && first)%bool; [discriminate | inversion H1; eauto]. }
  destruct sep as [sp|].
  - destruct first; [apply (E _ _ H)|].
    destruct (rec sp false s) as [sr s1|s1|w]; try discriminate.
    + apply (E _ _ H).
    + destruct (plus && false)%bool; [discriminate | inversion H; eauto].
  - apply (E _ _ H).
Qed.

Lemma body_shape k nd s r s' : body rec k nd s = Ok r s' -> listy r.
Proof.
  unfold body. intro H. destruct (n_kind nd); try discriminate.
  - destruct (seq_loop rec true (n_kids nd) [] (enter_ws nd s)) as [r1 s1|s1|w] eqn:E; try discriminate.
    destruct (seq_loop_shape _ _ _ _ _ _ E) as [acc' ->].
    destruct acc'; inversion H; [left; reflexivity | right; eauto].
  - destruct (choice_loop rec (pos s) (n_kids nd) (enter_ws nd s)) as [r1 s1|s1|w]; try discriminate.
    destruct (is_none r1); [discriminate | inversion H; right; eauto].
  - destruct (n_kids nd) as [|e ?]; [discriminate|].
    destruct (rec e false s) as [r1 s1|s1|w]; try discriminate; inversion H; [right; eauto | left; reflexivity].
  - destruct (n_kids nd) as [|e ?]; [discriminate|].
    destruct (rep_loop rec e (n_sep nd) false k true [] (enter_eol nd s)) as [r1 s1|s1|w] eqn:E; try discriminate.
    destruct (rep_loop_shape _ _ _ _ _ _ _ _ _ E) as [acc' ->]. inversion H. right; eauto.
  - destruct (n_kids nd) as [|e ?]; [discriminate|].
    destruct (rep_loop rec e (n_sep nd) true k true [] (enter_eol nd s)) as [r1 s1|s1|w] eqn:E; try discriminate.
    destruct (rep_loop_shape _ _ _ _ _ _ _ _ _ E) as [acc' ->]. inversion H. right; eauto.
  - destruct (n_kids nd) as [|e ?]; [discriminate|].
    destruct (ug_loop rec (n_sep nd) _ _ true RNone [] (enter_eol nd s)) as [mt acc s1|w]; try discriminate.
    destruct mt; [|discriminate]. inversion H. destruct acc; [left; reflexivity | right; eauto].
  - destruct (seq_loop rec false (n_kids nd) [] s) as [r1 s1|s1|w]; try discriminate. inversion H. left; reflexivity.
  - destruct (seq_loop rec false (n_kids nd) [] s) as [r1 s1|s1|w]; try discriminate. inversion H. left; reflexivity.
  - inversion H. left; reflexivity.
Qed.
End Shape.

(* one step of parse, memoization off *)
Lemma prs_S f nid psq s :
  prs (S f) nid psq s =
  match get_node g nid with
  | None => Abort 1
  | Some nd =>
    if is_match_kind (n_kind nd) then
      match match_pre g input (prs f) f s with
      | Ok _ s1 =>
        match term_parse input orc nid (n_kind nd) psq s1 with
        | Ok r s2 => Ok (if n_suppress nd then RNone else r) s2
        | o => o
        end
      | o => o
      end
    else
      match body (prs f) f nd s with
      | Ok r s1 => Ok (post nid nd r) s1
      | Fail s1 => Fail (set_pos (pos s) s1)
      | Abort w => Abort w
      end
  end.
Proof. reflexivity. Qed.

Lemma prs_nonmatch f nid psq s nd r s' :
  get_node g nid = Some nd -> is_match_kind (n_kind nd) = false ->
  prs (S f) nid psq s = Ok r s' ->
  exists rb s1, body (prs f) f nd s = Ok rb s1 /\ r = post nid nd rb.
Proof.
  intros Hn Hk H. rewrite prs_S, Hn, Hk in H.
  destruct (body (prs f) f nd s) as [rb s1|s1|w]; try discriminate. inversion H. eauto.
Qed.

(* ---------------------------------------------------------------- leaves *)
Lemma leaf_parse nid : leafb g mm nid = true -> forall fuel psq s r s', prs fuel nid psq s = Ok r s' -> leaf_res r.
Proof.
  unfold leafb. intros Hl fuel psq s r s' H. destruct fuel as [|f]; [discriminate|].
  destruct (get_node g nid) as [nd|] eqn:Hn; [|discriminate].
  destruct (is_match_kind (n_kind nd)) eqn:Hm.
  - rewrite prs_S, Hn, Hm in H.
    destruct (match_pre g input (prs f) f s) as [r0 s1|s1|w]; try discriminate.
    unfold term_parse in H.
    destruct (n_kind nd) as [| | | | | | | | | |t oid|o]; try discriminate.
    + destruct (Nat.eqb (length input) (pos s1)); [|discriminate]. inversion H.
      destruct (n_suppress nd); split; try reflexivity; try discriminate; eauto.
    + match type of H with context [if ?c then _ else _] => destruct c end; [|discriminate].
      inversion H. destruct (n_suppress nd); split; try reflexivity; try discriminate; eauto.
    + destruct (orc o (pos s1)) as [len|]; [|discriminate].
      destruct (Nat.eqb len 0); inversion H; destruct (n_suppress nd); split; try reflexivity; try discriminate; eauto.
  - destruct (prs_nonmatch _ _ _ _ _ _ _ Hn Hm H) as [rb [s1 [Hb ->]]].
    pose proof (body_shape _ _ _ _ _ _ Hb) as Hs. cbn [orb] in Hl.
    unfold post.
    set (r1 := if (n_suppress nd || head_is_none rb)%bool then RNone else rb).
    assert (Hs1 : listy r1) by (unfold r1; destruct (n_suppress nd || head_is_none rb)%bool; [left; reflexivity | exact Hs]).
    destruct (is_pred_kind (n_kind nd)) eqn:Hp.
    + (* predicates return None *)
      assert (rb = RNone).
      { unfold body in Hb. destruct (n_kind nd); try discriminate.
        - destruct (seq_loop (prs f) false (n_kids nd) [] s); try discriminate. inversion Hb. reflexivity.
        - destruct (seq_loop (prs f) false (n_kids nd) [] s); try discriminate. inversion Hb. reflexivity.
        - inversion Hb. reflexivity. }
      subst rb. unfold r1. rewrite orb_false_r. destruct (n_suppress nd); cbn; rewrite andb_false_r; split; try reflexivity; discriminate.
    + cbn [orb] in Hl. apply andb_true_iff in Hl as [Hroot Hrule]. rewrite Hroot. cbn [andb].
      destruct (Peg.truthy r1) eqn:Ht.
      * assert (Hnp : is_ptnode r1 = false) by (destruct Hs1 as [-> | [l ->]]; reflexivity).
        rewrite Hnp. cbn [negb andb]. split; [|eauto].
        unfold res_nodes. cbn [flatten flat_map tree_nodes]. unfold is_rule, MultPeg.info in Hrule. unfold MultPeg.info.
        destruct (nth nid mm Build.IOther); try discriminate. reflexivity.
      * cbn [andb]. split; [apply listy_falsy; assumption | rewrite Ht; discriminate].
Qed.

(* ---------------------------------------------------------------- loops, given the specification of the children *)
Section Loops.
Variable rec : nat -> bool -> st -> out.

(* rec behaves on node k as the body x *)
Definition kid_ok (x : Mult.body) (k : nat) : Prop :=
  forall psq s r s', rec k psq s = Ok r s' -> cgood x r.

Fixpoint kids_ok (l : list Mult.body) (kids : list nat) : Prop :=
  match l, kids with
  | [], [] => True
  | x :: l', k :: kids' => kid_ok x k /\ kids_ok l' kids'
  | _, _ => False
  end.

Lemma seq_loop_spec psq : forall l kids, kids_ok l kids -> forall acc s r s',
  all_truthy acc -> seq_loop rec psq kids acc s = Ok r s' ->
  exists acc' ns, r = RList acc' /\ all_truthy acc' /\ rnodes (RList acc') = rnodes (RList acc) ++ ns
                  /\ emits_seq l (evs ns).
Proof.
  induction l as [|x l IH]; intros [|k kids] Hk acc s r s' Ha H; cbn [kids_ok] in Hk; try contradiction.
  - cbn [seq_loop] in H. inversion H. exists acc, []. rewrite app_nil_r. repeat split; auto.
  - destruct Hk as [Hx Hl]. cbn [seq_loop] in H.
    destruct (rec k psq s) as [r1 s1|s1|w] eqn:E; try discriminate.
    destruct (Hx _ _ _ _ E) as [G1 G2].
    destruct (Peg.truthy r1) eqn:Ht.
    + destruct (IH kids Hl _ _ _ _ (proj2 (Forall_app _ _ _) (conj Ha (Forall_cons _ Ht (Forall_nil _)))) H)
        as [acc' [ns [-> [Ha' [Hn He]]]]].
      exists acc', (rnodes r1 ++ ns). repeat split; auto.
      * rewrite Hn, rnodes_snoc, app_assoc. reflexivity.
      * cbn [emits_seq]. exists (evs (rnodes r1)), (evs ns). rewrite map_app. auto.
    + destruct (IH kids Hl _ _ _ _ Ha H) as [acc' [ns [-> [Ha' [Hn He]]]]].
      exists acc', ns. repeat split; auto.
      cbn [emits_seq]. exists [], (evs ns). auto.
Qed.

Lemma choice_loop_spec c_pos : forall l kids, kids_ok l kids -> forall s r s',
  choice_loop rec c_pos kids s = Ok r s' ->
  is_none r = true \/ exists x, In x l /\ cgood x r.
Proof.
  induction l as [|x l IH]; intros [|k kids] Hk s r s' H; cbn [kids_ok] in Hk; try contradiction.
  - cbn [choice_loop] in H. inversion H. left; reflexivity.
  - destruct Hk as [Hx Hl]. cbn [choice_loop] in H.
    destruct (rec k false s) as [r1 s1|s1|w] eqn:E; try discriminate.
    + destruct (is_none r1) eqn:En.
      * destruct (IH kids Hl _ _ _ H) as [K | [y [Hy K]]]; [left; exact K | right; exists y; split; [right; exact Hy | exact K]].
      * inversion H; subst. right. exists x. split; [left; reflexivity | eapply Hx, E].
    + destruct (IH kids Hl _ _ _ H) as [K | [y [Hy K]]]; [left; exact K | right; exists y; split; [right; exact Hy | exact K]].
Qed.

Lemma rep_loop_spec x e sep plus :
  kid_ok x e ->
  (forall sp, sep = Some sp -> forall psq s r s', rec sp psq s = Ok r s' -> rnodes r = []) ->
  forall k first acc s r s',
  all_truthy acc -> rep_loop rec e sep plus k first acc s = Ok r s' ->
  exists acc' ts, r = RList acc' /\ all_truthy acc' /\ rnodes (RList acc') = rnodes (RList acc) ++ concat ts
                  /\ Forall (fun t => emits x (evs t)) ts /\ ((plus && first)%bool = true -> ts <> []).
Proof.
  intros Hx Hsep. induction k as [|k IH]; intros first acc s r s' Ha H; cbn [rep_loop] in H; [discriminate|].
  assert (E : forall acc1 s1, all_truthy acc1 -> rnodes (RList acc1) = rnodes (RList acc) ->
             match rec e false s1 with
             | Ok r0 s2 => if Peg.truthy r0 then rep_loop rec e sep plus k false (acc1 ++ [r0]) s2 else Ok (RList acc1) s2
             | Fail s2 => if (plus && first)%bool then Fail (set_pos (pos s) s2) else Ok (RList acc1) (set_pos (pos s) s2)
             | Abort w => Abort w
             end = Ok r s' ->
             exists acc' ts, r = RList acc' /\ all_truthy acc' /\ rnodes (RList acc') = rnodes (RList acc) ++ concat ts
                  /\ Forall (fun t => emits x (evs t)) ts /\ ((plus && first)%bool = true -> ts <> [])).
  { intros acc1 s1 Ha1 Hn1 H1. destruct (rec e false s1) as [r0 s2|s2|w] eqn:Er; try discriminate.
    - destruct (Hx _ _ _ _ Er) as [G1 G2]. destruct (Peg.truthy r0) eqn:Ht.
      + destruct (IH _ _ _ _ _ (proj2 (Forall_app _ _ _) (conj Ha1 (Forall_cons _ Ht (Forall_nil _)))) H1)
          as [acc' [ts [-> [Ha' [Hn [Hf _]]]]]].
        exists acc', (rnodes r0 :: ts). refine (conj eq_refl (conj Ha' (conj _ (conj _ _)))).
        * rewrite Hn, rnodes_snoc, Hn1. cbn [concat]. rewrite app_assoc. reflexivity.
        * constructor; assumption.
        * intros _. discriminate.
      + inversion H1; subst. exists acc1, [[]]. refine (conj eq_refl (conj Ha1 (conj _ (conj _ _)))).
        * cbn [concat]. rewrite !app_nil_r. exact Hn1.
        * constructor; [apply G2; reflexivity | constructor].
        * intros _. discriminate.
    - destruct (plus && first)%bool; [discriminate|]. inversion H1; subst.
      exists acc1, []. refine (conj eq_refl (conj Ha1 (conj _ (conj _ _)))).
      + cbn [concat]. rewrite app_nil_r. exact Hn1.
      + constructor.
      + discriminate. }
  destruct sep as [sp|].
  - destruct first; [apply (E _ _ Ha eq_refl H)|].
    destruct (rec sp false s) as [sr s1|s1|w] eqn:Es; try discriminate.
    + apply (E _ _) in H; [exact H | |].
      * destruct (Peg.truthy sr) eqn:Ht; [|exact Ha]. apply Forall_app. split; [exact Ha | constructor; [exact Ht | constructor]].
      * destruct (Peg.truthy sr); [|reflexivity]. rewrite rnodes_snoc, (Hsep sp eq_refl _ _ _ _ Es). apply app_nil_r.
    + rewrite andb_false_r in H. inversion H; subst. exists acc, []. refine (conj eq_refl (conj Ha (conj _ (conj _ _)))).
      * cbn [concat]. rewrite app_nil_r. reflexivity.
      * constructor.
      * rewrite andb_false_r. discriminate.
  - apply (E _ _ Ha eq_refl H).
Qed.
End Loops.

(* kids_ok from the structural check, given the induction hypothesis for the sub-bodies *)
Definition sub_ok (x : Mult.body) : Prop :=
  forall nid, den g mm attr_id false x nid = true ->
  forall fuel psq s r s', prs fuel nid psq s = Ok r s' -> cgood x r.

Lemma each_kids_ok f l : Forall sub_ok l -> forall kids,
  (fix each (l : list Mult.body) (kids : list nat) : bool :=
     match l, kids with
     | [], [] => true
     | x :: l', k :: kids' => den g mm attr_id false x k && each l' kids'
     | _, _ => false
     end) l kids = true -> kids_ok (prs f) l kids.
Proof.
  induction 1 as [|x l Hx Hl IH]; intros [|k kids] H; try discriminate; cbn [kids_ok]; [exact I|].
  apply andb_true_iff in H as [H1 H2]. split; [|apply IH, H2].
  intros psq s r s' Hp. eapply Hx; eassumption.
Qed.

Lemma sep_leaf nd : sep_okb g nd = true -> forall sp, n_sep nd = Some sp ->
  forall f psq s r s', prs f sp psq s = Ok r s' -> rnodes r = [].
Proof.
  unfold sep_okb. intros H sp E f psq s r s' Hp. rewrite E in H.
  assert (Hl : leafb g mm sp = true).
  { unfold leafb. destruct (get_node g sp) as [sn|]; [|discriminate]. rewrite H. reflexivity. }
  exact (proj1 (leaf_parse sp Hl _ _ _ _ _ Hp)).
Qed.

(* ---------------------------------------------------------------- post *)
Lemma post_inner nid nd b rb :
  n_root nd = false -> n_suppress nd = false -> bgood b rb -> cgood b (post nid nd rb).
Proof.
  intros Hr Hs [Hl [H1 H3]]. unfold post. rewrite Hr, Hs. cbn [orb andb].
  destruct (head_is_none rb) eqn:Eh.
  - split; [cbn; apply H3; reflexivity | intros _; apply H3; reflexivity].
  - split; [exact H1|]. intro Ht. rewrite (listy_falsy _ Hl Ht) in H1. exact H1.
Qed.

Lemma post_top nid nd b rb :
  n_root nd = true -> n_suppress nd = false -> is_rule mm nid = true -> bgood b rb ->
  emits b (evs (top_nodes g mm attr_id conv (post nid nd rb))).
Proof.
  intros Hr Hs Hrule [Hl [H1 H3]]. unfold post. rewrite Hr, Hs. cbn [orb andb].
  set (r1 := if head_is_none rb then RNone else rb).
  assert (Hl1 : listy r1) by (unfold r1; destruct (head_is_none rb); [left; reflexivity | exact Hl]).
  assert (G1 : emits b (evs (rnodes r1))).
  { unfold r1. destruct (head_is_none rb); [apply H3; reflexivity | exact H1]. }
  assert (Hnp : is_ptnode r1 = false) by (destruct Hl1 as [-> | [l ->]]; reflexivity).
  rewrite Hnp. cbn [negb]. rewrite andb_true_r.
  destruct (Peg.truthy r1) eqn:Ht.
  - cbn [top_nodes]. exact G1.
  - rewrite (listy_falsy _ Hl1 Ht) in G1. destruct Hl1 as [-> | [l ->]]; exact G1.
Qed.

(* ---------------------------------------------------------------- assignment nodes *)
Lemma asg_parse nid nd a op :
  get_node g nid = Some nd -> asgb g mm attr_id nid nd a op = true ->
  forall fuel psq s r s', prs fuel nid psq s = Ok r s' -> cgood (BAsg a op) r.
Proof.
  intros Hn Ha fuel psq s r s' H. split; [|intros _; right; reflexivity].
  destruct fuel as [|f]; [discriminate|].
  unfold asgb in Ha. repeat (apply andb_true_iff in Ha; destruct Ha as [Ha ?]).
  rename H0 into Hsep, H1 into Hkids, H2 into Hinfo, H3 into Hsup. rename Ha into Hroot.
  apply negb_true_iff in Hsup.
  unfold MultPeg.info in Hinfo. destruct (nth nid mm Build.IOther) as [name o| | |] eqn:Ei; try discriminate.
  apply andb_true_iff in Hinfo as [Hid Hop]. apply Nat.eqb_eq in Hid.
  destruct (asg_op o (n_kind nd)) as [op'|] eqn:Eo; [|discriminate].
  assert (op' = op) by (destruct op, op'; try discriminate; reflexivity). subst op'.
  assert (Hm : is_match_kind (n_kind nd) = false) by (destruct o, (n_kind nd); try discriminate; reflexivity).
  destruct (prs_nonmatch _ _ _ _ _ _ _ Hn Hm H) as [rb [s1 [Hb ->]]].
  pose proof (body_shape _ _ _ _ _ _ Hb) as Hl.
  unfold post. rewrite Hroot, Hsup. cbn [orb andb].
  set (r1 := if head_is_none rb then RNone else rb).
  assert (Hl1 : listy r1) by (unfold r1; destruct (head_is_none rb); [left; reflexivity | exact Hl]).
  assert (Hnp : is_ptnode r1 = false) by (destruct Hl1 as [-> | [l ->]]; reflexivity).
  rewrite Hnp. cbn [negb]. rewrite andb_true_r.
  destruct (Peg.truthy r1) eqn:Ht.
  2:{ rewrite (listy_falsy _ Hl1 Ht). right. reflexivity. }
  unfold res_nodes. cbn [flatten flat_map tree_nodes]. unfold MultPeg.info. rewrite Ei, Hn, Eo. cbn [app map].
  left. eexists. split; [reflexivity|]. split; [cbn; exact Hid|]. split; [reflexivity|].
  unfold ev_ok. cbn [node_ev ev_op ev_vals n_op Mult.n_kids].
  destruct op; try exact I; try reflexivity.
  (* `=`: the Sequence around a truthy leaf result has exactly that one child *)
  destruct (n_kids nd) as [|rhs [|? ?]] eqn:Ek; try discriminate.
  assert (Hk : n_kind nd = KSeq) by (destruct o, (n_kind nd); try discriminate; reflexivity).
  unfold body in Hb. rewrite Hk, Ek in Hb. cbn [seq_loop] in Hb.
  destruct (prs f rhs true (enter_ws nd s)) as [rr s2|s2|w] eqn:Er; try discriminate.
  destruct (leaf_parse rhs Hkids _ _ _ _ _ Er) as [_ Hleaf].
  destruct (Peg.truthy rr) eqn:Etr.
  - destruct (Hleaf eq_refl) as [t ->]. cbn [app] in Hb. inversion Hb; subst rb.
    unfold r1. cbn [head_is_none flatten map app]. eexists. reflexivity.
  - cbn in Hb. inversion Hb; subst rb. unfold r1 in Ht. cbn in Ht. discriminate.
Qed.

(* ---------------------------------------------------------------- unordered groups *)
Section UG.
Variable rec : nat -> bool -> st -> out.
Variable bod : nat -> Mult.body.

Lemma ug_try_spec sf c_loc : forall todo mt s,
  (forall e, In e todo -> kid_ok rec (bod e) e) ->
  match ug_try rec sf c_loc todo mt s with
  | UGHit e r s2 => In e todo /\ Peg.truthy r = true /\ cgood (bod e) r
  | UGNone mt' s2 => mt' = true -> mt = true /\ Forall (fun e => emits (bod e) []) todo
  | UGAbort _ => True
  end.
Proof.
  induction todo as [|e todo IH]; intros mt s Hk; cbn [ug_try]; [intros H; split; [exact H | constructor]|].
  assert (Hk' : forall e0, In e0 todo -> kid_ok rec (bod e0) e0) by (intros e0 H0; apply Hk; right; exact H0).
  destruct (rec e false s) as [r s1|s1|w] eqn:E; [| |exact I].
  - destruct (Hk e (or_introl eq_refl) _ _ _ _ E) as [G1 G2].
    destruct (Peg.truthy r) eqn:Ht.
    + destruct sf.
      * specialize (IH false (set_pos c_loc s1) Hk').
        destruct (ug_try rec true c_loc todo false (set_pos c_loc s1)) as [e1 r1 s2|mt' s2|w]; [| |exact I].
        -- destruct IH as [I1 I2]. split; [right; exact I1 | exact I2].
        -- intro Hm. destruct (IH Hm) as [Hf _]. discriminate.
      * split; [left; reflexivity | split; [exact Ht | split; [exact G1 | intro Hf; rewrite Ht in Hf; discriminate]]].
    + specialize (IH mt s1 Hk').
      destruct (ug_try rec sf c_loc todo mt s1) as [e1 r1 s2|mt' s2|w]; [| |exact I].
      * destruct IH as [I1 I2]. split; [right; exact I1 | exact I2].
      * intro Hm. destruct (IH Hm) as [Hmt Hf]. split; [exact Hmt | constructor; [apply G2; reflexivity | exact Hf]].
  - specialize (IH false (set_pos c_loc s1) Hk').
    destruct (ug_try rec sf c_loc todo false (set_pos c_loc s1)) as [e1 r1 s2|mt' s2|w]; [| |exact I].
    + destruct IH as [I1 I2]. split; [right; exact I1 | exact I2].
    + intro Hm. destruct (IH Hm) as [Hf _]. discriminate.
Qed.

Lemma remove_first_perm e : forall todo, In e todo -> Permutation todo (e :: remove_first e todo).
Proof.
  induction todo as [|y todo IH]; intros H; [destruct H|]. cbn [remove_first].
  destruct (Nat.eqb e y) eqn:E.
  - apply Nat.eqb_eq in E. subst y. apply Permutation_refl.
  - destruct H as [->|H]; [rewrite Nat.eqb_refl in E; discriminate|].
    eapply Permutation_trans; [apply perm_skip, IH, H | apply perm_swap].
Qed.

Lemma remove_first_in e y todo : In y (remove_first e todo) -> In y todo.
Proof.
  induction todo as [|z todo IH]; cbn [remove_first]; [auto|].
  destruct (Nat.eqb e z); [intro H; right; exact H|]. intros [->|H]; [left; reflexivity | right; apply IH, H].
Qed.

Lemma ug_loop_spec sep :
  (forall sp, sep = Some sp -> forall psq s r s', rec sp psq s = Ok r s' -> rnodes r = []) ->
  forall n todo first sr acc s acc' s',
  (forall e, In e todo -> kid_ok rec (bod e) e) -> rnodes sr = [] -> all_truthy acc ->
  ug_loop rec sep n todo first sr acc s = UGDone true acc' s' ->
  all_truthy acc' /\
  exists (hs : list (nat * list anode)) (rest : list nat),
    Permutation todo (map fst hs ++ rest)
    /\ Forall (fun h => emits (bod (fst h)) (evs (snd h))) hs
    /\ Forall (fun e => emits (bod e) []) rest
    /\ rnodes (RList acc') = rnodes (RList acc) ++ concat (map snd hs).
Proof.
  intros Hsep. induction n as [|n IH]; intros todo first sr acc s acc' s' Hk Hsr Ha H.
  - destruct todo; cbn [ug_loop] in H; [|discriminate]. inversion H; subst.
    split; [exact Ha|]. exists [], []. cbn. rewrite app_nil_r. repeat split; constructor.
  - destruct todo as [|e0 todo0] eqn:Et; cbn [ug_loop] in H.
    { inversion H; subst. split; [exact Ha|]. exists [], []. cbn. rewrite app_nil_r. repeat split; constructor. }
    rewrite <- Et in *. clear Et.
    assert (C : forall sf sr1 s1, rnodes sr1 = [] ->
              match ug_try rec sf (pos s1) todo true s1 with
              | UGHit e r s2 => ug_loop rec sep n (remove_first e todo) false sr1
                                        ((if Peg.truthy sr1 then acc ++ [sr1] else acc) ++ [r]) s2
              | UGNone mt s2 => UGDone mt acc (set_pos (pos s) s2)
              | UGAbort w => UGOAbort w
              end = UGDone true acc' s' ->
              all_truthy acc' /\
              exists hs rest, Permutation todo (map fst hs ++ rest)
                /\ Forall (fun h => emits (bod (fst h)) (evs (snd h))) hs
                /\ Forall (fun e => emits (bod e) []) rest
                /\ rnodes (RList acc') = rnodes (RList acc) ++ concat (map snd hs)).
    { intros sf sr1 s1 Hsr1 H1. pose proof (ug_try_spec sf (pos s1) todo true s1 Hk) as T.
      destruct (ug_try rec sf (pos s1) todo true s1) as [e r s2|mt s2|w]; [| |discriminate].
      - destruct T as [Hin [Ht [G1 G2]]].
        assert (Ha2 : all_truthy ((if Peg.truthy sr1 then acc ++ [sr1] else acc) ++ [r])).
        { apply Forall_app. split; [|constructor; [exact Ht | constructor]].
          destruct (Peg.truthy sr1) eqn:Es; [|exact Ha]. apply Forall_app. split; [exact Ha | constructor; [exact Es | constructor]]. }
        assert (Hk2 : forall e1, In e1 (remove_first e todo) -> kid_ok rec (bod e1) e1)
          by (intros e1 H2; apply Hk; eapply remove_first_in; exact H2).
        destruct (IH _ _ _ _ _ _ _ Hk2 Hsr1 Ha2 H1) as [Ha' [hs [rest [P [F1 [F2 Hn]]]]]].
        split; [exact Ha'|]. exists ((e, rnodes r) :: hs), rest. cbn [map fst snd concat app].
        split; [eapply Permutation_trans; [apply remove_first_perm, Hin | apply perm_skip, P]|].
        split; [constructor; [exact G1 | exact F1]|]. split; [exact F2|].
        rewrite Hn, rnodes_snoc. rewrite app_assoc. f_equal. f_equal.
        destruct (Peg.truthy sr1); [|reflexivity]. rewrite rnodes_snoc, Hsr1. apply app_nil_r.
      - inversion H1; subst. destruct (T eq_refl) as [_ F].
        split; [exact Ha|]. exists [], todo. cbn [map concat app]. rewrite app_nil_r.
        repeat split; [apply Permutation_refl | constructor | exact F]. }
    destruct sep as [sp|].
    + destruct first; [apply (C false sr s Hsr H)|].
      destruct (rec sp false s) as [sr1 s1|s1|w] eqn:Es; [| |discriminate].
      * apply (C false sr1 s1 (Hsep sp eq_refl _ _ _ _ Es) H).
      * apply (C true sr (set_pos (pos s) s1) Hsr). cbn [pos set_pos] in *. exact H.
    + apply (C false sr s Hsr H).
Qed.
End UG.

(* ---------------------------------------------------------------- the body that goes with a group member *)
Lemma bod_kid_ok rec : forall l kids, kids_ok rec l kids ->
  forall e, In e kids -> kid_ok rec (bod_of kids l e) e.
Proof.
  induction l as [|x l IH]; intros [|k kids] Hk e Hin; cbn [kids_ok] in Hk; try contradiction.
  destruct Hk as [Hx Hl]. cbn [bod_of]. destruct (Nat.eqb e k) eqn:E.
  - apply Nat.eqb_eq in E. subst k. exact Hx.
  - destruct Hin as [->|Hin]; [rewrite Nat.eqb_refl in E; discriminate | apply IH; assumption].
Qed.

Lemma map_bod rec : forall l kids, kids_ok rec l kids -> nodupb kids = true -> map (bod_of kids l) kids = l.
Proof.
  induction l as [|x l IH]; intros [|k kids] Hk Hn; cbn [kids_ok] in Hk; try contradiction; [reflexivity|].
  destruct Hk as [_ Hl]. cbn [nodupb] in Hn. apply andb_true_iff in Hn as [Hnk Hn]. apply negb_true_iff in Hnk.
  cbn [map]. f_equal; [cbn [bod_of]; rewrite Nat.eqb_refl; reflexivity|].
  transitivity (map (bod_of kids l) kids); [|apply IH; assumption].
  apply map_ext_in. intros e He. cbn [bod_of]. destruct (Nat.eqb e k) eqn:E; [|reflexivity].
  apply Nat.eqb_eq in E. subst e. exfalso.
  assert (existsb (Nat.eqb k) kids = true) by (apply existsb_exists; exists k; split; [exact He | apply Nat.eqb_refl]).
  congruence.
Qed.

Lemma forall2_each l ts : Forall2 (fun x t => emits x t) l ts -> emits_each l ts.
Proof. induction 1; cbn [emits_each]; auto. Qed.

Lemma concat_nils {A B} (l : list B) : concat (map (fun _ => @nil A) l) = [].
Proof. induction l; [reflexivity | exact IHl]. Qed.

Lemma kind_eqb_eq k1 k2 : kind_eqb k1 k2 = true -> k1 = k2.
Proof. destruct k1, k2; try discriminate; reflexivity. Qed.

(* ---------------------------------------------------------------- the link *)
Definition link_stmt (b : Mult.body) : Prop :=
  forall top nid, den g mm attr_id top b nid = true ->
  forall fuel psq s r s', prs fuel nid psq s = Ok r s' ->
  if top return Prop then emits b (evs (top_nodes g mm attr_id conv r)) else cgood b r.

Lemma link_sub b : link_stmt b -> sub_ok b.
Proof. intros H nid Hd fuel psq s r s' Hp. exact (H false nid Hd fuel psq s r s' Hp). Qed.

Lemma finish (top : bool) nid nd b f psq s r s' :
  get_node g nid = Some nd ->
  (negb (n_suppress nd) && (if top then n_root nd && is_rule mm nid else negb (n_root nd)))%bool = true ->
  is_match_kind (n_kind nd) = false ->
  (forall rb s1, body (prs f) f nd s = Ok rb s1 -> bgood b rb) ->
  prs (S f) nid psq s = Ok r s' ->
  if top return Prop then emits b (evs (top_nodes g mm attr_id conv r)) else cgood b r.
Proof.
  intros Hn Hf Hm Hb Hp. destruct (prs_nonmatch _ _ _ _ _ _ _ Hn Hm Hp) as [rb [s1 [Eb ->]]].
  apply andb_true_iff in Hf as [Hs Hf]. apply negb_true_iff in Hs. specialize (Hb _ _ Eb).
  destruct top.
  - apply andb_true_iff in Hf as [Hr Hrule]. apply post_top; assumption.
  - apply negb_true_iff in Hf. apply post_inner; assumption.
Qed.

Theorem link b : link_stmt b.
Proof.
  induction b as [|a op|l IH|l IH|x IH|x IH|x IH|l IH] using body_ind'; intros top nid Hd fuel psq s r s' Hp;
    (destruct fuel as [|f]; [discriminate|]); cbn [den] in Hd;
    destruct (get_node g nid) as [nd|] eqn:Hn; try discriminate.
  - (* BTok *)
    apply andb_true_iff in Hd as [Ht Hl]. destruct top; [discriminate|].
    destruct (leaf_parse nid Hl _ _ _ _ _ Hp) as [L1 L2]. split.
    + rewrite L1. reflexivity.
    + intros _. reflexivity.
  - (* BAsg *)
    apply andb_true_iff in Hd as [Ht Ha]. destruct top; [discriminate|].
    eapply asg_parse; eassumption.
  - (* BSeq *)
    apply andb_true_iff in Hd as [Hd He]. apply andb_true_iff in Hd as [Hf Hk]. apply kind_eqb_eq in Hk.
    assert (Hko : kids_ok (prs f) l (n_kids nd)).
    { apply each_kids_ok; [|exact He]. eapply Forall_impl; [|exact IH]. intros y Hy. apply link_sub, Hy. }
    eapply finish; try eassumption; [rewrite Hk; reflexivity|].
    intros rb s1 Eb. unfold body in Eb. rewrite Hk in Eb.
    destruct (seq_loop (prs f) true (n_kids nd) [] (enter_ws nd s)) as [r1 s2|s2|w] eqn:E; try discriminate.
    destruct (seq_loop_spec (prs f) true l (n_kids nd) Hko [] _ _ _ (Forall_nil _) E) as [acc' [ns [-> [Ha [Hnn He']]]]].
    rewrite (rnodes_list []) in Hnn. cbn [map concat app] in Hnn.
    assert (G : emits (BSeq l) (evs (rnodes (RList acc')))) by (rewrite Hnn; apply emits_BSeq, He').
    destruct acc' as [|a0 acc'']; inversion Eb; subst rb.
    + split; [left; reflexivity|]. split; [exact G | discriminate].
    + split; [right; eauto|]. split; [exact G|]. rewrite (head_not_none _ Ha). discriminate.
  - (* BAlt *)
    apply andb_true_iff in Hd as [Hd He]. apply andb_true_iff in Hd as [Hf Hk]. apply kind_eqb_eq in Hk.
    assert (Hko : kids_ok (prs f) l (n_kids nd)).
    { apply each_kids_ok; [|exact He]. eapply Forall_impl; [|exact IH]. intros y Hy. apply link_sub, Hy. }
    eapply finish; try eassumption; [rewrite Hk; reflexivity|].
    intros rb s1 Eb. unfold body in Eb. rewrite Hk in Eb.
    destruct (choice_loop (prs f) (pos s) (n_kids nd) (enter_ws nd s)) as [r1 s2|s2|w] eqn:E; try discriminate.
    destruct (is_none r1) eqn:En; [discriminate|]. inversion Eb; subst rb.
    destruct (choice_loop_spec (prs f) (pos s) l (n_kids nd) Hko _ _ _ E) as [K | [y [Hy [G1 G2]]]]; [congruence|].
    split; [right; eauto|]. split.
    + rewrite rnodes_single. apply emits_BAlt. exists y. split; assumption.
    + destruct r1; try discriminate.
  - (* BOpt *)
    apply andb_true_iff in Hd as [Hd He]. apply andb_true_iff in Hd as [Hf Hk]. apply kind_eqb_eq in Hk.
    destruct (n_kids nd) as [|e [|? ?]] eqn:Ek; try discriminate.
    eapply finish; try eassumption; [rewrite Hk; reflexivity|].
    intros rb s1 Eb. unfold body in Eb. rewrite Hk, Ek in Eb.
    destruct (prs f e false s) as [r1 s2|s2|w] eqn:E; try discriminate; inversion Eb; subst rb.
    + destruct (link_sub x IH e He _ _ _ _ _ E) as [G1 G2].
      split; [right; eauto|]. split.
      * rewrite rnodes_single. right. exact G1.
      * intros _. left. reflexivity.
    + split; [left; reflexivity|]. split; [left; reflexivity | discriminate].
  - (* BStar *)
    apply andb_true_iff in Hd as [Hd He]. apply andb_true_iff in Hd as [Hd Hsp]. apply andb_true_iff in Hd as [Hf Hk].
    apply kind_eqb_eq in Hk. destruct (n_kids nd) as [|e [|? ?]] eqn:Ek; try discriminate.
    eapply finish; try eassumption; [rewrite Hk; reflexivity|].
    intros rb s1 Eb. unfold body in Eb. rewrite Hk, Ek in Eb.
    destruct (rep_loop (prs f) e (n_sep nd) false f true [] (enter_eol nd s)) as [r1 s2|s2|w] eqn:E; try discriminate.
    inversion Eb; subst rb.
    assert (Hx : kid_ok (prs f) x e) by (intros q s0 r0 s0' H0; eapply (link_sub x IH); eassumption).
    destruct (rep_loop_spec (prs f) x e (n_sep nd) false Hx (fun sp E0 q s0 r0 s0' H0 => sep_leaf nd Hsp sp E0 f q s0 r0 s0' H0)
                            _ _ _ _ _ _ (Forall_nil _) E) as [acc' [ts [-> [Ha [Hnn [Hf' _]]]]]].
    rewrite (rnodes_list []) in Hnn. cbn [map concat app] in Hnn.
    split; [right; eauto|]. split.
    + rewrite Hnn. cbn [emits]. exists (map evs ts). split; [apply concat_map|].
      apply Forall_map. exact Hf'.
    + rewrite (head_not_none _ Ha). discriminate.
  - (* BPlus *)
    apply andb_true_iff in Hd as [Hd He]. apply andb_true_iff in Hd as [Hd Hsp]. apply andb_true_iff in Hd as [Hf Hk].
    apply kind_eqb_eq in Hk. destruct (n_kids nd) as [|e [|? ?]] eqn:Ek; try discriminate.
    eapply finish; try eassumption; [rewrite Hk; reflexivity|].
    intros rb s1 Eb. unfold body in Eb. rewrite Hk, Ek in Eb.
    destruct (rep_loop (prs f) e (n_sep nd) true f true [] (enter_eol nd s)) as [r1 s2|s2|w] eqn:E; try discriminate.
    inversion Eb; subst rb.
    assert (Hx : kid_ok (prs f) x e) by (intros q s0 r0 s0' H0; eapply (link_sub x IH); eassumption).
    destruct (rep_loop_spec (prs f) x e (n_sep nd) true Hx (fun sp E0 q s0 r0 s0' H0 => sep_leaf nd Hsp sp E0 f q s0 r0 s0' H0)
                            _ _ _ _ _ _ (Forall_nil _) E) as [acc' [ts [-> [Ha [Hnn [Hf' Hne]]]]]].
    rewrite (rnodes_list []) in Hnn. cbn [map concat app] in Hnn.
    split; [right; eauto|]. split.
    + rewrite Hnn. cbn [emits]. exists (map evs ts). split; [|split; [apply concat_map | apply Forall_map; exact Hf']].
      intro Hnil. apply map_eq_nil in Hnil. exact (Hne eq_refl Hnil).
    + rewrite (head_not_none _ Ha). discriminate.
  - (* BUnord *)
    apply andb_true_iff in Hd as [Hd He]. apply andb_true_iff in Hd as [Hd Hnd]. apply andb_true_iff in Hd as [Hd Hsp].
    apply andb_true_iff in Hd as [Hf Hk]. apply kind_eqb_eq in Hk.
    assert (Hko : kids_ok (prs f) l (n_kids nd)).
    { apply each_kids_ok; [|exact He]. eapply Forall_impl; [|exact IH]. intros y Hy. apply link_sub, Hy. }
    eapply finish; try eassumption; [rewrite Hk; reflexivity|].
    intros rb s1 Eb. unfold body in Eb. rewrite Hk in Eb.
    destruct (n_kids nd) as [|k0 kids0] eqn:Ek; [discriminate|]. rewrite <- Ek in *.
    destruct (ug_loop (prs f) (n_sep nd) (S (length (n_kids nd))) (n_kids nd) true RNone [] (enter_eol nd s)) as [mt acc s2|w] eqn:E;
      [|discriminate].
    destruct mt; [|discriminate].
    set (bod := bod_of (n_kids nd) l).
    destruct (ug_loop_spec (prs f) bod (n_sep nd) (fun sp E0 q s0 r0 s0' H0 => sep_leaf nd Hsp sp E0 f q s0 r0 s0' H0)
                           _ _ _ _ _ _ _ _ (bod_kid_ok (prs f) l (n_kids nd) Hko) rnodes_none (Forall_nil _) E)
      as [Ha [hs [rest [P [F1 [F2 Hnn]]]]]].
    rewrite (rnodes_list []) in Hnn. cbn [map concat app] in Hnn.
    assert (G : emits (BUnord l) (evs (rnodes (RList acc)))).
    { apply emits_BUnord.
      set (ts' := map (fun h => evs (snd h)) hs ++ map (fun _ => @nil ev) rest).
      assert (F : Forall2 (fun y t => emits y t) (map bod (map fst hs ++ rest)) ts').
      { unfold ts'. rewrite map_app. apply Forall2_app.
        - clear - F1. induction F1 as [|h hs' Hh _ IHh]; cbn [map]; constructor; assumption.
        - clear - F2. induction F2 as [|e0 rest' He0 _ IHr]; cbn [map]; constructor; assumption. }
      assert (PL : Permutation (map bod (map fst hs ++ rest)) l).
      { rewrite <- (map_bod (prs f) l (n_kids nd) Hko Hnd). apply Permutation_map, Permutation_sym, P. }
      destruct (Permutation_Forall2 PL F) as [ts [Pts Fts]].
      exists ts, ts'. split; [apply Permutation_sym, Pts|]. split; [|apply forall2_each, Fts].
      rewrite Hnn. unfold ts'. rewrite concat_app, concat_nils, app_nil_r, concat_map, map_map. reflexivity. }
    destruct acc as [|a0 acc0]; inversion Eb; subst rb.
    + split; [left; reflexivity|]. split; [exact G | discriminate].
    + split; [right; eauto|]. split; [exact G|]. rewrite (head_not_none _ Ha). discriminate.
Qed.

(* the nodes read off a parse result are well-formed: separator children only below a repetition with a separator *)
Lemma tree_nodes_wf t : forallb node_wf (tnodes t) = true.
Proof.
  destruct t as [n p len sup|nid kids]; [reflexivity|]. cbn [tree_nodes].
  destruct (MultPeg.info mm nid) as [a o| | |]; try reflexivity.
  destruct (get_node g nid) as [nd|]; [|reflexivity].
  destruct (asg_op o (n_kind nd)) as [op|]; [|reflexivity].
  cbn [forallb]. rewrite andb_true_r. unfold node_wf. cbn [n_op n_has_sep Mult.n_kids].
  assert (K : forall ks, has_sep nd = false \/ is_list_op op = false ->
                         forallb (fun c => negb (c_sep c)) (map (child_of g conv nd op) ks) = true).
  { intros ks Hs. induction ks as [|k ks IHk]; [reflexivity|]. cbn [map forallb]. rewrite IHk, andb_true_r.
    unfold child_of. cbn [c_sep]. destruct Hs as [Hs|Hs].
    - unfold has_sep in Hs. destruct (n_sep nd); [discriminate|]. rewrite andb_false_r. reflexivity.
    - rewrite Hs. reflexivity. }
  destruct op; cbn [is_list_op andb].
  - apply K. right. reflexivity.
  - apply K. right. reflexivity.
  - destruct (has_sep nd) eqn:Hs; [reflexivity | apply K; left; reflexivity].
  - destruct (has_sep nd) eqn:Hs; [reflexivity | apply K; left; reflexivity].
Qed.

Lemma top_nodes_wf r : forallb node_wf (top_nodes g mm attr_id conv r) = true.
Proof.
  destruct r as [|t|l]; try reflexivity. destruct t as [|nid kids]; [reflexivity|]. cbn [top_nodes].
  induction kids as [|k kids IH]; [reflexivity|]. cbn [flat_map]. rewrite forallb_app, tree_nodes_wf, IH. reflexivity.
Qed.

(* The assignment nodes below the NonTerminal that the interpreter builds for a rule are a trace of the rule's body. *)
Theorem peg_result_is_trace b nid fuel psq s r s' :
  den g mm attr_id true b nid = true ->
  prs fuel nid psq s = Ok r s' ->
  emits b (evs (top_nodes g mm attr_id conv r)).
Proof. intros Hd Hp. exact (link b true nid Hd fuel psq s r s' Hp). Qed.

(* ... and therefore the builder stores exactly the values the elements matched, in order *)
Theorem parsed_values_in_order b nid fuel psq s r s' a d :
  den g mm attr_id true b nid = true -> grammar_ok b = true ->
  prs fuel nid psq s = Ok r s' -> Mult.truthy d = false ->
  let ns := top_nodes g mm attr_id conv r in
  Mult.build a (init_val (infer b a) d) (evs ns)
  = Mult.Ok (if is_list (infer b a) then AList (node_values a ns)
             else AScalar (match node_values a ns with [] => d | v :: _ => v end))
  /\ (is_list (infer b a) = false -> length (node_values a ns) <= 1).
Proof.
  intros Hd Hg Hp Ht ns. apply MultSepProofs.values_in_order_nodes; try assumption.
  - apply top_nodes_wf.
  - eapply peg_result_is_trace; eassumption.
Qed.

End Link.
